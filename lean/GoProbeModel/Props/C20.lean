import GoProbeModel.Model.C20
import GoProbeModel.Props.C22

/-!
C20 — property theorems: captured traffic is fully accounted for across write-outs.

Everything is stated over `C20.run` (Model/C20.lean), the flow log driven by an arbitrary list of
parsed packets and rotations, which computes with the regenerated `NewFlow`, `Flow.UpdateFlow`,
`Flow.Reset`, `Counters.Add`, `ClassifyPacketDirectionV4/V6`, `Reverse`, `IsProbablyReverse` and
key layout constants (Gen/FlowLog.lean, Gen/Classify.lean).
-/
namespace C20
open Gen.Classify Gen.FlowLog

/-! ## counters -/
theorem Cnt.ext4 {a b : Cnt} (h1 : a.br = b.br) (h2 : a.bs = b.bs) (h3 : a.pr = b.pr) (h4 : a.ps = b.ps) : a = b := by
  cases a; cases b; simp_all

@[simp] theorem Cnt.add_br (a b : Cnt) : (a + b).br = a.br + b.br := rfl
@[simp] theorem Cnt.add_bs (a b : Cnt) : (a + b).bs = a.bs + b.bs := rfl
@[simp] theorem Cnt.add_pr (a b : Cnt) : (a + b).pr = a.pr + b.pr := rfl
@[simp] theorem Cnt.add_ps (a b : Cnt) : (a + b).ps = a.ps + b.ps := rfl
@[simp] theorem Cnt.zero_br : Cnt.zero.br = 0 := rfl
@[simp] theorem Cnt.zero_bs : Cnt.zero.bs = 0 := rfl
@[simp] theorem Cnt.zero_pr : Cnt.zero.pr = 0 := rfl
@[simp] theorem Cnt.zero_ps : Cnt.zero.ps = 0 := rfl

theorem Cnt.add_comm (a b : Cnt) : a + b = b + a := by apply Cnt.ext4 <;> simp <;> omega
theorem Cnt.add_assoc (a b c : Cnt) : a + b + c = a + (b + c) := by apply Cnt.ext4 <;> simp <;> omega
@[simp] theorem Cnt.add_zero (a : Cnt) : a + Cnt.zero = a := by apply Cnt.ext4 <;> simp
@[simp] theorem Cnt.zero_add (a : Cnt) : Cnt.zero + a = a := by apply Cnt.ext4 <;> simp
theorem Cnt.add_left_comm (a b c : Cnt) : a + (b + c) = b + (a + c) := by apply Cnt.ext4 <;> simp <;> omega

@[simp] theorem sumC_nil : sumC [] = Cnt.zero := rfl
@[simp] theorem sumC_cons (c : Cnt) (cs : List Cnt) : sumC (c :: cs) = c + sumC cs := rfl
theorem sumC_append (a b : List Cnt) : sumC (a ++ b) = sumC a + sumC b := by
  induction a with
  | nil => simp
  | cons x xs ih => simp [ih, Cnt.add_assoc]

/-- contribution of a packet of type `pt` and size `sz` -/
def pktC (pt sz : Nat) : Cnt := if pt = 4 then ⟨0, sz, 0, 1⟩ else ⟨sz, 0, 1, 0⟩

theorem pktCnt_eq (p : Pkt) : pktCnt p = pktC p.ptype p.size := rfl

/-- the regenerated `NewFlow` accounts the packet exactly as the spec does -/
theorem cnt_newFlow (pt sz : Nat) : cntOfFlow (NewFlow pt sz) = pktC pt sz := by
  unfold NewFlow pktC cntOfFlow; split <;> rfl

/-- the regenerated `Flow.UpdateFlow` adds exactly the packet's contribution -/
theorem cnt_updateFlow (f : Flow) (pt sz : Nat) :
    cntOfFlow (Flow_UpdateFlow f pt sz) = cntOfFlow f + pktC pt sz := by
  unfold Flow_UpdateFlow pktC cntOfFlow
  split <;> (apply Cnt.ext4 <;> simp)

theorem cnt_reset (f : Flow) : cntOfFlow (Flow_Reset f) = Cnt.zero := by
  unfold Flow_Reset cntOfFlow; rfl

/-- bytes are only ever counted together with a packet -/
def Sane (f : Flow) : Prop := (f.PacketsRcvd = 0 → f.BytesRcvd = 0) ∧ (f.PacketsSent = 0 → f.BytesSent = 0)

theorem sane_new (pt sz : Nat) : Sane (NewFlow pt sz) := by
  unfold NewFlow Sane; split <;> simp
theorem sane_update (f : Flow) (pt sz : Nat) (h : Sane f) : Sane (Flow_UpdateFlow f pt sz) := by
  unfold Flow_UpdateFlow; unfold Sane at *; split <;> simp <;> omega
theorem sane_reset (f : Flow) : Sane (Flow_Reset f) := by
  unfold Flow_Reset Sane; simp

/-- the test of `transferAndAggregate`: the flow saw packets since the last rotation -/
def act (e : Key × Flow) : Bool := decide (e.2.PacketsRcvd > 0) || decide (e.2.PacketsSent > 0)

theorem cnt_of_not_act (e : Key × Flow) (hs : Sane e.2) (h : act e = false) : cntOfFlow e.2 = Cnt.zero := by
  unfold act at h; unfold Sane at hs; unfold cntOfFlow
  simp at h
  apply Cnt.ext4 <;> simp <;> omega

/-! ## the flow map -/
def keys (m : FMap) : List Key := m.map Prod.fst
def msum (m : FMap) : Cnt := sumC (m.map fun e => cntOfFlow e.2)

theorem has_iff (m : FMap) (k : Key) : has m k = true ↔ k ∈ keys m := by
  unfold has keys
  simp [List.any_eq_true]

theorem keys_upd (m : FMap) (k : Key) (pt sz : Nat) : keys (upd m k pt sz) = keys m := by
  unfold keys upd
  rw [List.map_map]
  apply List.map_congr_left
  intro e _; simp only [Function.comp]; split <;> rfl

theorem upd_of_not_mem (m : FMap) (k : Key) (pt sz : Nat) (h : k ∉ keys m) : upd m k pt sz = m := by
  induction m with
  | nil => rfl
  | cons e t ih =>
    simp only [keys, List.map_cons, List.mem_cons, not_or] at h
    have : upd (e :: t) k pt sz = (if e.1 = k then (e.1, Flow_UpdateFlow e.2 pt sz) else e) :: upd t k pt sz := rfl
    rw [this, ih h.2, if_neg (fun he => h.1 he.symm)]

theorem msum_upd (m : FMap) (k : Key) (pt sz : Nat) (hk : k ∈ keys m) (hn : (keys m).Nodup) :
    msum (upd m k pt sz) = msum m + pktC pt sz := by
  induction m with
  | nil => simp [keys] at hk
  | cons e t ih =>
    have hstep : upd (e :: t) k pt sz = (if e.1 = k then (e.1, Flow_UpdateFlow e.2 pt sz) else e) :: upd t k pt sz := rfl
    simp only [keys, List.map_cons, List.nodup_cons] at hn
    by_cases he : e.1 = k
    · have hnot : k ∉ keys t := he ▸ hn.1
      rw [hstep, if_pos he, upd_of_not_mem t k pt sz hnot]
      simp only [msum, List.map_cons, sumC_cons, cnt_updateFlow]
      apply Cnt.ext4 <;> simp <;> omega
    · have hk' : k ∈ keys t := by
        simp only [keys, List.map_cons, List.mem_cons] at hk
        rcases hk with h | h
        · exact absurd h.symm he
        · exact h
      rw [hstep, if_neg he]
      have := ih hk' hn.2
      simp only [msum, List.map_cons, sumC_cons] at this ⊢
      rw [this]; apply Cnt.ext4 <;> simp <;> omega
theorem msum_ins (m : FMap) (k : Key) (f : Flow) : msum (ins m k f) = cntOfFlow f + msum m := rfl
theorem keys_ins (m : FMap) (k : Key) (f : Flow) : keys (ins m k f) = k :: keys m := rfl

/-- what `addToFlowLogV4/V6` does, whatever the lookup order: it updates the one record found under
    the packet's tuple or its reverse, or — when neither is there — inserts one under one of the two -/
theorem addTo_cases (pr : Bool) (hr : Key) (rv : Bool) (m : FMap) (h : Key) (pt sz : Nat) :
    (∃ k, (k = h ∨ k = hr) ∧ k ∈ keys m ∧ addTo pr hr rv m h pt sz = upd m k pt sz) ∨
    (h ∉ keys m ∧ hr ∉ keys m ∧ ∃ k, (k = h ∨ k = hr) ∧ addTo pr hr rv m h pt sz = ins m k (NewFlow pt sz)) := by
  unfold addTo
  by_cases h1 : has m h = true <;> by_cases h2 : has m hr = true <;> cases pr <;> cases rv <;>
    simp only [h1, h2, if_true, if_false, Bool.false_eq_true] <;>
    first
    | exact Or.inl ⟨h, Or.inl rfl, (has_iff m h).1 h1, rfl⟩
    | exact Or.inl ⟨hr, Or.inr rfl, (has_iff m hr).1 h2, rfl⟩
    | exact Or.inr ⟨fun c => h1 ((has_iff m h).2 c), fun c => h2 ((has_iff m hr).2 c), h, Or.inl rfl, rfl⟩
    | exact Or.inr ⟨fun c => h1 ((has_iff m h).2 c), fun c => h2 ((has_iff m hr).2 c), hr, Or.inr rfl, rfl⟩

theorem addTo_msum (pr : Bool) (hr : Key) (rv : Bool) (m : FMap) (h : Key) (pt sz : Nat) (hn : (keys m).Nodup) :
    msum (addTo pr hr rv m h pt sz) = msum m + pktC pt sz := by
  rcases addTo_cases pr hr rv m h pt sz with ⟨k, _, hk, he⟩ | ⟨_, _, k, _, he⟩
  · rw [he, msum_upd m k pt sz hk hn]
  · rw [he, msum_ins, cnt_newFlow, Cnt.add_comm]

/-- the invariant of one flow map: one entry per key, keys of the hash size, never a tuple together
    with its (different) reverse, bytes only together with packets -/
structure Inv (rev : Key → Key) (n : Nat) (m : FMap) : Prop where
  nodup : (keys m).Nodup
  len : ∀ k ∈ keys m, k.length = n
  one : ∀ k ∈ keys m, rev k ∈ keys m → rev k = k
  sane : ∀ e ∈ m, Sane e.2

theorem mem_upd {m : FMap} {k : Key} {pt sz : Nat} {e : Key × Flow} (he : e ∈ upd m k pt sz) :
    ∃ e' ∈ m, e.1 = e'.1 ∧ (e.2 = e'.2 ∨ (e'.1 = k ∧ e.2 = Flow_UpdateFlow e'.2 pt sz)) := by
  unfold upd at he
  rw [List.mem_map] at he
  obtain ⟨e', hm, rfl⟩ := he
  refine ⟨e', hm, ?_⟩
  split
  · rename_i hk; exact ⟨rfl, Or.inr ⟨hk, rfl⟩⟩
  · exact ⟨rfl, Or.inl rfl⟩

theorem addTo_inv (rev : Key → Key) (n : Nat) (hlen : ∀ k, (rev k).length = n)
    (hrr : ∀ k, k.length = n → rev (rev k) = k)
    (pr rv : Bool) (m : FMap) (h : Key) (pt sz : Nat) (hh : h.length = n) (hi : Inv rev n m) :
    Inv rev n (addTo pr (rev h) rv m h pt sz) := by
  rcases addTo_cases pr (rev h) rv m h pt sz with ⟨k, _, hk, he⟩ | ⟨h1, h2, k, hk, he⟩
  · rw [he]
    refine ⟨by rw [keys_upd]; exact hi.nodup, by rw [keys_upd]; exact hi.len, by rw [keys_upd]; exact hi.one, ?_⟩
    intro e hm
    obtain ⟨e', hm', _, h2 | ⟨_, h2⟩⟩ := mem_upd hm
    · rw [h2]; exact hi.sane e' hm'
    · rw [h2]; exact sane_update _ _ _ (hi.sane e' hm')
  · rw [he]
    have hkn : k ∉ keys m := by rcases hk with rfl | rfl <;> assumption
    have hkl : k.length = n := by rcases hk with rfl | rfl; exact hh; exact hlen h
    have hrk : rev k ∉ keys m := by
      rcases hk with rfl | rfl
      · exact h2
      · rw [hrr h hh]; exact h1
    refine ⟨?_, ?_, ?_, ?_⟩
    · rw [keys_ins]; exact List.nodup_cons.2 ⟨hkn, hi.nodup⟩
    · intro k' hk'; rw [keys_ins, List.mem_cons] at hk'
      rcases hk' with rfl | hk'
      · exact hkl
      · exact hi.len k' hk'
    · intro k' hk' hr'
      rw [keys_ins, List.mem_cons] at hk' hr'
      rcases hk' with rfl | hk'
      · rcases hr' with hr' | hr'
        · exact hr'
        · exact absurd hr' hrk
      · rcases hr' with hr' | hr'
        · -- rev k' = k, hence k' = rev k, which is not in the map
          have : k' = rev k := by rw [← hr', hrr k' (hi.len k' hk')]
          exact absurd (this ▸ hk') hrk
        · exact hi.one k' hk' hr'
    · intro e hm
      unfold ins at hm; rw [List.mem_cons] at hm
      rcases hm with rfl | hm
      · exact sane_new pt sz
      · exact hi.sane e hm


/-! ## `Reverse()` on byte lists -/

theorem ofList_toList (n : Nat) (f : Nat → Nat) (j : Nat) (hj : j < n) : ofList (toList n f) j = f j := by
  unfold ofList toList
  simp [List.getD_eq_getElem?_getD, hj]

theorem revV4_length (h : Key) : (revV4 h).length = 13 := by simp [revV4, toList, EPHashSizeV4]
theorem revV6_length (h : Key) : (revV6 h).length = 37 := by simp [revV6, toList, EPHashSizeV6]

theorem reverse_congr_v4 (f g : Nat → Nat) (hfg : ∀ j, j < 13 → f j = g j) (i : Nat) (hi : i < 13) :
    EPHashV4_Reverse f i = EPHashV4_Reverse g i := by
  rw [C22.reverse_v4 f i hi, C22.reverse_v4 g i hi]
  split
  · exact hfg _ (by omega)
  · split
    · exact hfg _ (by omega)
    · exact hfg _ (by omega)

theorem reverse_congr_v6 (f g : Nat → Nat) (hfg : ∀ j, j < 37 → f j = g j) (i : Nat) (hi : i < 37) :
    EPHashV6_Reverse f i = EPHashV6_Reverse g i := by
  rw [C22.reverse_v6 f i hi, C22.reverse_v6 g i hi]
  split
  · exact hfg _ (by omega)
  · split
    · exact hfg _ (by omega)
    · exact hfg _ (by omega)

theorem toList_ofList (n : Nat) (h : Key) (hl : h.length = n) : toList n (ofList h) = h := by
  apply List.ext_getElem
  · simp [toList, hl]
  · intro i h1 h2
    simp [toList, ofList, List.getD_eq_getElem?_getD, h2]

/-- `Reverse()` is an involution on 13-byte tuples (from C22's theorem on the regenerated function) -/
theorem revV4_revV4 (h : Key) (hl : h.length = 13) : revV4 (revV4 h) = h := by
  have : toList 13 (EPHashV4_Reverse (ofList (revV4 h))) = toList 13 (ofList h) := by
    unfold toList
    apply List.map_congr_left
    intro i hi
    rw [List.mem_range] at hi
    rw [reverse_congr_v4 (ofList (revV4 h)) (EPHashV4_Reverse (ofList h))
      (fun j hj => ofList_toList 13 _ j hj) i hi]
    exact C22.reverse_reverse_v4 _ i hi
  show toList EPHashSizeV4 _ = h
  rw [show EPHashSizeV4 = 13 from rfl, this, toList_ofList 13 h hl]

theorem revV6_revV6 (h : Key) (hl : h.length = 37) : revV6 (revV6 h) = h := by
  have : toList 37 (EPHashV6_Reverse (ofList (revV6 h))) = toList 37 (ofList h) := by
    unfold toList
    apply List.map_congr_left
    intro i hi
    rw [List.mem_range] at hi
    rw [reverse_congr_v6 (ofList (revV6 h)) (EPHashV6_Reverse (ofList h))
      (fun j hj => ofList_toList 37 _ j hj) i hi]
    exact C22.reverse_reverse_v6 _ i hi
  show toList EPHashSizeV6 _ = h
  rw [show EPHashSizeV6 = 37 from rfl, this, toList_ofList 37 h hl]

/-- the regenerated `Reverse()` is the spec's mirror image -/
theorem revV4_eq_mirror (h : Key) (hl : h.length = 13) : revV4 h = mirror h := by
  apply List.ext_getElem
  · simp [revV4_length, mirror, hl]
  · intro i h1 h2
    rw [revV4_length] at h1
    simp only [revV4, toList, List.getElem_map, List.getElem_range, show EPHashSizeV4 = 13 from rfl]
    rw [C22.reverse_v4 _ i h1]
    simp only [mirror, hl, ofList]
    simp [List.getElem_append, List.getD_eq_getElem?_getD]
    simp only [hl, Nat.reduceSub, show min 6 13 = 6 from rfl, show min 6 7 = 6 from rfl]
    by_cases c1 : i < 6
    · rw [if_pos c1, dif_pos c1, List.getElem?_eq_getElem (by omega)]
      simp only [Option.getD_some]; congr 1; omega
    · by_cases c2 : i < 12
      · rw [if_neg c1, if_pos c2, dif_neg c1, dif_pos (by omega), List.getElem?_eq_getElem (by omega)]
        simp only [Option.getD_some]
      · have : i = 12 := by omega
        subst this
        simp [List.getElem?_eq_getElem (show 12 < h.length by omega)]

/-! ## DB keys -/

theorem copyInto_eq (dst src : List Nat) (lo hi : Nat) (h1 : hi - lo = src.length) :
    copyInto dst lo hi src = dst.take lo ++ src ++ dst.drop (lo + src.length) := by
  unfold copyInto
  simp [h1]

theorem put_eq (buf h : Key) (a w : Nat) (hb : buf.length = a + w) (hl : h.length = a + 2 + w) :
    copyInto (copyInto buf 0 (0 + a) (slice h 0 a)) a (a + w) (slice h (a + 2) (a + 2 + w)) = h.take a ++ h.drop (a + 2) := by
  have s1 : (slice h 0 a).length = a := by simp [slice, hl]; omega
  have s2 : (slice h (a + 2) (a + 2 + w)).length = w := by simp [slice, hl]
  rw [copyInto_eq buf _ 0 (0 + a) (by simp [s1])]
  rw [copyInto_eq _ _ a (a + w) (by simp [s2])]
  simp only [List.take_zero, List.nil_append, s1, s2, Nat.zero_add]
  have e1 : (slice h 0 a ++ List.drop a buf).take a = slice h 0 a := by
    rw [List.take_append_of_le_length (by omega), List.take_of_length_le (by omega)]
  have e2 : (slice h 0 a ++ List.drop a buf).drop (a + w) = [] := by
    apply List.drop_of_length_le; simp [s1, hb]
  rw [e1, e2, List.append_nil]
  have e3 : slice h 0 a = h.take a := by simp [slice]
  have e4 : slice h (a + 2) (a + 2 + w) = h.drop (a + 2) := by
    unfold slice; apply List.take_of_length_le; simp [hl]
  rw [e3, e4]

theorem putV4_eq (buf h : Key) (hb : buf.length = 11) (hl : h.length = 13) :
    putV4 buf h = h.take 4 ++ h.drop 6 := put_eq buf h 4 7 hb hl

theorem putV6_eq (buf h : Key) (hb : buf.length = 35) (hl : h.length = 37) :
    putV6 buf h = h.take 16 ++ h.drop 18 := put_eq buf h 16 19 hb hl

theorem putV4_spec (buf h : Key) (hb : buf.length = 11) (hl : h.length = 13) : putV4 buf h = dbKeyOf h := by
  rw [putV4_eq buf h hb hl]; simp [dbKeyOf, hl]
theorem putV6_spec (buf h : Key) (hb : buf.length = 35) (hl : h.length = 37) : putV6 buf h = dbKeyOf h := by
  rw [putV6_eq buf h hb hl]; simp [dbKeyOf, hl]

/-! ## the aggregate map -/
def akeys (a : Agg) : List Key := a.map Prod.fst
def asum (a : Agg) : Cnt := sumC (a.map fun e => cntOfCounters e.2)
/-- what the aggregate holds for DB key `κ` -/
def aval (a : Agg) (κ : Key) : Cnt := sumC ((a.filter fun e => e.1 == κ).map fun e => cntOfCounters e.2)

theorem cnt_counters_add (x y : Counters) : cntOfCounters (Counters_Add x y) = cntOfCounters x + cntOfCounters y := by
  unfold Counters_Add cntOfCounters; apply Cnt.ext4 <;> simp

theorem any_key_iff (a : Agg) (k : Key) : (a.any fun e => e.1 == k) = true ↔ k ∈ akeys a := by
  unfold akeys; simp [List.any_eq_true]

def bump (a : Agg) (k : Key) (c : Counters) : Agg := a.map fun e => if e.1 = k then (e.1, Counters_Add e.2 c) else e

theorem setOrUpdate_eq (a : Agg) (k : Key) (x y z w : Nat) :
    setOrUpdate a k x y z w = if k ∈ akeys a then bump a k ⟨x, y, z, w⟩ else a ++ [(k, ⟨x, y, z, w⟩)] := by
  unfold setOrUpdate bump
  by_cases h : k ∈ akeys a
  · rw [if_pos ((any_key_iff a k).2 h), if_pos h]
  · rw [if_neg (fun c => h ((any_key_iff a k).1 c)), if_neg h]

theorem akeys_bump (a : Agg) (k : Key) (c : Counters) : akeys (bump a k c) = akeys a := by
  unfold akeys bump; rw [List.map_map]; apply List.map_congr_left
  intro e _; simp only [Function.comp]; split <;> rfl

theorem bump_of_not_mem (a : Agg) (k : Key) (c : Counters) (h : k ∉ akeys a) : bump a k c = a := by
  induction a with
  | nil => rfl
  | cons e t ih =>
    simp only [akeys, List.map_cons, List.mem_cons, not_or] at h
    have : bump (e :: t) k c = (if e.1 = k then (e.1, Counters_Add e.2 c) else e) :: bump t k c := rfl
    rw [this, ih h.2, if_neg (fun he => h.1 he.symm)]

theorem aval_bump (a : Agg) (k : Key) (c : Counters) (κ : Key) (hk : k ∈ akeys a) (hn : (akeys a).Nodup) :
    aval (bump a k c) κ = aval a κ + (if k = κ then cntOfCounters c else Cnt.zero) := by
  induction a with
  | nil => simp [akeys] at hk
  | cons e t ih =>
    have hstep : bump (e :: t) k c = (if e.1 = k then (e.1, Counters_Add e.2 c) else e) :: bump t k c := rfl
    simp only [akeys, List.map_cons, List.nodup_cons] at hn
    by_cases he : e.1 = k
    · have hnot : k ∉ akeys t := he ▸ hn.1
      rw [hstep, if_pos he, bump_of_not_mem t k c hnot]
      unfold aval
      by_cases hκ : k = κ
      · subst hκ
        simp only [List.filter_cons, he, beq_self_eq_true, if_true, List.map_cons, sumC_cons, cnt_counters_add]
        apply Cnt.ext4 <;> simp <;> omega
      · have : (e.1 == κ) = false := by simp [he, hκ]
        simp only [List.filter_cons, this, if_neg hκ, Cnt.add_zero]; simp
    · have hk' : k ∈ akeys t := by
        simp only [akeys, List.map_cons, List.mem_cons] at hk
        rcases hk with h | h
        · exact absurd h.symm he
        · exact h
      rw [hstep, if_neg he]
      have := ih hk' hn.2
      unfold aval at this ⊢
      simp only [List.filter_cons]
      split
      · simp only [List.map_cons, sumC_cons, this, Cnt.add_assoc]
      · exact this

theorem aval_append_new (a : Agg) (k : Key) (c : Counters) (κ : Key) :
    aval (a ++ [(k, c)]) κ = aval a κ + (if k = κ then cntOfCounters c else Cnt.zero) := by
  unfold aval
  rw [List.filter_append, List.map_append, sumC_append]
  by_cases hκ : k = κ
  · simp [hκ]
  · simp [hκ]

theorem asum_eq_aval_sum (a : Agg) (k : Key) (c : Counters) (hk : k ∈ akeys a) (hn : (akeys a).Nodup) :
    asum (bump a k c) = asum a + cntOfCounters c := by
  induction a with
  | nil => simp [akeys] at hk
  | cons e t ih =>
    have hstep : bump (e :: t) k c = (if e.1 = k then (e.1, Counters_Add e.2 c) else e) :: bump t k c := rfl
    simp only [akeys, List.map_cons, List.nodup_cons] at hn
    by_cases he : e.1 = k
    · have hnot : k ∉ akeys t := he ▸ hn.1
      rw [hstep, if_pos he, bump_of_not_mem t k c hnot]
      simp only [asum, List.map_cons, sumC_cons, cnt_counters_add]
      apply Cnt.ext4 <;> simp <;> omega
    · have hk' : k ∈ akeys t := by
        simp only [akeys, List.map_cons, List.mem_cons] at hk
        rcases hk with h | h
        · exact absurd h.symm he
        · exact h
      rw [hstep, if_neg he]
      have := ih hk' hn.2
      simp only [asum, List.map_cons, sumC_cons] at this ⊢
      rw [this, Cnt.add_assoc]

/-- the properties of an aggregate that `SetOrUpdate` maintains -/
structure AggOK (a : Agg) : Prop where
  nodup : (akeys a).Nodup
  pos : ∀ e ∈ a, 0 < e.2.PacketsRcvd + e.2.PacketsSent

theorem setOrUpdate_ok (a : Agg) (k : Key) (x y z w : Nat) (ha : AggOK a) (hp : 0 < z + w) :
    AggOK (setOrUpdate a k x y z w) := by
  rw [setOrUpdate_eq]
  split
  · refine ⟨by rw [akeys_bump]; exact ha.nodup, ?_⟩
    intro e he
    unfold bump at he; rw [List.mem_map] at he
    obtain ⟨e', hm, rfl⟩ := he
    have := ha.pos e' hm
    split
    · simp only [Counters_Add]; omega
    · exact this
  · rename_i hk
    refine ⟨?_, ?_⟩
    · unfold akeys at hk ⊢
      rw [List.map_append, List.nodup_append]
      refine ⟨ha.nodup, by simp, ?_⟩
      intro x hx y hy
      simp at hy; subst hy
      intro hxy; exact hk (hxy ▸ hx)
    · intro e he
      rw [List.mem_append] at he
      rcases he with he | he
      · exact ha.pos e he
      · simp at he; subst he; simpa using hp

theorem setOrUpdate_asum (a : Agg) (k : Key) (x y z w : Nat) (ha : (akeys a).Nodup) :
    asum (setOrUpdate a k x y z w) = asum a + ⟨x, y, z, w⟩ := by
  rw [setOrUpdate_eq]
  split
  · rename_i hk; exact asum_eq_aval_sum a k _ hk ha
  · simp [asum, sumC_append, cntOfCounters]

theorem setOrUpdate_aval (a : Agg) (k : Key) (x y z w : Nat) (κ : Key) (ha : (akeys a).Nodup) :
    aval (setOrUpdate a k x y z w) κ = aval a κ + (if k = κ then ⟨x, y, z, w⟩ else Cnt.zero) := by
  rw [setOrUpdate_eq]
  split
  · rename_i hk; exact aval_bump a k _ κ hk ha
  · exact aval_append_new a k _ κ

theorem setOrUpdate_keys (a : Agg) (k : Key) (x y z w : Nat) (κ : Key) :
    κ ∈ akeys (setOrUpdate a k x y z w) ↔ κ ∈ akeys a ∨ κ = k := by
  rw [setOrUpdate_eq]
  split
  · rename_i hk; rw [akeys_bump]
    constructor
    · exact Or.inl
    · rintro (h | h)
      · exact h
      · exact h ▸ hk
  · simp [akeys]


/-! ## rotation -/

/-- the aggregate built from the flows `l` (already filtered) with the key conversion `dbk` -/
def aggOf (dbk : Key → Key) (l : FMap) (a0 : Agg) : Agg :=
  l.foldl (fun a e => setOrUpdate a (dbk e.1) e.2.BytesRcvd e.2.BytesSent e.2.PacketsRcvd e.2.PacketsSent) a0

theorem aggOf_cons (dbk : Key → Key) (e : Key × Flow) (l : FMap) (a0 : Agg) :
    aggOf dbk (e :: l) a0 = aggOf dbk l (setOrUpdate a0 (dbk e.1) e.2.BytesRcvd e.2.BytesSent e.2.PacketsRcvd e.2.PacketsSent) := rfl

theorem act_pos (e : Key × Flow) (h : act e = true) : 0 < e.2.PacketsRcvd + e.2.PacketsSent := by
  unfold act at h; simp at h; omega

theorem aggOf_ok (dbk : Key → Key) (l : FMap) (a0 : Agg) (h0 : AggOK a0) (hl : ∀ e ∈ l, act e = true) :
    AggOK (aggOf dbk l a0) := by
  induction l generalizing a0 with
  | nil => exact h0
  | cons e t ih =>
    rw [aggOf_cons]
    exact ih _ (setOrUpdate_ok a0 _ _ _ _ _ h0 (act_pos e (hl e (List.mem_cons_self ..))))
      (fun e' he' => hl e' (List.mem_cons_of_mem _ he'))

theorem aggOf_asum (dbk : Key → Key) (l : FMap) (a0 : Agg) (h0 : AggOK a0) (hl : ∀ e ∈ l, act e = true) :
    asum (aggOf dbk l a0) = asum a0 + msum l := by
  induction l generalizing a0 with
  | nil => simp [aggOf, msum]
  | cons e t ih =>
    rw [aggOf_cons, ih _ (setOrUpdate_ok a0 _ _ _ _ _ h0 (act_pos e (hl e (List.mem_cons_self ..))))
      (fun e' he' => hl e' (List.mem_cons_of_mem _ he')), setOrUpdate_asum _ _ _ _ _ _ h0.nodup]
    simp only [msum, List.map_cons, sumC_cons, Cnt.add_assoc]
    rfl

/-- what the aggregate holds for a DB key is the sum over the flows stored under that DB key -/
theorem aggOf_aval (dbk : Key → Key) (l : FMap) (a0 : Agg) (h0 : AggOK a0) (hl : ∀ e ∈ l, act e = true) (κ : Key) :
    aval (aggOf dbk l a0) κ = aval a0 κ + msum (l.filter fun e => dbk e.1 == κ) := by
  induction l generalizing a0 with
  | nil => simp [aggOf, msum]
  | cons e t ih =>
    rw [aggOf_cons, ih _ (setOrUpdate_ok a0 _ _ _ _ _ h0 (act_pos e (hl e (List.mem_cons_self ..))))
      (fun e' he' => hl e' (List.mem_cons_of_mem _ he')), setOrUpdate_aval _ _ _ _ _ _ _ h0.nodup]
    by_cases hκ : dbk e.1 = κ
    · simp only [hκ, if_true, List.filter_cons, beq_self_eq_true, msum, List.map_cons, sumC_cons, Cnt.add_assoc]
      rfl
    · have : (dbk e.1 == κ) = false := by simp [hκ]
      simp only [if_neg hκ, List.filter_cons, this, Cnt.add_zero]; simp

theorem aggOf_keys (dbk : Key → Key) (l : FMap) (a0 : Agg) (κ : Key) :
    κ ∈ akeys (aggOf dbk l a0) ↔ κ ∈ akeys a0 ∨ ∃ e ∈ l, κ = dbk e.1 := by
  induction l generalizing a0 with
  | nil => simp [aggOf]
  | cons e t ih =>
    rw [aggOf_cons, ih, setOrUpdate_keys]
    simp only [List.mem_cons, exists_eq_or_imp]
    constructor
    · rintro ((h | h) | h)
      · exact Or.inl h
      · exact Or.inr (Or.inl h)
      · exact Or.inr (Or.inr h)
    · rintro (h | h | h)
      · exact Or.inl (Or.inl h)
      · exact Or.inl (Or.inr h)
      · exact Or.inr h

/-- the key conversion in the reused buffer always yields `dbk`, whatever the buffer held before -/
def PutOK (put : Key → Key → Key) (dbk : Key → Key) (W n : Nat) : Prop :=
  ∀ buf k, buf.length = W → k.length = n → put buf k = dbk k ∧ (dbk k).length = W

theorem putOK_v4 : PutOK putV4 dbKeyOf 11 13 := by
  intro buf k hb hk
  refine ⟨putV4_spec buf k hb hk, ?_⟩
  simp [dbKeyOf, hk]

theorem putOK_v6 : PutOK putV6 dbKeyOf 35 37 := by
  intro buf k hb hk
  refine ⟨putV6_spec buf k hb hk, ?_⟩
  simp [dbKeyOf, hk]

def resetAll (l : FMap) : FMap := l.map fun e => (e.1, Flow_Reset e.2)

/-- the loop body of `transferAndAggregate` for a flow that saw packets -/
def rotNext (put : Key → Key → Key) (s : RotSt) (e : Key × Flow) : RotSt :=
  { buf := put s.buf e.1, totals := Counters_Add s.totals (toCounters e.2),
    agg := setOrUpdate s.agg (put s.buf e.1) e.2.BytesRcvd e.2.BytesSent e.2.PacketsRcvd e.2.PacketsSent,
    kept := s.kept ++ [(e.1, Flow_Reset e.2)] }

theorem rotStep_act (put : Key → Key → Key) (s : RotSt) (e : Key × Flow) (h : act e = true) :
    rotStep put s e = rotNext put s e := by
  unfold rotStep rotNext; unfold act at h; rw [if_pos h]

theorem rotStep_idle (put : Key → Key → Key) (s : RotSt) (e : Key × Flow) (h : act e = false) :
    rotStep put s e = s := by
  unfold rotStep; unfold act at h; rw [if_neg (by simp [h])]

/-- the loop of `transferAndAggregate` over one map, in closed form -/
theorem rot_fold (put : Key → Key → Key) (dbk : Key → Key) (W n : Nat) (hput : PutOK put dbk W n)
    (m : FMap) (s : RotSt) (hm : ∀ k ∈ keys m, k.length = n) (hs : s.buf.length = W) :
    (m.foldl (rotStep put) s).buf.length = W ∧
    (m.foldl (rotStep put) s).kept = s.kept ++ resetAll (m.filter act) ∧
    cntOfCounters (m.foldl (rotStep put) s).totals = cntOfCounters s.totals + msum (m.filter act) ∧
    (m.foldl (rotStep put) s).agg = aggOf dbk (m.filter act) s.agg := by
  induction m generalizing s with
  | nil => simp [resetAll, msum, aggOf, hs]
  | cons e t ih =>
    have ht : ∀ k ∈ keys t, k.length = n := fun k hk => hm k (by simp [keys] at hk ⊢; exact Or.inr hk)
    have he : e.1.length = n := hm e.1 (by simp [keys])
    rw [List.foldl_cons]
    by_cases ha : act e = true
    · obtain ⟨hp1, hp2⟩ := hput s.buf e.1 hs he
      rw [rotStep_act put s e ha]
      have hb : (rotNext put s e).buf.length = W := by show (put s.buf e.1).length = W; rw [hp1]; exact hp2
      obtain ⟨h1, h2, h3, h4⟩ := ih (rotNext put s e) ht hb
      rw [show (rotNext put s e).kept = s.kept ++ [(e.1, Flow_Reset e.2)] from rfl] at h2
      rw [show (rotNext put s e).totals = Counters_Add s.totals (toCounters e.2) from rfl] at h3
      rw [show (rotNext put s e).agg = setOrUpdate s.agg (put s.buf e.1) e.2.BytesRcvd e.2.BytesSent e.2.PacketsRcvd e.2.PacketsSent from rfl] at h4
      refine ⟨h1, ?_, ?_, ?_⟩
      · rw [h2]; simp [ha, resetAll]
      · rw [h3]; simp only [List.filter_cons, ha, if_true, msum, List.map_cons, sumC_cons, cnt_counters_add, Cnt.add_assoc]
        rfl
      · rw [h4, hp1]; simp only [List.filter_cons, ha, if_true]; rfl
    · have ha' : act e = false := by simpa using ha
      rw [rotStep_idle put s e ha']
      obtain ⟨h1, h2, h3, h4⟩ := ih s ht hs
      simp only [List.filter_cons, ha', Bool.false_eq_true, if_false]
      exact ⟨h1, h2, h3, h4⟩

/-! ## the state invariant -/

/-- a parsed packet carries a tuple of its IP version's size (Go: `[13]byte` / `[37]byte`) -/
def Pkt.wf (p : Pkt) : Prop := p.h.length = hlen p.v6

/-- counters of a record are explained by packets of the current interval -/
def Act (v6 : Bool) (rev : Key → Key) (m : FMap) (ps : List Pkt) : Prop :=
  ∀ e ∈ m, cntOfFlow e.2 ≠ Cnt.zero → ∃ p ∈ ps, p.v6 = v6 ∧ (e.1 = p.h ∨ e.1 = rev p.h)

def memCnt (st : St) : Cnt := msum st.v4 + msum st.v6
def pktSum (ps : List Pkt) : Cnt := sumC (ps.map pktCnt)

theorem pktSum_append (a b : List Pkt) : pktSum (a ++ b) = pktSum a + pktSum b := by
  unfold pktSum; rw [List.map_append, sumC_append]

/-- what holds of the flow log after any history; `cur` = the packets since the last rotation -/
structure Good (st : St) (cur : List Pkt) : Prop where
  inv4 : Inv revV4 13 st.v4
  inv6 : Inv revV6 37 st.v6
  sum : memCnt st = pktSum cur
  act4 : Act false revV4 st.v4 cur
  act6 : Act true revV6 st.v6 cur

theorem good_init : Good St.init [] := by
  refine ⟨⟨by simp [keys, St.init], by simp [keys, St.init], by simp [keys, St.init], by simp [St.init]⟩,
    ⟨by simp [keys, St.init], by simp [keys, St.init], by simp [keys, St.init], by simp [St.init]⟩, rfl, ?_, ?_⟩ <;>
  · intro e he; simp [St.init] at he

theorem act_mono (v6 : Bool) (rev : Key → Key) (m : FMap) (ps : List Pkt) (p : Pkt) (h : Act v6 rev m ps) :
    Act v6 rev m (ps ++ [p]) := by
  intro e he hz
  obtain ⟨q, hq, hv⟩ := h e he hz
  exact ⟨q, List.mem_append_left _ hq, hv⟩

theorem addTo_act (v6 : Bool) (rev : Key → Key) (pr rv : Bool) (m : FMap) (ps : List Pkt) (p : Pkt) (hv : p.v6 = v6)
    (h : Act v6 rev m ps) : Act v6 rev (addTo pr (rev p.h) rv m p.h p.ptype p.size) (ps ++ [p]) := by
  have hp : p ∈ ps ++ [p] := by simp
  rcases addTo_cases pr (rev p.h) rv m p.h p.ptype p.size with ⟨k, hk, _, he⟩ | ⟨_, _, k, hk, he⟩
  · rw [he]
    intro e hm hz
    obtain ⟨e', hm', h1, h2 | ⟨h2, _⟩⟩ := mem_upd hm
    · obtain ⟨q, hq, hq'⟩ := h e' hm' (h2 ▸ hz)
      exact ⟨q, List.mem_append_left _ hq, h1 ▸ hq'⟩
    · refine ⟨p, hp, hv, ?_⟩
      rw [h1, h2]; exact hk
  · rw [he]
    intro e hm hz
    unfold ins at hm; rw [List.mem_cons] at hm
    rcases hm with rfl | hm
    · exact ⟨p, hp, hv, hk⟩
    · obtain ⟨q, hq, hq'⟩ := h e hm hz
      exact ⟨q, List.mem_append_left _ hq, hq'⟩

theorem hlen_false : hlen false = 13 := rfl
theorem hlen_true : hlen true = 37 := rfl

theorem good_add (st : St) (cur : List Pkt) (p : Pkt) (hw : p.wf) (hg : Good st cur) :
    Good (addPkt st p) (cur ++ [p]) := by
  unfold addPkt
  by_cases hv : p.v6 = true
  · rw [if_pos hv]
    have hl : p.h.length = 37 := by have := hw; unfold Pkt.wf at this; rw [hv] at this; exact this
    refine ⟨hg.inv4, ?_, ?_, act_mono _ _ _ _ _ hg.act4, ?_⟩
    · exact addTo_inv revV6 37 revV6_length revV6_revV6 _ _ _ _ _ _ hl hg.inv6
    · show msum st.v4 + msum (addV6 st.v6 p) = _
      unfold addV6
      rw [addTo_msum _ _ _ _ _ _ _ hg.inv6.nodup, pktSum_append, ← hg.sum]
      unfold memCnt pktSum; simp only [List.map_cons, List.map_nil, sumC_cons, sumC_nil, Cnt.add_zero, pktCnt_eq, Cnt.add_assoc]
    · exact addTo_act true revV6 _ _ _ _ p hv hg.act6
  · have hv' : p.v6 = false := by simpa using hv
    rw [if_neg hv]
    have hl : p.h.length = 13 := by have := hw; unfold Pkt.wf at this; rw [hv'] at this; exact this
    refine ⟨?_, hg.inv6, ?_, ?_, act_mono _ _ _ _ _ hg.act6⟩
    · exact addTo_inv revV4 13 revV4_length revV4_revV4 _ _ _ _ _ _ hl hg.inv4
    · show msum (addV4 st.v4 p) + msum st.v6 = _
      unfold addV4
      rw [addTo_msum _ _ _ _ _ _ _ hg.inv4.nodup, pktSum_append, ← hg.sum]
      unfold memCnt pktSum; simp only [List.map_cons, List.map_nil, sumC_cons, sumC_nil, Cnt.add_zero, pktCnt_eq]
      apply Cnt.ext4 <;> simp <;> omega
    · exact addTo_act false revV4 _ _ _ _ p hv' hg.act4

/-! ## one rotation -/

theorem keys_resetAll (l : FMap) : keys (resetAll l) = keys l := by
  unfold keys resetAll; rw [List.map_map]; rfl

theorem msum_resetAll (l : FMap) : msum (resetAll l) = Cnt.zero := by
  induction l with
  | nil => rfl
  | cons e t ih =>
    have : msum (resetAll (e :: t)) = cntOfFlow (Flow_Reset e.2) + msum (resetAll t) := rfl
    rw [this, ih, cnt_reset]; rfl

theorem msum_filter_act (m : FMap) (hs : ∀ e ∈ m, Sane e.2) : msum (m.filter act) = msum m := by
  induction m with
  | nil => rfl
  | cons e t ih =>
    have iht := ih (fun e' he' => hs e' (List.mem_cons_of_mem _ he'))
    by_cases ha : act e = true
    · simp only [List.filter_cons, ha, if_true]
      show cntOfFlow e.2 + msum (t.filter act) = cntOfFlow e.2 + msum t
      rw [iht]
    · have ha' : act e = false := by simpa using ha
      simp only [List.filter_cons, ha', Bool.false_eq_true, if_false]
      show msum (t.filter act) = cntOfFlow e.2 + msum t
      rw [iht, cnt_of_not_act e (hs e (List.mem_cons_self ..)) ha', Cnt.zero_add]

theorem keys_filter_sublist (m : FMap) (q : Key × Flow → Bool) : (keys (m.filter q)).Sublist (keys m) :=
  List.Sublist.map _ List.filter_sublist

theorem inv_rotated (rev : Key → Key) (n : Nat) (m : FMap) (hi : Inv rev n m) :
    Inv rev n (resetAll (m.filter act)) := by
  have hsub := keys_filter_sublist m act
  refine ⟨?_, ?_, ?_, ?_⟩
  · rw [keys_resetAll]; exact List.Pairwise.sublist hsub hi.nodup
  · rw [keys_resetAll]; exact fun k hk => hi.len k (hsub.subset hk)
  · rw [keys_resetAll]; exact fun k hk hr => hi.one k (hsub.subset hk) (hsub.subset hr)
  · intro e he
    unfold resetAll at he; rw [List.mem_map] at he
    obtain ⟨e', _, rfl⟩ := he
    exact sane_reset _

theorem act_rotated (v6 : Bool) (rev : Key → Key) (l : FMap) : Act v6 rev (resetAll l) [] := by
  intro e he hz
  unfold resetAll at he; rw [List.mem_map] at he
  obtain ⟨e', _, rfl⟩ := he
  exact absurd (cnt_reset _) hz

theorem emptyV4Key_length : emptyV4Key.length = 11 := by simp [emptyV4Key, KeyWidthIPv4]
theorem emptyV6Key_length : emptyV6Key.length = 35 := by simp [emptyV6Key, KeyWidthIPv6]

/-- `transferAndAggregate` in closed form: the flows with packets are aggregated under their DB
    keys and stay in the map with zeroed counters, every other flow is deleted -/
theorem rotate_eq (st : St) (h4 : ∀ k ∈ keys st.v4, k.length = 13) (h6 : ∀ k ∈ keys st.v6, k.length = 37) :
    (rotate st).1.agg4 = aggOf dbKeyOf (st.v4.filter act) [] ∧
    (rotate st).1.agg6 = aggOf dbKeyOf (st.v6.filter act) [] ∧
    cntOfCounters (rotate st).1.totals = msum (st.v4.filter act) + msum (st.v6.filter act) ∧
    (rotate st).2.v4 = resetAll (st.v4.filter act) ∧
    (rotate st).2.v6 = resetAll (st.v6.filter act) := by
  obtain ⟨_, a2, a3, a4⟩ := rot_fold putV4 dbKeyOf 11 13 putOK_v4 st.v4
    { buf := emptyV4Key, agg := [], totals := ⟨0, 0, 0, 0⟩, kept := [] } h4 emptyV4Key_length
  obtain ⟨_, b2, b3, b4⟩ := rot_fold putV6 dbKeyOf 35 37 putOK_v6 st.v6
    { buf := emptyV6Key, agg := [],
      totals := (st.v4.foldl (rotStep putV4) { buf := emptyV4Key, agg := [], totals := ⟨0, 0, 0, 0⟩, kept := [] }).totals,
      kept := [] } h6 emptyV6Key_length
  have a2' := a2
  have b2' := b2
  rw [List.nil_append] at a2' b2'
  refine ⟨a4, b4, ?_, a2', b2'⟩
  show cntOfCounters (List.foldl (rotStep putV6) _ st.v6).totals = _
  rw [b3]
  show cntOfCounters (List.foldl (rotStep putV4) _ st.v4).totals + _ = _
  rw [a3]
  show Cnt.zero + _ + _ = _
  rw [Cnt.zero_add]

def blockCnt (b : Block) : Cnt := asum b.agg4 + asum b.agg6

theorem aggOK_nil : AggOK [] := ⟨by simp [akeys], by simp⟩

theorem filter_act_all (m : FMap) : ∀ e ∈ m.filter act, act e = true := fun _ he => (List.mem_filter.1 he).2

/-- everything one rotation guarantees, given the invariant -/
theorem rotate_good (st : St) (cur : List Pkt) (hg : Good st cur) :
    blockCnt (rotate st).1 = pktSum cur ∧
    cntOfCounters (rotate st).1.totals = pktSum cur ∧
    AggOK (rotate st).1.agg4 ∧ AggOK (rotate st).1.agg6 ∧
    (∀ κ ∈ akeys (rotate st).1.agg4, ∃ p ∈ cur, p.v6 = false ∧ (κ = dbKeyOf p.h ∨ κ = dbKeyOf (revV4 p.h))) ∧
    (∀ κ ∈ akeys (rotate st).1.agg6, ∃ p ∈ cur, p.v6 = true ∧ (κ = dbKeyOf p.h ∨ κ = dbKeyOf (revV6 p.h))) ∧
    Good (rotate st).2 [] := by
  obtain ⟨e1, e2, e3, e4, e5⟩ := rotate_eq st hg.inv4.len hg.inv6.len
  have s4 := msum_filter_act st.v4 hg.inv4.sane
  have s6 := msum_filter_act st.v6 hg.inv6.sane
  have hsum : msum st.v4 + msum st.v6 = pktSum cur := hg.sum
  refine ⟨?_, ?_, ?_, ?_, ?_, ?_, ?_⟩
  · unfold blockCnt
    rw [e1, e2, aggOf_asum _ _ _ aggOK_nil (filter_act_all _), aggOf_asum _ _ _ aggOK_nil (filter_act_all _), s4, s6, ← hsum]
    simp [asum]
  · rw [e3, s4, s6, hsum]
  · rw [e1]; exact aggOf_ok _ _ _ aggOK_nil (filter_act_all _)
  · rw [e2]; exact aggOf_ok _ _ _ aggOK_nil (filter_act_all _)
  · intro κ hκ
    rw [e1, aggOf_keys] at hκ
    rcases hκ with hκ | ⟨e, he, rfl⟩
    · simp [akeys] at hκ
    · obtain ⟨hm, ha⟩ := List.mem_filter.1 he
      have hz : cntOfFlow e.2 ≠ Cnt.zero := by
        intro hc
        have := act_pos e ha
        have h1 : (cntOfFlow e.2).pr = 0 := by rw [hc]; rfl
        have h2 : (cntOfFlow e.2).ps = 0 := by rw [hc]; rfl
        simp only [cntOfFlow] at h1 h2; omega
      obtain ⟨p, hp, hv, hk | hk⟩ := hg.act4 e hm hz
      · exact ⟨p, hp, hv, Or.inl (by rw [hk])⟩
      · exact ⟨p, hp, hv, Or.inr (by rw [hk])⟩
  · intro κ hκ
    rw [e2, aggOf_keys] at hκ
    rcases hκ with hκ | ⟨e, he, rfl⟩
    · simp [akeys] at hκ
    · obtain ⟨hm, ha⟩ := List.mem_filter.1 he
      have hz : cntOfFlow e.2 ≠ Cnt.zero := by
        intro hc
        have := act_pos e ha
        have h1 : (cntOfFlow e.2).pr = 0 := by rw [hc]; rfl
        have h2 : (cntOfFlow e.2).ps = 0 := by rw [hc]; rfl
        simp only [cntOfFlow] at h1 h2; omega
      obtain ⟨p, hp, hv, hk | hk⟩ := hg.act6 e hm hz
      · exact ⟨p, hp, hv, Or.inl (by rw [hk])⟩
      · exact ⟨p, hp, hv, Or.inr (by rw [hk])⟩
  · refine ⟨by rw [e4]; exact inv_rotated _ _ _ hg.inv4, by rw [e5]; exact inv_rotated _ _ _ hg.inv6, ?_,
      by rw [e4]; exact act_rotated _ _ _, by rw [e5]; exact act_rotated _ _ _⟩
    unfold memCnt; rw [e4, e5, msum_resetAll, msum_resetAll]; rfl

/-! ## any history -/

/-- two lists of the same length whose elements are related position by position -/
inductive Pairs {α β : Type} (R : α → β → Prop) : List α → List β → Prop where
  | nil : Pairs R [] []
  | cons {a : α} {b : β} {as : List α} {bs : List β} : R a b → Pairs R as bs → Pairs R (a :: as) (b :: bs)

theorem Pairs.imp {α β : Type} {R S : α → β → Prop} (h : ∀ a b, R a b → S a b) {as : List α} {bs : List β}
    (hp : Pairs R as bs) : Pairs S as bs := by
  induction hp with
  | nil => exact Pairs.nil
  | cons hr _ ih => exact Pairs.cons (h _ _ hr) ih

theorem Pairs.length_eq {α β : Type} {R : α → β → Prop} {as : List α} {bs : List β} (hp : Pairs R as bs) :
    as.length = bs.length := by
  induction hp with
  | nil => rfl
  | cons _ _ ih => simp [ih]

/-- what is guaranteed of the block written for one interval with packets `ps` -/
structure BlockOK (b : Block) (ps : List Pkt) : Prop where
  cnt : blockCnt b = pktSum ps
  totals : cntOfCounters b.totals = pktSum ps
  ok4 : AggOK b.agg4
  ok6 : AggOK b.agg6
  from4 : ∀ κ ∈ akeys b.agg4, ∃ p ∈ ps, p.v6 = false ∧ (κ = dbKeyOf p.h ∨ κ = dbKeyOf (revV4 p.h))
  from6 : ∀ κ ∈ akeys b.agg6, ∃ p ∈ ps, p.v6 = true ∧ (κ = dbKeyOf p.h ∨ κ = dbKeyOf (revV6 p.h))

def WfOps (ops : List Op) : Prop := ∀ p ∈ pktsOf ops, p.wf

theorem run_good (ops : List Op) : ∀ (st : St) (cur : List Pkt), Good st cur → WfOps ops →
    Pairs BlockOK (run st ops).1 (splitOps cur ops).1 ∧ Good (run st ops).2 (splitOps cur ops).2 := by
  induction ops with
  | nil => intro st cur hg _; exact ⟨Pairs.nil, hg⟩
  | cons op ops ih =>
    intro st cur hg hw
    cases op with
    | pkt p =>
      have hw' : WfOps ops := fun q hq => hw q (by simp [pktsOf, hq])
      have hp : p.wf := hw p (by simp [pktsOf])
      exact ih (addPkt st p) (cur ++ [p]) (good_add st cur p hp hg) hw'
    | rot =>
      have hw' : WfOps ops := fun q hq => hw q (by simpa [pktsOf] using hq)
      obtain ⟨r1, r2, r3, r4, r5, r6, r7⟩ := rotate_good st cur hg
      obtain ⟨i1, i2⟩ := ih (rotate st).2 [] r7 hw'
      exact ⟨Pairs.cons ⟨r1, r2, r3, r4, r5, r6⟩ i1, i2⟩

theorem split_sum (ops : List Op) : ∀ cur : List Pkt,
    sumC ((splitOps cur ops).1.map pktSum) + pktSum (splitOps cur ops).2 = pktSum cur + pktSum (pktsOf ops) := by
  induction ops with
  | nil => intro cur; simp [splitOps, pktsOf, pktSum]
  | cons op ops ih =>
    intro cur
    cases op with
    | pkt p =>
      simp only [splitOps, pktsOf]
      rw [ih, pktSum_append]
      unfold pktSum; simp only [List.map_cons, List.map_nil, sumC_cons, sumC_nil, Cnt.add_zero, Cnt.add_assoc]
    | rot =>
      simp only [splitOps, pktsOf, List.map_cons, sumC_cons, Cnt.add_assoc]
      rw [ih []]
      simp [pktSum]

theorem forall2_sum (bs : List Block) (ivs : List (List Pkt)) (h : Pairs BlockOK bs ivs) :
    sumC (bs.map blockCnt) = sumC (ivs.map pktSum) := by
  induction h with
  | nil => rfl
  | cons hb _ ih => simp only [List.map_cons, sumC_cons, ih, hb.cnt]

/-- **conservation**: for every list of parsed packets and every schedule of rotations, the bytes
    and packets in each direction summed over all blocks written, plus those of the flows still in
    memory, equal those of the parsed packets (`Cnt` equality = the four counters separately, see
    `conservation_components`). -/
theorem conservation (ops : List Op) (hw : WfOps ops) :
    sumC ((run St.init ops).1.map blockCnt) + memCnt (run St.init ops).2 = pktSum (pktsOf ops) := by
  obtain ⟨h1, h2⟩ := run_good ops St.init [] good_init hw
  rw [forall2_sum _ _ h1, h2.sum, split_sum ops []]
  simp [pktSum]

/-- **conservation**, spelled out: bytes received, bytes sent, packets received, packets sent -/
theorem conservation_components (ops : List Op) (hw : WfOps ops) :
    let written := sumC ((run St.init ops).1.map blockCnt)
    let inMem := memCnt (run St.init ops).2
    let seen := pktSum (pktsOf ops)
    written.br + inMem.br = seen.br ∧ written.bs + inMem.bs = seen.bs ∧
    written.pr + inMem.pr = seen.pr ∧ written.ps + inMem.ps = seen.ps := by
  have h := conservation ops hw
  intro written inMem seen
  have h' : written + inMem = seen := h
  refine ⟨?_, ?_, ?_, ?_⟩
  · rw [← h']; rfl
  · rw [← h']; rfl
  · rw [← h']; rfl
  · rw [← h']; rfl

/-- **conservation per interval** (stronger than the property asks): the block of every write-out
    holds exactly the traffic of the packets since the previous one — in its rows and in the totals
    `Rotate` returns — and the flows in memory hold exactly the traffic since the last write-out. -/
theorem conservation_interval (ops : List Op) (hw : WfOps ops) :
    Pairs (fun b ps => blockCnt b = pktSum ps ∧ cntOfCounters b.totals = pktSum ps)
      (run St.init ops).1 (splitOps [] ops).1 ∧
    memCnt (run St.init ops).2 = pktSum (splitOps [] ops).2 := by
  obtain ⟨h1, h2⟩ := run_good ops St.init [] good_init hw
  refine ⟨?_, h2.sum⟩
  exact Pairs.imp (fun _ _ hb => ⟨hb.cnt, hb.totals⟩) h1

/-! ## one record per conversation -/

theorem revV6_eq_mirror (h : Key) (hl : h.length = 37) : revV6 h = mirror h := by
  apply List.ext_getElem
  · simp [revV6_length, mirror, hl]
  · intro i h1 h2
    rw [revV6_length] at h1
    simp only [revV6, toList, List.getElem_map, List.getElem_range, show EPHashSizeV6 = 37 from rfl]
    rw [C22.reverse_v6 _ i h1]
    simp only [mirror, hl, ofList]
    simp [List.getElem_append, List.getD_eq_getElem?_getD]
    simp only [hl, Nat.reduceSub, show min 18 37 = 18 from rfl, show min 18 19 = 18 from rfl]
    by_cases c1 : i < 18
    · rw [if_pos c1, dif_pos c1, List.getElem?_eq_getElem (by omega)]
      simp only [Option.getD_some]; congr 1; omega
    · by_cases c2 : i < 36
      · rw [if_neg c1, if_pos c2, dif_neg c1, dif_pos (by omega), List.getElem?_eq_getElem (by omega)]
        simp only [Option.getD_some]
      · have : i = 36 := by omega
        subst this
        simp [List.getElem?_eq_getElem (show 36 < h.length by omega)]

/-- all tuples under which the flow log holds a record -/
def allKeys (st : St) : List Key := keys st.v4 ++ keys st.v6

/-- **one_record**: after any history the flow log holds at most one record per tuple and never a
    record for a tuple together with one for its (different) mirror image — both directions of a
    conversation share a single record. `mirror` is the spec's byte swap; it coincides with the
    regenerated `Reverse()` (`revV4_eq_mirror`, `revV6_eq_mirror`). Every intermediate state of a
    history is the final state of a prefix, so this holds at all times. -/
theorem one_record (ops : List Op) (hw : WfOps ops) :
    (allKeys (run St.init ops).2).Nodup ∧
    ∀ k ∈ allKeys (run St.init ops).2, mirror k ∈ allKeys (run St.init ops).2 → mirror k = k := by
  obtain ⟨_, hg⟩ := run_good ops St.init [] good_init hw
  have l4 := hg.inv4.len
  have l6 := hg.inv6.len
  have hdis : ∀ k, k ∈ keys (run St.init ops).2.v4 → k ∈ keys (run St.init ops).2.v6 → False := by
    intro k h4 h6; have := l4 k h4; have := l6 k h6; omega
  refine ⟨?_, ?_⟩
  · unfold allKeys
    rw [List.nodup_append]
    exact ⟨hg.inv4.nodup, hg.inv6.nodup, fun a ha b hb hab => hdis a ha (hab ▸ hb)⟩
  · intro k hk hm
    unfold allKeys at hk hm
    rw [List.mem_append] at hk hm
    have mlen : (mirror k).length = k.length := by
      rcases hk with hk | hk
      · simp [mirror, l4 k hk]
      · simp [mirror, l6 k hk]
    rcases hk with hk | hk
    · have hm4 : mirror k ∈ keys (run St.init ops).2.v4 := by
        rcases hm with hm | hm
        · exact hm
        · have := l6 _ hm; have := l4 k hk; omega
      rw [← revV4_eq_mirror k (l4 k hk)] at hm4 ⊢
      exact hg.inv4.one k hk hm4
    · have hm6 : mirror k ∈ keys (run St.init ops).2.v6 := by
        rcases hm with hm | hm
        · have := l4 _ hm; have := l6 k hk; omega
        · exact hm
      rw [← revV6_eq_mirror k (l6 k hk)] at hm6 ⊢
      exact hg.inv6.one k hk hm6

theorem addTo_mem (pr : Bool) (hr : Key) (rv : Bool) (m : FMap) (h : Key) (pt sz : Nat) :
    h ∈ keys (addTo pr hr rv m h pt sz) ∨ hr ∈ keys (addTo pr hr rv m h pt sz) := by
  rcases addTo_cases pr hr rv m h pt sz with ⟨k, hk, hm, he⟩ | ⟨_, _, k, hk, he⟩
  · rw [he, keys_upd]; rcases hk with rfl | rfl
    · exact Or.inl hm
    · exact Or.inr hm
  · rw [he, keys_ins]; rcases hk with rfl | rfl
    · exact Or.inl (List.mem_cons_self ..)
    · exact Or.inr (List.mem_cons_self ..)

/-- **one_record, both directions**: once a packet was logged, a packet carrying the reversed tuple
    (whatever its flags, lookup order and classification) is counted in the record that holds the
    first one — no second record appears. -/
theorem both_directions_one_record (rev : Key → Key) (n : Nat) (hrr : ∀ k, k.length = n → rev (rev k) = k)
    (m : FMap) (h : Key) (hh : h.length = n) (pr rv pr' rv' : Bool) (pt sz pt' sz' : Nat) :
    ∃ k ∈ keys (addTo pr (rev h) rv m h pt sz), (k = h ∨ k = rev h) ∧
      addTo pr' (rev (rev h)) rv' (addTo pr (rev h) rv m h pt sz) (rev h) pt' sz' =
        upd (addTo pr (rev h) rv m h pt sz) k pt' sz' := by
  rcases addTo_cases pr' (rev (rev h)) rv' (addTo pr (rev h) rv m h pt sz) (rev h) pt' sz' with
    ⟨k, hk, hm, he⟩ | ⟨h1, h2, _⟩
  · refine ⟨k, hm, ?_, he⟩
    rcases hk with rfl | rfl
    · exact Or.inr rfl
    · exact Or.inl (hrr h hh)
  · rw [hrr h hh] at h2
    rcases addTo_mem pr (rev h) rv m h pt sz with c | c
    · exact absurd c h2
    · exact absurd c h1

/-- the same for the IPv4 entry point `addToFlowLogV4` (with the regenerated `Reverse()`,
    `IsProbablyReverse()`, classifier) -/
theorem both_directions_one_record_v4 (m : FMap) (p q : Pkt) (hp : p.h.length = 13) (hq : q.h = revV4 p.h) :
    ∃ k ∈ keys (addV4 m p), (k = p.h ∨ k = q.h) ∧ addV4 (addV4 m p) q = upd (addV4 m p) k q.ptype q.size := by
  unfold addV4
  rw [hq]
  exact both_directions_one_record revV4 13 revV4_revV4 m p.h hp _ _ _ _ _ _ _ _

theorem both_directions_one_record_v6 (m : FMap) (p q : Pkt) (hp : p.h.length = 37) (hq : q.h = revV6 p.h) :
    ∃ k ∈ keys (addV6 m p), (k = p.h ∨ k = q.h) ∧ addV6 (addV6 m p) q = upd (addV6 m p) k q.ptype q.size := by
  unfold addV6
  rw [hq]
  exact both_directions_one_record revV6 37 revV6_revV6 m p.h hp _ _ _ _ _ _ _ _

/-- **one_record, in the written data**: every block holds at most one row per stored key -/
theorem one_row_per_key (ops : List Op) (hw : WfOps ops) :
    ∀ b ∈ (run St.init ops).1, (akeys b.agg4).Nodup ∧ (akeys b.agg6).Nodup := by
  obtain ⟨h1, _⟩ := run_good ops St.init [] good_init hw
  generalize (run St.init ops).1 = bs at h1
  generalize (splitOps [] ops).1 = ivs at h1
  induction h1 with
  | nil => intro b hb; simp at hb
  | cons hb _ ih =>
    intro b hm
    rw [List.mem_cons] at hm
    rcases hm with rfl | hm
    · exact ⟨hb.ok4.nodup, hb.ok6.nodup⟩
    · exact ih b hm

/-! ## no source port in the written data -/

/-- the stored key is `sip ++ dip ++ dport ++ [proto]` of the tuple -/
theorem db_key_v4 (buf h : Key) (hb : buf.length = 11) (hl : h.length = 13) :
    putV4 buf h = slice h 0 4 ++ (slice h 6 10 ++ (slice h 10 12 ++ slice h 12 13)) := by
  rw [putV4_eq buf h hb hl]
  have a1 := (List.take_append_drop 4 (h.drop 6)).symm
  rw [List.drop_drop] at a1
  have a2 := (List.take_append_drop 2 (h.drop 10)).symm
  rw [List.drop_drop] at a2
  have a3 : h.drop 12 = (h.drop 12).take 1 := (List.take_of_length_le (by rw [List.length_drop, hl]; omega)).symm
  simp only [slice, List.drop_zero, Nat.sub_zero, Nat.reduceSub]
  rw [← a3, ← show 10 + 2 = 12 from rfl, ← a2, ← show 6 + 4 = 10 from rfl, ← a1]

theorem db_key_v6 (buf h : Key) (hb : buf.length = 35) (hl : h.length = 37) :
    putV6 buf h = slice h 0 16 ++ (slice h 18 34 ++ (slice h 34 36 ++ slice h 36 37)) := by
  rw [putV6_eq buf h hb hl]
  have a1 := (List.take_append_drop 16 (h.drop 18)).symm
  rw [List.drop_drop] at a1
  have a2 := (List.take_append_drop 2 (h.drop 34)).symm
  rw [List.drop_drop] at a2
  have a3 : h.drop 36 = (h.drop 36).take 1 := (List.take_of_length_le (by rw [List.length_drop, hl]; omega)).symm
  simp only [slice, List.drop_zero, Nat.sub_zero, Nat.reduceSub]
  rw [← a3, ← show 34 + 2 = 36 from rfl, ← a2, ← show 18 + 16 = 34 from rfl, ← a1]

/-- **no_sport** (key conversion): `PutV4String` / `PutV6String` produce the same key for two
    tuples that differ at most in the source port, whatever the reused buffer held before. -/
theorem no_sport_v4 (buf buf' h h' : Key) (hb : buf.length = 11) (hb' : buf'.length = 11)
    (hl : h.length = 13) (hl' : h'.length = 13) (hs : h.take 4 = h'.take 4) (hd : h.drop 6 = h'.drop 6) :
    putV4 buf h = putV4 buf' h' := by
  rw [putV4_eq buf h hb hl, putV4_eq buf' h' hb' hl', hs, hd]

theorem no_sport_v6 (buf buf' h h' : Key) (hb : buf.length = 35) (hb' : buf'.length = 35)
    (hl : h.length = 37) (hl' : h'.length = 37) (hs : h.take 16 = h'.take 16) (hd : h.drop 18 = h'.drop 18) :
    putV6 buf h = putV6 buf' h' := by
  rw [putV6_eq buf h hb hl, putV6_eq buf' h' hb' hl', hs, hd]

theorem dbKeyOf_length (h : Key) (hl : h.length = 13 ∨ h.length = 37) : (dbKeyOf h).length + 2 = h.length := by
  rcases hl with hl | hl <;> simp [dbKeyOf, hl]

/-- the packets of the interval that explain a row -/
def RowFrom (ps : List Pkt) (v6 : Bool) (rev : Key → Key) (κ : Key) : Prop :=
  ∃ p ∈ ps, p.v6 = v6 ∧ (κ = dbKeyOf p.h ∨ κ = dbKeyOf (rev p.h))

/-- **no_sport** and **idle_not_written** for every history: each row of the block written at a
    rotation (a) carries packets (`pr + ps > 0`), (b) is keyed by `sip, dip, dport, proto` — the
    spec's `dbKeyOf`, two bytes shorter than the tuple: no source port — of the tuple, or of the
    reversed tuple, of a packet that arrived *in that interval*. A flow without packets in the
    interval therefore contributes no row to its block. -/
theorem idle_not_written (ops : List Op) (hw : WfOps ops) :
    Pairs (fun b ps =>
        (∀ e ∈ b.agg4 ++ b.agg6, 0 < e.2.PacketsRcvd + e.2.PacketsSent) ∧
        (∀ κ ∈ akeys b.agg4, κ.length = 11 ∧ RowFrom ps false revV4 κ) ∧
        (∀ κ ∈ akeys b.agg6, κ.length = 35 ∧ RowFrom ps true revV6 κ))
      (run St.init ops).1 (splitOps [] ops).1 := by
  obtain ⟨h1, _⟩ := run_good ops St.init [] good_init hw
  have hsub : ∀ ps ∈ (splitOps [] ops).1, ∀ p ∈ ps, p.wf := by
    have gen : ∀ (ops : List Op) (cur : List Pkt), (∀ p ∈ cur, p.wf) → WfOps ops →
        ∀ ps ∈ (splitOps cur ops).1, ∀ p ∈ ps, p.wf := by
      intro ops
      induction ops with
      | nil => intro cur _ _ ps hps; simp [splitOps] at hps
      | cons op ops ih =>
        intro cur hc hw
        cases op with
        | pkt q =>
          simp only [splitOps]
          refine ih (cur ++ [q]) ?_ (fun r hr => hw r (by simp [pktsOf, hr]))
          intro p hp; rw [List.mem_append] at hp
          rcases hp with hp | hp
          · exact hc p hp
          · simp at hp; subst hp; exact hw p (by simp [pktsOf])
        | rot =>
          simp only [splitOps]
          intro ps hps
          rw [List.mem_cons] at hps
          rcases hps with rfl | hps
          · exact hc
          · exact ih [] (by simp) (fun r hr => hw r (by simpa [pktsOf] using hr)) ps hps
    exact gen ops [] (by simp) hw
  generalize (run St.init ops).1 = bs at h1
  generalize (splitOps [] ops).1 = ivs at h1 hsub
  induction h1 with
  | nil => exact Pairs.nil
  | @cons b ps bs ivs hb _ ih =>
    refine Pairs.cons ⟨?_, ?_, ?_⟩ (ih (fun ps' hps' => hsub ps' (List.mem_cons_of_mem _ hps')))
    · intro e he; rw [List.mem_append] at he
      rcases he with he | he
      · exact hb.ok4.pos e he
      · exact hb.ok6.pos e he
    · intro κ hκ
      obtain ⟨p, hp, hv, hk⟩ := hb.from4 κ hκ
      have hwf : p.h.length = 13 := by have := hsub ps (List.mem_cons_self ..) p hp; unfold Pkt.wf at this; rw [hv] at this; exact this
      refine ⟨?_, p, hp, hv, hk⟩
      rcases hk with rfl | rfl
      · simp [dbKeyOf, hwf]
      · simp [dbKeyOf, revV4_length]
    · intro κ hκ
      obtain ⟨p, hp, hv, hk⟩ := hb.from6 κ hκ
      have hwf : p.h.length = 37 := by have := hsub ps (List.mem_cons_self ..) p hp; unfold Pkt.wf at this; rw [hv] at this; exact this
      refine ⟨?_, p, hp, hv, hk⟩
      rcases hk with rfl | rfl
      · simp [dbKeyOf, hwf]
      · simp [dbKeyOf, revV6_length]

/-! ## what a rotation does to the flows -/

/-- **aggregation**: a row of the block holds the sum of the flows with packets that are stored
    under its DB key (flows that differ only in the source port collapse into one row). -/
theorem rotate_row_sum (ops : List Op) (hw : WfOps ops) (κ : Key) :
    let st := (run St.init ops).2
    aval (rotate st).1.agg4 κ = msum ((st.v4.filter act).filter fun e => dbKeyOf e.1 == κ) ∧
    aval (rotate st).1.agg6 κ = msum ((st.v6.filter act).filter fun e => dbKeyOf e.1 == κ) := by
  obtain ⟨_, hg⟩ := run_good ops St.init [] good_init hw
  obtain ⟨e1, e2, _⟩ := rotate_eq (run St.init ops).2 hg.inv4.len hg.inv6.len
  intro st
  constructor
  · show aval (rotate (run St.init ops).2).1.agg4 κ = _
    rw [e1, aggOf_aval _ _ _ aggOK_nil (filter_act_all _)]; simp only [aval, List.filter_nil, List.map_nil, sumC_nil, Cnt.zero_add]; rfl
  · show aval (rotate (run St.init ops).2).1.agg6 κ = _
    rw [e2, aggOf_aval _ _ _ aggOK_nil (filter_act_all _)]; simp only [aval, List.filter_nil, List.map_nil, sumC_nil, Cnt.zero_add]; rfl

theorem entry_unique (m : FMap) (hn : (keys m).Nodup) (a b : Key × Flow) (ha : a ∈ m) (hb : b ∈ m) (hk : a.1 = b.1) :
    a = b := by
  induction m with
  | nil => simp at ha
  | cons e t ih =>
    simp only [keys, List.map_cons, List.nodup_cons] at hn
    rw [List.mem_cons] at ha hb
    rcases ha with rfl | ha <;> rcases hb with rfl | hb
    · rfl
    · exact absurd (List.mem_map.2 ⟨b, hb, hk.symm⟩) hn.1
    · exact absurd (List.mem_map.2 ⟨a, ha, hk⟩) hn.1
    · exact ih hn.2 ha hb

theorem filter_act_resetAll (l : FMap) : (resetAll l).filter act = [] := by
  induction l with
  | nil => rfl
  | cons e t ih =>
    have : resetAll (e :: t) = (e.1, Flow_Reset e.2) :: resetAll t := rfl
    rw [this, List.filter_cons, ih]
    have : act (e.1, Flow_Reset e.2) = false := by simp [act, Flow_Reset]
    rw [this]; rfl

/-- **idle_not_written, retention**: at a rotation a flow that saw no packet since the previous
    one is deleted; a flow that saw packets stays, with zeroed counters. Hence (`idle_dropped`) a flow
    is gone after one full interval without traffic. -/
theorem rotate_flows (ops : List Op) (hw : WfOps ops) :
    let st := (run St.init ops).2
    (∀ e ∈ st.v4, act e = false → e.1 ∉ keys (rotate st).2.v4) ∧
    (∀ e ∈ st.v6, act e = false → e.1 ∉ keys (rotate st).2.v6) ∧
    (∀ e ∈ st.v4, act e = true → (e.1, Flow_Reset e.2) ∈ (rotate st).2.v4) ∧
    (∀ e ∈ st.v6, act e = true → (e.1, Flow_Reset e.2) ∈ (rotate st).2.v6) := by
  obtain ⟨_, hg⟩ := run_good ops St.init [] good_init hw
  obtain ⟨_, _, _, e4, e5⟩ := rotate_eq (run St.init ops).2 hg.inv4.len hg.inv6.len
  intro st
  have drop : ∀ (m : FMap), (keys m).Nodup → ∀ e ∈ m, act e = false → e.1 ∉ keys (resetAll (m.filter act)) := by
    intro m hn e he ha hc
    rw [keys_resetAll] at hc
    unfold keys at hc; rw [List.mem_map] at hc
    obtain ⟨e', he', hk⟩ := hc
    obtain ⟨hm', ha'⟩ := List.mem_filter.1 he'
    -- same key, one entry per key: e' = e
    have : e' = e := by
      exact entry_unique m hn e' e hm' he hk
    rw [this, ha] at ha'; exact absurd ha' (by simp)
  have keep : ∀ (m : FMap), ∀ e ∈ m, act e = true → (e.1, Flow_Reset e.2) ∈ resetAll (m.filter act) := by
    intro m e he ha
    unfold resetAll; rw [List.mem_map]
    exact ⟨e, List.mem_filter.2 ⟨he, ha⟩, rfl⟩
  refine ⟨?_, ?_, ?_, ?_⟩
  · show ∀ e ∈ (run St.init ops).2.v4, act e = false → e.1 ∉ keys (rotate (run St.init ops).2).2.v4
    rw [e4]; exact drop _ hg.inv4.nodup
  · show ∀ e ∈ (run St.init ops).2.v6, act e = false → e.1 ∉ keys (rotate (run St.init ops).2).2.v6
    rw [e5]; exact drop _ hg.inv6.nodup
  · show ∀ e ∈ (run St.init ops).2.v4, act e = true → _ ∈ (rotate (run St.init ops).2).2.v4
    rw [e4]; exact keep _
  · show ∀ e ∈ (run St.init ops).2.v6, act e = true → _ ∈ (rotate (run St.init ops).2).2.v6
    rw [e5]; exact keep _

/-- **idle_not_written, one idle interval**: two rotations in a row — the second writes an empty
    block with zero totals and leaves an empty flow log. -/
theorem idle_dropped (ops : List Op) (hw : WfOps ops) :
    let st1 := (rotate (run St.init ops).2).2
    (rotate st1).1.agg4 = [] ∧ (rotate st1).1.agg6 = [] ∧ cntOfCounters (rotate st1).1.totals = Cnt.zero ∧
    (rotate st1).2 = St.init := by
  obtain ⟨_, hg⟩ := run_good ops St.init [] good_init hw
  obtain ⟨_, _, _, _, _, _, hg1⟩ := rotate_good _ _ hg
  obtain ⟨_, _, _, e4, e5⟩ := rotate_eq (run St.init ops).2 hg.inv4.len hg.inv6.len
  obtain ⟨f1, f2, f3, f4, f5⟩ := rotate_eq _ hg1.inv4.len hg1.inv6.len
  intro st1
  have z4 : st1.v4.filter act = [] := by show (rotate (run St.init ops).2).2.v4.filter act = []; rw [e4]; exact filter_act_resetAll _
  have z6 : st1.v6.filter act = [] := by show (rotate (run St.init ops).2).2.v6.filter act = []; rw [e5]; exact filter_act_resetAll _
  have g1 : (rotate st1).1.agg4 = [] := by rw [show (rotate st1).1.agg4 = _ from f1, z4]; rfl
  have g2 : (rotate st1).1.agg6 = [] := by rw [show (rotate st1).1.agg6 = _ from f2, z6]; rfl
  have g3 : cntOfCounters (rotate st1).1.totals = Cnt.zero := by
    rw [show cntOfCounters (rotate st1).1.totals = _ from f3, z4, z6]; rfl
  have g4 : (rotate st1).2.v4 = [] := by rw [show (rotate st1).2.v4 = _ from f4, z4]; rfl
  have g5 : (rotate st1).2.v6 = [] := by rw [show (rotate st1).2.v6 = _ from f5, z6]; rfl
  refine ⟨g1, g2, g3, ?_⟩
  cases hr : (rotate st1).2 with
  | mk a b => rw [hr] at g4 g5; simp only at g4 g5; rw [g4, g5]; rfl

/-! ## the live view and the driver -/

theorem agg_fold (put : Key → Key → Key) (dbk : Key → Key) (W n : Nat) (hput : PutOK put dbk W n)
    (m : FMap) (s : Key × Agg) (hm : ∀ k ∈ keys m, k.length = n) (hs : s.1.length = W) :
    (m.foldl (aggStep put) s).1.length = W ∧ (m.foldl (aggStep put) s).2 = aggOf dbk (m.filter act) s.2 := by
  induction m generalizing s with
  | nil => exact ⟨hs, rfl⟩
  | cons e t ih =>
    have ht : ∀ k ∈ keys t, k.length = n := fun k hk => hm k (by simp [keys] at hk ⊢; exact Or.inr hk)
    have he : e.1.length = n := hm e.1 (by simp [keys])
    rw [List.foldl_cons]
    by_cases ha : act e = true
    · obtain ⟨hp1, hp2⟩ := hput s.1 e.1 hs he
      have hc : (decide (e.2.PacketsRcvd ≠ 0) || decide (e.2.PacketsSent ≠ 0)) = true := by
        unfold act at ha; simp at ha ⊢; omega
      have hstep : aggStep put s e = (put s.1 e.1, setOrUpdate s.2 (put s.1 e.1) e.2.BytesRcvd e.2.BytesSent e.2.PacketsRcvd e.2.PacketsSent) := by
        unfold aggStep; rw [if_pos hc]
      rw [hstep]
      obtain ⟨h1, h2⟩ := ih (put s.1 e.1, setOrUpdate s.2 (put s.1 e.1) e.2.BytesRcvd e.2.BytesSent e.2.PacketsRcvd e.2.PacketsSent) ht
        (by show (put s.1 e.1).length = W; rw [hp1]; exact hp2)
      refine ⟨h1, ?_⟩
      rw [h2]; simp only [List.filter_cons, ha, if_true]
      rw [aggOf_cons, hp1]
    · have ha' : act e = false := by simpa using ha
      have hc : ¬ ((decide (e.2.PacketsRcvd ≠ 0) || decide (e.2.PacketsSent ≠ 0)) = true) := by
        unfold act at ha'; simp at ha' ⊢; omega
      have hstep : aggStep put s e = s := by unfold aggStep; rw [if_neg hc]
      rw [hstep]
      obtain ⟨h1, h2⟩ := ih s ht hs
      simp only [List.filter_cons, ha', Bool.false_eq_true, if_false]
      exact ⟨h1, h2⟩

/-- `FlowLog.Aggregate` (the live view) shows exactly what the next rotation will write -/
theorem aggregate_eq_rotate (ops : List Op) (hw : WfOps ops) :
    aggregate (run St.init ops).2 = ((rotate (run St.init ops).2).1.agg4, (rotate (run St.init ops).2).1.agg6) := by
  obtain ⟨_, hg⟩ := run_good ops St.init [] good_init hw
  obtain ⟨e1, e2, _⟩ := rotate_eq (run St.init ops).2 hg.inv4.len hg.inv6.len
  obtain ⟨_, a⟩ := agg_fold putV4 dbKeyOf 11 13 putOK_v4 (run St.init ops).2.v4 (emptyV4Key, []) hg.inv4.len emptyV4Key_length
  obtain ⟨_, b⟩ := agg_fold putV6 dbKeyOf 35 37 putOK_v6 (run St.init ops).2.v6 (emptyV6Key, []) hg.inv6.len emptyV6Key_length
  unfold aggregate
  rw [a, b, e1, e2]

/-- the driver (`handle` = fold of `stepD`, which also produces the digests and the observations
    compared with the implementation) walks through exactly the states and blocks of `run` -/
theorem stepD_run (ops : List Op) : ∀ a : Acc,
    (ops.foldl stepD a).st = (run a.st ops).2 ∧ (ops.foldl stepD a).blocks = a.blocks ++ (run a.st ops).1 := by
  induction ops with
  | nil => intro a; simp [run]
  | cons op ops ih =>
    intro a
    rw [List.foldl_cons]
    cases op with
    | pkt p =>
      obtain ⟨h1, h2⟩ := ih (stepD a (.pkt p))
      exact ⟨h1, h2⟩
    | rot =>
      obtain ⟨h1, h2⟩ := ih (stepD a .rot)
      refine ⟨h1, ?_⟩
      rw [h2]
      show a.blocks ++ [(rotate a.st).1] ++ (run (rotate a.st).2 ops).1 = a.blocks ++ (run a.st (.rot :: ops)).1
      simp [run]

/-! ## non-vacuity and the need for the hypothesis -/

/-- 10.0.0.1:40000 -> 10.0.0.2:80 (TCP, parsed: source port dropped), SYN in, SYN-ACK out, ACK in -/
def exSyn : Pkt := ⟨false, [10,0,0,1, 0,0, 10,0,0,2, 0,80, 6], 0, 60, 2⟩
def exSynAck : Pkt := ⟨false, [10,0,0,2, 0,80, 10,0,0,1, 0,0, 6], 4, 52, 18⟩
def exAck : Pkt := ⟨false, [10,0,0,1, 0,0, 10,0,0,2, 0,80, 6], 0, 40, 16⟩
/-- two UDP flows that differ only in the source port -/
def exU1 : Pkt := ⟨false, [10,0,0,1, 156,64, 10,0,0,2, 4,0, 17], 0, 100, 0⟩
def exU2 : Pkt := ⟨false, [10,0,0,1, 156,65, 10,0,0,2, 4,0, 17], 0, 200, 0⟩
def exOps : List Op := [.pkt exSyn, .pkt exSynAck, .pkt exU1, .pkt exU2, .rot, .pkt exAck, .rot, .rot]

instance : DecidablePred Pkt.wf := fun p => by unfold Pkt.wf; exact inferInstance
instance (ops : List Op) : Decidable (WfOps ops) := by unfold WfOps; exact inferInstance

example : WfOps exOps := by decide
-- both directions in one record; the two UDP flows in one row; the idle UDP flows are not written
-- in the second interval and the log is empty after the third rotation
example : (run St.init exOps).1.map (fun b => sortRecs b.recs) =
    [ [([10,0,0,1, 10,0,0,2, 0,80, 6], ⟨60, 52, 1, 1⟩), ([10,0,0,1, 10,0,0,2, 4,0, 17], ⟨300, 0, 2, 0⟩)],
      [([10,0,0,1, 10,0,0,2, 0,80, 6], ⟨40, 0, 1, 0⟩)],
      [] ] := by decide
example : (run St.init exOps).2 = St.init := by decide
example : (run St.init [.pkt exSyn, .pkt exSynAck]).2.v4 = [([10,0,0,1, 0,0, 10,0,0,2, 0,80, 6], ⟨60, 52, 1, 1⟩)] := by decide
example : pktSum (pktsOf exOps) = ⟨400, 52, 4, 1⟩ := by decide

/-- outside `WfOps` (a "tuple" of the wrong size — impossible for Go's `[13]byte`) the one-record
    invariant fails: the reverse of the zero-padded tuple is logged next to it -/
example : ¬ (∀ k ∈ keys (run St.init [.pkt ⟨false, [1,2,3], 0, 1, 0⟩, .pkt ⟨false, revV4 [1,2,3], 0, 1, 0⟩]).2.v4,
    revV4 k ∈ keys (run St.init [.pkt ⟨false, [1,2,3], 0, 1, 0⟩, .pkt ⟨false, revV4 [1,2,3], 0, 1, 0⟩]).2.v4 → revV4 k = k) := by
  decide

end C20
