import GoProbeModel.Model.C28

/-!
C28 — property theorems (time arguments). See the docstrings of `relative_spec`, `range_rejects`,
`layout_roundtrip` and of the calendar theorems `civil_roundtrip`, `civil_valid`.

All statements are about `Model/C28.lean`: the hand model of `pkg/query/time.go` over the layout
list regenerated from the source (`Gen/TimeArgs.lean`) and over a model of the parts of Go's
`time` / `strconv` packages the code relies on (trusted parameter, validated by the harness).
-/
namespace C28

/-! ## proleptic Gregorian calendar -/

/-- the pieces of `civilFromDays`, named, with the facts omega needs about them -/
theorem civil_pieces (z : Int) :
    ∃ era doe c r yc doy mp : Int,
      z + 719468 = 146097 * era + doe ∧ 0 ≤ doe ∧ doe < 146097 ∧
      0 ≤ c ∧ c ≤ 3 ∧ doe = 36524 * c + r ∧ 0 ≤ r ∧ (r ≤ 36523 ∨ (c = 3 ∧ r = 36524)) ∧
      0 ≤ yc ∧ yc ≤ 99 ∧ r = 365 * yc + yc / 4 + doy ∧ 0 ≤ doy ∧
      (doy ≤ 364 ∨ (doy = 365 ∧ yc % 4 = 3 ∧ (yc ≠ 99 ∨ c = 3))) ∧
      mp = (5 * doy + 2) / 153 ∧ 0 ≤ mp ∧ mp ≤ 11 ∧
      civilFromDays z =
        (if (if mp < 10 then mp + 3 else mp - 9) ≤ 2 then 400 * era + 100 * c + yc + 1 else 400 * era + 100 * c + yc,
         if mp < 10 then mp + 3 else mp - 9,
         doy - (153 * mp + 2) / 5 + 1) := by
  refine ⟨(z + 719468) / 146097, (z + 719468) % 146097, ?_⟩
  generalize hera : (z + 719468) / 146097 = era
  generalize hdoe : (z + 719468) % 146097 = doe
  have h1 : z + 719468 = 146097 * era + doe := by omega
  have h2 : 0 ≤ doe ∧ doe < 146097 := by omega
  refine ⟨(4 * doe + 3) / 146097, doe - 146097 * ((4 * doe + 3) / 146097) / 4, ?_⟩
  generalize hc : (4 * doe + 3) / 146097 = c
  have hc' : 0 ≤ c ∧ c ≤ 3 := by omega
  have hq : 146097 * c / 4 = 36524 * c := by omega
  rw [hq]
  generalize hr : doe - 36524 * c = r
  have hr' : 0 ≤ r ∧ (r ≤ 36523 ∨ (c = 3 ∧ r = 36524)) := by omega
  refine ⟨(4 * r + 3) / 1461, r - 1461 * ((4 * r + 3) / 1461) / 4, ?_⟩
  generalize hyc : (4 * r + 3) / 1461 = yc
  have hyc' : 0 ≤ yc ∧ yc ≤ 99 := by omega
  have hq2 : 1461 * yc / 4 = 365 * yc + yc / 4 := by omega
  rw [hq2]
  generalize hdoy : r - (365 * yc + yc / 4) = doy
  have hdoy' : 0 ≤ doy ∧ (doy ≤ 364 ∨ (doy = 365 ∧ yc % 4 = 3 ∧ (yc ≠ 99 ∨ c = 3))) := by omega
  refine ⟨(5 * doy + 2) / 153, ?_⟩
  have hmp : 0 ≤ (5 * doy + 2) / 153 ∧ (5 * doy + 2) / 153 ≤ 11 := by omega
  refine ⟨h1, h2.1, h2.2, hc'.1, hc'.2, by omega, hr'.1, hr'.2, hyc'.1, hyc'.2, by omega, hdoy'.1, hdoy'.2, rfl, hmp.1, hmp.2, ?_⟩
  simp only [civilFromDays, hera, hdoe, hc, hq, hr, hyc, hq2, hdoy]

/-- **civil_roundtrip** (calendar library): for ALL day numbers `z` (any sign), converting to a civil
    date and back gives `z`. Argument: the year/day-of-year split and the month/day split are
    Euclidean affine functions (quotients by 146097, 1461, 153 with their remainders), so the
    composition is the identity by construction; `omega` checks the side conditions. No sampling. -/
theorem civil_roundtrip (z : Int) :
    daysFromCivil (civilFromDays z).1 (civilFromDays z).2.1 (civilFromDays z).2.2 = z := by
  obtain ⟨era, doe, c, r, yc, doy, mp, h1, h2, h3, h4, h5, h6, h7, h8, h9, h10, h11, h12, h13, h14, h15, h16, hcv⟩ := civil_pieces z
  rw [hcv]
  simp only [daysFromCivil]
  have hY : ∀ Y : Int, Y = 400 * era + 100 * c + yc →
      365 * Y + Y / 4 - Y / 100 + Y / 400 = 146097 * era + 36524 * c + 365 * yc + yc / 4 := by
    intro Y hY
    have a1 : Y / 4 = 100 * era + 25 * c + yc / 4 := by omega
    have a2 : Y / 100 = 4 * era + c := by omega
    have a3 : Y / 400 = era := by omega
    rw [a1, a2, a3]; omega
  by_cases hm : mp < 10
  · simp only [hm, if_true]
    have hm2 : ¬ (mp + 3 ≤ 2) := by omega
    simp only [hm2, if_false]
    have := hY _ rfl
    have e : mp + 3 - 3 = mp := by omega
    rw [e]; omega
  · simp only [hm, if_false]
    have hm2 : mp - 9 ≤ 2 := by omega
    simp only [hm2, if_true]
    have := hY _ rfl
    have e : 400 * era + 100 * c + yc + 1 - 1 = 400 * era + 100 * c + yc := by omega
    have e2 : mp - 9 + 9 = mp := by omega
    rw [e, e2]; omega

/-- **civil_valid**: every day number is a real calendar date: month 1..12, day 1..`daysIn`
    (Go's `daysIn`, leap years by the 4/100/400 rule) — the day-of-month check of `time.parse`
    therefore never rejects a formatted instant -/
theorem civil_valid (z : Int) :
    1 ≤ (civilFromDays z).2.1 ∧ (civilFromDays z).2.1 ≤ 12 ∧ 1 ≤ (civilFromDays z).2.2 ∧
    (civilFromDays z).2.2 ≤ daysIn (civilFromDays z).2.1 (civilFromDays z).1 := by
  obtain ⟨era, doe, c, r, yc, doy, mp, h1, h2, h3, h4, h5, h6, h7, h8, h9, h10, h11, h12, h13, h14, h15, h16, hcv⟩ := civil_pieces z
  rw [hcv]
  simp only [daysIn, isLeap]
  have hmpc : mp = 0 ∨ mp = 1 ∨ mp = 2 ∨ mp = 3 ∨ mp = 4 ∨ mp = 5 ∨ mp = 6 ∨ mp = 7 ∨ mp = 8 ∨ mp = 9 ∨ mp = 10 ∨ mp = 11 := by omega
  rcases hmpc with h | h | h | h | h | h | h | h | h | h | h | h <;> subst h <;> simp <;> omega

theorem civil_year_window (z : Int) (h0 : -365 ≤ z) (h1 : z < 36160) :
    1969 ≤ (civilFromDays z).1 ∧ (civilFromDays z).1 ≤ 2068 := by
  obtain ⟨era, doe, c, r, yc, doy, mp, g1, g2, g3, g4, g5, g6, g7, g8, g9, g10, g11, g12, g13, g14, g15, g16, hcv⟩ := civil_pieces z
  rw [hcv]
  simp only
  have hera : era = 4 ∨ era = 5 := by omega
  split <;> omega

/-! ## characters, digits, names -/

theorem digit_facts : ∀ k, k < 10 →
    isDigit (digit k) = true ∧ digitVal (digit k) = k ∧ digit k ≠ ' ' ∧ digit k ≠ '+' ∧ digit k ≠ '-' ∧
    digit k ≠ '.' ∧ digit k ≠ ',' ∧ digit k ≠ 'Z' := by decide

theorem dec_small : ∀ n, n < 100 →
    dec n = if n < 10 then [digit n] else [digit (n / 10), digit (n % 10)] := by decide

structure CivilOK (c : Civil) : Prop where
  y : 1969 ≤ c.y ∧ c.y ≤ 2068
  m : 1 ≤ c.m ∧ c.m ≤ 12
  d : 1 ≤ c.d ∧ c.d ≤ 31
  hh : c.hh < 24
  mm : c.mm < 60
  ss : c.ss < 60
  wd : c.wd < 7

def OffOK (off : Int) : Prop := off % 60 = 0 ∧ -86400 < off ∧ off < 86400

/-- head of the remaining text satisfies `p` (vacuous at the end of the text) -/
def headP (p : Char → Bool) : Text → Bool
  | [] => true
  | c :: _ => p c

/-- what the element stores when it reads back its own output -/
def upd (s : Std) (c : Civil) (off : Int) (st : PS) : PS :=
  match s with
  | .year2 | .year4 => { st with year := (c.y : Int) }
  | .monthName | .monthNum | .monthZero => { st with month := (c.m : Int) }
  | .wdayName => st
  | .day | .dayUnder | .dayZero => { st with day := (c.d : Int) }
  | .hour => { st with hour := (c.hh : Int) }
  | .minZero => { st with min := (c.mm : Int) }
  | .secZero => { st with sec := (c.ss : Int) }
  | .tzNum => { st with zoneOffset := off }
  | .tzIsoColon => if off = 0 then { st with utc := true } else { st with zoneOffset := off }
  | .unsupported => st

/-- condition on the text that follows an element's output -/
def restOK (s : Std) (r : Text) : Bool :=
  match s with
  | .monthNum | .day | .dayUnder => headP (fun ch => !isDigit ch) r
  | .secZero => headP (fun ch => !commaOrPeriod ch) r
  | _ => true

theorem getnum_pad2 (n : Nat) (h : n < 100) (fixed : Bool) (rest : Text) :
    getnum fixed (pad2 n ++ rest) = some (n, rest) := by
  have h1 := digit_facts (n / 10) (by omega)
  have h2 := digit_facts (n % 10) (by omega)
  simp [pad2, h, getnum, h1.1, h2.1, h1.2.1, h2.2.1]; omega

theorem getnum_dec (n : Nat) (h : n < 100) (rest : Text) (hr : headP (fun ch => !isDigit ch) rest = true) :
    getnum false (dec n ++ rest) = some (n, rest) := by
  rw [dec_small n h]
  by_cases h10 : n < 10
  · have h1 := digit_facts n h10
    simp only [h10, if_true]
    match rest, hr with
    | [], _ => simp [getnum, h1.1, h1.2.1]
    | ch :: r, hr =>
      simp only [headP, Bool.not_eq_true'] at hr
      simp [getnum, h1.1, h1.2.1, hr]
  · have h1 := digit_facts (n / 10) (by omega)
    have h2 := digit_facts (n % 10) (by omega)
    simp [h10, getnum, h1.1, h2.1, h1.2.1, h2.2.1]; omega

theorem lookupAux_three (tab : List Text) (htab : ∀ n ∈ tab, n.length = 3) (k : Nat) (a b c : Char) (rest : Text) :
    lookupAux tab k (a :: b :: c :: rest) = (lookupAux tab k [a, b, c]).map fun p => (p.1, rest) := by
  induction tab generalizing k with
  | nil => simp [lookupAux]
  | cons n tab ih =>
    have hn : n.length = 3 := htab n (by simp)
    simp only [lookupAux, hn, List.length_cons, List.take_succ_cons, List.take_zero, List.drop_succ_cons, List.drop_zero]
    have e : (rest.length + 1 + 1 + 1 ≥ 3) = True := by simp
    simp only [List.length_nil, e]
    by_cases hmn : matchName [a, b, c] n
    · simp [hmn]
    · simp [hmn]
      exact ih (fun n hn => htab n (by simp [hn])) (k + 1)

theorem month_lookup : ∀ i, i < 12 → lookup monthNames (monthNames.getD i []) = some (i, []) := by decide
theorem day_lookup : ∀ i, i < 7 → lookup dayNames (dayNames.getD i []) = some (i, []) := by decide
theorem month_len : ∀ i, i < 12 → (monthNames.getD i []).length = 3 := by decide
theorem day_len : ∀ i, i < 7 → (dayNames.getD i []).length = 3 := by decide
theorem names_len3 : (∀ n ∈ monthNames, n.length = 3) ∧ (∀ n ∈ dayNames, n.length = 3) := by decide
theorem month_head : ∀ i, i < 12 → ((monthNames.getD i []).head?.map fun ch => ch != ' ' && ch != '-' && !isDigit ch) = some true := by decide
theorem day_head : ∀ i, i < 7 → ((dayNames.getD i []).head?.map fun ch => ch != ' ' && ch != '-' && !isDigit ch) = some true := by decide

theorem len3 (n : Text) (h : n.length = 3) : ∃ a b c, n = [a, b, c] := by
  match n, h with
  | [a, b, c], _ => exact ⟨a, b, c, rfl⟩

theorem lookup_name (tab : List Text) (htab : ∀ n ∈ tab, n.length = 3) (n : Text) (hn : n.length = 3) (i : Nat)
    (h : lookup tab n = some (i, [])) (rest : Text) : lookup tab (n ++ rest) = some (i, rest) := by
  obtain ⟨a, b, c, rfl⟩ := len3 n hn
  simp only [lookup] at *
  show lookupAux tab 0 (a :: b :: c :: rest) = _
  rw [lookupAux_three tab htab, h]; rfl



theorem tdiv_exact (off : Int) (h : off % 60 = 0) : Int.tdiv off 60 = off / 60 := by
  rcases Int.le_total 0 off with h0 | h0
  · exact Int.tdiv_eq_ediv_of_nonneg h0
  · have : off = -(-off) := by omega
    rw [this, Int.neg_tdiv, Int.tdiv_eq_ediv_of_nonneg (by omega)]; omega

theorem parseZone_digits (colon : Bool) (neg : Bool) (a b c d : Nat) (ha : a < 10) (hb : b < 10) (hc : c < 10) (hd : d < 10)
    (h24 : a * 10 + b ≤ 24) (h60 : c * 10 + d ≤ 60) (rest : Text) :
    parseZone colon ((if neg then '-' else '+') :: ([digit a, digit b] ++ (if colon then [':'] else []) ++ [digit c, digit d]) ++ rest)
      = some ((if neg then -1 else 1) * ((((a * 10 + b) * 60 + (c * 10 + d)) * 60 : Nat) : Int), rest) := by
  have h1 := digit_facts a ha
  have h2 := digit_facts b hb
  have h3 := digit_facts c hc
  have h4 := digit_facts d hd
  have e24 : ¬ (24 < a * 10 + b) := by omega
  have e60 : ¬ (60 < c * 10 + d) := by omega
  cases colon <;> cases neg <;>
    simp [parseZone, h1.1, h2.1, h3.1, h4.1, h1.2.1, h2.2.1, h3.2.1, h4.2.1, e24, e60]

theorem parseZone_fmtZone (colon : Bool) (off : Int) (ho : OffOK off) (rest : Text) :
    parseZone colon (fmtZone colon off ++ rest) = some (off, rest) := by
  obtain ⟨hm, hlo, hhi⟩ := ho
  simp only [fmtZone, tdiv_exact off hm]
  generalize hq : off / 60 = q
  generalize hH : q.natAbs / 60 = H
  generalize hM : q.natAbs % 60 = M
  have hH' : H < 24 := by omega
  have hM' : M < 60 := by omega
  have p1 : H < 100 := by omega
  have p2 : M < 100 := by omega
  simp only [pad2, p1, p2, if_true]
  have key := parseZone_digits colon (decide (q < 0)) (H / 10) (H % 10) (M / 10) (M % 10) (by omega) (by omega) (by omega) (by omega)
    (by omega) (by omega) rest
  have e1 : H / 10 * 10 + H % 10 = H := by omega
  have e2 : M / 10 * 10 + M % 10 = M := by omega
  rw [e1, e2] at key
  by_cases hneg : q < 0
  · have hv : (-1 : Int) * (((H * 60 + M) * 60 : Nat) : Int) = off := by omega
    simp only [hneg, decide_true, if_true, hv] at key ⊢
    exact key
  · have hv : (1 : Int) * (((H * 60 + M) * 60 : Nat) : Int) = off := by omega
    simp only [hneg, decide_false, if_false, Bool.false_eq_true, hv] at key ⊢
    exact key


theorem parseStd_fmt (s : Std) (hs : s ≠ .unsupported) (c : Civil) (hc : CivilOK c) (off : Int) (ho : OffOK off)
    (st : PS) (rest : Text) (hr : restOK s rest = true) :
    parseStd s st (fmtStd s c off ++ rest) = some (upd s c off st, rest) := by
  cases s with
  | unsupported => exact absurd rfl hs
  | year2 =>
    have hy := hc.y
    simp only [parseStd, fmtStd, upd]
    generalize hyy : c.y % 100 = yy
    have hlt : yy < 100 := by omega
    generalize ha : yy / 10 = a
    generalize hb : yy % 10 = b
    have h1 := digit_facts a (by omega)
    have h2 := digit_facts b (by omega)
    simp only [pad2, hlt, if_true, ha, hb, List.cons_append, List.nil_append]
    simp only [atoi2, h1.1, h2.1, h1.2.1, h2.2.1, Bool.and_self, if_true, beq_iff_eq, h1.2.2.2.1, h1.2.2.2.2.1, if_false,
      Option.map_some]
    have this : a * 10 + b = yy := by omega
    have key : (if ((a * 10 + b : Nat) : Int) ≥ 69 then ((a * 10 + b : Nat) : Int) + 1900 else ((a * 10 + b : Nat) : Int) + 2000) = (c.y : Int) := by
      rw [this]; clear h1 h2
      split <;> omega
    rw [key]
  | year4 =>
    have hy := hc.y
    have h1 := digit_facts (c.y / 1000) (by omega)
    have h2 := digit_facts (c.y / 100 % 10) (by omega)
    have h3 := digit_facts (c.y / 10 % 10) (by omega)
    have h4 := digit_facts (c.y % 10) (by omega)
    have hlt : c.y < 10000 := by omega
    simp only [parseStd, fmtStd, pad4, hlt, if_true, List.cons_append, List.nil_append, upd,
      h1.1, h2.1, h3.1, h4.1, h1.2.1, h2.2.1, h3.2.1, h4.2.1, Bool.and_self]
    congr 3
    omega
  | monthName =>
    have hm := hc.m
    simp only [parseStd, fmtStd, upd]
    rw [lookup_name monthNames names_len3.1 _ (month_len _ (by omega)) (c.m - 1) (month_lookup _ (by omega))]
    simp only [Option.map_some]
    congr 3
    omega
  | monthNum =>
    have hm := hc.m
    simp only [parseStd, fmtStd, upd]
    rw [getnum_dec c.m (by omega) rest (by simpa [restOK] using hr)]
    have : ¬ (c.m = 0 ∨ 12 < c.m) := by omega
    simp [this]
  | monthZero =>
    have hm := hc.m
    simp only [parseStd, fmtStd, upd]
    rw [getnum_pad2 c.m (by omega)]
    have : ¬ (c.m = 0 ∨ 12 < c.m) := by omega
    simp [this]
  | wdayName =>
    have hw := hc.wd
    simp only [parseStd, fmtStd, upd]
    rw [lookup_name dayNames names_len3.2 _ (day_len _ hw) c.wd (day_lookup _ hw)]
    rfl
  | day =>
    have hd := hc.d
    simp only [parseStd, fmtStd, upd]
    rw [getnum_dec c.d (by omega) rest (by simpa [restOK] using hr)]
    rfl
  | dayUnder =>
    have hd := hc.d
    simp only [parseStd, fmtStd, upd]
    have hdec := dec_small c.d (by omega)
    have hg := getnum_dec c.d (by omega) rest (by simpa [restOK] using hr)
    by_cases h10 : c.d < 10
    · simp only [h10, if_true, List.cons_append, beq_self_eq_true]
      rw [hg]; rfl
    · have h1 := digit_facts (c.d / 10) (by omega)
      have hb : (digit (c.d / 10) == ' ') = false := by simpa using h1.2.2.1
      simp only [h10, if_false]
      rw [hdec] at hg ⊢
      simp only [h10, if_false, List.cons_append, List.nil_append, hb, Bool.false_eq_true] at hg ⊢
      rw [hg]; rfl
  | dayZero =>
    have hd := hc.d
    simp only [parseStd, fmtStd, upd]
    rw [getnum_pad2 c.d (by omega)]
    rfl
  | hour =>
    have hh := hc.hh
    simp only [parseStd, fmtStd, upd]
    rw [getnum_pad2 c.hh (by omega)]
    have : ¬ (24 ≤ c.hh) := by omega
    simp [this]
  | minZero =>
    have hh := hc.mm
    simp only [parseStd, fmtStd, upd]
    rw [getnum_pad2 c.mm (by omega)]
    have : ¬ (60 ≤ c.mm) := by omega
    simp [this]
  | secZero =>
    have hh := hc.ss
    simp only [parseStd, fmtStd, upd]
    rw [getnum_pad2 c.ss (by omega)]
    have : ¬ (60 ≤ c.ss) := by omega
    simp only [Option.bind_some, this, if_false]
    congr 2
    match rest, hr with
    | [], _ => rfl
    | [_], _ => rfl
    | a :: b :: q, hr =>
      simp only [restOK, headP, Bool.not_eq_true'] at hr
      simp [hr]
  | tzNum =>
    simp only [parseStd, fmtStd, upd]
    rw [parseZone_fmtZone false off ho]
    rfl
  | tzIsoColon =>
    simp only [parseStd, fmtStd, upd]
    by_cases h0 : off = 0
    · simp [h0]
    · have hb : (off == 0) = false := by simpa using h0
      simp only [hb, h0, if_false, Bool.false_eq_true]
      have hp := parseZone_fmtZone true off ho rest
      simp only [fmtZone, List.cons_append] at hp ⊢
      by_cases hneg : Int.tdiv off 60 < 0
      · simp only [hneg, if_true] at hp ⊢
        rw [hp]; simp
      · simp only [hneg, if_false] at hp ⊢
        rw [hp]; simp


/-! ### heads of formatted elements, `cutspace`, `skip` -/

theorem pad2_head (n : Nat) (h : n < 100) : ∃ r, pad2 n = digit (n / 10) :: r := by
  simp [pad2, h]

theorem dec_head (n : Nat) (h : n < 100) : ∃ k r, k < 10 ∧ dec n = digit k :: r := by
  rw [dec_small n h]
  by_cases h10 : n < 10
  · exact ⟨n, [], h10, by simp [h10]⟩
  · exact ⟨n / 10, [digit (n % 10)], by omega, by simp [h10]⟩

/-- the output of every element is non-empty; its first character is not a space (except `_2`),
    and for the zone elements it is neither `.` nor `,` -/
theorem fmtStd_head (s : Std) (hs : s ≠ .unsupported) (c : Civil) (hc : CivilOK c) (off : Int) :
    ∃ ch r, fmtStd s c off = ch :: r ∧ (s ≠ .dayUnder → ch ≠ ' ') ∧
      ((s = .tzNum ∨ s = .tzIsoColon) → commaOrPeriod ch = false) := by
  have dg : ∀ k, k < 10 → digit k ≠ ' ' := fun k hk => (digit_facts k hk).2.2.1
  cases s with
  | unsupported => exact absurd rfl hs
  | year2 =>
    have hy := hc.y
    obtain ⟨r, hr⟩ := pad2_head (c.y % 100) (by omega)
    exact ⟨_, r, hr, fun _ => dg _ (by omega), by simp⟩
  | year4 =>
    have hy := hc.y
    have hlt : c.y < 10000 := by omega
    exact ⟨digit (c.y / 1000), [digit (c.y / 100 % 10), digit (c.y / 10 % 10), digit (c.y % 10)], by simp [fmtStd, pad4, hlt], fun _ => dg _ (by omega), by simp⟩
  | monthName =>
    have hm := hc.m
    have h := month_head (c.m - 1) (by omega)
    simp only [fmtStd]
    match hn : monthNames.getD (c.m - 1) [], h with
    | ch :: r, h =>
      simp only [List.head?_cons, Option.map_some, Option.some.injEq, Bool.and_eq_true, bne_iff_ne, ne_eq] at h
      exact ⟨ch, r, rfl, fun _ => h.1.1, by simp⟩
  | monthNum =>
    have hm := hc.m
    obtain ⟨k, r, hk, hr⟩ := dec_head c.m (by omega)
    exact ⟨_, r, hr, fun _ => dg _ hk, by simp⟩
  | monthZero =>
    have hm := hc.m
    obtain ⟨r, hr⟩ := pad2_head c.m (by omega)
    exact ⟨_, r, hr, fun _ => dg _ (by omega), by simp⟩
  | wdayName =>
    have hw := hc.wd
    have h := day_head c.wd hw
    simp only [fmtStd]
    match hn : dayNames.getD c.wd [], h with
    | ch :: r, h =>
      simp only [List.head?_cons, Option.map_some, Option.some.injEq, Bool.and_eq_true, bne_iff_ne, ne_eq] at h
      exact ⟨ch, r, rfl, fun _ => h.1.1, by simp⟩
  | day =>
    have hd := hc.d
    obtain ⟨k, r, hk, hr⟩ := dec_head c.d (by omega)
    exact ⟨_, r, hr, fun _ => dg _ hk, by simp⟩
  | dayUnder =>
    have hd := hc.d
    obtain ⟨k, r, hk, hr⟩ := dec_head c.d (by omega)
    simp only [fmtStd]
    by_cases h10 : c.d < 10
    · exact ⟨' ', dec c.d, by simp [h10], fun h => absurd rfl h, by simp⟩
    · exact ⟨digit k, r, by simp [h10, hr], fun h => absurd rfl h, by simp⟩
  | dayZero =>
    have hd := hc.d
    obtain ⟨r, hr⟩ := pad2_head c.d (by omega)
    exact ⟨_, r, hr, fun _ => dg _ (by omega), by simp⟩
  | hour =>
    have hd := hc.hh
    obtain ⟨r, hr⟩ := pad2_head c.hh (by omega)
    exact ⟨_, r, hr, fun _ => dg _ (by omega), by simp⟩
  | minZero =>
    have hd := hc.mm
    obtain ⟨r, hr⟩ := pad2_head c.mm (by omega)
    exact ⟨_, r, hr, fun _ => dg _ (by omega), by simp⟩
  | secZero =>
    have hd := hc.ss
    obtain ⟨r, hr⟩ := pad2_head c.ss (by omega)
    exact ⟨_, r, hr, fun _ => dg _ (by omega), by simp⟩
  | tzNum =>
    simp only [fmtStd, fmtZone]
    split
    · exact ⟨'-', _, rfl, fun _ => by decide, fun _ => by decide⟩
    · exact ⟨'+', _, rfl, fun _ => by decide, fun _ => by decide⟩
  | tzIsoColon =>
    simp only [fmtStd, fmtZone]
    split
    · exact ⟨'Z', _, rfl, fun _ => by decide, fun _ => by decide⟩
    · split
      · exact ⟨'-', _, rfl, fun _ => by decide, fun _ => by decide⟩
      · exact ⟨'+', _, rfl, fun _ => by decide, fun _ => by decide⟩

theorem cutspace_cons_ne (ch : Char) (r : Text) (h : ch ≠ ' ') : cutspace (ch :: r) = ch :: r := by
  simp [cutspace, h]

/-- an element reads its own output back also after `skip` has eaten the spaces in front of it -/
theorem parseStd_fmt_cut (s : Std) (hs : s ≠ .unsupported) (c : Civil) (hc : CivilOK c) (off : Int) (ho : OffOK off)
    (st : PS) (rest : Text) (hr : restOK s rest = true) :
    parseStd s st (cutspace (fmtStd s c off ++ rest)) = some (upd s c off st, rest) := by
  by_cases hu : s = .dayUnder
  · subst hu
    have hd := hc.d
    have hbase := parseStd_fmt .dayUnder hs c hc off ho st rest hr
    by_cases h10 : c.d < 10
    · obtain ⟨k, r, hk, hdk⟩ := dec_head c.d (by omega)
      have hne := (digit_facts k hk).2.2.1
      have hb : (digit k == ' ') = false := by simpa using hne
      simp only [fmtStd, h10, if_true, List.cons_append] at hbase ⊢
      simp only [cutspace, beq_self_eq_true, if_true]
      rw [hdk] at hbase ⊢
      simp only [List.cons_append, cutspace, hb, Bool.false_eq_true, if_false]
      simp only [parseStd, beq_self_eq_true, if_true, hb, Bool.false_eq_true, if_false] at hbase ⊢
      exact hbase
    · obtain ⟨ch, r, hf, _, _⟩ := fmtStd_head .dayUnder hs c hc off
      obtain ⟨k, r', hk, hdk⟩ := dec_head c.d (by omega)
      have hne := (digit_facts k hk).2.2.1
      simp only [fmtStd, h10, if_false] at hbase ⊢
      rw [hdk] at hbase ⊢
      rw [List.cons_append, cutspace_cons_ne _ _ hne]
      exact hbase
  · obtain ⟨ch, r, hf, hsp, _⟩ := fmtStd_head s hs c hc off
    have hbase := parseStd_fmt s hs c hc off ho st rest hr
    rw [hf] at hbase ⊢
    rw [List.cons_append, cutspace_cons_ne _ _ (hsp hu)]
    exact hbase

/-- a literal is matched by `skip` when it has no space except possibly as its last character -/
def litOK (p : Text) : Bool := p.dropLast.all (· != ' ')

def endsSpace (p : Text) : Bool := p.getLast? == some ' '

theorem skipAux_lit (p : Text) (hp : litOK p = true) (rest : Text) :
    skipAux p false (p ++ rest) = some (if endsSpace p then cutspace rest else rest) := by
  induction p with
  | nil => simp [skipAux, endsSpace]
  | cons ch p ih =>
    cases p with
    | nil =>
      by_cases hsp : ch = ' '
      · subst hsp
        simp [skipAux, endsSpace, cutspace]
      · have hb : (ch == ' ') = false := by simpa using hsp
        simp [skipAux, endsSpace, hb]
    | cons ch2 p2 =>
      have hch : ch ≠ ' ' := by
        simp only [litOK, List.dropLast_cons_cons, List.all_cons, Bool.and_eq_true, bne_iff_ne, ne_eq] at hp
        exact hp.1
      have hp' : litOK (ch2 :: p2) = true := by
        simp only [litOK, List.dropLast_cons_cons, List.all_cons, Bool.and_eq_true] at hp
        exact hp.2
      have hb : (ch == ' ') = false := by simpa using hch
      have he : endsSpace (ch :: ch2 :: p2) = endsSpace (ch2 :: p2) := by
        simp [endsSpace, List.getLast?_cons_cons]
      rw [he, ← ih hp']
      simp [skipAux, hb]


/-! ### whole layouts -/

/-- what follows a variable-width element must not start with a digit; what follows the seconds
    must not look like a fractional second -/
def nextHeadOK (s : Std) (rest : List Tok) : Bool :=
  match s with
  | .monthNum | .day | .dayUnder =>
    (match rest with
     | [] => true
     | .lit (ch :: _) :: _ => !isDigit ch
     | _ => false)
  | .secZero =>
    (match rest with
     | [] => true
     | .lit (ch :: _) :: _ => !commaOrPeriod ch
     | .std .tzNum :: _ => true
     | .std .tzIsoColon :: _ => true
     | _ => false)
  | _ => true

/-- the layouts the round-trip argument covers (checked by evaluation for every supported layout) -/
def good : List Tok → Bool
  | [] => true
  | .lit p :: rest =>
    !p.isEmpty && litOK p &&
    (if endsSpace p then (match rest with | .std _ :: _ => true | _ => false) else true) && good rest
  | .std s :: rest => s != .unsupported && nextHeadOK s rest && good rest

def updAll (toks : List Tok) (c : Civil) (off : Int) (st : PS) : PS :=
  match toks with
  | [] => st
  | .lit _ :: r => updAll r c off st
  | .std s :: r => updAll r c off (upd s c off st)

theorem restOK_of_next (s : Std) (rest : List Tok) (h : nextHeadOK s rest = true) (hg : good rest = true)
    (c : Civil) (hc : CivilOK c) (off : Int) : restOK s (fmtToks rest c off) = true := by
  cases rest with
  | nil => cases s <;> simp [restOK, fmtToks, headP]
  | cons t r =>
    cases t with
    | lit p =>
      cases p with
      | nil => simp [good] at hg
      | cons ch p' =>
        cases s <;> simp_all [restOK, fmtToks, headP, nextHeadOK]
    | std s2 =>
      have hs2 : s2 ≠ .unsupported := by
        simp only [good, Bool.and_eq_true, bne_iff_ne, ne_eq] at hg; exact hg.1.1
      obtain ⟨ch, q, hf, _, htz⟩ := fmtStd_head s2 hs2 c hc off
      cases s with
      | secZero =>
        cases s2 with
        | tzNum => simp [restOK, fmtToks, hf, headP, htz (Or.inl rfl)]
        | tzIsoColon => simp [restOK, fmtToks, hf, headP, htz (Or.inr rfl)]
        | _ => simp [nextHeadOK] at h
      | monthNum => simp [nextHeadOK] at h
      | day => simp [nextHeadOK] at h
      | dayUnder => simp [nextHeadOK] at h
      | _ => simp [restOK]

theorem parse_fmt_toks (toks : List Tok) (hg : good toks = true) (c : Civil) (hc : CivilOK c) (off : Int) (ho : OffOK off)
    (st : PS) :
    parseToks toks st (fmtToks toks c off) = some (updAll toks c off st) ∧
    ((toks = [] ∨ ∃ s r, toks = .std s :: r) →
      parseToks toks st (cutspace (fmtToks toks c off)) = some (updAll toks c off st)) := by
  induction toks generalizing st with
  | nil => simp [parseToks, fmtToks, updAll, cutspace]
  | cons t rest ih =>
    cases t with
    | lit p =>
      simp only [good, Bool.and_eq_true] at hg
      obtain ⟨⟨⟨_, hlit⟩, hnext⟩, hgr⟩ := hg
      refine ⟨?_, fun h => ?_⟩
      · simp only [parseToks, fmtToks, updAll, skip, skipAux_lit p hlit, Option.bind_some]
        by_cases he : endsSpace p = true
        · simp only [he, if_true] at hnext ⊢
          have : ∃ s r, rest = .std s :: r := by
            match rest, hnext with
            | .std s :: r, _ => exact ⟨s, r, rfl⟩
          exact (ih hgr st).2 (Or.inr this)
        · simp only [he, Bool.false_eq_true, if_false]
          exact (ih hgr st).1
      · rcases h with h | ⟨s, r, h⟩ <;> simp at h
    | std s =>
      simp only [good, Bool.and_eq_true, bne_iff_ne, ne_eq] at hg
      obtain ⟨⟨hs, hnext⟩, hgr⟩ := hg
      have hrest := restOK_of_next s rest hnext hgr c hc off
      refine ⟨?_, fun _ => ?_⟩
      · simp only [parseToks, fmtToks, updAll, parseStd_fmt s hs c hc off ho st _ hrest, Option.bind_some]
        exact (ih hgr _).1
      · simp only [parseToks, fmtToks, updAll, parseStd_fmt_cut s hs c hc off ho st _ hrest, Option.bind_some]
        exact (ih hgr _).1



/-! ### the fields a layout sets -/

def hasStd (p : Std → Bool) : List Tok → Bool
  | [] => false
  | .lit _ :: r => hasStd p r
  | .std s :: r => p s || hasStd p r

def isYear : Std → Bool | .year2 | .year4 => true | _ => false
def isMonth : Std → Bool | .monthName | .monthNum | .monthZero => true | _ => false
def isDay : Std → Bool | .day | .dayUnder | .dayZero => true | _ => false
def isHour : Std → Bool | .hour => true | _ => false
def isMin : Std → Bool | .minZero => true | _ => false
def isSec : Std → Bool | .secZero => true | _ => false
def isTzNum : Std → Bool | .tzNum => true | _ => false
def isTzIso : Std → Bool | .tzIsoColon => true | _ => false

theorem updAll_year (toks : List Tok) (c : Civil) (off : Int) (st : PS) :
    (updAll toks c off st).year = if hasStd isYear toks then (c.y : Int) else st.year := by
  induction toks generalizing st with
  | nil => simp [updAll, hasStd]
  | cons t r ih =>
    cases t with
    | lit p => simp only [updAll, hasStd]; exact ih st
    | std s =>
      simp only [updAll, hasStd]; rw [ih]
      cases s <;> simp [upd, isYear] <;> (by_cases h0 : off = 0 <;> simp [h0])

theorem updAll_month (toks : List Tok) (c : Civil) (off : Int) (st : PS) :
    (updAll toks c off st).month = if hasStd isMonth toks then (c.m : Int) else st.month := by
  induction toks generalizing st with
  | nil => simp [updAll, hasStd]
  | cons t r ih =>
    cases t with
    | lit p => simp only [updAll, hasStd]; exact ih st
    | std s =>
      simp only [updAll, hasStd]; rw [ih]
      cases s <;> simp [upd, isMonth] <;> (by_cases h0 : off = 0 <;> simp [h0])

theorem updAll_day (toks : List Tok) (c : Civil) (off : Int) (st : PS) :
    (updAll toks c off st).day = if hasStd isDay toks then (c.d : Int) else st.day := by
  induction toks generalizing st with
  | nil => simp [updAll, hasStd]
  | cons t r ih =>
    cases t with
    | lit p => simp only [updAll, hasStd]; exact ih st
    | std s =>
      simp only [updAll, hasStd]; rw [ih]
      cases s <;> simp [upd, isDay] <;> (by_cases h0 : off = 0 <;> simp [h0])

theorem updAll_hour (toks : List Tok) (c : Civil) (off : Int) (st : PS) :
    (updAll toks c off st).hour = if hasStd isHour toks then (c.hh : Int) else st.hour := by
  induction toks generalizing st with
  | nil => simp [updAll, hasStd]
  | cons t r ih =>
    cases t with
    | lit p => simp only [updAll, hasStd]; exact ih st
    | std s =>
      simp only [updAll, hasStd]; rw [ih]
      cases s <;> simp [upd, isHour] <;> (by_cases h0 : off = 0 <;> simp [h0])

theorem updAll_min (toks : List Tok) (c : Civil) (off : Int) (st : PS) :
    (updAll toks c off st).min = if hasStd isMin toks then (c.mm : Int) else st.min := by
  induction toks generalizing st with
  | nil => simp [updAll, hasStd]
  | cons t r ih =>
    cases t with
    | lit p => simp only [updAll, hasStd]; exact ih st
    | std s =>
      simp only [updAll, hasStd]; rw [ih]
      cases s <;> simp [upd, isMin] <;> (by_cases h0 : off = 0 <;> simp [h0])

theorem updAll_sec (toks : List Tok) (c : Civil) (off : Int) (st : PS) :
    (updAll toks c off st).sec = if hasStd isSec toks then (c.ss : Int) else st.sec := by
  induction toks generalizing st with
  | nil => simp [updAll, hasStd]
  | cons t r ih =>
    cases t with
    | lit p => simp only [updAll, hasStd]; exact ih st
    | std s =>
      simp only [updAll, hasStd]; rw [ih]
      cases s <;> simp [upd, isSec] <;> (by_cases h0 : off = 0 <;> simp [h0])

theorem updAll_utc (toks : List Tok) (c : Civil) (off : Int) (st : PS) :
    (updAll toks c off st).utc = (st.utc || (hasStd isTzIso toks && decide (off = 0))) := by
  induction toks generalizing st with
  | nil => simp [updAll, hasStd]
  | cons t r ih =>
    cases t with
    | lit p => simp only [updAll, hasStd]; exact ih st
    | std s =>
      simp only [updAll, hasStd]; rw [ih]
      cases s <;> simp [upd, isTzIso] <;> (by_cases h0 : off = 0 <;> simp [h0])

theorem updAll_zoneOffset (toks : List Tok) (c : Civil) (off : Int) (st : PS) :
    (updAll toks c off st).zoneOffset =
      if hasStd isTzNum toks || (hasStd isTzIso toks && decide (off ≠ 0)) then off else st.zoneOffset := by
  induction toks generalizing st with
  | nil => simp [updAll, hasStd]
  | cons t r ih =>
    cases t with
    | lit p => simp only [updAll, hasStd]; exact ih st
    | std s =>
      simp only [updAll, hasStd]; rw [ih]
      cases s <;> simp [upd, isTzIso, isTzNum] <;> (by_cases h0 : off = 0 <;> simp [h0])


/-- the window of wall-clock readings whose year is 1969..2068 -/
def InWindow (L : Int) : Prop := -31536000 ≤ L ∧ L < 3124224000

theorem daysIn_le (m y : Int) : daysIn m y ≤ 31 := by
  simp only [daysIn]; split <;> (try split) <;> omega

theorem civilOf_fields (L : Int) (hw : InWindow L) :
    CivilOK (civilOf L) ∧
    ((civilOf L).y : Int) = (civilFromDays (L / 86400)).1 ∧
    ((civilOf L).m : Int) = (civilFromDays (L / 86400)).2.1 ∧
    ((civilOf L).d : Int) = (civilFromDays (L / 86400)).2.2 ∧
    ((civilOf L).hh : Int) = L % 86400 / 3600 ∧
    ((civilOf L).mm : Int) = L % 86400 % 3600 / 60 ∧
    ((civilOf L).ss : Int) = L % 86400 % 60 := by
  obtain ⟨h0, h1⟩ := hw
  have hy := civil_year_window (L / 86400) (by omega) (by omega)
  have hv := civil_valid (L / 86400)
  have hdi := daysIn_le (civilFromDays (L / 86400)).2.1 (civilFromDays (L / 86400)).1
  simp only [civilOf]
  rcases hcf : civilFromDays (L / 86400) with ⟨y, m, d⟩
  simp only [hcf] at hy hv hdi ⊢
  refine ⟨⟨?_, ?_, ?_, ?_, ?_, ?_, ?_⟩, ?_, ?_, ?_, ?_, ?_, ?_⟩ <;> (try dsimp only) <;> omega


/-! ## from the parsed fields to the instant -/

theorem dateLocal_fixed (loc u : Int) : dateLocal (fixedZone loc) u = .ok (u - loc) := by
  simp only [dateLocal, fixedZone, Zone.lookup, List.find?, inSeg]
  by_cases h : loc = 0
  · subst h; simp
  · have hb : (loc != 0) = true := by simpa using h
    simp [hb]

/-- all date and clock elements present -/
def complete (toks : List Tok) : Bool :=
  hasStd isYear toks && hasStd isMonth toks && hasStd isDay toks && hasStd isHour toks && hasStd isMin toks

def hasZone (toks : List Tok) : Bool := hasStd isTzNum toks || hasStd isTzIso toks

/-- the instant at the layout's precision: whole minutes of the wall clock when it has no seconds -/
def truncTo (toks : List Tok) (t off : Int) : Int :=
  if hasStd isSec toks then t else t - (t + off) % 60

theorem finish_fmt (toks : List Tok) (hcpl : complete toks = true) (t off loc : Int) (ho : OffOK off)
    (hw : InWindow (t + off)) (hz : hasZone toks = true ∨ off = loc) :
    finish (fixedZone loc) (updAll toks (civilOf (t + off)) off {}) = .ok (truncTo toks t off) := by
  obtain ⟨hc, fy, fm, fd, fh, fmi, fs⟩ := civilOf_fields (t + off) hw
  simp only [complete, Bool.and_eq_true] at hcpl
  obtain ⟨⟨⟨⟨hY, hM⟩, hD⟩, hH⟩, hMi⟩ := hcpl
  have rt := civil_roundtrip ((t + off) / 86400)
  have vd := civil_valid ((t + off) / 86400)
  generalize hst : updAll toks (civilOf (t + off)) off {} = st
  have e1 : st.year = (civilFromDays ((t + off) / 86400)).1 := by rw [← hst, updAll_year, hY, if_pos rfl, fy]
  have e2 : st.month = (civilFromDays ((t + off) / 86400)).2.1 := by rw [← hst, updAll_month, hM, if_pos rfl, fm]
  have e3 : st.day = (civilFromDays ((t + off) / 86400)).2.2 := by rw [← hst, updAll_day, hD, if_pos rfl, fd]
  have e4 : st.hour = (t + off) % 86400 / 3600 := by rw [← hst, updAll_hour, hH, if_pos rfl, fh]
  have e5 : st.min = (t + off) % 86400 % 3600 / 60 := by rw [← hst, updAll_min, hMi, if_pos rfl, fmi]
  have e6 : st.sec = if hasStd isSec toks then (t + off) % 86400 % 60 else 0 := by
    rw [← hst, updAll_sec, fs]
  have e7 : st.utc = (hasStd isTzIso toks && decide (off = 0)) := by rw [← hst, updAll_utc]; simp
  have e8 : st.zoneOffset = if hasStd isTzNum toks || (hasStd isTzIso toks && decide (off ≠ 0)) then off else -1 := by
    rw [← hst, updAll_zoneOffset]
  have hm0 : ¬ st.month < 0 := by omega
  have hd0 : ¬ st.day < 0 := by omega
  have hwall : wallSecs st st.month st.day = (t + off) - (if hasStd isSec toks then 0 else (t + off) % 60) := by
    simp only [wallSecs, e1, e2, e3, rt, e4, e5, e6]
    split <;> omega
  have hdv : ¬ (st.day < 1 ∨ st.day > daysIn st.month st.year) := by
    rw [e1, e2, e3]; omega
  simp only [finish, hm0, hd0, if_false, hwall]
  have hdv' : (decide (st.day < 1) || decide (st.day > daysIn st.month st.year)) = false := by
    simpa using hdv
  simp only [hdv', Bool.false_eq_true, if_false]
  obtain ⟨hm60, _, _⟩ := ho
  simp only [truncTo]
  have hne : (off != -1) = true := by simp only [bne_iff_ne, ne_eq]; omega
  have hloc : hasStd isTzIso toks = false → hasStd isTzNum toks = false → loc = off := by
    intro a b
    rcases hz with h | h
    · simp [hasZone, a, b] at h
    · exact h.symm
  cases hiso : hasStd isTzIso toks <;> cases hnum : hasStd isTzNum toks <;>
    cases hsec : hasStd isSec toks <;> by_cases h0 : off = 0 <;>
    simp only [e7, e8, hiso, hnum, h0, hne, Bool.true_and, Bool.false_and, Bool.or_false, Bool.or_true,
      Bool.or_self, decide_true, decide_false, if_true, if_false, Bool.false_eq_true, ne_eq, not_true_eq_false,
      not_false_eq_true, dateLocal_fixed, Res.ok.injEq] <;>
    first
      | omega
      | (have hl := hloc hiso hnum; omega)
      | (have hl := hloc hiso hnum
         have hx : ((-1 : Int) != -1) = false := by decide
         simp only [hx, Bool.false_eq_true, if_false, Res.ok.injEq]; omega)
      | (have hx : ((0 : Int) != -1) = true := by decide
         simp only [hx, if_true, Res.ok.injEq]; omega)


/-- **a layout reads its own output back**: for every layout that passes the structural checks
    `good` and `complete`, every instant whose wall-clock year is 1969..2068 and every whole-minute
    offset, parsing the formatted text in a fixed-offset local zone gives the instant at the
    layout's precision (layouts without a zone element are written and read in the local zone) -/
theorem parseInLocation_format (toks : List Tok) (hg : good toks = true) (hcpl : complete toks = true)
    (hu : hasUnsupported toks = false) (t off loc : Int) (ho : OffOK off) (hw : InWindow (t + off))
    (hz : hasZone toks = true ∨ off = loc) :
    parseInLocation toks (fixedZone loc) (formatAt toks t off) = .ok (truncTo toks t off) := by
  have hc := (civilOf_fields (t + off) hw).1
  simp only [parseInLocation, hu, Bool.false_eq_true, if_false, formatAt]
  rw [(parse_fmt_toks toks hg (civilOf (t + off)) hc off ho {}).1]
  exact finish_fmt toks hcpl t off loc ho hw hz

/-! ## the try-in-order loop -/

theorem parseInLocation_fixed_total (toks : List Tok) (hu : hasUnsupported toks = false) (loc : Int) (v : Text) :
    parseInLocation toks (fixedZone loc) v = .err ∨ ∃ u, parseInLocation toks (fixedZone loc) v = .ok u := by
  simp only [parseInLocation, hu, Bool.false_eq_true, if_false]
  cases parseToks toks {} v with
  | none => exact Or.inl rfl
  | some st =>
    simp only [finish, dateLocal_fixed]
    generalize (if st.month < 0 then 1 else st.month) = mo
    generalize (if st.day < 0 then 1 else st.day) = da
    by_cases h1 : (decide (da < 1) || decide (da > daysIn mo st.year)) = true
    · simp [h1]
    · by_cases h2 : st.utc = true
      · simp [h1, h2]
      · by_cases h3 : (st.zoneOffset != -1) = true <;> simp [h1, h2, h3]

/-- the loop returns the answer of the first layout that accepts -/
theorem tryLayouts_first (ls : List (List Tok)) (z : Zone) (v : Text) (i : Nat) (hi : i < ls.length) (t : Int)
    (hok : parseInLocation ls[i] z v = .ok t)
    (hall : ∀ j (hj : j < ls.length), j < i → parseInLocation ls[j] z v = .err ∨ ∃ u, parseInLocation ls[j] z v = .ok u) :
    ∃ u, tryLayouts ls z v = .ok u ∧
      (u = t ∨ ∃ j, ∃ hj : j < ls.length, j < i ∧ parseInLocation ls[j] z v = .ok u) := by
  induction ls generalizing i with
  | nil => simp at hi
  | cons l ls ih =>
    cases i with
    | zero =>
      simp only [List.getElem_cons_zero] at hok
      exact ⟨t, by simp [tryLayouts, hok], Or.inl rfl⟩
    | succ i =>
      have h0 := hall 0 (by simp) (by omega)
      simp only [List.getElem_cons_zero] at h0
      rcases h0 with h0 | ⟨u, h0⟩
      · simp only [tryLayouts, h0]
        have hi' : i < ls.length := by simpa using hi
        obtain ⟨u, hu, hcase⟩ := ih i hi' (by simpa using hok)
          (fun j hj hji => by have := hall (j + 1) (by simpa using hj) (by omega); simpa using this)
        refine ⟨u, hu, ?_⟩
        rcases hcase with h | ⟨j, hj, hji, hp⟩
        · exact Or.inl h
        · exact Or.inr ⟨j + 1, by simpa using hj, by omega, by simpa using hp⟩
      · exact ⟨u, by simp [tryLayouts, h0], Or.inr ⟨0, by simp, by omega, by simpa using h0⟩⟩


/-! ## the text of a supported layout is neither relative nor an integer -/

def firstTokOK (toks : List Tok) : Bool :=
  match toks with
  | .std s :: _ => s != .dayUnder && s != .tzNum && s != .tzIsoColon && s != .unsupported
  | _ => false

def hasColonLit (toks : List Tok) : Bool := toks.contains (.lit [':'])

theorem name_heads : (∀ i, i < 12 → ((monthNames.getD i []).head?.map fun ch => ch != '-' && ch != '+') = some true) ∧
    (∀ i, i < 7 → ((dayNames.getD i []).head?.map fun ch => ch != '-' && ch != '+') = some true) := by decide

theorem fmtStd_head_nosign (s : Std) (hs : (s != .dayUnder && s != .tzNum && s != .tzIsoColon && s != .unsupported) = true)
    (c : Civil) (hc : CivilOK c) (off : Int) : ∃ ch r, fmtStd s c off = ch :: r ∧ ch ≠ '-' ∧ ch ≠ '+' := by
  have dg : ∀ k, k < 10 → digit k ≠ '-' ∧ digit k ≠ '+' := fun k hk => ⟨(digit_facts k hk).2.2.2.2.1, (digit_facts k hk).2.2.2.1⟩
  have p2 : ∀ n, n < 100 → ∃ ch r, pad2 n = ch :: r ∧ ch ≠ '-' ∧ ch ≠ '+' := fun n hn => by
    obtain ⟨r, hr⟩ := pad2_head n hn
    exact ⟨_, r, hr, dg _ (by omega)⟩
  have dc : ∀ n, n < 100 → ∃ ch r, dec n = ch :: r ∧ ch ≠ '-' ∧ ch ≠ '+' := fun n hn => by
    obtain ⟨k, r, hk, hr⟩ := dec_head n hn
    exact ⟨_, r, hr, dg _ hk⟩
  have hy := hc.y; have hm := hc.m; have hd := hc.d; have hh := hc.hh; have hmm := hc.mm; have hss := hc.ss; have hwd := hc.wd
  cases s with
  | year2 => exact p2 _ (by omega)
  | year4 =>
    have hlt : c.y < 10000 := by omega
    exact ⟨digit (c.y / 1000), [digit (c.y / 100 % 10), digit (c.y / 10 % 10), digit (c.y % 10)], by simp [fmtStd, pad4, hlt], dg _ (by omega)⟩
  | monthName =>
    have h := name_heads.1 (c.m - 1) (by omega)
    simp only [fmtStd]
    match hn : monthNames.getD (c.m - 1) [], h with
    | ch :: r, h =>
      simp only [List.head?_cons, Option.map_some, Option.some.injEq, Bool.and_eq_true, bne_iff_ne, ne_eq] at h
      exact ⟨ch, r, rfl, h.1, h.2⟩
  | monthNum => exact dc _ (by omega)
  | monthZero => exact p2 _ (by omega)
  | wdayName =>
    have h := name_heads.2 c.wd hwd
    simp only [fmtStd]
    match hn : dayNames.getD c.wd [], h with
    | ch :: r, h =>
      simp only [List.head?_cons, Option.map_some, Option.some.injEq, Bool.and_eq_true, bne_iff_ne, ne_eq] at h
      exact ⟨ch, r, rfl, h.1, h.2⟩
  | day => exact dc _ (by omega)
  | dayZero => exact p2 _ (by omega)
  | hour => exact p2 _ (by omega)
  | minZero => exact p2 _ (by omega)
  | secZero => exact p2 _ (by omega)
  | dayUnder => simp at hs
  | tzNum => simp at hs
  | tzIsoColon => simp at hs
  | unsupported => simp at hs

theorem mem_fmtToks (toks : List Tok) (p : Text) (hp : .lit p ∈ toks) (c : Civil) (off : Int) (x : Char) (hx : x ∈ p) :
    x ∈ fmtToks toks c off := by
  induction toks with
  | nil => simp at hp
  | cons t r ih =>
    cases t with
    | lit q =>
      simp only [fmtToks, List.mem_append]
      rcases List.mem_cons.1 hp with h | h
      · left; cases h; exact hx
      · right; exact ih h
    | std s =>
      simp only [fmtToks, List.mem_append]
      rcases List.mem_cons.1 hp with h | h
      · cases h
      · right; exact ih h

theorem parseInt64_none (ch : Char) (r : Text) (h1 : ch ≠ '-') (h2 : ch ≠ '+') (hc : ':' ∈ ch :: r) :
    parseInt64 (ch :: r) = none := by
  have hall : (ch :: r).all isDigit = false := by
    rw [List.all_eq_false]
    exact ⟨':', hc, by decide⟩
  have hb1 : (ch == '+') = false := by simpa using h2
  have hb2 : (ch == '-') = false := by simpa using h1
  simp only [parseInt64, hb1, hb2, Bool.false_eq_true, if_false, parseDigits, hall]
  simp

/-- every supported layout (the list regenerated from the source) passes the structural checks -/
theorem layouts_checked :
    layouts.all (fun l => good l && complete l && !hasUnsupported l && firstTokOK l && hasColonLit l) = true := by
  decide +kernel


theorem layout_facts (i : Nat) (hi : i < layouts.length) :
    good layouts[i] = true ∧ complete layouts[i] = true ∧ hasUnsupported layouts[i] = false ∧
    firstTokOK layouts[i] = true ∧ hasColonLit layouts[i] = true := by
  have h := List.all_eq_true.1 layouts_checked layouts[i] (List.getElem_mem hi)
  simp only [Bool.and_eq_true, Bool.not_eq_true'] at h
  exact ⟨h.1.1.1.1, h.1.1.1.2, h.1.1.2, h.1.2, h.2⟩

/-- the text of a supported layout goes to the layout loop: it is not empty, does not start with
    `-` (relative branch) and is not an integer (epoch-seconds branch) -/
theorem formatted_reaches_loop (toks : List Tok) (hf : firstTokOK toks = true) (hcl : hasColonLit toks = true)
    (c : Civil) (hc : CivilOK c) (off : Int) (ls : List (List Tok)) (z : Zone) :
    parseTimeArgumentWith ls z (fmtToks toks c off) =
      (match tryLayouts ls z (fmtToks toks c off) with
       | .ok t => .ok (.abs t)
       | .err => .err
       | .panic => .panic
       | .miss => .miss
       | .unsupported => .unsupported) := by
  match toks, hf with
  | .std s :: rest, hf =>
    simp only [firstTokOK] at hf
    obtain ⟨ch, r, hfs, hm, hp⟩ := fmtStd_head_nosign s hf c hc off
    have hcolon : ':' ∈ fmtToks (.std s :: rest) c off :=
      mem_fmtToks _ [':'] (by simpa [hasColonLit] using hcl) c off ':' (by simp)
    simp only [fmtToks, hfs, List.cons_append] at hcolon ⊢
    have hb : (ch == '-') = false := by simpa using hm
    simp only [parseTimeArgumentWith, hb, Bool.false_eq_true, if_false, parseInt64_none ch _ hm hp hcolon]
    cases tryLayouts ls z (ch :: (r ++ fmtToks rest c off)) <;> rfl

/--
**layout_roundtrip** (clause "every absolute time written in one of the supported layouts parses
back to the same instant, at the layout's precision, unless the text is also valid under another
supported layout"). For EVERY layout of the list regenerated from the source (index `i` into
`timeFormatsDefault ++ timeFormatsCustom`, tokenised by the model of `nextStdChunk`), every Unix
second `t` and zone offset `off` such that the written wall-clock year is 1969..2068 (this contains
all instants of 1970–2068 at offsets that do not push the local year to 2069), `off` a whole number
of minutes with |off| < 24 h, and a local zone that is the fixed offset `loc` (= `off` when the
layout carries no zone element): `ParseTimeArgument` accepts the text Go's `Format` writes and
returns either `t` at the layout's precision (`truncTo`: seconds kept iff the layout has `05`), or
the answer of an EARLIER layout of the list that also accepts the text (the first accepting layout
wins, as the loop is written).
Assumed, not proved: that `fmtToks`/`parseToks`/`tokenize` are what Go's time package does
(validated by the harness), and that the local zone is a fixed offset (DST zones: harness only).
-/
theorem layout_roundtrip (i : Nat) (hi : i < layouts.length) (t off loc : Int) (ho : OffOK off)
    (hw : InWindow (t + off)) (hz : hasZone layouts[i] = true ∨ off = loc) :
    ∃ u, parseTimeArgument (fixedZone loc) (formatAt layouts[i] t off) = .ok (.abs u) ∧
      (u = truncTo layouts[i] t off ∨
       ∃ j, ∃ hj : j < layouts.length, j < i ∧
         parseInLocation layouts[j] (fixedZone loc) (formatAt layouts[i] t off) = .ok u) := by
  obtain ⟨hg, hcpl, hu, hf, hcl⟩ := layout_facts i hi
  have hc := (civilOf_fields (t + off) hw).1
  have hown := parseInLocation_format layouts[i] hg hcpl hu t off loc ho hw hz
  obtain ⟨u, hu1, hu2⟩ := tryLayouts_first layouts (fixedZone loc) (formatAt layouts[i] t off) i hi _ hown
    (fun j hj _ => parseInLocation_fixed_total layouts[j] (layout_facts j hj).2.2.1 loc _)
  refine ⟨u, ?_, hu2⟩
  simp only [parseTimeArgument, formatAt] at hu1 ⊢
  rw [formatted_reaches_loop layouts[i] hf hcl _ hc off, hu1]

/-! ## relative times -/

theorem two63 : (2 : Int) ^ 63 = 9223372036854775808 ∧ (2 : Int) ^ 64 = 18446744073709551616 ∧
    (2 : Nat) ^ 63 = 9223372036854775808 ∧ (2 : Nat) ^ 64 = 18446744073709551616 := by decide

theorem wrap64_id (x : Int) (h0 : -9223372036854775808 ≤ x) (h1 : x < 9223372036854775808) : wrap64 x = x := by
  simp only [wrap64, two63.1, two63.2.1]; omega

/-- value of a digit string read after the accumulator `x` -/
def decAcc (x : Nat) (ds : Text) : Nat := ds.foldl (fun a c => a * 10 + digitVal c) x

theorem decVal_eq (ds : Text) : decVal ds = decAcc 0 ds := rfl

theorem decAcc_ge (x : Nat) (ds : Text) : x ≤ decAcc x ds := by
  induction ds generalizing x with
  | nil => simp [decAcc]
  | cons c r ih =>
    simp only [decAcc, List.foldl_cons]
    have := ih (x * 10 + digitVal c)
    simp only [decAcc] at this
    omega

theorem isDigit_not_sign (c : Char) (h : isDigit c = true) : (c == '+') = false ∧ (c == '-') = false ∧ (c == '.') = false := by
  refine ⟨?_, ?_, ?_⟩ <;> (apply Bool.eq_false_iff.2; intro hc; simp only [beq_iff_eq] at hc; subst hc; revert h; decide)

/-- `leadingInt` reads a digit string that is followed by a non-digit (or the end) -/
theorem leadingInt_digits (ds rest : Text) (x : Nat) (hd : ds.all isDigit = true)
    (hr : headP (fun ch => !isDigit ch) rest = true) (hb : decAcc x ds ≤ 9223372036854775808) :
    leadingInt (ds ++ rest) x = some (decAcc x ds, rest) := by
  induction ds generalizing x with
  | nil =>
    simp only [List.nil_append, decAcc, List.foldl_nil]
    cases rest with
    | nil => simp [leadingInt]
    | cons c r =>
      simp only [headP, Bool.not_eq_true'] at hr
      simp [leadingInt, hr]
  | cons c r ih =>
    simp only [List.all_cons, Bool.and_eq_true] at hd
    have hge := decAcc_ge (x * 10 + digitVal c) r
    have hb' : decAcc (x * 10 + digitVal c) r ≤ 9223372036854775808 := by simpa [decAcc] using hb
    simp only [List.cons_append, leadingInt, hd.1, if_true, two63.2.2.1]
    have h1 : ¬ (x > 9223372036854775808 / 10) := by omega
    have h2 : ¬ (x * 10 + digitVal c > 9223372036854775808) := by omega
    simp only [h1, h2, if_false]
    rw [ih _ hd.2 hb']
    simp [decAcc]

theorem parseInt64_digits (ds : Text) (hne : ds ≠ []) (hd : ds.all isDigit = true) (hb : decVal ds < 9223372036854775808) :
    parseInt64 ds = some (decVal ds : Int) := by
  cases ds with
  | nil => exact absurd rfl hne
  | cons c r =>
    have hc : isDigit c = true := by simp only [List.all_cons, Bool.and_eq_true] at hd; exact hd.1
    obtain ⟨s1, s2, _⟩ := isDigit_not_sign c hc
    have hn : ¬ (decVal (c :: r) ≥ 9223372036854775808) := by omega
    simp [parseInt64, s1, s2, parseDigits, hd, two63.2.2.1, hn]


theorem takeWhile_unit (u : Char) (hu : unitChar u = true) (rest : Text)
    (hr : headP (fun ch => isDigit ch) rest = true) :
    (u :: rest).takeWhile unitChar = [u] ∧ (u :: rest).dropWhile unitChar = rest := by
  cases rest with
  | nil => simp [List.takeWhile, List.dropWhile, hu]
  | cons c r =>
    simp only [headP] at hr
    have : unitChar c = false := by simp [unitChar, hr]
    simp [List.takeWhile, List.dropWhile, hu, this]

/-- one `<digits><unit>` group of a duration, for the units `h` and `m` -/
theorem durStep_chunk (ds rest : Text) (u : Char) (unit : Nat) (d : Nat)
    (hu : (u = 'h' ∧ unit = 3600000000000) ∨ (u = 'm' ∧ unit = 60000000000))
    (hne : ds ≠ []) (hd : ds.all isDigit = true)
    (hr : headP (fun ch => isDigit ch) rest = true)
    (hb : d + decVal ds * unit < 9223372036854775808) :
    durStep (ds ++ u :: rest) d = some (rest, d + decVal ds * unit) := by
  have hunit : unitChar u = true ∧ isDigit u = false ∧ (u == '.') = false ∧ unitOf [u] = some unit := by
    rcases hu with ⟨rfl, rfl⟩ | ⟨rfl, rfl⟩ <;> decide
  obtain ⟨hu1, hu2, hu3, hu4⟩ := hunit
  have hupos : 60000000000 ≤ unit := by rcases hu with ⟨_, rfl⟩ | ⟨_, rfl⟩ <;> omega
  have hv : ¬ (decVal ds > 9223372036854775808 / unit) := by
    have : decVal ds ≤ 9223372036854775808 / unit := by
      rw [Nat.le_div_iff_mul_le (by omega)]; omega
    omega
  have hv2 : decVal ds ≤ 9223372036854775808 := by
    have : decVal ds * 1 ≤ decVal ds * unit := Nat.mul_le_mul_left _ (by omega)
    omega
  have hli := leadingInt_digits ds (u :: rest) 0 hd (by simp [headP, hu2]) (by rw [← decVal_eq]; exact hv2)
  rw [← decVal_eq] at hli
  obtain ⟨tw, dw⟩ := takeWhile_unit u hu1 rest hr
  cases ds with
  | nil => exact absurd rfl hne
  | cons c0 r0 =>
    have hc0 : isDigit c0 = true := by simp only [List.all_cons, Bool.and_eq_true] at hd; exact hd.1
    have hlen : ((u :: rest).length != (c0 :: (r0 ++ u :: rest)).length) = true := by
      simp only [List.length_cons, List.length_append, bne_iff_ne, ne_eq]; omega
    have hfp : fracPart (u :: rest) = (0, 1.0, u :: rest, false) := by simp [fracPart, hu3]
    have hmod : (d + decVal (c0 :: r0) * unit) % 18446744073709551616 = d + decVal (c0 :: r0) * unit := Nat.mod_eq_of_lt (by omega)
    have hle : ¬ (d + decVal (c0 :: r0) * unit > 9223372036854775808) := by omega
    simp only [List.cons_append] at hli ⊢
    simp only [durStep, hc0, Bool.or_true, Bool.not_true, Bool.false_eq_true, if_false, hli, hlen, hfp, tw, dw,
      Bool.not_false, Bool.false_and, List.isEmpty_cons, hu4, two63.2.2.1, two63.2.2.2, hv, Nat.lt_irrefl,
      gt_iff_lt, decide_false, hmod, hle]

theorem durLoop_nil (fuel : Nat) (d : Nat) : durLoop (fuel + 1) [] d = some d := by simp [durLoop]

theorem durLoop_step (fuel : Nat) (s s' : Text) (d d' : Nat) (hne : s ≠ []) (h : durStep s d = some (s', d')) :
    durLoop (fuel + 1) s d = durLoop fuel s' d' := by
  have : s.isEmpty = false := by cases s <;> simp_all
  simp [durLoop, this, h]


/-- a digit string, possibly absent -/
structure Num where
  ds : Text
  ne : ds ≠ []
  dig : ds.all isDigit = true

def part (x : Option Num) (u : Char) : Text :=
  match x with
  | some n => n.ds ++ [u]
  | none => []

def partVal (x : Option Num) : Nat :=
  match x with
  | some n => decVal n.ds
  | none => 0

theorem durSeconds_whole (n : Nat) : durSeconds ((n * 1000000000 : Nat) : Int) = (n : Int) := by
  have h0 : (0 : Int) ≤ ((n * 1000000000 : Nat) : Int) := by omega
  simp only [durSeconds, Int.tmod_eq_emod_of_nonneg h0, Int.tdiv_eq_ediv_of_nonneg h0]
  have : ((n * 1000000000 : Nat) : Int) % 1000000000 = 0 := by omega
  simp only [this, beq_self_eq_true, if_true]
  omega

theorem num_head (n : Num) (r : Text) : ∃ c0 r0, n.ds ++ r = c0 :: r0 ∧ isDigit c0 = true ∧ r0.length + 1 = n.ds.length + r.length := by
  match hn : n.ds, n.ne, n.dig with
  | c0 :: r0, _, hd =>
    simp only [List.all_cons, Bool.and_eq_true] at hd
    exact ⟨c0, r0 ++ r, by simp, hd.1, by simp; omega⟩

/-- a text that starts with a digit and is longer than one character: no sign, not "0" -/
theorem parseDuration_start (s : Text) (c0 : Char) (r0 : Text) (hs : s = c0 :: r0) (hc : isDigit c0 = true) (hr : r0 ≠ [])
    (d : Nat) (hd : durLoop (s.length + 1) s 0 = some d) (hlt : d < 9223372036854775808) :
    parseDuration s = some (d : Int) := by
  subst hs
  obtain ⟨s1, s2, _⟩ := isDigit_not_sign c0 hc
  have h1 : (c0 :: r0 == ['0']) = false := by
    cases r0 with
    | nil => exact absurd rfl hr
    | cons a b => simp
  have : ¬ (d > 2 ^ 63 - 1) := by rw [two63.2.2.1]; omega
  simp only [parseDuration, s1, s2, Bool.false_eq_true, if_false, parseDurationBody, h1, List.isEmpty_cons, hd, this]

theorem durLoop_one (fuel : Nat) (n : Num) (u : Char) (unit d : Nat)
    (hu : (u = 'h' ∧ unit = 3600000000000) ∨ (u = 'm' ∧ unit = 60000000000))
    (hb : d + decVal n.ds * unit < 9223372036854775808) :
    durLoop (fuel + 2) (n.ds ++ [u]) d = some (d + decVal n.ds * unit) := by
  have step := durStep_chunk n.ds [] u unit d hu n.ne n.dig (by simp [headP]) hb
  have hne : n.ds ++ [u] ≠ [] := by simp
  rw [durLoop_step (fuel + 1) _ _ _ _ hne step, durLoop_nil]

theorem durLoop_two (fuel : Nat) (y z : Num) (d : Nat)
    (hb : d + decVal y.ds * 3600000000000 + decVal z.ds * 60000000000 < 9223372036854775808) :
    durLoop (fuel + 3) (y.ds ++ 'h' :: (z.ds ++ ['m'])) d =
      some (d + decVal y.ds * 3600000000000 + decVal z.ds * 60000000000) := by
  obtain ⟨c1, r1, hs1, hc1, _⟩ := num_head z ['m']
  have step := durStep_chunk y.ds (z.ds ++ ['m']) 'h' 3600000000000 d (Or.inl ⟨rfl, rfl⟩) y.ne y.dig
    (by rw [hs1]; simp [headP, hc1]) (by omega)
  have hne : y.ds ++ 'h' :: (z.ds ++ ['m']) ≠ [] := by simp
  rw [durLoop_step (fuel + 2) _ _ _ _ hne step]
  exact durLoop_one fuel z 'm' 60000000000 _ (Or.inr ⟨rfl, rfl⟩) hb

/-- `ParseDuration` on `<Y>h<Z>m` (either group optional, not both absent) -/
theorem parseDuration_hm (Y Z : Option Num) (hne : Y.isSome ∨ Z.isSome)
    (hb : (partVal Y * 3600 + partVal Z * 60) * 1000000000 < 9223372036854775808) :
    parseDuration (part Y 'h' ++ part Z 'm') = some (((partVal Y * 3600 + partVal Z * 60) * 1000000000 : Nat) : Int) := by
  cases Y with
  | none =>
    cases Z with
    | none => simp at hne
    | some z =>
      simp only [part, partVal, List.nil_append] at hb ⊢
      obtain ⟨c0, r0, hs, hc, hl⟩ := num_head z ['m']
      have hzl : 1 ≤ z.ds.length := by have := z.ne; cases hz : z.ds <;> simp_all
      have hr0 : r0 ≠ [] := by intro h; subst h; simp only [List.length_nil, List.length_cons, List.length_append] at hl; omega
      obtain ⟨k, hk⟩ : ∃ k, (z.ds ++ ['m']).length + 1 = k + 2 := ⟨z.ds.length, by simp⟩
      have hd := durLoop_one k z 'm' 60000000000 0 (Or.inr ⟨rfl, rfl⟩) (by omega)
      rw [← hk] at hd
      rw [parseDuration_start _ c0 r0 hs hc hr0 _ hd (by omega)]
      congr 2; omega
  | some y =>
    cases Z with
    | none =>
      simp only [part, partVal, List.append_nil] at hb ⊢
      obtain ⟨c0, r0, hs, hc, hl⟩ := num_head y ['h']
      have hyl : 1 ≤ y.ds.length := by have := y.ne; cases hz : y.ds <;> simp_all
      have hr0 : r0 ≠ [] := by intro h; subst h; simp only [List.length_nil, List.length_cons, List.length_append] at hl; omega
      obtain ⟨k, hk⟩ : ∃ k, (y.ds ++ ['h']).length + 1 = k + 2 := ⟨y.ds.length, by simp⟩
      have hd := durLoop_one k y 'h' 3600000000000 0 (Or.inl ⟨rfl, rfl⟩) (by omega)
      rw [← hk] at hd
      rw [parseDuration_start _ c0 r0 hs hc hr0 _ hd (by omega)]
      congr 2; omega
    | some z =>
      simp only [part, partVal] at hb ⊢
      have e1 : y.ds ++ ['h'] ++ (z.ds ++ ['m']) = y.ds ++ 'h' :: (z.ds ++ ['m']) := by simp
      rw [e1]
      obtain ⟨c0, r0, hs, hc, hl⟩ := num_head y ('h' :: (z.ds ++ ['m']))
      have hr0 : r0 ≠ [] := by intro h; subst h; simp only [List.length_nil, List.length_cons, List.length_append] at hl; omega
      obtain ⟨k, hk⟩ : ∃ k, (y.ds ++ 'h' :: (z.ds ++ ['m'])).length + 1 = k + 3 :=
        ⟨y.ds.length + z.ds.length, by simp; omega⟩
      have hd := durLoop_two k y z 0 (by omega)
      rw [← hk] at hd
      rw [parseDuration_start _ c0 r0 hs hc hr0 _ hd (by omega)]
      congr 2; omega


theorem splitOnChar_nosep (sep : Char) (s : Text) (h : sep ∉ s) : splitOnChar sep s = [s] := by
  induction s with
  | nil => rfl
  | cons c r ih =>
    have hc : (c == sep) = false := by
      apply Bool.eq_false_iff.2; intro hc; simp only [beq_iff_eq] at hc; subst hc; simp at h
    have hr : sep ∉ r := fun hr => h (List.mem_cons_of_mem _ hr)
    simp [splitOnChar, hc, ih hr]

theorem splitOnChar_append (sep : Char) (a r : Text) (h : sep ∉ a) :
    splitOnChar sep (a ++ sep :: r) = a :: splitOnChar sep r := by
  induction a with
  | nil => simp [splitOnChar]
  | cons c q ih =>
    have hc : (c == sep) = false := by
      apply Bool.eq_false_iff.2; intro hc; simp only [beq_iff_eq] at hc; subst hc; simp at h
    have hq : sep ∉ q := fun hq => h (List.mem_cons_of_mem _ hq)
    simp [splitOnChar, hc, ih hq]

theorem num_mem (n : Num) (x : Char) (hx : x ∈ n.ds) : isDigit x = true :=
  (List.all_eq_true.1 n.dig) x hx

theorem part_mem (X : Option Num) (u x : Char) (hx : x ∈ part X u) : isDigit x = true ∨ x = u := by
  cases X with
  | none => simp [part] at hx
  | some n =>
    simp only [part, List.mem_append, List.mem_singleton] at hx
    rcases hx with h | h
    · exact Or.inl (num_mem n x h)
    · exact Or.inr h

theorem part_none (u : Char) : part none u = [] := rfl
theorem part_some (n : Num) (u : Char) : part (some n) u = n.ds ++ [u] := rfl
theorem partVal_none : partVal none = 0 := rfl
theorem partVal_some (n : Num) : partVal (some n) = decVal n.ds := rfl

/-- total seconds of the parts -/
def total (X Y Z : Option Num) : Nat := partVal X * 86400 + partVal Y * 3600 + partVal Z * 60

set_option maxRecDepth 4000 in
theorem relative_compact (X Y Z : Option Num) (hne : X.isSome ∨ Y.isSome ∨ Z.isSome)
    (hb : total X Y Z * 1000000000 < 9223372036854775808) :
    parseRelative ('-' :: (part X 'd' ++ (part Y 'h' ++ part Z 'm'))) = some (total X Y Z : Int) := by
  simp only [total] at hb ⊢
  have hle : partVal Y * 3600 + partVal Z * 60 ≤ partVal X * 86400 + partVal Y * 3600 + partVal Z * 60 := by omega
  have hb2 : (partVal Y * 3600 + partVal Z * 60) * 1000000000 < 9223372036854775808 :=
    Nat.lt_of_le_of_lt (Nat.mul_le_mul_right 1000000000 hle) hb
  have hb3 : partVal X < 9223372036854775808 := by omega
  have hb4 : (86400 * (partVal X : Int)) < 9223372036854775808 := by omega
  have hb5 : (86400 * (partVal X : Int)) + ((partVal Y * 3600 + partVal Z * 60 : Nat) : Int) < 9223372036854775808 := by omega
  have hb6 : (86400 * (partVal X : Int)) + ((partVal Y * 3600 + partVal Z * 60 : Nat) : Int) =
      ((partVal X * 86400 + partVal Y * 3600 + partVal Z * 60 : Nat) : Int) := by omega
  have hmem : ∀ x, x ∈ part Y 'h' ++ part Z 'm' → isDigit x = true ∨ x = 'h' ∨ x = 'm' := by
    intro x hx
    rcases List.mem_append.1 hx with h | h
    · rcases part_mem Y 'h' x h with h | h <;> simp [h]
    · rcases part_mem Z 'm' x h with h | h <;> simp [h]
  have nd : 'd' ∉ part Y 'h' ++ part Z 'm' := by
    intro h; rcases hmem _ h with h | h | h <;> revert h <;> decide
  have nc : ':' ∉ part Y 'h' ++ part Z 'm' := by
    intro h; rcases hmem _ h with h | h | h <;> revert h <;> decide
  cases X with
  | none =>
    have hyz : Y.isSome ∨ Z.isSome := by simpa using hne
    have hcont1 : (part Y 'h' ++ part Z 'm').contains ':' = false := by simpa using nc
    have hcont2 : (part Y 'h' ++ part Z 'm').contains 'd' = false := by simpa using nd
    simp only [part_none, partVal_none, List.nil_append, Nat.zero_mul, Nat.zero_add] at hb ⊢
    simp only [parseRelative, hcont1, hcont2, Bool.not_false, if_true, Bool.false_eq_true, if_false]
    rw [parseDuration_hm Y Z hyz hb2]
    simp only [Option.map_some, durSeconds_whole]
  | some x =>
    have ncx : ':' ∉ x.ds := by intro h; have := num_mem x _ h; revert this; decide
    have ndx : 'd' ∉ x.ds := by intro h; have := num_mem x _ h; revert this; decide
    have hcont1 : (x.ds ++ ['d'] ++ (part Y 'h' ++ part Z 'm')).contains ':' = false := by
      simp only [List.contains_eq_mem, List.mem_append, List.mem_singleton, decide_eq_false_iff_not]
      intro h; rcases h with (h | h) | h
      · exact ncx h
      · revert h; decide
      · exact nc (by simpa using h)
    have hcont2 : (x.ds ++ ['d'] ++ (part Y 'h' ++ part Z 'm')).contains 'd' = true := by
      simp
    have hsplit : splitOnChar 'd' (x.ds ++ ['d'] ++ (part Y 'h' ++ part Z 'm')) = [x.ds, part Y 'h' ++ part Z 'm'] := by
      have : x.ds ++ ['d'] ++ (part Y 'h' ++ part Z 'm') = x.ds ++ 'd' :: (part Y 'h' ++ part Z 'm') := by simp
      rw [this, splitOnChar_append 'd' _ _ ndx, splitOnChar_nosep 'd' _ nd]
    have hxe : x.ds.isEmpty = false := by have := x.ne; cases hz : x.ds <;> simp_all
    simp only [part_some, partVal_some] at hb hb3 hb4 hb5 hb6 ⊢
    have hpi := parseInt64_digits x.ds x.ne x.dig hb3
    simp only [parseRelative, hcont1, hcont2, Bool.not_false, if_true, hsplit, hxe, Bool.false_eq_true, if_false, hpi,
      List.flatten_cons, List.flatten_nil, List.append_nil]
    have hw : wrap64 (86400 * (decVal x.ds : Int)) = 86400 * (decVal x.ds : Int) := wrap64_id _ (by omega) hb4
    rw [hw]
    by_cases hyz : Y.isSome ∨ Z.isSome
    · have hne' : (part Y 'h' ++ part Z 'm').isEmpty = false := by
        rcases hyz with h | h
        · cases Y with
          | none => simp at h
          | some y => simp [part]
        · cases Z with
          | none => simp at h
          | some z => simp [part]
      simp only [hne', Bool.false_eq_true, if_false]
      rw [parseDuration_hm Y Z hyz hb2]
      simp only [Option.map_some, durSeconds_whole]
      rw [wrap64_id _ (by omega) hb5, hb6]
    · have hY : Y = none := by cases Y <;> simp_all
      have hZ : Z = none := by cases Z <;> simp_all
      subst hY hZ
      simp only [part_none, partVal_none, List.append_nil, List.isEmpty_nil, if_true] at hb6 ⊢
      rw [← hb6]; simp


/-! ### the colon spelling -/

structure Chunk where
  n : Num
  u : Char
  hu : u = 'd' ∨ u = 'h' ∨ u = 'm'

def Chunk.text (c : Chunk) : Text := c.n.ds ++ [c.u]

def unitSecs (u : Char) : Nat := if u = 'd' then 86400 else if u = 'h' then 3600 else 60

def Chunk.secs (c : Chunk) : Nat := decVal c.n.ds * unitSecs c.u

def chunksTotal : List Chunk → Nat
  | [] => 0
  | c :: r => c.secs + chunksTotal r

def joinColon : List Text → Text
  | [] => []
  | [a] => a
  | a :: b :: r => a ++ ':' :: joinColon (b :: r)

theorem chunk_nocolon (c : Chunk) : ':' ∉ c.text := by
  intro h
  simp only [Chunk.text, List.mem_append, List.mem_singleton] at h
  rcases h with h | h
  · have := num_mem c.n _ h; revert this; decide
  · rcases c.hu with hu | hu | hu <;> rw [hu] at h <;> revert h <;> decide

theorem split_join (cs : List Text) (hne : cs ≠ []) (hc : ∀ c ∈ cs, ':' ∉ c) : splitOnChar ':' (joinColon cs) = cs := by
  induction cs with
  | nil => exact absurd rfl hne
  | cons a r ih =>
    cases r with
    | nil => simp only [joinColon]; exact splitOnChar_nosep ':' a (hc a (by simp))
    | cons b r' =>
      simp only [joinColon]
      rw [splitOnChar_append ':' a _ (hc a (by simp)), ih (by simp) (fun c hcm => hc c (List.mem_cons_of_mem _ hcm))]

theorem join_contains (cs : List Text) (h2 : 2 ≤ cs.length) : (joinColon cs).contains ':' = true := by
  match cs, h2 with
  | a :: b :: r, _ => simp [joinColon]

theorem relChunks_chunks (cs : List Chunk) (sb : Int) (h0 : 0 ≤ sb) (hb : sb + (chunksTotal cs : Int) < 9223372036854775808) :
    relChunks (cs.map Chunk.text) sb = some (sb + (chunksTotal cs : Int)) := by
  induction cs generalizing sb with
  | nil => simp [relChunks, chunksTotal]
  | cons c r ih =>
    simp only [chunksTotal] at hb ⊢
    have hk : (if c.u == 'd' then some (86400 : Int) else if c.u == 'h' then some 3600
        else if c.u == 'm' then some 60 else if c.u == 's' then some 1 else none) = some (unitSecs c.u : Int) := by
      rcases c.hu with hu | hu | hu <;> rw [hu] <;> decide
    have hus : 60 ≤ unitSecs c.u ∧ unitSecs c.u ≤ 86400 := by
      rcases c.hu with hu | hu | hu <;> rw [hu] <;> decide
    have hsecs : decVal c.n.ds ≤ c.secs := by
      simp only [Chunk.secs]
      calc decVal c.n.ds = decVal c.n.ds * 1 := by omega
        _ ≤ decVal c.n.ds * unitSecs c.u := Nat.mul_le_mul_left _ (by omega)
    have hpi := parseInt64_digits c.n.ds c.n.ne c.n.dig (by omega)
    have hprod : (unitSecs c.u : Int) * (decVal c.n.ds : Int) = (c.secs : Int) := by
      simp only [Chunk.secs]; rw [Int.mul_comm]; exact (Int.natCast_mul _ _).symm
    simp only [List.map_cons, relChunks, Chunk.text, List.getLast?_append, List.getLast?_singleton, Option.some_or,
      List.dropLast_concat, hk, hpi, hprod]
    rw [wrap64_id (c.secs : Int) (by omega) (by omega), wrap64_id _ (by omega) (by omega)]
    rw [ih _ (by omega) (by omega)]
    congr 1; omega

theorem relative_colon (cs : List Chunk) (h2 : 2 ≤ cs.length) (hb : chunksTotal cs < 9223372036854775808) :
    parseRelative ('-' :: joinColon (cs.map Chunk.text)) = some (chunksTotal cs : Int) := by
  have hlen : 2 ≤ (cs.map Chunk.text).length := by simpa using h2
  have hne : cs.map Chunk.text ≠ [] := by intro h; rw [h] at hlen; simp at hlen
  have hnc : ∀ c ∈ cs.map Chunk.text, ':' ∉ c := by
    intro c hc
    obtain ⟨ch, _, rfl⟩ := List.mem_map.1 hc
    exact chunk_nocolon ch
  simp only [parseRelative, join_contains _ hlen, Bool.not_true, Bool.false_eq_true, if_false, split_join _ hne hnc]
  rw [relChunks_chunks cs 0 (by omega) (by omega)]
  simp


/-! ### the property theorems for relative times and ranges -/

/-- `-XdYhZm` (every part optional) -/
def compactText (X Y Z : Option Num) : Text := '-' :: (part X 'd' ++ (part Y 'h' ++ part Z 'm'))

def chunksOf (X Y Z : Option Num) : List Chunk :=
  (match X with | some n => [⟨n, 'd', Or.inl rfl⟩] | none => []) ++
  (match Y with | some n => [⟨n, 'h', Or.inr (Or.inl rfl)⟩] | none => []) ++
  (match Z with | some n => [⟨n, 'm', Or.inr (Or.inr rfl)⟩] | none => [])

/-- `-Xd:Yh:Zm` (the parts present, joined by `:`) -/
def colonText (X Y Z : Option Num) : Text := '-' :: joinColon ((chunksOf X Y Z).map Chunk.text)

theorem chunksOf_total (X Y Z : Option Num) : chunksTotal (chunksOf X Y Z) = total X Y Z := by
  cases X <;> cases Y <;> cases Z <;>
    simp [chunksOf, chunksTotal, total, partVal, Chunk.secs, unitSecs] <;> omega

theorem relResult_exact (now sb : Int) (h0 : -9223372036854775808 ≤ now - sb) (h1 : now - sb < 9223372036854775808) :
    relResult now sb = now - sb := wrap64_id _ h0 h1

/--
**relative_spec** (clause "a relative time '-XdYhZm' denotes now minus that duration"). For ALL
digit strings X, Y, Z (any length, leading zeros allowed, each part optional, at least one present)
whose duration X·86400 + Y·3600 + Z·60 seconds fits Go's `time.Duration` (< 2^63 ns ≈ 292 years):
`ParseTimeArgument` returns, for the compact spelling `-XdYhZm` and (when at least two parts are
present) for the colon spelling `-Xd:Yh:Zm`, the clock reading minus exactly that many seconds.
The clock `now` is a parameter; the local zone `z` is irrelevant.
-/
theorem relative_spec (X Y Z : Option Num) (hne : X.isSome ∨ Y.isSome ∨ Z.isSome)
    (hb : total X Y Z * 1000000000 < 9223372036854775808) (z : Zone) (now : Int)
    (hnow : -4611686018427387904 ≤ now ∧ now ≤ 4611686018427387904) :
    parseTimeArgument z (compactText X Y Z) = .ok (.rel (total X Y Z)) ∧
    (2 ≤ (chunksOf X Y Z).length → parseTimeArgument z (colonText X Y Z) = .ok (.rel (total X Y Z))) ∧
    (Val.rel (total X Y Z)).go now = now - (total X Y Z : Int) := by
  have hbt : total X Y Z < 9223372036854775808 := by
    have : total X Y Z * 1 ≤ total X Y Z * 1000000000 := Nat.mul_le_mul_left _ (by omega)
    omega
  refine ⟨?_, fun h2 => ?_, ?_⟩
  · simp only [parseTimeArgument, parseTimeArgumentWith, compactText, beq_self_eq_true, if_true]
    rw [relative_compact X Y Z hne hb]
  · simp only [parseTimeArgument, parseTimeArgumentWith, colonText, beq_self_eq_true, if_true]
    rw [relative_colon _ h2 (by rw [chunksOf_total]; exact hbt), chunksOf_total]
  · simp only [Val.go]
    exact relResult_exact _ _ (by omega) (by omega)

/-- the colon branch is more liberal than the property's syntax: ANY sequence of at least two
    `<digits>d|h|m` chunks, in any order and multiplicity, denotes now − (sum of the chunks) -/
theorem relative_colon_any (cs : List Chunk) (h2 : 2 ≤ cs.length) (hb : chunksTotal cs < 9223372036854775808) (z : Zone) :
    parseTimeArgument z ('-' :: joinColon (cs.map Chunk.text)) = .ok (.rel (chunksTotal cs)) := by
  simp only [parseTimeArgument, parseTimeArgumentWith, beq_self_eq_true, if_true]
  rw [relative_colon cs h2 hb]

/-- what `ParseTimeRange` does with its two arguments before comparing: empty lower bound = 0,
    empty upper bound = the clock -/
def boundFirst (z : Zone) (a : Text) : Res Val := if a.isEmpty then .ok (.abs 0) else parseTimeArgument z a
def boundLast (z : Zone) (b : Text) : Res Val := if b.isEmpty then .ok (.rel 0) else parseTimeArgument z b

/--
**range_rejects** (clause "a range whose start lies after its end is rejected"). For ALL pairs of
texts whose bounds parse (to `f` and `l`), for every clock reading and zone: `ParseTimeRange`
returns the interval error exactly when start > end, and otherwise returns the two bounds
unchanged. The comparison is the one written in the code (`first > last` on the int64 values).
-/
theorem range_rejects (z : Zone) (now : Int) (a b : Text) (f l : Val)
    (hf : boundFirst z a = .ok f) (hl : boundLast z b = .ok l) :
    parseTimeRange z now a b = (if f.go now > l.go now then .errInterval else .ok f l) := by
  simp only [boundFirst, boundLast] at hf hl
  simp only [parseTimeRange, hf, hl]

/-- the same clause for `ParseTimeRangeCollectErrors` (the variant the query arguments go through):
    when both bounds parse, the only possible error detail is the interval one, and it is reported
    exactly when start > end -/
theorem range_collect_rejects (z : Zone) (now : Int) (a b : Text) (f l : Val)
    (hf : boundFirst z a = .ok f) (hl : boundLast z b = .ok l) :
    parseTimeRangeCollect z now a b = .res f l (if f.go now > l.go now then ["interval"] else []) := by
  simp only [boundFirst, boundLast] at hf hl
  simp only [parseTimeRangeCollect, hf, hl]
  simp

/-- ... and the int64 comparison is the comparison of the denoted instants (`Val.at`, the spec's
    reading) whenever no relative bound wraps around -/
theorem range_rejects_spec (z : Zone) (now : Int) (a b : Text) (f l : Val)
    (hf : boundFirst z a = .ok f) (hl : boundLast z b = .ok l)
    (hfw : f.go now = f.at now) (hlw : l.go now = l.at now) :
    (parseTimeRange z now a b = .errInterval ↔ specRangeRejects now f l = true) ∧
    (specRangeRejects now f l = false → parseTimeRange z now a b = .ok f l) := by
  rw [range_rejects z now a b f l hf hl, hfw, hlw]
  simp only [specRangeRejects, decide_eq_true_eq, decide_eq_false_iff_not]
  constructor
  · constructor
    · intro h; by_cases hc : f.at now > l.at now
      · exact hc
      · simp [hc] at h
    · intro h; simp [h]
  · intro h; simp [h]

theorem go_eq_at (now : Int) (v : Val) (h : match v with
      | .abs _ => True
      | .rel d => -9223372036854775808 ≤ now - d ∧ now - d < 9223372036854775808) : v.go now = v.at now := by
  cases v with
  | abs i => rfl
  | rel d => exact relResult_exact now d h.1 h.2


/-! ### the spec's reading of the same texts (model = spec on the relative syntax) -/

theorem takeWhile_digits (n : Num) (u : Char) (hu : isDigit u = false) (rest : Text) :
    (n.ds ++ u :: rest).takeWhile isDigit = n.ds ∧ (n.ds ++ u :: rest).dropWhile isDigit = u :: rest := by
  have hd := n.dig
  generalize n.ds = ds at hd
  induction ds with
  | nil => simp [List.takeWhile, List.dropWhile, hu]
  | cons c r ih =>
    simp only [List.all_cons, Bool.and_eq_true] at hd
    simp [List.takeWhile, List.dropWhile, hd.1, ih hd.2]

theorem takePart_hit (n : Num) (u : Char) (hu : isDigit u = false) (rest : Text) :
    takePart u (n.ds ++ u :: rest) = some (decVal n.ds, rest) := by
  obtain ⟨h1, h2⟩ := takeWhile_digits n u hu rest
  have hne : n.ds.isEmpty = false := by have := n.ne; cases hz : n.ds <;> simp_all
  simp [takePart, h1, h2, hne]

theorem takePart_miss (n : Num) (u u' : Char) (hu : isDigit u' = false) (hne : u' ≠ u) (rest : Text) :
    takePart u (n.ds ++ u' :: rest) = none := by
  obtain ⟨h1, h2⟩ := takeWhile_digits n u' hu rest
  have : (u' == u) = false := by simpa using hne
  simp [takePart, h2, this]

theorem takePart_nil (u : Char) : takePart u [] = none := by simp [takePart]

/-- the executable spec reads the compact spelling as the same number of seconds -/
theorem spec_compact (X Y Z : Option Num) (hne : X.isSome ∨ Y.isSome ∨ Z.isSome) :
    specRelative (compactText X Y Z) = some (total X Y Z) := by
  have hmem : ∀ x, x ∈ part X 'd' ++ (part Y 'h' ++ part Z 'm') → isDigit x = true ∨ x = 'd' ∨ x = 'h' ∨ x = 'm' := by
    intro x hx
    rcases List.mem_append.1 hx with h | h
    · rcases part_mem X 'd' x h with h | h <;> simp [h]
    · rcases List.mem_append.1 h with h | h
      · rcases part_mem Y 'h' x h with h | h <;> simp [h]
      · rcases part_mem Z 'm' x h with h | h <;> simp [h]
  have nc : (part X 'd' ++ (part Y 'h' ++ part Z 'm')).contains ':' = false := by
    simp only [List.contains_eq_mem, decide_eq_false_iff_not]
    intro h; rcases hmem _ h with h | h | h | h <;> revert h <;> decide
  simp only [specRelative, compactText, nc]
  have dD : isDigit 'd' = false := by decide
  have dH : isDigit 'h' = false := by decide
  have dM : isDigit 'm' = false := by decide
  cases X with
  | none =>
    cases Y with
    | none =>
      cases Z with
      | none => simp at hne
      | some z =>
        simp only [part_none, part_some, List.nil_append, specUnits,
          takePart_miss z 'd' 'm' dM (by decide), takePart_miss z 'h' 'm' dM (by decide)]
        have : z.ds ++ ['m'] = z.ds ++ 'm' :: [] := rfl
        simp [this, takePart_hit z 'm' dM, specUnits, total, partVal]
    | some y =>
      cases Z with
      | none =>
        have e : y.ds ++ ['h'] = y.ds ++ 'h' :: [] := rfl
        simp [part_none, part_some, specUnits, e, takePart_miss y 'd' 'h' dH (by decide), takePart_hit y 'h' dH,
          takePart_nil, total, partVal]
      | some z =>
        have e : y.ds ++ ['h'] ++ (z.ds ++ ['m']) = y.ds ++ 'h' :: (z.ds ++ 'm' :: []) := by simp
        simp [part_none, part_some, specUnits, e, takePart_miss y 'd' 'h' dH (by decide), takePart_hit y 'h' dH,
          takePart_hit z 'm' dM, total, partVal]
  | some x =>
    cases Y with
    | none =>
      cases Z with
      | none =>
        have e : x.ds ++ ['d'] = x.ds ++ 'd' :: [] := rfl
        simp [part_none, part_some, specUnits, e, takePart_hit x 'd' dD, takePart_nil, total, partVal]
      | some z =>
        have e : x.ds ++ ['d'] ++ (z.ds ++ ['m']) = x.ds ++ 'd' :: (z.ds ++ 'm' :: []) := by simp
        simp [part_none, part_some, specUnits, e, takePart_hit x 'd' dD, takePart_miss z 'h' 'm' dM (by decide),
          takePart_hit z 'm' dM, total, partVal]
    | some y =>
      cases Z with
      | none =>
        have e : x.ds ++ ['d'] ++ (y.ds ++ ['h']) = x.ds ++ 'd' :: (y.ds ++ 'h' :: []) := by simp
        simp [part_none, part_some, specUnits, e, takePart_hit x 'd' dD, takePart_hit y 'h' dH, takePart_nil, total, partVal]
      | some z =>
        have e : x.ds ++ ['d'] ++ (y.ds ++ ['h'] ++ (z.ds ++ ['m'])) = x.ds ++ 'd' :: (y.ds ++ 'h' :: (z.ds ++ 'm' :: [])) := by simp
        simp [part_none, part_some, specUnits, e, takePart_hit x 'd' dD, takePart_hit y 'h' dH, takePart_hit z 'm' dM,
          total, partVal]


/-- ... and the colon spelling -/
theorem spec_colon (X Y Z : Option Num) (h2 : 2 ≤ (chunksOf X Y Z).length) :
    specRelative (colonText X Y Z) = some (total X Y Z) := by
  have dD : isDigit 'd' = false := by decide
  have dH : isDigit 'h' = false := by decide
  have dM : isDigit 'm' = false := by decide
  have hcont : (joinColon ((chunksOf X Y Z).map Chunk.text)).contains ':' = true :=
    join_contains _ (by simpa using h2)
  simp only [specRelative, colonText, hcont]
  cases X with
  | none =>
    cases Y with
    | none => cases Z <;> simp [chunksOf] at h2
    | some y =>
      cases Z with
      | none => simp [chunksOf] at h2
      | some z =>
        have e : joinColon ((chunksOf none (some y) (some z)).map Chunk.text) = y.ds ++ 'h' :: (':' :: (z.ds ++ 'm' :: [])) := by
          simp [chunksOf, joinColon, Chunk.text]
        have hz : (z.ds ++ ['m']).isEmpty = false := by simp
        simp [e, specUnits, takePart_miss y 'd' 'h' dH (by decide), takePart_hit y 'h' dH, takePart_hit z 'm' dM,
          total, partVal]
  | some x =>
    cases Y with
    | none =>
      cases Z with
      | none => simp [chunksOf] at h2
      | some z =>
        have e : joinColon ((chunksOf (some x) none (some z)).map Chunk.text) = x.ds ++ 'd' :: (':' :: (z.ds ++ 'm' :: [])) := by
          simp [chunksOf, joinColon, Chunk.text]
        simp [e, specUnits, takePart_hit x 'd' dD, takePart_miss z 'h' 'm' dM (by decide), takePart_hit z 'm' dM,
          total, partVal]
    | some y =>
      cases Z with
      | none =>
        have e : joinColon ((chunksOf (some x) (some y) none).map Chunk.text) = x.ds ++ 'd' :: (':' :: (y.ds ++ 'h' :: [])) := by
          simp [chunksOf, joinColon, Chunk.text]
        simp [e, specUnits, takePart_hit x 'd' dD, takePart_hit y 'h' dH, takePart_nil, total, partVal]
      | some z =>
        have e : joinColon ((chunksOf (some x) (some y) (some z)).map Chunk.text) =
            x.ds ++ 'd' :: (':' :: (y.ds ++ 'h' :: (':' :: (z.ds ++ 'm' :: [])))) := by
          simp [chunksOf, joinColon, Chunk.text]
        simp [e, specUnits, takePart_hit x 'd' dD, takePart_hit y 'h' dH, takePart_hit z 'm' dM, total, partVal]

/-! ## non-vacuity and the need for the hypotheses -/

def num (s : String) (h1 : s.toList ≠ [] := by decide) (h2 : s.toList.all isDigit = true := by decide) : Num := ⟨s.toList, h1, h2⟩

/-- `relative_spec` on `-15d04h05m` / `-15d:04h:05m`: 1310700 s back -/
example : parseTimeArgument [] "-15d04h05m".toList = .ok (.rel 1310700) ∧
    parseTimeArgument [] "-15d:04h:05m".toList = .ok (.rel 1310700) := by
  have h := relative_spec (some (num "15")) (some (num "04")) (some (num "05")) (Or.inl rfl) (by decide) [] 0 (by decide)
  exact ⟨h.1, h.2.1 (by decide)⟩

/-- outside the duration bound of `relative_spec` the two spellings part ways: 2562048 hours do not
    fit a `time.Duration`, the compact spelling is rejected, the colon spelling is accepted -/
example : parseRelative "-0d2562048h".toList = none ∧ parseRelative "-0d:2562048h".toList = some 9223372800 := by
  decide +kernel

/-- ... and beyond int64 seconds the multiplication wraps: 106751991167301 days back is a time in the future -/
example : parseRelative "-106751991167301d".toList = some (-9223372036854745216) := by decide +kernel

/-- `layout_roundtrip` on a concrete instant: 2023-11-14 22:13:20 UTC written at +01:00 in RFC 3339
    and RubyDate, read back by the whole loop in a local zone at +01:00; and in `02.01.2006 15:04`
    (minute precision) read back by its own layout -/
example : parseTimeArgument (fixedZone 3600) (formatAt layouts[0]! 1700000000 3600) = .ok (.abs 1700000000) ∧
    parseTimeArgument (fixedZone 3600) (formatAt layouts[2]! 1700000000 3600) = .ok (.abs 1700000000) ∧
    String.ofList (formatAt layouts[22]! 1700000000 3600) = "14.11.2023 23:13" ∧
    parseInLocation layouts[22]! (fixedZone 3600) (formatAt layouts[22]! 1700000000 3600) = .ok 1699999980 := by
  decide +kernel

/-- the "unless an earlier layout also accepts" disjunct is needed: 2003-02-01 04:05:06 written
    as `02-01-06 15:04:05` (layout 20) reads `01-02-03 04:05:06`, which the earlier
    `06-01-02 15:04:05` (layout 12) accepts as 2001-02-03; the loop returns the earlier reading -/
example : String.ofList (formatAt layouts[20]! 1044072306 0) = "01-02-03 04:05:06" ∧
    parseInLocation layouts[20]! (fixedZone 0) (formatAt layouts[20]! 1044072306 0) = .ok 1044072306 ∧
    parseInLocation layouts[12]! (fixedZone 0) (formatAt layouts[20]! 1044072306 0) = .ok 981173106 := by
  decide +kernel

/-- the window hypothesis is needed: 2069-01-01 written with a two-digit year reads as 1969 -/
example : String.ofList (formatAt layouts[26]! 3124224000 0) = "1.1.69 00:00:00" ∧
    parseInLocation layouts[26]! (fixedZone 0) (formatAt layouts[26]! 3124224000 0) = .ok (-31536000) := by
  decide +kernel

/-- the whole-minute hypothesis is needed: at offset +00:00:30 the zone is written as +0000 -/
example : parseInLocation layouts[6]! (fixedZone 30) (formatAt layouts[6]! 1700000000 30) = .ok 1700000030 := by
  decide +kernel

/-- the fixed-offset hypothesis is needed: in a zone that sets its clocks back (Europe/Zurich,
    2021-10-31 01:00 UTC) the wall-clock text of 00:30 UTC (02:30 CEST) is read as 01:30 UTC (02:30 CET) -/
example :
    let zurich : Zone := [(-(2 ^ 63), 1635642000, 7200), (1635642000, 2 ^ 63 - 1, 3600)]
    String.ofList (formatAt layouts[8]! 1635640200 7200) = "2021-10-31 02:30:00" ∧
    parseInLocation layouts[8]! zurich (formatAt layouts[8]! 1635640200 7200) = .ok 1635643800 := by
  decide +kernel

/-- `range_rejects` on concrete bounds: start one second after the end is rejected, equal bounds pass -/
example : parseTimeRange (fixedZone 0) 1800000000 "1700000001".toList "2023-11-14 22:13:20".toList = .errInterval ∧
    parseTimeRange (fixedZone 0) 1800000000 "1700000000".toList "2023-11-14 22:13:20".toList
      = .ok (.abs 1700000000) (.abs 1700000000) ∧
    parseTimeRange (fixedZone 0) 1800000000 "-5d".toList [] = .ok (.rel 432000) (.rel 0) := by
  decide +kernel

/-- the empty string is outside every clause: `timeString[0]` panics (ParseTimeRange guards it) -/
example : parseTimeArgument (fixedZone 0) [] = .panic := rfl

end C28
