def hello := "world"
