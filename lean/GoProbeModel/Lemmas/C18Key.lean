import GoProbeModel.Model.C18

/-!
C18 — helper lemmas, part 6: the key arena on an explicit heap (`KeyStore` in Model/C18.lean).
A run interleaves insertions (the four key-copy statements of `Set` / `SetOrUpdate`) with arbitrary
writes of the caller into memory it owns; `KInv` says that every slice stored in a cell still reads
the bytes the key had when it was inserted.
-/
set_option linter.unusedSectionVars false
set_option linter.unusedSimpArgs false
set_option linter.unusedVariables false

namespace C18.KeyStore

theorem writeAt_length (a : Bytes) (off : Nat) (bs : Bytes) : (writeAt a off bs).length = a.length := by
  unfold writeAt
  simp only [List.length_append, List.length_take, List.length_drop]
  omega

/-- reading back what was just written -/
theorem read_written (a : Bytes) (off : Nat) (bs : Bytes) (h : off + bs.length ≤ a.length) :
    ((writeAt a off bs).drop off).take bs.length = bs := by
  unfold writeAt
  have h1 : (a.take off).length = off := by simp; omega
  have h2 : bs.take (a.length - off) = bs := List.take_of_length_le (by omega)
  rw [h2, List.append_assoc, List.drop_left' h1, List.take_left' rfl]

/-- a region that ends before the written one is not changed -/
theorem read_before (a : Bytes) (off : Nat) (bs : Bytes) (o l : Nat) (h : o + l ≤ off) :
    ((writeAt a off bs).drop o).take l = (a.drop o).take l := by
  unfold writeAt
  rw [List.append_assoc]
  by_cases hoff : off ≤ a.length
  · have h1 : (a.take off).length = off := by simp; omega
    rw [List.drop_append_of_le_length (by omega), List.take_append_of_le_length (by simp; omega)]
    rw [List.drop_take, List.take_take]
    congr 1
    omega
  · have : a.take off = a := List.take_of_length_le (by omega)
    rw [this]
    have h3 : bs.take (a.length - off) = [] := by
      have : a.length - off = 0 := by omega
      rw [this]; rfl
    have h4 : a.drop (off + bs.length) = [] := List.drop_eq_nil_of_le (by omega)
    rw [h3, h4]; simp

theorem getD_set {α : Type} (l : List α) (i j : Nat) (x d : α) :
    (l.set i x).getD j d = if i = j ∧ i < l.length then x else l.getD j d := by
  simp only [List.getD_eq_getElem?_getD, List.getElem?_set]
  by_cases h : i = j
  · subst h
    by_cases hi : i < l.length
    · simp [hi]
    · simp [hi]
  · simp [h]

theorem getD_append_left {α : Type} (l l' : List α) (j : Nat) (d : α) (h : j < l.length) :
    (l ++ l').getD j d = l.getD j d := by
  simp [List.getD_eq_getElem?_getD, List.getElem?_append_left h]

theorem getD_append_new {α : Type} (l : List α) (x d : α) : (l ++ [x]).getD l.length d = x := by
  simp [List.getD_eq_getElem?_getD]

/-- the state of the explicit-heap model: the heap, the map's arena, the heap objects that have
    ever backed `m.keyData` (private to the map), and — as a ghost — every slice stored in a cell
    together with the bytes its key had when it was inserted -/
structure KState where
  heap : Heap
  arena : Arena
  gens : List Nat
  stored : List (Slice × Bytes)

inductive KOp where
  /-- `Set` / `SetOrUpdate` inserts a new key that the caller passes as the slice `key` -/
  | insert (key : Slice)
  /-- the caller writes `bs` at offset `off` of a heap object it owns (e.g. re-uses its key buffer) -/
  | scribble (obj off : Nat) (bs : Bytes)

def kstep (st : KState) : KOp → KState
  | .insert key =>
    let r := insertKey st.heap st.arena key
    { heap := r.1, arena := r.2.1, gens := if r.2.1.obj ∈ st.gens then st.gens else r.2.1.obj :: st.gens,
      stored := (r.2.2, st.heap.read key) :: st.stored }
  | .scribble obj off bs => { st with heap := st.heap.write obj off bs }

/-- what makes an operation legal: the caller's key slice lies inside its object and is not longer
    than the arena; the caller cannot write into the map's private arena objects -/
def KOp.ok (st : KState) : KOp → Prop
  | .insert key => key.off + key.len ≤ (st.heap.objs.getD key.obj []).length ∧
      key.len ≤ (st.heap.objs.getD st.arena.obj []).length
  | .scribble obj _ _ => obj ∉ st.gens

def runOk : KState → List KOp → Prop
  | _, [] => True
  | st, op :: ops => op.ok st ∧ runOk (kstep st op) ops

structure KInv (st : KState) : Prop where
  arenaGen : st.arena.obj ∈ st.gens
  gensValid : ∀ g ∈ st.gens, g < st.heap.objs.length
  posLe : st.arena.pos ≤ (st.heap.objs.getD st.arena.obj []).length
  stored : ∀ p ∈ st.stored, p.1.obj ∈ st.gens ∧ st.heap.read p.1 = p.2 ∧
    (p.1.obj = st.arena.obj → p.1.off + p.1.len ≤ st.arena.pos)

theorem read_write_other (h : Heap) (obj off : Nat) (bs : Bytes) (s : Slice) (hs : s.obj ≠ obj) :
    (h.write obj off bs).read s = h.read s := by
  unfold Heap.read Heap.write
  simp only [getD_set]
  rw [if_neg (fun e => hs e.1.symm)]

theorem KInv.scribble {st : KState} (inv : KInv st) {obj off : Nat} {bs : Bytes} (hok : obj ∉ st.gens) :
    KInv (kstep st (.scribble obj off bs)) := by
  have hne : st.arena.obj ≠ obj := fun e => hok (by rw [← e]; exact inv.arenaGen)
  refine { arenaGen := inv.arenaGen, gensValid := ?_, posLe := ?_, stored := ?_ }
  · intro g hg
    simp only [kstep, Heap.write, List.length_set]
    exact inv.gensValid g hg
  · simp only [kstep, Heap.write, getD_set]
    rw [if_neg (fun e => hne e.1.symm)]
    exact inv.posLe
  · intro p hp
    obtain ⟨p1, p2, p3⟩ := inv.stored p hp
    refine ⟨p1, ?_, p3⟩
    simp only [kstep]
    rw [read_write_other _ _ _ _ _ (fun e => hok (by rw [← e]; exact p1))]
    exact p2

theorem read_length (h : Heap) (s : Slice) (hs : s.off + s.len ≤ (h.objs.getD s.obj []).length) :
    (h.read s).length = s.len := by
  unfold Heap.read
  simp only [List.length_take, List.length_drop]
  omega

/-- the heap after writing `kb` at `pos` of object `obj`: the written slice reads `kb`, slices of
    other objects and slices of `obj` that end at or before `pos` are unchanged -/
theorem write_frame (h : Heap) (obj pos : Nat) (kb : Bytes) (hobj : obj < h.objs.length)
    (hfit : pos + kb.length ≤ (h.objs.getD obj []).length) :
    (h.write obj pos kb).read ⟨obj, pos, kb.length⟩ = kb ∧
    (h.write obj pos kb).objs.length = h.objs.length ∧
    ((h.write obj pos kb).objs.getD obj []).length = (h.objs.getD obj []).length ∧
    ∀ s : Slice, (s.obj ≠ obj ∨ s.off + s.len ≤ pos) → (h.write obj pos kb).read s = h.read s := by
  refine ⟨?_, by simp [Heap.write], ?_, ?_⟩
  · unfold Heap.read Heap.write
    simp only [getD_set, hobj, and_self, if_true]
    exact read_written _ _ _ hfit
  · unfold Heap.write
    simp only [getD_set, hobj, and_self, if_true, writeAt_length]
  · intro s hs
    by_cases e : s.obj = obj
    · have hle : s.off + s.len ≤ pos := by
        rcases hs with h | h
        · exact absurd e h
        · exact h
      unfold Heap.read Heap.write
      simp only [getD_set, e, hobj, and_self, if_true]
      exact read_before _ _ _ _ _ hle
    · exact read_write_other h obj pos kb s e

theorem KInv.insert {st : KState} (inv : KInv st) {key : Slice} (hok : (KOp.insert key).ok st) :
    KInv (kstep st (.insert key)) ∧
      ∃ s, (kstep st (.insert key)).stored = (s, st.heap.read key) :: st.stored := by
  obtain ⟨hk1, hk2⟩ := hok
  have hkb := read_length st.heap key hk1
  have hgen := inv.gensValid _ inv.arenaGen
  refine ⟨?_, _, rfl⟩
  unfold kstep insertKey
  simp only
  by_cases hre : st.arena.pos + key.len > (st.heap.objs.getD st.arena.obj []).length
  · -- append reallocates the arena
    simp only [hre, if_true]
    have hposle := inv.posLe
    have hnew : (st.heap.objs ++ [st.heap.objs.getD st.arena.obj [] ++
        List.replicate (st.heap.objs.getD st.arena.obj []).length 0]).getD st.heap.objs.length []
        = st.heap.objs.getD st.arena.obj [] ++ List.replicate (st.heap.objs.getD st.arena.obj []).length 0 :=
      getD_append_new _ _ _
    obtain ⟨w1, w2, w3, w4⟩ := write_frame
      ⟨st.heap.objs ++ [st.heap.objs.getD st.arena.obj [] ++ List.replicate (st.heap.objs.getD st.arena.obj []).length 0]⟩
      st.heap.objs.length st.arena.pos (st.heap.read key) (by simp) (by
        simp only [hnew, hkb, List.length_append, List.length_replicate]; omega)
    have hfresh : st.heap.objs.length ∉ st.gens := fun hm => by have := inv.gensValid _ hm; omega
    rw [hkb] at w1
    refine { arenaGen := by simp [hfresh], gensValid := ?_, posLe := ?_, stored := ?_ }
    · intro g hg
      simp only [hfresh, if_false, List.mem_cons] at hg
      rw [w2]; simp only [List.length_append, List.length_cons, List.length_nil]
      rcases hg with rfl | hg
      · omega
      · have := inv.gensValid g hg; omega
    · simp only
      rw [w3, hnew]
      simp only [List.length_append, List.length_replicate]; omega
    · intro p hp
      simp only [List.mem_cons] at hp
      rcases hp with rfl | hp
      · simp only [hfresh, if_false, List.mem_cons, true_or, true_and]
        exact ⟨w1, fun _ => Nat.le_refl _⟩
      · obtain ⟨p1, p2, p3⟩ := inv.stored p hp
        have hlt := inv.gensValid _ p1
        have hne : p.1.obj ≠ st.heap.objs.length := by omega
        refine ⟨by simp only [hfresh, if_false, List.mem_cons]; right; exact p1, ?_, fun e => absurd e hne⟩
        rw [w4 p.1 (Or.inl hne)]
        unfold Heap.read
        simp only
        rw [getD_append_left _ _ _ _ hlt]
        exact p2
  · -- the key fits into the current arena object
    simp only [hre, if_false]
    obtain ⟨w1, w2, w3, w4⟩ := write_frame st.heap st.arena.obj st.arena.pos (st.heap.read key) hgen (by
      rw [hkb]; omega)
    rw [hkb] at w1
    refine { arenaGen := by simp [inv.arenaGen], gensValid := ?_, posLe := ?_, stored := ?_ }
    · intro g hg
      simp only [inv.arenaGen, if_true] at hg
      rw [w2]; exact inv.gensValid g hg
    · simp only
      rw [w3]; omega
    · intro p hp
      simp only [List.mem_cons] at hp
      rcases hp with rfl | hp
      · simp only [inv.arenaGen, if_true, true_and]
        exact ⟨w1, fun _ => Nat.le_refl _⟩
      · obtain ⟨p1, p2, p3⟩ := inv.stored p hp
        refine ⟨by simp only [inv.arenaGen, if_true]; exact p1, ?_, fun e => by have := p3 e; simp only; omega⟩
        rw [w4 p.1 (by
          by_cases e : p.1.obj = st.arena.obj
          · exact Or.inr (p3 e)
          · exact Or.inl e)]
        exact p2

end C18.KeyStore
