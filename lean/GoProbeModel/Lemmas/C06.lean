import GoProbeModel.Model.C06
import GoProbeModel.Props.C03

/-!
C06 — helper lemmas for `Props/C06.lean`: the checked operations of the reader model succeed on
all inputs (suffix decoding, shape of decoded metadata, `ReadBlockAtIndex`, `bitpack`, the scan loop),
and the algebra of the result map (`addAll`).
-/
namespace C06
open C03 (Desc Col Traffic Meta slice)


theorem bind_eq_ok {α β} {x : Outcome α} {f : α → Outcome β} {b : β} :
    x.bind f = .ok b ↔ ∃ a, x = .ok a ∧ f a = .ok b := by
  cases x <;> simp [Outcome.bind]

theorem bind_ne_panic {α β} {x : Outcome α} {f : α → Outcome β}
    (hx : ∀ w, x ≠ .panic w) (hf : ∀ a, x = .ok a → ∀ w, f a ≠ .panic w) : ∀ w, x.bind f ≠ .panic w := by
  cases x with
  | ok a => exact hf a rfl
  | err e => intro w h; cases h
  | panic w => exact absurd rfl (hx w)

/-! ## directory suffix -/

theorem b62dec_ok (f : List Nat) (h : ∀ c ∈ f, c ≤ 122) : ∃ v, C03.b62dec f = .ok v := by
  induction f with
  | nil => exact ⟨0, rfl⟩
  | cons c cs ih =>
    obtain ⟨v, hv⟩ := ih (fun x hx => h x (List.mem_cons_of_mem _ hx))
    have hc : c < Gen.B62.decodeLookup.length := by
      have := h c (List.mem_cons_self ..)
      have hl : Gen.B62.decodeLookup.length = 123 := rfl
      omega
    obtain ⟨d, hd⟩ := C03.idx_lt hc
    refine ⟨(v * Gen.B62.stringEncUin64DictLen + d) % C03.two64, ?_⟩
    unfold C03.b62dec at hv ⊢
    simp only [List.foldr_cons, hv, hd, C03.obind_ok]

theorem decodeAll_ok (fs : List (List Nat)) (h : ∀ f ∈ fs, ∀ c ∈ f, c ≤ 122) : ∃ vs, C03.decodeAll fs = .ok vs := by
  induction fs with
  | nil => exact ⟨[], rfl⟩
  | cons f fs ih =>
    obtain ⟨v, hv⟩ := b62dec_ok f (h f (List.mem_cons_self ..))
    obtain ⟨vs, hvs⟩ := ih (fun g hg => h g (List.mem_cons_of_mem _ hg))
    exact ⟨v :: vs, by simp only [C03.decodeAll, hv, hvs, C03.obind_ok]⟩

/-- the suffix of a directory name never crashes the reader, whatever bytes it holds -/
theorem suffixDecode_total (s : Bytes) : ∀ w, suffixDecode s ≠ .panic w := by
  intro w
  unfold suffixDecode
  simp only
  split
  · intro h; cases h
  · split
    · intro h; cases h
    · rename_i _ hany
      have : ∀ f ∈ C03.splitOn Gen.MetaLayout.delimDash s, ∀ c ∈ f, c ≤ 122 := by
        intro f hf c hc
        rcases Nat.lt_or_ge 122 c with hgt | hle
        · exfalso; apply hany
          simp only [List.any_eq_true, decide_eq_true_eq]
          exact ⟨f, hf, c, hc, hgt⟩
        · exact hle
      obtain ⟨vs, hvs⟩ := decodeAll_ok _ this
      rw [hvs]; intro h; cases h




/-! ## shape of decoded metadata -/

theorem readDescs_len (bs : List Nat) : ∀ n pos ds p, C03.readDescs bs n pos = .ok (ds, p) → ds.length = n := by
  intro n
  induction n with
  | zero => intro pos ds p h; simp only [C03.readDescs, Outcome.ok.injEq, Prod.mk.injEq] at h; rw [← h.1]; rfl
  | succ n ih =>
    intro pos ds p h
    simp only [C03.readDescs, bind_eq_ok] at h
    obtain ⟨_, _, _, _, _, _, r, hr, h⟩ := h
    simp only [Outcome.ok.injEq, Prod.mk.injEq] at h
    rw [← h.1, List.length_cons, ih _ r.1 r.2 hr]

theorem readCols_len (bs : List Nat) (n : Nat) : ∀ k pos cs p, C03.readCols bs n k pos = .ok (cs, p) →
    cs.length = k ∧ ∀ c ∈ cs, c.descs.length = n := by
  intro k
  induction k with
  | zero =>
    intro pos cs p h; simp only [C03.readCols, Outcome.ok.injEq, Prod.mk.injEq] at h
    rw [← h.1]; exact ⟨rfl, by simp⟩
  | succ k ih =>
    intro pos cs p h
    simp only [C03.readCols, bind_eq_ok] at h
    obtain ⟨cur, _, d, hd, r, hr, h⟩ := h
    simp only [Outcome.ok.injEq, Prod.mk.injEq] at h
    obtain ⟨h1, h2⟩ := ih _ r.1 r.2 hr
    rw [← h.1]
    refine ⟨by simp [h1], ?_⟩
    intro c hc
    rcases List.mem_cons.1 hc with rfl | hc
    · exact readDescs_len bs n _ d.1 d.2 hd
    · exact h2 c hc

theorem readEntries_len (bs : List Nat) : ∀ n pos last r, C03.readEntries bs n pos last = .ok r →
    r.1.length = n ∧ r.2.length = n := by
  intro n
  induction n with
  | zero => intro pos last r h; simp only [C03.readEntries, Outcome.ok.injEq] at h; rw [← h]; exact ⟨rfl, rfl⟩
  | succ n ih =>
    intro pos last r h
    simp only [C03.readEntries, bind_eq_ok] at h
    obtain ⟨_, _, _, _, _, _, _, _, r', hr', h⟩ := h
    simp only [Outcome.ok.injEq] at h
    obtain ⟨h1, h2⟩ := ih _ _ r' hr'
    rw [← h]; simp [h1, h2]

/-- what `Unmarshal` hands to the reader: eight columns with `n` descriptors each, `n` timestamps, `n` traffic entries -/
structure Shape (m : Meta) (n : Nat) : Prop where
  cols : m.cols.length = 8
  descs : ∀ c ∈ m.cols, c.descs.length = n
  ts : m.ts.length = n
  traffic : m.traffic.length = n

theorem unmarshal_shape {bs : List Nat} {m : Meta} (h : C03.unmarshal bs = .ok m) : ∃ n, Shape m n := by
  unfold C03.unmarshal at h
  split at h
  · cases h
  · simp only [bind_eq_ok] at h
    obtain ⟨_, _, _, _, n, _, h⟩ := h
    split at h
    · cases h
    · simp only [bind_eq_ok] at h
      obtain ⟨_, _, _, _, _, _, _, _, _, _, _, _, _, _, c, hc, _, _, e, he, h⟩ := h
      simp only [Outcome.ok.injEq] at h
      obtain ⟨h1, h2⟩ := readCols_len bs n _ _ c.1 c.2 hc
      obtain ⟨h3, h4⟩ := readEntries_len bs n _ _ e he
      refine ⟨n, ?_⟩
      rw [← h]
      exact ⟨by rw [h1]; exact C03.ncols_eq, h2, h4, h3⟩



/-! ## GPFile.ReadBlockAtIndex -/

/-- the position of an in-memory file never lies beyond its end -/
def FileInv (file : Option Bytes) (st : FileSt) : Prop := ∀ data, file = some data → st.pos ≤ data.length

/-- `ReadBlockAtIndex` on arbitrary bytes, descriptor and decoder: an error, a block, or — for an
    announced length of 2^30 or more — out of memory; never a slice out of range -/
theorem readBlock_spec (dec : Dec) (file : Option Bytes) (d : Desc) (off : Nat) (st : FileSt) (h : FileInv file st) :
    readBlock dec file d off st = .err "oom" ∨
    ∃ r st', readBlock dec file d off st = .ok (r, st') ∧ FileInv file st' := by
  unfold readBlock
  by_cases h1 : d.rawLen = 0
  · rw [if_pos h1]; exact .inr ⟨_, _, rfl, h⟩
  rw [if_neg h1]
  by_cases h2 : d.len = 0
  · rw [if_pos h2]; exact .inr ⟨_, _, rfl, h⟩
  rw [if_neg h2]
  cases file with
  | none => exact .inr ⟨_, _, rfl, h⟩
  | some data =>
    have hp : st.pos ≤ data.length := h data rfl
    simp only
    by_cases h3 : off ≠ st.last
    · rw [if_pos h3]
      by_cases h4 : off ≥ data.length
      · rw [if_pos h4]; exact .inr ⟨_, _, rfl, fun dd hd => by cases hd; exact hp⟩
      · rw [if_neg h4]
        simp only
        by_cases h5 : d.rawLen ≥ bigLen
        · rw [if_pos h5]; exact .inl rfl
        rw [if_neg h5]
        by_cases h6 : d.enc ≠ Gen.MetaLayout.EncoderTypeNull
        · rw [if_pos h6]
          cases hk : encoderKnown d.enc
          · simp only [Bool.not_false, if_true]; exact .inr ⟨_, _, rfl, fun dd hd => by cases hd; simp only; omega⟩
          · simp only [Bool.not_true, Bool.false_eq_true, if_false]
            by_cases h7 : d.len ≥ bigLen
            · rw [if_pos h7]; exact .inl rfl
            rw [if_neg h7, if_neg (by omega : ¬ off > data.length)]
            by_cases h8 : data.length - off < d.len
            · rw [if_pos h8]; exact .inr ⟨_, _, rfl, fun dd hd => by cases hd; simp only; omega⟩
            · rw [if_neg h8]
              cases dec d.enc ((data.drop off).take d.len) d.rawLen <;>
                exact .inr ⟨_, _, rfl, fun dd hd => by cases hd; simp only; omega⟩
        · rw [if_neg h6, if_neg (by omega : ¬ off > data.length)]
          by_cases h8 : data.length - off < d.rawLen
          · rw [if_pos h8]; exact .inr ⟨_, _, rfl, fun dd hd => by cases hd; simp only; omega⟩
          · rw [if_neg h8]; exact .inr ⟨_, _, rfl, fun dd hd => by cases hd; simp only; omega⟩
    · rw [if_neg h3]
      simp only
      by_cases h5 : d.rawLen ≥ bigLen
      · rw [if_pos h5]; exact .inl rfl
      rw [if_neg h5]
      by_cases h6 : d.enc ≠ Gen.MetaLayout.EncoderTypeNull
      · rw [if_pos h6]
        cases hk : encoderKnown d.enc
        · simp only [Bool.not_false, if_true]; exact .inr ⟨_, _, rfl, fun dd hd => by cases hd; exact hp⟩
        · simp only [Bool.not_true, Bool.false_eq_true, if_false]
          by_cases h7 : d.len ≥ bigLen
          · rw [if_pos h7]; exact .inl rfl
          rw [if_neg h7, if_neg (by omega : ¬ st.pos > data.length)]
          by_cases h8 : data.length - st.pos < d.len
          · rw [if_pos h8]; exact .inr ⟨_, _, rfl, fun dd hd => by cases hd; exact hp⟩
          · rw [if_neg h8]
            cases dec d.enc ((data.drop st.pos).take d.len) d.rawLen <;>
              exact .inr ⟨_, _, rfl, fun dd hd => by cases hd; simp only; omega⟩
      · rw [if_neg h6, if_neg (by omega : ¬ st.pos > data.length)]
        by_cases h8 : data.length - st.pos < d.rawLen
        · rw [if_pos h8]; exact .inr ⟨_, _, rfl, fun dd hd => by cases hd; exact hp⟩
        · rw [if_neg h8]; exact .inr ⟨_, _, rfl, fun dd hd => by cases hd; simp only; omega⟩

/-- without a huge announced length the read is never short of memory -/
theorem readBlock_ok_of_small (dec : Dec) (file : Option Bytes) (d : Desc) (off : Nat) (st : FileSt)
    (hr : d.rawLen < bigLen) (hl : d.len < bigLen) : readBlock dec file d off st ≠ .err "oom" := by
  intro h
  unfold readBlock at h
  repeat' split at h
  all_goals try (simp only [] at h)
  all_goals repeat' split at h
  all_goals first | omega | (cases h; done) | (simp_all; done)



theorem slice_eq {bs : List Nat} {a b : Nat} (h1 : a ≤ b) (h2 : b ≤ bs.length) :
    slice bs a b = .ok ((bs.drop a).take (b - a)) := by
  unfold slice; rw [if_pos ⟨h1, h2⟩]

theorem slice_len {bs : List Nat} {a b : Nat} (h1 : a ≤ b) (h2 : b ≤ bs.length) :
    ((bs.drop a).take (b - a)).length = b - a := by
  rw [List.length_take, List.length_drop]; omega

/-! ## bitpack -/

theorem unpackAll_ok (b2 : Bytes) (k : Nat) (hk : 1 ≤ k) : ∀ n i, (i + n) * k ≤ b2.length →
    ∃ vs, unpackAll b2 k n i = .ok vs ∧ vs.length = n := by
  intro n
  induction n with
  | zero => intro i _; exact ⟨[], rfl, rfl⟩
  | succ n ih =>
    intro i h
    have h1 : (i + 1) * k ≤ b2.length := by
      have : (i + 1) * k ≤ (i + (n + 1)) * k := Nat.mul_le_mul_right _ (by omega)
      omega
    have h2 : i * k ≤ b2.length := by
      have : i * k ≤ (i + 1) * k := Nat.mul_le_mul_right _ (by omega)
      omega
    obtain ⟨vs, hvs, hl⟩ := ih (i + 1) (by rw [show i + 1 + n = i + (n + 1) by omega]; exact h)
    have hs := slice_eq (bs := b2) (a := i * k) (b := b2.length) h2 (Nat.le_refl _)
    have hlen := slice_len (bs := b2) (a := i * k) (b := b2.length) h2 (Nat.le_refl _)
    have hk1 : k - 1 < ((b2.drop (i * k)).take (b2.length - i * k)).length := by
      rw [hlen]; rw [Nat.add_mul] at h1; omega
    obtain ⟨x, hx⟩ := C03.idx_lt hk1
    refine ⟨leVal (((b2.drop (i * k)).take (b2.length - i * k)).take k) :: vs, ?_, by simp [hl]⟩
    simp only [unpackAll, hs, hx, hvs, C03.obind_ok]

/-- `bitpack.UnpackInto` accepts every byte string (every width byte) and yields `bitpack.Len` values -/
theorem unpack_ok (b : Bytes) : ∃ vs, unpack b = .ok vs ∧ vs.length = bpLen b := by
  cases b with
  | nil => exact ⟨[], rfl, rfl⟩
  | cons w rest =>
    unfold unpack bpLen
    by_cases hw : w = 0
    · simp only [hw, if_true]; exact ⟨[], rfl, rfl⟩
    · simp only [hw, if_false]
      by_cases h7 : w ≤ 7
      · rw [if_pos h7]
        exact unpackAll_ok rest w (by omega) _ 0 (by rw [Nat.zero_add]; exact Nat.div_mul_le_self _ _)
      · rw [if_neg h7]
        refine unpackAll_ok rest 8 (by omega) _ 0 ?_
        rw [Nat.zero_add]
        have h1 : rest.length / w ≤ rest.length / 8 := Nat.div_le_div_left (by omega) (by omega)
        have h2 : rest.length / 8 * 8 ≤ rest.length := Nat.div_mul_le_self _ _
        have h3 : rest.length / w * 8 ≤ rest.length / 8 * 8 := Nat.mul_le_mul_right _ h1
        omega



def addAll (m : Agg) (es : List (Key × Cnt)) : Agg := es.foldl (fun m e => m.add e.1 e.2) m

/-! ## the result map: merging what a day yields -/

theorem mod_add_assoc (x y z M : Nat) : ((x + y) % M + z) % M = (x + (y + z) % M) % M := by
  rw [Nat.mod_add_mod, Nat.add_mod_mod, Nat.add_assoc]

theorem mod_add_right_comm (x y z M : Nat) : ((x + y) % M + z) % M = ((x + z) % M + y) % M := by
  rw [Nat.mod_add_mod, Nat.mod_add_mod, Nat.add_right_comm]

theorem Cnt.add_assoc (a b c : Cnt) : (a.add b).add c = a.add (b.add c) := by
  simp only [Cnt.add, Cnt.mk.injEq]
  exact ⟨mod_add_assoc .., mod_add_assoc .., mod_add_assoc .., mod_add_assoc ..⟩

theorem Cnt.add_right_comm (a b c : Cnt) : (a.add b).add c = (a.add c).add b := by
  simp only [Cnt.add, Cnt.mk.injEq]
  exact ⟨mod_add_right_comm .., mod_add_right_comm .., mod_add_right_comm .., mod_add_right_comm ..⟩

def keys (m : Agg) : List Key := m.map (·.1)

theorem keys_add (m : Agg) (k : Key) (c : Cnt) : ∀ k', k' ∈ keys m → k' ∈ keys (m.add k c) := by
  induction m with
  | nil => intro k' h; cases h
  | cons e rest ih =>
    intro k' h
    unfold Agg.add
    by_cases he : e.1 = k
    · rw [if_pos he]; simpa [keys] using h
    · rw [if_neg he]
      simp only [keys, List.map_cons, List.mem_cons] at h ⊢
      rcases h with h | h
      · exact .inl h
      · exact .inr (ih k' h)

theorem mem_keys_add_self (m : Agg) (k : Key) (c : Cnt) : k ∈ keys (m.add k c) := by
  induction m with
  | nil => simp [Agg.add, keys]
  | cons e rest ih =>
    unfold Agg.add
    by_cases he : e.1 = k
    · rw [if_pos he]; simp [keys, he]
    · rw [if_neg he]; simp only [keys, List.map_cons, List.mem_cons]; exact .inr ih

/-- adding twice to the same key adds the sum -/
theorem add_add_same (m : Agg) (k : Key) (c1 c2 : Cnt) : (m.add k c1).add k c2 = m.add k (c1.add c2) := by
  induction m with
  | nil => simp [Agg.add]
  | cons e rest ih =>
    by_cases he : e.1 = k
    · simp [Agg.add, he, Cnt.add_assoc]
    · simp [Agg.add, he, ih]

/-- adding to a key that is present commutes with any other addition -/
theorem add_comm_present (m : Agg) (k1 k2 : Key) (c1 c2 : Cnt) (h : k2 ∈ keys m) :
    (m.add k1 c1).add k2 c2 = (m.add k2 c2).add k1 c1 := by
  induction m with
  | nil => cases h
  | cons e rest ih =>
    obtain ⟨k, c⟩ := e
    simp only [keys, List.map_cons, List.mem_cons] at h
    by_cases h1 : k = k1 <;> by_cases h2 : k = k2
    · subst h1; subst h2
      simp [Agg.add, Cnt.add_right_comm]
    · subst h1
      have h2' : ¬ k2 = k := fun hh => h2 hh.symm
      simp [Agg.add, h2]
    · subst h2
      have h1' : ¬ k1 = k := fun hh => h1 hh.symm
      simp [Agg.add, h1]
    · have hr : k2 ∈ keys rest := by
        rcases h with h | h
        · exact absurd h.symm h2
        · exact h
      simp [Agg.add, h1, h2, ih hr]

theorem addAll_add_present (es : List (Key × Cnt)) : ∀ (m : Agg) (k : Key) (c : Cnt), k ∈ keys m →
    (addAll m es).add k c = addAll (m.add k c) es := by
  induction es with
  | nil => intro m k c _; rfl
  | cons e es ih =>
    intro m k c h
    simp only [addAll, List.foldl_cons] at ih ⊢
    rw [ih (m.add e.1 e.2) k c (keys_add m e.1 e.2 k h), add_comm_present m e.1 k e.2 c h]

theorem addAll_add (acc : Agg) : ∀ (agg : Agg) (k : Key) (c : Cnt),
    addAll agg (acc.add k c) = (addAll agg acc).add k c := by
  induction acc with
  | nil => intro agg k c; rfl
  | cons e rest ih =>
    intro agg k c
    by_cases he : e.1 = k
    · have : Agg.add (e :: rest) k c = (e.1, e.2.add c) :: rest := by simp [Agg.add, he]
      rw [this]
      simp only [addAll, List.foldl_cons]
      have h2 := addAll_add_present rest (agg.add e.1 e.2) k c (by rw [← he]; exact mem_keys_add_self agg e.1 e.2)
      simp only [addAll] at h2
      rw [h2, ← he, add_add_same]
    · have : Agg.add (e :: rest) k c = e :: Agg.add rest k c := by simp [Agg.add, he]
      rw [this]
      simp only [addAll, List.foldl_cons] at ih ⊢
      exact ih (agg.add e.1 e.2) k c

/-- merging a map built from insertions equals performing the insertions -/
theorem addAll_addAll (es : List (Key × Cnt)) : ∀ (acc agg : Agg), addAll agg (addAll acc es) = addAll (addAll agg acc) es := by
  induction es with
  | nil => intro acc agg; rfl
  | cons e es ih =>
    intro acc agg
    have h1 : addAll acc (e :: es) = addAll (acc.add e.1 e.2) es := rfl
    have h2 : addAll (addAll agg acc) (e :: es) = addAll ((addAll agg acc).add e.1 e.2) es := rfl
    rw [h1, h2, ih, addAll_add]

theorem addAll_nil_merge (agg : Agg) (es : List (Key × Cnt)) : addAll agg (addAll [] es) = addAll agg es :=
  addAll_addAll es [] agg




/-! ## the scan loop -/

theorem addAll_append (m : Agg) (a b : List (Key × Cnt)) : addAll (addAll m a) b = addAll m (a ++ b) := by
  simp [addAll, List.foldl_append]

/-- what the sanity checks establish about the blocks of the columns the query uses
    (`N` entries, the first `V` of them IPv4) -/
structure BlkOK (q : Q) (blk : Blocks) (br bs pr ps : List Nat) (N V : Nat) : Prop where
  v : V ≤ N
  sip : (q.aSip = true ∨ q.cSip.isSome = true) → (blk 0).length = (N - V) * 16 + V * 4
  dip : (q.aDip = true ∨ q.cDip.isSome = true) → (blk 1).length = (N - V) * 16 + V * 4
  proto : (q.aProto = true ∨ q.cProto.isSome = true) → (blk 2).length = N
  dport : (q.aDport = true ∨ q.cDport.isSome = true) → (blk 3).length = 2 * N
  br : br.length = N
  bs : bs.length = N
  pr : pr.length = N
  ps : ps.length = N

/-- the IP-version flag agrees with the position of the entry -/
def Cons (V i : Nat) (f : Bool) : Prop := (f = true → i < V) ∧ (f = false → V ≤ i)

theorem ipAt_ok {blk : Bytes} {N V i : Nat} {f : Bool} (hL : blk.length = (N - V) * 16 + V * 4) (hv : V ≤ N)
    (hi : i < N) (hf : Cons V i f) : ∃ v, ipAt blk V i f = .ok v := by
  unfold ipAt
  cases f with
  | true =>
    have := hf.1 rfl
    simp only [if_true]
    exact ⟨_, slice_eq (by omega) (by omega)⟩
  | false =>
    have := hf.2 rfl
    simp only [Bool.false_eq_true, if_false]
    refine ⟨_, slice_eq (by omega) ?_⟩
    have h1 : (i - V) * 16 + 16 ≤ (N - V) * 16 := by
      have : i - V + 1 ≤ N - V := by omega
      have := Nat.mul_le_mul_right 16 this
      omega
    omega

theorem whenO_ok {α} {b : Bool} {x : Outcome α} {d : α} (h : b = true → ∃ v, x = .ok v) : ∃ v, whenO b x d = .ok v := by
  unfold whenO
  cases b with
  | true => simpa using h rfl
  | false => exact ⟨d, by simp⟩

theorem idxSome_ok {l : List Nat} {i : Nat} (h : i < l.length) :
    ∃ v, ((Outcome.idx l i).bind fun p => Outcome.ok (some p)) = .ok v := by
  obtain ⟨x, hx⟩ := C03.idx_lt h
  exact ⟨some x, by rw [hx]; rfl⟩

theorem entryAt_ok {q : Q} {ts : Int} {blk : Blocks} {br bs pr ps : List Nat} {N V i : Nat} {isV4 condV4 : Bool}
    (H : BlkOK q blk br bs pr ps N V) (hi : i < N)
    (h4 : (q.aSip = true ∨ q.aDip = true) → Cons V i isV4) (hc : Cons V i condV4) :
    ∃ e, entryAt q ts V blk br bs pr ps i isV4 condV4 = .ok e := by
  obtain ⟨v1, e1⟩ := whenO_ok (b := q.aSip) (x := ipAt (blk 0) V i isV4) (d := [])
    (fun h => ipAt_ok (H.sip (.inl h)) H.v hi (h4 (.inl h)))
  obtain ⟨v2, e2⟩ := whenO_ok (b := q.aDip) (x := ipAt (blk 1) V i isV4) (d := [])
    (fun h => ipAt_ok (H.dip (.inl h)) H.v hi (h4 (.inr h)))
  obtain ⟨v3, e3⟩ := whenO_ok (b := q.aProto) (x := (Outcome.idx (blk 2) i).bind fun p => Outcome.ok (some p)) (d := none)
    (fun h => idxSome_ok (by rw [H.proto (.inl h)]; exact hi))
  obtain ⟨v4, e4⟩ := whenO_ok (b := q.aDport) (x := slice (blk 3) (i * 2) (i * 2 + 2)) (d := [])
    (fun h => ⟨_, slice_eq (by omega) (by rw [H.dport (.inl h)]; omega)⟩)
  obtain ⟨v5, e5⟩ := whenO_ok (b := q.cSip.isSome) (x := ipAt (blk 0) V i condV4) (d := [])
    (fun h => ipAt_ok (H.sip (.inr h)) H.v hi hc)
  obtain ⟨v6, e6⟩ := whenO_ok (b := q.cDip.isSome) (x := ipAt (blk 1) V i condV4) (d := [])
    (fun h => ipAt_ok (H.dip (.inr h)) H.v hi hc)
  obtain ⟨v7, e7⟩ := whenO_ok (b := q.cProto.isSome) (x := (Outcome.idx (blk 2) i).bind fun p => Outcome.ok (some p)) (d := none)
    (fun h => idxSome_ok (by rw [H.proto (.inr h)]; exact hi))
  obtain ⟨v8, e8⟩ := whenO_ok (b := q.cDport.isSome) (x := slice (blk 3) (i * 2) (i * 2 + 2)) (d := [])
    (fun h => ⟨_, slice_eq (by omega) (by rw [H.dport (.inr h)]; omega)⟩)
  obtain ⟨c1, f1⟩ := C03.idx_lt (bs := br) (i := i) (by rw [H.br]; exact hi)
  obtain ⟨c2, f2⟩ := C03.idx_lt (bs := bs) (i := i) (by rw [H.bs]; exact hi)
  obtain ⟨c3, f3⟩ := C03.idx_lt (bs := pr) (i := i) (by rw [H.pr]; exact hi)
  obtain ⟨c4, f4⟩ := C03.idx_lt (bs := ps) (i := i) (by rw [H.ps]; exact hi)
  simp only [entryAt, e1, e2, e3, e4, e5, e6, e7, e8, f1, f2, f3, f4, C03.obind_ok]
  exact ⟨_, rfl⟩

/-- loop invariant: before the switch at `i == numV4Entries` both flags say IPv4, after it the
    comparison flag (and, if addresses are queried, the key flag) say IPv6 -/
def ScanInv (q : Q) (V i : Nat) (isV4 condV4 : Bool) : Prop :=
  (i ≤ V ∧ isV4 = true ∧ condV4 = true) ∨
  (V ≤ i ∧ condV4 = false ∧ ((q.aSip = true ∨ q.aDip = true) → isV4 = false))

/-- the scan loop never indexes out of range once the checks have passed, and what it adds to the
    result map does not depend on what the map holds -/
theorem scan_uniform {q : Q} {ts : Int} {blk : Blocks} {br bs pr ps : List Nat} {N V : Nat}
    (H : BlkOK q blk br bs pr ps N V) : ∀ fuel i isV4 condV4, i + fuel ≤ N → ScanInv q V i isV4 condV4 →
    ∃ es, ∀ agg, scan q ts V blk br bs pr ps fuel i isV4 condV4 agg = .ok (addAll agg es) := by
  intro fuel
  induction fuel with
  | zero => intro i _ _ _ _; exact ⟨[], fun agg => rfl⟩
  | succ fuel ih =>
    intro i isV4 condV4 hb hinv
    have hi : i < N := by omega
    -- flags after the switch
    have hcons : Cons V i (if i = V then false else condV4) := by
      rcases hinv with ⟨h1, _, h3⟩ | ⟨h1, h2, _⟩
      · by_cases he : i = V
        · rw [if_pos he]; exact ⟨fun h => (by cases h), fun _ => (by omega)⟩
        · rw [if_neg he, h3]; exact ⟨fun _ => (by omega), fun h => (by cases h)⟩
      · by_cases he : i = V
        · rw [if_pos he]; exact ⟨fun h => (by cases h), fun _ => (by omega)⟩
        · rw [if_neg he, h2]; exact ⟨fun h => (by cases h), fun _ => h1⟩
    have hcons4 : (q.aSip = true ∨ q.aDip = true) →
        Cons V i (if i = V ∧ (q.aSip || q.aDip) = true then false else isV4) := by
      intro hip
      have hor : (q.aSip || q.aDip) = true := by
        rcases hip with h | h <;> simp [h]
      rcases hinv with ⟨h1, h2, _⟩ | ⟨h1, _, h3⟩
      · by_cases he : i = V
        · rw [if_pos ⟨he, hor⟩]; exact ⟨fun h => (by cases h), fun _ => (by omega)⟩
        · rw [if_neg (fun h => he h.1), h2]; exact ⟨fun _ => (by omega), fun h => (by cases h)⟩
      · by_cases he : i = V
        · rw [if_pos ⟨he, hor⟩]; exact ⟨fun h => (by cases h), fun _ => (by omega)⟩
        · rw [if_neg (fun h => he h.1), h3 hip]; exact ⟨fun h => (by cases h), fun _ => h1⟩
    obtain ⟨e, he⟩ := entryAt_ok (ts := ts) H hi hcons4 hcons
    have hinv' : ScanInv q V (i + 1) (if i = V ∧ (q.aSip || q.aDip) = true then false else isV4)
        (if i = V then false else condV4) := by
      rcases hinv with ⟨h1, h2, h3⟩ | ⟨h1, h2, h3⟩
      · by_cases hv : i = V
        · refine .inr ⟨by omega, by rw [if_pos hv], ?_⟩
          intro hip
          have hor : (q.aSip || q.aDip) = true := by rcases hip with h | h <;> simp [h]
          rw [if_pos ⟨hv, hor⟩]
        · exact .inl ⟨by omega, by rw [if_neg (fun h => hv h.1)]; exact h2, by rw [if_neg hv]; exact h3⟩
      · refine .inr ⟨by omega, ?_, ?_⟩
        · by_cases hv : i = V
          · rw [if_pos hv]
          · rw [if_neg hv]; exact h2
        · intro hip
          by_cases hv : i = V ∧ (q.aSip || q.aDip) = true
          · rw [if_pos hv]
          · rw [if_neg hv]; exact h3 hip
    obtain ⟨es, hes⟩ := ih (i + 1) _ _ (by omega) hinv'
    cases e with
    | none =>
      refine ⟨es, fun agg => ?_⟩
      simp only [scan, he, C03.obind_ok]
      exact hes agg
    | some kc =>
      refine ⟨kc :: es, fun agg => ?_⟩
      simp only [scan, he, C03.obind_ok]
      rw [hes]; rfl


theorem idx_get {α} {l : List α} {i : Nat} (h : i < l.length) : Outcome.idx l i = .ok l[i] := by
  unfold Outcome.idx; simp [h]

/-! ## reading the columns of a block -/

/-- every column file of the day is positioned inside its data -/
def StInv (day : Day) (st : ColSt) : Prop := ∀ c, FileInv ((day.cols[c]?).join) (st c)

theorem StInv_set {day : Day} {st : ColSt} {c : Nat} {v : FileSt} (h : StInv day st)
    (hv : FileInv ((day.cols[c]?).join) v) : StInv day (st.set c v) := by
  intro c'
  unfold ColSt.set
  by_cases hc : c' = c
  · rw [if_pos hc, hc]; exact hv
  · rw [if_neg hc]; exact h c'

/-- no block descriptor announces a stored or raw length of 2^30 bytes or more -/
def Small (m : Meta) : Prop := ∀ c ∈ m.cols, ∀ d ∈ c.descs, d.rawLen < bigLen ∧ d.len < bigLen

theorem readCols_spec (dec : Dec) (day : Day) {m : Meta} {n j : Nat} (hm : Shape m n) (hj : j < n) :
    ∀ cols, (∀ c ∈ cols, c < 8) → ∀ st blk, StInv day st →
      (¬ Small m ∧ readCols dec day m j cols st blk = .err "oom") ∨
      ∃ b st' blk', readCols dec day m j cols st blk = .ok (b, st', blk') ∧ StInv day st' := by
  intro cols
  induction cols with
  | nil => intro _ st blk hst; exact .inr ⟨false, st, blk, rfl, hst⟩
  | cons c cs ih =>
    intro hc st blk hst
    have hc8 : c < m.cols.length := by rw [hm.cols]; exact hc c (List.mem_cons_self ..)
    have h1 := idx_get hc8
    have hd : j < m.cols[c].descs.length := by rw [hm.descs _ (List.getElem_mem hc8)]; exact hj
    have h2 := idx_get hd
    rcases readBlock_spec dec ((day.cols[c]?).join) m.cols[c].descs[j] (offsetOf m.cols[c].descs j) (st c) (hst c) with
      hoom | ⟨r, st1, hr, hinv⟩
    · left
      refine ⟨fun hs => ?_, by simp only [readCols, h1, h2, hoom, C03.obind_ok]; rfl⟩
      have := hs _ (List.getElem_mem hc8) _ (List.getElem_mem hd)
      exact readBlock_ok_of_small dec _ _ _ _ this.1 this.2 hoom
    · cases r with
      | none =>
        right
        refine ⟨true, st.set c st1, blk, ?_, StInv_set hst hinv⟩
        simp only [readCols, h1, h2, hr, C03.obind_ok]
      | some data =>
        rcases ih (fun x hx => hc x (List.mem_cons_of_mem _ hx)) (st.set c st1) (blk.set c data) (StInv_set hst hinv) with
          h | ⟨b, st', blk', h, hs⟩
        · left; exact ⟨h.1, by simp only [readCols, h1, h2, hr, C03.obind_ok]; exact h.2⟩
        · right; exact ⟨b, st', blk', by simp only [readCols, h1, h2, hr, C03.obind_ok]; exact h, hs⟩

theorem qcols_lt8 (q : Q) : ∀ c ∈ q.cols, c < 8 := by
  intro c hc
  unfold Q.cols at hc
  simp only [List.mem_append, List.mem_cons, List.mem_nil_iff, or_false] at hc
  rcases hc with (((h | h) | h) | h) | h
  · split at h <;> simp at h; omega
  · split at h <;> simp at h; omega
  · split at h <;> simp at h; omega
  · split at h <;> simp at h; omega
  · omega

/-! ## the sanity checks -/

theorem checkCols_good (N V : Nat) (blk : Blocks) : ∀ cols acc acc', checkCols N V blk cols acc = (acc', false) →
    ∀ c ∈ cols, colBad N V blk c = false := by
  intro cols
  induction cols with
  | nil => intro _ _ _ c hc; cases hc
  | cons x xs ih =>
    intro acc acc' h c hc
    unfold checkCols at h
    cases hb : colBad N V blk x
    · rw [hb] at h
      simp only [Bool.false_eq_true, if_false] at h
      rcases List.mem_cons.1 hc with rfl | hc
      · exact hb
      · exact ih _ _ h c hc
    · rw [hb] at h; simp at h

theorem mem_qcols_counter (q : Q) (c : Nat) (h4 : 4 ≤ c) (h7 : c ≤ 7) : c ∈ q.cols := by
  unfold Q.cols
  simp only [List.mem_append, List.mem_cons, List.mem_nil_iff, or_false]
  right; omega

theorem mem_qcols_sip (q : Q) (h : q.aSip = true ∨ q.cSip.isSome = true) : 0 ∈ q.cols := by
  unfold Q.cols
  have : (q.aSip || q.cSip.isSome) = true := by rcases h with h | h <;> simp [h]
  simp [this]

theorem mem_qcols_dip (q : Q) (h : q.aDip = true ∨ q.cDip.isSome = true) : 1 ∈ q.cols := by
  unfold Q.cols
  have : (q.aDip || q.cDip.isSome) = true := by rcases h with h | h <;> simp [h]
  simp [this]

theorem mem_qcols_proto (q : Q) (h : q.aProto = true ∨ q.cProto.isSome = true) : 2 ∈ q.cols := by
  unfold Q.cols
  have : (q.aProto || q.cProto.isSome) = true := by rcases h with h | h <;> simp [h]
  simp [this]

theorem mem_qcols_dport (q : Q) (h : q.aDport = true ∨ q.cDport.isSome = true) : 3 ∈ q.cols := by
  unfold Q.cols
  have : (q.aDport || q.cDport.isSome) = true := by rcases h with h | h <;> simp [h]
  simp [this]

/-- what passing all sanity checks means for the scan loop -/
theorem blkOK_of_checks {q : Q} {blk : Blocks} {br bs pr ps : List Nat} {V : Nat}
    (hv : V ≤ bpLen (blk 4)) (hg : ∀ c ∈ q.cols, colBad (bpLen (blk 4)) V blk c = false)
    (h4 : br.length = bpLen (blk 4)) (h5 : bs.length = bpLen (blk 5)) (h6 : pr.length = bpLen (blk 6))
    (h7 : ps.length = bpLen (blk 7)) : BlkOK q blk br bs pr ps (bpLen (blk 4)) V := by
  have cnt : ∀ c, 4 ≤ c → c ≤ 7 → bpLen (blk c) = bpLen (blk 4) := by
    intro c hc4 hc7
    have := hg c (mem_qcols_counter q c hc4 hc7)
    unfold colBad at this
    simp only [ge_iff_le, hc4, if_true, Bool.or_eq_false_iff, decide_eq_false_iff_not, ne_eq, Decidable.not_not] at this
    exact this.2
  refine ⟨hv, ?_, ?_, ?_, ?_, h4, by rw [h5, cnt 5 (by omega) (by omega)], by rw [h6, cnt 6 (by omega) (by omega)],
    by rw [h7, cnt 7 (by omega) (by omega)]⟩
  · intro h
    have := hg 0 (mem_qcols_sip q h)
    unfold colBad at this
    simpa using this
  · intro h
    have := hg 1 (mem_qcols_dip q h)
    unfold colBad at this
    simpa using this
  · intro h
    have := hg 2 (mem_qcols_proto q h)
    unfold colBad at this
    simpa using this
  · intro h
    have := hg 3 (mem_qcols_dport q h)
    unfold colBad at this
    simp only [ge_iff_le, show ¬ (4 ≤ 3) by omega, if_false, show ¬ (3 ≤ 1) by omega, show ¬ (3 = 2) by omega,
      Bool.or_eq_false_iff, decide_eq_false_iff_not, ne_eq, Decidable.not_not] at this
    omega

/-! ## one block -/

theorem Stats.add_zero (s : Stats) : s.add Stats.zero = s := by
  cases s; simp [Stats.add, Stats.zero]

/-- what one block does to the statistics and to the result map:
    it is counted as processed iff its timestamp lies in the queried range, and it is counted as
    corrupted exactly when it is skipped — then it adds nothing to the result -/
structure BlockFacts (q : Q) (ts : Int) (es : List (Key × Cnt)) (ds : Stats) : Prop where
  dirs : ds.dirs = 0
  workloads : ds.workloads = 0
  processed : ds.processed = if ts < q.first ∨ ts > q.last then 0 else 1
  corrupted : ds.corrupted = 0 ∨ (ds.corrupted = 1 ∧ ds.processed = 1 ∧ es = [])

theorem evalBlock_spec (q : Q) (dec : Dec) (day : Day) {m : Meta} {n j : Nat} (hm : Shape m n) (hj : j < n)
    {st : ColSt} (hst : StInv day st) :
    (¬ Small m ∧ ∀ agg s, evalBlock q dec day m j st agg s = .err "oom") ∨
    ∃ st' es ds, StInv day st' ∧ BlockFacts q (m.ts[j]'(by rw [hm.ts]; exact hj)) es ds ∧
      ∀ agg s, evalBlock q dec day m j st agg s = .ok (st', addAll agg es, s.add ds) := by
  have hjt : j < m.ts.length := by rw [hm.ts]; exact hj
  have hts := idx_get hjt
  by_cases hr : m.ts[j] < q.first ∨ m.ts[j] > q.last
  · right
    refine ⟨st, [], Stats.zero, hst, ⟨rfl, rfl, by simp [hr, Stats.zero], .inl rfl⟩, fun agg s => ?_⟩
    simp only [evalBlock, hts, C03.obind_ok, if_pos hr, Stats.add_zero]; rfl
  · have h0 : 0 < m.cols.length := by rw [hm.cols]; omega
    have hc0 := idx_get h0
    have hjd : j < m.cols[0].descs.length := by rw [hm.descs _ (List.getElem_mem h0)]; exact hj
    have hd0 := idx_get hjd
    have hjtr : j < m.traffic.length := by rw [hm.traffic]; exact hj
    have htr := idx_get hjtr
    have hproc : (1 : Nat) = if m.ts[j] < q.first ∨ m.ts[j] > q.last then 0 else 1 := by rw [if_neg hr]
    rcases readCols_spec dec day hm hj q.cols (qcols_lt8 q) st (fun _ => []) hst with hoom | ⟨b, st', blk, hrc, hst'⟩
    · left; refine ⟨hoom.1, fun agg s => ?_⟩
      simp only [evalBlock, hts, hc0, hd0, C03.obind_ok, if_neg hr, hoom.2]; rfl
    · right
      cases b with
      | true =>
        refine ⟨st', [], ⟨m.cols[0].descs[j].len, 0, 1, 1, 0, 0⟩, hst', ⟨rfl, rfl, hproc, .inr ⟨rfl, rfl, rfl⟩⟩, fun agg s => ?_⟩
        simp only [evalBlock, hts, hc0, hd0, hrc, C03.obind_ok, if_neg hr, if_true]
        cases s; simp [Stats.add, addAll]
      | false =>
        by_cases hv : m.traffic[j].v4 > bpLen (blk 4)
        · refine ⟨st', [], ⟨m.cols[0].descs[j].len, 0, 1, 1, 0, 0⟩, hst', ⟨rfl, rfl, hproc, .inr ⟨rfl, rfl, rfl⟩⟩, fun agg s => ?_⟩
          simp only [evalBlock, hts, hc0, hd0, hrc, htr, C03.obind_ok, if_neg hr, Bool.false_eq_true, if_false, if_pos hv]
          cases s; simp [Stats.add, addAll]
        · cases hck : checkCols (bpLen (blk 4)) m.traffic[j].v4 blk q.cols 0 with
          | mk acc bad =>
            cases bad with
            | true =>
              refine ⟨st', [], ⟨m.cols[0].descs[j].len, acc, 1, 1, 0, 0⟩, hst', ⟨rfl, rfl, hproc, .inr ⟨rfl, rfl, rfl⟩⟩, fun agg s => ?_⟩
              simp only [evalBlock, hts, hc0, hd0, hrc, htr, hck, C03.obind_ok, if_neg hr, Bool.false_eq_true, if_false, if_neg hv, if_true]
              cases s; simp [Stats.add, addAll]
            | false =>
              obtain ⟨br, hbr, lbr⟩ := unpack_ok (blk 4)
              obtain ⟨bs, hbs, lbs⟩ := unpack_ok (blk 5)
              obtain ⟨pr, hpr, lpr⟩ := unpack_ok (blk 6)
              obtain ⟨ps, hps, lps⟩ := unpack_ok (blk 7)
              have H : BlkOK q blk br bs pr ps (bpLen (blk 4)) m.traffic[j].v4 :=
                blkOK_of_checks (by omega) (checkCols_good _ _ _ _ _ _ hck) lbr lbs lpr lps
              obtain ⟨es, hes⟩ := scan_uniform (ts := m.ts[j]) H
                ((if q.ipVer = .v4 then m.traffic[j].v4 else bpLen (blk 4)) - (if q.ipVer = .v6 then m.traffic[j].v4 else 0))
                (if q.ipVer = .v6 then m.traffic[j].v4 else 0) true true
                (by have := H.v; split <;> split <;> omega)
                (.inl ⟨by split <;> omega, rfl, rfl⟩)
              refine ⟨st', es, ⟨m.cols[0].descs[j].len, acc, 1, 0, 0, 0⟩, hst', ⟨rfl, rfl, hproc, .inl rfl⟩, fun agg s => ?_⟩
              simp only [evalBlock, hts, hc0, hd0, hrc, htr, hck, hbr, hbs, hpr, hps, hes, C03.obind_ok, if_neg hr,
                Bool.false_eq_true, if_false, if_neg hv]
              cases s; simp [Stats.add]

/-! ## one day -/

theorem Stats.add_assoc (a b c : Stats) : (a.add b).add c = a.add (b.add c) := by
  cases a; cases b; cases c; simp [Stats.add, Nat.add_assoc]

/-- number of blocks whose timestamp lies in the queried range -/
def inRangeCount (q : Q) (ts : List Int) : Nat := (ts.filter fun t => !decide (t < q.first ∨ t > q.last)).length

theorem evalBlocks_spec (q : Q) (dec : Dec) (day : Day) {m : Meta} {n : Nat} (hm : Shape m n) :
    ∀ cnt j st, j + cnt = n → StInv day st →
      (¬ Small m ∧ ∀ agg s, evalBlocks q dec day m cnt j st agg s = .err "oom") ∨
      ∃ es ds, ds.dirs = 0 ∧ ds.workloads = 0 ∧ ds.processed = inRangeCount q (m.ts.drop j) ∧ ds.corrupted ≤ ds.processed ∧
        ∀ agg s, evalBlocks q dec day m cnt j st agg s = .ok (addAll agg es, s.add ds) := by
  intro cnt
  induction cnt with
  | zero =>
    intro j st hj _
    right
    refine ⟨[], Stats.zero, rfl, rfl, ?_, Nat.le_refl _, fun agg s => by simp only [evalBlocks, Stats.add_zero]; rfl⟩
    rw [List.drop_eq_nil_of_le (by rw [hm.ts]; omega)]; rfl
  | succ cnt ih =>
    intro j st hj hst
    have hjn : j < n := by omega
    have hjt : j < m.ts.length := by rw [hm.ts]; exact hjn
    rcases evalBlock_spec q dec day hm hjn hst with hoom | ⟨st', es, ds, hst', hf, he⟩
    · left; refine ⟨hoom.1, fun agg s => ?_⟩
      simp only [evalBlocks, hoom.2 agg s]; rfl
    · rcases ih (j + 1) st' (by omega) hst' with hoom | ⟨es2, ds2, hd, hw, hp, hc, he2⟩
      · left; refine ⟨hoom.1, fun agg s => ?_⟩
        simp only [evalBlocks, he agg s, C03.obind_ok]; exact hoom.2 _ _
      · right
        refine ⟨es ++ es2, ds.add ds2, ?_, ?_, ?_, ?_, fun agg s => ?_⟩
        · simp [Stats.add, hf.dirs, hd]
        · simp [Stats.add, hf.workloads, hw]
        · rw [List.drop_eq_getElem_cons hjt]
          simp only [Stats.add, inRangeCount, List.filter_cons, hf.processed, hp]
          by_cases hr : m.ts[j] < q.first ∨ m.ts[j] > q.last
          · simp [hr]
          · simp [hr]; omega
        · have h1 : ds.corrupted ≤ ds.processed := by
            rcases hf.corrupted with h | ⟨h, h', _⟩ <;> omega
          simp only [Stats.add]; omega
        · simp only [evalBlocks, he agg s, C03.obind_ok, he2, addAll_append, Stats.add_assoc]

/-- what one day does to any result map: it performs a list of insertions that depends on the day's
    files (and the query and decoder) only, and reports its own statistics -/
theorem processDay_spec (q : Q) (dec : Dec) (day : Day) (bytes : Bytes) (hb : day.bmeta = some bytes) :
    ((∃ m, C03.unmarshal bytes = .ok m ∧ ¬ Small m) ∧ ∀ agg, processDay q dec day agg = .err "oom") ∨
    ∃ es ds, ds.dirs = 1 ∧ ds.workloads = 0 ∧
      (∀ m, C03.unmarshal bytes = .ok m → ds.processed = inRangeCount q m.ts ∧ ds.corrupted ≤ ds.processed) ∧
      (∀ e, C03.unmarshal bytes = .err e → ds.processed = 0 ∧ ds.corrupted = 1 ∧ es = []) ∧
      ∀ agg, processDay q dec day agg = .ok (addAll agg es, ds) := by
  rcases C03.unmarshal_ok_or_err bytes with herr | ⟨m, hm⟩
  · right
    refine ⟨[], { Stats.zero with dirs := 1, corrupted := 1 }, rfl, rfl, ?_, ?_, fun agg => ?_⟩
    · intro m h; rw [herr] at h; cases h
    · intro _ _; exact ⟨rfl, rfl, rfl⟩
    · simp only [processDay, hb, herr]; rfl
  · obtain ⟨n, hs⟩ := unmarshal_shape hm
    have h0 : 0 < m.cols.length := by rw [hs.cols]; omega
    have hc0 := idx_get h0
    have hn : m.cols[0].descs.length = n := hs.descs _ (List.getElem_mem h0)
    rcases evalBlocks_spec q dec day hs n 0 (fun _ => FileSt.zero) (by omega)
        (fun c data _ => Nat.zero_le _) with hoom | ⟨es, ds, hd, hw, hp, hc, he⟩
    · left
      refine ⟨⟨m, hm, hoom.1⟩, fun agg => ?_⟩
      simp only [processDay, hb, hm, hc0, C03.obind_ok, hn]; exact hoom.2 _ _
    · right
      refine ⟨es, ({ Stats.zero with dirs := 1 } : Stats).add ds, ?_, ?_, ?_, ?_, fun agg => ?_⟩
      · simp [Stats.add, Stats.zero, hd]
      · simp [Stats.add, Stats.zero, hw]
      · intro m' hm'
        rw [hm] at hm'; cases hm'
        have hp' : ds.processed = inRangeCount q m.ts := by rw [hp, List.drop_zero]
        simp only [Stats.add, Stats.zero, Nat.zero_add]
        exact ⟨hp', hc⟩
      · intro e h; rw [hm] at h; cases h
      · simp only [processDay, hb, hm, hc0, C03.obind_ok, hn]; exact he _ _


end C06
