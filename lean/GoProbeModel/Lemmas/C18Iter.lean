import GoProbeModel.Lemmas.C18Assign

/-!
C18 — helper lemmas, part 5: the iterator. The resumable state machine `iterStep` / `iterLoop`
(the model of `Iter.Next`) on an unmodified map produces, bucket index by bucket index in the order
`start, …, n-1, 0, …, start-1`, the cells of the chain chosen for that index (`bucketOut`); under
the invariant that is exactly `visit`, hence a permutation of the represented list.
-/
set_option linter.unusedSectionVars false
set_option linter.unusedSimpArgs false
set_option linter.unusedVariables false

namespace C18
open Gen.HashMap
variable {κ : Type} [DecidableEq κ] [Inhabited κ]

/-- the entries `Next` produces from a list of cells under `checkBucket = check` -/
def chainOut (hash : κ → Nat) (m : HMap κ) (check : Int) (cs : Chain κ) : List (κ × Val) :=
  cs.filterMap (nextCell hash m check)

theorem nextCell_emptyCell (hash : κ → Nat) (m : HMap κ) (check : Int) :
    nextCell hash m check (emptyCell : Cell κ) = none := by
  simp [nextCell, isEmpty]

theorem and7 (i : Nat) (h : i < 8) : (i + 0) &&& (bucketCnt - 1) = i := by
  have := Nat.and_two_pow_sub_one_eq_mod i 3
  simp only [bucketCnt_eq, Nat.add_zero]
  have e : (8 : Nat) - 1 = 2 ^ 3 - 1 := by decide
  rw [e, this]; exact Nat.mod_eq_of_lt h

/-- the cell `Next` looks at for index `i` of the current block, in terms of the rest of the chain -/
theorem block_cell (rest : Chain κ) (i : Nat) (h : i < 8) :
    ((rest.take bucketCnt).getD i emptyCell = rest.getD i emptyCell) := by
  simp only [List.getD_eq_getElem?_getD, bucketCnt_eq, List.getElem?_take, h, if_true]

theorem chainOut_drop (hash : κ → Nat) (m : HMap κ) (check : Int) (rest : Chain κ) (i : Nat) :
    chainOut hash m check (rest.drop i) =
      (match nextCell hash m check (rest.getD i emptyCell) with
       | none => chainOut hash m check (rest.drop (i + 1))
       | some e => e :: chainOut hash m check (rest.drop (i + 1))) := by
  by_cases hi : i < rest.length
  · have : rest.drop i = rest[i] :: rest.drop (i + 1) := by simp
    rw [this]
    have hg : rest.getD i emptyCell = rest[i] := by simp [List.getD_eq_getElem?_getD, hi]
    rw [hg]
    unfold chainOut
    rw [List.filterMap_cons]
    cases nextCell hash m check rest[i] <;> rfl
  · have h1 : rest.drop i = [] := List.drop_eq_nil_of_le (by omega)
    have h2 : rest.drop (i + 1) = [] := List.drop_eq_nil_of_le (by omega)
    have hg : rest.getD i emptyCell = emptyCell := by simp [List.getD_eq_getElem?_getD, hi]
    rw [h1, h2, hg, nextCell_emptyCell]

/-- the scan of one block, as a statement about the entries still to come from the chain -/
theorem scanBlock_spec (hash : κ → Nat) (m : HMap κ) (check : Int) (rest : Chain κ) :
    ∀ (fuel i : Nat), i ≤ 8 → 8 - i ≤ fuel →
      (match scanBlock hash m 0 check (rest.take bucketCnt) fuel i with
       | some (j, k, v) => i ≤ j ∧ j < 8 ∧
          chainOut hash m check (rest.drop i) = (k, v) :: chainOut hash m check (rest.drop (j + 1))
       | none => chainOut hash m check (rest.drop i) = chainOut hash m check (rest.drop 8))
  | 0, i, h1, h2 => by
    have : i = 8 := by omega
    subst this
    simp [scanBlock]
  | fuel + 1, i, h1, h2 => by
    unfold scanBlock
    by_cases hi : i ≥ bucketCnt
    · simp only [hi, if_true]
      have : i = 8 := by simp at hi; omega
      subst this; rfl
    · simp only [hi, if_false]
      have hi' : i < 8 := by simpa using hi
      rw [and7 i hi', block_cell rest i hi', chainOut_drop hash m check rest i]
      cases hc : nextCell hash m check (rest.getD i emptyCell) with
      | none =>
        simp only
        have ih := scanBlock_spec hash m check rest fuel (i + 1) (by omega) (by omega)
        cases hs : scanBlock hash m 0 check (rest.take bucketCnt) fuel (i + 1) with
        | none => rw [hs] at ih; exact ih
        | some r =>
          obtain ⟨j, k, v⟩ := r
          rw [hs] at ih
          simp only at ih ⊢
          exact ⟨by omega, ih.2.1, ih.2.2⟩
      | some e =>
        obtain ⟨k, v⟩ := e
        simp only
        exact ⟨Nat.le_refl _, hi', trivial⟩

/-- everything `Next` produces for bucket index `b` -/
def bucketOut (hash : κ → Nat) (m : HMap κ) (b : Nat) : List (κ × Val) :=
  chainOut hash m (chooseBucket m m.buckets.size b).2 (chooseBucket m m.buckets.size b).1

/-- a state of the iterator over `m` with the bucket indices `todo` still to be entered -/
structure IterOK (m : HMap κ) (it : Iter κ) (todo : List Nat) : Prop where
  active : it.active = true
  snap : it.snapLen = m.buckets.size
  off : it.offset = 0
  i_le : it.i ≤ 8
  start_lt : it.startBucket < m.buckets.size
  pos : if it.wrapped then it.bucket ≤ it.startBucket
        else (it.startBucket ≤ it.bucket ∧ it.bucket < m.buckets.size)
  todo_eq : todo = if it.wrapped then List.range' it.bucket (it.startBucket - it.bucket)
                   else List.range' it.bucket (m.buckets.size - it.bucket) ++ List.range' 0 it.startBucket

/-- entries still to come from the bucket the iterator is in -/
def curOut (hash : κ → Nat) (m : HMap κ) (it : Iter κ) : List (κ × Val) :=
  match it.bptr with
  | none => []
  | some rest => chainOut hash m it.checkBucket (rest.drop it.i)

def cellBound (m : HMap κ) : Nat := 2 * (totalCells m.buckets + totalCells m.old) + 10

/-- an upper bound for the number of rounds still needed -/
def roundsLeft (m : HMap κ) (it : Iter κ) (todo : List Nat) : Nat :=
  (match it.bptr with | none => 0 | some rest => 2 * rest.length + 9 - it.i) + todo.length * cellBound m + 1

theorem length_le_sum {l : List (List α)} {c : List α} (h : c ∈ l) : c.length ≤ (l.map List.length).sum := by
  induction l with
  | nil => simp at h
  | cons x xs ih =>
    simp only [List.map_cons, List.sum_cons]
    rcases List.mem_cons.mp h with rfl | h
    · omega
    · have := ih h; omega

theorem getD_length_le (a : Array (Chain κ)) (i : Nat) : (a.getD i []).length ≤ totalCells a := by
  unfold totalCells
  by_cases hi : i < a.size
  · have : a.getD i [] = a[i] := by simp [Array.getD_eq_getD_getElem?, hi]
    rw [this]
    exact length_le_sum (by simp)
  · have : a.getD i [] = [] := by simp [Array.getD_eq_getD_getElem?, hi]
    rw [this]; simp

theorem choose_len (m : HMap κ) (b : Nat) : 2 * (chooseBucket m m.buckets.size b).1.length + 10 ≤ cellBound m := by
  unfold chooseBucket cellBound
  have h1 := getD_length_le m.buckets b
  have h2 := getD_length_le m.old (b &&& oldBucketMask m)
  split
  · simp only
    split <;> simp only <;> omega
  · simp only; omega

/-- what `iterLoop` does with the result of one round -/
def iterCont (hash : κ → Nat) (m : HMap κ) (fuel : Nat) (acc : List (κ × Val)) : StepR κ → List (κ × Val)
  | .done => acc.reverse
  | .yield k v it => iterLoop hash m fuel it ((k, v) :: acc)
  | .more it => iterLoop hash m fuel it acc

theorem iterLoop_succ (hash : κ → Nat) (m : HMap κ) (fuel : Nat) (it : Iter κ) (acc : List (κ × Val)) :
    iterLoop hash m (fuel + 1) it acc =
      if !it.active then acc.reverse else iterCont hash m fuel acc (iterStep hash m it) := by
  rw [iterLoop]
  split
  · rfl
  · cases iterStep hash m it <;> rfl

/-- the loop invariant of repeated `Next()`, as a statement about fuel `fuel` -/
def LoopSpec (hash : κ → Nat) (m : HMap κ) (fuel : Nat) : Prop :=
  ∀ (it : Iter κ) (todo : List Nat) (acc : List (κ × Val)), IterOK m it todo → roundsLeft m it todo ≤ fuel →
    iterLoop hash m fuel it acc = acc.reverse ++ curOut hash m it ++ todo.flatMap (bucketOut hash m)

theorem scan_continue (hash : κ → Nat) (m : HMap κ) (fuel : Nat) (IH : LoopSpec hash m fuel)
    (it : Iter κ) (rest : Chain κ) (todo : List Nat) (acc : List (κ × Val)) (ok : IterOK m it todo)
    (hb : it.bptr = some rest) (hr : roundsLeft m it todo ≤ fuel + 1) :
    iterCont hash m fuel acc (iterScan hash m it rest) =
      acc.reverse ++ chainOut hash m it.checkBucket (rest.drop it.i) ++ todo.flatMap (bucketOut hash m) := by
  have spec := scanBlock_spec hash m it.checkBucket rest 8 it.i ok.i_le (by omega)
  unfold iterScan
  have e0 : scanBlock hash m it.offset it.checkBucket (rest.take bucketCnt) bucketCnt it.i
      = scanBlock hash m 0 it.checkBucket (rest.take bucketCnt) bucketCnt it.i := by rw [ok.off]
  rw [e0]
  simp only [bucketCnt_eq] at spec ⊢
  unfold roundsLeft at hr
  rw [hb] at hr
  simp only at hr
  cases hs : scanBlock hash m 0 it.checkBucket (rest.take 8) 8 it.i with
  | some r =>
    obtain ⟨j, k, v⟩ := r
    rw [hs] at spec
    simp only at spec ⊢
    obtain ⟨s1, s2, s3⟩ := spec
    have ok' : IterOK m { it with i := j + 1 } todo :=
      { active := ok.active, snap := ok.snap, off := ok.off, i_le := by show j + 1 ≤ 8; omega, start_lt := ok.start_lt, pos := ok.pos, todo_eq := ok.todo_eq }
    have := IH { it with i := j + 1 } todo ((k, v) :: acc) ok' (by
      unfold roundsLeft; simp only [hb]; omega)
    simp only [iterCont]
    rw [this, s3]
    simp [curOut, hb]
  | none =>
    rw [hs] at spec
    simp only at spec ⊢
    simp only [iterCont]
    by_cases he : (rest.drop 8).isEmpty = true
    · simp only [he, if_true]
      have ok' : IterOK m { it with bptr := none, i := 0 } todo :=
        { active := ok.active, snap := ok.snap, off := ok.off, i_le := by show 0 ≤ 8; omega, start_lt := ok.start_lt, pos := ok.pos, todo_eq := ok.todo_eq }
      have := IH { it with bptr := none, i := 0 } todo acc ok' (by unfold roundsLeft; simp only; have := ok.i_le; omega)
      rw [this, spec]
      have : rest.drop 8 = [] := by simpa using he
      simp [curOut, this, chainOut]
    · simp only [he, Bool.false_eq_true, if_false]
      have hlen : 8 < rest.length := by
        have : rest.drop 8 ≠ [] := by simpa using he
        rcases Nat.lt_or_ge 8 rest.length with h | h
        · exact h
        · exact absurd (List.drop_eq_nil_of_le h) this
      have ok' : IterOK m { it with bptr := some (rest.drop 8), i := 0 } todo :=
        { active := ok.active, snap := ok.snap, off := ok.off, i_le := by show 0 ≤ 8; omega, start_lt := ok.start_lt, pos := ok.pos, todo_eq := ok.todo_eq }
      have := IH { it with bptr := some (rest.drop 8), i := 0 } todo acc ok' (by
        unfold roundsLeft; simp only [List.length_drop]; have := ok.i_le; omega)
      rw [this, spec]
      simp [curOut]

theorem range'_cons (s n : Nat) (h : 0 < n) : List.range' s n = s :: List.range' (s + 1) (n - 1) := by
  obtain ⟨k, rfl⟩ : ∃ k, n = k + 1 := ⟨n - 1, by omega⟩
  rw [List.range'_succ]; simp

/-- entering bucket index `b` from a state between two buckets -/
theorem enter_bucket (hash : κ → Nat) (m : HMap κ) (fuel : Nat) (IH : LoopSpec hash m fuel)
    (it2 : Iter κ) (todo' : List Nat) (acc : List (κ × Val)) (b : Nat) (ok2 : IterOK m it2 todo')
    (hr : (todo'.length + 1) * cellBound m + 1 ≤ fuel + 1) :
    iterCont hash m fuel acc
      (iterScan hash m { it2 with i := 0, checkBucket := (chooseBucket m m.buckets.size b).2,
                                  bptr := some (chooseBucket m m.buckets.size b).1 } (chooseBucket m m.buckets.size b).1)
      = acc.reverse ++ (bucketOut hash m b ++ todo'.flatMap (bucketOut hash m)) := by
  have ok3 : IterOK m { it2 with i := 0, checkBucket := (chooseBucket m m.buckets.size b).2,
                                  bptr := some (chooseBucket m m.buckets.size b).1 } todo' :=
    { active := ok2.active, snap := ok2.snap, off := ok2.off, i_le := by show 0 ≤ 8; omega,
      start_lt := ok2.start_lt, pos := ok2.pos, todo_eq := ok2.todo_eq }
  have hlen := choose_len m b
  rw [scan_continue hash m fuel IH _ _ todo' acc ok3 rfl (by
    unfold roundsLeft
    simp only [Nat.succ_mul] at hr ⊢
    omega)]
  simp only [List.drop_zero, bucketOut, List.append_assoc]

theorem loopSpec (hash : κ → Nat) (m : HMap κ) : ∀ fuel, LoopSpec hash m fuel
  | 0 => fun it todo acc ok hr => by unfold roundsLeft at hr; omega
  | fuel + 1 => fun it todo acc ok hr => by
    have IH := loopSpec hash m fuel
    rw [iterLoop_succ]
    simp only [ok.active, Bool.not_true, Bool.false_eq_true, if_false]
    unfold iterStep
    obtain ⟨active, snapLen, start, off, wrapped, i, bucket, check, bptr⟩ := it
    cases bptr with
    | some rest =>
      simp only
      rw [scan_continue hash m fuel IH _ rest todo acc ok rfl hr]
      simp [curOut]
    | none =>
      have hsnap : snapLen = m.buckets.size := ok.snap
      have hpos := ok.pos
      have hst : start < m.buckets.size := ok.start_lt
      have htd := ok.todo_eq
      have hact : active = true := ok.active
      have hoff : off = 0 := ok.off
      have hi : i ≤ 8 := ok.i_le
      subst hsnap hact hoff
      simp only at hpos htd ⊢
      simp only [curOut, List.append_nil]
      unfold roundsLeft at hr
      simp only [Nat.zero_add] at hr
      by_cases hdone : bucket = start ∧ wrapped = true
      · rw [if_pos hdone]
        rw [hdone.2, hdone.1] at htd
        simp at htd
        simp [iterCont, htd]
      · rw [if_neg hdone]
        by_cases hw : wrapped = true
        · subst hw
          simp only [if_true] at hpos htd
          have hlt : bucket < start := by
            rcases Nat.lt_or_ge bucket start with h | h
            · exact h
            · exact absurd ⟨by omega, rfl⟩ hdone
          rw [if_neg (by omega)]
          have h1 := range'_cons bucket (start - bucket) (by omega)
          rw [h1] at htd
          subst htd
          rw [List.flatMap_cons]
          refine enter_bucket hash m fuel IH _ _ acc bucket ?_ (by simpa using hr)
          exact { active := rfl, snap := rfl, off := rfl, i_le := hi, start_lt := hst,
                  pos := by simp only [if_true]; omega,
                  todo_eq := by simp only [if_true]; rw [Nat.sub_sub] }
        · have hw' : wrapped = false := by simpa using hw
          subst hw'
          simp only [Bool.false_eq_true, if_false] at hpos htd
          have h1 := range'_cons bucket (m.buckets.size - bucket) (by omega)
          rw [h1, List.cons_append] at htd
          subst htd
          rw [List.flatMap_cons]
          by_cases hlast : bucket + 1 = m.buckets.size
          · rw [if_pos hlast]
            refine enter_bucket hash m fuel IH _ _ acc bucket ?_ (by simpa using hr)
            have : m.buckets.size - bucket - 1 = 0 := by omega
            exact { active := rfl, snap := rfl, off := rfl, i_le := hi, start_lt := hst,
                    pos := by simp, todo_eq := by simp [this] }
          · rw [if_neg hlast]
            refine enter_bucket hash m fuel IH _ _ acc bucket ?_ (by simpa using hr)
            exact { active := rfl, snap := rfl, off := rfl, i_le := hi, start_lt := hst,
                    pos := by simp only [Bool.false_eq_true, if_false]; omega,
                    todo_eq := by simp only [Bool.false_eq_true, if_false]; rw [Nat.sub_sub] }

/-- the bucket order of an iteration: from the start bucket to the end, then from 0 -/
def iterOrder (m : HMap κ) : List Nat :=
  List.range' (1 &&& bucketMask m) (m.buckets.size - (1 &&& bucketMask m)) ++ List.range' 0 (1 &&& bucketMask m)

/-- repeated `Next()` on an unmodified non-empty map lists the buckets in iteration order -/
theorem iterate_eq (hash : κ → Nat) (m : HMap κ) (hc : m.count ≠ 0) (hn : 0 < m.buckets.size) :
    iterate hash m = (iterOrder m).flatMap (bucketOut hash m) := by
  unfold iterate iterInit
  simp only [hc, if_false]
  have hstart : 1 &&& bucketMask m < m.buckets.size := and_mask_lt 1 _ hn
  have ok : IterOK m { active := true, snapLen := m.buckets.size, startBucket := 1 &&& bucketMask m,
                       bucket := 1 &&& bucketMask m, offset := (1 >>> (64 - bucketCntBits)) % 256 } (iterOrder m) :=
    { active := rfl, snap := rfl, off := (by show (1 >>> (64 - bucketCntBits)) % 256 = 0; decide), i_le := by show 0 ≤ 8; omega,
      start_lt := hstart, pos := (by simp only [Bool.false_eq_true, if_false]; exact ⟨Nat.le_refl _, hstart⟩),
      todo_eq := by simp [iterOrder] }
  have hlen : (iterOrder m).length = m.buckets.size := by
    simp [iterOrder]; omega
  have := loopSpec hash m (iterFuel m) _ (iterOrder m) [] ok (by
    unfold roundsLeft iterFuel cellBound
    simp only [hlen]; omega)
  rw [this]
  simp [curOut]

/-- on a well-formed chain `Next` produces the filled cells that pass the `checkBucket` filter -/
theorem chainOut_good {hash : κ → Nat} {m : HMap κ} {mask i : Nat} {c : Chain κ} {fs : List (Cell κ)} {r : Nat}
    (g : GoodAs hash mask i c fs r) (check : Int) :
    chainOut hash m check c =
      (fs.filter fun x => !(decide (check ≠ noBucket) && !m.sameSize &&
          decide (((hash x.key &&& bucketMask m : Nat) : Int) ≠ check))).map kv := by
  rw [g.eq]
  unfold chainOut
  rw [List.filterMap_append]
  have h2 : (List.replicate r (emptyCell : Cell κ)).filterMap (nextCell hash m check) = [] := by
    rw [List.filterMap_eq_nil_iff]
    intro a ha
    rw [List.mem_replicate] at ha
    rw [ha.2]; exact nextCell_emptyCell hash m check
  rw [h2, List.append_nil]
  have htops := g.tops
  clear g
  induction fs with
  | nil => rfl
  | cons x xs ih =>
    have hx := htops x (by simp)
    have hge := topHash_ge (hash x.key)
    have ih' := ih (fun y hy => htops y (by simp [hy]))
    rw [List.filterMap_cons, List.filter_cons, ih']
    have h1 : ¬ (isEmpty x.top = true ∨ x.top = evacuatedEmpty) := by
      simp [isEmpty]; omega
    have h3 : x.top ≠ evacuatedX ∧ x.top ≠ evacuatedY := by simp; omega
    have hp : ((decide (check ≠ noBucket) && !m.sameSize &&
          decide (((hash x.key &&& bucketMask m : Nat) : Int) ≠ check)) = true) ↔
        (check ≠ noBucket ∧ (!m.sameSize) = true ∧ ((hash x.key &&& bucketMask m : Nat) : Int) ≠ check) := by
      simp only [Bool.and_eq_true, decide_eq_true_eq, and_assoc]
    unfold nextCell
    rw [if_neg h1]
    by_cases hpx : (decide (check ≠ noBucket) && !m.sameSize &&
          decide (((hash x.key &&& bucketMask m : Nat) : Int) ≠ check)) = true
    · rw [if_pos (hp.mp hpx), hpx]; rfl
    · rw [if_neg (fun h => hpx (hp.mpr h)), if_pos h3]
      have : (decide (check ≠ noBucket) && !m.sameSize &&
          decide (((hash x.key &&& bucketMask m : Nat) : Int) ≠ check)) = false := by simpa using hpx
      rw [this]; rfl

/-- under the invariant, what `Next` produces for a bucket index is the list the abstraction
    function assigns to it -/
theorem Inv.bucketOut_eq {hash : κ → Nat} {m : HMap κ} (inv : Inv hash m) {b : Nat} (hb : b < m.buckets.size) :
    bucketOut hash m b = visit hash m b := by
  unfold bucketOut chooseBucket visit
  by_cases hg : m.growing = true
  · have gi := inv.grow hg
    simp only [hg, true_and, if_true]
    by_cases hev : evacuated (m.old.getD (b &&& oldBucketMask m) []) = true
    · simp only [hev, Bool.not_true, Bool.false_eq_true, if_false, if_true]
      obtain ⟨fs, r, g⟩ := inv.good b hb
      rw [chainOut_good g, g.cellsOf]
      congr 1
      rw [List.filter_eq_self]
      intro x _
      simp
    · have hev' : evacuated (m.old.getD (b &&& oldBucketMask m) []) = false := by simpa using hev
      simp only [hev', Bool.not_false, if_true, Bool.false_eq_true, if_false]
      obtain ⟨⟨fs, r, g⟩, -, -⟩ := gi.live _ (gi.old_idx_lt b) hev'
      rw [chainOut_good g, g.cellsOf, List.filter_map]
      congr 1
      apply List.filter_congr
      intro x _
      have hne : ((b : Nat) : Int) ≠ noBucket := by simp only [noBucket_eq]; omega
      simp only [Function.comp, kv, hne, ne_eq, not_false_eq_true, decide_true, Bool.true_and]
      cases m.sameSize
      · simp only [Bool.not_false, Bool.true_and, Bool.false_or]
        by_cases e : hash x.key &&& bucketMask m = b
        · simp [e]
        · have : ¬ ((hash x.key &&& bucketMask m : Nat) : Int) = (b : Int) := by omega
          simp [e, this]
      · simp
  · simp only [hg, false_and, if_false, Bool.false_eq_true]
    obtain ⟨fs, r, g⟩ := inv.good b hb
    rw [chainOut_good g, g.cellsOf]
    congr 1
    rw [List.filter_eq_self]
    intro x _
    simp

theorem iterOrder_perm (m : HMap κ) (hn : 0 < m.buckets.size) : (iterOrder m).Perm (List.range m.buckets.size) := by
  have hstart : 1 &&& bucketMask m < m.buckets.size := and_mask_lt 1 _ hn
  unfold iterOrder
  refine List.perm_append_comm.trans ?_
  have := @List.range'_append 0 (1 &&& bucketMask m) (m.buckets.size - (1 &&& bucketMask m)) 1
  simp only [Nat.zero_add, Nat.one_mul] at this
  rw [this, List.range_eq_range']
  have e : (1 &&& bucketMask m) + (m.buckets.size - (1 &&& bucketMask m)) = m.buckets.size := by omega
  rw [e]

/-- iteration produces a permutation of the represented list -/
theorem Inv.iterate_perm {hash : κ → Nat} {m : HMap κ} (inv : Inv hash m) :
    (iterate hash m).Perm (entries hash m) := by
  by_cases hc : m.count = 0
  · have he : entries hash m = [] := by
      have := inv.cnt; rw [hc] at this; exact List.length_eq_zero_iff.mp this.symm
    have : iterate hash m = [] := by
      unfold iterate iterInit
      simp only [hc, if_true]
      unfold iterLoop
      split <;> rfl
    rw [he, this]
  · have hn : 0 < m.buckets.size := by
      rcases Nat.eq_zero_or_pos m.buckets.size with h | h
      · exfalso; apply hc; rw [inv.cnt, entries_nil_of_size h]; rfl
      · exact h
    rw [iterate_eq hash m hc hn]
    have h1 : (iterOrder m).flatMap (bucketOut hash m) = (iterOrder m).flatMap (visit hash m) := by
      apply flatMap_congr'
      intro b hb
      have : b ∈ List.range m.buckets.size := (iterOrder_perm m hn).mem_iff.mp hb
      exact inv.bucketOut_eq (List.mem_range.mp this)
    rw [h1]
    exact (iterOrder_perm m hn).flatMap_right _

/-- `Set` / `SetOrUpdate` as functions on the abstract map -/
theorem assign_get {hash : κ → Nat} {m : HMap κ} (inv : Inv hash m) (k : κ) (upd : Val → Val) (ins : Val) (k' : κ) :
    get hash (assign hash m k upd ins) k' =
      if k' = k then some (match get hash m k with | some w => upd w | none => ins) else get hash m k' := by
  have s := assign_post inv k upd ins
  apply option_ext
  intro v
  rw [s.inv.get_iff, s.mem]
  by_cases e : k' = k
  · subst e
    simp only [ne_eq, not_true_eq_false, false_and, true_and, false_or, if_true, Option.some.injEq]
    exact eq_comm
  · simp only [ne_eq, e, not_false_eq_true, true_and, false_and, or_false, if_false]
    rw [inv.get_iff]

theorem find_pair_iff {l : List (κ × Val)} (nd : (l.map (·.1)).Nodup) (k : κ) (v : Val) :
    (l.find? (fun e => decide (e.1 = k))).map (·.2) = some v ↔ (k, v) ∈ l := by
  induction l with
  | nil => simp
  | cons x xs ih =>
    rw [List.map_cons, List.nodup_cons] at nd
    rw [List.find?_cons]
    by_cases hk : x.1 = k
    · simp only [hk, decide_true, Option.map_some, Option.some.injEq, List.mem_cons]
      constructor
      · intro h; left; rw [← hk, ← h]
      · rintro (h | h)
        · rw [← h]
        · exfalso; apply nd.1; rw [hk]; exact List.mem_map.mpr ⟨_, h, rfl⟩
    · simp only [hk, decide_false, List.mem_cons]
      rw [ih nd.2]
      constructor
      · intro h; right; exact h
      · rintro (h | h)
        · exfalso; apply hk; rw [← h]
        · exact h

/-- folding `SetOrUpdate` over a list with distinct keys -/
theorem fold_add {hash : κ → Nat} : ∀ (l : List (κ × Val)) (d : HMap κ), Inv hash d → (l.map (·.1)).Nodup →
    Inv hash (l.foldl (fun d e => setOrUpdate hash d e.1 e.2) d) ∧
    ∀ k, get hash (l.foldl (fun d e => setOrUpdate hash d e.1 e.2) d) k =
      match (l.find? (fun e => decide (e.1 = k))).map (·.2) with
      | none => get hash d k
      | some v => some (match get hash d k with | some w => w.add v | none => v)
  | [], d, inv, _ => ⟨inv, fun k => rfl⟩
  | x :: xs, d, inv, nd => by
    rw [List.map_cons, List.nodup_cons] at nd
    have s := assign_post inv x.1 (·.add x.2) x.2
    obtain ⟨i1, i2⟩ := fold_add xs (setOrUpdate hash d x.1 x.2) s.inv nd.2
    refine ⟨i1, fun k => ?_⟩
    rw [List.foldl_cons, i2 k, List.find?_cons]
    have hget := assign_get inv x.1 (·.add x.2) x.2 k
    by_cases hk : x.1 = k
    · subst hk
      have hnone : (xs.find? (fun e => decide (e.1 = x.1))).map (·.2) = none := by
        cases h : (xs.find? (fun e => decide (e.1 = x.1))).map (·.2) with
        | none => rfl
        | some v =>
          exfalso; apply nd.1
          exact List.mem_map.mpr ⟨_, (find_pair_iff nd.2 x.1 v).mp h, rfl⟩
      rw [hnone]
      simp only [decide_true, Option.map_some]
      unfold setOrUpdate
      rw [hget]; simp
    · have hk' : ¬ k = x.1 := fun e => hk e.symm
      simp only [hk, decide_false]
      unfold setOrUpdate
      rw [hget, if_neg hk']

/-- `Merge` of two distinct maps (each with its own hash function) -/
theorem merge_post {hd hs : κ → Nat} {d s : HMap κ} (invd : Inv hd d) (invs : Inv hs s) :
    Inv hd (merge hd hs d s) ∧ ∀ k, get hd (merge hd hs d s) k = AMap.merge (get hd d) (get hs s) k := by
  unfold merge
  by_cases hl : len s = 0
  · rw [if_pos hl]
    refine ⟨invd, fun k => ?_⟩
    have : get hs s k = none := by
      unfold get lookup; unfold len at hl; simp [hl]
    simp [AMap.merge, this]
  · rw [if_neg hl]
    have hperm := invs.iterate_perm
    have hnd : ((iterate hs s).map (·.1)).Nodup := (hperm.map _).nodup_iff.mpr invs.entries_nodup
    obtain ⟨i1, i2⟩ := fold_add (hash := hd) (iterate hs s) d invd hnd
    refine ⟨i1, fun k => ?_⟩
    rw [i2 k]
    have : (List.find? (fun e => decide (e.1 = k)) (iterate hs s)).map (·.2) = get hs s k := by
      apply option_ext
      intro v
      rw [find_pair_iff hnd, hperm.mem_iff, invs.get_iff]
    rw [this]
    unfold AMap.merge
    cases get hs s k <;> rfl

end C18
