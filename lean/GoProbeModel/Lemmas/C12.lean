import GoProbeModel.Model.C12
/-!
C12 — helper lemmas: algebra of summaries (`Sum`), sums over lists. No property theorem here.
-/
namespace C12
open Gen.ListMeta

/-! ## algebra of summaries -/

theorem Sum.ext_iff' {a b : Sum} : a = b ↔ a.v4 = b.v4 ∧ a.v6 = b.v6 ∧ a.drops = b.drops ∧
    a.br = b.br ∧ a.bs = b.bs ∧ a.pr = b.pr ∧ a.ps = b.ps := by
  cases a; cases b; simp

@[simp] theorem add_v4 (a b : Sum) : (a + b).v4 = a.v4 + b.v4 := rfl
@[simp] theorem add_v6 (a b : Sum) : (a + b).v6 = a.v6 + b.v6 := rfl
@[simp] theorem add_drops (a b : Sum) : (a + b).drops = a.drops + b.drops := rfl
@[simp] theorem add_br (a b : Sum) : (a + b).br = a.br + b.br := rfl
@[simp] theorem add_bs (a b : Sum) : (a + b).bs = a.bs + b.bs := rfl
@[simp] theorem add_pr (a b : Sum) : (a + b).pr = a.pr + b.pr := rfl
@[simp] theorem add_ps (a b : Sum) : (a + b).ps = a.ps + b.ps := rfl
@[simp] theorem zero_v4 : Sum.zero.v4 = 0 := rfl
@[simp] theorem zero_v6 : Sum.zero.v6 = 0 := rfl
@[simp] theorem zero_drops : Sum.zero.drops = 0 := rfl
@[simp] theorem zero_br : Sum.zero.br = 0 := rfl
@[simp] theorem zero_bs : Sum.zero.bs = 0 := rfl
@[simp] theorem zero_pr : Sum.zero.pr = 0 := rfl
@[simp] theorem zero_ps : Sum.zero.ps = 0 := rfl

/-- componentwise order -/
def Sum.le (a b : Sum) : Prop := a.v4 ≤ b.v4 ∧ a.v6 ≤ b.v6 ∧ a.drops ≤ b.drops ∧
    a.br ≤ b.br ∧ a.bs ≤ b.bs ∧ a.pr ≤ b.pr ∧ a.ps ≤ b.ps

/-- every component fits a uint64 -/
def Sum.Below (s : Sum) : Prop := s.v4 < 2^64 ∧ s.v6 < 2^64 ∧ s.drops < 2^64 ∧
    s.br < 2^64 ∧ s.bs < 2^64 ∧ s.pr < 2^64 ∧ s.ps < 2^64

/-- componentwise uint64 subtraction -/
def Sum.wsub (a b : Sum) : Sum :=
  ⟨(a.v4 + 2^64 - b.v4) % 2^64, (a.v6 + 2^64 - b.v6) % 2^64, (a.drops + 2^64 - b.drops) % 2^64,
   (a.br + 2^64 - b.br) % 2^64, (a.bs + 2^64 - b.bs) % 2^64, (a.pr + 2^64 - b.pr) % 2^64,
   (a.ps + 2^64 - b.ps) % 2^64⟩

/-- linear arithmetic on summaries, component by component -/
macro "sum_arith" : tactic => `(tactic|
  (simp only [Sum.ext_iff', Sum.le, Sum.Below, Sum.wsub, add_v4, add_v6, add_drops, add_br, add_bs, add_pr, add_ps,
     zero_v4, zero_v6, zero_drops, zero_br, zero_bs, zero_pr, zero_ps] at *; omega))

theorem add_assoc' (a b c : Sum) : a + b + c = a + (b + c) := by sum_arith
theorem add_comm' (a b : Sum) : a + b = b + a := by sum_arith
theorem zero_add' (a : Sum) : Sum.zero + a = a := by sum_arith
theorem add_zero' (a : Sum) : a + Sum.zero = a := by sum_arith
theorem le_refl' (a : Sum) : a.le a := by sum_arith
theorem le_trans' {a b c : Sum} (h1 : a.le b) (h2 : b.le c) : a.le c := by sum_arith
theorem le_add_right' (a b : Sum) : a.le (a + b) := by sum_arith
theorem le_add_left' (a b : Sum) : b.le (a + b) := by sum_arith
theorem add_le_add' {a b c d : Sum} (h1 : a.le b) (h2 : c.le d) : (a + c).le (b + d) := by sum_arith
theorem below_of_le {a b : Sum} (h : a.le b) (hb : b.Below) : a.Below := by sum_arith
theorem wsub_add_cancel (x y : Sum) (h : (x + y).Below) : (x + y).wsub y = x := by sum_arith

/-! ## sums over lists -/

theorem sumMap_append {α} (f : α → Sum) (l m : List α) : sumMap f (l ++ m) = sumMap f l + sumMap f m := by
  induction l with
  | nil => simp [sumMap, zero_add']
  | cons x xs ih => simp only [List.cons_append, sumMap, ih, add_assoc']

theorem sumMap_filter_le {α} (f : α → Sum) (p : α → Bool) (l : List α) : (sumMap f (l.filter p)).le (sumMap f l) := by
  induction l with
  | nil => exact le_refl' _
  | cons x xs ih =>
    simp only [List.filter_cons]; split
    · simp only [sumMap]; exact add_le_add' (le_refl' _) ih
    · simp only [sumMap]; exact le_trans' ih (le_add_left' _ _)

/-- splitting a sum by a predicate -/
theorem sumMap_split {α} (f : α → Sum) (p : α → Bool) (l : List α) :
    sumMap f l = sumMap f (l.filter p) + sumMap f (l.filter (fun x => !p x)) := by
  induction l with
  | nil => simp [sumMap, zero_add']
  | cons x xs ih =>
    by_cases hp : p x = true
    · rw [List.filter_cons_of_pos hp, List.filter_cons_of_neg (by simp [hp])]
      simp only [sumMap]; rw [ih]; sum_arith
    · rw [List.filter_cons_of_neg hp, List.filter_cons_of_pos (by simp [hp])]
      simp only [sumMap]; rw [ih]; sum_arith

theorem sumMap_flatMap {α β} (f : β → Sum) (g : α → List β) (l : List α) :
    sumMap f (l.flatMap g) = sumMap (fun a => sumMap f (g a)) l := by
  induction l with
  | nil => rfl
  | cons x xs ih => simp only [List.flatMap_cons, sumMap_append, sumMap, ih]

theorem sumMap_congr {α} (f g : α → Sum) (l : List α) (h : ∀ x ∈ l, f x = g x) : sumMap f l = sumMap g l := by
  induction l with
  | nil => rfl
  | cons x xs ih =>
    simp only [sumMap]
    rw [h x (by simp), ih (fun y hy => h y (by simp [hy]))]

theorem sumMap_add {α} (f g : α → Sum) (l : List α) : sumMap (fun x => f x + g x) l = sumMap f l + sumMap g l := by
  induction l with
  | nil => simp [sumMap, zero_add']
  | cons x xs ih => simp only [sumMap, ih]; sum_arith

theorem sumMap_zero {α} (f : α → Sum) (l : List α) (h : ∀ x ∈ l, f x = Sum.zero) : sumMap f l = Sum.zero := by
  induction l with
  | nil => rfl
  | cons x xs ih =>
    simp only [sumMap]
    rw [h x (by simp), ih (fun y hy => h y (by simp [hy])), zero_add']

/-- dropping list elements that contribute nothing -/
theorem sumMap_filter_zero {α} (f : α → Sum) (p : α → Bool) (l : List α)
    (h : ∀ x ∈ l, p x = false → f x = Sum.zero) : sumMap f (l.filter p) = sumMap f l := by
  induction l with
  | nil => rfl
  | cons x xs ih =>
    have ih' := ih (fun y hy => h y (by simp [hy]))
    simp only [List.filter_cons]
    cases hp : p x
    · simp only [Bool.false_eq_true, if_false, sumMap, ih', h x (by simp) hp, zero_add']
    · simp only [if_true, sumMap, ih']

theorem sumMap_le_of_sublist_filter {α} (f g : α → Sum) (p : α → Bool) (l : List α) (h : ∀ x ∈ l, (f x).le (g x)) :
    (sumMap f (l.filter p)).le (sumMap g l) := by
  induction l with
  | nil => exact le_refl' _
  | cons x xs ih =>
    have ih' := ih (fun y hy => h y (by simp [hy]))
    have hx := h x (by simp)
    simp only [List.filter_cons]; split
    · simp only [sumMap]; exact add_le_add' hx ih'
    · simp only [sumMap]; exact le_trans' ih' (le_add_left' _ _)

/-! ## Stats vs. summaries -/

theorem toSum_sub (s t : Stats) : (s.sub t).toSum = s.toSum.wsub t.toSum := rfl

theorem toSum_add (s t : Stats) : (s.add t).toSum = s.toSum + t.toSum := by
  simp [Sum.ext_iff', Stats.add, Stats.toSum, Counters.add, TrafficMetadata_Add]

theorem toSum_zero : Stats.zero.toSum = Sum.zero := rfl

theorem blockCounts_fold (fl : List Flow) (c : Counters) :
    let r := fl.foldl (fun c f => c.add ⟨f.br, f.bs, f.pr, f.ps⟩) c
    r.br = c.br + (sumMap flowSum fl).br ∧ r.bs = c.bs + (sumMap flowSum fl).bs ∧
    r.pr = c.pr + (sumMap flowSum fl).pr ∧ r.ps = c.ps + (sumMap flowSum fl).ps := by
  induction fl generalizing c with
  | nil => simp [sumMap]
  | cons f fs ih =>
    have := ih (c.add ⟨f.br, f.bs, f.pr, f.ps⟩)
    simp only [List.foldl_cons, sumMap, add_br, add_bs, add_pr, add_ps] at this ⊢
    simp only [Counters.add, flowSum] at this ⊢
    omega

theorem blockTraffic_counts (fl : List Flow) :
    (fl.filter (·.v4)).length = (sumMap flowSum fl).v4 ∧
    (fl.filter (fun f => !f.v4)).length = (sumMap flowSum fl).v6 ∧ (sumMap flowSum fl).drops = 0 := by
  induction fl with
  | nil => simp [sumMap]
  | cons f fs ih =>
    simp only [List.filter_cons, sumMap, add_v4, add_v6, add_drops, flowSum]
    cases f.v4 <;> simp <;> omega

/-- what the reader collects for a block is the block's contribution to the spec sum -/
theorem toSum_blockStats (b : Block) : (blockStats b).toSum = blockSum b := by
  have h1 := blockCounts_fold b.flows ⟨0, 0, 0, 0⟩
  have h2 := blockTraffic_counts b.flows
  simp only [Sum.ext_iff', blockStats, Stats.toSum, blockCounts, blockTraffic, blockSum,
    add_v4, add_v6, add_drops, add_br, add_bs, add_pr, add_ps] at *
  omega

/-! ## `readMetadataAndEvaluate` -/

/-- subtracting the blocks `all[ind .. ind+n)` from an aggregate that contains them -/
theorem evalSub_spec (all : List Block) (n ind : Nat) (agg : Stats) (X : Sum)
    (hlen : ind + n ≤ all.length)
    (h : agg.toSum = X + sumMap blockSum ((all.drop ind).take n))
    (hb : agg.toSum.Below) :
    ∃ r, evalSub all n ind agg = some r ∧ r.toSum = X := by
  induction n generalizing ind agg with
  | zero => exact ⟨agg, rfl, by simpa [sumMap, add_zero'] using h⟩
  | succ n ih =>
    have hi : ind < all.length := by omega
    have hd : all.drop ind = all[ind] :: all.drop (ind + 1) := List.drop_eq_getElem_cons hi
    rw [hd, List.take_succ_cons] at h
    simp only [sumMap] at h
    simp only [evalSub, List.getElem?_eq_getElem hi]
    apply ih (ind + 1) (agg.sub (blockStats all[ind])) (by omega)
    · rw [toSum_sub, toSum_blockStats, h]
      have : X + (blockSum all[ind] + sumMap blockSum (List.take n (List.drop (ind + 1) all)))
          = (X + sumMap blockSum (List.take n (List.drop (ind + 1) all))) + blockSum all[ind] := by sum_arith
      rw [this]; apply wsub_add_cancel; rw [← this, ← h]; exact hb
    · rw [toSum_sub, toSum_blockStats, h]
      have : X + (blockSum all[ind] + sumMap blockSum (List.take n (List.drop (ind + 1) all)))
          = (X + sumMap blockSum (List.take n (List.drop (ind + 1) all))) + blockSum all[ind] := by sum_arith
      rw [this, wsub_add_cancel _ _ (by rw [← this, ← h]; exact hb)]
      rw [h, this] at hb
      exact below_of_le (le_add_right' _ _) hb

/-! ## block range helpers on sorted block lists -/

def Sorted (l : List Block) : Prop := l.Pairwise (fun a b => a.ts < b.ts)

theorem idxGE_le (ts : Int) (l : List Block) : idxGE ts l ≤ l.length := by
  induction l with
  | nil => simp [idxGE]
  | cons b bs ih => simp only [idxGE]; split <;> simp <;> omega

/-- `BlocksBefore` on a sorted list returns exactly the blocks with `Timestamp < ts` -/
theorem take_idxGE (ts : Int) (l : List Block) (hs : Sorted l) :
    l.take (idxGE ts l) = l.filter (fun b => decide (b.ts < ts)) := by
  induction l with
  | nil => simp [idxGE]
  | cons b bs ih =>
    have hs' := List.pairwise_cons.mp hs
    simp only [idxGE]
    split
    · rename_i h
      simp only [List.take_zero]
      symm; rw [List.filter_eq_nil_iff]
      intro x hx
      rcases List.mem_cons.mp hx with rfl | hx
      · simp; omega
      · have := hs'.1 x hx; simp; omega
    · rename_i h
      rw [List.take_succ_cons, ih hs'.2, List.filter_cons_of_pos (by simp; omega)]

theorem idxGT_some (ts : Int) (l : List Block) (hs : Sorted l) (i : Nat) (h : idxGT? ts l = some i) :
    i ≤ l.length ∧ l.drop i = l.filter (fun b => decide (ts < b.ts)) := by
  induction l generalizing i with
  | nil => simp [idxGT?] at h
  | cons b bs ih =>
    have hs' := List.pairwise_cons.mp hs
    simp only [idxGT?] at h
    split at h
    · rename_i hb
      cases h
      refine ⟨by simp, ?_⟩
      simp only [List.drop_zero]
      symm; rw [List.filter_eq_self]
      intro x hx
      rcases List.mem_cons.mp hx with rfl | hx
      · simp; omega
      · have := hs'.1 x hx; simp; omega
    · rename_i hb
      cases hj : idxGT? ts bs with
      | none => simp [hj] at h
      | some j =>
        simp [hj] at h; subst h
        have := ih hs'.2 j hj
        refine ⟨by simp; omega, ?_⟩
        rw [List.drop_succ_cons, this.2, List.filter_cons_of_neg (by simp; omega)]

theorem idxGT_none (ts : Int) (l : List Block) (h : idxGT? ts l = none) :
    l.filter (fun b => decide (ts < b.ts)) = [] := by
  induction l with
  | nil => rfl
  | cons b bs ih =>
    simp only [idxGT?] at h
    split at h
    · cases h
    · rename_i hb
      cases hj : idxGT? ts bs with
      | none => rw [List.filter_cons_of_neg (by simp; omega), ih hj]
      | some j => simp [hj] at h

/-! ## invariant of databases produced by the writer -/

theorem dirTimestamp_bounds (ts : Int) (h : 0 ≤ ts) :
    DirTimestamp ts ≤ ts ∧ ts < DirTimestamp ts + 86400 ∧ DirTimestamp ts % 86400 = 0 := by
  unfold DirTimestamp
  rw [Int.tdiv_eq_ediv_of_nonneg h]
  omega

def allBlocks (db : List Day) : List Block := db.flatMap (·.blocks)

structure DayOk (d : Day) : Prop where
  ne : d.blocks ≠ []
  nn : ∀ b ∈ d.blocks, 0 ≤ b.ts
  key : ∀ b ∈ d.blocks, DirTimestamp b.ts = d.day
  sorted : Sorted d.blocks
  total : d.total.toSum = sumMap blockSum d.blocks

theorem DayOk.lo {d : Day} (h : DayOk d) : ∀ b ∈ d.blocks, d.day ≤ b.ts := by
  intro b hb; have := dirTimestamp_bounds b.ts (h.nn b hb); rw [h.key b hb] at this; omega

theorem DayOk.hi {d : Day} (h : DayOk d) : ∀ b ∈ d.blocks, b.ts < d.day + 86400 := by
  intro b hb; have := dirTimestamp_bounds b.ts (h.nn b hb); rw [h.key b hb] at this; omega

theorem DayOk.aligned {d : Day} (h : DayOk d) : d.day % 86400 = 0 := by
  cases hb : d.blocks with
  | nil => exact absurd hb h.ne
  | cons b bs =>
    have hm : b ∈ d.blocks := by simp [hb]
    have := dirTimestamp_bounds b.ts (h.nn b hm); rw [h.key b hm] at this; omega

/-- days in listing order, every day well-formed -/
def Inv (db : List Day) : Prop := db.Pairwise (fun a b => a.day < b.day) ∧ ∀ d ∈ db, DayOk d

theorem inv_nil : Inv [] := ⟨List.Pairwise.nil, by simp⟩

theorem dayOk_writeDay_empty (b : Block) (hnn : 0 ≤ b.ts) : DayOk (writeDay (emptyDay (DirTimestamp b.ts)) b) where
  ne := by simp [writeDay, emptyDay]
  nn := by simp [writeDay, emptyDay, hnn]
  key := by simp [writeDay, emptyDay]
  sorted := by simp [writeDay, emptyDay, Sorted]
  total := by
    have := toSum_add Stats.zero (blockStats b)
    simp only [Stats.add, blockStats, toSum_zero, zero_add'] at this
    simp only [writeDay, emptyDay, List.nil_append, sumMap, add_zero']
    rw [← toSum_blockStats]; exact this

theorem dayOk_writeDay (d : Day) (b : Block) (hd : DayOk d) (hnn : 0 ≤ b.ts) (hk : DirTimestamp b.ts = d.day)
    (hnew : ∀ x ∈ d.blocks, x.ts < b.ts) : DayOk (writeDay d b) where
  ne := by simp [writeDay]
  nn := by
    intro x hx; simp only [writeDay, List.mem_append, List.mem_singleton] at hx
    rcases hx with hx | rfl
    · exact hd.nn x hx
    · exact hnn
  key := by
    intro x hx; simp only [writeDay, List.mem_append, List.mem_singleton] at hx
    rcases hx with hx | rfl
    · exact hd.key x hx
    · exact hk
  sorted := by
    simp only [writeDay, Sorted]
    rw [List.pairwise_append]
    refine ⟨hd.sorted, by simp, ?_⟩
    intro x hx y hy; simp at hy; subst hy; exact hnew x hx
  total := by
    have := toSum_add d.total (blockStats b)
    simp only [Stats.add, blockStats] at this
    simp only [writeDay, sumMap_append, sumMap, add_zero']
    rw [← toSum_blockStats, ← hd.total]; exact this

theorem writeDay_day (d : Day) (b : Block) : (writeDay d b).day = d.day := rfl

theorem mem_write_day (db : List Day) (b : Block) (d' : Day) (h : d' ∈ write db b) :
    d'.day = DirTimestamp b.ts ∨ ∃ d'' ∈ db, d''.day = d'.day := by
  induction db with
  | nil => simp [write] at h; subst h; left; rfl
  | cons d ds ih =>
    simp only [write] at h
    split at h
    · rename_i hk
      rcases List.mem_cons.mp h with rfl | h
      · left; rw [writeDay_day]; exact hk.symm
      · right; exact ⟨d', by simp [h], rfl⟩
    · split at h
      · rcases List.mem_cons.mp h with rfl | h
        · left; rfl
        · right; exact ⟨d', h, rfl⟩
      · rcases List.mem_cons.mp h with rfl | h
        · right; exact ⟨d', by simp, rfl⟩
        · rcases ih h with h | ⟨d'', hd'', he⟩
          · left; exact h
          · right; exact ⟨d'', by simp [hd''], he⟩

theorem or_rot {A B C : Prop} : (A ∨ B ∨ C) ↔ ((A ∨ C) ∨ B) := by
  constructor
  · intro h; rcases h with h | h | h <;> simp [h]
  · intro h; rcases h with (h | h) | h <;> simp [h]

theorem mem_allBlocks_write (db : List Day) (b x : Block) :
    x ∈ allBlocks (write db b) ↔ x ∈ allBlocks db ∨ x = b := by
  induction db with
  | nil => simp [write, allBlocks, writeDay, emptyDay]
  | cons d ds ih =>
    simp only [write]
    split
    · simp [allBlocks, writeDay]; exact or_rot
    · split
      · simp [allBlocks, writeDay, emptyDay]
        constructor
        · intro h; rcases h with h | h | h <;> simp [h]
        · intro h; rcases h with (h | h) | h <;> simp [h]
      · simp only [allBlocks, List.flatMap_cons, List.mem_append] at ih ⊢
        rw [ih, or_assoc]

/-- one `DBWriter.Write` preserves the invariant if the block is newer than the blocks already
    stored for its day -/
theorem inv_write (db : List Day) (b : Block) (hinv : Inv db) (hnn : 0 ≤ b.ts)
    (hnew : ∀ x ∈ allBlocks db, DirTimestamp x.ts = DirTimestamp b.ts → x.ts < b.ts) : Inv (write db b) := by
  induction db with
  | nil =>
    refine ⟨by simp [write], ?_⟩
    intro d hd; simp [write] at hd; subst hd; exact dayOk_writeDay_empty b hnn
  | cons d ds ih =>
    have hp := List.pairwise_cons.mp hinv.1
    have hdok : DayOk d := hinv.2 d (by simp)
    have hinv' : Inv ds := ⟨hp.2, fun x hx => hinv.2 x (by simp [hx])⟩
    simp only [write]
    split
    · rename_i hk
      refine ⟨?_, ?_⟩
      · rw [List.pairwise_cons]; exact ⟨fun x hx => by rw [writeDay_day]; exact hp.1 x hx, hp.2⟩
      · intro x hx
        rcases List.mem_cons.mp hx with rfl | hx
        · apply dayOk_writeDay d b hdok hnn hk
          intro y hy
          apply hnew y (by simp [allBlocks, hy])
          rw [hdok.key y hy, hk]
        · exact hinv.2 x (by simp [hx])
    · rename_i hk
      split
      · rename_i hlt
        refine ⟨?_, ?_⟩
        · rw [List.pairwise_cons]
          refine ⟨?_, hinv.1⟩
          intro x hx
          rw [writeDay_day]; simp only [emptyDay]
          rcases List.mem_cons.mp hx with rfl | hx
          · exact hlt
          · have := hp.1 x hx; omega
        · intro x hx
          rcases List.mem_cons.mp hx with rfl | hx
          · exact dayOk_writeDay_empty b hnn
          · exact hinv.2 x hx
      · rename_i hge
        have ih' := ih hinv' (fun x hx => hnew x (by simp only [allBlocks, List.flatMap_cons, List.mem_append]; right; exact hx))
        refine ⟨?_, ?_⟩
        · rw [List.pairwise_cons]
          refine ⟨?_, ih'.1⟩
          intro x hx
          rcases mem_write_day ds b x hx with h | ⟨y, hy, he⟩
          · rw [h]; omega
          · rw [← he]; exact hp.1 y hy
        · intro x hx
          rcases List.mem_cons.mp hx with rfl | hx
          · exact hdok
          · exact ih'.2 x hx

/-- a write adds exactly the written block to every filtered sum over the stored blocks -/
theorem sum_allBlocks_write (db : List Day) (b : Block) (f : Block → Sum) (p : Block → Bool) :
    sumMap f ((allBlocks (write db b)).filter p) = sumMap f ((allBlocks db).filter p) + sumMap f ([b].filter p) := by
  induction db with
  | nil => simp [write, allBlocks, writeDay, emptyDay, sumMap, zero_add']
  | cons d ds ih =>
    simp only [write]
    split
    · simp only [allBlocks, List.flatMap_cons, writeDay, List.filter_append, sumMap_append]; sum_arith
    · split
      · simp only [allBlocks, List.flatMap_cons, writeDay, emptyDay, List.nil_append, List.filter_append, sumMap_append]; sum_arith
      · simp only [allBlocks, List.flatMap_cons, List.filter_append, sumMap_append] at ih ⊢
        rw [ih]; sum_arith

/-- well-formed write history (Prop form of `histOk`) -/
def Hist (bs : List Block) : Prop :=
  (∀ b ∈ bs, 0 ≤ b.ts) ∧ bs.Pairwise (fun a b => DirTimestamp a.ts = DirTimestamp b.ts → a.ts < b.ts)

theorem hist_of_histOk (bs : List Block) (h : histOk bs = true) : Hist bs := by
  induction bs with
  | nil => exact ⟨by simp, List.Pairwise.nil⟩
  | cons b bs ih =>
    simp only [histOk, Bool.and_eq_true, decide_eq_true_eq, List.all_eq_true, Bool.or_eq_true, bne_iff_ne] at h
    obtain ⟨⟨h0, h1⟩, h2⟩ := h
    have ih' := ih h2
    refine ⟨?_, ?_⟩
    · intro x hx; rcases List.mem_cons.mp hx with rfl | hx
      · exact h0
      · exact ih'.1 x hx
    · rw [List.pairwise_cons]
      refine ⟨?_, ih'.2⟩
      intro x hx hd
      rcases h1 x hx with h | h
      · exfalso; apply h
        have hx0 := ih'.1 x hx
        unfold DirTimestamp at hd
        rw [Int.tdiv_eq_ediv_of_nonneg h0, Int.tdiv_eq_ediv_of_nonneg hx0] at hd
        unfold dayOf; omega
      · exact h

theorem inv_foldl_write (bs : List Block) (db : List Day) (hinv : Inv db) (hh : Hist bs)
    (hnew : ∀ x ∈ allBlocks db, ∀ b ∈ bs, DirTimestamp x.ts = DirTimestamp b.ts → x.ts < b.ts) :
    Inv (bs.foldl write db) := by
  induction bs generalizing db with
  | nil => exact hinv
  | cons b bs ih =>
    have hp := List.pairwise_cons.mp hh.2
    simp only [List.foldl_cons]
    apply ih (write db b)
    · exact inv_write db b hinv (hh.1 b (by simp)) (fun x hx => hnew x hx b (by simp))
    · exact ⟨fun x hx => hh.1 x (by simp [hx]), hp.2⟩
    · intro x hx c hc
      rcases (mem_allBlocks_write db b x).mp hx with hx | rfl
      · exact hnew x hx c (by simp [hc])
      · exact hp.1 c hc

/-- every database reachable by a well-formed write history satisfies the invariant -/
theorem inv_build (bs : List Block) (hh : Hist bs) : Inv (build bs) :=
  inv_foldl_write bs [] inv_nil hh (by simp [allBlocks])

theorem sum_foldl_write (bs : List Block) (db : List Day) (f : Block → Sum) (p : Block → Bool) :
    sumMap f ((allBlocks (bs.foldl write db)).filter p) = sumMap f ((allBlocks db).filter p) + sumMap f (bs.filter p) := by
  induction bs generalizing db with
  | nil => simp [sumMap, add_zero']
  | cons b bs ih =>
    simp only [List.foldl_cons]
    rw [ih, sum_allBlocks_write]
    have : b :: bs = [b] ++ bs := rfl
    rw [this, List.filter_append, sumMap_append]; sum_arith

/-- the stored blocks are the written blocks (as far as any filtered sum can tell) -/
theorem sum_build (bs : List Block) (f : Block → Sum) (p : Block → Bool) :
    sumMap f ((allBlocks (build bs)).filter p) = sumMap f (bs.filter p) := by
  unfold build; rw [sum_foldl_write]; simp [allBlocks, sumMap, zero_add']

/-! ## per-day pieces of the summary -/

/-- all blocks of a day -/
def S (d : Day) : Sum := sumMap blockSum d.blocks
/-- blocks of a day at or after `tfirst` -/
def G (tfirst : Int) (d : Day) : Sum := sumMap blockSum (d.blocks.filter (fun b => decide (tfirst ≤ b.ts)))
/-- blocks of a day after `tlast` -/
def A (tlast : Int) (d : Day) : Sum := sumMap blockSum (d.blocks.filter (fun b => decide (tlast < b.ts)))
/-- blocks of a day inside the range -/
def R (tfirst tlast : Int) (d : Day) : Sum := sumMap blockSum (d.blocks.filter (inRange tfirst tlast))

theorem G_le_S (tfirst : Int) (d : Day) : (G tfirst d).le (S d) := sumMap_filter_le _ _ _

theorem G_split (tfirst tlast : Int) (h : tfirst ≤ tlast) (d : Day) : G tfirst d = R tfirst tlast d + A tlast d := by
  unfold G R A
  rw [sumMap_split blockSum (fun b => decide (b.ts ≤ tlast)) (d.blocks.filter _), List.filter_filter, List.filter_filter]
  congr 2
  · apply List.filter_congr; intro b _; simp only [inRange]; exact Bool.and_comm _ _
  · apply List.filter_congr; intro b _
    by_cases h1 : b.ts ≤ tlast <;> by_cases h2 : tfirst ≤ b.ts <;> simp [h1, h2] <;> omega

theorem G_eq_S (tfirst : Int) (d : Day) (h : ∀ b ∈ d.blocks, tfirst ≤ b.ts) : G tfirst d = S d := by
  unfold G S; rw [List.filter_eq_self.mpr]; intro b hb; simp [h b hb]

theorem A_zero (tlast : Int) (d : Day) (h : ∀ b ∈ d.blocks, b.ts ≤ tlast) : A tlast d = Sum.zero := by
  unfold A; rw [List.filter_eq_nil_iff.mpr]; · rfl
  intro b hb; have := h b hb; simp; omega

theorem R_zero (tfirst tlast : Int) (d : Day) (h : ∀ b ∈ d.blocks, b.ts < tfirst ∨ tlast < b.ts) :
    R tfirst tlast d = Sum.zero := by
  unfold R; rw [List.filter_eq_nil_iff.mpr]; · rfl
  intro b hb; have := h b hb; simp [inRange]; omega

theorem sumMap_mem_le {α} (f : α → Sum) (l : List α) (x : α) (h : x ∈ l) : (f x).le (sumMap f l) := by
  induction l with
  | nil => cases h
  | cons y ys ih =>
    simp only [sumMap]
    rcases List.mem_cons.mp h with rfl | h
    · exact le_add_right' _ _
    · exact le_trans' (ih h) (le_add_left' _ _)

theorem sum_allBlocks (db : List Day) : sumMap blockSum (allBlocks db) = sumMap S db := by
  unfold allBlocks; rw [sumMap_flatMap]; rfl

theorem sum_allBlocks_filter (db : List Day) (tfirst tlast : Int) :
    sumMap blockSum ((allBlocks db).filter (inRange tfirst tlast)) = sumMap (R tfirst tlast) db := by
  unfold allBlocks; rw [List.filter_flatMap, sumMap_flatMap]; rfl

theorem sorted_head_le (l : List Block) (hs : Sorted l) (x : Block) (hx : l.head? = some x) : ∀ b ∈ l, x.ts ≤ b.ts := by
  cases l with
  | nil => cases hx
  | cons y ys =>
    simp at hx; subst hx
    intro b hb
    rcases List.mem_cons.mp hb with rfl | hb
    · exact Int.le_refl _
    · exact Int.le_of_lt ((List.pairwise_cons.mp hs).1 b hb)

theorem sorted_le_getLast (l : List Block) (hs : Sorted l) (x : Block) (hx : l.getLast? = some x) : ∀ b ∈ l, b.ts ≤ x.ts := by
  induction l with
  | nil => cases hx
  | cons y ys ih =>
    have hp := List.pairwise_cons.mp hs
    cases ys with
    | nil => simp at hx; subst hx; intro b hb; simp at hb; subst hb; exact Int.le_refl _
    | cons z zs =>
      rw [List.getLast?_cons_cons] at hx
      intro b hb
      rcases List.mem_cons.mp hb with rfl | hb
      · have hxm : x ∈ z :: zs := List.mem_of_getLast? hx
        exact Int.le_of_lt (hp.1 x hxm)
      · exact ih hp.2 hx b hb

theorem timeRange_ok (d : Day) (h : DayOk d) :
    ∃ lo hi, timeRange d = some (lo, hi) ∧ ∀ b ∈ d.blocks, lo ≤ b.ts ∧ b.ts ≤ hi := by
  unfold timeRange
  cases hh : d.blocks.head? with
  | none => rw [List.head?_eq_none_iff] at hh; exact absurd hh h.ne
  | some f =>
    cases hl : d.blocks.getLast? with
    | none => rw [List.getLast?_eq_none_iff] at hl; exact absurd hl h.ne
    | some l =>
      exact ⟨f.ts, l.ts, rfl, fun b hb => ⟨sorted_head_le _ h.sorted f hh b hb, sorted_le_getLast _ h.sorted l hl b hb⟩⟩

/-! ## the directory walk of `ReadMetadata` -/

/-- directories not skipped by the `dayTimestamp > tlast` test of the walk function -/
def procP (tlast : Int) (d : Day) : Bool := !decide (d.day > tlast)

def step (st : Stats × Option Day) (d : Day) : Stats × Option Day := (st.1.add d.total, some d)

theorem walk_succ (tfirst tlast : Int) (ds : List Day) (n : Nat) (st : Stats × Option Day) :
    walk tfirst tlast ds (n + 1) st = some ((ds.filter (procP tlast)).foldl step st) := by
  induction ds generalizing n st with
  | nil => rfl
  | cons d ds ih =>
    simp only [walk, visit]
    by_cases h : d.day > tlast
    · simp [h, procP, ih]
    · simp [h, procP, ih, step]

theorem foldl_step_fst (l : List Day) (st : Stats × Option Day) :
    (l.foldl step st).1.toSum = st.1.toSum + sumMap (fun d => d.total.toSum) l := by
  induction l generalizing st with
  | nil => simp [sumMap, add_zero']
  | cons d t ih => simp only [List.foldl_cons, ih, step, toSum_add, sumMap, add_assoc']

theorem foldl_step_snd (l : List Day) (st : Stats × Option Day) (d0 : Day) (h : st.2 = some d0) :
    (l.foldl step st).2 = (d0 :: l).getLast? := by
  induction l generalizing st d0 with
  | nil => simp [h]
  | cons d t ih =>
    simp only [List.foldl_cons]
    rw [ih (step st d) d rfl, List.getLast?_cons_cons]

theorem sumA_last (tlast : Int) (l : List Day) (dl : Day) (hl : l.getLast? = some dl)
    (hs : l.Pairwise (fun a b => a.day < b.day)) (hok : ∀ d ∈ l, DayOk d) (hle : ∀ d ∈ l, d.day ≤ tlast) :
    sumMap (A tlast) l = A tlast dl := by
  induction l with
  | nil => cases hl
  | cons d t ih =>
    cases t with
    | nil => simp at hl; subst hl; simp [sumMap, add_zero']
    | cons d' t' =>
      rw [List.getLast?_cons_cons] at hl
      have hp := List.pairwise_cons.mp hs
      have ih' := ih hl hp.2 (fun x hx => hok x (by simp [hx])) (fun x hx => hle x (by simp [hx]))
      have hd := hok d (by simp)
      have hd' := hok d' (by simp)
      have h1 := hd.aligned
      have h2 := hd'.aligned
      have h3 := hp.1 d' (by simp)
      have h4 := hle d' (by simp)
      have : A tlast d = Sum.zero := by
        apply A_zero; intro b hb; have := hd.hi b hb; omega
      rw [sumMap, this, zero_add', ih']

theorem S_split_first (tfirst : Int) (d : Day) (hs : Sorted d.blocks) :
    S d = G tfirst d + sumMap blockSum ((d.blocks.drop 0).take (idxGE tfirst d.blocks)) := by
  rw [List.drop_zero, take_idxGE tfirst d.blocks hs]
  unfold S G
  rw [sumMap_split blockSum (fun b => decide (b.ts < tfirst)) d.blocks, add_comm']
  congr 2
  apply List.filter_congr; intro b _
  by_cases h : b.ts < tfirst <;> simp [h] <;> omega

/-- the first visited directory: after the visit the aggregate holds exactly the blocks of that day
    at or after `tfirst` -/
theorem visit_first (tfirst tlast : Int) (d0 : Day) (hok : DayOk d0) (hns : ¬ d0.day > tlast)
    (hbelow : (S d0).Below) :
    ∃ a1, visit tfirst tlast 0 (Stats.zero, none) d0 = some (a1, some d0) ∧ a1.toSum = G tfirst d0 := by
  obtain ⟨lo, hi, htr, hbd⟩ := timeRange_ok d0 hok
  have hagg : (Stats.zero.add d0.total).toSum = S d0 := by
    rw [toSum_add, toSum_zero, zero_add', hok.total]; rfl
  unfold visit
  simp only [hns, if_false, htr, if_true]
  by_cases hge : tfirst ≥ lo
  · simp only [hge, if_true, blocksBefore]
    obtain ⟨r, hr, hrs⟩ := evalSub_spec d0.blocks (idxGE tfirst d0.blocks) 0 (Stats.zero.add d0.total) (G tfirst d0)
      (by have := idxGE_le tfirst d0.blocks; omega)
      (by rw [hagg]; exact S_split_first tfirst d0 hok.sorted)
      (by rw [hagg]; exact hbelow)
    exact ⟨r, by simp [hr], hrs⟩
  · simp only [hge, if_false]
    refine ⟨_, rfl, ?_⟩
    rw [hagg, G_eq_S]
    intro b hb; have := (hbd b hb).1; omega

/-- the last visited directory: the blocks after `tlast` are removed from an aggregate that
    contains them -/
theorem lastDay_spec (tlast : Int) (dl : Day) (hok : DayOk dl) (agg : Stats) (X : Sum)
    (h : agg.toSum = X + A tlast dl) (hb : agg.toSum.Below) :
    ∃ r, lastDay tlast agg dl = some r ∧ r.toSum = X := by
  obtain ⟨lo, hi, htr, hbd⟩ := timeRange_ok dl hok
  unfold lastDay
  simp only [htr]
  by_cases hle : tlast ≤ hi
  · simp only [hle, if_true, blocksAfter]
    cases hi' : idxGT? tlast dl.blocks with
    | some i =>
      obtain ⟨hil, hdrop⟩ := idxGT_some tlast dl.blocks hok.sorted i hi'
      simp only
      apply evalSub_spec dl.blocks (dl.blocks.length - i) i agg X (by omega) _ hb
      rw [h, List.take_of_length_le (by simp), hdrop]; rfl
    | none =>
      simp only
      apply evalSub_spec dl.blocks 0 0 agg X (by omega) _ hb
      rw [h]; unfold A; rw [idxGT_none tlast dl.blocks hi']; simp
  · simp only [hle, if_false]
    refine ⟨agg, rfl, ?_⟩
    rw [h, A_zero, add_zero']
    intro b hb'; have := (hbd b hb').2; omega

theorem selected_iff (tfirst tlast : Int) (d : Day) :
    selected tfirst tlast d = true ↔ tfirst < d.day + 86400 ∧ d.day < tlast + 300 := by
  unfold selected EpochDay DBWriteInterval
  rw [Bool.and_eq_true, decide_eq_true_iff, decide_eq_true_iff]

theorem procP_iff (tlast : Int) (d : Day) : procP tlast d = true ↔ d.day ≤ tlast := by
  unfold procP; rw [Bool.not_eq_true', decide_eq_false_iff_not]; omega

/-- days outside the walk's selection, and selected days starting after `tlast`, hold no block of
    the range -/
theorem R_zero_of_not_proc (tfirst tlast : Int) (d : Day) (hok : DayOk d)
    (h : ¬ (selected tfirst tlast d = true ∧ procP tlast d = true)) : R tfirst tlast d = Sum.zero := by
  apply R_zero
  intro b hb
  have hlo := hok.lo b hb
  have hhi := hok.hi b hb
  rw [selected_iff, procP_iff] at h
  omega

/-- **core of `list_eq_sum`** on any database satisfying the writer's invariant -/
theorem readMetadata_eq (db : List Day) (hinv : Inv db) (tfirst tlast : Int) (hfl : tfirst ≤ tlast)
    (hb : (sumMap blockSum (allBlocks db)).Below) :
    ∃ r, readMetadata tfirst tlast db = some r ∧
      r.toSum = sumMap blockSum ((allBlocks db).filter (inRange tfirst tlast)) := by
  rw [sum_allBlocks_filter]
  rw [sum_allBlocks] at hb
  -- only processed days contribute
  have hR : sumMap (R tfirst tlast) db =
      sumMap (R tfirst tlast) ((db.filter (selected tfirst tlast)).filter (procP tlast)) := by
    rw [List.filter_filter]
    symm; apply sumMap_filter_zero
    intro d hd hp
    apply R_zero_of_not_proc tfirst tlast d (hinv.2 d hd)
    intro hc; rw [hc.1, hc.2] at hp; cases hp
  have hsorted : (db.filter (selected tfirst tlast)).Pairwise (fun a b => a.day < b.day) := hinv.1.filter _
  have hmem : ∀ d ∈ db.filter (selected tfirst tlast), d ∈ db ∧ selected tfirst tlast d = true := by
    intro d hd; exact List.mem_filter.mp hd
  -- aggregate bound: sums of G over any filtered part of db
  have hbound : ∀ p : Day → Bool, (sumMap (G tfirst) (db.filter p)).Below := by
    intro p
    exact below_of_le (sumMap_le_of_sublist_filter (G tfirst) S p db (fun d _ => G_le_S tfirst d)) hb
  rw [hR]
  unfold readMetadata
  cases hsel : db.filter (selected tfirst tlast) with
  | nil => exact ⟨Stats.zero, by simp [walk], by simp [sumMap, toSum_zero]⟩
  | cons d0 rest =>
    rw [hsel] at hsorted hmem
    have hp := List.pairwise_cons.mp hsorted
    have hd0 := hmem d0 (by simp)
    have hok0 : DayOk d0 := hinv.2 d0 hd0.1
    by_cases hskip : d0.day > tlast
    · -- the first selected day already starts after tlast: nothing is visited
      have hrest : rest.filter (procP tlast) = [] := by
        rw [List.filter_eq_nil_iff]; intro d hd; have := hp.1 d hd; rw [procP_iff]; omega
      refine ⟨Stats.zero, ?_, ?_⟩
      · simp only [walk, visit, hskip, if_true, walk_succ, hrest, List.foldl_nil]
      · rw [List.filter_cons_of_neg (by rw [procP_iff]; omega), hrest]; rfl
    · -- first day
      have hS0 : (S d0).Below := below_of_le (sumMap_mem_le S db d0 hd0.1) hb
      obtain ⟨a1, hv, ha1⟩ := visit_first tfirst tlast d0 hok0 hskip hS0
      have hproc : (d0 :: rest).filter (procP tlast) = d0 :: rest.filter (procP tlast) :=
        List.filter_cons_of_pos (by rw [procP_iff]; omega)
      rw [hproc]
      -- remaining days
      have hw : walk tfirst tlast (d0 :: rest) 0 (Stats.zero, none) =
          some ((rest.filter (procP tlast)).foldl step (a1, some d0)) := by
        simp only [walk, hv, walk_succ]
      have hcur := foldl_step_snd (rest.filter (procP tlast)) (a1, some d0) d0 rfl
      have hagg := foldl_step_fst (rest.filter (procP tlast)) (a1, some d0)
      obtain ⟨dl, hdl⟩ : ∃ dl, (d0 :: rest.filter (procP tlast)).getLast? = some dl := by
        cases h : (d0 :: rest.filter (procP tlast)).getLast? with
        | none => simp at h
        | some dl => exact ⟨dl, rfl⟩
      rw [hdl] at hcur
      -- facts about processed days
      have hprocmem : ∀ d ∈ d0 :: rest.filter (procP tlast), d ∈ db ∧ selected tfirst tlast d = true ∧ d.day ≤ tlast := by
        intro d hd
        rcases List.mem_cons.mp hd with rfl | hd
        · exact ⟨hd0.1, hd0.2, by omega⟩
        · have h1 := List.mem_filter.mp hd
          have h2 := hmem d (by simp [h1.1])
          have h3 := (procP_iff tlast d).mp h1.2
          exact ⟨h2.1, h2.2, h3⟩
      have hprocsorted : (d0 :: rest.filter (procP tlast)).Pairwise (fun a b => a.day < b.day) := by
        rw [← hproc]; exact hsorted.filter _
      -- aggregate after the walk = Σ G over processed days
      have hsum : ((rest.filter (procP tlast)).foldl step (a1, some d0)).1.toSum =
          sumMap (G tfirst) (d0 :: rest.filter (procP tlast)) := by
        rw [hagg, ha1]; simp only [sumMap]; congr 1
        apply sumMap_congr
        intro d hd
        have hdm := hprocmem d (by simp [hd])
        have hok := hinv.2 d hdm.1
        rw [hok.total]; symm; apply G_eq_S
        intro b hb'
        have h1 := hok.lo b hb'
        have h2 := hp.1 d (List.mem_filter.mp hd).1
        have h3 := hok0.aligned
        have h4 := hok.aligned
        have h5 := (selected_iff tfirst tlast d0).mp hd0.2
        omega
      have hsplit : sumMap (G tfirst) (d0 :: rest.filter (procP tlast)) =
          sumMap (R tfirst tlast) (d0 :: rest.filter (procP tlast)) + A tlast dl := by
        rw [sumMap_congr _ _ _ (fun d _ => G_split tfirst tlast hfl d), sumMap_add,
          sumA_last tlast _ dl hdl hprocsorted (fun d hd => hinv.2 d (hprocmem d hd).1) (fun d hd => (hprocmem d hd).2.2)]
      have hdlmem := hprocmem dl (List.mem_of_getLast? hdl)
      have hbelow : ((rest.filter (procP tlast)).foldl step (a1, some d0)).1.toSum.Below := by
        rw [hsum, ← hproc, ← hsel, List.filter_filter]; exact hbound _
      obtain ⟨r, hr, hrs⟩ := lastDay_spec tlast dl (hinv.2 dl hdlmem.1)
        ((rest.filter (procP tlast)).foldl step (a1, some d0)).1
        (sumMap (R tfirst tlast) (d0 :: rest.filter (procP tlast))) (by rw [hsum, hsplit]) hbelow
      refine ⟨r, ?_, hrs⟩
      rw [hw]
      generalize hst : (rest.filter (procP tlast)).foldl step (a1, some d0) = st at hcur hr
      obtain ⟨ag, cu⟩ := st
      simp only at hcur hr
      subst hcur
      exact hr

/-! ## query totals -/

theorem totals_add (x y : Sum) : (x + y).totals = addT x.totals y.totals := rfl

theorem addT_assoc (a b c : Totals) : addT (addT a b) c = addT a (addT b c) := by
  simp only [addT, Prod.mk.injEq]; omega

theorem addT_zero (a : Totals) : addT a (0, 0, 0, 0) = a := by simp [addT]
theorem zero_addT (a : Totals) : addT (0, 0, 0, 0) a = a := by simp [addT]

theorem foldl_flows_totals (fl : List Flow) (a : Totals) :
    fl.foldl (fun a f => addT a (f.br, f.bs, f.pr, f.ps)) a = addT a (sumMap flowSum fl).totals := by
  induction fl generalizing a with
  | nil => simp [sumMap, Sum.totals, Sum.zero, addT]
  | cons f fs ih =>
    simp only [List.foldl_cons, ih, sumMap, totals_add, ← addT_assoc]; rfl

theorem blockTotals_eq (b : Block) : blockTotals b = (blockSum b).totals := by
  unfold blockTotals blockSum
  rw [foldl_flows_totals, totals_add]; rfl

theorem foldl_blocks_totals (c : Block → Prop) [DecidablePred c] (l : List Block) (a : Totals) :
    l.foldl (fun a b => if c b then a else addT a (blockTotals b)) a =
      addT a (sumMap blockSum (l.filter (fun b => !decide (c b)))).totals := by
  induction l generalizing a with
  | nil => simp [sumMap, Sum.totals, Sum.zero, addT]
  | cons b bs ih =>
    simp only [List.foldl_cons, ih]
    by_cases h : c b
    · simp [h]
    · simp [h, sumMap, totals_add, ← addT_assoc, blockTotals_eq]

theorem foldl_days_totals (c : Block → Prop) [DecidablePred c] (ds : List Day) (a : Totals) :
    ds.foldl (fun a d => d.blocks.foldl (fun a b => if c b then a else addT a (blockTotals b)) a) a =
      addT a (sumMap (fun d => sumMap blockSum (d.blocks.filter (fun b => !decide (c b)))) ds).totals := by
  induction ds generalizing a with
  | nil => simp [sumMap, Sum.totals, Sum.zero, addT]
  | cons d t ih =>
    simp only [List.foldl_cons]
    rw [ih, foldl_blocks_totals]
    simp only [sumMap, totals_add, addT_assoc]

theorem timeRange_mem (d : Day) (h : DayOk d) :
    ∃ f l, f ∈ d.blocks ∧ l ∈ d.blocks ∧ timeRange d = some (f.ts, l.ts) ∧ ∀ b ∈ d.blocks, f.ts ≤ b.ts ∧ b.ts ≤ l.ts := by
  unfold timeRange
  cases hh : d.blocks.head? with
  | none => rw [List.head?_eq_none_iff] at hh; exact absurd hh h.ne
  | some f =>
    cases hl : d.blocks.getLast? with
    | none => rw [List.getLast?_eq_none_iff] at hl; exact absurd hl h.ne
    | some l =>
      exact ⟨f, l, List.mem_of_head? hh, List.mem_of_getLast? hl, rfl,
        fun b hb => ⟨sorted_head_le _ h.sorted f hh b hb, sorted_le_getLast _ h.sorted l hl b hb⟩⟩

theorem pairwise_head_le (l : List Day) (hs : l.Pairwise (fun a b => a.day < b.day)) (d0 : Day)
    (h0 : l.head? = some d0) : ∀ d ∈ l, d = d0 ∨ d0.day < d.day := by
  cases l with
  | nil => cases h0
  | cons x xs =>
    simp at h0; subst h0
    intro d hd
    rcases List.mem_cons.mp hd with rfl | hd
    · left; rfl
    · right; exact (List.pairwise_cons.mp hs).1 d hd

theorem pairwise_le_getLast (l : List Day) (hs : l.Pairwise (fun a b => a.day < b.day)) (dl : Day)
    (hl : l.getLast? = some dl) : ∀ d ∈ l, d = dl ∨ d.day < dl.day := by
  induction l with
  | nil => cases hl
  | cons x xs ih =>
    have hp := List.pairwise_cons.mp hs
    cases xs with
    | nil => simp at hl; subst hl; intro d hd; simp at hd; left; exact hd
    | cons y ys =>
      rw [List.getLast?_cons_cons] at hl
      intro d hd
      rcases List.mem_cons.mp hd with rfl | hd
      · right; exact hp.1 dl (List.mem_of_getLast? hl)
      · exact ih hp.2 hl d hd

theorem R_zero_of_not_selected (tfirst tlast : Int) (d : Day) (hok : DayOk d)
    (h : ¬ selected tfirst tlast d = true) : R tfirst tlast d = Sum.zero := by
  apply R_zero
  intro b hb
  have hlo := hok.lo b hb
  have hhi := hok.hi b hb
  rw [selected_iff] at h
  omega

/-- **core of the query clause**: the totals of the block-level aggregation, as the code selects
    directories and blocks, are the totals of the blocks in the range -/
theorem queryTotals_eq (db : List Day) (hinv : Inv db) (tfirst tlast : Int) :
    queryTotals tfirst tlast db =
      some (sumMap blockSum ((allBlocks db).filter (inRange tfirst tlast))).totals := by
  rw [sum_allBlocks_filter]
  have hR : sumMap (R tfirst tlast) db = sumMap (R tfirst tlast) (db.filter (selected tfirst tlast)) := by
    symm; apply sumMap_filter_zero
    intro d hd hp
    apply R_zero_of_not_selected tfirst tlast d (hinv.2 d hd); rw [hp]; simp
  have hsorted : (db.filter (selected tfirst tlast)).Pairwise (fun a b => a.day < b.day) := hinv.1.filter _
  have hmem : ∀ d ∈ db.filter (selected tfirst tlast), d ∈ db := fun d hd => (List.mem_filter.mp hd).1
  rw [hR]
  unfold queryTotals
  simp only
  generalize db.filter (selected tfirst tlast) = sel at hsorted hmem
  cases hh : sel.head? with
  | none =>
    rw [List.head?_eq_none_iff] at hh; subst hh; rfl
  | some d0 =>
    cases hl : sel.getLast? with
    | none => rw [List.getLast?_eq_none_iff] at hl; subst hl; cases hh
    | some dl =>
      have hd0 := hmem d0 (List.mem_of_head? hh)
      have hdl := hmem dl (List.mem_of_getLast? hl)
      obtain ⟨f0, _, hf0, _, htr0, hb0⟩ := timeRange_mem d0 (hinv.2 d0 hd0)
      obtain ⟨_, ll, _, hll, htrl, hbl⟩ := timeRange_mem dl (hinv.2 dl hdl)
      simp only [htr0, htrl]
      rw [foldl_days_totals, zero_addT]
      congr 2
      apply sumMap_congr
      intro d hd
      unfold R; congr 1
      apply List.filter_congr
      intro b hb
      have hok := hinv.2 d (hmem d hd)
      have hok0 := hinv.2 d0 hd0
      have hokl := hinv.2 dl hdl
      have hlo : f0.ts ≤ b.ts := by
        rcases pairwise_head_le sel hsorted d0 hh d hd with rfl | hlt
        · exact (hb0 b hb).1
        · have := hok0.hi f0 hf0; have := hok.lo b hb; have := hok0.aligned; have := hok.aligned; omega
      have hhi : b.ts ≤ ll.ts := by
        rcases pairwise_le_getLast sel hsorted dl hl d hd with rfl | hlt
        · exact (hbl b hb).2
        · have := hokl.lo ll hll; have := hok.hi b hb; have := hokl.aligned; have := hok.aligned; omega
      simp only [inRange]
      by_cases h1 : tfirst < f0.ts <;> by_cases h2 : tlast > ll.ts <;>
        by_cases h3 : tfirst ≤ b.ts <;> by_cases h4 : b.ts ≤ tlast <;> simp [h1, h2, h3, h4] <;> omega
end C12
