import GoProbeModel.Model.C08

/-!
C08 — helper lemmas: counter algebra, the abstract additive map, conditions (negation normal form,
comparison value, IP-version limit), the database invariant and the block selection.
-/
namespace C08
open DB Gen.IPLimit Gen.ListMeta

/-! ## counters -/

theorem Ctr.ext' {a b : Ctr} (h1 : a.br = b.br) (h2 : a.bs = b.bs) (h3 : a.pr = b.pr) (h4 : a.ps = b.ps) : a = b := by
  cases a; cases b; simp_all

theorem Ctr.add_assoc (a b c : Ctr) : (a.add b).add c = a.add (b.add c) := by
  apply Ctr.ext' <;> simp [Ctr.add, Nat.add_assoc]

theorem Ctr.add_comm (a b : Ctr) : a.add b = b.add a := by
  apply Ctr.ext' <;> simp [Ctr.add, Nat.add_comm]

theorem Ctr.add_zero (a : Ctr) : a.add Ctr.zero = a := by
  apply Ctr.ext' <;> simp [Ctr.add, Ctr.zero]

theorem Ctr.zero_add (a : Ctr) : Ctr.zero.add a = a := by
  apply Ctr.ext' <;> simp [Ctr.add, Ctr.zero]

theorem Ctr.add_left_comm (a b c : Ctr) : a.add (b.add c) = b.add (a.add c) := by
  rw [← Ctr.add_assoc, Ctr.add_comm a b, Ctr.add_assoc]

theorem sumCtr_append (a b : List Ctr) : sumCtr (a ++ b) = (sumCtr a).add (sumCtr b) := by
  induction a with
  | nil => simp [sumCtr, Ctr.zero_add]
  | cons x xs ih => simp [sumCtr, ih, Ctr.add_assoc]

theorem sumCtr_perm {a b : List Ctr} (h : a.Perm b) : sumCtr a = sumCtr b := by
  induction h with
  | nil => rfl
  | cons x _ ih => simp [sumCtr, ih]
  | swap x y l => simp [sumCtr, Ctr.add_left_comm]
  | trans _ _ ih1 ih2 => exact ih1.trans ih2

/-! ## sums per key, the additive map -/

section amap
variable {κ : Type} [DecidableEq κ]

/-- sum of the counters of all items with key `k` -/
def sumFor (its : List (κ × Ctr)) (k : κ) : Ctr :=
  sumCtr ((its.filter fun it => decide (it.1 = k)).map (·.2))

theorem groupSum_eq (its : List (κ × Ctr)) :
    groupSum its = (dedup (its.map (·.1))).map fun k => (k, sumFor its k) := rfl

theorem sumFor_nil (k : κ) : sumFor ([] : List (κ × Ctr)) k = Ctr.zero := rfl

theorem sumFor_append (a b : List (κ × Ctr)) (k : κ) : sumFor (a ++ b) k = (sumFor a k).add (sumFor b k) := by
  simp [sumFor, List.filter_append, sumCtr_append]

theorem sumFor_perm {a b : List (κ × Ctr)} (h : a.Perm b) (k : κ) : sumFor a k = sumFor b k :=
  sumCtr_perm ((h.filter _).map _)

theorem sumFor_cons (e : κ × Ctr) (a : List (κ × Ctr)) (k : κ) :
    sumFor (e :: a) k = (if e.1 = k then e.2 else Ctr.zero).add (sumFor a k) := by
  by_cases h : e.1 = k <;> simp [sumFor, h, sumCtr, Ctr.zero_add]

theorem sumFor_not_mem (a : List (κ × Ctr)) (k : κ) (h : k ∉ a.map (·.1)) : sumFor a k = Ctr.zero := by
  induction a with
  | nil => rfl
  | cons e a ih =>
    simp only [List.map_cons, List.mem_cons, not_or] at h
    rw [sumFor_cons, ih h.2, if_neg (fun e' => h.1 e'.symm), Ctr.add_zero]

theorem flatMap_sumFor {α : Type} (l : List α) (g : α → List (κ × Ctr)) (k : κ) :
    sumFor (l.flatMap g) k = sumCtr (l.map fun x => sumFor (g x) k) := by
  induction l with
  | nil => rfl
  | cons x xs ih => simp [List.flatMap_cons, sumFor_append, ih, sumCtr]

/-- `m` represents the multiset of items `its`: distinct keys, the keys of the items, their sums -/
structure Rep (m its : List (κ × Ctr)) : Prop where
  nodup : (m.map (·.1)).Nodup
  keys : ∀ k, k ∈ m.map (·.1) ↔ k ∈ its.map (·.1)
  sums : ∀ k, sumFor m k = sumFor its k

theorem rep_nil : Rep ([] : List (κ × Ctr)) [] := ⟨List.nodup_nil, fun _ => Iff.rfl, fun _ => rfl⟩

theorem upd_keys (m : AMap κ) (k : κ) (c : Ctr) (k' : κ) :
    k' ∈ (AMap.upd m k c).map (·.1) ↔ k' = k ∨ k' ∈ m.map (·.1) := by
  induction m with
  | nil => simp [AMap.upd]
  | cons e m ih =>
    obtain ⟨ke, ce⟩ := e
    simp only [AMap.upd]
    split
    · rename_i h; subst h; simp
    · simp only [List.map_cons, List.mem_cons, ih]
      constructor
      · intro h; rcases h with h | h | h <;> simp [h]
      · intro h; rcases h with h | h | h <;> simp [h]

theorem upd_nodup (m : AMap κ) (k : κ) (c : Ctr) (h : (m.map (·.1)).Nodup) : ((AMap.upd m k c).map (·.1)).Nodup := by
  induction m with
  | nil => simp [AMap.upd]
  | cons e m ih =>
    obtain ⟨ke, ce⟩ := e
    simp only [List.map_cons, List.nodup_cons] at h
    simp only [AMap.upd]
    split
    · simp only [List.map_cons, List.nodup_cons]; exact h
    · rename_i hne
      simp only [List.map_cons, List.nodup_cons]
      refine ⟨?_, ih h.2⟩
      intro hm
      rcases (upd_keys m k c ke).mp hm with h' | h'
      · exact hne h'
      · exact h.1 h'

theorem upd_sumFor (m : AMap κ) (k : κ) (c : Ctr) (k' : κ) :
    sumFor (AMap.upd m k c) k' = (sumFor m k').add (if k = k' then c else Ctr.zero) := by
  induction m with
  | nil => simp [AMap.upd, sumFor_cons, sumFor_nil, Ctr.add_comm]
  | cons e m ih =>
    obtain ⟨ke, ce⟩ := e
    simp only [AMap.upd]
    split
    · rename_i h; subst h
      simp only [sumFor_cons]
      by_cases hk : ke = k'
      · simp only [hk, if_true]; rw [Ctr.add_assoc, Ctr.add_assoc, Ctr.add_comm c]
      · simp [hk, Ctr.add_zero]
    · simp only [sumFor_cons, ih, Ctr.add_assoc]

theorem rep_upd {m its : List (κ × Ctr)} (h : Rep m its) (k : κ) (c : Ctr) :
    Rep (AMap.upd m k c) (its ++ [(k, c)]) := by
  refine ⟨upd_nodup m k c h.nodup, ?_, ?_⟩
  · intro k'
    rw [upd_keys, h.keys]
    simp only [List.map_append, List.mem_append, List.map_cons, List.map_nil, List.mem_singleton]
    exact Or.comm
  · intro k'
    rw [upd_sumFor, h.sums, sumFor_append, sumFor_cons, sumFor_nil, Ctr.add_zero]

theorem rep_perm {m its its' : List (κ × Ctr)} (h : Rep m its) (hp : its.Perm its') : Rep m its' :=
  ⟨h.nodup, fun k => (h.keys k).trans (hp.map _).mem_iff, fun k => (h.sums k).trans (sumFor_perm hp k)⟩

/-- replacing items by items with the same keys and sums -/
theorem rep_congr {m its its' : List (κ × Ctr)} (h : Rep m its)
    (hk : ∀ k, k ∈ its.map (·.1) ↔ k ∈ its'.map (·.1)) (hs : ∀ k, sumFor its k = sumFor its' k) : Rep m its' :=
  ⟨h.nodup, fun k => (h.keys k).trans (hk k), fun k => (h.sums k).trans (hs k)⟩

theorem rep_foldl_upd (b : List (κ × Ctr)) {m its : List (κ × Ctr)} (h : Rep m its) :
    Rep (b.foldl (fun m e => AMap.upd m e.1 e.2) m) (its ++ b) := by
  induction b generalizing m its with
  | nil => simpa using h
  | cons e b ih =>
    simp only [List.foldl_cons]
    have := ih (rep_upd h e.1 e.2)
    simpa [List.append_assoc] using this

/-- `Merge` of two maps represents the union of the items -/
theorem rep_merge {a b ia ib : List (κ × Ctr)} (ha : Rep a ia) (hb : Rep b ib) :
    Rep (AMap.merge a b) (ia ++ ib) := by
  have h := rep_foldl_upd b ha
  refine rep_congr h ?_ ?_
  · intro k; simp only [List.map_append, List.mem_append, hb.keys]
  · intro k; simp only [sumFor_append, hb.sums]

/-- an entry of a map with distinct keys is its key together with the key's sum -/
theorem mem_of_nodup (m : List (κ × Ctr)) (hn : (m.map (·.1)).Nodup) (k : κ) (c : Ctr) :
    (k, c) ∈ m ↔ k ∈ m.map (·.1) ∧ c = sumFor m k := by
  induction m with
  | nil => simp
  | cons e m ih =>
    obtain ⟨ke, ce⟩ := e
    simp only [List.map_cons, List.nodup_cons] at hn
    simp only [List.mem_cons, Prod.mk.injEq, List.map_cons, sumFor_cons]
    by_cases hk : ke = k
    · subst hk
      simp only [if_true, true_or, true_and]
      rw [sumFor_not_mem m ke hn.1, Ctr.add_zero]
      constructor
      · intro h; rcases h with h | h
        · exact h
        · exact absurd (List.mem_map.mpr ⟨(ke, c), h, rfl⟩) hn.1
      · intro h; left; exact h
    · simp only [hk, if_false, Ctr.zero_add, ih hn.2]
      constructor
      · intro h; rcases h with h | h
        · exact absurd h.1.symm hk
        · exact ⟨Or.inr h.1, h.2⟩
      · intro h; rcases h with ⟨h1 | h1, h2⟩
        · exact absurd h1.symm hk
        · exact Or.inr ⟨h1, h2⟩

omit [DecidableEq κ] in
theorem nodup_of_keys (m : List (κ × Ctr)) (hn : (m.map (·.1)).Nodup) : m.Nodup := by
  induction m with
  | nil => exact List.nodup_nil
  | cons e m ih =>
    simp only [List.map_cons, List.nodup_cons] at hn ⊢
    exact ⟨fun h => hn.1 (List.mem_map.mpr ⟨e, h, rfl⟩), ih hn.2⟩

/-! ### dedup / groupSum -/

theorem mem_dedup {α : Type} [DecidableEq α] (l : List α) (x : α) : x ∈ dedup l ↔ x ∈ l := by
  induction l with
  | nil => simp [dedup]
  | cons y ys ih =>
    simp only [dedup, List.mem_cons, List.mem_filter, decide_eq_true_eq, ih]
    constructor
    · intro h; rcases h with h | h
      · exact Or.inl h
      · exact Or.inr h.1
    · intro h
      by_cases hx : x = y
      · exact Or.inl hx
      · rcases h with h | h
        · exact absurd h hx
        · exact Or.inr ⟨h, hx⟩

theorem nodup_dedup {α : Type} [DecidableEq α] (l : List α) : (dedup l).Nodup := by
  induction l with
  | nil => simp [dedup]
  | cons y ys ih =>
    simp only [dedup, List.nodup_cons, List.mem_filter, decide_eq_true_eq]
    exact ⟨fun h => h.2 rfl, List.Pairwise.filter _ ih⟩

theorem groupSum_keys (its : List (κ × Ctr)) : (groupSum its).map (·.1) = dedup (its.map (·.1)) := by
  simp [groupSum_eq, List.map_map, Function.comp_def]

/-- the spec's grouping is represented by the items themselves -/
theorem rep_groupSum (its : List (κ × Ctr)) : Rep (groupSum its) its := by
  have hn : ((groupSum its).map (·.1)).Nodup := by rw [groupSum_keys]; exact nodup_dedup _
  have hk : ∀ k, k ∈ (groupSum its).map (·.1) ↔ k ∈ its.map (·.1) := by
    intro k; rw [groupSum_keys, mem_dedup]
  refine ⟨hn, hk, ?_⟩
  intro k
  by_cases hm : k ∈ its.map (·.1)
  · have : (k, sumFor its k) ∈ groupSum its := by
      rw [groupSum_eq]; exact List.mem_map.mpr ⟨k, (mem_dedup _ _).mpr hm, rfl⟩
    exact ((mem_of_nodup _ hn k _).mp this).2.symm
  · rw [sumFor_not_mem _ _ hm, sumFor_not_mem _ _ (fun h => hm ((hk k).mp h))]

/-- two maps that represent the same items are permutations of each other -/
theorem perm_of_rep {m m' its : List (κ × Ctr)} (h : Rep m its) (h' : Rep m' its) : m.Perm m' := by
  rw [List.perm_ext_iff_of_nodup (nodup_of_keys m h.nodup) (nodup_of_keys m' h'.nodup)]
  intro ⟨k, c⟩
  rw [mem_of_nodup m h.nodup, mem_of_nodup m' h'.nodup, h.keys, h'.keys, h.sums, h'.sums]

end amap

/-! ## conditions -/

theorem negate_eval (c : Cmp) (a b : Nat) : (Cmp.negate c).eval a b = !c.eval a b := by
  cases c <;> simp only [Cmp.negate, Cmp.eval, bne, Bool.not_not] <;>
    (rw [Bool.eq_iff_iff]; simp only [decide_eq_true_eq, Bool.not_eq_true', decide_eq_false_iff_not]; omega)

/-- the negation normal form means the same (or, under `negate`, the opposite) -/
theorem nnf_sem (c : Cond) (hok : c.ok = true) (neg : Bool) (f : Flow) :
    sem (nnf c neg) f = (if neg then !sem c f else sem c f) := by
  induction c generalizing neg with
  | ip s c v =>
    simp only [Cond.ok, Bool.and_eq_true, Bool.or_eq_true, beq_iff_eq] at hok
    cases neg <;> rcases hok.1 with h | h <;> subst h <;> simp [nnf, sem, Cmp.negate, bne]
  | net s c v n =>
    simp only [Cond.ok, Bool.and_eq_true, Bool.or_eq_true, beq_iff_eq] at hok
    cases neg <;> rcases hok.1.1 with h | h <;> subst h <;> simp [nnf, sem, Cmp.negate]
  | num p c v => cases neg <;> simp [nnf, sem, negate_eval]
  | not a ih =>
    simp only [Cond.ok] at hok
    cases neg <;> simp [nnf, sem, ih hok]
  | and a b iha ihb =>
    simp only [Cond.ok, Bool.and_eq_true] at hok
    cases neg <;> simp [nnf, sem, iha hok.1, ihb hok.2, Bool.not_and]
  | or a b iha ihb =>
    simp only [Cond.ok, Bool.and_eq_true] at hok
    cases neg <;> simp [nnf, sem, iha hok.1, ihb hok.2, Bool.not_or]

def Flags.le (a b : Flags) : Prop :=
  (a.sip = true → b.sip = true) ∧ (a.dip = true → b.dip = true) ∧ (a.dport = true → b.dport = true) ∧ (a.proto = true → b.proto = true)

theorem Flags.le_refl (a : Flags) : a.le a := ⟨id, id, id, id⟩

theorem Flags.or_le {a b c : Flags} (h : (a.or b).le c) : a.le c ∧ b.le c := by
  obtain ⟨h1, h2, h3, h4⟩ := h
  simp only [Flags.or, Bool.or_eq_true] at h1 h2 h3 h4
  exact ⟨⟨fun x => h1 (Or.inl x), fun x => h2 (Or.inl x), fun x => h3 (Or.inl x), fun x => h4 (Or.inl x)⟩,
         ⟨fun x => h1 (Or.inr x), fun x => h2 (Or.inr x), fun x => h3 (Or.inr x), fun x => h4 (Or.inr x)⟩⟩

/-- the comparison value carries every column the condition reads -/
theorem cmpVal_sem (c : Cond) (fl : Flags) (h : (condFlags c).le fl) (f : Flow) :
    sem c (cmpVal fl f) = sem c f := by
  induction c with
  | ip s c v =>
    obtain ⟨h1, h2, _, _⟩ := h
    cases s
    · have : fl.dip = true := h2 (by simp [condFlags])
      simp [sem, cmpVal, this]
    · have : fl.sip = true := h1 (by simp [condFlags])
      simp [sem, cmpVal, this]
  | net s c v n =>
    obtain ⟨h1, h2, _, _⟩ := h
    cases s
    · have : fl.dip = true := h2 (by simp [condFlags])
      simp [sem, cmpVal, this]
    · have : fl.sip = true := h1 (by simp [condFlags])
      simp [sem, cmpVal, this]
  | num p c v =>
    obtain ⟨_, _, h3, h4⟩ := h
    cases p
    · have : fl.proto = true := h4 (by simp [condFlags])
      simp [sem, cmpVal, this]
    · have : fl.dport = true := h3 (by simp [condFlags])
      simp [sem, cmpVal, this]
  | not a ih => simp only [condFlags] at h; simp [sem, ih h]
  | and a b iha ihb =>
    simp only [condFlags] at h
    have := Flags.or_le h
    simp [sem, iha this.1, ihb this.2]
  | or a b iha ihb =>
    simp only [condFlags] at h
    have := Flags.or_le h
    simp [sem, iha this.1, ihb this.2]

/-- **key lemma** — the IP-version limit computed over the condition tree with the regenerated
    `IPVersion.LimitAnd` / `IPVersion.LimitOr` is sound: a flow that satisfies the condition is of
    the version the condition is limited to. -/
theorem limit_sound (c : Cond) (f : Flow) (hf : flowOk f = true) (hs : sem c f = true) :
    (limit c = IPVersionV4 → f.isV4 = true) ∧ (limit c = IPVersionV6 → f.isV4 = false) := by
  simp only [flowOk, Bool.and_eq_true, Bool.or_eq_true, beq_iff_eq, decide_eq_true_eq] at hf
  obtain ⟨⟨⟨_, hdip⟩, _⟩, _⟩ := hf
  induction c with
  | ip s c v =>
    simp only [limit, leafVersion, IPVersionNone, IPVersionV4, IPVersionV6]
    by_cases hc : c = .eq
    · subst hc
      simp only [sem, beq_iff_eq] at hs
      simp only [ne_eq, not_true_eq_false, if_false, Flow.isV4]
      cases s <;> simp only [Bool.false_eq_true, if_false, if_true] at hs <;> subst hs <;>
        constructor <;> intro h <;> split at h <;> simp_all
    · simp [hc]
  | net s c v n =>
    simp only [limit, leafVersion, IPVersionNone, IPVersionV4, IPVersionV6]
    by_cases hc : c = .eq
    · subst hc
      simp only [sem, inNetHex, Bool.and_eq_true, beq_iff_eq] at hs
      simp only [ne_eq, not_true_eq_false, if_false, Flow.isV4]
      cases s <;> simp only [Bool.false_eq_true, if_false, if_true] at hs <;>
        constructor <;> intro h <;> split at h <;> simp_all
    · simp [hc]
  | num p c v => simp [limit, IPVersionNone, IPVersionV4, IPVersionV6]
  | not a _ => simp [limit, IPVersionNone, IPVersionV4, IPVersionV6]
  | and a b iha ihb =>
    simp only [sem, Bool.and_eq_true] at hs
    have ha := iha hs.1
    have hb := ihb hs.2
    simp only [limit, IPVersion_LimitAnd, IPVersion_IsLimited, decide_eq_true_eq] at *
    constructor <;> intro h <;> split at h
    · exact ha.1 h
    · split at h
      · exact hb.1 h
      · simp [IPVersionV4] at h
    · exact ha.2 h
    · split at h
      · exact hb.2 h
      · simp [IPVersionV6] at h
  | or a b iha ihb =>
    simp only [sem, Bool.or_eq_true] at hs
    simp only [limit, IPVersion_LimitOr, IPVersion_IsLimited, decide_eq_true_eq]
    constructor <;> intro h <;> split at h
    · rename_i hc
      rcases hs with hs | hs
      · exact (iha hs).1 h
      · exact (ihb hs).1 (hc.2 ▸ h)
    · simp [IPVersionV4] at h
    · rename_i hc
      rcases hs with hs | hs
      · exact (iha hs).2 h
      · exact (ihb hs).2 (hc.2 ▸ h)
    · simp [IPVersionV6] at h

/-! ## invariant of interface directories produced by the writer -/

theorem dirTimestamp_bounds (ts : Int) (h : 0 ≤ ts) :
    DirTimestamp ts ≤ ts ∧ ts < DirTimestamp ts + 86400 ∧ DirTimestamp ts % 86400 = 0 := by
  unfold DirTimestamp
  rw [Int.tdiv_eq_ediv_of_nonneg h]
  omega

def allBlocks (db : List Day) : List WriteOut := db.flatMap (·.blocks)

def Sorted (l : List WriteOut) : Prop := l.Pairwise (fun a b => a.ts < b.ts)

structure DayOk (d : Day) : Prop where
  ne : d.blocks ≠ []
  nn : ∀ b ∈ d.blocks, 0 ≤ b.ts
  key : ∀ b ∈ d.blocks, DirTimestamp b.ts = d.day
  sorted : Sorted d.blocks

theorem DayOk.lo {d : Day} (h : DayOk d) : ∀ b ∈ d.blocks, d.day ≤ b.ts := by
  intro b hb; have := dirTimestamp_bounds b.ts (h.nn b hb); rw [h.key b hb] at this; omega

theorem DayOk.hi {d : Day} (h : DayOk d) : ∀ b ∈ d.blocks, b.ts < d.day + 86400 := by
  intro b hb; have := dirTimestamp_bounds b.ts (h.nn b hb); rw [h.key b hb] at this; omega

theorem DayOk.aligned {d : Day} (h : DayOk d) : d.day % 86400 = 0 := by
  cases hb : d.blocks with
  | nil => exact absurd hb h.ne
  | cons b bs =>
    have hm : b ∈ d.blocks := by simp [hb]
    have := dirTimestamp_bounds b.ts (h.nn b hm); rw [h.key b hm] at this; omega

/-- days in listing order, every day well-formed -/
def Inv (db : List Day) : Prop := db.Pairwise (fun a b => a.day < b.day) ∧ ∀ d ∈ db, DayOk d

theorem inv_nil : Inv [] := ⟨List.Pairwise.nil, by simp⟩

theorem dayOk_new (b : WriteOut) (hnn : 0 ≤ b.ts) : DayOk ⟨DirTimestamp b.ts, [b]⟩ where
  ne := by simp
  nn := by intro x hx; simp at hx; subst hx; exact hnn
  key := by intro x hx; simp at hx; subst hx; rfl
  sorted := by simp [Sorted]

theorem dayOk_append (d : Day) (b : WriteOut) (hd : DayOk d) (hnn : 0 ≤ b.ts) (hk : DirTimestamp b.ts = d.day)
    (hnew : ∀ x ∈ d.blocks, x.ts < b.ts) : DayOk { d with blocks := d.blocks ++ [b] } where
  ne := by simp
  nn := by
    intro x hx; simp only [List.mem_append, List.mem_singleton] at hx
    rcases hx with hx | rfl
    · exact hd.nn x hx
    · exact hnn
  key := by
    intro x hx; simp only [List.mem_append, List.mem_singleton] at hx
    rcases hx with hx | rfl
    · exact hd.key x hx
    · exact hk
  sorted := by
    simp only [Sorted, List.pairwise_append]
    refine ⟨hd.sorted, by simp, ?_⟩
    intro x hx y hy; simp at hy; subst hy; exact hnew x hx

theorem mem_write_day (db : List Day) (b : WriteOut) (d' : Day) (h : d' ∈ write db b) :
    d'.day = DirTimestamp b.ts ∨ ∃ d'' ∈ db, d''.day = d'.day := by
  induction db with
  | nil => simp [write] at h; subst h; left; rfl
  | cons d ds ih =>
    simp only [write] at h
    split at h
    · rename_i hk
      rcases List.mem_cons.mp h with rfl | h
      · left; exact hk.symm
      · right; exact ⟨d', by simp [h], rfl⟩
    · split at h
      · rcases List.mem_cons.mp h with rfl | h
        · left; rfl
        · right; exact ⟨d', h, rfl⟩
      · rcases List.mem_cons.mp h with rfl | h
        · right; exact ⟨d', by simp, rfl⟩
        · rcases ih h with h | ⟨d'', hd'', he⟩
          · left; exact h
          · right; exact ⟨d'', by simp [hd''], he⟩

/-- a write adds exactly the written block -/
theorem allBlocks_write_perm (db : List Day) (b : WriteOut) : (allBlocks (write db b)).Perm (b :: allBlocks db) := by
  induction db with
  | nil => simp [write, allBlocks]
  | cons d ds ih =>
    simp only [write]
    split
    · simp only [allBlocks, List.flatMap_cons, List.append_assoc, List.singleton_append]
      exact List.perm_middle
    · split
      · simp [allBlocks]
      · simp only [allBlocks, List.flatMap_cons] at ih ⊢
        exact (List.Perm.append_left _ ih).trans List.perm_middle

theorem mem_allBlocks_write (db : List Day) (b x : WriteOut) :
    x ∈ allBlocks (write db b) ↔ x ∈ allBlocks db ∨ x = b := by
  rw [(allBlocks_write_perm db b).mem_iff, List.mem_cons]; exact Or.comm

theorem inv_write (db : List Day) (b : WriteOut) (hinv : Inv db) (hnn : 0 ≤ b.ts)
    (hnew : ∀ x ∈ allBlocks db, DirTimestamp x.ts = DirTimestamp b.ts → x.ts < b.ts) : Inv (write db b) := by
  induction db with
  | nil =>
    refine ⟨by simp [write], ?_⟩
    intro d hd; simp [write] at hd; subst hd; exact dayOk_new b hnn
  | cons d ds ih =>
    have hp := List.pairwise_cons.mp hinv.1
    have hdok : DayOk d := hinv.2 d (by simp)
    have hinv' : Inv ds := ⟨hp.2, fun x hx => hinv.2 x (by simp [hx])⟩
    simp only [write]
    split
    · rename_i hk
      refine ⟨?_, ?_⟩
      · rw [List.pairwise_cons]; exact ⟨fun x hx => hp.1 x hx, hp.2⟩
      · intro x hx
        rcases List.mem_cons.mp hx with rfl | hx
        · apply dayOk_append d b hdok hnn hk
          intro y hy
          apply hnew y (by simp [allBlocks, hy])
          rw [hdok.key y hy, hk]
        · exact hinv.2 x (by simp [hx])
    · rename_i hk
      split
      · rename_i hlt
        refine ⟨?_, ?_⟩
        · rw [List.pairwise_cons]
          refine ⟨?_, hinv.1⟩
          intro x hx
          rcases List.mem_cons.mp hx with rfl | hx
          · exact hlt
          · have := hp.1 x hx; simp only; omega
        · intro x hx
          rcases List.mem_cons.mp hx with rfl | hx
          · exact dayOk_new b hnn
          · exact hinv.2 x hx
      · rename_i hge
        have ih' := ih hinv' (fun x hx => hnew x (by simp only [allBlocks, List.flatMap_cons, List.mem_append]; right; exact hx))
        refine ⟨?_, ?_⟩
        · rw [List.pairwise_cons]
          refine ⟨?_, ih'.1⟩
          intro x hx
          rcases mem_write_day ds b x hx with h | ⟨y, hy, he⟩
          · rw [h]; omega
          · rw [← he]; exact hp.1 y hy
        · intro x hx
          rcases List.mem_cons.mp hx with rfl | hx
          · exact hdok
          · exact ih'.2 x hx

/-- well-formed write history of one interface (Prop form of `histOk`) -/
def Hist (bs : List WriteOut) : Prop :=
  (∀ b ∈ bs, 0 ≤ b.ts) ∧ bs.Pairwise (fun a b => DirTimestamp a.ts = DirTimestamp b.ts → a.ts < b.ts)

theorem hist_of_histOk (bs : List WriteOut) (h : histOk bs = true) : Hist bs := by
  induction bs with
  | nil => exact ⟨by simp, List.Pairwise.nil⟩
  | cons b bs ih =>
    simp only [histOk, Bool.and_eq_true, decide_eq_true_eq, List.all_eq_true, Bool.or_eq_true, bne_iff_ne] at h
    obtain ⟨⟨⟨h0, _⟩, h1⟩, h2⟩ := h
    have ih' := ih h2
    have h0' : 0 ≤ b.ts := by omega
    refine ⟨?_, ?_⟩
    · intro x hx; rcases List.mem_cons.mp hx with rfl | hx
      · exact h0'
      · exact ih'.1 x hx
    · rw [List.pairwise_cons]
      refine ⟨?_, ih'.2⟩
      intro x hx hd
      rcases h1 x hx with h | h
      · exfalso; apply h
        have hx0 := ih'.1 x hx
        unfold DirTimestamp at hd
        rw [Int.tdiv_eq_ediv_of_nonneg h0', Int.tdiv_eq_ediv_of_nonneg hx0] at hd
        omega
      · exact h

theorem inv_foldl_write (bs : List WriteOut) (db : List Day) (hinv : Inv db) (hh : Hist bs)
    (hnew : ∀ x ∈ allBlocks db, ∀ b ∈ bs, DirTimestamp x.ts = DirTimestamp b.ts → x.ts < b.ts) :
    Inv (bs.foldl write db) := by
  induction bs generalizing db with
  | nil => exact hinv
  | cons b bs ih =>
    have hp := List.pairwise_cons.mp hh.2
    simp only [List.foldl_cons]
    apply ih (write db b)
    · exact inv_write db b hinv (hh.1 b (by simp)) (fun x hx => hnew x hx b (by simp))
    · exact ⟨fun x hx => hh.1 x (by simp [hx]), hp.2⟩
    · intro x hx c hc
      rcases (mem_allBlocks_write db b x).mp hx with hx | rfl
      · exact hnew x hx c (by simp [hc])
      · exact hp.1 c hc

/-- every interface directory reachable by a well-formed write history satisfies the invariant -/
theorem inv_build (bs : List WriteOut) (hh : Hist bs) : Inv (build bs) :=
  inv_foldl_write bs [] inv_nil hh (by simp [allBlocks])

theorem allBlocks_foldl_perm (bs : List WriteOut) (db : List Day) :
    (allBlocks (bs.foldl write db)).Perm (allBlocks db ++ bs) := by
  induction bs generalizing db with
  | nil => simp
  | cons b bs ih =>
    simp only [List.foldl_cons]
    refine (ih (write db b)).trans ?_
    refine ((allBlocks_write_perm db b).append_right bs).trans ?_
    simp only [List.cons_append]
    exact List.perm_middle.symm

/-- the stored blocks are exactly the written ones -/
theorem allBlocks_build_perm (bs : List WriteOut) : (allBlocks (build bs)).Perm bs := by
  have := allBlocks_foldl_perm bs []
  simpa [build, allBlocks] using this

/-! ## block selection of a query -/

theorem sorted_head_le (l : List WriteOut) (hs : Sorted l) (x : WriteOut) (hx : l.head? = some x) : ∀ b ∈ l, x.ts ≤ b.ts := by
  cases l with
  | nil => cases hx
  | cons y ys =>
    simp at hx; subst hx
    intro b hb
    rcases List.mem_cons.mp hb with rfl | hb
    · exact Int.le_refl _
    · exact Int.le_of_lt ((List.pairwise_cons.mp hs).1 b hb)

theorem sorted_le_getLast (l : List WriteOut) (hs : Sorted l) (x : WriteOut) (hx : l.getLast? = some x) : ∀ b ∈ l, b.ts ≤ x.ts := by
  induction l with
  | nil => cases hx
  | cons y ys ih =>
    have hp := List.pairwise_cons.mp hs
    cases ys with
    | nil => simp at hx; subst hx; intro b hb; simp at hb; subst hb; exact Int.le_refl _
    | cons z zs =>
      rw [List.getLast?_cons_cons] at hx
      intro b hb
      rcases List.mem_cons.mp hb with rfl | hb
      · have hxm : x ∈ z :: zs := List.mem_of_getLast? hx
        exact Int.le_of_lt (hp.1 x hxm)
      · exact ih hp.2 hx b hb

theorem timeRange_mem (d : Day) (h : DayOk d) :
    ∃ f l, f ∈ d.blocks ∧ l ∈ d.blocks ∧ timeRange d = some (f.ts, l.ts) ∧ ∀ b ∈ d.blocks, f.ts ≤ b.ts ∧ b.ts ≤ l.ts := by
  unfold timeRange
  cases hh : d.blocks.head? with
  | none => rw [List.head?_eq_none_iff] at hh; exact absurd hh h.ne
  | some f =>
    cases hl : d.blocks.getLast? with
    | none => rw [List.getLast?_eq_none_iff] at hl; exact absurd hl h.ne
    | some l =>
      exact ⟨f, l, List.mem_of_head? hh, List.mem_of_getLast? hl, rfl,
        fun b hb => ⟨sorted_head_le _ h.sorted f hh b hb, sorted_le_getLast _ h.sorted l hl b hb⟩⟩

theorem pairwise_head_le (l : List Day) (hs : l.Pairwise (fun a b => a.day < b.day)) (d0 : Day)
    (h0 : l.head? = some d0) : ∀ d ∈ l, d = d0 ∨ d0.day < d.day := by
  cases l with
  | nil => cases h0
  | cons x xs =>
    simp at h0; subst h0
    intro d hd
    rcases List.mem_cons.mp hd with rfl | hd
    · left; rfl
    · right; exact (List.pairwise_cons.mp hs).1 d hd

theorem pairwise_le_getLast (l : List Day) (hs : l.Pairwise (fun a b => a.day < b.day)) (dl : Day)
    (hl : l.getLast? = some dl) : ∀ d ∈ l, d = dl ∨ d.day < dl.day := by
  induction l with
  | nil => cases hl
  | cons x xs ih =>
    have hp := List.pairwise_cons.mp hs
    cases xs with
    | nil => simp at hl; subst hl; intro d hd; simp at hd; left; exact hd
    | cons y ys =>
      rw [List.getLast?_cons_cons] at hl
      intro d hd
      rcases List.mem_cons.mp hd with rfl | hd
      · right; exact hp.1 dl (List.mem_of_getLast? hl)
      · exact ih hp.2 hl d hd

/-- block test of `readBlocksAndEvaluate` (negated: the block is processed) -/
def cov (lo hi : Int) (w : WriteOut) : Bool := !(decide (w.ts < lo) || decide (w.ts > hi))

/-- the blocks a query scans, in scan order -/
def scanned (tfirst tlast : Int) (db : List Day) : List WriteOut :=
  let sel := db.filter (selected tfirst tlast)
  match covered tfirst tlast sel with
  | none => []
  | some (lo, hi) => sel.flatMap fun d => d.blocks.filter (cov lo hi)

theorem flatMap_filter_nil {α β : Type} (l : List α) (p : α → Bool) (g : α → List β)
    (h : ∀ x ∈ l, p x = false → g x = []) : l.flatMap g = (l.filter p).flatMap g := by
  induction l with
  | nil => rfl
  | cons x xs ih =>
    have ih' := ih (fun y hy => h y (by simp [hy]))
    cases hp : p x
    · simp [hp, h x (by simp) hp, ih']
    · simp [hp, ih']

theorem flatMap_congr' {α β : Type} (l : List α) (f g : α → List β) (h : ∀ x ∈ l, f x = g x) :
    l.flatMap f = l.flatMap g := by
  induction l with
  | nil => rfl
  | cons x xs ih => simp [List.flatMap_cons, h x (by simp), ih (fun y hy => h y (by simp [hy]))]

/-- **block selection**: the directory test of `walkDB`, the covered interval of
    `CreateWorkerJobs` and the block test of `readBlocksAndEvaluate` together select exactly the
    stored blocks whose time lies in `[tfirst, tlast]` -/
theorem scanned_eq (db : List Day) (hinv : Inv db) (tfirst tlast : Int) :
    scanned tfirst tlast db = (allBlocks db).filter (inRange tfirst tlast) := by
  have hR : (allBlocks db).filter (inRange tfirst tlast) =
      (db.filter (selected tfirst tlast)).flatMap (fun d => d.blocks.filter (inRange tfirst tlast)) := by
    unfold allBlocks
    rw [List.filter_flatMap]
    apply flatMap_filter_nil
    intro d hd hp
    have hok := hinv.2 d hd
    rw [List.filter_eq_nil_iff]
    intro b hb
    have hlo := hok.lo b hb
    have hhi := hok.hi b hb
    have hp' : ¬(tfirst < d.day + 86400 ∧ d.day < tlast + 300) := by
      intro hc; simp [selected, EpochDay, DBWriteInterval, hc.1, hc.2] at hp
    simp only [inRange, Bool.and_eq_true, decide_eq_true_eq]
    omega
  have hsorted : (db.filter (selected tfirst tlast)).Pairwise (fun a b => a.day < b.day) := hinv.1.filter _
  have hmem : ∀ d ∈ db.filter (selected tfirst tlast), d ∈ db := fun d hd => (List.mem_filter.mp hd).1
  rw [hR]
  unfold scanned covered
  simp only
  generalize db.filter (selected tfirst tlast) = sel at hsorted hmem
  cases hh : sel.head? with
  | none =>
    rw [List.head?_eq_none_iff] at hh; subst hh; rfl
  | some d0 =>
    cases hl : sel.getLast? with
    | none => rw [List.getLast?_eq_none_iff] at hl; subst hl; cases hh
    | some dl =>
      have hd0 := hmem d0 (List.mem_of_head? hh)
      have hdl := hmem dl (List.mem_of_getLast? hl)
      obtain ⟨f0, _, hf0, _, htr0, hb0⟩ := timeRange_mem d0 (hinv.2 d0 hd0)
      obtain ⟨_, ll, _, hll, htrl, hbl⟩ := timeRange_mem dl (hinv.2 dl hdl)
      simp only [htr0, htrl]
      apply flatMap_congr'
      intro d hd
      apply List.filter_congr
      intro b hb
      have hok := hinv.2 d (hmem d hd)
      have hok0 := hinv.2 d0 hd0
      have hokl := hinv.2 dl hdl
      have hlo : f0.ts ≤ b.ts := by
        rcases pairwise_head_le sel hsorted d0 hh d hd with rfl | hlt
        · exact (hb0 b hb).1
        · have := hok0.hi f0 hf0; have := hok.lo b hb; have := hok0.aligned; have := hok.aligned; omega
      have hhi : b.ts ≤ ll.ts := by
        rcases pairwise_le_getLast sel hsorted dl hl d hd with rfl | hlt
        · exact (hbl b hb).2
        · have := hokl.lo ll hll; have := hok.hi b hb; have := hokl.aligned; have := hok.aligned; omega
      simp only [inRange, cov]
      by_cases h1 : tfirst < f0.ts <;> by_cases h2 : tlast > ll.ts <;>
        by_cases h3 : tfirst ≤ b.ts <;> by_cases h4 : b.ts ≤ tlast <;> simp [h1, h2, h3, h4] <;> omega

/-! ## the scan represents the items of the scanned blocks -/

/-- map key of an entry: `isIPv4` as left by the key switch, and the populated key -/
def mkey (p : Plan) (w : WriteOut) (f : Flow) : MKey := (f.isV4 || !(p.sel.sip || p.sel.dip), keyOf p.sel w f)

/-- the `SetOrUpdate` calls of one block -/
def blockItems (p : Plan) (w : WriteOut) : List (MKey × Ctr) :=
  ((entriesOf p w).filter (satisfied p)).map fun f => (mkey p w f, ctrOf f)

def dayItems (p : Plan) (lo hi : Int) (d : Day) : List (MKey × Ctr) :=
  (d.blocks.filter (cov lo hi)).flatMap (blockItems p)

theorem rep_scanEntries (p : Plan) (w : WriteOut) (l : List Flow) {m its : List (MKey × Ctr)} (h : Rep m its) :
    Rep (l.foldl (scanEntry p w) m) (its ++ (l.filter (satisfied p)).map fun f => (mkey p w f, ctrOf f)) := by
  induction l generalizing m its with
  | nil => simpa using h
  | cons f l ih =>
    simp only [List.foldl_cons, scanEntry]
    cases hs : satisfied p f
    · simpa [List.filter_cons, hs] using ih h
    · have := ih (rep_upd h (mkey p w f) (ctrOf f))
      simpa [List.filter_cons, hs, mkey, List.append_assoc] using this

theorem rep_scanBlock (p : Plan) (w : WriteOut) {m its : List (MKey × Ctr)} (h : Rep m its) :
    Rep (scanBlock p m w) (its ++ blockItems p w) := rep_scanEntries p w _ h

theorem rep_scanBlocks (p : Plan) (lo hi : Int) (bs : List WriteOut) {m its : List (MKey × Ctr)} (h : Rep m its) :
    Rep (bs.foldl (fun m w => if w.ts < lo ∨ w.ts > hi then m else scanBlock p m w) m)
      (its ++ (bs.filter (cov lo hi)).flatMap (blockItems p)) := by
  induction bs generalizing m its with
  | nil => simpa using h
  | cons w bs ih =>
    simp only [List.foldl_cons]
    by_cases hc : w.ts < lo ∨ w.ts > hi
    · have hcov : cov lo hi w = false := by
        simp only [cov, Bool.not_eq_false', Bool.or_eq_true, decide_eq_true_eq]; exact hc
      simpa [hc, List.filter_cons, hcov] using ih h
    · have hcov : cov lo hi w = true := by
        simp only [cov, Bool.not_eq_true', Bool.or_eq_false_iff, decide_eq_false_iff_not]
        exact ⟨fun x => hc (Or.inl x), fun x => hc (Or.inr x)⟩
      have := ih (rep_scanBlock p w h)
      simpa [hc, List.filter_cons, hcov, List.append_assoc] using this

theorem rep_scanDay (p : Plan) (lo hi : Int) (d : Day) {m its : List (MKey × Ctr)} (h : Rep m its) :
    Rep (scanDay p lo hi m d) (its ++ dayItems p lo hi d) := rep_scanBlocks p lo hi d.blocks h

theorem rep_scanDays (p : Plan) (lo hi : Int) (ds : List Day) {m its : List (MKey × Ctr)} (h : Rep m its) :
    Rep (ds.foldl (scanDay p lo hi) m) (its ++ ds.flatMap (dayItems p lo hi)) := by
  induction ds generalizing m its with
  | nil => simpa using h
  | cons d ds ih =>
    simp only [List.foldl_cons]
    have := ih (rep_scanDay p lo hi d h)
    simpa [List.append_assoc] using this

theorem chunksAux_flatten {α : Type} (n fuel : Nat) (l : List α) (h : l.length ≤ fuel) :
    (chunksAux n fuel l).flatten = l := by
  induction fuel generalizing l with
  | zero => simp at h; subst h; rfl
  | succ fuel ih =>
    simp only [chunksAux]
    cases l with
    | nil => rfl
    | cons x xs =>
      simp only [List.isEmpty_cons, Bool.false_eq_true, if_false, List.flatten_cons]
      rw [ih]
      · exact List.take_append_drop _ _
      · simp only [List.length_drop, List.length_cons] at h ⊢; omega

theorem chunks_flatten {α : Type} (n : Nat) (l : List α) : (chunks n l).flatten = l :=
  chunksAux_flatten _ _ l (Nat.le_refl _)

theorem rep_workloads (p : Plan) (lo hi : Int) (cs : List (List Day)) {fin its : List (MKey × Ctr)} (h : Rep fin its) :
    Rep (cs.foldl (fun fin wl => AMap.merge fin (wl.foldl (scanDay p lo hi) [])) fin)
      (its ++ cs.flatten.flatMap (dayItems p lo hi)) := by
  induction cs generalizing fin its with
  | nil => simpa using h
  | cons wl cs ih =>
    simp only [List.foldl_cons]
    have hw : Rep (wl.foldl (scanDay p lo hi) []) (wl.flatMap (dayItems p lo hi)) := by
      simpa using rep_scanDays p lo hi wl rep_nil
    have := ih (rep_merge h hw)
    simpa [List.append_assoc] using this

/-- the final map of one interface represents the `SetOrUpdate` calls of the scanned blocks -/
theorem rep_scanIface (p : Plan) (tfirst tlast : Int) (db : List Day) :
    Rep (scanIface p tfirst tlast db) ((scanned tfirst tlast db).flatMap (blockItems p)) := by
  unfold scanIface scanned
  simp only
  cases covered tfirst tlast (db.filter (selected tfirst tlast)) with
  | none => exact rep_nil
  | some lh =>
    obtain ⟨lo, hi⟩ := lh
    have := rep_workloads p lo hi (chunks workBulkSize (db.filter (selected tfirst tlast))) rep_nil
    rw [chunks_flatten, List.nil_append] at this
    rw [List.flatMap_assoc]
    exact this

/-! ## from the scan to the spec's items -/

/-- evaluating the instrumented tree on the comparison value is evaluating the condition on the flow -/
theorem satisfied_eq (q : Query) (hc : ∀ c, q.cond = some c → c.ok = true) (f : Flow) :
    satisfied (plan q) f = q.matches f := by
  unfold satisfied plan Query.matches
  cases h : q.cond with
  | none => rfl
  | some c =>
    simp only
    rw [cmpVal_sem _ _ (Flags.le_refl _), nnf_sem c (hc c h) false]
    simp

/-- **pruning_sound** for the query plan: an entry skipped by the IP-version limit cannot satisfy
    the condition -/
theorem plan_sound (q : Query) (hc : ∀ c, q.cond = some c → c.ok = true) (f : Flow) (hf : flowOk f = true)
    (hs : q.matches f = true) :
    ((plan q).ipVersion = IPVersionV4 → f.isV4 = true) ∧ ((plan q).ipVersion = IPVersionV6 → f.isV4 = false) := by
  unfold plan
  cases h : q.cond with
  | none => simp [IPVersionNone, IPVersionV4, IPVersionV6]
  | some c =>
    simp only
    apply limit_sound _ f hf
    rw [nnf_sem c (hc c h) false]
    simpa [Query.matches, h] using hs

/-- the entries looked at, filtered by the condition, are the block's flows filtered by the condition -/
theorem entries_filter_perm (q : Query) (hc : ∀ c, q.cond = some c → c.ok = true) (w : WriteOut)
    (hw : ∀ f ∈ w.flows, flowOk f = true) :
    ((entriesOf (plan q) w).filter (satisfied (plan q))).Perm (w.flows.filter q.matches) := by
  have hsat : satisfied (plan q) = q.matches := funext (satisfied_eq q hc)
  rw [hsat]
  unfold entriesOf
  simp only
  split
  · rename_i h6
    rw [List.filter_filter]
    apply List.Perm.of_eq
    apply List.filter_congr
    intro f hf
    cases hm : q.matches f
    · simp
    · simp [(plan_sound q hc f (hw f hf) hm).2 h6]
  · split
    · rename_i h4
      rw [List.filter_filter]
      apply List.Perm.of_eq
      apply List.filter_congr
      intro f hf
      cases hm : q.matches f
      · simp
      · simp [(plan_sound q hc f (hw f hf) hm).1 h4]
    · exact (List.filter_append_perm _ _).filter _

theorem flatMap_perm_pointwise {α β : Type} (l : List α) (f g : α → List β) (h : ∀ x ∈ l, (f x).Perm (g x)) :
    (l.flatMap f).Perm (l.flatMap g) := by
  induction l with
  | nil => exact List.Perm.refl _
  | cons x xs ih =>
    simp only [List.flatMap_cons]
    exact (h x (by simp)).append (ih (fun y hy => h y (by simp [hy])))

/-- the model-keyed items of one block, taken from the spec's side -/
def mBlock (q : Query) (w : WriteOut) : List (MKey × Ctr) :=
  (w.flows.filter q.matches).map fun f => (mkey (plan q) w f, ctrOf f)

def histOf (hist : List WriteOut) (i : String) : List WriteOut := hist.filter (·.iface == i)

def mIface (hist : List WriteOut) (q : Query) (i : String) : List (MKey × Ctr) :=
  ((histOf hist i).filter (inRange q.first q.last)).flatMap (mBlock q)

theorem blockItems_perm (q : Query) (hc : ∀ c, q.cond = some c → c.ok = true) (w : WriteOut)
    (hw : ∀ f ∈ w.flows, flowOk f = true) : (blockItems (plan q) w).Perm (mBlock q w) :=
  (entries_filter_perm q hc w hw).map _

/-- the final map of an interface represents the matching flows of its blocks in the range -/
theorem rep_ifaceMap (hist : List WriteOut) (q : Query) (i : String)
    (hc : ∀ c, q.cond = some c → c.ok = true)
    (hf : ∀ w ∈ hist, ∀ f ∈ w.flows, flowOk f = true)
    (hh : histOk (histOf hist i) = true) :
    Rep (ifaceMap hist q i) (mIface hist q i) := by
  have hinv := inv_build _ (hist_of_histOk _ hh)
  have h := rep_scanIface (plan q) q.first q.last (build (histOf hist i))
  rw [scanned_eq _ hinv] at h
  apply rep_perm h
  refine ((allBlocks_build_perm _).filter _).flatMap_right _ |>.trans ?_
  apply flatMap_perm_pointwise
  intro w hw
  have hw' : w ∈ hist := (List.mem_filter.mp (List.mem_filter.mp hw).1).1
  exact blockItems_perm q hc w (hf w hw')

section amap
variable {κ : Type} [DecidableEq κ]

theorem rep_append {a b ia ib : List (κ × Ctr)} (ha : Rep a ia) (hb : Rep b ib)
    (hd : ∀ k ∈ ia.map (·.1), k ∉ ib.map (·.1)) : Rep (a ++ b) (ia ++ ib) := by
  refine ⟨?_, ?_, ?_⟩
  · rw [List.map_append, List.nodup_append]
    refine ⟨ha.nodup, hb.nodup, ?_⟩
    intro x hx y hy hxy
    subst hxy
    exact hd x ((ha.keys x).mp hx) ((hb.keys x).mp hy)
  · intro k; simp only [List.map_append, List.mem_append, ha.keys, hb.keys]
  · intro k; simp only [sumFor_append, ha.sums, hb.sums]

/-- concatenation of maps whose items carry distinct tags -/
theorem rep_flatMap {ι : Type} (L : List ι) (m its : ι → List (κ × Ctr)) (tag : κ → ι)
    (hr : ∀ i ∈ L, Rep (m i) (its i)) (hn : L.Nodup)
    (ht : ∀ i ∈ L, ∀ k ∈ (its i).map (·.1), tag k = i) : Rep (L.flatMap m) (L.flatMap its) := by
  induction L with
  | nil => exact rep_nil
  | cons i L ih =>
    have hn' := List.nodup_cons.mp hn
    simp only [List.flatMap_cons]
    apply rep_append (hr i (by simp)) (ih (fun j hj => hr j (by simp [hj])) hn'.2 (fun j hj => ht j (by simp [hj])))
    intro k hk hk'
    simp only [List.map_flatMap, List.mem_flatMap] at hk'
    obtain ⟨j, hj, hkj⟩ := hk'
    have h1 := ht i (by simp) k hk
    have h2 := ht j (by simp [hj]) k hkj
    exact hn'.1 (h1 ▸ h2 ▸ hj)

end amap

/-! ## interfaces -/

theorem insertStr_perm (s : String) (l : List String) : (insertStr s l).Perm (s :: l) := by
  induction l with
  | nil => exact List.Perm.refl _
  | cons x xs ih =>
    simp only [insertStr]
    split
    · exact List.Perm.refl _
    · exact (List.Perm.cons x ih).trans (List.Perm.swap s x xs)

theorem sortStrs_perm (l : List String) : (sortStrs l).Perm l := by
  induction l with
  | nil => exact List.Perm.refl _
  | cons x xs ih =>
    simp only [sortStrs, List.foldr_cons]
    exact (insertStr_perm x _).trans (List.Perm.cons x ih)

theorem filter_or_perm {α : Type} (l : List α) (a b : α → Bool) (h : ∀ x ∈ l, ¬(a x = true ∧ b x = true)) :
    (l.filter fun x => a x || b x).Perm (l.filter a ++ l.filter b) := by
  induction l with
  | nil => exact List.Perm.refl _
  | cons x xs ih =>
    have ih' := ih (fun y hy => h y (by simp [hy]))
    have hx := h x (by simp)
    cases ha : a x <;> cases hb : b x
    · simpa [List.filter_cons, ha, hb] using ih'
    · simp only [List.filter_cons, ha, hb, Bool.or_true, if_true, Bool.false_eq_true, if_false]
      exact (List.Perm.cons x ih').trans List.perm_middle.symm
    · simp only [List.filter_cons, ha, hb, Bool.or_false, if_true, Bool.false_eq_true, if_false, List.cons_append]
      exact List.Perm.cons x ih'
    · exact absurd ⟨ha, hb⟩ hx

/-- splitting a history by interface -/
theorem iface_partition (hist : List WriteOut) (L : List String) (hn : L.Nodup) (P : WriteOut → Bool) :
    (L.flatMap fun i => (histOf hist i).filter P).Perm (hist.filter fun w => L.contains w.iface && P w) := by
  induction L with
  | nil => simp
  | cons i L ih =>
    have hn' := List.nodup_cons.mp hn
    simp only [List.flatMap_cons]
    have h1 : (hist.filter fun w => (i :: L).contains w.iface && P w) =
        hist.filter (fun w => (w.iface == i && P w) || (L.contains w.iface && P w)) := by
      apply List.filter_congr
      intro w _
      simp only [List.contains_cons]
      cases (w.iface == i) <;> cases (L.contains w.iface) <;> cases (P w) <;> rfl
    rw [h1]
    refine List.Perm.trans ?_ (filter_or_perm hist _ _ ?_).symm
    · refine List.Perm.append ?_ (ih hn'.2)
      unfold histOf; rw [List.filter_filter]
      apply List.Perm.of_eq
      apply List.filter_congr
      intro w _; exact Bool.and_comm _ _
    · intro w _ ⟨ha, hb⟩
      simp only [Bool.and_eq_true, beq_iff_eq, List.contains_iff_mem] at ha hb
      exact hn'.1 (ha.1 ▸ hb.1)

theorem mem_ifacesOf (hist : List WriteOut) (w : WriteOut) (h : w ∈ hist) : w.iface ∈ ifacesOf hist :=
  (mem_dedup _ _).mpr (List.mem_map.mpr ⟨w, h, rfl⟩)

theorem nodup_ifaceList (hist : List WriteOut) (q : Query) : (ifaceList hist q).Nodup :=
  (sortStrs_perm _).nodup_iff.mpr ((nodup_dedup _).filter _)

theorem mem_ifaceList (hist : List WriteOut) (q : Query) (i : String) :
    i ∈ ifaceList hist q ↔ i ∈ ifacesOf hist ∧ q.wants i = true := by
  unfold ifaceList queried
  rw [(sortStrs_perm _).mem_iff, List.mem_filter]

/-! ## dropping the `isIPv4` component of the map keys -/

def dropFlag (e : MKey × Ctr) : Key × Ctr := (e.1.2, e.2)

theorem sumFor_dropFlag (L : List (MKey × Ctr)) (mk : MKey)
    (hinj : ∀ a ∈ L.map (·.1), a.2 = mk.2 → a = mk) : sumFor (L.map dropFlag) mk.2 = sumFor L mk := by
  induction L with
  | nil => rfl
  | cons e L ih =>
    have ih' := ih (fun a ha => hinj a (by simp [ha]))
    simp only [List.map_cons, sumFor_cons, ih']
    congr 1
    by_cases h : e.1 = mk
    · simp [dropFlag, h]
    · have : ¬ e.1.2 = mk.2 := fun h' => h (hinj e.1 (by simp) h')
      simp [dropFlag, h, this]

/-- a map whose keys are determined by their `Key` component, seen as a map over `Key` -/
theorem rep_dropFlag {E MI : List (MKey × Ctr)} (h : Rep E MI)
    (hinj : ∀ a ∈ MI.map (·.1), ∀ b ∈ MI.map (·.1), a.2 = b.2 → a = b) :
    Rep (E.map dropFlag) (MI.map dropFlag) := by
  have hinjE : ∀ a ∈ E.map (·.1), ∀ b ∈ E.map (·.1), a.2 = b.2 → a = b :=
    fun a ha b hb => hinj a ((h.keys a).mp ha) b ((h.keys b).mp hb)
  have hkeys : ∀ (L : List (MKey × Ctr)) (k : Key), k ∈ (L.map dropFlag).map (·.1) ↔ ∃ mk ∈ L.map (·.1), mk.2 = k := by
    intro L k
    simp only [List.map_map, List.mem_map, Function.comp_def, dropFlag]
    constructor
    · rintro ⟨e, he, rfl⟩; exact ⟨e.1, ⟨e, he, rfl⟩, rfl⟩
    · rintro ⟨mk, ⟨e, he, rfl⟩, rfl⟩; exact ⟨e, he, rfl⟩
  refine ⟨?_, ?_, ?_⟩
  · have : (E.map dropFlag).map (·.1) = (E.map (·.1)).map (·.2) := by
      simp [List.map_map, Function.comp_def, dropFlag]
    rw [this, List.Nodup, List.pairwise_map]
    exact List.Pairwise.imp_of_mem (fun {a b} ha hb hne heq => hne (hinjE a ha b hb heq)) h.nodup
  · intro k
    rw [hkeys, hkeys]
    constructor
    · rintro ⟨mk, hm, rfl⟩; exact ⟨mk, (h.keys mk).mp hm, rfl⟩
    · rintro ⟨mk, hm, rfl⟩; exact ⟨mk, (h.keys mk).mpr hm, rfl⟩
  · intro k
    by_cases hk : ∃ mk ∈ MI.map (·.1), mk.2 = k
    · obtain ⟨mk, hm, rfl⟩ := hk
      rw [sumFor_dropFlag E mk (fun a ha => hinjE a ha mk ((h.keys mk).mpr hm)),
          sumFor_dropFlag MI mk (fun a ha => hinj a ha mk hm), h.sums]
    · rw [sumFor_not_mem, sumFor_not_mem]
      · rw [hkeys]; exact hk
      · rw [hkeys]; rintro ⟨mk, hm, rfl⟩; exact hk ⟨mk, (h.keys mk).mp hm, rfl⟩

/-- the flag is determined by the key: equal keys come from flows of the same family whenever an
    address is part of the key, and the flag is constant otherwise -/
theorem mkey_inj (p : Plan) (w w' : WriteOut) (f f' : Flow) (hf : flowOk f = true) (hf' : flowOk f' = true)
    (h : (mkey p w f).2 = (mkey p w' f').2) : mkey p w f = mkey p w' f' := by
  simp only [flowOk, Bool.and_eq_true, Bool.or_eq_true, beq_iff_eq, decide_eq_true_eq] at hf hf'
  obtain ⟨⟨⟨_, hd⟩, _⟩, _⟩ := hf
  obtain ⟨⟨⟨_, hd'⟩, _⟩, _⟩ := hf'
  simp only [mkey] at h ⊢
  have hk := h
  simp only [keyOf, Key.mk.injEq] at hk
  obtain ⟨_, _, hs, hdp, _, _⟩ := hk
  rw [Prod.mk.injEq]
  refine ⟨?_, h⟩
  cases hsip : p.sel.sip
  · cases hdip : p.sel.dip
    · simp
    · simp only [hdip, if_true, Option.some.injEq] at hdp
      simp only [Flow.isV4, Bool.or_true, Bool.not_true, Bool.or_false]
      rw [← hd, ← hd', hdp]
  · simp only [hsip, if_true, Option.some.injEq] at hs
    simp [Flow.isV4, hs]

/-! ## the result preparation loop -/

theorem foldl_emit (dir : Option Dir) (E : List (MKey × Ctr)) (a : Acc) :
    E.foldl (emit dir) a =
      ⟨a.rows ++ (E.filter fun e => valFilter dir e.2).map dropFlag,
       a.totals.add (sumCtr ((E.filter fun e => valFilter dir e.2).map (·.2))),
       a.count + (E.filter fun e => valFilter dir e.2).length⟩ := by
  induction E generalizing a with
  | nil => simp [sumCtr, Ctr.add_zero]
  | cons e E ih =>
    simp only [List.foldl_cons, ih, emit]
    cases hv : valFilter dir e.2
    · simp [hv]
    · simp only [if_true, List.filter_cons, hv, List.map_cons, List.append_assoc, List.singleton_append, sumCtr,
        List.length_cons, Ctr.add_assoc, dropFlag]
      congr 1; omega

theorem foldl_flatMap' {α β γ : Type} (l : List α) (g : α → List β) (f : γ → β → γ) (a : γ) :
    l.foldl (fun a x => (g x).foldl f a) a = (l.flatMap g).foldl f a := by
  induction l generalizing a with
  | nil => rfl
  | cons x xs ih => simp [List.flatMap_cons, List.foldl_append, ih]

/-- the direction filter of the code is the spec's -/
theorem valFilter_eq (dir : Option Dir) (c : Ctr) : valFilter dir c = dirOk dir c := by
  cases dir with
  | none => rfl
  | some d =>
    have hb : ∀ n : Nat, (n == 0) = decide (n = 0) := fun n => by cases n <;> simp
    cases d <;>
      simp [valFilter, dirOk, toCounters, Counters_IsOnlyInbound, Counters_IsOnlyOutbound,
        Counters_IsUnidirectional, Counters_IsBidirectional, Bool.decide_and, Bool.decide_or, hb]

end C08
