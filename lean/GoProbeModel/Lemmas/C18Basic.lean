import GoProbeModel.Model.C18

/-!
C18 — helper lemmas, part 1: constants, bit arithmetic on bucket indices, well-formed chains
(`GoodAs`), and what lookup / scan / evacuation-destination writes do on them.
-/
set_option linter.unusedSectionVars false
set_option linter.unusedSimpArgs false
set_option linter.unusedVariables false

namespace C18
open Gen.HashMap

@[simp] theorem bucketCnt_eq : bucketCnt = 8 := rfl
@[simp] theorem minTopHash_eq : minTopHash = 5 := rfl
@[simp] theorem emptyRest_eq : emptyRest = 0 := rfl
@[simp] theorem emptyOne_eq : emptyOne = 1 := rfl
@[simp] theorem evacuatedX_eq : evacuatedX = 2 := rfl
@[simp] theorem evacuatedY_eq : evacuatedY = 3 := rfl
@[simp] theorem evacuatedEmpty_eq : evacuatedEmpty = 4 := rfl
@[simp] theorem noBucket_eq : noBucket = -1 := rfl
@[simp] theorem bucketCntBits_eq : bucketCntBits = 3 := rfl

theorem topHash_ge (h : Nat) : 5 ≤ topHash h := by
  unfold topHash
  simp only
  split <;> omega

theorem isEmpty_iff (x : Nat) : isEmpty x = true ↔ x ≤ 1 := by
  simp [isEmpty]

/-! ### bucket index arithmetic -/

theorem and_mask_pow (h B : Nat) : h &&& (2 ^ B - 1) = h % 2 ^ B := Nat.and_two_pow_sub_one_eq_mod h B

theorem and_mask_lt (h n : Nat) (hn : 0 < n) : h &&& (n - 1) < n := by
  have := @Nat.and_le_right h (n - 1)
  omega

theorem mask_shift (B : Nat) : (2 ^ (B + 1) - 1) >>> 1 = 2 ^ B - 1 := by
  rw [Nat.shiftRight_eq_div_pow, Nat.pow_succ]
  have : 0 < 2 ^ B := Nat.pow_pos (by omega)
  omega

theorem and_pow_eq (h B : Nat) : h &&& 2 ^ B = if h.testBit B then 2 ^ B else 0 := by
  apply Nat.eq_of_testBit_eq
  intro i
  rw [Nat.testBit_and, Nat.testBit_two_pow]
  by_cases hi : B = i
  · subst hi; by_cases ht : h.testBit B <;> simp [ht]
  · by_cases ht : h.testBit B <;> simp [ht, hi]

theorem mod_succ_testBit (h B : Nat) :
    h % 2 ^ (B + 1) = h % 2 ^ B + (if h.testBit B then 2 ^ B else 0) := by
  rw [Nat.mod_pow_succ, Nat.testBit_eq_decide_div_mod_eq]
  have : h / 2 ^ B % 2 < 2 := Nat.mod_lt _ (by omega)
  by_cases ht : h / 2 ^ B % 2 = 1
  · simp [ht]
  · have h0 : h / 2 ^ B % 2 = 0 := by omega
    simp [h0]

/-- `hash & newBit` for `newBit = 2^B` is the bit that decides between the X and the Y half -/
theorem and_pow_eq_zero_iff (h B : Nat) : h &&& 2 ^ B = 0 ↔ h % 2 ^ (B + 1) = h % 2 ^ B := by
  have hp : 0 < 2 ^ B := Nat.pow_pos (by omega)
  rw [and_pow_eq, mod_succ_testBit]
  by_cases ht : h.testBit B <;> simp [ht] <;> omega

theorem and_pow_ne_zero_iff (h B : Nat) : h &&& 2 ^ B ≠ 0 ↔ h % 2 ^ (B + 1) = h % 2 ^ B + 2 ^ B := by
  have hp : 0 < 2 ^ B := Nat.pow_pos (by omega)
  rw [and_pow_eq, mod_succ_testBit]
  by_cases ht : h.testBit B <;> simp [ht] <;> omega

/-! ### chains -/

variable {κ : Type} [DecidableEq κ] [Inhabited κ]

def kv (c : Cell κ) : κ × Val := (c.key, c.val)

/-- the entries stored in the filled cells of a chain, in chain order -/
def cellsOf (c : Chain κ) : List (κ × Val) := (c.filter fun x => decide (minTopHash ≤ x.top)).map kv

/-- A well-formed live chain: filled cells `fs` followed by `r` pristine cells; every filled cell
    carries the tophash of its key and a key that belongs to bucket `i` under `mask`; keys distinct. -/
structure GoodAs (hash : κ → Nat) (mask i : Nat) (c : Chain κ) (fs : List (Cell κ)) (r : Nat) : Prop where
  eq : c = fs ++ List.replicate r emptyCell
  pos : 0 < fs.length + r
  tops : ∀ x ∈ fs, x.top = topHash (hash x.key)
  place : ∀ x ∈ fs, hash x.key &&& mask = i
  nodup : (fs.map (·.key)).Nodup

def Good (hash : κ → Nat) (mask i : Nat) (c : Chain κ) : Prop := ∃ fs r, GoodAs hash mask i c fs r

@[simp] theorem emptyCell_top : (emptyCell : Cell κ).top = 0 := rfl

theorem filter_filled_replicate (r : Nat) :
    (List.replicate r (emptyCell : Cell κ)).filter (fun x => decide (minTopHash ≤ x.top)) = [] := by
  rw [List.filter_eq_nil_iff]
  intro a ha
  rw [List.mem_replicate] at ha
  simp [ha.2]

theorem filter_filled_of_tops {hash : κ → Nat} {fs : List (Cell κ)} (h : ∀ x ∈ fs, x.top = topHash (hash x.key)) :
    fs.filter (fun x => decide (minTopHash ≤ x.top)) = fs := by
  rw [List.filter_eq_self]
  intro a ha
  have := topHash_ge (hash a.key)
  simp [h a ha, this]

theorem cellsOf_append_replicate {hash : κ → Nat} {fs : List (Cell κ)} (r : Nat)
    (h : ∀ x ∈ fs, x.top = topHash (hash x.key)) :
    cellsOf (fs ++ List.replicate r emptyCell) = fs.map kv := by
  unfold cellsOf
  rw [List.filter_append, filter_filled_replicate, filter_filled_of_tops h, List.append_nil]

theorem GoodAs.cellsOf {hash : κ → Nat} {mask i : Nat} {c : Chain κ} {fs : List (Cell κ)} {r : Nat}
    (g : GoodAs hash mask i c fs r) : cellsOf c = fs.map kv := by
  rw [g.eq]; exact cellsOf_append_replicate r g.tops

theorem newChain_good (hash : κ → Nat) (mask i : Nat) : GoodAs hash mask i (newChain : Chain κ) [] 8 :=
  { eq := by simp [newChain], pos := by simp, tops := by simp, place := by simp, nodup := by simp }

theorem cellsOf_newChain : cellsOf (newChain : Chain κ) = [] := by
  have := (newChain_good (κ := κ) (fun _ => 0) 0 0).cellsOf
  simpa using this

theorem GoodAs.not_evacuated {hash : κ → Nat} {mask i : Nat} {c : Chain κ} {fs : List (Cell κ)} {r : Nat}
    (g : GoodAs hash mask i c fs r) : evacuated c = false := by
  rw [g.eq]
  cases fs with
  | nil =>
    cases r with
    | zero => have := g.pos; simp at this
    | succ r => simp [evacuated, List.replicate_succ]
  | cons x xs =>
    have h1 := g.tops x (by simp)
    have h2 := topHash_ge (hash x.key)
    simp [evacuated]
    omega

/-- lookup in a well-formed chain finds the filled cell with that key -/
theorem lookupChain_fs (hash : κ → Nat) (k : κ) (r : Nat) :
    ∀ (fs : List (Cell κ)), (∀ x ∈ fs, x.top = topHash (hash x.key)) →
      lookupChain (topHash (hash k)) k (fs ++ List.replicate r emptyCell) = fs.find? (fun x => decide (x.key = k))
  | [], _ => by
    cases r with
    | zero => simp [lookupChain]
    | succ r =>
      have := topHash_ge (hash k)
      simp only [List.nil_append, List.replicate_succ, lookupChain, emptyCell_top, emptyRest_eq, List.find?_nil]
      rw [if_pos (by omega)]
      simp
  | x :: xs, h => by
    have hx := h x (by simp)
    have ih := lookupChain_fs hash k r xs (fun y hy => h y (by simp [hy]))
    have hge := topHash_ge (hash x.key)
    simp only [List.cons_append, lookupChain, List.find?_cons]
    by_cases hk : x.key = k
    · subst hk
      simp [hx]
    · have hk' : ¬ k = x.key := fun e => hk e.symm
      by_cases ht : x.top = topHash (hash k)
      · simp [ht, hk, hk', ih]
      · rw [if_pos ht, if_neg (by simp only [emptyRest_eq]; omega)]
        simp [hk, ih]

theorem GoodAs.lookupChain {hash : κ → Nat} {mask i : Nat} {c : Chain κ} {fs : List (Cell κ)} {r : Nat}
    (g : GoodAs hash mask i c fs r) (k : κ) :
    lookupChain (topHash (hash k)) k c = fs.find? (fun x => decide (x.key = k)) := by
  rw [g.eq]; exact lookupChain_fs hash k r fs g.tops

/-- in a list with distinct keys, `find?` by key and membership of the (key, value) pair agree -/
theorem find_key_iff {fs : List (Cell κ)} (nd : (fs.map (·.key)).Nodup) (k : κ) (v : Val) :
    (fs.find? (fun x => decide (x.key = k))).map (·.val) = some v ↔ (k, v) ∈ fs.map kv := by
  induction fs with
  | nil => simp
  | cons x xs ih =>
    rw [List.map_cons, List.nodup_cons] at nd
    rw [List.find?_cons]
    by_cases hk : x.key = k
    · subst hk
      simp only [decide_true, Option.map_some, Option.some.injEq, List.map_cons, List.mem_cons]
      constructor
      · intro h; left; simp [kv, h]
      · intro h
        rcases h with h | h
        · simp [kv] at h; exact h.symm
        · exfalso; apply nd.1
          rw [List.mem_map] at h ⊢
          obtain ⟨y, hy, e⟩ := h
          exact ⟨y, hy, by simp [kv] at e; exact e.1⟩
    · simp only [hk, decide_false, List.map_cons, List.mem_cons]
      rw [ih nd.2]
      constructor
      · intro h; right; exact h
      · intro h
        rcases h with h | h
        · simp [kv] at h; exact absurd h.1.symm hk
        · exact h

/-- a key that occurs among the keys of `fs` splits `fs` at its first occurrence -/
theorem split_at_key (k : κ) : ∀ (fs : List (Cell κ)), k ∈ fs.map (·.key) →
    ∃ as c bs, fs = as ++ c :: bs ∧ c.key = k ∧ k ∉ as.map (·.key)
  | [], h => by simp at h
  | x :: xs, h => by
    by_cases hx : x.key = k
    · exact ⟨[], x, xs, by simp, hx, by simp⟩
    · have : k ∈ xs.map (·.key) := by
        simp only [List.map_cons, List.mem_cons] at h
        rcases h with h | h
        · exact absurd h.symm hx
        · exact h
      obtain ⟨as, c, bs, e, hc, hn⟩ := split_at_key k xs this
      refine ⟨x :: as, c, bs, by simp [e], hc, ?_⟩
      simp only [List.map_cons, List.mem_cons, not_or]
      exact ⟨fun e => hx e.symm, hn⟩

theorem scanChain_miss (hash : κ → Nat) (k : κ) (r : Nat) :
    ∀ (fs : List (Cell κ)) (p : Nat), (∀ x ∈ fs, x.top = topHash (hash x.key)) → k ∉ fs.map (·.key) →
      scanChain (topHash (hash k)) k p none (fs ++ List.replicate r emptyCell)
        = .miss (if r = 0 then none else some (p + fs.length))
  | [], p, _, _ => by
    cases r with
    | zero => simp [scanChain]
    | succ r =>
      have := topHash_ge (hash k)
      have h0 : 0 ≠ topHash (hash k) := by omega
      simp [scanChain, List.replicate_succ, h0, isEmpty]
  | x :: xs, p, h, hk => by
    have hx := h x (by simp)
    have hge := topHash_ge (hash x.key)
    have hkx : k ≠ x.key := fun e => hk (by simp [e])
    have ih := scanChain_miss hash k r xs (p + 1) (fun y hy => h y (by simp [hy]))
      (fun hm => hk (by simp only [List.map_cons, List.mem_cons]; right; exact hm))
    have e1 : p + 1 + xs.length = p + (xs.length + 1) := by omega
    simp only [List.cons_append, scanChain, List.length_cons]
    by_cases ht : x.top = topHash (hash k)
    · rw [if_neg (by simp [ht]), if_pos hkx, ih, e1]
    · have he : isEmpty x.top = false := by simp [isEmpty]; omega
      have h0 : ¬ x.top = 0 := by omega
      rw [if_pos ht]
      simp only [he, Bool.false_eq_true, false_and, if_false, emptyRest_eq, h0]
      rw [ih, e1]

theorem scanChain_found (hash : κ → Nat) (k : κ) (r : Nat) :
    ∀ (as : List (Cell κ)) (c : Cell κ) (bs : List (Cell κ)) (p : Nat),
      (∀ x ∈ as ++ c :: bs, x.top = topHash (hash x.key)) → k ∉ as.map (·.key) → c.key = k →
      scanChain (topHash (hash k)) k p none ((as ++ c :: bs) ++ List.replicate r emptyCell)
        = .found (p + as.length)
  | [], c, bs, p, h, _, hc => by
    have hx := h c (by simp)
    subst hc
    simp [scanChain, hx]
  | x :: xs, c, bs, p, h, hk, hc => by
    have hx := h x (by simp)
    have hge := topHash_ge (hash x.key)
    have hkx : k ≠ x.key := fun e => hk (by simp [e])
    have ih := scanChain_found hash k r xs c bs (p + 1) (fun y hy => h y (by simp at hy ⊢; right; exact hy))
      (fun hm => hk (by simp only [List.map_cons, List.mem_cons]; right; exact hm)) hc
    have e1 : p + 1 + xs.length = p + (xs.length + 1) := by omega
    simp only [List.cons_append, scanChain, List.length_cons]
    by_cases ht : x.top = topHash (hash k)
    · rw [if_neg (by simp [ht]), if_pos hkx, ih, e1]
    · have he : isEmpty x.top = false := by simp [isEmpty]; omega
      have h0 : ¬ x.top = 0 := by omega
      rw [if_pos ht]
      simp only [he, Bool.false_eq_true, false_and, if_false, emptyRest_eq, h0]
      rw [ih, e1]

/-! ### evacuation destinations -/

/-- the destination holds exactly the cells `w` written so far, followed by pristine cells, and its
    length is a positive multiple of the bucket size -/
def DstOK (d : Dst κ) (w : List (Cell κ)) : Prop :=
  ∃ r, d.chain = w ++ List.replicate r emptyCell ∧ d.n = w.length ∧ (w.length + r) % 8 = 0 ∧ 0 < w.length + r

theorem dstOK_new : DstOK (⟨newChain, 0⟩ : Dst κ) [] := ⟨8, by simp [newChain], rfl, by simp, by simp⟩

theorem DstOK.put {d : Dst κ} {w : List (Cell κ)} (h : DstOK d w) (c : Cell κ) : DstOK (d.put c).1 (w ++ [c]) := by
  obtain ⟨r, hc, hn, hm, hp⟩ := h
  unfold Dst.put
  by_cases hfull : d.n > 0 ∧ d.n % bucketCnt = 0
  · rw [if_pos hfull]
    refine ⟨7, ?_, by simp [hn], ?_, by simp⟩
    · simp only [hc, hn, List.take_left', bucketCnt_eq]
      simp
    · simp only [bucketCnt_eq] at hfull
      simp only [List.length_append, List.length_cons, List.length_nil]
      omega
  · rw [if_neg hfull]
    simp only [bucketCnt_eq] at hfull
    have hr : 0 < r := by
      rcases Nat.eq_zero_or_pos r with h0 | h0
      · subst h0; exfalso; apply hfull; omega
      · exact h0
    obtain ⟨r', rfl⟩ : ∃ r', r = r' + 1 := ⟨r - 1, by omega⟩
    refine ⟨r', ?_, by simp [hn], ?_, by simp only [List.length_append, List.length_cons, List.length_nil]; omega⟩
    · simp only [hc, hn]
      rw [List.set_append]
      simp [List.replicate_succ]
    · simp only [List.length_append, List.length_cons, List.length_nil]
      omega

theorem DstOK.chain_cellsOf {hash : κ → Nat} {d : Dst κ} {w : List (Cell κ)} (h : DstOK d w)
    (ht : ∀ x ∈ w, x.top = topHash (hash x.key)) : cellsOf d.chain = w.map kv := by
  obtain ⟨r, hc, -, -, -⟩ := h
  rw [hc]; exact cellsOf_append_replicate r ht

/-- which half a cell of the old bucket goes to (`useY` in `evacuate`) -/
def useY (hash : κ → Nat) (sameSize : Bool) (newBit : Nat) (c : Cell κ) : Bool :=
  !sameSize && (hash c.key &&& newBit != 0)

theorem evacCell_filled (hash : κ → Nat) (sameSize : Bool) (newBit : Nat) (st : EvacSt κ) (c : Cell κ)
    (hc : 5 ≤ c.top) :
    evacCell hash sameSize newBit st c =
      if useY hash sameSize newBit c then
        { st with y := (st.y.put c).1, nOverflow := st.nOverflow + (st.y.put c).2,
                  marked := { c with top := evacuatedX + 1 } :: st.marked }
      else
        { st with x := (st.x.put c).1, nOverflow := st.nOverflow + (st.x.put c).2,
                  marked := { c with top := evacuatedX + 0 } :: st.marked } := by
  have h1 : isEmpty c.top = false := by simp [isEmpty]; omega
  have h2 : ¬ c.top < minTopHash := by simp; omega
  unfold evacCell
  simp only [h1, Bool.false_eq_true, if_false, h2]
  unfold useY
  by_cases hy : (!sameSize && (hash c.key &&& newBit != 0)) = true
  · simp only [hy, if_true]
  · simp only [hy, Bool.false_eq_true, if_false]

/-- evacuating the filled cells `cs`: the X destination receives those with `useY = false`, in order -/
theorem evac_fold_filled_x (hash : κ → Nat) (sameSize : Bool) (newBit : Nat) :
    ∀ (cs : List (Cell κ)) (st : EvacSt κ) (wx : List (Cell κ)), (∀ c ∈ cs, 5 ≤ c.top) →
      DstOK st.x wx →
      DstOK (cs.foldl (evacCell hash sameSize newBit) st).x (wx ++ cs.filter (fun c => !useY hash sameSize newBit c))
  | [], st, wx, _, hx => by simpa using hx
  | c :: cs, st, wx, h, hx => by
    have hc := h c (by simp)
    simp only [List.foldl_cons]
    rw [evacCell_filled hash sameSize newBit st c hc]
    by_cases hu : useY hash sameSize newBit c = true
    · rw [if_pos hu]
      have ih := evac_fold_filled_x hash sameSize newBit cs
        { st with y := (st.y.put c).1, nOverflow := st.nOverflow + (st.y.put c).2,
                  marked := { c with top := evacuatedX + 1 } :: st.marked } wx
        (fun y hy => h y (by simp [hy])) hx
      simpa [List.filter_cons, hu] using ih
    · rw [if_neg hu]
      have hu' : useY hash sameSize newBit c = false := by simpa using hu
      have ih := evac_fold_filled_x hash sameSize newBit cs
        { st with x := (st.x.put c).1, nOverflow := st.nOverflow + (st.x.put c).2,
                  marked := { c with top := evacuatedX + 0 } :: st.marked } (wx ++ [c])
        (fun y hy => h y (by simp [hy])) (hx.put c)
      simpa [List.filter_cons, hu'] using ih

/-- … and the Y destination those with `useY = true` -/
theorem evac_fold_filled_y (hash : κ → Nat) (sameSize : Bool) (newBit : Nat) :
    ∀ (cs : List (Cell κ)) (st : EvacSt κ) (wy : List (Cell κ)), (∀ c ∈ cs, 5 ≤ c.top) →
      DstOK st.y wy →
      DstOK (cs.foldl (evacCell hash sameSize newBit) st).y (wy ++ cs.filter (fun c => useY hash sameSize newBit c))
  | [], st, wy, _, hy => by simpa using hy
  | c :: cs, st, wy, h, hy => by
    have hc := h c (by simp)
    simp only [List.foldl_cons]
    rw [evacCell_filled hash sameSize newBit st c hc]
    by_cases hu : useY hash sameSize newBit c = true
    · rw [if_pos hu]
      have ih := evac_fold_filled_y hash sameSize newBit cs
        { st with y := (st.y.put c).1, nOverflow := st.nOverflow + (st.y.put c).2,
                  marked := { c with top := evacuatedX + 1 } :: st.marked } (wy ++ [c])
        (fun y hy => h y (by simp [hy])) (hy.put c)
      simpa [List.filter_cons, hu] using ih
    · rw [if_neg hu]
      have hu' : useY hash sameSize newBit c = false := by simpa using hu
      have ih := evac_fold_filled_y hash sameSize newBit cs
        { st with x := (st.x.put c).1, nOverflow := st.nOverflow + (st.x.put c).2,
                  marked := { c with top := evacuatedX + 0 } :: st.marked } wy
        (fun y hy => h y (by simp [hy])) hy
      simpa [List.filter_cons, hu'] using ih

theorem evac_fold_filled_bad (hash : κ → Nat) (sameSize : Bool) (newBit : Nat) :
    ∀ (cs : List (Cell κ)) (st : EvacSt κ), (∀ c ∈ cs, 5 ≤ c.top) →
      (cs.foldl (evacCell hash sameSize newBit) st).bad = st.bad
  | [], st, _ => rfl
  | c :: cs, st, h => by
    have hc := h c (by simp)
    simp only [List.foldl_cons]
    rw [evacCell_filled hash sameSize newBit st c hc]
    by_cases hu : useY hash sameSize newBit c = true
    · rw [if_pos hu, evac_fold_filled_bad hash sameSize newBit cs _ (fun y hy => h y (by simp [hy]))]
    · rw [if_neg hu, evac_fold_filled_bad hash sameSize newBit cs _ (fun y hy => h y (by simp [hy]))]

theorem evacCell_emptyCell (hash : κ → Nat) (sameSize : Bool) (newBit : Nat) (st : EvacSt κ) :
    ∃ m : Cell κ, evacCell hash sameSize newBit st emptyCell = { st with marked := m :: st.marked } :=
  ⟨_, by simp [evacCell, isEmpty]; rfl⟩

/-- evacuating pristine cells only marks them -/
theorem evac_fold_empty (hash : κ → Nat) (sameSize : Bool) (newBit : Nat) :
    ∀ (r : Nat) (st : EvacSt κ),
      let st' := (List.replicate r emptyCell).foldl (evacCell hash sameSize newBit) st
      st'.x = st.x ∧ st'.y = st.y ∧ st'.bad = st.bad ∧ st'.nOverflow = st.nOverflow ∧ ∃ t, st'.marked = t ++ st.marked
  | 0, st => by simp
  | r + 1, st => by
    obtain ⟨m, hm⟩ := evacCell_emptyCell hash sameSize newBit st
    have ih := evac_fold_empty hash sameSize newBit r { st with marked := m :: st.marked }
    simp only [List.replicate_succ, List.foldl_cons]
    rw [hm]
    obtain ⟨i1, i2, i3, i4, t, i5⟩ := ih
    exact ⟨i1, i2, i3, i4, t ++ [m], by rw [i5]; simp⟩

theorem evacCell_marked (hash : κ → Nat) (sameSize : Bool) (newBit : Nat) (st : EvacSt κ) (c : Cell κ) :
    ∃ m, (evacCell hash sameSize newBit st c).marked = m :: st.marked ∧
      ((c.top ≤ 1 ∨ 5 ≤ c.top) → 2 ≤ m.top ∧ m.top ≤ 4) := by
  unfold evacCell
  by_cases h1 : isEmpty c.top = true
  · simp only [h1, if_true]
    exact ⟨_, rfl, fun _ => by simp⟩
  · simp only [h1, Bool.false_eq_true, if_false]
    have h1' : ¬ c.top ≤ 1 := by simpa [isEmpty] using h1
    by_cases h2 : c.top < minTopHash
    · simp only [h2, if_true]
      exact ⟨_, rfl, fun h => by simp at h2; omega⟩
    · simp only [h2, if_false]
      by_cases hy : (!sameSize && (hash c.key &&& newBit != 0)) = true
      · simp only [hy, if_true]
        exact ⟨_, rfl, fun _ => by simp⟩
      · simp only [hy, Bool.false_eq_true, if_false]
        exact ⟨_, rfl, fun _ => by simp⟩

theorem evac_fold_marked (hash : κ → Nat) (sameSize : Bool) (newBit : Nat) :
    ∀ (cs : List (Cell κ)) (st : EvacSt κ), ∃ t, (cs.foldl (evacCell hash sameSize newBit) st).marked = t ++ st.marked
  | [], st => ⟨[], by simp⟩
  | c :: cs, st => by
    obtain ⟨m, hm, -⟩ := evacCell_marked hash sameSize newBit st c
    obtain ⟨t, ht⟩ := evac_fold_marked hash sameSize newBit cs (evacCell hash sameSize newBit st c)
    exact ⟨t ++ [m], by simp only [List.foldl_cons]; rw [ht, hm]; simp⟩

theorem evac_fold_evacuated (hash : κ → Nat) (sameSize : Bool) (newBit : Nat) (c : Cell κ) (cs : List (Cell κ))
    (st : EvacSt κ) (hm : st.marked = []) (hc : c.top ≤ 1 ∨ 5 ≤ c.top) :
    evacuated ((c :: cs).foldl (evacCell hash sameSize newBit) st).marked.reverse = true := by
  obtain ⟨m, hm1, hm2⟩ := evacCell_marked hash sameSize newBit st c
  obtain ⟨t, ht⟩ := evac_fold_marked hash sameSize newBit cs (evacCell hash sameSize newBit st c)
  simp only [List.foldl_cons]
  rw [ht, hm1, hm]
  have := hm2 hc
  simp [evacuated]
  omega

/-- evacuating a well-formed chain: the X destination, the marks, no panic -/
theorem evac_fold_good (hash : κ → Nat) (sameSize : Bool) (newBit : Nat) (fs : List (Cell κ)) (r : Nat)
    (st : EvacSt κ) (htops : ∀ x ∈ fs, x.top = topHash (hash x.key)) (hpos : 0 < fs.length + r)
    (hx : DstOK st.x []) (hm : st.marked = []) :
    let st' := (fs ++ List.replicate r emptyCell).foldl (evacCell hash sameSize newBit) st
    DstOK st'.x (fs.filter (fun c => !useY hash sameSize newBit c)) ∧
    (DstOK st.y [] → DstOK st'.y (fs.filter (fun c => useY hash sameSize newBit c))) ∧
    st'.bad = st.bad ∧ evacuated st'.marked.reverse = true := by
  have hge : ∀ c ∈ fs, 5 ≤ c.top := fun c hc => by rw [htops c hc]; exact topHash_ge _
  intro st'
  have hev : evacuated st'.marked.reverse = true := by
    show evacuated ((fs ++ List.replicate r emptyCell).foldl (evacCell hash sameSize newBit) st).marked.reverse = true
    cases fs with
    | nil =>
      cases r with
      | zero => simp at hpos
      | succ r =>
        simp only [List.nil_append, List.replicate_succ]
        exact evac_fold_evacuated hash sameSize newBit _ _ st hm (by simp)
    | cons c cs =>
      simp only [List.cons_append]
      exact evac_fold_evacuated hash sameSize newBit _ _ st hm (Or.inr (hge c (by simp)))
  have a1 := evac_fold_filled_x hash sameSize newBit fs st [] hge hx
  have a3 := evac_fold_filled_bad hash sameSize newBit fs st hge
  have h2 := evac_fold_empty hash sameSize newBit r (fs.foldl (evacCell hash sameSize newBit) st)
  simp only [List.nil_append] at a1
  obtain ⟨b1, b2, b3, -, -⟩ := h2
  have e : st' = (List.replicate r emptyCell).foldl (evacCell hash sameSize newBit) (fs.foldl (evacCell hash sameSize newBit) st) := by
    show (fs ++ List.replicate r emptyCell).foldl (evacCell hash sameSize newBit) st = _
    rw [List.foldl_append]
  refine ⟨?_, ?_, ?_, hev⟩
  · rw [e, b1]; exact a1
  · intro hy
    have a2 := evac_fold_filled_y hash sameSize newBit fs st [] hge hy
    simp only [List.nil_append] at a2
    rw [e, b2]; exact a2
  · rw [e, b3]; exact a3

end C18
