import GoProbeModel.Lemmas.C18Inv

/-!
C18 — helper lemmas, part 3: growth. `evacuate`, `advanceEvacuationMark`, `growWork` and
`hashGrow` keep the invariant; evacuation does not change the represented list at all
(`visit` is the same for every bucket index), `hashGrow` permutes it.
-/
set_option linter.unusedSectionVars false
set_option linter.unusedSimpArgs false
set_option linter.unusedVariables false

namespace C18
open Gen.HashMap
variable {κ : Type} [DecidableEq κ] [Inhabited κ]

theorem HMap.setBucket_eq (m : HMap κ) (i : Nat) (c : Chain κ) :
    m.setBucket i c = { m with buckets := m.buckets.setIfInBounds i c } := rfl
theorem HMap.setOld_eq (m : HMap κ) (i : Nat) (c : Chain κ) :
    m.setOld i c = { m with old := m.old.setIfInBounds i c } := rfl

/-- what evacuating old bucket `j` (holding the filled cells `fs`) does to the state -/
structure EvacRes (hash : κ → Nat) (m m' : HMap κ) (j : Nat) (fs : List (Cell κ)) : Prop where
  count : m'.count = m.count
  sameSize : m'.sameSize = m.sameSize
  growing : m'.growing = m.growing
  nEvacuate : m'.nEvacuate = m.nEvacuate
  bad : m'.bad = m.bad
  oldSize : m'.old.size = m.old.size
  size : m'.buckets.size = m.buckets.size
  oldj : evacuated (m'.old.getD j []) = true
  oldOther : ∀ j', j' ≠ j → m'.old.getD j' [] = m.old.getD j' []
  bOther : ∀ b, b ≠ j → (m.sameSize = true ∨ b ≠ j + m.old.size) → m'.buckets.getD b [] = m.buckets.getD b []
  x : ∃ rx, m'.buckets.getD j [] = fs.filter (fun c => !useY hash m.sameSize m.old.size c) ++ List.replicate rx emptyCell
        ∧ 0 < (fs.filter (fun c => !useY hash m.sameSize m.old.size c)).length + rx
  y : m.sameSize = false → ∃ ry, m'.buckets.getD (j + m.old.size) [] =
        fs.filter (fun c => useY hash m.sameSize m.old.size c) ++ List.replicate ry emptyCell
        ∧ 0 < (fs.filter (fun c => useY hash m.sameSize m.old.size c)).length + ry

theorem evacBucket_res {hash : κ → Nat} {m : HMap κ} (inv : Inv hash m) (hg : m.growing = true) {j : Nat}
    (hj : j < m.old.size) {fs : List (Cell κ)} {r : Nat}
    (g : GoodAs hash (oldBucketMask m) j (m.old.getD j []) fs r)
    (hx : m.buckets.getD j [] = newChain) (hy : m.sameSize = false → m.buckets.getD (j + m.old.size) [] = newChain) :
    EvacRes hash m (evacBucket hash m j) j fs := by
  have gi := inv.grow hg
  have hsz := gi.size
  have hbounds : ¬ (j ≥ m.buckets.size ∨ (!m.sameSize ∧ j + m.old.size ≥ m.buckets.size)) := by
    by_cases hs : m.sameSize = true
    · simp only [hs, if_true] at hsz; simp [hs]; omega
    · simp only [hs, Bool.false_eq_true, if_false] at hsz; simp [hs]; omega
  unfold evacBucket
  simp only [hbounds, if_false]
  have hf := evac_fold_good hash m.sameSize m.old.size fs r
    { x := ⟨m.buckets.getD j [], 0⟩, y := ⟨m.buckets.getD (j + m.old.size) [], 0⟩,
      nOverflow := m.nOverflow, bad := m.bad, marked := [] } g.tops g.pos (by simp only [hx]; exact dstOK_new) rfl
  rw [← g.eq] at hf
  obtain ⟨f1, f2, f3, f4⟩ := hf
  have hjb : j < m.buckets.size := by omega
  by_cases hs : m.sameSize = true
  · simp only [HMap.setBucket_eq, HMap.setOld_eq, hs, Bool.not_true, Bool.false_eq_true, if_false] at f1 f3 f4 ⊢
    refine { count := rfl, sameSize := by simp [hs], growing := rfl, nEvacuate := rfl, bad := f3, oldSize := by simp,
             size := by simp, oldj := ?_, oldOther := ?_, bOther := ?_, x := ?_, y := by simp [hs] }
    · simp only [getD_setIfInBounds, hj, and_self, if_true]; exact f4
    · intro j' hj'; simp only [getD_setIfInBounds]; rw [if_neg (by omega)]
    · intro b hb _; simp only [getD_setIfInBounds]; rw [if_neg (by omega)]
    · obtain ⟨rx, h1, -, -, h4⟩ := f1
      rw [hs]
      exact ⟨rx, by simp only [getD_setIfInBounds, hjb, and_self, if_true]; exact h1, h4⟩
  · have hs' : m.sameSize = false := by simpa using hs
    simp only [hs', Bool.false_eq_true, if_false] at hsz
    simp only [HMap.setBucket_eq, HMap.setOld_eq, hs', Bool.not_false, if_true] at f1 f2 f3 f4 ⊢
    have f2' := f2 (by simp only [hy hs']; exact dstOK_new)
    refine { count := rfl, sameSize := by simp [hs'], growing := rfl, nEvacuate := rfl, bad := f3, oldSize := by simp,
             size := by simp, oldj := ?_, oldOther := ?_, bOther := ?_, x := ?_, y := ?_ }
    · simp only [getD_setIfInBounds, hj, and_self, if_true]; exact f4
    · intro j' hj'; simp only [getD_setIfInBounds]; rw [if_neg (by omega)]
    · intro b hb hb2
      have hb2' : b ≠ j + m.old.size := by simpa [hs'] using hb2
      simp only [getD_setIfInBounds, Array.size_setIfInBounds]
      rw [if_neg (by omega), if_neg (by omega)]
    · obtain ⟨rx, h1, -, -, h4⟩ := f1
      rw [hs']
      refine ⟨rx, ?_, h4⟩
      simp only [getD_setIfInBounds, Array.size_setIfInBounds]
      rw [if_neg (by omega)]
      simp only [hjb, and_self, if_true]; exact h1
    · intro _
      obtain ⟨ry, h1, -, -, h4⟩ := f2'
      rw [hs']
      refine ⟨ry, ?_, h4⟩
      have : j + m.old.size < m.buckets.size := by omega
      simp only [getD_setIfInBounds, Array.size_setIfInBounds, this, and_self, if_true]; exact h1

/-- where a key of old bucket `j` lands: X keeps the index, Y adds the old size -/
theorem useY_place {hash : κ → Nat} {m : HMap κ} (gi : GrowInv hash m) {j : Nat} (hj : j < m.old.size) (x : Cell κ)
    (hx : hash x.key &&& oldBucketMask m = j) :
    (useY hash m.sameSize m.old.size x = false → hash x.key &&& bucketMask m = j) ∧
    (useY hash m.sameSize m.old.size x = true → m.sameSize = false ∧ hash x.key &&& bucketMask m = j + m.old.size) := by
  obtain ⟨B, hB, ho, h | h⟩ := gi.masks
  · obtain ⟨hs, -, hm⟩ := h
    simp only [useY, hs, Bool.not_true, Bool.false_and]
    rw [hm, ← ho]
    exact ⟨fun _ => hx, fun h => by simp at h⟩
  · obtain ⟨hs, -, hm⟩ := h
    simp only [useY, hs, Bool.not_false, Bool.true_and, hB, hm]
    rw [ho, and_mask_pow] at hx
    rw [and_mask_pow]
    constructor
    · intro h
      have : hash x.key &&& 2 ^ B = 0 := by simpa using h
      rw [(and_pow_eq_zero_iff _ _).mp this]; exact hx
    · intro h
      have : hash x.key &&& 2 ^ B ≠ 0 := by simpa using h
      rw [(and_pow_ne_zero_iff _ _).mp this, hx]
      exact ⟨trivial, rfl⟩

/-- the bucket indices fed by old bucket `j` -/
theorem fed_by {hash : κ → Nat} {m : HMap κ} (gi : GrowInv hash m) {j b : Nat} (hj : j < m.old.size)
    (hb : b < m.buckets.size) : b &&& oldBucketMask m = j ↔ b = j ∨ (m.sameSize = false ∧ b = j + m.old.size) := by
  obtain ⟨B, hB, ho, h | h⟩ := gi.masks
  · obtain ⟨hs, hsz, -⟩ := h
    rw [ho, and_mask_pow, Nat.mod_eq_of_lt (by omega)]
    simp [hs]
  · obtain ⟨hs, hsz, -⟩ := h
    rw [ho, and_mask_pow]
    simp only [hs, true_and]
    rw [hB] at hj ⊢
    rw [hsz, Nat.pow_succ] at hb
    by_cases hlt : b < 2 ^ B
    · rw [Nat.mod_eq_of_lt hlt]; omega
    · rw [Nat.mod_eq_sub_mod (by omega), Nat.mod_eq_of_lt (by omega)]; omega

theorem EvacRes.masks {hash : κ → Nat} {m m' : HMap κ} {j : Nat} {fs : List (Cell κ)} (res : EvacRes hash m m' j fs) :
    bucketMask m' = bucketMask m ∧ oldBucketMask m' = oldBucketMask m := by
  unfold bucketMask oldBucketMask; rw [res.size, res.oldSize]; exact ⟨rfl, rfl⟩

/-- the sub-chain of the filled cells that go to one half is a well-formed chain of the new table -/
theorem goodAs_half {hash : κ → Nat} {m : HMap κ} (gi : GrowInv hash m) {j : Nat} (hj : j < m.old.size)
    {c : Chain κ} {fs : List (Cell κ)} {r : Nat} (g : GoodAs hash (oldBucketMask m) j c fs r)
    (p : Cell κ → Bool) (i : Nat) (hp : ∀ x ∈ fs, p x = true → hash x.key &&& bucketMask m = i) {rx : Nat}
    (hpos : 0 < (fs.filter p).length + rx) :
    GoodAs hash (bucketMask m) i (fs.filter p ++ List.replicate rx emptyCell) (fs.filter p) rx :=
  { eq := rfl
    pos := hpos
    tops := fun x hx => g.tops x (List.mem_filter.mp hx).1
    place := fun x hx => hp x (List.mem_filter.mp hx).1 (List.mem_filter.mp hx).2
    nodup := List.Nodup.sublist (List.Sublist.map _ List.filter_sublist) g.nodup }

/-- evacuation leaves the list of every bucket index unchanged -/
theorem EvacRes.visit_eq {hash : κ → Nat} {m m' : HMap κ} {j : Nat} {fs : List (Cell κ)} {r : Nat}
    (res : EvacRes hash m m' j fs) (inv : Inv hash m) (hg : m.growing = true) (hj : j < m.old.size)
    (g : GoodAs hash (oldBucketMask m) j (m.old.getD j []) fs r) {b : Nat} (hb : b < m.buckets.size) :
    visit hash m' b = visit hash m b := by
  have gi := inv.grow hg
  obtain ⟨hm1, hm2⟩ := res.masks
  unfold visit
  simp only [res.growing, hg, if_true, hm1, hm2, res.sameSize]
  by_cases hjb : b &&& oldBucketMask m = j
  · rw [hjb, res.oldj, g.not_evacuated]
    simp only [if_true, Bool.false_eq_true, if_false]
    rw [g.cellsOf, List.filter_map]
    have htops : ∀ (p : Cell κ → Bool), ∀ x ∈ fs.filter p, x.top = topHash (hash x.key) :=
      fun p x hx => g.tops x (List.mem_filter.mp hx).1
    rcases (fed_by gi hj hb).mp hjb with hbj | ⟨hs, hbj⟩
    · subst hbj
      obtain ⟨rx, hx, -⟩ := res.x
      rw [hx, cellsOf_append_replicate rx (htops _)]
      congr 1
      apply List.filter_congr
      intro x hx
      have hp := useY_place gi hj x (g.place x hx)
      simp only [Function.comp, kv]
      by_cases hu : useY hash m.sameSize m.old.size x = true
      · obtain ⟨hs, hpl⟩ := hp.2 hu
        rw [hu, hpl, hs]
        have hN : 0 < m.old.size := by omega
        have : (b + m.old.size == b) = false := by
          rw [beq_eq_false_iff_ne]; omega
        rw [this]; rfl
      · have hu' : useY hash m.sameSize m.old.size x = false := by simpa using hu
        rw [hu', hp.1 hu']; simp
    · subst hbj
      obtain ⟨ry, hy, -⟩ := res.y hs
      rw [hy, cellsOf_append_replicate ry (htops _)]
      congr 1
      apply List.filter_congr
      intro x hx
      have hp := useY_place gi hj x (g.place x hx)
      simp only [Function.comp, kv]
      by_cases hu : useY hash m.sameSize m.old.size x = true
      · obtain ⟨-, hpl⟩ := hp.2 hu
        rw [hu, hpl]; simp
      · have hu' : useY hash m.sameSize m.old.size x = false := by simpa using hu
        rw [hu', hp.1 hu', hs]
        have hN : 0 < m.old.size := by omega
        have : (j == j + m.old.size) = false := by
          rw [beq_eq_false_iff_ne]; omega
        rw [this]; rfl
  · rw [res.oldOther _ hjb]
    by_cases hev : evacuated (m.old.getD (b &&& oldBucketMask m) []) = true
    · simp only [hev, if_true]
      have hfb : ¬ (b = j ∨ (m.sameSize = false ∧ b = j + m.old.size)) := fun h => hjb ((fed_by gi hj hb).mpr h)
      rw [res.bOther b (fun e => hfb (Or.inl e)) (by
        by_cases hs : m.sameSize = true
        · exact Or.inl hs
        · exact Or.inr (fun e => hfb (Or.inr ⟨by simpa using hs, e⟩)))]
    · simp only [hev, Bool.false_eq_true, if_false]

theorem flatMap_congr' {α β : Type} {l : List α} {f g : α → List β} (h : ∀ a ∈ l, f a = g a) :
    l.flatMap f = l.flatMap g := by
  induction l with
  | nil => rfl
  | cons a l ih =>
    simp only [List.flatMap_cons]
    rw [h a (by simp), ih (fun b hb => h b (by simp [hb]))]

theorem entries_congr {hash : κ → Nat} {m m' : HMap κ} (hs : m'.buckets.size = m.buckets.size)
    (hv : ∀ b, b < m.buckets.size → visit hash m' b = visit hash m b) : entries hash m' = entries hash m := by
  unfold entries
  rw [hs]
  apply flatMap_congr'
  intro b hb
  exact hv b (List.mem_range.mp hb)

theorem EvacRes.entries_eq {hash : κ → Nat} {m m' : HMap κ} {j : Nat} {fs : List (Cell κ)} {r : Nat}
    (res : EvacRes hash m m' j fs) (inv : Inv hash m) (hg : m.growing = true) (hj : j < m.old.size)
    (g : GoodAs hash (oldBucketMask m) j (m.old.getD j []) fs r) : entries hash m' = entries hash m :=
  entries_congr res.size (fun b hb => res.visit_eq inv hg hj g hb)

/-- evacuating one old bucket keeps the invariant -/
theorem EvacRes.inv {hash : κ → Nat} {m m' : HMap κ} {j : Nat} {fs : List (Cell κ)} {r : Nat}
    (res : EvacRes hash m m' j fs) (inv : Inv hash m) (hg : m.growing = true) (hj : j < m.old.size)
    (g : GoodAs hash (oldBucketMask m) j (m.old.getD j []) fs r) : Inv hash m' := by
  have gi := inv.grow hg
  obtain ⟨hm1, hm2⟩ := res.masks
  have hszs := gi.size
  refine { ok := by rw [res.bad]; exact inv.ok, pow := by rw [res.size]; exact inv.pow, good := ?_,
           idle := (fun h => by rw [res.growing, hg] at h; cases h), grow := fun _ => ?_,
           cnt := by rw [res.count, res.entries_eq inv hg hj g]; exact inv.cnt }
  · intro i hi
    rw [res.size] at hi
    rw [hm1]
    by_cases hij : i = j
    · subst hij
      obtain ⟨rx, hx, hpos⟩ := res.x
      rw [hx]
      exact ⟨_, _, goodAs_half gi hj g _ i (fun x hx hp => (useY_place gi hj x (g.place x hx)).1 (by simpa using hp)) hpos⟩
    · by_cases hiy : m.sameSize = false ∧ i = j + m.old.size
      · obtain ⟨hs, rfl⟩ := hiy
        obtain ⟨ry, hy, hpos⟩ := res.y hs
        rw [hy]
        exact ⟨_, _, goodAs_half gi hj g _ _ (fun x hx hp => ((useY_place gi hj x (g.place x hx)).2 hp).2) hpos⟩
      · rw [res.bOther i hij (by
          by_cases hs : m.sameSize = true
          · exact Or.inl hs
          · exact Or.inr (fun e => hiy ⟨by simpa using hs, e⟩))]
        exact inv.good i hi
  · refine { size := by rw [res.size, res.sameSize, res.oldSize]; exact gi.size, powOld := by rw [res.oldSize]; exact gi.powOld,
             nev := by rw [res.nEvacuate, res.oldSize]; exact gi.nev, pre := ?_, live := ?_ }
    · intro j' hj'
      rw [res.nEvacuate] at hj'
      by_cases e : j' = j
      · rw [e]; exact res.oldj
      · rw [res.oldOther j' e]; exact gi.pre j' hj'
    · intro j' hj' hev
      rw [res.oldSize] at hj'
      have e : j' ≠ j := fun e => by rw [e, res.oldj] at hev; cases hev
      rw [res.oldOther j' e] at hev ⊢
      obtain ⟨l1, l2, l3⟩ := gi.live j' hj' hev
      rw [hm2, res.sameSize, res.oldSize]
      refine ⟨l1, ?_, ?_⟩
      · rw [res.bOther j' e (by
          by_cases hs : m.sameSize = true
          · exact Or.inl hs
          · exact Or.inr (by omega))]
        exact l2
      · intro hs
        rw [res.bOther (j' + m.old.size) (by omega) (Or.inr (by omega))]
        exact l3 hs

theorem advanceLoop_spec (m : HMap κ) (stop : Nat) :
    ∀ (fuel ne : Nat), ne ≤ stop → (∀ j, j < ne → evacuated (m.old.getD j []) = true) →
      ne ≤ advanceLoop m stop fuel ne ∧ advanceLoop m stop fuel ne ≤ stop ∧
      ∀ j, j < advanceLoop m stop fuel ne → evacuated (m.old.getD j []) = true
  | 0, ne, h1, h2 => ⟨Nat.le_refl _, h1, h2⟩
  | fuel + 1, ne, h1, h2 => by
    unfold advanceLoop
    by_cases hc : ne ≠ stop ∧ bucketEvacuated m ne = true
    · rw [if_pos hc]
      have ih := advanceLoop_spec m stop fuel (ne + 1) (by omega) (fun j hj => by
        by_cases e : j = ne
        · rw [e]; exact hc.2
        · exact h2 j (by omega))
      exact ⟨by omega, ih.2.1, ih.2.2⟩
    · rw [if_neg hc]; exact ⟨Nat.le_refl _, h1, h2⟩

/-- what one call of `evacuate` (or `growWork`) guarantees -/
structure EvacPost (hash : κ → Nat) (m m' : HMap κ) : Prop where
  inv : Inv hash m'
  entries : entries hash m' = entries hash m
  size : m'.buckets.size = m.buckets.size
  count : m'.count = m.count
  still : m'.growing = true → m'.old.size = m.old.size ∧ m'.sameSize = m.sameSize ∧
    ∀ j, evacuated (m.old.getD j []) = true → evacuated (m'.old.getD j []) = true

theorem EvacPost.refl {hash : κ → Nat} {m : HMap κ} (inv : Inv hash m) : EvacPost hash m m :=
  { inv := inv, entries := rfl, size := rfl, count := rfl, still := fun _ => ⟨rfl, rfl, fun _ h => h⟩ }

theorem EvacPost.trans {hash : κ → Nat} {m m' m'' : HMap κ} (h1 : EvacPost hash m m') (h2 : EvacPost hash m' m'')
    (hg : m''.growing = true → m'.growing = true) : EvacPost hash m m'' :=
  { inv := h2.inv, entries := h2.entries.trans h1.entries, size := h2.size.trans h1.size,
    count := h2.count.trans h1.count,
    still := fun h => by
      obtain ⟨a1, a2, a3⟩ := h2.still h
      obtain ⟨b1, b2, b3⟩ := h1.still (hg h)
      exact ⟨a1.trans b1, a2.trans b2, fun j hj => a3 j (b3 j hj)⟩ }

theorem visit_congr {hash : κ → Nat} {m m' : HMap κ} (h1 : m'.growing = m.growing) (h2 : m'.sameSize = m.sameSize)
    (h3 : m'.old = m.old) (h4 : m'.buckets = m.buckets) (b : Nat) : visit hash m' b = visit hash m b := by
  unfold visit bucketMask oldBucketMask; rw [h1, h2, h3, h4]

/-- `advanceEvacuationMark` after old bucket `nEvacuate` has been evacuated -/
theorem advance_post {hash : κ → Nat} {m : HMap κ} (inv : Inv hash m) (hg : m.growing = true)
    (hev : evacuated (m.old.getD m.nEvacuate []) = true) :
    EvacPost hash m (advanceEvacuationMark m m.old.size) := by
  have gi := inv.grow hg
  have hnev := gi.nev
  unfold advanceEvacuationMark
  simp only
  have hspec := advanceLoop_spec m (if m.nEvacuate + 1 + 1024 > m.old.size then m.old.size else m.nEvacuate + 1 + 1024)
    1024 (m.nEvacuate + 1) (by split <;> omega) (fun j hj => by
      by_cases e : j = m.nEvacuate
      · rw [e]; exact hev
      · exact gi.pre j (by omega))
  generalize advanceLoop m (if m.nEvacuate + 1 + 1024 > m.old.size then m.old.size else m.nEvacuate + 1 + 1024)
    1024 (m.nEvacuate + 1) = ne at hspec
  obtain ⟨s1, s2, s3⟩ := hspec
  have s2' : ne ≤ m.old.size := by split at s2 <;> omega
  by_cases hfin : ne = m.old.size
  · rw [if_pos hfin]
    have hv : ∀ b, b < m.buckets.size →
        visit hash { m with nEvacuate := ne, growing := false, old := #[], sameSize := false } b = visit hash m b := by
      intro b hb
      unfold visit
      simp only [hg, if_true, Bool.false_eq_true, if_false]
      rw [s3 _ (by rw [hfin]; exact gi.old_idx_lt b)]
      simp
    have he := entries_congr (m := m) (m' := { m with nEvacuate := ne, growing := false, old := #[], sameSize := false }) rfl hv
    exact {
      inv := { ok := inv.ok, pow := inv.pow, good := inv.good, idle := fun _ => rfl,
               grow := fun h => by simp at h, cnt := by rw [he]; exact inv.cnt }
      entries := he, size := rfl, count := rfl, still := fun h => by simp at h }
  · rw [if_neg hfin]
    have hv : ∀ b, visit hash { m with nEvacuate := ne } b = visit hash m b :=
      fun b => visit_congr rfl rfl rfl rfl b
    have he := entries_congr (m := m) (m' := { m with nEvacuate := ne }) rfl (fun b _ => hv b)
    exact {
      inv := { ok := inv.ok, pow := inv.pow, good := inv.good, idle := inv.idle,
               grow := fun _ => { size := gi.size, powOld := gi.powOld, nev := by show ne < m.old.size; omega,
                                  pre := s3, live := gi.live },
               cnt := by rw [he]; exact inv.cnt }
      entries := he, size := rfl, count := rfl, still := fun _ => ⟨rfl, rfl, fun _ h => h⟩ }

/-- the `if !evacuated(b) { … }` part of `evacuate` -/
theorem evacStep_post {hash : κ → Nat} {m : HMap κ} (inv : Inv hash m) (hg : m.growing = true) {j : Nat}
    (hj : j < m.old.size) :
    ∀ m1, m1 = (if !evacuated (m.old.getD j []) then evacBucket hash m j else m) →
    EvacPost hash m m1 ∧ m1.growing = true ∧ evacuated (m1.old.getD j []) = true ∧
      m1.old.size = m.old.size ∧ m1.nEvacuate = m.nEvacuate := by
  have gi := inv.grow hg
  intro m1 hm1
  by_cases hev : evacuated (m.old.getD j []) = true
  · simp only [hev, Bool.not_true, Bool.false_eq_true, if_false] at hm1
    subst hm1
    exact ⟨EvacPost.refl inv, hg, hev, rfl, rfl⟩
  · have hev' : evacuated (m.old.getD j []) = false := by simpa using hev
    simp only [hev', Bool.not_false, if_true] at hm1
    subst hm1
    obtain ⟨⟨fs, r, g⟩, l2, l3⟩ := gi.live j hj hev'
    have res := evacBucket_res inv hg hj g l2 l3
    refine ⟨{ inv := res.inv inv hg hj g, entries := res.entries_eq inv hg hj g, size := res.size, count := res.count,
              still := fun _ => ⟨res.oldSize, res.sameSize, fun j' hj' => ?_⟩ }, by rw [res.growing]; exact hg,
            res.oldj, res.oldSize, res.nEvacuate⟩
    by_cases e : j' = j
    · rw [e]; exact res.oldj
    · rw [res.oldOther j' e]; exact hj'

theorem evacuate_post {hash : κ → Nat} {m : HMap κ} (inv : Inv hash m) (hg : m.growing = true) {j : Nat}
    (hj : j < m.old.size) :
    EvacPost hash m (evacuate hash m j) ∧
      ((evacuate hash m j).growing = true → evacuated ((evacuate hash m j).old.getD j []) = true) := by
  have h1 := evacStep_post inv hg hj _ rfl
  unfold evacuate
  simp only [show ¬ j ≥ m.old.size by omega, if_false]
  generalize (if !evacuated (m.old.getD j []) then evacBucket hash m j else m) = m1 at h1
  obtain ⟨p1, g1, e1, s1, n1⟩ := h1
  by_cases hn : j = m1.nEvacuate
  · rw [if_pos hn, ← s1]
    have p2 := advance_post p1.inv g1 (by rw [← hn]; exact e1)
    exact ⟨p1.trans p2 (fun _ => g1), fun h => (p2.still h).2.2 j e1⟩
  · rw [if_neg hn]
    exact ⟨p1, fun _ => e1⟩

theorem growWork_post {hash : κ → Nat} {m : HMap κ} (inv : Inv hash m) (hg : m.growing = true) (bucket : Nat) :
    EvacPost hash m (growWork hash m bucket) ∧
      ((growWork hash m bucket).growing = true →
        evacuated ((growWork hash m bucket).old.getD (bucket &&& oldBucketMask m) []) = true) := by
  have gi := inv.grow hg
  have h1 := evacuate_post inv hg (gi.old_idx_lt bucket)
  unfold growWork
  simp only
  generalize evacuate hash m (bucket &&& oldBucketMask m) = m1 at h1
  obtain ⟨p1, e1⟩ := h1
  by_cases g1 : m1.growing = true
  · rw [if_pos g1]
    have gi1 := p1.inv.grow g1
    have h2 := evacuate_post p1.inv g1 gi1.nev
    obtain ⟨p2, e2⟩ := h2
    exact ⟨p1.trans p2 (fun _ => g1), fun h => (p2.still h).2.2 _ (e1 g1)⟩
  · rw [if_neg g1]
    exact ⟨p1, fun h => absurd h g1⟩

theorem flatMap_append_perm {α β : Type} (f g : α → List β) :
    ∀ l : List α, (l.flatMap fun a => f a ++ g a).Perm (l.flatMap f ++ l.flatMap g)
  | [] => by simp
  | a :: l => by
    have ih := flatMap_append_perm f g l
    simp only [List.flatMap_cons]
    have h1 : (f a ++ g a ++ (l.flatMap fun a => f a ++ g a)).Perm (f a ++ g a ++ (l.flatMap f ++ l.flatMap g)) :=
      List.Perm.append_left _ ih
    refine h1.trans ?_
    rw [List.append_assoc, List.append_assoc]
    refine List.Perm.append_left _ ?_
    exact List.perm_append_comm_assoc _ _ _

theorem flatMap_perm_congr {α β : Type} {f g : α → List β} :
    ∀ {l : List α}, (∀ a ∈ l, (f a).Perm (g a)) → (l.flatMap f).Perm (l.flatMap g)
  | [], _ => by simp
  | a :: l, h => by
    simp only [List.flatMap_cons]
    exact List.Perm.append (h a (by simp)) (flatMap_perm_congr (fun b hb => h b (by simp [hb])))

/-- `hashGrow` on an idle map: the invariant holds again and the represented list is permuted -/
theorem hashGrow_post {hash : κ → Nat} {m : HMap κ} (inv : Inv hash m) (hg : m.growing = false)
    (hsz : 0 < m.buckets.size) :
    Inv hash (hashGrow m) ∧ (entries hash (hashGrow m)).Perm (entries hash m) ∧ (hashGrow m).growing = true ∧
      (hashGrow m).count = m.count := by
  obtain ⟨B, hB⟩ : ∃ B, m.buckets.size = 2 ^ B := by
    rcases inv.pow with h | h
    · omega
    · exact h
  have hss := inv.idle hg
  have hmask : bucketMask m = 2 ^ B - 1 := by unfold bucketMask; rw [hB]
  -- the old buckets of the new state are the current buckets: all live and well-formed
  have hlive : ∀ j, j < m.buckets.size → evacuated (m.buckets.getD j []) = false := fun j hj => by
    obtain ⟨fs, r, g⟩ := inv.good j hj; exact g.not_evacuated
  have hperm : (entries hash (hashGrow m)).Perm (entries hash m) := by
    unfold entries
    have hv0 : ∀ b, b < m.buckets.size → visit hash m b = cellsOf (m.buckets.getD b []) := fun b hb => by
      unfold visit; simp [hg]
    by_cases hd : loadFactor ((m.count : Int) + 1) m.buckets.size = true
    · -- doubling
      have hsize : (hashGrow m).buckets.size = m.buckets.size + m.buckets.size := by
        simp [hashGrow, hd, makeBucketArray]; omega
      have hv : ∀ b, b < m.buckets.size + m.buckets.size → visit hash (hashGrow m) b =
          (cellsOf (m.buckets.getD (b % m.buckets.size) [])).filter (fun e => hash e.1 &&& (2 ^ (B + 1) - 1) == b) := by
        intro b hb
        have hbm : b &&& (m.buckets.size - 1) = b % m.buckets.size := by rw [hB, and_mask_pow]
        have hlt : b % m.buckets.size < m.buckets.size := Nat.mod_lt _ hsz
        unfold visit
        simp only [hashGrow, hd, if_true, oldBucketMask, bucketMask, hss, Bool.false_or, makeBucketArray,
          Array.size_replicate, hbm, hlive _ hlt, Bool.false_eq_true, if_false]
        have : m.buckets.size * 2 - 1 = 2 ^ (B + 1) - 1 := by rw [hB, Nat.pow_succ]
        rw [this]
      rw [hsize, List.range_add, List.flatMap_append, List.flatMap_map]
      have e1 : (List.range m.buckets.size).flatMap (visit hash (hashGrow m)) =
          (List.range m.buckets.size).flatMap (fun j => (cellsOf (m.buckets.getD j [])).filter
            (fun e => hash e.1 &&& (2 ^ (B + 1) - 1) == j)) := by
        apply flatMap_congr'
        intro j hj
        rw [List.mem_range] at hj
        rw [hv j (by omega), Nat.mod_eq_of_lt hj]
      have e2 : (List.range m.buckets.size).flatMap (fun a => visit hash (hashGrow m) (m.buckets.size + a)) =
          (List.range m.buckets.size).flatMap (fun j => (cellsOf (m.buckets.getD j [])).filter
            (fun e => !(hash e.1 &&& (2 ^ (B + 1) - 1) == j))) := by
        apply flatMap_congr'
        intro j hj
        rw [List.mem_range] at hj
        rw [hv _ (by omega)]
        have : (m.buckets.size + j) % m.buckets.size = j := by
          rw [Nat.add_mod_left, Nat.mod_eq_of_lt hj]
        rw [this]
        apply List.filter_congr
        intro e he
        -- e sits in bucket j of the current table: its index in the doubled table is j or j + size
        have hpl := (inv.good j hj).keys_cellsOf.2 e he
        rw [hmask, and_mask_pow] at hpl
        rw [and_mask_pow]
        have hsplit := mod_succ_testBit (hash e.1) B
        rw [hB]
        have hp : 0 < 2 ^ B := Nat.pow_pos (by omega)
        by_cases ht : (hash e.1).testBit B = true
        · simp only [ht, if_true] at hsplit
          rw [hsplit, hpl]
          have h1 : (j + 2 ^ B == 2 ^ B + j) = true := by rw [beq_iff_eq]; omega
          have h2 : (j + 2 ^ B == j) = false := by rw [beq_eq_false_iff_ne]; omega
          rw [h1, h2]; rfl
        · simp only [ht, Bool.false_eq_true, if_false, Nat.add_zero] at hsplit
          rw [hsplit, hpl]
          have h1 : (j == 2 ^ B + j) = false := by rw [beq_eq_false_iff_ne]; omega
          have h2 : (j == j) = true := by simp
          rw [h1, h2]; rfl
      rw [e1, e2]
      refine (flatMap_append_perm _ _ _).symm.trans ?_
      apply flatMap_perm_congr
      intro j hj
      rw [List.mem_range] at hj
      rw [hv0 j hj]
      exact List.filter_append_perm _ _
    · -- same-size growth: every bucket index keeps its list
      have hd' : loadFactor ((m.count : Int) + 1) m.buckets.size = false := by simpa using hd
      have hsize : (hashGrow m).buckets.size = m.buckets.size := by
        simp [hashGrow, hd', makeBucketArray]
      rw [hsize]
      apply List.Perm.of_eq
      apply flatMap_congr'
      intro b hb
      rw [List.mem_range] at hb
      have hbm : b &&& (m.buckets.size - 1) = b := by rw [hB]; apply mod_of_lt_pow; omega
      rw [hv0 b hb]
      unfold visit
      simp only [hashGrow, hd', if_true, oldBucketMask, hbm, hlive b hb, Bool.false_eq_true, if_false,
        Bool.true_or]
      exact List.filter_eq_self.mpr (fun _ _ => rfl)
  refine ⟨?_, hperm, by simp [hashGrow], by simp [hashGrow]⟩
  have hgetD : ∀ i, i < (hashGrow m).buckets.size → (hashGrow m).buckets.getD i [] = newChain := fun i hi => by
    simp only [hashGrow, makeBucketArray, Array.size_replicate] at hi ⊢
    exact getD_replicate _ _ _ _ hi
  have hold : (hashGrow m).old = m.buckets := rfl
  have hcase : ((hashGrow m).buckets.size = m.buckets.size * 2 ∧ (hashGrow m).sameSize = false) ∨
      ((hashGrow m).buckets.size = m.buckets.size ∧ (hashGrow m).sameSize = true) := by
    by_cases hd : loadFactor ((m.count : Int) + 1) m.buckets.size = true
    · left; simp [hashGrow, hd, makeBucketArray, hss]
    · right; simp [hashGrow, hd, makeBucketArray]
  refine { ok := inv.ok, pow := ?_, good := ?_, idle := (fun h => by simp [hashGrow] at h), grow := fun _ => ?_,
           cnt := by rw [hperm.length_eq]; exact inv.cnt }
  · right
    rcases hcase with ⟨h1, -⟩ | ⟨h1, -⟩
    · exact ⟨B + 1, by rw [h1, hB, Nat.pow_succ]⟩
    · exact ⟨B, by rw [h1, hB]⟩
  · intro i hi
    rw [hgetD i hi]
    exact ⟨[], 8, newChain_good hash _ i⟩
  · have hsz' : (hashGrow m).buckets.size = if (hashGrow m).sameSize then m.buckets.size else 2 * m.buckets.size := by
      rcases hcase with ⟨h1, h2⟩ | ⟨h1, h2⟩
      · rw [h1, h2]; simp; omega
      · rw [h1, h2]; simp
    refine { size := by rw [hold]; exact hsz', powOld := ⟨B, by rw [hold]; exact hB⟩, nev := by rw [hold]; exact hsz,
             pre := fun j hj => by simp [hashGrow] at hj, live := ?_ }
    intro j hj _
    rw [hold] at hj ⊢
    refine ⟨inv.good j hj, hgetD j ?_, fun hs => hgetD _ ?_⟩
    · rw [hsz']; split <;> omega
    · rw [hsz', hs]; simp; omega

end C18
