import GoProbeModel.Lemmas.C18Basic

/-!
C18 — helper lemmas, part 2: the abstraction function (`visit` / `entries`), the representation
invariant `Inv` and what it implies for lookups.
-/
set_option linter.unusedSectionVars false
set_option linter.unusedSimpArgs false
set_option linter.unusedVariables false

namespace C18
open Gen.HashMap
variable {κ : Type} [DecidableEq κ] [Inhabited κ]

theorem getD_setIfInBounds {α : Type} (a : Array α) (i j : Nat) (x d : α) :
    (a.setIfInBounds i x).getD j d = if i = j ∧ i < a.size then x else a.getD j d := by
  simp only [Array.getD_eq_getD_getElem?, Array.getElem?_setIfInBounds]
  by_cases h : i = j
  · subst h
    by_cases hi : i < a.size
    · simp [hi]
    · simp [hi]
  · simp [h]

theorem getD_replicate {α : Type} (n i : Nat) (x d : α) (h : i < n) : (Array.replicate n x).getD i d = x := by
  simp [Array.getD_eq_getD_getElem?, h]

/-- The entries that belong to bucket index `b` of the current table: while the old bucket that
    feeds `b` is not evacuated they still sit there (those of them that will move to `b`),
    afterwards they are in `buckets[b]`. -/
def visit (hash : κ → Nat) (m : HMap κ) (b : Nat) : List (κ × Val) :=
  if m.growing then
    let oldb := m.old.getD (b &&& oldBucketMask m) []
    if evacuated oldb then cellsOf (m.buckets.getD b [])
    else (cellsOf oldb).filter (fun e => m.sameSize || (hash e.1 &&& bucketMask m == b))
  else cellsOf (m.buckets.getD b [])

/-- the abstraction function: the association list represented by a map state -/
def entries (hash : κ → Nat) (m : HMap κ) : List (κ × Val) :=
  (List.range m.buckets.size).flatMap (visit hash m)

structure GrowInv (hash : κ → Nat) (m : HMap κ) : Prop where
  size : m.buckets.size = if m.sameSize then m.old.size else 2 * m.old.size
  powOld : ∃ B, m.old.size = 2 ^ B
  nev : m.nEvacuate < m.old.size
  pre : ∀ j, j < m.nEvacuate → evacuated (m.old.getD j []) = true
  live : ∀ j, j < m.old.size → evacuated (m.old.getD j []) = false →
    Good hash (oldBucketMask m) j (m.old.getD j []) ∧ m.buckets.getD j [] = newChain ∧
      (m.sameSize = false → m.buckets.getD (j + m.old.size) [] = newChain)

/-- the representation invariant of the hash map -/
structure Inv (hash : κ → Nat) (m : HMap κ) : Prop where
  ok : m.bad = false
  pow : m.buckets.size = 0 ∨ ∃ B, m.buckets.size = 2 ^ B
  good : ∀ i, i < m.buckets.size → Good hash (bucketMask m) i (m.buckets.getD i [])
  idle : m.growing = false → m.sameSize = false
  grow : m.growing = true → GrowInv hash m
  cnt : m.count = (entries hash m).length

theorem Good.keys_cellsOf {hash : κ → Nat} {mask i : Nat} {c : Chain κ} (g : Good hash mask i c) :
    ((cellsOf c).map (·.1)).Nodup ∧ ∀ e ∈ cellsOf c, hash e.1 &&& mask = i := by
  obtain ⟨fs, r, g⟩ := g
  rw [g.cellsOf]
  constructor
  · have : (fs.map kv).map (·.1) = fs.map (·.key) := by simp [kv]
    rw [this]; exact g.nodup
  · intro e he
    rw [List.mem_map] at he
    obtain ⟨x, hx, rfl⟩ := he
    exact g.place x hx

theorem mod_of_lt_pow {b B : Nat} (h : b < 2 ^ B) : b &&& (2 ^ B - 1) = b := by
  rw [and_mask_pow]; exact Nat.mod_eq_of_lt h

/-- every entry listed under bucket index `b` hashes to `b` -/
theorem Inv.visit_placed {hash : κ → Nat} {m : HMap κ} (inv : Inv hash m) {b : Nat} (hb : b < m.buckets.size)
    {e : κ × Val} (he : e ∈ visit hash m b) : hash e.1 &&& bucketMask m = b := by
  unfold visit at he
  by_cases hg : m.growing = true
  · rw [if_pos hg] at he
    simp only at he
    by_cases hev : evacuated (m.old.getD (b &&& oldBucketMask m) []) = true
    · rw [if_pos hev] at he
      exact (inv.good b hb).keys_cellsOf.2 e he
    · rw [if_neg hev] at he
      rw [List.mem_filter] at he
      obtain ⟨he1, he2⟩ := he
      have gi := inv.grow hg
      obtain ⟨B, hB⟩ := gi.powOld
      by_cases hs : m.sameSize = true
      · have hsz : m.buckets.size = m.old.size := by have := gi.size; simpa [hs] using this
        have hjb : b &&& oldBucketMask m = b := by
          unfold oldBucketMask; rw [hB]; apply mod_of_lt_pow; omega
        rw [hjb] at hev he1
        have hl := gi.live b (by omega) (by simpa using hev)
        have := hl.1.keys_cellsOf.2 e he1
        unfold bucketMask; unfold oldBucketMask at this
        rw [hsz]; exact this
      · simp only [hs, Bool.false_eq_true, Bool.false_or, beq_iff_eq] at he2
        exact he2
  · rw [if_neg hg] at he
    exact (inv.good b hb).keys_cellsOf.2 e he

theorem Inv.visit_nodup {hash : κ → Nat} {m : HMap κ} (inv : Inv hash m) {b : Nat} (hb : b < m.buckets.size) :
    ((visit hash m b).map (·.1)).Nodup := by
  unfold visit
  by_cases hg : m.growing = true
  · rw [if_pos hg]
    simp only
    by_cases hev : evacuated (m.old.getD (b &&& oldBucketMask m) []) = true
    · rw [if_pos hev]
      exact (inv.good b hb).keys_cellsOf.1
    · rw [if_neg hev]
      have gi := inv.grow hg
      obtain ⟨B, hB⟩ := gi.powOld
      have hj : b &&& oldBucketMask m < m.old.size := by
        unfold oldBucketMask; apply and_mask_lt; rw [hB]; exact Nat.pow_pos (by omega)
      have hl := gi.live _ hj (by simpa using hev)
      exact List.Nodup.sublist (List.Sublist.map _ List.filter_sublist) hl.1.keys_cellsOf.1
  · rw [if_neg hg]
    exact (inv.good b hb).keys_cellsOf.1

/-- the keys of the represented association list are pairwise distinct -/
theorem Inv.entries_nodup {hash : κ → Nat} {m : HMap κ} (inv : Inv hash m) :
    ((entries hash m).map (·.1)).Nodup := by
  unfold entries
  rw [List.map_flatMap, List.nodup_iff_pairwise_ne, List.pairwise_flatMap]
  constructor
  · intro b hb
    rw [List.mem_range] at hb
    exact List.nodup_iff_pairwise_ne.mp (inv.visit_nodup hb)
  · have := @List.nodup_range m.buckets.size
    rw [List.nodup_iff_pairwise_ne] at this
    refine List.Pairwise.imp_of_mem ?_ this
    intro a b ha hb hab x hx y hy hxy
    rw [List.mem_range] at ha hb
    rw [List.mem_map] at hx hy
    obtain ⟨ex, hex, rfl⟩ := hx
    obtain ⟨ey, hey, e⟩ := hy
    have h1 := inv.visit_placed ha hex
    have h2 := inv.visit_placed hb hey
    rw [e] at h2
    rw [hxy] at h1
    exact hab (h1.symm.trans h2)

theorem Inv.size_pos_mask {hash : κ → Nat} {m : HMap κ} (inv : Inv hash m) (h : 0 < m.buckets.size) (x : Nat) :
    x &&& bucketMask m < m.buckets.size := and_mask_lt x _ h

/-- an entry is represented iff it is listed under the bucket index of its hash -/
theorem Inv.mem_entries {hash : κ → Nat} {m : HMap κ} (inv : Inv hash m) (e : κ × Val) :
    e ∈ entries hash m ↔ 0 < m.buckets.size ∧ e ∈ visit hash m (hash e.1 &&& bucketMask m) := by
  unfold entries
  rw [List.mem_flatMap]
  constructor
  · rintro ⟨b, hb, he⟩
    rw [List.mem_range] at hb
    have := inv.visit_placed hb he
    rw [this]
    exact ⟨by omega, he⟩
  · rintro ⟨hp, he⟩
    exact ⟨_, List.mem_range.mpr (inv.size_pos_mask hp _), he⟩

/-- the shape of the two masks while growing -/
theorem GrowInv.masks {hash : κ → Nat} {m : HMap κ} (gi : GrowInv hash m) :
    ∃ B, m.old.size = 2 ^ B ∧ oldBucketMask m = 2 ^ B - 1 ∧
      ((m.sameSize = true ∧ m.buckets.size = 2 ^ B ∧ bucketMask m = 2 ^ B - 1) ∨
       (m.sameSize = false ∧ m.buckets.size = 2 ^ (B + 1) ∧ bucketMask m = 2 ^ (B + 1) - 1)) := by
  obtain ⟨B, hB⟩ := gi.powOld
  refine ⟨B, hB, by unfold oldBucketMask; rw [hB], ?_⟩
  have hs := gi.size
  by_cases h : m.sameSize = true
  · left
    simp only [h, if_true] at hs
    exact ⟨h, by rw [hs, hB], by unfold bucketMask; rw [hs, hB]⟩
  · right
    simp only [h, Bool.false_eq_true, if_false] at hs
    have : m.buckets.size = 2 ^ (B + 1) := by rw [hs, hB, Nat.pow_succ]; omega
    exact ⟨by simpa using h, this, by unfold bucketMask; rw [this]⟩

theorem GrowInv.lookup_mask {hash : κ → Nat} {m : HMap κ} (gi : GrowInv hash m) :
    (if !m.sameSize then bucketMask m >>> 1 else bucketMask m) = oldBucketMask m := by
  obtain ⟨B, -, ho, h | h⟩ := gi.masks
  · simp [h.1, h.2.2, ho]
  · simp only [h.1, Bool.not_false, if_true, h.2.2, ho]; exact mask_shift B

theorem GrowInv.and_old {hash : κ → Nat} {m : HMap κ} (gi : GrowInv hash m) (x : Nat) :
    (x &&& bucketMask m) &&& oldBucketMask m = x &&& oldBucketMask m := by
  obtain ⟨B, -, ho, h | h⟩ := gi.masks
  · rw [h.2.2, ho, and_mask_pow, and_mask_pow, Nat.mod_mod]
  · rw [h.2.2, ho, and_mask_pow, and_mask_pow, and_mask_pow]
    exact Nat.mod_mod_of_dvd _ ⟨2, by rw [Nat.pow_succ]⟩

theorem GrowInv.old_idx_lt {hash : κ → Nat} {m : HMap κ} (gi : GrowInv hash m) (x : Nat) :
    x &&& oldBucketMask m < m.old.size := by
  have := gi.nev
  exact and_mask_lt x _ (by omega)

theorem entries_nil_of_size {hash : κ → Nat} {m : HMap κ} (h : m.buckets.size = 0) : entries hash m = [] := by
  simp [entries, h]

theorem Good.get_iff {hash : κ → Nat} {mask i : Nat} {c : Chain κ} (g : Good hash mask i c) (k : κ) (v : Val) :
    Option.map (fun x => x.2) (Option.map (fun c => (c.key, c.val)) (lookupChain (topHash (hash k)) k c)) = some v
      ↔ (k, v) ∈ cellsOf c := by
  obtain ⟨fs, r, g⟩ := g
  rw [g.lookupChain, g.cellsOf, ← find_key_iff g.nodup]
  simp [Option.map_map, Function.comp_def]

/-- `Get` returns exactly the represented entry -/
theorem Inv.get_iff {hash : κ → Nat} {m : HMap κ} (inv : Inv hash m) (k : κ) (v : Val) :
    get hash m k = some v ↔ (k, v) ∈ entries hash m := by
  by_cases hc : m.count = 0
  · have : entries hash m = [] := by
      have := inv.cnt; rw [hc] at this; exact List.length_eq_zero_iff.mp this.symm
    simp [get, lookup, hc, this]
  · have hne : entries hash m ≠ [] := by
      intro h; apply hc; rw [inv.cnt, h]; rfl
    have hsz : 0 < m.buckets.size := by
      rcases Nat.eq_zero_or_pos m.buckets.size with h | h
      · exact absurd (entries_nil_of_size h) hne
      · exact h
    rw [inv.mem_entries]
    simp only [hsz, true_and]
    have hb := inv.size_pos_mask hsz (hash k)
    unfold get lookup visit
    simp only [hc, if_false]
    by_cases hg : m.growing = true
    · have gi := inv.grow hg
      simp only [hg, if_true]
      rw [gi.lookup_mask, gi.and_old]
      by_cases hev : evacuated (m.old.getD (hash k &&& oldBucketMask m) []) = true
      · simp only [hev, Bool.not_true, Bool.false_eq_true, if_false, if_true]
        exact (inv.good _ hb).get_iff k v
      · simp only [hev, Bool.not_false, if_true, if_false]
        have hl := gi.live _ (gi.old_idx_lt (hash k)) (by simpa using hev)
        rw [hl.1.get_iff k v]
        simp only [Bool.false_eq_true, if_false, List.mem_filter]
        simp
    · simp only [hg, Bool.false_eq_true, if_false]
      exact (inv.good _ hb).get_iff k v

end C18
