import GoProbeModel.Lemmas.C18Grow

/-!
C18 — helper lemmas, part 4: `Set` / `SetOrUpdate` (`assign`) keep the invariant and change the
represented list exactly at the key.
-/
set_option linter.unusedSectionVars false
set_option linter.unusedSimpArgs false
set_option linter.unusedVariables false

namespace C18
open Gen.HashMap
variable {κ : Type} [DecidableEq κ] [Inhabited κ]

theorem range_split {n i : Nat} (h : i < n) :
    List.range n = List.range i ++ i :: List.range' (i + 1) (n - i - 1) := by
  have h1 : List.range n = List.range' 0 (i + (n - i)) := by rw [List.range_eq_range']; congr 1; omega
  rw [h1, ← List.range'_append (s := 0) (m := i) (n := n - i) (step := 1), List.range_eq_range']
  congr 1
  have : n - i = (n - i - 1) + 1 := by omega
  rw [this, List.range'_succ]
  simp

/-- the represented lists of two states that differ in the list of one bucket index only -/
theorem entries_update {hash : κ → Nat} {m m' : HMap κ} {bi : Nat} (hs : m'.buckets.size = m.buckets.size)
    (hbi : bi < m.buckets.size) (hv : ∀ b, b ≠ bi → visit hash m' b = visit hash m b) :
    ∃ pre post, entries hash m = pre ++ visit hash m bi ++ post ∧ entries hash m' = pre ++ visit hash m' bi ++ post := by
  refine ⟨(List.range bi).flatMap (visit hash m), (List.range' (bi + 1) (m.buckets.size - bi - 1)).flatMap (visit hash m), ?_, ?_⟩
  · unfold entries
    rw [range_split hbi, List.flatMap_append, List.flatMap_cons, List.append_assoc]
  · unfold entries
    rw [hs, range_split hbi, List.flatMap_append, List.flatMap_cons, List.append_assoc]
    congr 1
    · apply flatMap_congr'
      intro b hb; rw [List.mem_range] at hb; exact hv b (by omega)
    · congr 1
      apply flatMap_congr'
      intro b hb; rw [List.mem_range'_1] at hb; exact hv b (by omega)

/-- the list of a bucket index whose old bucket is already evacuated (or of an idle map) is the
    content of the bucket itself -/
theorem visit_of_evacuated {hash : κ → Nat} {m : HMap κ} {b : Nat}
    (hev : m.growing = true → evacuated (m.old.getD (b &&& oldBucketMask m) []) = true) :
    visit hash m b = cellsOf (m.buckets.getD b []) := by
  unfold visit
  by_cases hg : m.growing = true
  · simp only [hg, if_true, hev hg]
  · simp only [hg, Bool.false_eq_true, if_false]

/-- replacing the chain of a bucket (whose old bucket is evacuated) by another well-formed chain -/
theorem setChain_post {hash : κ → Nat} {m1 m' : HMap κ} (inv : Inv hash m1) {bi : Nat} (hbi : bi < m1.buckets.size)
    (hev : m1.growing = true → evacuated (m1.old.getD (bi &&& oldBucketMask m1) []) = true)
    {fs : List (Cell κ)} {r : Nat} (g : GoodAs hash (bucketMask m1) bi (m1.buckets.getD bi []) fs r)
    {chain' fs' : List (Cell κ)} {r' : Nat} (g' : GoodAs hash (bucketMask m1) bi chain' fs' r')
    (hb : m'.buckets = m1.buckets.setIfInBounds bi chain') (hold : m'.old = m1.old)
    (hgrow : m'.growing = m1.growing) (hss : m'.sameSize = m1.sameSize) (hne : m'.nEvacuate = m1.nEvacuate)
    (hbad : m'.bad = m1.bad) (hc : m'.count + fs.length = m1.count + fs'.length) :
    Inv hash m' ∧ ∀ b, visit hash m' b = if b = bi then fs'.map kv else visit hash m1 b := by
  have hsize : m'.buckets.size = m1.buckets.size := by rw [hb]; simp
  have hm1 : bucketMask m' = bucketMask m1 := by unfold bucketMask; rw [hsize]
  have hm2 : oldBucketMask m' = oldBucketMask m1 := by unfold oldBucketMask; rw [hold]
  have hget : ∀ b, m'.buckets.getD b [] = if b = bi then chain' else m1.buckets.getD b [] := by
    intro b
    rw [hb, getD_setIfInBounds]
    by_cases e : bi = b
    · subst e; simp [hbi]
    · have e' : ¬ b = bi := fun h => e h.symm
      rw [if_neg (fun h => e h.1), if_neg e']
  have hvis : ∀ b, visit hash m' b = if b = bi then fs'.map kv else visit hash m1 b := by
    intro b
    by_cases e : b = bi
    · subst e
      rw [if_pos rfl, visit_of_evacuated (by rw [hgrow, hold, hm2]; exact hev), hget, if_pos rfl, g'.cellsOf]
    · rw [if_neg e]
      unfold visit
      rw [hgrow, hold, hm1, hm2, hss, hget, if_neg e]
  refine ⟨?_, hvis⟩
  have hcnt : m'.count = (entries hash m').length := by
    obtain ⟨pre, post, e1, e2⟩ := entries_update (hash := hash) hsize hbi (fun b hb => by rw [hvis b, if_neg hb])
    rw [hvis bi, if_pos rfl] at e2
    rw [visit_of_evacuated hev, g.cellsOf] at e1
    have := inv.cnt
    rw [e1] at this
    rw [e2]
    simp only [List.length_append, List.length_map] at this ⊢
    omega
  refine { ok := by rw [hbad]; exact inv.ok, pow := by rw [hsize]; exact inv.pow, good := ?_,
           idle := (fun h => by rw [hss]; exact inv.idle (by rw [← hgrow]; exact h)), grow := fun hg => ?_, cnt := hcnt }
  · intro i hi
    rw [hsize] at hi
    rw [hget, hm1]
    by_cases e : i = bi
    · rw [if_pos e, e]; exact ⟨_, _, g'⟩
    · rw [if_neg e]; exact inv.good i hi
  · rw [hgrow] at hg
    have gi := inv.grow hg
    refine { size := by rw [hsize, hss, hold]; exact gi.size, powOld := by rw [hold]; exact gi.powOld,
             nev := by rw [hne, hold]; exact gi.nev, pre := by rw [hne, hold]; exact gi.pre, live := ?_ }
    intro j hj hlive
    rw [hold] at hj hlive ⊢
    obtain ⟨l1, l2, l3⟩ := gi.live j hj hlive
    rw [hm2, hss]
    have hfed := fed_by gi hj hbi
    have hne' : ¬ (bi &&& oldBucketMask m1 = j) := fun e => by
      have := hev hg; rw [e, hlive] at this; cases this
    have hnf := fun h => hne' (hfed.mpr h)
    refine ⟨l1, ?_, fun hs => ?_⟩
    · rw [hget, if_neg (fun e => hnf (Or.inl e.symm))]; exact l2
    · rw [hget, if_neg (fun e => hnf (Or.inr ⟨hs, e.symm⟩))]; exact l3 hs

theorem option_ext {α : Type} {a b : Option α} (h : ∀ v, a = some v ↔ b = some v) : a = b := by
  cases a with
  | none =>
    cases b with
    | none => rfl
    | some y => exact absurd ((h y).mpr rfl) (by simp)
  | some x => exact ((h x).mp rfl).symm

/-- states that represent the same entries answer `Get` alike -/
theorem get_congr {hash : κ → Nat} {m m' : HMap κ} (inv : Inv hash m) (inv' : Inv hash m')
    (h : ∀ e, e ∈ entries hash m' ↔ e ∈ entries hash m) (k : κ) : get hash m' k = get hash m k :=
  option_ext fun v => by rw [inv'.get_iff, inv.get_iff, h]

/-- what `Set` / `SetOrUpdate` of key `k` must achieve, relative to the state `m` before -/
structure AssignSpec (hash : κ → Nat) (m m' : HMap κ) (k : κ) (upd : Val → Val) (ins : Val) : Prop where
  inv : Inv hash m'
  mem : ∀ e : κ × Val, e ∈ entries hash m' ↔
    (e.1 ≠ k ∧ e ∈ entries hash m) ∨ (e.1 = k ∧ e.2 = (match get hash m k with | some w => upd w | none => ins))
  count : m'.count = if (get hash m k).isSome then m.count else m.count + 1

/-- transport of the spec along a step that does not change the represented entries -/
theorem AssignSpec.of_equiv {hash : κ → Nat} {m m1 m' : HMap κ} {k : κ} {upd : Val → Val} {ins : Val}
    (inv : Inv hash m) (inv1 : Inv hash m1) (h : ∀ e, e ∈ entries hash m1 ↔ e ∈ entries hash m)
    (hc : m1.count = m.count) (s : AssignSpec hash m1 m' k upd ins) : AssignSpec hash m m' k upd ins := by
  have hg := get_congr inv inv1 h k
  exact { inv := s.inv, mem := fun e => by rw [s.mem e, h e, hg], count := by rw [s.count, hg, hc] }

/-- from the change of one bucket's list to the change of the represented entries -/
theorem bucket_spec {hash : κ → Nat} {m1 m' : HMap κ} (inv1 : Inv hash m1) (inv' : Inv hash m') {bi : Nat}
    (hsize : m'.buckets.size = m1.buckets.size) (hbi : bi < m1.buckets.size)
    {fsl fsl' : List (κ × Val)} (hv1 : visit hash m1 bi = fsl)
    (hv : ∀ b, visit hash m' b = if b = bi then fsl' else visit hash m1 b)
    {k : κ} (hk : hash k &&& bucketMask m1 = bi) {nv : Val}
    (H : ∀ e : κ × Val, e ∈ fsl' ↔ (e.1 ≠ k ∧ e ∈ fsl) ∨ (e.1 = k ∧ e.2 = nv)) :
    ∀ e : κ × Val, e ∈ entries hash m' ↔ (e.1 ≠ k ∧ e ∈ entries hash m1) ∨ (e.1 = k ∧ e.2 = nv) := by
  intro e
  have hm : bucketMask m' = bucketMask m1 := by unfold bucketMask; rw [hsize]
  have hpos : 0 < m1.buckets.size := by omega
  rw [inv'.mem_entries, inv1.mem_entries, hsize, hm, hv]
  simp only [hpos, true_and]
  by_cases he : hash e.1 &&& bucketMask m1 = bi
  · rw [if_pos he, he, hv1]; exact H e
  · rw [if_neg he]
    have hne : e.1 ≠ k := fun h => he (by rw [h]; exact hk)
    constructor
    · intro h; exact Or.inl ⟨hne, h⟩
    · rintro (⟨-, h⟩ | ⟨h, -⟩)
      · exact h
      · exact absurd h hne

theorem key_not_mem_of_kv {l : List (Cell κ)} {k : κ} (h : k ∉ l.map (·.key)) {e : κ × Val} (he : e ∈ l.map kv) :
    e.1 ≠ k := by
  intro hk
  apply h
  rw [List.mem_map] at he ⊢
  obtain ⟨x, hx, rfl⟩ := he
  exact ⟨x, hx, hk⟩

/-- the value of the entry of `k` before the operation, when `k` sits in the scanned bucket -/
theorem get_of_visit {hash : κ → Nat} {m1 : HMap κ} (inv1 : Inv hash m1) {k : κ} (hpos : 0 < m1.buckets.size)
    {fs : List (Cell κ)} (hv1 : visit hash m1 (hash k &&& bucketMask m1) = fs.map kv) :
    (∀ c ∈ fs, c.key = k → get hash m1 k = some c.val) ∧ (k ∉ fs.map (·.key) → get hash m1 k = none) := by
  constructor
  · intro c hc hk
    rw [inv1.get_iff, inv1.mem_entries]
    refine ⟨hpos, ?_⟩
    simp only
    rw [hv1, List.mem_map]
    exact ⟨c, hc, by simp [kv, hk]⟩
  · intro hn
    cases hget : get hash m1 k with
    | none => rfl
    | some v =>
      exfalso
      rw [inv1.get_iff, inv1.mem_entries] at hget
      simp only at hget
      rw [hv1] at hget
      exact key_not_mem_of_kv hn hget.2 rfl

/-- the found branch: the value of the existing entry is updated in place -/
theorem update_step {hash : κ → Nat} {m1 : HMap κ} (inv1 : Inv hash m1) {k : κ} (upd : Val → Val) (ins : Val)
    (hpos : 0 < m1.buckets.size)
    (hev : m1.growing = true →
      evacuated (m1.old.getD ((hash k &&& bucketMask m1) &&& oldBucketMask m1) []) = true)
    {as bs : List (Cell κ)} {c : Cell κ} {r : Nat}
    (g : GoodAs hash (bucketMask m1) (hash k &&& bucketMask m1) (m1.buckets.getD (hash k &&& bucketMask m1) []) (as ++ c :: bs) r)
    (hc : c.key = k) :
    AssignSpec hash m1 (m1.setBucket (hash k &&& bucketMask m1)
      ((m1.buckets.getD (hash k &&& bucketMask m1) []).set as.length { c with val := upd c.val })) k upd ins := by
  have hbi := inv1.size_pos_mask hpos (hash k)
  generalize hbi_def : hash k &&& bucketMask m1 = bi at *
  have hset : (m1.buckets.getD bi []).set as.length { c with val := upd c.val }
      = (as ++ { c with val := upd c.val } :: bs) ++ List.replicate r emptyCell := by
    rw [g.eq, List.append_assoc, List.set_append, if_neg (by omega)]
    simp
  have hnd := g.nodup
  rw [List.map_append, List.map_cons, List.nodup_append] at hnd
  obtain ⟨nd1, nd2, nd3⟩ := hnd
  rw [List.nodup_cons] at nd2
  have hkas : k ∉ as.map (·.key) := fun h => nd3 k h c.key (by simp) hc.symm
  have hkbs : k ∉ bs.map (·.key) := fun h => nd2.1 (by rw [hc]; exact h)
  have g' : GoodAs hash (bucketMask m1) bi ((as ++ { c with val := upd c.val } :: bs) ++ List.replicate r emptyCell)
      (as ++ { c with val := upd c.val } :: bs) r :=
    { eq := rfl
      pos := by have := g.pos; simp at this ⊢; omega
      tops := fun x hx => by
        rw [List.mem_append, List.mem_cons] at hx
        rcases hx with hx | rfl | hx
        · exact g.tops x (by simp [hx])
        · exact g.tops c (by simp)
        · exact g.tops x (by simp [hx])
      place := fun x hx => by
        rw [List.mem_append, List.mem_cons] at hx
        rcases hx with hx | rfl | hx
        · exact g.place x (by simp [hx])
        · exact g.place c (by simp)
        · exact g.place x (by simp [hx])
      nodup := by
        have : (as ++ { c with val := upd c.val } :: bs).map (·.key) = (as ++ c :: bs).map (·.key) := by simp
        rw [this]; exact g.nodup }
  have hv1 : visit hash m1 bi = (as ++ c :: bs).map kv := by
    rw [visit_of_evacuated hev, g.cellsOf]
  rw [hset]
  obtain ⟨inv', hv⟩ := setChain_post (m' := m1.setBucket bi ((as ++ { c with val := upd c.val } :: bs) ++ List.replicate r emptyCell))
    inv1 hbi hev g g' rfl rfl rfl rfl rfl rfl (by simp [HMap.setBucket])
  have hgetk : get hash m1 k = some c.val := (get_of_visit inv1 hpos (by rw [hbi_def]; exact hv1)).1 c (by simp) hc
  refine { inv := inv', mem := ?_, count := by rw [hgetk]; rfl }
  rw [hgetk]
  refine bucket_spec inv1 inv' (by simp [HMap.setBucket]) hbi hv1 hv hbi_def ?_
  intro e
  simp only [List.map_append, List.map_cons, List.mem_append, List.mem_cons]
  constructor
  · rintro (h | h | h)
    · exact Or.inl ⟨key_not_mem_of_kv hkas h, Or.inl h⟩
    · right; rw [h]; exact ⟨hc, rfl⟩
    · exact Or.inl ⟨key_not_mem_of_kv hkbs h, Or.inr (Or.inr h)⟩
  · rintro (⟨hne, h | h | h⟩ | ⟨h1, h2⟩)
    · exact Or.inl h
    · exfalso; apply hne; rw [h]; exact hc
    · exact Or.inr (Or.inr h)
    · right; left
      have : e = (e.1, e.2) := rfl
      rw [this, h1, h2]; simp [kv, hc]

/-- the insert branch: a new cell is written into the first pristine cell or a new overflow bucket -/
theorem insert_step {hash : κ → Nat} {m1 : HMap κ} (inv1 : Inv hash m1) {k : κ} (upd : Val → Val) (ins : Val)
    (hpos : 0 < m1.buckets.size)
    (hev : m1.growing = true →
      evacuated (m1.old.getD ((hash k &&& bucketMask m1) &&& oldBucketMask m1) []) = true)
    {fs : List (Cell κ)} {r : Nat}
    (g : GoodAs hash (bucketMask m1) (hash k &&& bucketMask m1) (m1.buckets.getD (hash k &&& bucketMask m1) []) fs r)
    (hk : k ∉ fs.map (·.key)) :
    AssignSpec hash m1 (insertAt m1 (hash k &&& bucketMask m1) (if r = 0 then none else some (0 + fs.length))
      ⟨topHash (hash k), k, ins⟩) k upd ins := by
  have hbi := inv1.size_pos_mask hpos (hash k)
  generalize hbi_def : hash k &&& bucketMask m1 = bi at *
  have hv1 : visit hash m1 bi = fs.map kv := by rw [visit_of_evacuated hev, g.cellsOf]
  have hgetk : get hash m1 k = none := (get_of_visit inv1 hpos (by rw [hbi_def]; exact hv1)).2 hk
  have H : ∀ e : κ × Val, e ∈ (fs ++ [(⟨topHash (hash k), k, ins⟩ : Cell κ)]).map kv ↔
      (e.1 ≠ k ∧ e ∈ fs.map kv) ∨ (e.1 = k ∧ e.2 = ins) := by
    intro e
    simp only [List.map_append, List.map_cons, List.map_nil, List.mem_append, List.mem_singleton]
    constructor
    · rintro (h | h)
      · exact Or.inl ⟨key_not_mem_of_kv hk h, h⟩
      · right; rw [h]; exact ⟨rfl, rfl⟩
    · rintro (⟨-, h⟩ | ⟨h1, h2⟩)
      · exact Or.inl h
      · right
        have : e = (e.1, e.2) := rfl
        rw [this, h1, h2]; rfl
  have gtail : ∀ r', 0 < (fs ++ [(⟨topHash (hash k), k, ins⟩ : Cell κ)]).length + r' →
      GoodAs hash (bucketMask m1) bi ((fs ++ [(⟨topHash (hash k), k, ins⟩ : Cell κ)]) ++ List.replicate r' emptyCell)
        (fs ++ [⟨topHash (hash k), k, ins⟩]) r' := fun r' hp =>
    { eq := rfl
      pos := hp
      tops := fun x hx => by
        rw [List.mem_append, List.mem_singleton] at hx
        rcases hx with hx | rfl
        · exact g.tops x hx
        · rfl
      place := fun x hx => by
        rw [List.mem_append, List.mem_singleton] at hx
        rcases hx with hx | rfl
        · exact g.place x hx
        · exact hbi_def
      nodup := by
        rw [List.map_append, List.nodup_append]
        refine ⟨g.nodup, by simp, ?_⟩
        intro a ha b hb
        simp at hb
        rw [hb]; intro e; exact hk (e ▸ ha) }
  unfold insertAt
  by_cases hr : r = 0
  · -- no pristine cell left: a new overflow bucket
    subst hr
    simp only [if_true, bucketCnt_eq, Nat.reduceSub]
    have hchain : m1.buckets.getD bi [] ++ (⟨topHash (hash k), k, ins⟩ :: List.replicate 7 emptyCell)
        = (fs ++ [⟨topHash (hash k), k, ins⟩]) ++ List.replicate 7 emptyCell := by
      rw [g.eq]; simp
    rw [hchain]
    obtain ⟨inv', hv⟩ := setChain_post
      (m' := { m1.setBucket bi ((fs ++ [⟨topHash (hash k), k, ins⟩]) ++ List.replicate 7 emptyCell) with
                nOverflow := m1.nOverflow + 1, count := m1.count + 1 })
      inv1 hbi hev g (gtail 7 (by simp)) rfl rfl rfl rfl rfl rfl (by simp [HMap.setBucket]; omega)
    refine { inv := inv', mem := ?_, count := by rw [hgetk]; rfl }
    rw [hgetk]
    exact bucket_spec inv1 inv' (by simp [HMap.setBucket]) hbi hv1 hv hbi_def H
  · simp only [hr, if_false, Nat.zero_add]
    obtain ⟨r', rfl⟩ : ∃ r', r = r' + 1 := ⟨r - 1, by omega⟩
    have hchain : (m1.buckets.getD bi []).set fs.length ⟨topHash (hash k), k, ins⟩
        = (fs ++ [⟨topHash (hash k), k, ins⟩]) ++ List.replicate r' emptyCell := by
      rw [g.eq, List.set_append, if_neg (by omega)]
      simp [List.replicate_succ]
    rw [hchain]
    obtain ⟨inv', hv⟩ := setChain_post
      (m' := { m1.setBucket bi ((fs ++ [⟨topHash (hash k), k, ins⟩]) ++ List.replicate r' emptyCell) with
                count := m1.count + 1 })
      inv1 hbi hev g (gtail r' (by simp only [List.length_append, List.length_cons, List.length_nil]; omega)) rfl rfl rfl rfl rfl rfl (by simp [HMap.setBucket]; omega)
    refine { inv := inv', mem := ?_, count := by rw [hgetk]; rfl }
    rw [hgetk]
    exact bucket_spec inv1 inv' (by simp [HMap.setBucket]) hbi hv1 hv hbi_def H

/-- the `growWork` prologue of one round of `Set` / `SetOrUpdate` -/
theorem prologue_post {hash : κ → Nat} {m : HMap κ} (inv : Inv hash m) (k : κ) :
    ∀ m1, m1 = (if m.growing = true then growWork hash m (hash k &&& bucketMask m) else m) →
      EvacPost hash m m1 ∧
      (m1.growing = true → evacuated (m1.old.getD ((hash k &&& bucketMask m1) &&& oldBucketMask m1) []) = true) := by
  intro m1 hm1
  by_cases hg : m.growing = true
  · rw [if_pos hg] at hm1
    subst hm1
    obtain ⟨p, e⟩ := growWork_post inv hg (hash k &&& bucketMask m)
    refine ⟨p, fun h => ?_⟩
    have h1 : bucketMask (growWork hash m (hash k &&& bucketMask m)) = bucketMask m :=
      congrArg (fun n => n - 1) p.size
    have h2 : oldBucketMask (growWork hash m (hash k &&& bucketMask m)) = oldBucketMask m :=
      congrArg (fun n => n - 1) (p.still h).1
    rw [h1, h2]; exact e h
  · rw [if_neg hg] at hm1
    subst hm1
    exact ⟨EvacPost.refl inv, fun h => absurd h hg⟩

theorem AssignSpec.of_post {hash : κ → Nat} {m m1 m' : HMap κ} {k : κ} {upd : Val → Val} {ins : Val}
    (inv : Inv hash m) (p : EvacPost hash m m1) (s : AssignSpec hash m1 m' k upd ins) :
    AssignSpec hash m m' k upd ins :=
  s.of_equiv inv p.inv (fun e => by rw [p.entries]) p.count

theorem getD_append_mid {α : Type} (as bs : List α) (c d : α) : (as ++ c :: bs).getD as.length d = c := by
  simp [List.getD]

/-- one round of the `again:` loop, given the spec of the next round -/
theorem assign_pass {hash : κ → Nat} (k : κ) (upd : Val → Val) (ins : Val) (fuel : Nat) (m : HMap κ)
    (IH : ∀ f, fuel = f + 1 → ∀ m', Inv hash m' → 0 < m'.buckets.size →
      AssignSpec hash m' (assignLoop hash k upd ins f m') k upd ins)
    (inv : Inv hash m) (hpos : 0 < m.buckets.size) :
    AssignSpec hash m (assignLoop hash k upd ins fuel m) k upd ins := by
  unfold assignLoop
  simp only
  have P := prologue_post inv k _ rfl
  generalize (if m.growing = true then growWork hash m (hash k &&& bucketMask m) else m) = m1 at P ⊢
  obtain ⟨p, hev⟩ := P
  have inv1 := p.inv
  have hpos1 : 0 < m1.buckets.size := by rw [p.size]; exact hpos
  have hbi := inv1.size_pos_mask hpos1 (hash k)
  obtain ⟨fs, r, g⟩ := inv1.good _ hbi
  refine AssignSpec.of_post inv p ?_
  by_cases hk : k ∈ fs.map (·.key)
  · obtain ⟨as, c, bs, hfs, hc, hkas⟩ := split_at_key k fs hk
    subst hfs
    have hscan := scanChain_found hash k r as c bs 0 g.tops hkas hc
    rw [← g.eq] at hscan
    rw [hscan]
    simp only [Nat.zero_add]
    have hgetc : (m1.buckets.getD (hash k &&& bucketMask m1) []).getD as.length emptyCell = c := by
      rw [g.eq, List.append_assoc, List.cons_append]; exact getD_append_mid _ _ _ _
    rw [hgetc]
    exact update_step inv1 upd ins hpos1 hev g hc
  · have hscan := scanChain_miss hash k r fs 0 g.tops hk
    rw [← g.eq] at hscan
    rw [hscan]
    simp only
    cases fuel with
    | zero => exact insert_step inv1 upd ins hpos1 hev g hk
    | succ f =>
      simp only
      by_cases hgrow : (!m1.growing) = true ∧
          (loadFactor ((m1.count : Int) + 1) ↑m1.buckets.size = true ∨ tooManyOverflowBuckets m1.nOverflow ↑m1.buckets.size = true)
      · rw [if_pos hgrow]
        have hg1 : m1.growing = false := by simpa using hgrow.1
        obtain ⟨invg, permg, -, cntg⟩ := hashGrow_post inv1 hg1 hpos1
        have hposg : 0 < (hashGrow m1).buckets.size := by
          rcases Nat.eq_zero_or_pos (hashGrow m1).buckets.size with h | h
          · exfalso
            have := permg.length_eq
            rw [entries_nil_of_size h] at this
            -- the grown table always has at least as many buckets as before
            simp [hashGrow, makeBucketArray] at h
            split at h <;> omega
          · exact h
        exact (IH f rfl _ invg hposg).of_equiv inv1 invg (fun e => permg.mem_iff) cntg
      · rw [if_neg hgrow]
        exact insert_step inv1 upd ins hpos1 hev g hk

theorem assignLoop_post {hash : κ → Nat} (k : κ) (upd : Val → Val) (ins : Val) :
    ∀ (fuel : Nat) (m : HMap κ), Inv hash m → 0 < m.buckets.size →
      AssignSpec hash m (assignLoop hash k upd ins fuel m) k upd ins
  | 0, m, inv, hpos => assign_pass k upd ins 0 m (fun f h => by cases h) inv hpos
  | fuel + 1, m, inv, hpos =>
    assign_pass k upd ins (fuel + 1) m
      (fun f h m' inv' hpos' => by
        have : fuel = f := by omega
        subst this
        exact assignLoop_post k upd ins fuel m' inv' hpos') inv hpos

/-- a map whose bucket array is nil is empty and idle -/
theorem Inv.of_size_zero {hash : κ → Nat} {m : HMap κ} (inv : Inv hash m) (h : m.buckets.size = 0) :
    m.growing = false ∧ m.count = 0 := by
  constructor
  · cases hg : m.growing with
    | false => rfl
    | true =>
      have gi := inv.grow hg
      have := gi.size
      have := gi.nev
      split at * <;> omega
  · rw [inv.cnt, entries_nil_of_size h]; rfl

/-- the lazily allocated first bucket -/
theorem init_post {hash : κ → Nat} {m : HMap κ} (inv : Inv hash m) (h : m.buckets.size = 0) :
    Inv hash { m with buckets := #[newChain] } ∧ entries hash { m with buckets := #[newChain] } = entries hash m := by
  obtain ⟨hg, hc⟩ := inv.of_size_zero h
  have he : entries hash { m with buckets := #[newChain] } = [] := by
    simp [entries, visit, hg, cellsOf_newChain]
  refine ⟨{ ok := inv.ok, pow := Or.inr ⟨0, rfl⟩, good := ?_, idle := inv.idle, grow := fun h' => by simp [hg] at h',
            cnt := by rw [he]; exact hc }, by rw [he, entries_nil_of_size h]⟩
  intro i hi
  have : i = 0 := by simp at hi; omega
  subst this
  exact ⟨[], 8, by simpa using newChain_good hash _ 0⟩

theorem assign_post {hash : κ → Nat} {m : HMap κ} (inv : Inv hash m) (k : κ) (upd : Val → Val) (ins : Val) :
    AssignSpec hash m (assign hash m k upd ins) k upd ins := by
  unfold assign
  by_cases h : m.buckets.size = 0
  · simp only [h, if_true]
    obtain ⟨inv0, e0⟩ := init_post inv h
    exact (assignLoop_post k upd ins againFuel _ inv0 (by simp)).of_equiv inv inv0 (fun e => by rw [e0]) rfl
  · simp only [h, if_false]
    exact assignLoop_post k upd ins againFuel m inv (by omega)

/-- `NewHint` establishes the invariant and represents the empty map -/
theorem newHint_post (hash : κ → Nat) (hint : Int) :
    Inv hash (newHint hint : HMap κ) ∧ entries hash (newHint hint : HMap κ) = [] := by
  unfold newHint
  by_cases h : hint ≤ 0
  · simp only [h, if_true]
    have he : entries hash ({} : HMap κ) = [] := by simp [entries]
    exact ⟨{ ok := rfl, pow := Or.inl rfl, good := fun i hi => by simp at hi, idle := fun _ => rfl,
             grow := fun h => by simp at h, cnt := by rw [he]; rfl }, he⟩
  · simp only [h, if_false]
    have hpow : ∀ fuel nb, (∃ B, nb = 2 ^ B) → ∃ B, hintBuckets hint fuel nb = 2 ^ B := by
      intro fuel
      induction fuel with
      | zero => intro nb h; exact h
      | succ f ih =>
        intro nb ⟨B, hB⟩
        unfold hintBuckets
        split
        · exact ih _ ⟨B + 1, by rw [hB, Nat.pow_succ]⟩
        · exact ⟨B, hB⟩
    obtain ⟨B, hB⟩ := hpow 64 1 ⟨0, rfl⟩
    have he : entries hash ({ buckets := makeBucketArray (hintBuckets hint 64 1) } : HMap κ) = [] := by
      unfold entries
      rw [List.flatMap_eq_nil_iff]
      intro b hb
      rw [List.mem_range] at hb
      simp only [makeBucketArray, Array.size_replicate] at hb
      simp [visit, makeBucketArray, getD_replicate _ _ _ _ hb, cellsOf_newChain]
    refine ⟨{ ok := rfl, pow := Or.inr ⟨B, by simp [makeBucketArray, hB]⟩, good := ?_, idle := fun _ => rfl,
              grow := fun h => by simp at h, cnt := by rw [he]; rfl }, he⟩
    intro i hi
    simp only [makeBucketArray, Array.size_replicate] at hi
    simp only [makeBucketArray, getD_replicate _ _ _ _ hi]
    exact ⟨[], 8, newChain_good hash _ i⟩

end C18
