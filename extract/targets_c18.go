package main

import (
	"go/ast"
	"strings"
)

// C18 — flow hash map. Constants and the pure helpers are regenerated into Gen/HashMap.lean (the
// hand model Model/C18.lean is written over them). The statement lists of every function the hand
// model transcribes are pinned as facts, so that any edit of hashmap.go / iterator.go breaks the
// tie until the model is re-examined. Three derived facts pin the shapes the model relies on:
//   c18_set_vs_setorupdate  Set and SetOrUpdate differ only in the update / inserted value
//                           (the model has one `assign` with two value parameters)
//   c18_merge_vs_next       the loop inlined in Merge is the body of Iter.Next (m -> src) followed
//                           by SetOrUpdate (the model's merge folds setOrUpdate over `iterate`)
//   c18_key_copy            where the key bytes are copied into the map's arena (`key_copied`)

func c18Stmts(l *Loader, fn string) []string {
	_, fd := mustFunc(l, "pkg/types/hashmap", fn)
	var out []string
	var walk func(list []ast.Stmt, depth string)
	var one func(s ast.Stmt, depth string)
	one = func(s ast.Stmt, depth string) {
		switch x := s.(type) {
		case *ast.IfStmt:
			hdr := "if "
			if x.Init != nil {
				hdr += srcText(l, x.Init) + "; "
			}
			out = append(out, depth+hdr+srcText(l, x.Cond))
			walk(x.Body.List, depth+"  ")
			if x.Else != nil {
				out = append(out, depth+"else")
				if b, ok := x.Else.(*ast.BlockStmt); ok {
					walk(b.List, depth+"  ")
				} else {
					one(x.Else, depth+"  ")
				}
			}
		case *ast.ForStmt:
			hdr := "for "
			if x.Init != nil {
				hdr += srcText(l, x.Init)
			}
			hdr += "; "
			if x.Cond != nil {
				hdr += srcText(l, x.Cond)
			}
			hdr += "; "
			if x.Post != nil {
				hdr += srcText(l, x.Post)
			}
			out = append(out, depth+hdr)
			walk(x.Body.List, depth+"  ")
		case *ast.LabeledStmt:
			out = append(out, depth+x.Label.Name+":")
			one(x.Stmt, depth)
		case *ast.BlockStmt:
			walk(x.List, depth+"  ")
		case *ast.EmptyStmt:
		default:
			out = append(out, depth+srcText(l, s))
		}
	}
	walk = func(list []ast.Stmt, depth string) {
		for _, s := range list {
			one(s, depth)
		}
	}
	walk(fd.Body.List, "")
	return out
}

// lineDiff lists the lines of a that are not in b ("-") and of b that are not in a ("+"), in order
func c18LineDiff(a, b []string) []string {
	in := func(xs []string) map[string]int {
		m := map[string]int{}
		for _, x := range xs {
			m[x]++
		}
		return m
	}
	ma, mb := in(a), in(b)
	out := []string{}
	for _, x := range a {
		if mb[x] > 0 {
			mb[x]--
		} else {
			out = append(out, "- "+strings.TrimSpace(x))
		}
	}
	for _, x := range b {
		if ma[x] > 0 {
			ma[x]--
		} else {
			out = append(out, "+ "+strings.TrimSpace(x))
		}
	}
	return out
}

func init() {
	addTargets(Target{File: "HashMap", Items: []Item{
		{Pkg: "pkg/types/hashmap", Kind: "const", Name: "bucketCntBits"},
		{Pkg: "pkg/types/hashmap", Kind: "const", Name: "bucketCnt"},
		{Pkg: "pkg/types/hashmap", Kind: "const", Name: "loadFactorNum"},
		{Pkg: "pkg/types/hashmap", Kind: "const", Name: "loadFactorDen"},
		{Pkg: "pkg/types/hashmap", Kind: "const", Name: "emptyRest"},
		{Pkg: "pkg/types/hashmap", Kind: "const", Name: "emptyOne"},
		{Pkg: "pkg/types/hashmap", Kind: "const", Name: "evacuatedX"},
		{Pkg: "pkg/types/hashmap", Kind: "const", Name: "evacuatedY"},
		{Pkg: "pkg/types/hashmap", Kind: "const", Name: "evacuatedEmpty"},
		{Pkg: "pkg/types/hashmap", Kind: "const", Name: "minTopHash"},
		{Pkg: "pkg/types/hashmap", Kind: "const", Name: "sameSizeGrow"},
		{Pkg: "pkg/types/hashmap", Kind: "const", Name: "noBucket"},
		{Pkg: "pkg/types/hashmap", Kind: "const", Name: "ptrBitSize"},
		{Pkg: "pkg/types/hashmap", Kind: "func", Name: "loadFactor"},
		{Pkg: "pkg/types/hashmap", Kind: "func", Name: "tooManyOverflowBuckets"},
		{Pkg: "pkg/types/hashmap", Kind: "func", Name: "isEmpty"},
		{Pkg: "pkg/types/hashmap", Kind: "func", Name: "topHash"},
	}})
	for _, fn := range []string{"NewHint", "Map.Len", "Map.Get", "Map.SetOrUpdate", "Map.Merge", "Map.iter", "Map.mapaccessK",
		"Map.hashGrow", "Map.newoverflow", "Map.growWork", "Map.evacuate", "Map.advanceEvacuationMark", "evacuated",
		"makeBucketArray", "Iter.Next"} {
		fn := fn
		name := "c18_stmts_" + strings.ReplaceAll(fn, ".", "_")
		factExtractors[name] = func(l *Loader) (any, error) { return c18Stmts(l, fn), nil }
	}
	factExtractors["c18_set_vs_setorupdate"] = func(l *Loader) (any, error) {
		return c18LineDiff(c18Stmts(l, "Map.Set"), c18Stmts(l, "Map.SetOrUpdate")), nil
	}
	factExtractors["c18_merge_vs_next"] = func(l *Loader) (any, error) {
		mg := c18Stmts(l, "Map.Merge")
		for i := range mg {
			mg[i] = strings.ReplaceAll(mg[i], "src.", "m.")
			mg[i] = strings.ReplaceAll(mg[i], "len(m.buckets)", "len(m.buckets)")
		}
		return c18LineDiff(c18Stmts(l, "Iter.Next"), mg), nil
	}
	factExtractors["c18_key_copy"] = func(l *Loader) (any, error) {
		var out []string
		for _, fn := range []string{"Map.Set", "Map.SetOrUpdate"} {
			for _, s := range c18Stmts(l, fn) {
				if strings.Contains(s, "keyData") || strings.Contains(s, "insertK") {
					out = append(out, fn+": "+strings.TrimSpace(s))
				}
			}
		}
		return out, nil
	}
}
