package main

func init() {
	// the reader-side recovery protocol the C30 model is written from
	for name, fn := range map[string]string{
		"c30_gpdir_open_calls":          "GPDir.Open",
		"c30_gpdir_readblock_calls":     "GPDir.ReadBlockAtIndex",
		"c30_gpdir_readblock_int_calls": "GPDir.readBlockAtIndex",
		"c30_gpdir_recover_calls":       "GPDir.recoverDirPath",
		"c30_gpfile_readblock_calls":    "GPFile.ReadBlockAtIndex",
		"c30_gpdir_relocate_calls":      "GPDir.relocateColumn",
		"c30_gpdir_close_calls":         "GPDir.Close",
		"c30_gpfile_close_calls":        "GPFile.Close",
	} {
		fn := fn
		factExtractors[name] = func(l *Loader) (any, error) {
			return CallSeq(l, "pkg/goDB/storage/gpfile", fn), nil
		}
	}
	factExtractors["c30_uninitialized_calls"] = func(l *Loader) (any, error) {
		return CallSeq(l, "pkg/goDB/storage/gpfile", "IsUninitialized"), nil
	}
}
