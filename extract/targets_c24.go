package main

import (
	"go/ast"
	"strings"
)

// C24 — merge follows the per-day plan.
//
// Regenerated into Gen/Merge.lean: planDayMerge (+ its structs and the action constants), the
// arithmetic tail of isDayComplete (fragment translation, frag.go), defaultCompleteTolerance,
// gpfile.DirTimestamp / EpochDay. Theorems plan_table / complete_rule are stated over these.
//
// Pinned as facts (the hand model Model/C24.lean transcribes these functions; any edit breaks the
// tie until the model is re-examined): the full statement texts of MergeDatabases,
// selectInterfaces, listSourceInterfaces, mapKeysSorted, readDaySnapshots, mergeSnapshots,
// rebuildDayToStage, the head of isDayComplete (before the translated tail), and the arguments of
// every directory/file-creating, renaming or removing call of merge.go (they name the destination
// or the staging area only — the source is only ever opened for reading).

func c24Stmts(l *Loader, pkg, fn string, upTo string) []string {
	_, fd := mustFunc(l, pkg, fn)
	var out []string
	for _, s := range fd.Body.List {
		t := srcText(l, s)
		if upTo != "" && strings.HasPrefix(t, upTo) {
			break
		}
		out = append(out, t)
	}
	return out
}

func c24WriteCalls(l *Loader) []string {
	p, err := l.Load("pkg/goDB")
	if err != nil {
		panic(err)
	}
	watched := []string{"os.MkdirAll", "os.MkdirTemp", "os.Rename", "os.RemoveAll", "os.Remove", "os.OpenFile", "os.Create", "os.WriteFile", "os.Chmod", "os.Truncate", "gpfile.NewDirWriter"}
	var out []string
	for _, f := range p.Files {
		if !strings.HasSuffix(l.Fset.Position(f.Pos()).Filename, "/merge.go") {
			continue
		}
		for _, d := range f.Decls {
			fd, ok := d.(*ast.FuncDecl)
			if !ok || fd.Body == nil {
				continue
			}
			ast.Inspect(fd.Body, func(n ast.Node) bool {
				c, ok := n.(*ast.CallExpr)
				if !ok {
					return true
				}
				callee := srcText(l, c.Fun)
				for _, w := range watched {
					if callee == w {
						var as []string
						for _, a := range c.Args {
							as = append(as, srcText(l, a))
						}
						out = append(out, fd.Name.Name+": "+callee+"("+strings.Join(as, ", ")+")")
					}
				}
				return true
			})
		}
	}
	return out
}

func init() {
	addTargets(Target{File: "Merge", Items: []Item{
		{Pkg: "pkg/goDB", Kind: "const", Name: "mergeDayActionSkip"},
		{Pkg: "pkg/goDB", Kind: "const", Name: "mergeDayActionCopy"},
		{Pkg: "pkg/goDB", Kind: "const", Name: "mergeDayActionRebuild"},
		{Pkg: "pkg/goDB", Kind: "func", Name: "planDayMerge"},
		{Pkg: "pkg/goDB", Kind: "const", Name: "defaultCompleteTolerance"},
		{Pkg: "pkg/goDB/storage/gpfile", Kind: "func", Name: "DirTimestamp"},
		{Pkg: "pkg/goDB/storage/gpfile", Kind: "const", Name: "EpochDay"},
		{Pkg: "pkg/goDB", Kind: "frag", Name: "isDayComplete", As: "isDayCompleteTail",
			From:   "var blockDuration int64 = 300",
			Opaque: [][2]string{{"blocks[n-1].Timestamp", "tsLast"}, {"blocks[n-2].Timestamp", "tsPrev"}},
			Skip:   []string{"blocks := reader.BlockMetadata[0].Blocks()"}},
	}})
	for _, fn := range []string{"MergeDatabases", "selectInterfaces", "listSourceInterfaces", "mapKeysSorted", "readDaySnapshots", "mergeSnapshots", "rebuildDayToStage"} {
		fn := fn
		factExtractors["c24_stmts_"+fn] = func(l *Loader) (any, error) { return c24Stmts(l, "pkg/goDB", fn, ""), nil }
	}
	factExtractors["c24_isDayComplete_head"] = func(l *Loader) (any, error) {
		return c24Stmts(l, "pkg/goDB", "isDayComplete", "var blockDuration int64 = 300"), nil
	}
	factExtractors["c24_TimeRange"] = func(l *Loader) (any, error) {
		return c24Stmts(l, "pkg/goDB/storage/gpfile", "GPDir.TimeRange", ""), nil
	}
	factExtractors["c24_write_calls"] = func(l *Loader) (any, error) { return c24WriteCalls(l), nil }
}
