package main

// Support for regenerating literal tables of a *dependency* (module cache) — used by C03 for the
// base-62 tables of github.com/fako1024/gotools/bitpack that encode the day-directory suffix.

import (
	"bufio"
	"fmt"
	"go/ast"
	"go/constant"
	"go/types"
	"os"
	"path/filepath"
	"strings"
)

// modCacheDir returns the directory of module `mod` at the version required by <repo>/go.mod.
func (l *Loader) modCacheDir(mod string) (string, error) {
	f, err := os.Open(filepath.Join(l.Root, "go.mod"))
	if err != nil {
		return "", err
	}
	defer f.Close()
	version := ""
	sc := bufio.NewScanner(f)
	for sc.Scan() {
		fs := strings.Fields(strings.TrimPrefix(strings.TrimSpace(sc.Text()), "require "))
		if len(fs) >= 2 && fs[0] == mod && strings.HasPrefix(fs[1], "v") {
			version = fs[1]
		}
	}
	if version == "" {
		return "", fmt.Errorf("module %s not required by %s/go.mod", mod, l.Root)
	}
	cache := os.Getenv("GOMODCACHE")
	if cache == "" {
		gp := os.Getenv("GOPATH")
		if gp == "" {
			home, _ := os.UserHomeDir()
			gp = filepath.Join(home, "go")
		}
		cache = filepath.Join(strings.Split(gp, string(os.PathListSeparator))[0], "pkg", "mod")
	}
	var esc strings.Builder // module cache case-escaping: 'A' -> "!a"
	for _, r := range mod {
		if r >= 'A' && r <= 'Z' {
			esc.WriteByte('!')
			r += 'a' - 'A'
		}
		esc.WriteRune(r)
	}
	dir := filepath.Join(cache, esc.String()+"@"+version)
	if _, err := os.Stat(dir); err != nil {
		return "", fmt.Errorf("module %s@%s not in the module cache: %v", mod, version, err)
	}
	return dir, nil
}

// Table emits `def <name> : List Nat := [...]` for a package-level array/slice variable of an
// unsigned integer type initialised by a composite literal with optional constant keys
// (`[N]T{3: 7, 9: 1}`); elements not mentioned are zero, arrays are filled to their length.
func (t *Tr) Table(p *Pkg, name string) {
	vs, idx := p.FindValue(name)
	if vs == nil || idx >= len(vs.Values) {
		panic(trErr{fmt.Sprintf("%s: no initialised variable %s", p.Path, name)})
	}
	cl, ok := vs.Values[idx].(*ast.CompositeLit)
	if !ok {
		panic(trErr{fmt.Sprintf("%s.%s: initialiser is not a composite literal", p.Path, name)})
	}
	ty := p.Info.Types[cl].Type
	n := int64(-1)
	var elem types.Type
	switch u := ty.Underlying().(type) {
	case *types.Array:
		n, elem = u.Len(), u.Elem()
	case *types.Slice:
		elem = u.Elem()
	default:
		panic(trErr{fmt.Sprintf("%s.%s: not an array or slice", p.Path, name)})
	}
	if b, ok := elem.Underlying().(*types.Basic); !ok || !isUnsigned(b) {
		panic(trErr{fmt.Sprintf("%s.%s: element type %s is not an unsigned integer", p.Path, name, elem)})
	}
	vals := map[int64]string{}
	next, max := int64(0), int64(-1)
	for _, el := range cl.Elts {
		v := el
		if kv, ok := el.(*ast.KeyValueExpr); ok {
			ktv, ok := p.Info.Types[kv.Key]
			if !ok || ktv.Value == nil || ktv.Value.Kind() != constant.Int {
				t.fail(kv.Pos(), "table key is not an integer constant")
			}
			next, _ = constant.Int64Val(ktv.Value)
			v = kv.Value
		}
		vtv, ok := p.Info.Types[v]
		if !ok || vtv.Value == nil || vtv.Value.Kind() != constant.Int || constant.Sign(vtv.Value) < 0 {
			t.fail(v.Pos(), "table element is not a non-negative integer constant")
		}
		if _, dup := vals[next]; dup {
			t.fail(v.Pos(), "duplicate table index %d", next)
		}
		vals[next] = vtv.Value.ExactString()
		if next > max {
			max = next
		}
		next++
	}
	if n < 0 {
		n = max + 1
	}
	var els []string
	for i := int64(0); i < n; i++ {
		if s, ok := vals[i]; ok {
			els = append(els, s)
		} else {
			els = append(els, "0")
		}
	}
	t.out = append(t.out, fmt.Sprintf("/-- Go: var %s.%s (%s), %d elements, unset elements are 0 -/\ndef %s : List Nat :=\n  [%s]\n",
		p.Types.Name(), name, t.l.Fset.Position(vs.Pos()), n, leanIdent(name), strings.Join(els, ", ")))
}
