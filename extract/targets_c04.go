package main

func init() {
	// the order of file operations the write-out model (Model/WriteOut.lean) is written from
	factExtractors["c04_writeMetadataAtomic_calls"] = func(l *Loader) (any, error) {
		return CallSeq(l, "pkg/goDB/storage/gpfile", "GPDir.writeMetadataAtomic"), nil
	}
	factExtractors["c04_dbwriter_write_calls"] = func(l *Loader) (any, error) {
		return CallSeq(l, "pkg/goDB", "DBWriter.Write"), nil
	}
	factExtractors["c04_gpdir_close_calls"] = func(l *Loader) (any, error) {
		return CallSeq(l, "pkg/goDB/storage/gpfile", "GPDir.Close"), nil
	}
	factExtractors["c04_gpdir_writeblocks_calls"] = func(l *Loader) (any, error) {
		return CallSeq(l, "pkg/goDB/storage/gpfile", "GPDir.WriteBlocks"), nil
	}
	factExtractors["c04_walkdb_calls"] = func(l *Loader) (any, error) {
		return CallSeq(l, "pkg/goDB", "DBWorkManager.walkDB"), nil
	}
}
