package main

// C02 — facts behind the configuration map of lean/GoProbeModel/Model/C02.lean (`Config.variant`):
// the `//go:build` line of each of the four build-tag selected encoder files, and how GPFile calls
// Compress (it hands over its own scratch buffer, allocated with a LENGTH of bufferPreallocSize).
// Helpers (c07ParseFile, c07BuildLine, c07Files) live in targets_c07.go.

func init() {
	for name, rel := range c07Files {
		if name != "null" {
			factExtractors["c02_build_"+name] = func(l *Loader) (any, error) { return c07BuildLine(l, rel) }
		}
	}
	factExtractors["c02_gpfile_scratch"] = func(l *Loader) (any, error) {
		return append(CallArgs(l, "pkg/goDB/storage/gpfile", "GPFile.writeBlock", "Encoder.Compress"),
			CallArgs(l, "pkg/goDB/storage/gpfile", "New", "bufPool.Get")...), nil
	}
}
