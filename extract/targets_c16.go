package main

import (
	"go/ast"
	"go/token"
	"strconv"
)

// C16 — interface selection. The code is string/slice/regexp handling outside the translatable
// subset, so the tie is: the string constants are regenerated (Gen/IfaceSel.lean, pinned by
// theorems in Props/C16.lean) and the shapes the hand model (Model/C16.lean) relies on are facts.

// stringLits lists the string literals passed to calls of `callee` in the package-level
// variable initialisers and function bodies of pkg.
func stringLits(l *Loader, pkg, callee string) []string {
	p, err := l.Load(pkg)
	if err != nil {
		panic(err)
	}
	var out []string
	for _, f := range p.Files {
		ast.Inspect(f, func(n ast.Node) bool {
			c, ok := n.(*ast.CallExpr)
			if !ok || srcText(l, c.Fun) != callee {
				return true
			}
			for _, a := range c.Args {
				if bl, ok := a.(*ast.BasicLit); ok && bl.Kind == token.STRING {
					s, err := strconv.Unquote(bl.Value)
					if err != nil {
						s = bl.Value
					}
					out = append(out, s)
				}
			}
			return true
		})
	}
	return out
}

// returnTexts lists the source texts of the return statements of fn.
func returnTexts(l *Loader, pkg, fn string) []string {
	_, fd := mustFunc(l, pkg, fn)
	var out []string
	ast.Inspect(fd.Body, func(n ast.Node) bool {
		if r, ok := n.(*ast.ReturnStmt); ok {
			out = append(out, srcText(l, r))
		}
		return true
	})
	return out
}

// loopTexts lists the full source text (whitespace-normalised, comments dropped) of every for /
// range statement of fn, outermost first.
func loopTexts(l *Loader, pkg, fn string) []string {
	_, fd := mustFunc(l, pkg, fn)
	out := []string{}
	ast.Inspect(fd.Body, func(n ast.Node) bool {
		switch n.(type) {
		case *ast.RangeStmt, *ast.ForStmt:
			out = append(out, srcText(l, n))
		}
		return true
	})
	return out
}

func init() {
	addTargets(Target{File: "IfaceSel", Items: []Item{
		{Pkg: "pkg/types", Kind: "const", Name: "ifaceListDelimiter"},
		{Pkg: "pkg/types", Kind: "const", Name: "regExpSeparator"},
		{Pkg: "pkg/types", Kind: "const", Name: "AnySelector"},
	}})
	// the two regular expressions of iface.go: the name pattern and the /…/ extractor
	factExtractors["c16_mustcompile_literals"] = func(l *Loader) (any, error) {
		return stringLits(l, "pkg/types", "regexp.MustCompile"), nil
	}
	factExtractors["c16_validate_name_calls"] = func(l *Loader) (any, error) {
		return CallSeq(l, "pkg/types", "ValidateIfaceName"), nil
	}
	factExtractors["c16_separate_calls"] = func(l *Loader) (any, error) {
		return CallSeq(l, "pkg/types", "ValidateAndSeparateFilters"), nil
	}
	factExtractors["c16_separate_prefix_args"] = func(l *Loader) (any, error) {
		return CallArgs(l, "pkg/types", "ValidateAndSeparateFilters", "strings.HasPrefix"), nil
	}
	factExtractors["c16_is_regexp_returns"] = func(l *Loader) (any, error) {
		return returnTexts(l, "pkg/types", "IsIfaceArgumentRegExp"), nil
	}
	factExtractors["c16_is_any_returns"] = func(l *Loader) (any, error) {
		return returnTexts(l, "pkg/types", "IsAnySelector"), nil
	}
	factExtractors["c16_extract_regexp_calls"] = func(l *Loader) (any, error) {
		return CallSeq(l, "pkg/types", "ValidateAndExtractRegExp"), nil
	}
	factExtractors["c16_validate_argument_calls"] = func(l *Loader) (any, error) {
		return CallSeq(l, "pkg/types", "ValidateIfaceArgument"), nil
	}
	factExtractors["c16_select_list_calls"] = func(l *Loader) (any, error) {
		return CallSeq(l, "pkg/goDB/engine", "parseIfaceListWithCommaSeparatedString"), nil
	}
	factExtractors["c16_select_list_loops"] = func(l *Loader) (any, error) {
		return loopTexts(l, "pkg/goDB/engine", "parseIfaceListWithCommaSeparatedString"), nil
	}
	factExtractors["c16_select_list_delete_args"] = func(l *Loader) (any, error) {
		return CallArgs(l, "pkg/goDB/engine", "parseIfaceListWithCommaSeparatedString", "slices.DeleteFunc"), nil
	}
	factExtractors["c16_select_regex_loops"] = func(l *Loader) (any, error) {
		return loopTexts(l, "pkg/goDB/engine", "parseIfaceListWithRegex"), nil
	}
	factExtractors["c16_separate_loops"] = func(l *Loader) (any, error) {
		return loopTexts(l, "pkg/types", "ValidateAndSeparateFilters"), nil
	}
	factExtractors["c16_select_regex_calls"] = func(l *Loader) (any, error) {
		return CallSeq(l, "pkg/goDB/engine", "parseIfaceListWithRegex"), nil
	}
	factExtractors["c16_run_iface_calls"] = func(l *Loader) (any, error) {
		var out []string
		for _, c := range CallSeq(l, "pkg/goDB/engine", "QueryRunner.run") {
			switch c {
			case "args.Prepare", "NewDBInterfaceLister", "types.IsIfaceArgumentRegExp", "parseIfaceListWithRegex",
				"parseIfaceListWithCommaSeparatedString", "qr.RunStatement":
				out = append(out, c)
			}
		}
		return out, nil
	}
}
