package main

// C14 — result ordering and row limit.
// Regenerated into Lean (Gen/SortBy.lean): the comparators themselves. Facts: the plumbing
// around them that the hand model (Model/C14.lean: sortBy, limitL, limitD, runL, runD) relies on.

// stmtTexts lists the top-level statements of fn's body as full (whitespace-normalised) source texts.
func stmtTexts(l *Loader, pkg, fn string) []string {
	_, fd := mustFunc(l, pkg, fn)
	var out []string
	for _, s := range fd.Body.List {
		out = append(out, srcText(l, s))
	}
	return out
}

func tailN(xs []string, n int) []string {
	if len(xs) > n {
		return xs[len(xs)-n:]
	}
	return xs
}

func init() {
	addTargets(Target{File: "SortBy", Items: []Item{
		{Pkg: "pkg/results", Kind: "func", Name: "Attributes.Less"},
		{Pkg: "pkg/results", Kind: "func", Name: "Labels.Less"},
		{Pkg: "pkg/results", Kind: "func", Name: "Row.Less"},
		{Pkg: "pkg/results", Kind: "func", Name: "By"},
		{Pkg: "pkg/results", Kind: "const", Name: "SortPackets"},
		{Pkg: "pkg/results", Kind: "const", Name: "SortTraffic"},
		{Pkg: "pkg/results", Kind: "const", Name: "SortTime"},
		{Pkg: "pkg/types", Kind: "const", Name: "DirectionSum"},
		{Pkg: "pkg/types", Kind: "const", Name: "DirectionIn"},
		{Pkg: "pkg/types", Kind: "const", Name: "DirectionOut"},
		{Pkg: "pkg/types", Kind: "const", Name: "DirectionBoth"},
	}})
	// by.Sort hands the closure unchanged to sort.Sort; Less(i, j) passes (&entries[i], &entries[j]) in this order
	factExtractors["c14_sort_plumbing"] = func(l *Loader) (any, error) {
		var out []string
		out = append(out, stmtTexts(l, "pkg/results", "by.Sort")...)
		out = append(out, stmtTexts(l, "pkg/results", "entrySorter.Len")...)
		out = append(out, stmtTexts(l, "pkg/results", "entrySorter.Swap")...)
		out = append(out, stmtTexts(l, "pkg/results", "entrySorter.Less")...)
		out = append(out, stmtTexts(l, "pkg/results", "RowsMap.ToRowsSortedTo")...)
		return out, nil
	}
	// the limit in (*Statement).PostProcess: the last statements of the function
	factExtractors["c14_postprocess_limit"] = func(l *Loader) (any, error) {
		return tailN(stmtTexts(l, "pkg/query", "Statement.PostProcess"), 3), nil
	}
	// finalizeResult: early return on an empty map, sort, PostProcess, min(limit, bound), truncate
	factExtractors["c14_finalize_result"] = func(l *Loader) (any, error) {
		return stmtTexts(l, "cmd/global-query/pkg/distributed", "finalizeResult"), nil
	}
	// who sorts: the local engine and the distributed aggregation both pass the statement's selection
	factExtractors["c14_by_callers"] = func(l *Loader) (any, error) {
		var out []string
		out = append(out, CallArgs(l, "pkg/goDB/engine", "QueryRunner.RunStatement", "results.By")...)
		out = append(out, CallArgs(l, "cmd/global-query/pkg/distributed", "finalizeResult", "results.By")...)
		for _, fn := range []string{"aggregateResults", "aggregateSingleResult"} {
			for _, a := range CallArgs(l, "cmd/global-query/pkg/distributed", fn, "finalizeResult") {
				out = append(out, fn+": "+a)
			}
		}
		return out, nil
	}
}
