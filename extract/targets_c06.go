package main

import (
	"go/ast"
)

// C06 — facts pinning the code shapes the reader model (lean/GoProbeModel/Model/C06.lean) is
// written from: every `if` condition and every index / slice expression of the functions on the
// read path, and the full (whitespace-normalised) bodies of the small library routines the model
// replays (in-memory file, bitpack, null encoder, encoder selection).

// c06IfConds lists the source text of every `if` condition in fn (function literals included), in source order
func c06IfConds(l *Loader, pkg, fn string) []string {
	_, fd := mustFunc(l, pkg, fn)
	var out []string
	ast.Inspect(fd.Body, func(n ast.Node) bool {
		if s, ok := n.(*ast.IfStmt); ok {
			out = append(out, srcText(l, s.Cond))
		}
		return true
	})
	return out
}

// c06IndexExprs lists every index and slice expression of fn, in source order
func c06IndexExprs(l *Loader, pkg, fn string) []string {
	_, fd := mustFunc(l, pkg, fn)
	var out []string
	ast.Inspect(fd.Body, func(n ast.Node) bool {
		switch x := n.(type) {
		case *ast.IndexExpr:
			out = append(out, srcText(l, x))
		case *ast.SliceExpr:
			out = append(out, srcText(l, x))
		}
		return true
	})
	return out
}

// c06Body returns the whole body of fn as normalised source text
func c06Body(l *Loader, pkg, fn string) string {
	_, fd := mustFunc(l, pkg, fn)
	return srcText(l, fd.Body)
}

func init() {
	const (
		godb    = "pkg/goDB"
		gp      = "pkg/goDB/storage/gpfile"
		conc    = "@github.com/fako1024/gotools/concurrency"
		bitpack = "@github.com/fako1024/gotools/bitpack"
	)
	conds := map[string][2]string{
		"c06_rbe_conds":           {godb, "DBWorkManager.readBlocksAndEvaluate"},
		"c06_cwj_conds":           {godb, "DBWorkManager.CreateWorkerJobs"},
		"c06_walk_conds":          {godb, "DBWorkManager.walkDB"},
		"c06_worker_conds":        {godb, "DBWorkManager.grabAndProcessWorkload"},
		"c06_gpfile_read_conds":   {gp, "GPFile.ReadBlockAtIndex"},
		"c06_gpdir_read_conds":    {gp, "GPDir.ReadBlockAtIndex"},
		"c06_relocate_conds":      {gp, "GPDir.relocateColumn"},
		"c06_unmarshal_conds":     {gp, "GPDir.Unmarshal"},
		"c06_unmarshalstr_conds":  {gp, "Metadata.UnmarshalString"},
		"c06_aggregate_conds":     {"pkg/goDB/engine", "QueryRunner.aggregate"},
		"c06_newquery_conds":      {godb, "NewQuery"},
		"c06_unpackinto_conds":    {bitpack, "UnpackInto"},
	}
	for name, pf := range conds {
		pf := pf
		factExtractors[name] = func(l *Loader) (any, error) { return c06IfConds(l, pf[0], pf[1]), nil }
	}
	index := map[string][2]string{
		"c06_rbe_index":         {godb, "DBWorkManager.readBlocksAndEvaluate"},
		"c06_gpfile_read_index": {gp, "GPFile.ReadBlockAtIndex"},
		"c06_unmarshal_index":   {gp, "GPDir.Unmarshal"},
		"c06_timerange_index":   {gp, "GPDir.TimeRange"},
	}
	for name, pf := range index {
		pf := pf
		factExtractors[name] = func(l *Loader) (any, error) { return c06IndexExprs(l, pf[0], pf[1]), nil }
	}
	bodies := map[string][2]string{
		"c06_memfile_seek_body":   {conc, "MemFile.Seek"},
		"c06_memfile_read_body":   {conc, "MemFile.Read"},
		"c06_newmemfile_body":     {conc, "NewMemFile"},
		"c06_mempool_get_body":    {conc, "MemPoolNoLimit.Get"},
		"c06_bitpack_len_body":    {bitpack, "Len"},
		"c06_bitpack_width_body":  {bitpack, "ByteWidth"},
		"c06_unpackall1_body":     {bitpack, "unpackAll1"},
		"c06_unpackall7_body":     {bitpack, "unpackAll7"},
		"c06_unpackall8_body":     {bitpack, "unpackAll8"},
		"c06_unpack8_body":        {bitpack, "unpack8"},
		"c06_b62_decode_body":     {bitpack, "DecodeUint64FromString"},
		"c06_null_decompress":     {"pkg/goDB/encoder/null", "Encoder.Decompress"},
		"c06_encoder_new_body":    {"pkg/goDB/encoder", "New"},
		"c06_gpfile_open_body":    {gp, "GPFile.open"},
		"c06_isdamaged_body":      {godb, "isDamagedMetadata"},
		"c06_isuninit_body":       {gp, "IsUninitialized"},
		"c06_setsuffix_body":      {gp, "GPDir.setMetadataFromSuffix"},
		"c06_numv4_body":          {gp, "GPDir.NumIPv4EntriesAtIndex"},
		"c06_iscounter_body":      {"pkg/types", "ColumnIndex.IsCounterCol"},
		"c06_rawiptoaddr_body":    {"pkg/types", "RawIPToAddr"},
		"c06_stats_add_body":      {"pkg/types/workload", "Stats.Add"},
	}
	for name, pf := range bodies {
		pf := pf
		factExtractors[name] = func(l *Loader) (any, error) { return c06Body(l, pf[0], pf[1]), nil }
	}
	// order of the reads, checks and the scan in readBlocksAndEvaluate; the two probes of CreateWorkerJobs
	factExtractors["c06_rbe_calls"] = func(l *Loader) (any, error) { return CallSeq(l, godb, "DBWorkManager.readBlocksAndEvaluate"), nil }
	factExtractors["c06_cwj_calls"] = func(l *Loader) (any, error) { return CallSeq(l, godb, "DBWorkManager.CreateWorkerJobs"), nil }
	factExtractors["c06_gpfile_read_calls"] = func(l *Loader) (any, error) { return CallSeq(l, gp, "GPFile.ReadBlockAtIndex"), nil }
}
