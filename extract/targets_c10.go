package main

import (
	"fmt"
	"go/ast"
	"go/constant"
	"go/token"
	"regexp"
	"strconv"
	"strings"
	"unicode"
)

// C10 — condition text: sanitise / tokenise / parse / canonical form.
// Regenerated into Lean (Gen/Sanitize.lean): the ordered table of user-grammar rewrites. The
// regular expressions and replacement templates of the table are interpreted by Model/C10.lean
// (a matcher for exactly the constructs that occur); a theorem of Props/C10.lean pins the parsed
// form, so a pattern outside that subset breaks the check. Facts: the code shapes the hand model
// of SanitizeUserInput / Tokenize / the parser / prepConditionArg relies on, the operator
// spellings documented in the help text, and the case-mapping table of the Go toolchain
// (unicode.CaseRanges, used by bytes.ToLower in SanitizeUserInput).

// constStrings resolves the elements of the first []string composite literal of fn to their
// constant values (identifiers and selectors of string constants included).
func constStrings(l *Loader, pkg, fn string) []string {
	p, fd := mustFunc(l, pkg, fn)
	var out []string
	done := false
	ast.Inspect(fd.Body, func(n ast.Node) bool {
		c, ok := n.(*ast.CompositeLit)
		if !ok || done {
			return !done
		}
		done = true
		for _, el := range c.Elts {
			tv, ok := p.Info.Types[el]
			if !ok || tv.Value == nil || tv.Value.Kind() != constant.String {
				out = append(out, "?"+srcText(l, el))
				continue
			}
			out = append(out, constant.StringVal(tv.Value))
		}
		return false
	})
	return out
}

// helpSpellings extracts the "Base … Other representations" tables of the condition help text:
// one entry "base:alt1,alt2,…" per operator line.
func helpSpellings(l *Loader) ([]string, error) {
	p, err := l.Load("cmd/goQuery/cmd")
	if err != nil {
		return nil, err
	}
	var text string
	for _, f := range p.Files {
		ast.Inspect(f, func(n ast.Node) bool {
			kv, ok := n.(*ast.KeyValueExpr)
			if !ok {
				return true
			}
			k, ok := kv.Key.(*ast.BasicLit)
			if !ok || k.Kind != token.STRING || k.Value != `"Condition"` {
				return true
			}
			if v, ok := kv.Value.(*ast.BasicLit); ok && v.Kind == token.STRING {
				if s, err := strconv.Unquote(v.Value); err == nil {
					text = s
				}
			}
			return false
		})
	}
	if text == "" {
		return nil, fmt.Errorf("help text for \"Condition\" not found")
	}
	line := regexp.MustCompile(`^\s+(\S+)\s{2,}\S.*?\s{2,}(\S.*)$`)
	var out []string
	inTable, rows := false, 0
	for _, ln := range strings.Split(text, "\n") {
		switch {
		case strings.Contains(ln, "Other representations"):
			inTable, rows = true, 0
		case !inTable:
		case strings.TrimSpace(ln) == "":
			if rows > 0 { // the blank line after the rows ends the table
				inTable = false
			}
		default:
			m := line.FindStringSubmatch(ln)
			if m == nil {
				inTable = false
				continue
			}
			rows++
			var alts []string
			for _, a := range strings.Split(m[2], ",") {
				alts = append(alts, strings.TrimSpace(a))
			}
			out = append(out, m[1]+":"+strings.Join(alts, ","))
		}
	}
	// the sentence about braces
	if strings.Contains(text, `The braces "[]" and "{}" can also be used.`) {
		out = append(out, "(:[,{", "):],}")
	}
	return out, nil
}

func init() {
	addTargets(Target{File: "Sanitize", Items: []Item{
		{Pkg: "pkg/goDB/conditions", Kind: "var", Name: "grammarConversions"},
		{Pkg: "pkg/goDB/conditions", Kind: "func", Name: "startsDelimiter"},
		{Pkg: "pkg/goDB/conditions", Kind: "func", Name: "endsDelimiter"},
	}})
	// SanitizeUserInput: lower-casing through regexAll, then the table in listed order
	factExtractors["c10_sanitize_shape"] = func(l *Loader) (any, error) {
		out := stmtTexts(l, "pkg/goDB/conditions", "SanitizeUserInput")
		out = append(out, "init: "+strings.Join(loopTexts(l, "pkg/goDB/conditions", "init"), " ## "))
		out = append(out, "regexAll: "+strings.Join(CallArgs(l, "pkg/goDB/conditions", "init", "regexp.MustCompile"), " ## "))
		return out, nil
	}
	// the tokenizer: delimiter sets, look-ahead, scanner driven loop dropping " " tokens
	factExtractors["c10_tokenizer_shape"] = func(l *Loader) (any, error) {
		var out []string
		for _, fn := range []string{"startsDelimiter", "endsDelimiter", "delimiterSplitFunc", "wordSplitFunc", "conditionalSplitFunc", "Tokenize"} {
			out = append(out, fn+": "+strings.Join(stmtTexts(l, "pkg/goDB/conditions", fn), " ;; "))
		}
		return out, nil
	}
	// the parser: attribute list (constants resolved), comparator order, grammar functions
	factExtractors["c10_parser_attributes"] = func(l *Loader) (any, error) {
		return constStrings(l, "pkg/goDB/conditions/node", "parser.attribute"), nil
	}
	factExtractors["c10_parser_comparators"] = func(l *Loader) (any, error) {
		return CallArgs(l, "pkg/goDB/conditions/node", "parser.comparator", "p.accept"), nil
	}
	factExtractors["c10_parser_shape"] = func(l *Loader) (any, error) {
		var out []string
		for _, fn := range []string{"parseConditional", "parser.advance", "parser.eof", "parser.accept", "parser.expect",
			"parser.conditional", "listToTree", "parser.disjunction", "parser.conjunction", "parser.negation",
			"parser.primitive", "parser.condition", "parser.value"} {
			out = append(out, fn+": "+strings.Join(stmtTexts(l, "pkg/goDB/conditions/node", fn), " ;; "))
		}
		return out, nil
	}
	// ParseAndInstrument tokenizes first and parses the tokens; prepConditionArg sanitizes, checks,
	// and stores the tokens joined by a blank
	factExtractors["c10_prepare_shape"] = func(l *Loader) (any, error) {
		out := stmtTexts(l, "pkg/query", "prepConditionArg")
		calls := CallSeq(l, "pkg/goDB/conditions/node", "ParseAndInstrument")
		if len(calls) > 2 {
			calls = calls[:2]
		}
		out = append(out, "ParseAndInstrument starts: "+strings.Join(calls, ", "))
		return out, nil
	}
	factExtractors["c10_help_spellings"] = func(l *Loader) (any, error) {
		return helpSpellings(l)
	}
	// Go toolchain table behind unicode.ToLower (bytes.ToLower): "lo,hi,deltaLower" per range,
	// deltaLower = "UL" for alternating Upper/Lower sequences. Not pinned by an expectation: it
	// belongs to the toolchain the harness is built with, the model reads it from Gen/Facts.lean.
	factExtractors["c10_unicode_case_ranges"] = func(l *Loader) (any, error) {
		var out []string
		for _, cr := range unicode.CaseRanges {
			d := strconv.Itoa(int(cr.Delta[unicode.LowerCase]))
			if cr.Delta[unicode.LowerCase] > unicode.MaxRune {
				d = "UL"
			}
			if d == "0" {
				continue
			}
			out = append(out, fmt.Sprintf("%d,%d,%s", cr.Lo, cr.Hi, d))
		}
		return out, nil
	}
}
