package main

// C29 — live queries. Nothing new is regenerated: the model (Model/C29.lean) computes with the
// definitions regenerated for C20 (Gen/FlowLog.lean, Gen/Classify.lean), C09 (Gen/CondNode.lean:
// key layout, comparator table, attribute names) and C08 (Gen/IPLimit.lean: direction predicates).
// Pinned as facts: the statement skeletons of the functions the hand model transcribes —
// Capture.flowMap, goDB.QueryFilter, Query.aggregateFlow, QueryRunner.runLiveQuery — and the call
// shapes the theorems rely on: GetFlowMaps locks, calls flowMap (never rotate), unlocks and applies
// the filter; FlowLog.Aggregate calls nothing that writes a flow (no Reset, no delete); the stored
// scan evaluates the condition on the comparison value and inserts under `key`; the engine merges
// every item into the interface's final map; the flag setters of goDB.NewQuery.
// (c20_aggregate, c20_rotate, c20_capture_rot of extract/expect/C20.json are checked again for C29.)

import (
	"go/ast"
	"strings"
)

func init() {
	factExtractors["c29_flowmap"] = func(l *Loader) (any, error) { return c20Stmts(l, "pkg/capture", "Capture.flowMap"), nil }
	factExtractors["c29_query_filter"] = func(l *Loader) (any, error) { return c20Stmts(l, "pkg/goDB", "QueryFilter"), nil }
	factExtractors["c29_aggregate_flow"] = func(l *Loader) (any, error) { return c20Stmts(l, "pkg/goDB", "Query.aggregateFlow"), nil }
	factExtractors["c29_run_live_query"] = func(l *Loader) (any, error) {
		return c20Stmts(l, "pkg/goDB/engine", "QueryRunner.runLiveQuery"), nil
	}
	// what GetFlowMaps does with a capture, in order (logging and error handling left out)
	factExtractors["c29_getflowmaps_calls"] = func(l *Loader) (any, error) {
		var out []string
		for _, c := range CallSeq(l, "pkg/capture", "Manager.GetFlowMaps") {
			switch {
			case strings.HasPrefix(c, "mc."), c == "filterFn", strings.HasPrefix(c, "cm.captures."):
				out = append(out, c)
			}
		}
		return out, nil
	}
	// every call made by FlowLog.Aggregate: nothing that writes a flow or the flow maps
	factExtractors["c29_aggregate_calls"] = func(l *Loader) (any, error) { return CallSeq(l, "pkg/capture", "FlowLog.Aggregate"), nil }
	// … and no assignment to a flow field, no delete, no map store
	factExtractors["c29_aggregate_writes"] = func(l *Loader) (any, error) {
		_, fd := mustFunc(l, "pkg/capture", "FlowLog.Aggregate")
		out := []string{}
		ast.Inspect(fd.Body, func(n ast.Node) bool {
			switch x := n.(type) {
			case *ast.AssignStmt:
				for _, lhs := range x.Lhs {
					t := srcText(l, lhs)
					if t != "agg" && t != "keyBufV4" && t != "keyBufV6" && t != "k" && t != "v" {
						out = append(out, "assign:"+t)
					}
				}
			case *ast.IncDecStmt:
				out = append(out, "incdec:"+srcText(l, x.X))
			case *ast.CallExpr:
				if t := srcText(l, x.Fun); t == "delete" || strings.HasSuffix(t, ".Reset") || strings.HasSuffix(t, ".UpdateFlow") {
					out = append(out, "call:"+t)
				}
			}
			return true
		})
		return out, nil
	}
	factExtractors["c29_scan_evaluate_args"] = func(l *Loader) (any, error) {
		return CallArgs(l, "pkg/goDB", "DBWorkManager.readBlocksAndEvaluate", "Conditional.Evaluate"), nil
	}
	factExtractors["c29_scan_insert_args"] = func(l *Loader) (any, error) {
		return CallArgs(l, "pkg/goDB", "DBWorkManager.readBlocksAndEvaluate", "resultMap.SetOrUpdate"), nil
	}
	// the Put… calls of the stored scan, in order: key first, comparison value second
	factExtractors["c29_scan_puts"] = func(l *Loader) (any, error) {
		var out []string
		for _, c := range CallSeq(l, "pkg/goDB", "DBWorkManager.readBlocksAndEvaluate") {
			if strings.HasPrefix(c, "key.Put") || strings.HasPrefix(c, "comparisonValue.Put") {
				out = append(out, c)
			}
		}
		return out, nil
	}
	factExtractors["c29_engine_merge_args"] = func(l *Loader) (any, error) {
		return CallArgs(l, "pkg/goDB/engine", "QueryRunner.aggregate", "finalMap.Merge"), nil
	}
	factExtractors["c29_cond_column_index"] = func(l *Loader) (any, error) {
		return c20Stmts(l, "pkg/goDB", "conditionalAttributeNameToColumnIndex"), nil
	}
}
