package main

func init() {
	addTargets(Target{File: "MetaLayout", Items: []Item{
		{Pkg: "pkg/goDB/storage/gpfile", Kind: "const", Name: "metadataHeaderSize"},
		{Pkg: "pkg/goDB/storage/gpfile", Kind: "const", Name: "metadataBlockOffsetsPos"},
		{Pkg: "pkg/goDB/storage/gpfile", Kind: "const", Name: "metadataCurrentOffsetSize"},
		{Pkg: "pkg/goDB/storage/gpfile", Kind: "const", Name: "metadataBlockDescriptorLen"},
		{Pkg: "pkg/goDB/storage/gpfile", Kind: "const", Name: "metadataInitialTSSize"},
		{Pkg: "pkg/goDB/storage/gpfile", Kind: "const", Name: "metadataTrafficEntryLen"},
		{Pkg: "pkg/goDB/storage/gpfile", Kind: "const", Name: "minMetadataFileSize"},
		{Pkg: "pkg/goDB/storage/gpfile", Kind: "const", Name: "metadataPerBlockSize"},
		{Pkg: "pkg/goDB/storage/gpfile", Kind: "const", Name: "maxUint32"},
		{Pkg: "pkg/goDB/storage/gpfile", Kind: "const", Name: "headerVersion"},
		{Pkg: "pkg/goDB/storage/gpfile", Kind: "const", Name: "maxDirnameLength"},
		{Pkg: "pkg/goDB/storage/gpfile", Kind: "const", Name: "delimUnderscore"},
		{Pkg: "pkg/goDB/storage/gpfile", Kind: "const", Name: "delimDash"},
		{Pkg: "pkg/types", Kind: "const", Name: "ColIdxCount"},
		{Pkg: "pkg/goDB/encoder/encoders", Kind: "const", Name: "EncoderTypeNull"},
	}})
	// base-62 tables of the directory-suffix codec (dependency, read from the module cache at the
	// version pinned by /repo/go.mod)
	addTargets(Target{File: "B62", Items: []Item{
		{Pkg: "@github.com/fako1024/gotools/bitpack", Kind: "const", Name: "stringEncUin64DictLen"},
		{Pkg: "@github.com/fako1024/gotools/bitpack", Kind: "table", Name: "encodeLookup"},
		{Pkg: "@github.com/fako1024/gotools/bitpack", Kind: "table", Name: "decodeLookup"},
	}})

	// shapes the hand model (Model/C03.lean) relies on
	const gp = "pkg/goDB/storage/gpfile"
	// WriteBlocks validates first, then touches the columns, then updates the bookkeeping
	factExtractors["c03_writeblocks_calls"] = func(l *Loader) (any, error) { return CallSeq(l, gp, "GPDir.WriteBlocks"), nil }
	// the accesses of Unmarshal / Marshal: which bytes each field is read from / written to
	factExtractors["c03_unmarshal_u64"] = func(l *Loader) (any, error) { return CallArgs(l, gp, "GPDir.Unmarshal", "BigEndian.Uint64"), nil }
	factExtractors["c03_unmarshal_u32"] = func(l *Loader) (any, error) { return CallArgs(l, gp, "GPDir.Unmarshal", "BigEndian.Uint32"), nil }
	factExtractors["c03_marshal_u64"] = func(l *Loader) (any, error) { return CallArgs(l, gp, "GPDir.Marshal", "BigEndian.PutUint64"), nil }
	factExtractors["c03_marshal_u32"] = func(l *Loader) (any, error) { return CallArgs(l, gp, "GPDir.Marshal", "BigEndian.PutUint32"), nil }
	// DBWriter.Write: Open, WriteBlocks, Close (and nothing else on the directory)
	factExtractors["c03_dbwriter_write_calls"] = func(l *Loader) (any, error) { return CallSeq(l, "pkg/goDB", "DBWriter.Write"), nil }
	// the suffix codec: digits least significant first, decoded from the last character
	factExtractors["c03_b62_encode_calls"] = func(l *Loader) (any, error) {
		return StmtKinds(l, "@github.com/fako1024/gotools/bitpack", "encodeUint64ToByteBuf"), nil
	}
	factExtractors["c03_b62_decode_calls"] = func(l *Loader) (any, error) {
		return StmtKinds(l, "@github.com/fako1024/gotools/bitpack", "DecodeUint64FromString"), nil
	}
}
