package main

import "go/ast"

// C27 — capture reconfiguration. The default ring buffer sizes are regenerated into
// Gen/CaptureCfg.lean (the model's default parameters are built from them). The hand model
// Model/C27.lean transcribes Manager.Update / updateSelected / update / Close / performWriteout /
// rotate / filterMatchingIfaces / autodetectIfaces / logErrors and config.go's Matcher / FindMatch /
// Equals / validate / IsRegexpInterfaceMatcher: their statement lists are pinned as facts, and the
// call sequence of Manager.update pins that the final write-out (performWriteout) precedes the
// closing of the captures (mc.close) and the start of the new ones (newCapture / run).

func c27Stmts(l *Loader, pkg, fn string) []string {
	_, fd := mustFunc(l, pkg, fn)
	var out []string
	var walk func(list []ast.Stmt, depth string)
	walkFuncLits := func(n ast.Node, depth string) {
		ast.Inspect(n, func(m ast.Node) bool {
			if fl, ok := m.(*ast.FuncLit); ok {
				out = append(out, depth+"func literal:")
				walk(fl.Body.List, depth+"  ")
				return false
			}
			return true
		})
	}
	walk = func(list []ast.Stmt, depth string) {
		for _, s := range list {
			switch x := s.(type) {
			case *ast.IfStmt:
				hdr := "if "
				if x.Init != nil {
					hdr += srcText(l, x.Init) + "; "
				}
				out = append(out, depth+hdr+srcText(l, x.Cond))
				walk(x.Body.List, depth+"  ")
				if x.Else != nil {
					out = append(out, depth+"else")
					if b, ok := x.Else.(*ast.BlockStmt); ok {
						walk(b.List, depth+"  ")
					} else {
						walk([]ast.Stmt{x.Else}, depth+"  ")
					}
				}
			case *ast.ForStmt:
				out = append(out, depth+"for "+srcText(l, x.Cond))
				walk(x.Body.List, depth+"  ")
			case *ast.RangeStmt:
				hdr := "for "
				if x.Key != nil {
					hdr += srcText(l, x.Key)
				}
				if x.Value != nil {
					hdr += ", " + srcText(l, x.Value)
				}
				out = append(out, depth+hdr+" := range "+srcText(l, x.X))
				walk(x.Body.List, depth+"  ")
			case *ast.BlockStmt:
				walk(x.List, depth+"  ")
			default:
				// statements containing function literals (rg.Run(func() {…}), go func() {…}()) are
				// listed by their literals' bodies, everything else verbatim
				hasLit := false
				ast.Inspect(s, func(m ast.Node) bool {
					if _, ok := m.(*ast.FuncLit); ok {
						hasLit = true
					}
					return !hasLit
				})
				if hasLit {
					walkFuncLits(s, depth)
				} else {
					out = append(out, depth+srcText(l, s))
				}
			}
		}
	}
	walk(fd.Body.List, "")
	return out
}

func init() {
	addTargets(Target{File: "CaptureCfg", Items: []Item{
		{Pkg: "cmd/goProbe/config", Kind: "const", Name: "DefaultRingBufferBlockSize"},
		{Pkg: "cmd/goProbe/config", Kind: "const", Name: "DefaultRingBufferNumBlocks"},
	}})
	const cm, cf = "pkg/capture", "cmd/goProbe/config"
	factExtractors["c27_update_calls"] = func(l *Loader) (any, error) { return CallSeq(l, cm, "Manager.update"), nil }
	factExtractors["c27_performWriteout_calls"] = func(l *Loader) (any, error) { return CallSeq(l, cm, "Manager.performWriteout"), nil }
	for name, pf := range map[string][2]string{
		"Update":               {cm, "Manager.Update"},
		"updateSelected":       {cm, "Manager.updateSelected"},
		"update":               {cm, "Manager.update"},
		"withoutDisabled":      {cm, "withoutDisabled"},
		"filterMatchingIfaces": {cm, "Manager.filterMatchingIfaces"},
		"autodetectIfaces":     {cm, "Manager.autodetectIfaces"},
		"Close":                {cm, "Manager.Close"},
		"performWriteout":      {cm, "Manager.performWriteout"},
		"rotate":               {cm, "Manager.rotate"},
		"logErrors":            {cm, "Manager.logErrors"},
		"captureRotate":        {cm, "Capture.rotate"},
		"captureClose":         {cm, "Capture.close"},
		"FindMatch":            {cf, "IfaceMatcher.FindMatch"},
		"Matcher":              {cf, "Ifaces.Matcher"},
		"ExcludeMatcher":       {cf, "AutoDetectionConfig.ExcludeMatcher"},
		"Equals":               {cf, "CaptureConfig.Equals"},
		"ringEquals":           {cf, "RingBufferConfig.Equals"},
		"cfgValidate":          {cf, "CaptureConfig.validate"},
		"ringValidate":         {cf, "RingBufferConfig.validate"},
		"ifacesValidate":       {cf, "Ifaces.validate"},
		"autoValidate":         {cf, "AutoDetectionConfig.validate"},
		"IsRegexpMatcher":      {cf, "IsRegexpInterfaceMatcher"},
		"DefaultCaptureConfig": {cf, "DefaultCaptureConfig"},
	} {
		pf := pf
		factExtractors["c27_stmts_"+name] = func(l *Loader) (any, error) { return c27Stmts(l, pf[0], pf[1]), nil }
	}
}
