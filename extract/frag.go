package main

// Fragment translation (Item.Kind == "frag"): the tail of a Go function — from the first top-level
// statement whose source text starts with Item.From to the end of the body — is translated as a
// Lean function of the fragment's free variables (locals/parameters declared before the fragment,
// in order of first use). Expressions listed in Item.Opaque (by source text) become parameters as
// well, statements listed in Item.Skip are dropped (they may only define variables that are used
// inside opaque expressions: any other use of such a variable is reported as an unresolved free
// variable declared inside the fragment). `error` results are dropped from the result tuple (the
// fragment must return `nil` there). A fragment may also be bounded (Item.Until, Item.Yield): a
// stretch in the middle of a function whose value is what the yielded locals hold at its end (e.g.
// the runner-count computation of APIClientQuerier.Query). This gives theorems over the arithmetic core of functions
// whose head does I/O (e.g. goDB.isDayComplete: reader set-up, then a pure classification).

import (
	"fmt"
	"go/ast"
	"go/token"
	"go/types"
	"strings"
)

type fragCtx struct {
	start      token.Pos
	opaque     map[string]string
	skip       map[string]bool
	skipped    map[string]bool
	usedOpaque map[string]bool
	params     []string
	seen       map[string]bool
	drop       map[int]bool
	skipDefs   map[types.Object]bool
	yield      []string // Lean names of the locals a bounded fragment yields (Item.Yield)
}

func (f *fragCtx) addParam(name, ty string) {
	if f.seen[name] {
		return
	}
	f.seen[name] = true
	f.params = append(f.params, fmt.Sprintf("(%s : %s)", name, ty))
}

func (f *fragCtx) opaqueParam(t *Tr, e ast.Expr) (string, bool) {
	txt := srcText(t.l, e)
	n, ok := f.opaque[txt]
	if !ok {
		return "", false
	}
	f.usedOpaque[txt] = true
	f.addParam(n, t.leanType(t.typeOf(e), e.Pos()))
	return n, true
}

func (f *fragCtx) freeVar(t *Tr, o *types.Var) {
	if f.skipDefs[o] {
		t.fail(o.Pos(), "variable %s is defined by a skipped statement but used outside an opaque expression", o.Name())
	}
	if o.Pos() < f.start {
		f.addParam(t.nameOf(o), t.leanType(o.Type(), o.Pos()))
	}
}

func (f *fragCtx) dropResult(i int) bool { return f.drop[i] }

func (t *Tr) Frag(p *Pkg, fd *ast.FuncDecl, it Item) string {
	fobj := p.Info.Defs[fd.Name].(*types.Func)
	sig := fobj.Type().(*types.Signature)
	leanName := it.As
	if leanName == "" {
		leanName = fd.Name.Name + "_tail"
	}
	startIdx := -1
	for i, s := range fd.Body.List {
		if strings.HasPrefix(srcText(t.l, s), it.From) {
			startIdx = i
			break
		}
	}
	if startIdx < 0 {
		t.fail(fd.Pos(), "fragment start %q not found in %s", it.From, fd.Name.Name)
	}
	endIdx := len(fd.Body.List)
	if it.Until != "" {
		endIdx = -1
		for i := startIdx + 1; i < len(fd.Body.List); i++ {
			if strings.HasPrefix(srcText(t.l, fd.Body.List[i]), it.Until) {
				endIdx = i
				break
			}
		}
		if endIdx < 0 {
			t.fail(fd.Pos(), "fragment end %q not found in %s", it.Until, fd.Name.Name)
		}
		if len(it.Yield) == 0 {
			t.fail(fd.Pos(), "bounded fragment of %s yields nothing", fd.Name.Name)
		}
	} else if len(it.Yield) > 0 {
		t.fail(fd.Pos(), "Yield needs Until (fragment of %s)", fd.Name.Name)
	}
	fragStmts := fd.Body.List[startIdx:endIdx]
	saved := t.save()
	savedOpt := t.optRet
	t.curPkg, t.curFn = p, sig
	t.names = map[types.Object]string{}
	t.used = map[string]types.Object{}
	t.results = nil
	t.optRet = false
	fc := &fragCtx{start: fd.Body.List[startIdx].Pos(), opaque: map[string]string{}, skip: map[string]bool{}, skipped: map[string]bool{},
		usedOpaque: map[string]bool{}, seen: map[string]bool{}, drop: map[int]bool{}, skipDefs: map[types.Object]bool{}}
	for _, o := range it.Opaque {
		fc.opaque[o[0]] = o[1]
	}
	for _, s := range it.Skip {
		fc.skip[s] = true
	}
	// objects defined by skipped statements
	ast.Inspect(fd.Body, func(n ast.Node) bool {
		if as, ok := n.(*ast.AssignStmt); ok && fc.skip[srcText(t.l, as)] {
			for _, l := range as.Lhs {
				if id, ok := l.(*ast.Ident); ok {
					if o := p.Info.Defs[id]; o != nil {
						fc.skipDefs[o] = true
					}
				}
			}
		}
		return true
	})
	var rts []string
	for i := 0; i < sig.Results().Len() && len(it.Yield) == 0; i++ {
		r := sig.Results().At(i)
		if r.Name() != "" && r.Name() != "_" {
			t.fail(fd.Pos(), "fragment of a function with named results is not supported")
		}
		if r.Type().String() == "error" {
			fc.drop[i] = true
			continue
		}
		rts = append(rts, t.leanType(r.Type(), fd.Pos()))
	}
	if len(it.Yield) > 0 {
		// bounded fragment: the result is the tuple of the yielded locals (declared in the function
		// before the end of the fragment); a return inside it would leave the function instead
		rts = nil
		fc.drop = map[int]bool{}
		for _, name := range it.Yield {
			var obj types.Object
			ast.Inspect(fd.Body, func(n ast.Node) bool {
				if id, ok := n.(*ast.Ident); ok && obj == nil && id.Name == name && id.Pos() < fd.Body.List[endIdx].Pos() {
					if o := p.Info.Defs[id]; o != nil {
						obj = o
					}
				}
				return obj == nil
			})
			if obj == nil {
				t.fail(fd.Pos(), "yielded variable %s is not declared before the end of the fragment", name)
				continue
			}
			rts = append(rts, t.leanType(obj.Type(), obj.Pos()))
			fc.yield = append(fc.yield, t.nameOf(obj))
		}
		for _, s := range fragStmts {
			ast.Inspect(s, func(n ast.Node) bool {
				if _, ok := n.(*ast.FuncLit); ok {
					return false
				}
				if rs, ok := n.(*ast.ReturnStmt); ok {
					t.fail(rs.Pos(), "return statement inside a bounded fragment")
				}
				return true
			})
		}
	}
	// the dropped error results must be the literal nil in every return of the fragment
	for _, s := range fragStmts {
		ast.Inspect(s, func(n ast.Node) bool {
			if _, ok := n.(*ast.FuncLit); ok {
				return false
			}
			if rs, ok := n.(*ast.ReturnStmt); ok {
				for i, r := range rs.Results {
					if fc.drop[i] {
						if id, ok := r.(*ast.Ident); !ok || id.Name != "nil" {
							t.fail(rs.Pos(), "fragment returns a non-nil error")
						}
					}
				}
			}
			return true
		})
	}
	rt := "Unit"
	if len(rts) == 1 {
		rt = rts[0]
	} else if len(rts) > 1 {
		rt = strings.Join(rts, " × ")
	}
	t.frag = fc
	body := t.stmts(fragStmts, 1)
	t.frag = nil
	for s := range fc.skip {
		if !fc.skipped[s] {
			t.fail(fd.Pos(), "statement to skip not found in the fragment: %s", s)
		}
	}
	for o := range fc.opaque {
		if !fc.usedOpaque[o] {
			t.fail(fd.Pos(), "opaque expression not found in the fragment: %s", o)
		}
	}
	pos := t.l.Fset.Position(fd.Body.List[startIdx].Pos())
	rel := strings.TrimPrefix(pos.Filename, t.l.Root+"/")
	what := "tail"
	from := it.From
	if it.Until != "" {
		what = "stretch"
		from = it.From + "` up to (excluding) `" + it.Until + "`, yielding `" + strings.Join(it.Yield, ", ")
	}
	item := fmt.Sprintf("/-- Go: %s of func %s from `%s` (%s:%d); parameters = free variables in order of first use,\n    opaque expressions: %s -/\ndef %s %s : %s :=\n%s\n",
		what, strings.TrimPrefix(funcKey(fobj), repoModule+"/"), from, rel, pos.Line, fmtOpaque(it.Opaque), leanIdent(leanName), strings.Join(fc.params, " "), rt, body)
	t.restore(saved)
	t.optRet = savedOpt
	t.out = append(t.out, item)
	return leanName
}

func fmtOpaque(o [][2]string) string {
	var xs []string
	for _, p := range o {
		xs = append(xs, p[1]+" := "+p[0])
	}
	return strings.Join(xs, "; ")
}
