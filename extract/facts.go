package main

// Generic helpers for control-flow / shape facts (tie T, "facts" kind). A fact is a small
// JSON-able value recomputed from the current source on every run and compared by bin/check
// with the expectation recorded in extract/expect/<Cxx>.json; []string / bool / int / string
// facts are also emitted as Lean defs in Gen/Facts.lean.

import (
	"bytes"
	"fmt"
	"go/ast"
	"go/printer"
	"go/token"
	"reflect"
	"strings"
)

func srcText(l *Loader, n ast.Node) string {
	var b bytes.Buffer
	_ = printer.Fprint(&b, l.Fset, n)
	return strings.Join(strings.Fields(b.String()), " ")
}

func mustFunc(l *Loader, pkg, fn string) (*Pkg, *ast.FuncDecl) {
	p, err := l.Load(pkg)
	if err != nil {
		panic(err)
	}
	fd := p.FindFunc(fn)
	if fd == nil || fd.Body == nil {
		panic(fmt.Sprintf("function %s not found in %s", fn, pkg))
	}
	return p, fd
}

// CallSeq lists, in source order, the callees of every call in fn's body. Calls under `defer`
// and `go` are prefixed "defer:" / "go:"; calls inside function literals are prefixed "lit:".
func CallSeq(l *Loader, pkg, fn string) []string {
	_, fd := mustFunc(l, pkg, fn)
	var out []string
	var walk func(n ast.Node, prefix string)
	walk = func(n ast.Node, prefix string) {
		ast.Inspect(n, func(m ast.Node) bool {
			switch x := m.(type) {
			case *ast.DeferStmt:
				out = append(out, prefix+"defer:"+srcText(l, x.Call.Fun))
				for _, a := range x.Call.Args {
					walk(a, prefix)
				}
				if fl, ok := x.Call.Fun.(*ast.FuncLit); ok {
					walk(fl.Body, prefix+"lit:")
				}
				return false
			case *ast.GoStmt:
				out = append(out, prefix+"go:"+srcText(l, x.Call.Fun))
				if fl, ok := x.Call.Fun.(*ast.FuncLit); ok {
					walk(fl.Body, prefix+"lit:")
				}
				return false
			case *ast.FuncLit:
				walk(x.Body, prefix+"lit:")
				return false
			case *ast.CallExpr:
				if _, isLit := x.Fun.(*ast.FuncLit); !isLit {
					out = append(out, prefix+srcText(l, x.Fun))
				}
			}
			return true
		})
	}
	walk(fd.Body, "")
	return out
}

// CallArgs returns, for every call in fn whose callee text ends with calleeSuffix, the source
// text of its arguments joined by " | ".
func CallArgs(l *Loader, pkg, fn, calleeSuffix string) []string {
	_, fd := mustFunc(l, pkg, fn)
	var out []string
	ast.Inspect(fd.Body, func(m ast.Node) bool {
		if c, ok := m.(*ast.CallExpr); ok && strings.HasSuffix(srcText(l, c.Fun), calleeSuffix) {
			var as []string
			for _, a := range c.Args {
				as = append(as, srcText(l, a))
			}
			out = append(out, strings.Join(as, " | "))
		}
		return true
	})
	return out
}

// StructTags lists "Field json-tag" for every field of a struct type.
func StructTags(l *Loader, pkg, typeName string) []string {
	p, err := l.Load(pkg)
	if err != nil {
		panic(err)
	}
	var out []string
	for _, f := range p.Files {
		ast.Inspect(f, func(n ast.Node) bool {
			ts, ok := n.(*ast.TypeSpec)
			if !ok || ts.Name.Name != typeName {
				return true
			}
			st, ok := ts.Type.(*ast.StructType)
			if !ok {
				return false
			}
			for _, fld := range st.Fields.List {
				tag := ""
				if fld.Tag != nil {
					tag = reflect.StructTag(strings.Trim(fld.Tag.Value, "`")).Get("json")
				}
				for _, nm := range fld.Names {
					out = append(out, nm.Name+" "+tag)
				}
				if len(fld.Names) == 0 {
					out = append(out, "embedded:"+srcText(l, fld.Type)+" "+tag)
				}
			}
			return false
		})
	}
	if out == nil {
		panic("struct " + typeName + " not found in " + pkg)
	}
	return out
}

// StmtKinds lists the top-level statements of fn's body as short source texts (first 80 chars).
func StmtKinds(l *Loader, pkg, fn string) []string {
	_, fd := mustFunc(l, pkg, fn)
	var out []string
	for _, s := range fd.Body.List {
		t := srcText(l, s)
		if len(t) > 80 {
			t = t[:80]
		}
		out = append(out, t)
	}
	return out
}

var _ = token.NoPos
