package main

import "go/ast"

// C09 — conditions follow Boolean logic. Regenerated into Lean (Gen/CondNode.lean): the comparator
// table of the negation normal form (transformComparator), its depth limit, the attribute names
// and the key layout constants. Facts: the shapes of desugaring, negation normal form, Evaluate,
// the key views and the comparison closures that the hand model (Model/C09.lean) transcribes.

// keyWrites lists the assignments (and inc/dec) in fn whose target is an index or slice
// expression: the comparison closures must not write to the key they are given.
func keyWrites(l *Loader, pkg, fn string) []string {
	_, fd := mustFunc(l, pkg, fn)
	out := []string{}
	ast.Inspect(fd.Body, func(n ast.Node) bool {
		switch x := n.(type) {
		case *ast.AssignStmt:
			for _, lhs := range x.Lhs {
				switch lhs.(type) {
				case *ast.IndexExpr, *ast.SliceExpr, *ast.StarExpr:
					out = append(out, srcText(l, x))
				}
			}
		case *ast.IncDecStmt:
			if _, ok := x.X.(*ast.IndexExpr); ok {
				out = append(out, srcText(l, x))
			}
		case *ast.CallExpr:
			if id, ok := x.Fun.(*ast.Ident); ok && id.Name == "copy" {
				out = append(out, srcText(l, x))
			}
		}
		return true
	})
	return out
}

func init() {
	const nodePkg = "pkg/goDB/conditions/node"
	addTargets(Target{File: "CondNode", Items: []Item{
		{Pkg: nodePkg, Kind: "func", Name: "transformComparator"},
		{Pkg: nodePkg, Kind: "const", Name: "maxNegationNormalFormDepth"},
		{Pkg: "pkg/types", Kind: "const", Name: "SIPName"},
		{Pkg: "pkg/types", Kind: "const", Name: "DIPName"},
		{Pkg: "pkg/types", Kind: "const", Name: "DportName"},
		{Pkg: "pkg/types", Kind: "const", Name: "ProtoName"},
		{Pkg: "pkg/types", Kind: "const", Name: "DportSizeof"},
		{Pkg: "pkg/types", Kind: "const", Name: "IPv4Width"},
		{Pkg: "pkg/types", Kind: "const", Name: "IPv6Width"},
		{Pkg: "pkg/types", Kind: "const", Name: "DPortWidth"},
		{Pkg: "pkg/types", Kind: "const", Name: "sipPos"},
		{Pkg: "pkg/types", Kind: "const", Name: "dipPosIPv4"},
		{Pkg: "pkg/types", Kind: "const", Name: "dipPosIPv6"},
		{Pkg: "pkg/types", Kind: "const", Name: "dportPosIPv4"},
		{Pkg: "pkg/types", Kind: "const", Name: "dportPosIPv6"},
		{Pkg: "pkg/types", Kind: "const", Name: "protoPosIPv4"},
		{Pkg: "pkg/types", Kind: "const", Name: "protoPosIPv6"},
		{Pkg: "pkg/types", Kind: "const", Name: "KeyWidthIPv4"},
		{Pkg: "pkg/types", Kind: "const", Name: "KeyWidthIPv6"},
	}})
	// ParseAndInstrument: tokenize, parse, split off the direction filter, then desugar -> resolve ->
	// negationNormalForm -> instrument, in this order
	factExtractors["c09_pipeline"] = func(l *Loader) (any, error) {
		var out []string
		for _, c := range CallSeq(l, nodePkg, "ParseAndInstrument") {
			switch c {
			case "conditions.Tokenize", "parseConditional", "splitOffDirectionFilter", "desugar", "resolve", "negationNormalForm", "instrument":
				out = append(out, c)
			}
		}
		return out, nil
	}
	factExtractors["c09_desugar"] = func(l *Loader) (any, error) {
		return append(stmtTexts(l, nodePkg, "desugar"), stmtTexts(l, nodePkg, "desugarConditionNode")...), nil
	}
	factExtractors["c09_nnf"] = func(l *Loader) (any, error) {
		return stmtTexts(l, nodePkg, "negationNormalForm"), nil
	}
	factExtractors["c09_transform"] = func(l *Loader) (any, error) {
		var out []string
		for _, fn := range []string{"conditionNode.transform", "notNode.transform", "andNode.transform", "orNode.transform"} {
			out = append(out, stmtTexts(l, nodePkg, fn)...)
		}
		return out, nil
	}
	factExtractors["c09_evaluate"] = func(l *Loader) (any, error) {
		var out []string
		for _, fn := range []string{"conditionNode.Evaluate", "notNode.Evaluate", "andNode.Evaluate", "orNode.Evaluate"} {
			out = append(out, stmtTexts(l, nodePkg, fn)...)
		}
		return out, nil
	}
	factExtractors["c09_key_views"] = func(l *Loader) (any, error) {
		var out []string
		for _, fn := range []string{"Key.IsIPv4", "Key.GetSIP", "Key.GetDIP", "Key.GetDport", "Key.GetProto"} {
			out = append(out, stmtTexts(l, "pkg/types", fn)...)
		}
		return out, nil
	}
	factExtractors["c09_instrument"] = func(l *Loader) (any, error) {
		return stmtTexts(l, nodePkg, "instrument"), nil
	}
	// every return of generateCompareValue: the closures' bodies, `return nil`, the comparator errors
	factExtractors["c09_compare_returns"] = func(l *Loader) (any, error) {
		return returnTexts(l, nodePkg, "generateCompareValue"), nil
	}
	factExtractors["c09_compare_calls"] = func(l *Loader) (any, error) {
		return CallSeq(l, nodePkg, "generateCompareValue")[:1], nil
	}
	factExtractors["c09_in_network"] = func(l *Loader) (any, error) {
		return stmtTexts(l, nodePkg, "inNetwork"), nil
	}
	factExtractors["c09_condition_bytes"] = func(l *Loader) (any, error) {
		return stmtTexts(l, nodePkg, "conditionBytesAndNetmask"), nil
	}
	factExtractors["c09_ip_string_to_bytes"] = func(l *Loader) (any, error) {
		return stmtTexts(l, "pkg/types", "IPStringToBytes"), nil
	}
	// nothing in the comparison closures writes through the key
	factExtractors["c09_key_writes"] = func(l *Loader) (any, error) {
		return append(keyWrites(l, nodePkg, "generateCompareValue"), keyWrites(l, nodePkg, "inNetwork")...), nil
	}
}
