package main

import (
	"go/ast"
	"strings"
)

// C08 — query results equal a direct aggregation. Regenerated into Lean: the IP-version lattice
// (`IPVersion.Merge`, `IsLimited`) and the pure family-limit combinators (`LimitAnd`, `LimitOr`)
// over which `pruning_sound` is proved, and the direction predicates on counters. Facts: the
// shapes of the per-node limit computation, of `NewQuery`, of the scan loop, of the negation
// normal form and of the row materialisation that Model/C08.lean transcribes by hand.

// c08Calls lists the call expressions of fn (source order) whose text starts with one of the prefixes
func c08Calls(l *Loader, pkg, fn string, prefixes ...string) []string {
	_, fd := mustFunc(l, pkg, fn)
	var out []string
	ast.Inspect(fd.Body, func(n ast.Node) bool {
		if ce, ok := n.(*ast.CallExpr); ok {
			t := srcText(l, ce)
			for _, p := range prefixes {
				if strings.HasPrefix(t, p) {
					out = append(out, t)
					break
				}
			}
		}
		return true
	})
	return out
}

func init() {
	addTargets(Target{File: "IPLimit", Items: []Item{
		{Pkg: "pkg/types", Kind: "const", Name: "IPVersionNone"},
		{Pkg: "pkg/types", Kind: "const", Name: "IPVersionBoth"},
		{Pkg: "pkg/types", Kind: "const", Name: "IPVersionV4"},
		{Pkg: "pkg/types", Kind: "const", Name: "IPVersionV6"},
		{Pkg: "pkg/types", Kind: "func", Name: "IPVersion.Merge"},
		{Pkg: "pkg/types", Kind: "func", Name: "IPVersion.IsLimited"},
		{Pkg: "pkg/types", Kind: "func", Name: "IPVersion.LimitAnd"},
		{Pkg: "pkg/types", Kind: "func", Name: "IPVersion.LimitOr"},
		{Pkg: "pkg/types", Kind: "func", Name: "Counters.IsOnlyInbound"},
		{Pkg: "pkg/types", Kind: "func", Name: "Counters.IsOnlyOutbound"},
		{Pkg: "pkg/types", Kind: "func", Name: "Counters.IsBidirectional"},
		{Pkg: "pkg/types", Kind: "func", Name: "Counters.IsUnidirectional"},
	}})

	// per-node family limit (model: C08.limit)
	factExtractors["c08_ipversion_nodes"] = func(l *Loader) (any, error) {
		return []string{
			c12Body(l, "pkg/goDB/conditions/node", "conditionNode.IPVersion"),
			c12Body(l, "pkg/goDB/conditions/node", "notNode.IPVersion"),
			c12Body(l, "pkg/goDB/conditions/node", "andNode.IPVersion"),
			c12Body(l, "pkg/goDB/conditions/node", "orNode.IPVersion"),
		}, nil
	}
	// which leaves carry an IP version and where it comes from (model: leafVersion)
	factExtractors["c08_leaf_ipversion"] = func(l *Loader) (any, error) {
		out := c12Assigns(l, "pkg/goDB/conditions/node", "generateCompareValue", "condition.ipVersion")
		out = append(out, c12Assigns(l, "pkg/goDB/conditions/node", "conditionBytesAndNetmask", "ipVersion")...)
		return out, nil
	}
	// NewQuery: flags per attribute, the limit taken from the condition tree
	factExtractors["c08_newquery"] = func(l *Loader) (any, error) {
		out := c12Assigns(l, "pkg/goDB", "NewQuery", "q.ipVersion")
		out = append(out, c08Calls(l, "pkg/goDB", "NewQuery", "q.Conditional.", "queryConditionalColumnFlagSetters", "queryAttributeColumnFlagSetters")...)
		return out, nil
	}
	// scan loop: tests (time filter, pruning, v4/v6 switch, attribute flags) and the key / comparison value population
	factExtractors["c08_scan_tests"] = func(l *Loader) (any, error) {
		return c12IfConds(l, "pkg/goDB", "DBWorkManager.readBlocksAndEvaluate"), nil
	}
	factExtractors["c08_scan_population"] = func(l *Loader) (any, error) {
		out := c12Assigns(l, "pkg/goDB", "DBWorkManager.readBlocksAndEvaluate", "startEntry")
		out = append(out, c12Assigns(l, "pkg/goDB", "DBWorkManager.readBlocksAndEvaluate", "numEntries")...)
		out = append(out, c12Assigns(l, "pkg/goDB", "DBWorkManager.readBlocksAndEvaluate", "key")...)
		out = append(out, c12Assigns(l, "pkg/goDB", "DBWorkManager.readBlocksAndEvaluate", "comparisonValue")...)
		out = append(out, c12Assigns(l, "pkg/goDB", "DBWorkManager.readBlocksAndEvaluate", "isIPv4")...)
		out = append(out, c12Assigns(l, "pkg/goDB", "DBWorkManager.readBlocksAndEvaluate", "condIsIPv4")...)
		out = append(out, c12Assigns(l, "pkg/goDB", "DBWorkManager.readBlocksAndEvaluate", "conditionalSatisfied")...)
		out = append(out, c08Calls(l, "pkg/goDB", "DBWorkManager.readBlocksAndEvaluate", "key.Put", "comparisonValue.Put", "resultMap.SetOrUpdate")...)
		return out, nil
	}
	// directory selection and covered interval (model: selected, covered, scanDay)
	factExtractors["c08_selection"] = func(l *Loader) (any, error) {
		out := []string{}
		for _, c := range c12IfConds(l, "pkg/goDB", "DBWorkManager.walkDB") {
			out = append(out, "walkDB: "+c)
		}
		for _, c := range c12IfConds(l, "pkg/goDB", "DBWorkManager.CreateWorkerJobs") {
			out = append(out, "CreateWorkerJobs: "+c)
		}
		out = append(out, c12Assigns(l, "pkg/goDB", "DBWorkManager.CreateWorkerJobs", "w.tFirstCovered")...)
		out = append(out, c12Assigns(l, "pkg/goDB", "DBWorkManager.CreateWorkerJobs", "w.tLastCovered")...)
		out = append(out, c12Assigns(l, "pkg/goDB", "DBWorkManager.walkDB", "w.tFirstCovered")...)
		return out, nil
	}
	// negation normal form (model: C08.nnf / Cmp.negate)
	factExtractors["c08_nnf"] = func(l *Loader) (any, error) {
		return []string{
			c12Body(l, "pkg/goDB/conditions/node", "transformComparator"),
			c12Body(l, "pkg/goDB/conditions/node", "andNode.Evaluate"),
			c12Body(l, "pkg/goDB/conditions/node", "orNode.Evaluate"),
			c12Body(l, "pkg/goDB/conditions/node", "notNode.Evaluate"),
		}, nil
	}
	// direction filter keywords -> predicates
	factExtractors["c08_direction_filters"] = func(l *Loader) (any, error) {
		return c12Assigns(l, "pkg/goDB/conditions/node", "extractDirectionFilter", "filter"), nil
	}
	// aggregation and row materialisation
	factExtractors["c08_rows"] = func(l *Loader) (any, error) {
		out := c08Calls(l, "pkg/goDB/engine", "QueryRunner.aggregate", "finalMap.Merge")
		out = append(out, c08Calls(l, "pkg/goDB/engine", "QueryRunner.RunStatement", "totals.Add", "rs[count].Counters.Add", "hashmap.WithFilter", "aggMap.Iter")...)
		out = append(out, c12Assigns(l, "pkg/goDB/engine", "QueryRunner.RunStatement", "rs[count]")...)
		out = append(out, c12Assigns(l, "pkg/goDB/engine", "QueryRunner.RunStatement", "result.Summary.Totals")...)
		out = append(out, c12Assigns(l, "pkg/goDB/engine", "QueryRunner.RunStatement", "result.Summary.Hits")...)
		out = append(out, c12Assigns(l, "pkg/goDB/engine", "QueryRunner.RunStatement", "result.Rows")...)
		return out, nil
	}
}
