package main

// Loader: type-checks packages of /repo from source with go/types, tolerating errors
// (third-party imports are faked), so that constant values and expression types of
// the *current* source are available to the translators.

import (
	"fmt"
	"go/ast"
	"go/build"
	"go/importer"
	"go/parser"
	"go/token"
	"go/types"
	"os"
	"path/filepath"
	"sort"
	"strings"
)

const repoModule = "github.com/els0r/goProbe/v4"

type Pkg struct {
	Path  string
	Dir   string
	Files []*ast.File
	Types *types.Package
	Info  *types.Info
}

type Loader struct {
	Root   string
	Fset   *token.FileSet
	pkgs   map[string]*Pkg
	std    types.Importer
	faked  map[string]*types.Package
	inProg map[string]bool
}

func NewLoader(root string) *Loader {
	fset := token.NewFileSet()
	return &Loader{
		Root:   root,
		Fset:   fset,
		pkgs:   map[string]*Pkg{},
		std:    importer.ForCompiler(fset, "source", nil),
		faked:  map[string]*types.Package{},
		inProg: map[string]bool{},
	}
}

func (l *Loader) Import(path string) (*types.Package, error) {
	if strings.HasPrefix(path, repoModule+"/") || path == repoModule {
		rel := strings.TrimPrefix(strings.TrimPrefix(path, repoModule), "/")
		if l.inProg[path] {
			return nil, fmt.Errorf("import cycle %s", path)
		}
		p, err := l.Load(rel)
		if err != nil {
			return nil, err
		}
		return p.Types, nil
	}
	if !strings.Contains(strings.SplitN(path, "/", 2)[0], ".") {
		// standard library
		if p, err := l.std.Import(path); err == nil {
			return p, nil
		}
	}
	if p, ok := l.faked[path]; ok {
		return p, nil
	}
	if realThirdParty[path] {
		// a few third-party packages whose constants the repo's own constants are defined from are
		// type-checked from the module cache, at the version required by the repo's go.mod
		if p := l.loadThirdParty(path); p != nil {
			l.faked[path] = p
			return p, nil
		}
	}
	name := path[strings.LastIndex(path, "/")+1:]
	if strings.HasPrefix(name, "v") && len(name) <= 3 {
		parts := strings.Split(path, "/")
		if len(parts) >= 2 {
			name = parts[len(parts)-2]
		}
	}
	p := types.NewPackage(path, name)
	p.MarkComplete()
	l.faked[path] = p
	return p, nil
}

// realThirdParty: third-party packages loaded from source instead of being faked.
var realThirdParty = map[string]bool{"golang.org/x/net/ipv4": true, "golang.org/x/net/ipv6": true, "github.com/fako1024/slimcap/capture": true}

func modCache() string {
	if d := os.Getenv("GOMODCACHE"); d != "" {
		return d
	}
	if d := os.Getenv("GOPATH"); d != "" {
		return filepath.Join(strings.Split(d, string(os.PathListSeparator))[0], "pkg", "mod")
	}
	home, _ := os.UserHomeDir()
	return filepath.Join(home, "go", "pkg", "mod")
}

// loadThirdParty finds path's module + version in the repo's go.mod, parses the package from the
// module cache and type-checks it (its own third-party imports are faked, errors tolerated).
// Returns nil when anything is missing (the package is then faked as before).
func (l *Loader) loadThirdParty(path string) *types.Package {
	gomod, err := os.ReadFile(filepath.Join(l.Root, "go.mod"))
	if err != nil {
		return nil
	}
	bestMod, bestVer := "", ""
	for _, line := range strings.Split(string(gomod), "\n") {
		f := strings.Fields(strings.TrimPrefix(strings.TrimSpace(line), "require "))
		if len(f) >= 2 && strings.HasPrefix(f[1], "v") && (path == f[0] || strings.HasPrefix(path, f[0]+"/")) && len(f[0]) > len(bestMod) {
			bestMod, bestVer = f[0], f[1]
		}
	}
	if bestMod == "" {
		return nil
	}
	esc := func(s string) string {
		var b strings.Builder
		for _, r := range s {
			if r >= 'A' && r <= 'Z' {
				b.WriteByte('!')
				r += 'a' - 'A'
			}
			b.WriteRune(r)
		}
		return b.String()
	}
	dir := filepath.Join(modCache(), esc(bestMod)+"@"+bestVer, strings.TrimPrefix(strings.TrimPrefix(path, bestMod), "/"))
	ents, err := os.ReadDir(dir)
	if err != nil {
		return nil
	}
	ctx := build.Default
	ctx.GOOS, ctx.GOARCH, ctx.CgoEnabled = "linux", "amd64", true
	var files []*ast.File
	for _, e := range ents {
		n := e.Name()
		if e.IsDir() || !strings.HasSuffix(n, ".go") || strings.HasSuffix(n, "_test.go") {
			continue
		}
		if ok, err := ctx.MatchFile(dir, n); err != nil || !ok {
			continue
		}
		f, err := parser.ParseFile(l.Fset, filepath.Join(dir, n), nil, 0)
		if err != nil {
			return nil
		}
		files = append(files, f)
	}
	if len(files) == 0 {
		return nil
	}
	saved := realThirdParty
	// one level only — except the leaf packages (constants only) that were real before, so that a
	// nested import does not cache a faked copy of them
	realThirdParty = map[string]bool{"golang.org/x/net/ipv4": saved["golang.org/x/net/ipv4"], "golang.org/x/net/ipv6": saved["golang.org/x/net/ipv6"]}
	defer func() { realThirdParty = saved }()
	conf := types.Config{Importer: l, Error: func(error) {}, FakeImportC: true}
	tp, _ := conf.Check(path, l.Fset, files, nil)
	return tp
}

// Load parses and type-checks the package in directory rel (relative to the repo root).
func (l *Loader) Load(rel string) (*Pkg, error) {
	path := repoModule
	if rel != "" {
		path = repoModule + "/" + rel
	}
	if p, ok := l.pkgs[path]; ok {
		return p, nil
	}
	l.inProg[path] = true
	defer delete(l.inProg, path)
	dir := filepath.Join(l.Root, rel)
	if strings.HasPrefix(rel, "@") {
		// "@<module path>": root package of a dependency, read from the module cache at the
		// version the repo's go.mod requires (see modcache.go)
		var err error
		if dir, err = l.modCacheDir(rel[1:]); err != nil {
			return nil, err
		}
		path = rel[1:]
	}
	ents, err := os.ReadDir(dir)
	if err != nil {
		return nil, err
	}
	ctx := build.Default
	ctx.GOOS = "linux"
	ctx.GOARCH = "amd64"
	ctx.CgoEnabled = true
	var files []*ast.File
	var names []string
	for _, e := range ents {
		n := e.Name()
		if e.IsDir() || !strings.HasSuffix(n, ".go") || strings.HasSuffix(n, "_test.go") {
			continue
		}
		ok, err := ctx.MatchFile(dir, n)
		if err != nil || !ok {
			continue
		}
		names = append(names, n)
	}
	sort.Strings(names)
	pkgName := ""
	for _, n := range names {
		f, err := parser.ParseFile(l.Fset, filepath.Join(dir, n), nil, parser.ParseComments)
		if err != nil {
			return nil, fmt.Errorf("parse %s: %w", n, err)
		}
		if f.Name.Name == "main" && pkgName != "" && pkgName != "main" {
			continue
		}
		if pkgName == "" {
			pkgName = f.Name.Name
		}
		if f.Name.Name != pkgName {
			continue
		}
		files = append(files, f)
	}
	if len(files) == 0 {
		return nil, fmt.Errorf("no go files in %s", dir)
	}
	info := &types.Info{
		Types:      map[ast.Expr]types.TypeAndValue{},
		Defs:       map[*ast.Ident]types.Object{},
		Uses:       map[*ast.Ident]types.Object{},
		Selections: map[*ast.SelectorExpr]*types.Selection{},
	}
	conf := types.Config{
		Importer:    l,
		Error:       func(error) {},
		FakeImportC: true,
	}
	tp, _ := conf.Check(path, l.Fset, files, info)
	p := &Pkg{Path: path, Dir: dir, Files: files, Types: tp, Info: info}
	l.pkgs[path] = p
	return p, nil
}

// FindFunc returns the declaration of a function or method ("Recv.Name" or "Name").
func (p *Pkg) FindFunc(name string) *ast.FuncDecl {
	recv, fn := "", name
	if i := strings.Index(name, "."); i >= 0 {
		recv, fn = name[:i], name[i+1:]
	}
	for _, f := range p.Files {
		for _, d := range f.Decls {
			fd, ok := d.(*ast.FuncDecl)
			if !ok || fd.Name.Name != fn {
				continue
			}
			if recv == "" && fd.Recv == nil {
				return fd
			}
			if recv != "" && fd.Recv != nil && len(fd.Recv.List) == 1 {
				t := fd.Recv.List[0].Type
				if s, ok := t.(*ast.StarExpr); ok {
					t = s.X
				}
				if ix, ok := t.(*ast.IndexExpr); ok {
					t = ix.X
				}
				if id, ok := t.(*ast.Ident); ok && id.Name == recv {
					return fd
				}
			}
		}
	}
	return nil
}

// FindValue returns the value spec + index of a package-level var/const.
func (p *Pkg) FindValue(name string) (*ast.ValueSpec, int) {
	for _, f := range p.Files {
		for _, d := range f.Decls {
			gd, ok := d.(*ast.GenDecl)
			if !ok {
				continue
			}
			for _, s := range gd.Specs {
				vs, ok := s.(*ast.ValueSpec)
				if !ok {
					continue
				}
				for i, n := range vs.Names {
					if n.Name == name {
						return vs, i
					}
				}
			}
		}
	}
	return nil, 0
}
