package main

func init() {
	addTargets(Target{File: "TimeBin", Items: []Item{
		{Pkg: "pkg/results", Kind: "func", Name: "BinTimestamp"},
		{Pkg: "pkg/results", Kind: "func", Name: "CalcTimeBinSize"},
		{Pkg: "pkg/types", Kind: "const", Name: "DefaultTimeResolution"},
	}})
}
