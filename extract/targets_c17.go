package main

// C17 — JSON round trips: enum <-> string maps (regenerated as Lean functions), enumeration
// member lists, JSON field tables of every struct reachable from Args / Statement / Result, the
// field tables of the aux structs of the custom marshallers and the shapes of the marshaller bodies.

import (
	"fmt"
	"go/ast"
	"go/types"
	"reflect"
	"sort"
	"strings"
)

func init() {
	addTargets(Target{File: "EnumJSON", Items: []Item{
		{Pkg: "pkg/types", Kind: "func", Name: "Direction.String"},
		{Pkg: "pkg/types", Kind: "func", Name: "DirectionFromString"},
		{Pkg: "pkg/results", Kind: "func", Name: "SortOrder.String"},
		{Pkg: "pkg/results", Kind: "func", Name: "SortOrderFromString"},
		{Pkg: "pkg/types", Kind: "const", Name: "DirectionUnknown"},
		{Pkg: "pkg/types", Kind: "const", Name: "DirectionSum"},
		{Pkg: "pkg/types", Kind: "const", Name: "DirectionIn"},
		{Pkg: "pkg/types", Kind: "const", Name: "DirectionOut"},
		{Pkg: "pkg/types", Kind: "const", Name: "DirectionBoth"},
		{Pkg: "pkg/results", Kind: "const", Name: "SortUnknown"},
		{Pkg: "pkg/results", Kind: "const", Name: "SortPackets"},
		{Pkg: "pkg/results", Kind: "const", Name: "SortTraffic"},
		{Pkg: "pkg/results", Kind: "const", Name: "SortTime"},
		{Pkg: "pkg/types", Kind: "const", Name: "StatusError"},
		{Pkg: "pkg/types", Kind: "const", Name: "StatusEmpty"},
		{Pkg: "pkg/types", Kind: "const", Name: "StatusMissingData"},
		{Pkg: "pkg/types", Kind: "const", Name: "StatusTooManyRequests"},
		{Pkg: "pkg/types", Kind: "const", Name: "StatusOK"},
	}})

	// complete member lists of the enumerations ("Name=value", declaration order by value)
	factExtractors["c17_members_Direction"] = func(l *Loader) (any, error) { return c17Members(l, "pkg/types", "Direction"), nil }
	factExtractors["c17_members_SortOrder"] = func(l *Loader) (any, error) { return c17Members(l, "pkg/results", "SortOrder"), nil }
	factExtractors["c17_members_Status"] = func(l *Loader) (any, error) { return c17Members(l, "pkg/types", "Status"), nil }

	// JSON field tables: rows [GoName, jsonKey, "omitempty"|"embedded"|"", GoType]
	for _, s := range [][2]string{
		{"pkg/query", "Args"}, {"pkg/query", "DNSResolution"}, {"pkg/query", "Statement"},
		{"pkg/types", "LabelSelector"}, {"pkg/types", "Counters"}, {"pkg/types/workload", "Stats"},
		{"pkg/results", "Result"}, {"pkg/results", "Status"}, {"pkg/results", "Summary"}, {"pkg/results", "TimeRange"},
		{"pkg/results", "Timings"}, {"pkg/results", "Hits"}, {"pkg/results", "Query"}, {"pkg/results", "Row"},
		{"pkg/results", "Labels"}, {"pkg/results", "Attributes"},
	} {
		pkg, name := s[0], s[1]
		factExtractors["c17_fields_"+name] = func(l *Loader) (any, error) { return c17StructFields(l, pkg, name), nil }
	}
	// aux structs of the custom marshallers
	factExtractors["c17_aux_Labels"] = func(l *Loader) (any, error) { return c17AuxFields(l, "pkg/results", "Labels.MarshalJSON"), nil }
	factExtractors["c17_aux_Attributes"] = func(l *Loader) (any, error) { return c17AuxFields(l, "pkg/results", "Attributes.MarshalJSON"), nil }
	// named collection types used in the tables
	factExtractors["c17_named_types"] = func(l *Loader) (any, error) {
		var out []string
		for _, s := range [][2]string{{"pkg/results", "Rows"}, {"pkg/results", "Interfaces"}, {"pkg/results", "HostsStatuses"}, {"pkg/types", "Status"}, {"pkg/types", "Direction"}, {"pkg/results", "SortOrder"}} {
			out = append(out, s[1]+" = "+c17TypeText(l, s[0], s[1]))
		}
		return out, nil
	}
	// which custom (un)marshallers exist on the JSON-visible types and with which receiver kind
	factExtractors["c17_receivers"] = func(l *Loader) (any, error) {
		var out []string
		for _, pkg := range []string{"pkg/types", "pkg/results", "pkg/query", "pkg/types/workload"} {
			p, err := l.Load(pkg)
			if err != nil {
				return nil, err
			}
			for _, f := range p.Files {
				for _, d := range f.Decls {
					fd, ok := d.(*ast.FuncDecl)
					if !ok || fd.Recv == nil || len(fd.Recv.List) != 1 {
						continue
					}
					switch fd.Name.Name {
					case "MarshalJSON", "UnmarshalJSON", "MarshalText", "UnmarshalText":
					default:
						continue
					}
					kind := "value"
					t := fd.Recv.List[0].Type
					if s, ok := t.(*ast.StarExpr); ok {
						kind, t = "pointer", s.X
					}
					out = append(out, fmt.Sprintf("%s.%s.%s %s", pkg, srcText(l, t), fd.Name.Name, kind))
				}
			}
		}
		sort.Strings(out)
		return out, nil
	}
	// full (whitespace-normalised) bodies of the custom marshallers the hand model transcribes
	for _, s := range [][3]string{
		{"pkg/results", "Labels.MarshalJSON", "c17_src_Labels_MarshalJSON"},
		{"pkg/results", "Attributes.MarshalJSON", "c17_src_Attributes_MarshalJSON"},
		{"pkg/types", "Direction.MarshalJSON", "c17_src_Direction_MarshalJSON"},
		{"pkg/types", "Direction.UnmarshalJSON", "c17_src_Direction_UnmarshalJSON"},
		{"pkg/results", "SortOrder.MarshalJSON", "c17_src_SortOrder_MarshalJSON"},
		{"pkg/results", "SortOrder.UnmarshalJSON", "c17_src_SortOrder_UnmarshalJSON"},
	} {
		pkg, fn, name := s[0], s[1], s[2]
		factExtractors[name] = func(l *Loader) (any, error) {
			_, fd := mustFunc(l, pkg, fn)
			return srcText(l, fd.Body), nil
		}
	}
}

func c17Members(l *Loader, pkg, typeName string) []string {
	p, err := l.Load(pkg)
	if err != nil {
		panic(err)
	}
	type m struct{ name, val string }
	var ms []m
	sc := p.Types.Scope()
	for _, n := range sc.Names() {
		c, ok := sc.Lookup(n).(*types.Const)
		if !ok {
			continue
		}
		nt, ok := c.Type().(*types.Named)
		if !ok || nt.Obj().Name() != typeName || nt.Obj().Pkg() != p.Types {
			continue
		}
		ms = append(ms, m{n, c.Val().ExactString()})
	}
	if len(ms) == 0 {
		panic("no constants of type " + typeName + " in " + pkg)
	}
	sort.SliceStable(ms, func(i, j int) bool {
		if len(ms[i].val) != len(ms[j].val) {
			return len(ms[i].val) < len(ms[j].val)
		}
		if ms[i].val != ms[j].val {
			return ms[i].val < ms[j].val
		}
		return ms[i].name < ms[j].name
	})
	var out []string
	for _, x := range ms {
		out = append(out, x.name+"="+strings.Trim(x.val, `"`))
	}
	return out
}

func c17FieldRows(l *Loader, st *ast.StructType) [][]string {
	var out [][]string
	for _, fld := range st.Fields.List {
		tag, opts := "", ""
		if fld.Tag != nil {
			full := reflect.StructTag(strings.Trim(fld.Tag.Value, "`")).Get("json")
			parts := strings.Split(full, ",")
			tag = parts[0]
			for _, o := range parts[1:] {
				if o != "" {
					if opts != "" {
						opts += ","
					}
					opts += o
				}
			}
		}
		ty := srcText(l, fld.Type)
		if len(fld.Names) == 0 {
			// embedded field: JSON-visible only if the type name is exported
			name := ty[strings.LastIndex(ty, ".")+1:]
			name = strings.TrimPrefix(name, "*")
			if tag == "-" || !ast.IsExported(name) {
				continue
			}
			if tag == "" {
				out = append(out, []string{name, "", "embedded", ty})
			} else {
				out = append(out, []string{name, tag, opts, ty})
			}
			continue
		}
		for _, nm := range fld.Names {
			if !nm.IsExported() || tag == "-" {
				continue
			}
			key := tag
			if key == "" {
				key = nm.Name
			}
			out = append(out, []string{nm.Name, key, opts, ty})
		}
	}
	return out
}

func c17FindStruct(l *Loader, pkg, typeName string) *ast.StructType {
	p, err := l.Load(pkg)
	if err != nil {
		panic(err)
	}
	for _, f := range p.Files {
		for _, d := range f.Decls {
			gd, ok := d.(*ast.GenDecl)
			if !ok {
				continue
			}
			for _, s := range gd.Specs {
				if ts, ok := s.(*ast.TypeSpec); ok && ts.Name.Name == typeName {
					if st, ok := ts.Type.(*ast.StructType); ok {
						return st
					}
				}
			}
		}
	}
	panic("struct " + typeName + " not found in " + pkg)
}

func c17StructFields(l *Loader, pkg, typeName string) [][]string {
	return c17FieldRows(l, c17FindStruct(l, pkg, typeName))
}

func c17TypeText(l *Loader, pkg, typeName string) string {
	p, err := l.Load(pkg)
	if err != nil {
		panic(err)
	}
	for _, f := range p.Files {
		for _, d := range f.Decls {
			gd, ok := d.(*ast.GenDecl)
			if !ok {
				continue
			}
			for _, s := range gd.Specs {
				if ts, ok := s.(*ast.TypeSpec); ok && ts.Name.Name == typeName {
					return srcText(l, ts.Type)
				}
			}
		}
	}
	panic("type " + typeName + " not found in " + pkg)
}

// c17AuxFields: field table of the first anonymous struct type in fn's body
func c17AuxFields(l *Loader, pkg, fn string) [][]string {
	_, fd := mustFunc(l, pkg, fn)
	var st *ast.StructType
	ast.Inspect(fd.Body, func(n ast.Node) bool {
		if s, ok := n.(*ast.StructType); ok && st == nil {
			st = s
			return false
		}
		return st == nil
	})
	if st == nil {
		panic("no anonymous struct in " + fn)
	}
	return c17FieldRows(l, st)
}
