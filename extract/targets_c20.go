package main

// C20 — traffic accounting across write-outs. Regenerated into Gen/FlowLog.lean: the flow counter
// functions NewFlow / Flow.UpdateFlow / Flow.Reset (direction by packet type, incl. the value of
// slimcap's PacketOutgoing), Counters.Add and the key layout constants used by PutV4String /
// PutV6String. The classifiers, Reverse and IsProbablyReverse come from Gen/Classify.lean (C22's
// target). Pinned as facts: the statement skeletons of addToFlowLogV4/V6, transferAndAggregate,
// Aggregate and Capture.rotate (the hand model in Model/C20.lean transcribes them), the copy()
// calls of PutV4String / PutV6String and the arguments the write-out handler passes to DBWriter.Write.

import "go/ast"

func c20Stmts(l *Loader, pkg, fn string) []string {
	_, fd := mustFunc(l, pkg, fn)
	var out []string
	var walk func(list []ast.Stmt, depth string)
	walk = func(list []ast.Stmt, depth string) {
		for _, s := range list {
			switch x := s.(type) {
			case *ast.IfStmt:
				hdr := "if "
				if x.Init != nil {
					hdr += srcText(l, x.Init) + "; "
				}
				out = append(out, depth+hdr+srcText(l, x.Cond))
				walk(x.Body.List, depth+"  ")
				if x.Else != nil {
					out = append(out, depth+"else")
					if b, ok := x.Else.(*ast.BlockStmt); ok {
						walk(b.List, depth+"  ")
					} else {
						walk([]ast.Stmt{x.Else}, depth+"  ")
					}
				}
			case *ast.RangeStmt:
				k, v := "_", "_"
				if x.Key != nil {
					k = srcText(l, x.Key)
				}
				if x.Value != nil {
					v = srcText(l, x.Value)
				}
				out = append(out, depth+"for "+k+", "+v+" := range "+srcText(l, x.X))
				walk(x.Body.List, depth+"  ")
			case *ast.DeferStmt:
				out = append(out, depth+"defer …")
			default:
				out = append(out, depth+srcText(l, s))
			}
		}
	}
	walk(fd.Body.List, "")
	return out
}

func init() {
	var items []Item
	for _, n := range []string{"sipPos", "IPv4Width", "IPv6Width", "dipPosIPv4", "dipPosIPv6",
		"dipDportProtoIPv4Width", "dipDportProtoIPv6Width", "KeyWidthIPv4", "KeyWidthIPv6"} {
		items = append(items, Item{Pkg: "pkg/types", Kind: "const", Name: n})
	}
	items = append(items,
		Item{Pkg: "pkg/capture/capturetypes", Kind: "const", Name: "DirectionReverts"},
		Item{Pkg: "pkg/capture/capturetypes", Kind: "const", Name: "EPHashSizeV4"},
		Item{Pkg: "pkg/capture/capturetypes", Kind: "const", Name: "EPHashSizeV6"},
		Item{Pkg: "pkg/capture", Kind: "func", Name: "NewFlow"},
		Item{Pkg: "pkg/capture", Kind: "func", Name: "Flow.UpdateFlow"},
		Item{Pkg: "pkg/capture", Kind: "func", Name: "Flow.Reset"},
		Item{Pkg: "pkg/types", Kind: "func", Name: "Counters.Add"},
	)
	addTargets(Target{File: "FlowLog", Items: items})

	for name, fn := range map[string]string{
		"c20_add_v4":        "Capture.addToFlowLogV4",
		"c20_add_v6":        "Capture.addToFlowLogV6",
		"c20_rotate":        "FlowLog.transferAndAggregate",
		"c20_aggregate":     "FlowLog.Aggregate",
		"c20_flowlog_rot":   "FlowLog.Rotate",
		"c20_capture_rot":   "Capture.rotate",
	} {
		fn := fn
		factExtractors[name] = func(l *Loader) (any, error) { return c20Stmts(l, "pkg/capture", fn), nil }
	}
	factExtractors["c20_put_v4_copies"] = func(l *Loader) (any, error) {
		return CallArgs(l, "pkg/types", "Key.PutV4String", "copy"), nil
	}
	factExtractors["c20_put_v6_copies"] = func(l *Loader) (any, error) {
		return CallArgs(l, "pkg/types", "Key.PutV6String", "copy"), nil
	}
	factExtractors["c20_put_v4_stmts"] = func(l *Loader) (any, error) { return c20Stmts(l, "pkg/types", "Key.PutV4String"), nil }
	factExtractors["c20_put_v6_stmts"] = func(l *Loader) (any, error) { return c20Stmts(l, "pkg/types", "Key.PutV6String"), nil }
	factExtractors["c20_empty_keys"] = func(l *Loader) (any, error) {
		return append(c20Stmts(l, "pkg/types", "NewEmptyV4Key"), c20Stmts(l, "pkg/types", "NewEmptyV6Key")...), nil
	}
	// the write-out handler hands the rotated map unchanged to DBWriter.Write, which encodes it with dbData
	factExtractors["c20_handler_write_args"] = func(l *Loader) (any, error) {
		return CallArgs(l, "pkg/goprobe/writeout", "GoDBHandler.handleIfaceWriteout", "].Write"), nil
	}
	factExtractors["c20_writer_dbdata_args"] = func(l *Loader) (any, error) {
		return CallArgs(l, "pkg/goDB", "DBWriter.Write", "dbData"), nil
	}
	factExtractors["c20_dbdata_flatten"] = func(l *Loader) (any, error) {
		seq := CallSeq(l, "pkg/goDB", "dbData")
		var out []string
		for _, c := range seq {
			switch c {
			case "aggFlowMap.Flatten", "v4List.Sort", "v6List.Sort", "summUpdate.Counts.Add", "bitpack.Pack":
				out = append(out, c)
			}
		}
		return out, nil
	}
}
