package main

// C19 — packet parsing: the offsets / limits used by ParsePacketV4/V6, the EPHash layout, the
// protocol numbers, the dispatch constants, and isCommonPort with its lookup table are
// regenerated; the shape of the two parsers and of the dispatch in the capture loops is pinned
// by facts.

import (
	"go/ast"
	"go/types"
	"strings"
)

func init() {
	var items []Item
	for _, n := range []string{
		"ipLayerTypeV4", "ipLayerTypeV6",
		"ipLayerV4ProtoPos", "ipLayerV4SipStart", "ipLayerV4SipEnd", "ipLayerV4DipStart", "ipLayerV4DipEnd",
		"ipLayerV4SPortStart", "ipLayerV4SPortEnd", "ipLayerV4DPortStart", "ipLayerV4DPortEnd",
		"ipLayerV4TCPFlagsPos", "ipLayerV4FragFlagFirstByte", "ipLayerV4FragFlagLastByte",
		"ipLayerV4BoundsLimit", "ipLayerV4TCPLimit", "ipLayerV4UDPLimit", "ipLayerV4ICMPLimit",
		"ipLayerV6BoundsLimit", "ipLayerV6ProtoPos", "ipLayerV6SipStart", "ipLayerV6SipEnd", "ipLayerV6DipStart", "ipLayerV6DipEnd",
		"ipLayerV6SPortStart", "ipLayerV6SPortEnd", "ipLayerV6DPortStart", "ipLayerV6DPortEnd",
		"ipLayerV6TCPFlagsPos", "ipLayerV6TCPLimit", "ipLayerV6UDPLimit", "ipLayerV6ICMPLimit",
		"commonPortsMaxTrackedFirstByte",
	} {
		items = append(items, Item{Pkg: "pkg/capture", Kind: "const", Name: n})
	}
	for _, n := range []string{
		"ICMP", "TCP", "UDP", "ESP", "ICMPv6", "EPHashSizeV4", "EPHashSizeV6",
		"EPHashV4SipStart", "EPHashV4SipEnd", "EPHashV4SPortStart", "EPHashV4SPortEnd", "EPHashV4DipStart", "EPHashV4DipEnd",
		"EPHashV4DPortStart", "EPHashV4DPortEnd", "EPHashV4ProtocolPos",
		"EPHashV6SipStart", "EPHashV6SipEnd", "EPHashV6SPortStart", "EPHashV6SPortEnd", "EPHashV6DipStart", "EPHashV6DipEnd",
		"EPHashV6DPortStart", "EPHashV6DPortEnd", "EPHashV6ProtocolPos",
	} {
		items = append(items, Item{Pkg: "pkg/capture/capturetypes", Kind: "const", Name: n})
	}
	for _, n := range []string{"ErrnoOK", "ErrnoPacketFragmentIgnore", "ErrnoInvalidIPHeader", "ErrnoPacketTruncated"} {
		items = append(items, Item{Pkg: "pkg/capture/capturetypes", Kind: "const", Name: n})
	}
	items = append(items,
		Item{Pkg: "pkg/capture", Kind: "func", Name: "isCommonPort"},
		Item{Pkg: "pkg/capture/capturetypes", Kind: "func", Name: "EPHashV4.Reverse"},
		Item{Pkg: "pkg/capture/capturetypes", Kind: "func", Name: "EPHashV6.Reverse"},
	)
	addTargets(Target{File: "Parse", Items: items})

	// dimensions of the commonPorts lookup table (index safety of isCommonPort is proved against them)
	for d := 0; d < 3; d++ {
		d := d
		factExtractors["c19_commonPorts_dim"+itoa(int64(d))] = func(l *Loader) (any, error) {
			p, err := l.Load("pkg/capture")
			if err != nil {
				return nil, err
			}
			obj := p.Types.Scope().Lookup("commonPorts")
			if obj == nil {
				panic("commonPorts not found")
			}
			ty := obj.Type()
			for i := 0; ; i++ {
				a, ok := ty.Underlying().(*types.Array)
				if !ok {
					panic("commonPorts is not a 3-dimensional array")
				}
				if i == d {
					return int(a.Len()), nil
				}
				ty = a.Elem()
			}
		}
	}
	// control-flow skeleton of the two parsers: every if-condition, label, goto, return and
	// assignment / copy in source order (the hand model in Model/C19.lean follows this skeleton)
	factExtractors["c19_parse_v4_skeleton"] = func(l *Loader) (any, error) { return skeleton(l, "pkg/capture", "ParsePacketV4"), nil }
	factExtractors["c19_parse_v6_skeleton"] = func(l *Loader) (any, error) { return skeleton(l, "pkg/capture", "ParsePacketV6"), nil }
	// the dispatch on the IP version in the two capture loops
	factExtractors["c19_dispatch_process"] = func(l *Loader) (any, error) { return dispatchShape(l, "Capture.process"), nil }
	factExtractors["c19_dispatch_buffer"] = func(l *Loader) (any, error) { return dispatchShape(l, "Capture.bufferPackets"), nil }
}

func itoa(n int64) string {
	if n == 0 {
		return "0"
	}
	var b []byte
	for n > 0 {
		b = append([]byte{byte('0' + n%10)}, b...)
		n /= 10
	}
	return string(b)
}

// skeleton linearises a function body: one entry per statement, nested blocks bracketed.
func skeleton(l *Loader, pkg, fn string) []string {
	_, fd := mustFunc(l, pkg, fn)
	var out []string
	var walk func(ss []ast.Stmt)
	walk = func(ss []ast.Stmt) {
		for _, s := range ss {
			switch x := s.(type) {
			case *ast.IfStmt:
				out = append(out, "if "+srcText(l, x.Cond)+" {")
				walk(x.Body.List)
				if x.Else != nil {
					out = append(out, "} else {")
					if b, ok := x.Else.(*ast.BlockStmt); ok {
						walk(b.List)
					} else {
						walk([]ast.Stmt{x.Else})
					}
				}
				out = append(out, "}")
			case *ast.LabeledStmt:
				out = append(out, x.Label.Name+":")
				walk([]ast.Stmt{x.Stmt})
			case *ast.BlockStmt:
				walk(x.List)
			default:
				out = append(out, srcText(l, s))
			}
		}
	}
	walk(fd.Body.List)
	return out
}

// dispatchShape lists, for a capture loop, the statements that look at the fetched IP layer before
// / while choosing a parser: conditions mentioning ipLayer or iplayerType, and the parser calls.
func dispatchShape(l *Loader, fn string) []string {
	_, fd := mustFunc(l, "pkg/capture", fn)
	var out []string
	ast.Inspect(fd.Body, func(n ast.Node) bool {
		switch x := n.(type) {
		case *ast.IfStmt:
			t := ""
			if x.Init != nil {
				t = srcText(l, x.Init) + "; "
			}
			t += srcText(l, x.Cond)
			if strings.Contains(t, "ipLayer") || strings.Contains(t, "iplayerType") {
				out = append(out, "if "+t)
			}
		case *ast.CallExpr:
			if f := srcText(l, x.Fun); strings.HasPrefix(f, "ParsePacket") {
				out = append(out, "call "+srcText(l, x))
			}
		}
		return true
	})
	return out
}
