package main

import (
	"go/ast"
	"strings"
)

// C26 — CSV import. Regenerated into Lean: the column names, the key widths, the protocol-name
// table and the importer's `max`. Facts: the shapes of Import / parseSchema / parseRow / parseKey /
// the per-field parsers that the hand-written model (Model/C26.lean) transcribes.

// c26SwitchCases lists "case <exprs> => <first statement>" for every clause of the first switch of fn.
func c26SwitchCases(l *Loader, pkg, fn string) []string {
	_, fd := mustFunc(l, pkg, fn)
	var out []string
	done := false
	ast.Inspect(fd.Body, func(n ast.Node) bool {
		sw, ok := n.(*ast.SwitchStmt)
		if !ok || done {
			return !done
		}
		done = true
		for _, st := range sw.Body.List {
			cc := st.(*ast.CaseClause)
			var es []string
			for _, e := range cc.List {
				es = append(es, srcText(l, e))
			}
			body := ""
			if len(cc.Body) > 0 {
				body = srcText(l, cc.Body[0])
			}
			out = append(out, strings.Join(es, ",")+" => "+body)
		}
		return false
	})
	return out
}

// c26LoopConds lists the conditions of the for statements of fn
func c26LoopConds(l *Loader, pkg, fn string) []string {
	_, fd := mustFunc(l, pkg, fn)
	var out []string
	ast.Inspect(fd.Body, func(n ast.Node) bool {
		if fs, ok := n.(*ast.ForStmt); ok && fs.Cond != nil {
			out = append(out, srcText(l, fs.Cond))
		}
		return true
	})
	return out
}

func init() {
	addTargets(Target{File: "CsvImport", Items: []Item{
		{Pkg: "pkg/types", Kind: "const", Name: "TimeName"},
		{Pkg: "pkg/types", Kind: "const", Name: "IfaceName"},
		{Pkg: "pkg/types", Kind: "const", Name: "SIPName"},
		{Pkg: "pkg/types", Kind: "const", Name: "DIPName"},
		{Pkg: "pkg/types", Kind: "const", Name: "DportName"},
		{Pkg: "pkg/types", Kind: "const", Name: "ProtoName"},
		{Pkg: "pkg/types", Kind: "const", Name: "KeyWidthIPv4"},
		{Pkg: "pkg/types", Kind: "const", Name: "KeyWidthIPv6"},
		{Pkg: "pkg/types", Kind: "const", Name: "TimestampWidth"},
		{Pkg: "pkg/goDB/protocols", Kind: "var", Name: "IPProtocolIDs"},
		{Pkg: "cmd/gpdb/pkg/csvimport", Kind: "func", Name: "max"},
	}})

	const ci = "cmd/gpdb/pkg/csvimport"
	// Import: order of the steps, the loop condition, the tests inside the loop, and how a row enters the pending map
	factExtractors["c26_import_calls"] = func(l *Loader) (any, error) { return CallSeq(l, ci, "Import"), nil }
	factExtractors["c26_import_loop"] = func(l *Loader) (any, error) { return c26LoopConds(l, ci, "Import"), nil }
	factExtractors["c26_import_tests"] = func(l *Loader) (any, error) { return c12IfConds(l, ci, "Import"), nil }
	factExtractors["c26_import_store_args"] = func(l *Loader) (any, error) { return CallArgs(l, ci, "Import", "SetOrUpdate"), nil }
	factExtractors["c26_import_summary"] = func(l *Loader) (any, error) { return c12Assigns(l, ci, "Import", "summary."), nil }
	factExtractors["c26_import_current"] = func(l *Loader) (any, error) { return c12Assigns(l, ci, "Import", "currentTimestamp"), nil }
	factExtractors["c26_initreader_calls"] = func(l *Loader) (any, error) { return CallSeq(l, ci, "initCSVReader"), nil }
	// flushing: which timestamps, in which order, what is deleted
	factExtractors["c26_flushbefore_tests"] = func(l *Loader) (any, error) { return c12IfConds(l, ci, "flushBeforeTimestamp"), nil }
	factExtractors["c26_flushbefore_calls"] = func(l *Loader) (any, error) { return CallSeq(l, ci, "flushBeforeTimestamp"), nil }
	factExtractors["c26_flushall_calls"] = func(l *Loader) (any, error) { return CallSeq(l, ci, "flushAll"), nil }
	// schema: the switch on the column name, what each clause appends, the two checks and the two sorts
	factExtractors["c26_parseschema_cases"] = func(l *Loader) (any, error) { return c26SwitchCases(l, ci, "parseSchema"), nil }
	factExtractors["c26_parseschema_tests"] = func(l *Loader) (any, error) { return c12IfConds(l, ci, "parseSchema"), nil }
	factExtractors["c26_parseschema_calls"] = func(l *Loader) (any, error) { return CallSeq(l, ci, "parseSchema"), nil }
	// rows: interface check, key parsers with retry, value parsers
	factExtractors["c26_parserow_tests"] = func(l *Loader) (any, error) { return c12IfConds(l, ci, "parseRow"), nil }
	factExtractors["c26_parserow_calls"] = func(l *Loader) (any, error) { return CallSeq(l, ci, "parseRow"), nil }
	factExtractors["c26_parsekey_body"] = func(l *Loader) (any, error) { return StmtKinds(l, ci, "parseKey"), nil }
	factExtractors["c26_applykeyparsers_calls"] = func(l *Loader) (any, error) { return CallSeq(l, ci, "applyKeyParsers"), nil }
	factExtractors["c26_sipparser_body"] = func(l *Loader) (any, error) { return StmtKinds(l, ci, "sipStringParser.ParseKey"), nil }
	factExtractors["c26_dipparser_body"] = func(l *Loader) (any, error) { return StmtKinds(l, ci, "dipStringParser.ParseKey"), nil }
	// pkg/goDB/StringParser.go
	factExtractors["c26_keyparser_cases"] = func(l *Loader) (any, error) { return c26SwitchCases(l, "pkg/goDB", "NewStringKeyParser"), nil }
	factExtractors["c26_valparser_cases"] = func(l *Loader) (any, error) { return c26SwitchCases(l, "pkg/goDB", "NewStringValParser"), nil }
	factExtractors["c26_field_parse_calls"] = func(l *Loader) (any, error) {
		var out []string
		for _, fn := range []string{"DportStringParser.ParseKey", "ProtoStringParser.ParseKey", "TimeStringParser.ParseKey",
			"BytesRecStringParser.ParseVal", "BytesSentStringParser.ParseVal", "PacketsRecStringParser.ParseVal", "PacketsSentStringParser.ParseVal"} {
			for _, a := range CallArgs(l, "pkg/goDB", fn, "strconv.ParseUint") {
				out = append(out, fn+": ParseUint "+a)
			}
			for _, a := range CallArgs(l, "pkg/goDB", fn, "strconv.ParseInt") {
				out = append(out, fn+": ParseInt "+a)
			}
			for _, a := range c12Assigns(l, "pkg/goDB", fn, "val.") {
				out = append(out, fn+": "+a)
			}
		}
		return out, nil
	}
	factExtractors["c26_protoparser_body"] = func(l *Loader) (any, error) { return StmtKinds(l, "pkg/goDB", "ProtoStringParser.ParseKey"), nil }
	factExtractors["c26_timeparser_body"] = func(l *Loader) (any, error) { return StmtKinds(l, "pkg/goDB", "TimeStringParser.ParseKey"), nil }
	// pkg/types: time extension only for ts > 0, AttrTime by length, "IPv4" by the dot, display of addresses
	factExtractors["c26_extend_body"] = func(l *Loader) (any, error) { return StmtKinds(l, "pkg/types", "Key.Extend"), nil }
	factExtractors["c26_attrtime_body"] = func(l *Loader) (any, error) { return StmtKinds(l, "pkg/types", "ExtendedKey.AttrTime"), nil }
	factExtractors["c26_ipstringtobytes_body"] = func(l *Loader) (any, error) { return StmtKinds(l, "pkg/types", "IPStringToBytes"), nil }
	factExtractors["c26_rawiptoaddr_body"] = func(l *Loader) (any, error) { return StmtKinds(l, "pkg/types", "RawIPToAddr"), nil }
	factExtractors["c26_counters_fields"] = func(l *Loader) (any, error) { return StructTags(l, "pkg/types", "Counters"), nil }
	// storage: the refusal of non-increasing block timestamps modelled by storageAccepts
	factExtractors["c26_checkblock_tests"] = func(l *Loader) (any, error) {
		return c12IfConds(l, "pkg/goDB/storage/gpfile", "GPDir.checkBlockEncodable"), nil
	}
}
