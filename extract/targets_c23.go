package main

import "go/ast"

// C23 — local packet buffer. The record-layout constants are regenerated into Gen/Buffer.lean
// (the hand model Model/C23.lean is written over them); the statement lists of the five
// functions the hand model transcribes are pinned as facts, so that any edit of buffer.go's
// Add / Next / grow / Reset / Assign breaks the tie until the model is re-examined.

func c23Stmts(l *Loader, fn string) []string {
	_, fd := mustFunc(l, "pkg/capture", fn)
	var out []string
	var walk func(list []ast.Stmt, depth string)
	walk = func(list []ast.Stmt, depth string) {
		for _, s := range list {
			switch x := s.(type) {
			case *ast.IfStmt:
				hdr := "if "
				if x.Init != nil {
					hdr += srcText(l, x.Init) + "; "
				}
				out = append(out, depth+hdr+srcText(l, x.Cond))
				walk(x.Body.List, depth+"  ")
				if x.Else != nil {
					out = append(out, depth+"else")
					if b, ok := x.Else.(*ast.BlockStmt); ok {
						walk(b.List, depth+"  ")
					} else {
						walk([]ast.Stmt{x.Else}, depth+"  ")
					}
				}
			default:
				out = append(out, depth+srcText(l, s))
			}
		}
	}
	walk(fd.Body.List, "")
	return out
}

func init() {
	addTargets(Target{File: "Buffer", Items: []Item{
		{Pkg: "pkg/capture", Kind: "const", Name: "bufElementAddSize"},
		{Pkg: "pkg/capture/capturetypes", Kind: "const", Name: "EPHashSizeV4"},
		{Pkg: "pkg/capture/capturetypes", Kind: "const", Name: "EPHashSizeV6"},
	}})
	for _, fn := range []string{"Add", "Next", "grow", "Reset", "Assign"} {
		fn := fn
		factExtractors["c23_stmts_"+fn] = func(l *Loader) (any, error) {
			return c23Stmts(l, "LocalBuffer."+fn), nil
		}
	}
}
