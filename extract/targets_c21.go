package main

// C21 — packets seen while the capture is paused.
//
// Regenerated into Gen/Pause.lean: the parsing errnos, NumParsingErrors, DirectionReverts and
// ParsingErrno.ParsingFailed (what updateParsingErrorCounters and addToFlowLogV4/V6 branch on).
// Facts:
//   c21_add_isv4_v4 / c21_add_isv4_v6   the LITERAL 4th argument (isIPv4) of the buf.Add call in the
//                                       IPv4 / IPv6 branch of bufferPackets, as Lean Bools — the model
//                                       and `pause_transparent` are stated over these regenerated flags
//   c21_add_args_v4 / c21_add_args_v6   all arguments of those two calls
//   c21_process_skeleton, c21_buffer_skeleton, c21_update_counters_skeleton, c21_status_skeleton,
//   c21_add_flow_v4_skeleton, c21_add_flow_v6_skeleton, c21_flow_update_skeleton, c21_new_flow_skeleton,
//   c21_rotate_skeleton, c21_aggregate_skeleton, c21_capture_rotate_skeleton, c21_capture_flowmap_skeleton
//                                       statement skeletons (loops descended into) of the functions the
//                                       hand model transcribes
//   c21_process_calls, c21_buffer_calls call order (CallSeq)
//   c21_holder_rotate / _status / _query what Manager.rotate / Status / GetFlowMaps call on the capture
//                                       (`mc.…`) — the hook VerifCapture re-exports exactly these
//   c21_packet_outgoing                 value of slimcap's capture.PacketOutgoing (module cache, go.mod version)

import (
	"fmt"
	"go/ast"
	"go/parser"
	"go/token"
	"path/filepath"
	"strings"
)

// c21Skeleton linearises a function body like `skeleton` (targets_c19.go) but also descends into
// for / range loops, switch statements and function literals of defer statements.
func c21Skeleton(l *Loader, pkg, fn string) []string {
	_, fd := mustFunc(l, pkg, fn)
	var out []string
	var walk func(ss []ast.Stmt)
	walk = func(ss []ast.Stmt) {
		for _, s := range ss {
			switch x := s.(type) {
			case *ast.IfStmt:
				hdr := "if "
				if x.Init != nil {
					hdr += srcText(l, x.Init) + "; "
				}
				out = append(out, hdr+srcText(l, x.Cond)+" {")
				walk(x.Body.List)
				if x.Else != nil {
					out = append(out, "} else {")
					if b, ok := x.Else.(*ast.BlockStmt); ok {
						walk(b.List)
					} else {
						walk([]ast.Stmt{x.Else})
					}
				}
				out = append(out, "}")
			case *ast.ForStmt:
				hdr := "for"
				if x.Init != nil || x.Cond != nil || x.Post != nil {
					hdr += " "
					if x.Init != nil {
						hdr += srcText(l, x.Init)
					}
					hdr += "; "
					if x.Cond != nil {
						hdr += srcText(l, x.Cond)
					}
					hdr += "; "
					if x.Post != nil {
						hdr += srcText(l, x.Post)
					}
				}
				out = append(out, hdr+" {")
				walk(x.Body.List)
				out = append(out, "}")
			case *ast.RangeStmt:
				hdr := "for "
				if x.Key != nil {
					hdr += srcText(l, x.Key)
					if x.Value != nil {
						hdr += ", " + srcText(l, x.Value)
					}
					hdr += " " + x.Tok.String() + " "
				}
				out = append(out, hdr+"range "+srcText(l, x.X)+" {")
				walk(x.Body.List)
				out = append(out, "}")
			case *ast.LabeledStmt:
				out = append(out, x.Label.Name+":")
				walk([]ast.Stmt{x.Stmt})
			case *ast.BlockStmt:
				walk(x.List)
			case *ast.DeferStmt:
				if fl, ok := x.Call.Fun.(*ast.FuncLit); ok {
					out = append(out, "defer func() {")
					walk(fl.Body.List)
					out = append(out, "}()")
				} else {
					out = append(out, srcText(l, s))
				}
			case *ast.GoStmt:
				if fl, ok := x.Call.Fun.(*ast.FuncLit); ok {
					out = append(out, "go func() {")
					walk(fl.Body.List)
					out = append(out, "}()")
				} else {
					out = append(out, srcText(l, s))
				}
			default:
				out = append(out, srcText(l, s))
			}
		}
	}
	walk(fd.Body.List)
	return out
}

// c21AddCalls finds, in bufferPackets, the if/else-if chain on the IP layer type and returns for
// the branch that calls parser (`ParsePacketV4` / `ParsePacketV6`) the arguments of its buf.Add call.
func c21AddCalls(l *Loader, parserName string) []string {
	_, fd := mustFunc(l, "pkg/capture", "Capture.bufferPackets")
	var found [][]string
	var visit func(n ast.Node)
	visit = func(n ast.Node) {
		ast.Inspect(n, func(m ast.Node) bool {
			ifs, ok := m.(*ast.IfStmt)
			if !ok {
				return true
			}
			// does the body of this branch (not its else part) call the parser?
			calls := false
			ast.Inspect(ifs.Body, func(k ast.Node) bool {
				if c, ok := k.(*ast.CallExpr); ok && srcText(l, c.Fun) == parserName {
					calls = true
				}
				return true
			})
			if calls {
				ast.Inspect(ifs.Body, func(k ast.Node) bool {
					if c, ok := k.(*ast.CallExpr); ok && srcText(l, c.Fun) == "buf.Add" {
						var as []string
						for _, a := range c.Args {
							as = append(as, srcText(l, a))
						}
						found = append(found, as)
					}
					return true
				})
			}
			return true
		})
	}
	visit(fd.Body)
	if len(found) != 1 {
		panic(fmt.Sprintf("expected exactly one buf.Add call in the %s branch of bufferPackets, found %d", parserName, len(found)))
	}
	return found[0]
}

func c21IsV4Literal(l *Loader, parserName string) (any, error) {
	args := c21AddCalls(l, parserName)
	if len(args) != 6 {
		return nil, fmt.Errorf("buf.Add in the %s branch has %d arguments, expected 6", parserName, len(args))
	}
	switch args[3] {
	case "true":
		return true, nil
	case "false":
		return false, nil
	}
	return nil, fmt.Errorf("isIPv4 argument of buf.Add in the %s branch is not a boolean literal: %s", parserName, args[3])
}

// c21McCalls lists the calls on the managed capture (`mc.…`) in a Manager method, in source order.
func c21McCalls(l *Loader, fn string) []string {
	var out []string
	for _, c := range CallSeq(l, "pkg/capture", fn) {
		if strings.HasPrefix(c, "mc.") {
			out = append(out, c)
		}
	}
	return out
}

func init() {
	addTargets(Target{File: "Pause", Items: []Item{
		{Pkg: "pkg/capture/capturetypes", Kind: "const", Name: "ErrnoOK"},
		{Pkg: "pkg/capture/capturetypes", Kind: "const", Name: "ErrnoPacketFragmentIgnore"},
		{Pkg: "pkg/capture/capturetypes", Kind: "const", Name: "ErrnoInvalidIPHeader"},
		{Pkg: "pkg/capture/capturetypes", Kind: "const", Name: "ErrnoPacketTruncated"},
		{Pkg: "pkg/capture/capturetypes", Kind: "const", Name: "NumParsingErrors"},
		{Pkg: "pkg/capture/capturetypes", Kind: "const", Name: "DirectionReverts"},
		{Pkg: "pkg/capture/capturetypes", Kind: "func", Name: "ParsingErrno.ParsingFailed"},
	}})

	factExtractors["c21_add_args_v4"] = func(l *Loader) (any, error) { return c21AddCalls(l, "ParsePacketV4"), nil }
	factExtractors["c21_add_args_v6"] = func(l *Loader) (any, error) { return c21AddCalls(l, "ParsePacketV6"), nil }
	factExtractors["c21_add_isv4_v4"] = func(l *Loader) (any, error) { return c21IsV4Literal(l, "ParsePacketV4") }
	factExtractors["c21_add_isv4_v6"] = func(l *Loader) (any, error) { return c21IsV4Literal(l, "ParsePacketV6") }

	for name, fn := range map[string]string{
		"c21_process_skeleton":         "Capture.process",
		"c21_buffer_skeleton":          "Capture.bufferPackets",
		"c21_update_counters_skeleton": "Capture.updateParsingErrorCounters",
		"c21_status_skeleton":          "Capture.status",
		"c21_add_flow_v4_skeleton":     "Capture.addToFlowLogV4",
		"c21_add_flow_v6_skeleton":     "Capture.addToFlowLogV6",
		"c21_flow_update_skeleton":     "Flow.UpdateFlow",
		"c21_new_flow_skeleton":        "NewFlow",
		"c21_rotate_skeleton":          "FlowLog.transferAndAggregate",
		"c21_aggregate_skeleton":       "FlowLog.Aggregate",
		"c21_capture_rotate_skeleton":  "Capture.rotate",
		"c21_capture_flowmap_skeleton": "Capture.flowMap",
	} {
		fn := fn
		factExtractors[name] = func(l *Loader) (any, error) { return c21Skeleton(l, "pkg/capture", fn), nil }
	}
	factExtractors["c21_process_calls"] = func(l *Loader) (any, error) { return CallSeq(l, "pkg/capture", "Capture.process"), nil }
	factExtractors["c21_buffer_calls"] = func(l *Loader) (any, error) { return CallSeq(l, "pkg/capture", "Capture.bufferPackets"), nil }
	factExtractors["c21_holder_rotate"] = func(l *Loader) (any, error) { return c21McCalls(l, "Manager.rotate"), nil }
	// the ORDER of the simple statements of the lock holders (e.g. the statistics of a rotation are received
	// BEFORE the capture is unlocked: afterwards the capture goroutine updates the same counters)
	for name, fn := range map[string]string{"c21_holder_rotate_order": "Manager.rotate", "c21_holder_status_order": "Manager.Status", "c21_holder_query_order": "Manager.GetFlowMaps"} {
		fn := fn
		factExtractors[name] = func(l *Loader) (any, error) {
			_, fd := mustFunc(l, "pkg/capture", fn)
			var out []string
			ast.Inspect(fd.Body, func(n ast.Node) bool {
				switch x := n.(type) {
				case *ast.AssignStmt, *ast.ExprStmt, *ast.DeferStmt, *ast.SendStmt, *ast.GoStmt:
					t := srcText(l, x)
					if strings.Contains(t, "capLock") || strings.Contains(t, "<-") || strings.Contains(t, "fetchStatusInBackground") || strings.Contains(t, "mc.rotate") || strings.Contains(t, "mc.flowMap") || strings.Contains(t, "mc.status") {
						if len(t) > 160 {
							t = t[:160]
						}
						out = append(out, t)
					}
				}
				return true
			})
			return out, nil
		}
	}
	factExtractors["c21_holder_status"] = func(l *Loader) (any, error) { return c21McCalls(l, "Manager.Status"), nil }
	factExtractors["c21_holder_query"] = func(l *Loader) (any, error) { return c21McCalls(l, "Manager.GetFlowMaps"), nil }

	// slimcap's PacketOutgoing: position in the iota block of capture.PacketType
	factExtractors["c21_packet_outgoing"] = func(l *Loader) (any, error) {
		dir, err := l.modCacheDir("github.com/fako1024/slimcap")
		if err != nil {
			return nil, err
		}
		f, err := parser.ParseFile(token.NewFileSet(), filepath.Join(dir, "capture", "capture.go"), nil, 0)
		if err != nil {
			return nil, err
		}
		for _, d := range f.Decls {
			gd, ok := d.(*ast.GenDecl)
			if !ok || gd.Tok != token.CONST {
				continue
			}
			isBlock := false
			for i, sp := range gd.Specs {
				vs := sp.(*ast.ValueSpec)
				if i == 0 {
					id, ok := vs.Type.(*ast.Ident)
					if ok && id.Name == "PacketType" && len(vs.Values) == 1 {
						if v, ok := vs.Values[0].(*ast.Ident); ok && v.Name == "iota" {
							isBlock = true
						}
					}
				} else if len(vs.Values) != 0 || vs.Type != nil {
					isBlock = isBlock && false
				}
				if isBlock && len(vs.Names) == 1 && vs.Names[0].Name == "PacketOutgoing" {
					return i, nil
				}
			}
		}
		return nil, fmt.Errorf("PacketOutgoing not found in an iota block of slimcap capture.PacketType")
	}
}
