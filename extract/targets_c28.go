package main

// C28 — time arguments.
// Regenerated into Lean (Gen/TimeArgs.lean): the ordered layout lists the code tries
// (timeFormatsDefault ++ timeFormatsCustom) and the relative formats shown in the help text.
// Facts: the statement texts of the three functions the hand model (Model/C28.lean:
// parseTimeArgumentWith, parseRelative, parseTimeRange) is written from.

func init() {
	addTargets(Target{File: "TimeArgs", Items: []Item{
		{Pkg: "pkg/query", Kind: "var", Name: "timeFormatsDefault"},
		{Pkg: "pkg/query", Kind: "var", Name: "timeFormatsCustom"},
		{Pkg: "pkg/query", Kind: "var", Name: "timeFormatsRelative"},
	}})
	// LoadLocation("Local"), '-' => relative, ParseInt, then ParseInLocation over default++custom in order
	factExtractors["c28_parse_time_argument"] = func(l *Loader) (any, error) {
		return stmtTexts(l, "pkg/query", "ParseTimeArgument"), nil
	}
	// "" guards, time.Now() for the empty upper bound, first > last => invalid interval
	factExtractors["c28_parse_time_range"] = func(l *Loader) (any, error) {
		return stmtTexts(l, "pkg/query", "ParseTimeRange"), nil
	}
	factExtractors["c28_parse_time_range_collect"] = func(l *Loader) (any, error) {
		return stmtTexts(l, "pkg/query", "ParseTimeRangeCollectErrors"), nil
	}
	// leading '-', the ':' / 'd' case split, ParseInt / ParseDuration / int64(d.Seconds()), units d h m s
	factExtractors["c28_parse_relative_time"] = func(l *Loader) (any, error) {
		return stmtTexts(l, "pkg/query", "parseRelativeTime"), nil
	}
}
