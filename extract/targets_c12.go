package main

import (
	"go/ast"
	"strings"
)

// C12 — interface summaries. Regenerated into Lean: the statistics arithmetic and the day-directory
// arithmetic the model of ReadMetadata computes with. Facts: the shapes of the loops / tests that
// the hand-written part of the model (Model/C12.lean) transcribes.

func c12Body(l *Loader, pkg, fn string) string {
	_, fd := mustFunc(l, pkg, fn)
	return fn + ": " + srcText(l, fd.Body)
}

// c12IfConds lists the conditions of all if statements of fn (in source order) that do not
// mention an error value (plain error plumbing is not part of the modelled shape).
func c12IfConds(l *Loader, pkg, fn string) []string {
	_, fd := mustFunc(l, pkg, fn)
	var out []string
	ast.Inspect(fd.Body, func(n ast.Node) bool {
		if is, ok := n.(*ast.IfStmt); ok {
			c := srcText(l, is.Cond)
			if !strings.Contains(c, "err") {
				out = append(out, c)
			}
		}
		return true
	})
	return out
}

// c12Assigns lists "lhs = rhs" for the assignments of fn whose left-hand side starts with prefix.
func c12Assigns(l *Loader, pkg, fn, prefix string) []string {
	_, fd := mustFunc(l, pkg, fn)
	var out []string
	ast.Inspect(fd.Body, func(n ast.Node) bool {
		if as, ok := n.(*ast.AssignStmt); ok && len(as.Lhs) == 1 && len(as.Rhs) == 1 {
			lhs := srcText(l, as.Lhs[0])
			if strings.HasPrefix(lhs, prefix) {
				out = append(out, lhs+" "+as.Tok.String()+" "+srcText(l, as.Rhs[0]))
			}
		}
		return true
	})
	return out
}

func init() {
	addTargets(Target{File: "ListMeta", Items: []Item{
		{Pkg: "pkg/goDB/storage/gpfile", Kind: "func", Name: "TrafficMetadata.Add"},
		{Pkg: "pkg/goDB/storage/gpfile", Kind: "func", Name: "TrafficMetadata.Sub"},
		{Pkg: "pkg/goDB/storage/gpfile", Kind: "func", Name: "DirTimestamp"},
		{Pkg: "pkg/goDB/storage/gpfile", Kind: "const", Name: "EpochDay"},
		{Pkg: "pkg/goDB", Kind: "const", Name: "DBWriteInterval"},
	}})

	// loops of BlocksBefore / BlocksAfter (model: idxGE / idxGT?, blocksBefore / blocksAfter)
	factExtractors["c12_block_helpers"] = func(l *Loader) (any, error) {
		return []string{
			c12Body(l, "pkg/goDB/storage", "BlockHeader.BlocksBefore"),
			c12Body(l, "pkg/goDB/storage", "BlockHeader.BlocksAfter"),
		}, nil
	}
	// pointer-receiver arithmetic the translator cannot express (model: Counters.add/sub, Stats.add/sub)
	factExtractors["c12_stats_arith"] = func(l *Loader) (any, error) {
		return []string{
			c12Body(l, "pkg/types", "Counters.Add"),
			c12Body(l, "pkg/types", "Counters.Sub"),
			c12Body(l, "pkg/goDB/storage/gpfile", "Stats.Add"),
			c12Body(l, "pkg/goDB/storage/gpfile", "Stats.Sub"),
		}, nil
	}
	// directory tests of walkDB (model: selected, pruned)
	factExtractors["c12_walkdb_tests"] = func(l *Loader) (any, error) {
		return c12IfConds(l, "pkg/goDB", "DBWorkManager.walkDB"), nil
	}
	// branch structure of ReadMetadata (model: visit, lastDay) and what is handed to readMetadataAndEvaluate
	factExtractors["c12_readmetadata_tests"] = func(l *Loader) (any, error) {
		return c12IfConds(l, "pkg/goDB", "DBWorkManager.ReadMetadata"), nil
	}
	factExtractors["c12_readmetadata_evaluate_args"] = func(l *Loader) (any, error) {
		return CallArgs(l, "pkg/goDB", "DBWorkManager.ReadMetadata", "readMetadataAndEvaluate"), nil
	}
	factExtractors["c12_readmetadata_block_lists"] = func(l *Loader) (any, error) {
		_, fd := mustFunc(l, "pkg/goDB", "DBWorkManager.ReadMetadata")
		var out []string
		ast.Inspect(fd.Body, func(n ast.Node) bool {
			if c, ok := n.(*ast.CallExpr); ok {
				t := srcText(l, c)
				if strings.Contains(t, ".BlocksBefore(") || strings.Contains(t, ".BlocksAfter(") {
					if !strings.Contains(t, "readMetadataAndEvaluate") {
						out = append(out, t)
					}
				}
			}
			return true
		})
		return out, nil
	}
	// per-block statistics collected by readMetadataAndEvaluate (model: blockStats, evalSub)
	factExtractors["c12_evaluate_stats"] = func(l *Loader) (any, error) {
		out := c12Assigns(l, "pkg/goDB", "DBWorkManager.readMetadataAndEvaluate", "stats.")
		out = append(out, c12Assigns(l, "pkg/goDB", "DBWorkManager.readMetadataAndEvaluate", "ind")...)
		out = append(out, c12Assigns(l, "pkg/goDB", "DBWorkManager.readMetadataAndEvaluate", "aggMetadata.Stats")...)
		return out, nil
	}
	// running totals kept by the writer (model: writeDay)
	factExtractors["c12_writeblocks_totals"] = func(l *Loader) (any, error) {
		out := c12Assigns(l, "pkg/goDB/storage/gpfile", "GPDir.WriteBlocks", "d.Metadata.")
		out = append(out, CallArgs(l, "pkg/goDB/storage/gpfile", "GPDir.WriteBlocks", "d.Metadata.Counts.Add")...)
		return out, nil
	}
	// block selection of a query (model: queryTotals)
	factExtractors["c12_query_selection"] = func(l *Loader) (any, error) {
		var out []string
		for _, c := range c12IfConds(l, "pkg/goDB", "DBWorkManager.CreateWorkerJobs") {
			if strings.Contains(c, "dirFirst") || strings.Contains(c, "dirLast") {
				out = append(out, "CreateWorkerJobs: "+c)
			}
		}
		for _, c := range c12IfConds(l, "pkg/goDB", "DBWorkManager.readBlocksAndEvaluate") {
			if strings.Contains(c, "Covered") || strings.Contains(c, "Queried") {
				out = append(out, "readBlocksAndEvaluate: "+c)
			}
		}
		return out, nil
	}
}
