package main

func init() {
	// the order of directory operations the merge-commit model (Model/C25.lean) is written from,
	// and the readers whose treatment of leftover directories the property is about
	factExtractors["c25_commitStagedDay_calls"] = func(l *Loader) (any, error) {
		return CallSeq(l, "pkg/goDB", "commitStagedDay"), nil
	}
	factExtractors["c25_mergeDatabases_calls"] = func(l *Loader) (any, error) {
		return CallSeq(l, "pkg/goDB", "MergeDatabases"), nil
	}
	factExtractors["c25_listInterfaceDays_calls"] = func(l *Loader) (any, error) {
		return CallSeq(l, "pkg/goDB", "listInterfaceDays"), nil
	}
	factExtractors["c25_listSourceInterfaces_calls"] = func(l *Loader) (any, error) {
		return CallSeq(l, "pkg/goDB", "listSourceInterfaces"), nil
	}
	factExtractors["c25_getInterfaces_calls"] = func(l *Loader) (any, error) {
		return CallSeq(l, "pkg/goDB/info", "GetInterfaces"), nil
	}
	// the arguments of the two renames of the commit and of the hidden-directory test
	factExtractors["c25_commit_rename_args"] = func(l *Loader) (any, error) {
		return CallArgs(l, "pkg/goDB", "commitStagedDay", "os.Rename"), nil
	}
	factExtractors["c25_getInterfaces_hidden_args"] = func(l *Loader) (any, error) {
		return CallArgs(l, "pkg/goDB/info", "GetInterfaces", "strings.HasPrefix"), nil
	}
}
