package main

// Registry of the Go objects regenerated into Lean on every run (tie T). Each property
// registers its own targets and fact extractors from targets_cXX.go via init().

var targets []Target

var factExtractors = map[string]func(*Loader) (any, error){}

func addTargets(ts ...Target) { targets = append(targets, ts...) }
