package main

// The list of Go objects regenerated into Lean on every run (tie T).

var targets = []Target{
	{File: "TimeBin", Items: []Item{
		{Pkg: "pkg/results", Kind: "func", Name: "BinTimestamp"},
		{Pkg: "pkg/results", Kind: "func", Name: "CalcTimeBinSize"},
		{Pkg: "pkg/types", Kind: "const", Name: "DefaultTimeResolution"},
	}},
	{File: "Classify", Items: []Item{
		{Pkg: "pkg/capture/capturetypes", Kind: "func", Name: "ClassifyPacketDirectionV4"},
		{Pkg: "pkg/capture/capturetypes", Kind: "func", Name: "ClassifyPacketDirectionV6"},
		{Pkg: "pkg/capture/capturetypes", Kind: "func", Name: "EPHashV4.Reverse"},
		{Pkg: "pkg/capture/capturetypes", Kind: "func", Name: "EPHashV6.Reverse"},
		{Pkg: "pkg/capture/capturetypes", Kind: "func", Name: "EPHashV4.IsProbablyReverse"},
		{Pkg: "pkg/capture/capturetypes", Kind: "func", Name: "EPHashV6.IsProbablyReverse"},
	}},
	{File: "Enums", Items: []Item{
		{Pkg: "pkg/types", Kind: "func", Name: "Direction.String"},
		{Pkg: "pkg/types", Kind: "func", Name: "DirectionFromString"},
	}},
	{File: "MergePlan", Items: []Item{
		{Pkg: "pkg/goDB", Kind: "func", Name: "planDayMerge"},
	}},
}

var factExtractors = map[string]func(*Loader) (any, error){}
