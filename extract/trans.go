package main

// Translator for a pure subset of Go into Lean 4 definitions.
//
// Supported: const/var decls, assignment to locals / struct fields / array elements,
// if/else, switch (tag or tagless, no fallthrough/break), return, inc/dec, copy() between
// byte-array slices, arithmetic / comparison / boolean / bit operators, conversions between
// integer types, calls of other translatable functions of the repo (translated on demand),
// struct literals, composite literals of slices/maps (as lists), len of strings/arrays.
// Also: time.Time / netip.Addr values and their comparison methods (modelled by Base/GoStd.lean),
// == / != on structs all of whose fields are modelled, function-typed results given as function
// literals (-> Lean lambdas), and a trailing panic() (the function then returns Option); values of
// the predeclared type `error` as Bool (non-nil?), with fmt.Errorf / errors.New as `true`.
// Anything else is an extraction error (= broken tie, reported by bin/check).
//
// Semantics chosen (recorded in the trusted base):
//   signed ints  -> Int,   `/` -> Int.tdiv, `%` -> Int.tmod (Go truncated division); no wrap
//   unsigned     -> Nat,   `-` wraps modulo 2^w faithfully; `+`,`*` do not wrap (assumed in range)
//   bool         -> Bool in value position, Prop in `if` conditions
//   [N]byte, []byte -> Nat → Nat (index ↦ byte); index safety is NOT modelled here
//   [N]bool and nested [N]...[M]bool lookup tables -> Nat → ... → Bool (keyed / positional array
//                     literals become if-chains, unset elements are false); index safety NOT modelled
//   struct       -> Lean structure over the translatable fields
//   (time.Duration).Seconds() -> Int.tdiv d 1000000000   (exact for whole seconds < 2^53 ns)

import (
	"fmt"
	"go/ast"
	"go/constant"
	"go/token"
	"go/types"
	"sort"
	"strings"
)

type Tr struct {
	l       *Loader
	ns      string
	out     []string          // emitted top-level Lean items, in order
	done    map[string]string // key -> lean name (functions, structs)
	inProg  map[string]bool
	Assume  map[string]bool // semantic assumptions actually used
	errs    []string
	names   map[types.Object]string
	used    map[string]types.Object
	results []*types.Var // named results of the function being translated
	curPkg  *Pkg
	curFn   *types.Signature
	optRet  bool            // the function being translated may panic: results are wrapped in Option
	panics  map[string]bool // func key -> translated with an Option result
	imports map[string]bool // extra Lean imports needed by the generated file
	frag    *fragCtx        // non-nil while a function fragment is translated (frag.go)
}

// extType maps the few standard-library value types that have a hand-written Lean model
// (lean/GoProbeModel/Base/GoStd.lean) to their Lean names.
func extType(ty types.Type) string {
	n, ok := ty.(*types.Named)
	if !ok || n.Obj().Pkg() == nil {
		return ""
	}
	switch n.Obj().Pkg().Path() + "." + n.Obj().Name() {
	case "time.Time":
		return "GoStd.Time"
	case "net/netip.Addr":
		return "GoStd.Addr"
	}
	return ""
}

// extMethods lists the modelled methods of the external types
var extMethods = map[string]bool{
	"GoStd.Time.Before": true, "GoStd.Time.After": true, "GoStd.Time.Equal": true,
	"GoStd.Addr.Less": true, "GoStd.Addr.IsValid": true,
}

func NewTr(l *Loader, ns string) *Tr {
	return &Tr{l: l, ns: ns, done: map[string]string{}, inProg: map[string]bool{}, Assume: map[string]bool{},
		panics: map[string]bool{}, imports: map[string]bool{}}
}

type trErr struct{ msg string }

func (t *Tr) fail(pos token.Pos, f string, a ...any) {
	panic(trErr{fmt.Sprintf("%s: %s", t.l.Fset.Position(pos), fmt.Sprintf(f, a...))})
}

func isUnsigned(b *types.Basic) bool { return b.Info()&types.IsUnsigned != 0 }

func bitWidth(b *types.Basic) int {
	switch b.Kind() {
	case types.Uint8, types.Int8:
		return 8
	case types.Uint16, types.Int16:
		return 16
	case types.Uint32, types.Int32:
		return 32
	default:
		return 64
	}
}

// the predeclared interface type `error` is modelled by whether the value is non-nil
const errorAssumption = "error values are modelled by a Bool (true = a non-nil error is returned); fmt.Errorf / errors.New always return non-nil; the error text is not modelled"

func isErrorType(ty types.Type) bool { return types.Identical(ty, types.Universe.Lookup("error").Type()) }

func isByteSeq(t types.Type) bool {
	switch u := t.Underlying().(type) {
	case *types.Array:
		b, ok := u.Elem().Underlying().(*types.Basic)
		return ok && b.Kind() == types.Uint8
	case *types.Slice:
		b, ok := u.Elem().Underlying().(*types.Basic)
		return ok && b.Kind() == types.Uint8
	}
	return false
}

// isBoolTable: a fixed-size array of bool, or of such arrays (lookup tables like commonPorts).
func isBoolTable(t types.Type) bool {
	a, ok := t.Underlying().(*types.Array)
	if !ok {
		return false
	}
	if b, ok := a.Elem().Underlying().(*types.Basic); ok {
		return b.Info()&types.IsBoolean != 0
	}
	return isBoolTable(a.Elem())
}

func (t *Tr) leanType(ty types.Type, pos token.Pos) string {
	if isByteSeq(ty) {
		return "(Nat → Nat)"
	}
	if e := extType(ty); e != "" {
		t.imports["GoProbeModel.Base.GoStd"] = true
		t.Assume["time.Time / netip.Addr are modelled by GoStd.Time (instant, location id) / GoStd.Addr (bit length, value, zone); == is structural, Before/After/Equal compare the instant, Addr.Less is netip's Compare order"] = true
		return e
	}
	if isBoolTable(ty) {
		return "(Nat → " + t.leanType(ty.Underlying().(*types.Array).Elem(), pos) + ")"
	}
	if isErrorType(ty) {
		t.Assume[errorAssumption] = true
		return "Bool"
	}
	switch u := ty.Underlying().(type) {
	case *types.Signature:
		if u.Recv() == nil && !u.Variadic() && u.Results().Len() == 1 && u.Params().Len() > 0 {
			var ps []string
			for i := 0; i < u.Params().Len(); i++ {
				ps = append(ps, t.leanType(u.Params().At(i).Type(), pos))
			}
			return "(" + strings.Join(ps, " → ") + " → " + t.leanType(u.Results().At(0).Type(), pos) + ")"
		}
	case *types.Basic:
		switch {
		case u.Info()&types.IsBoolean != 0:
			return "Bool"
		case u.Info()&types.IsString != 0:
			return "String"
		case u.Info()&types.IsInteger != 0:
			if isUnsigned(u) {
				return "Nat"
			}
			return "Int"
		}
	case *types.Struct:
		if n, ok := ty.(*types.Named); ok {
			return t.structFor(n, pos)
		}
	case *types.Pointer:
		if _, ok := u.Elem().Underlying().(*types.Struct); ok {
			t.Assume["pointer-to-struct parameters are modelled by value"] = true
			return t.leanType(u.Elem(), pos)
		}
	case *types.Slice:
		return "(List " + t.leanType(u.Elem(), pos) + ")"
	case *types.Array:
		return "(List " + t.leanType(u.Elem(), pos) + ")"
	case *types.Map:
		return "(List (" + t.leanType(u.Key(), pos) + " × " + t.leanType(u.Elem(), pos) + "))"
	}
	t.fail(pos, "unsupported type %s", ty)
	return ""
}

func (t *Tr) translatableType(ty types.Type) (ok bool) {
	defer func() {
		if r := recover(); r != nil {
			if _, is := r.(trErr); is {
				ok = false
				return
			}
			panic(r)
		}
	}()
	t.leanType(ty, token.NoPos)
	return true
}

func (t *Tr) structFor(n *types.Named, pos token.Pos) string {
	key := "struct:" + n.Obj().Pkg().Path() + "." + n.Obj().Name()
	if name, ok := t.done[key]; ok {
		return name
	}
	name := n.Obj().Name()
	t.done[key] = name
	st := n.Underlying().(*types.Struct)
	var fields []string
	hasFn := false
	for i := 0; i < st.NumFields(); i++ {
		f := st.Field(i)
		if !t.translatableType(f.Type()) {
			continue
		}
		lt := t.leanType(f.Type(), pos)
		if strings.Contains(lt, "→") {
			hasFn = true
		}
		fields = append(fields, fmt.Sprintf("  %s : %s", leanIdent(f.Name()), lt))
	}
	deriv := "deriving Repr, DecidableEq, Inhabited"
	if hasFn {
		deriv = "deriving Inhabited"
	}
	if len(fields) == 0 {
		fields = []string{"  unit : Unit := ()"}
	}
	t.out = append(t.out, fmt.Sprintf("structure %s where\n%s\n%s\n", name, strings.Join(fields, "\n"), deriv))
	return name
}

func (t *Tr) zero(ty types.Type, pos token.Pos) string {
	if isByteSeq(ty) {
		return "(fun _ => 0)"
	}
	if e := extType(ty); e != "" {
		return "(default : " + e + ")"
	}
	if isBoolTable(ty) {
		return "(fun _ => " + t.zero(ty.Underlying().(*types.Array).Elem(), pos) + ")"
	}
	if isErrorType(ty) {
		return "false"
	}
	switch u := ty.Underlying().(type) {
	case *types.Basic:
		switch {
		case u.Info()&types.IsBoolean != 0:
			return "false"
		case u.Info()&types.IsString != 0:
			return "\"\""
		case u.Info()&types.IsInteger != 0:
			if isUnsigned(u) {
				return "(0 : Nat)"
			}
			return "(0 : Int)"
		}
	case *types.Struct:
		n, ok := ty.(*types.Named)
		if !ok {
			break
		}
		t.structFor(n, pos)
		var fs []string
		for i := 0; i < u.NumFields(); i++ {
			f := u.Field(i)
			if !t.translatableType(f.Type()) {
				continue
			}
			fs = append(fs, fmt.Sprintf("%s := %s", leanIdent(f.Name()), t.zero(f.Type(), pos)))
		}
		if len(fs) == 0 {
			return "({} : " + n.Obj().Name() + ")"
		}
		return "({ " + strings.Join(fs, ", ") + " } : " + n.Obj().Name() + ")"
	case *types.Slice, *types.Map:
		return "[]"
	case *types.Pointer:
		return t.zero(u.Elem(), pos)
	}
	t.fail(pos, "no zero value for %s", ty)
	return ""
}

var leanKeywords = map[string]bool{"end": true, "from": true, "at": true, "in": true, "by": true, "then": true,
	"else": true, "do": true, "fun": true, "let": true, "have": true, "show": true, "with": true, "where": true,
	"open": true, "instance": true, "def": true, "theorem": true, "match": true, "if": true, "then_": true,
	"Type": true, "Prop": true, "Sort": true, "namespace": true, "section": true, "variable": true, "structure": true,
	"class": true, "local": true, "private": true, "protected": true, "mutual": true, "import": true, "export": true,
	"prefix": true, "infix": true, "notation": true, "macro": true, "syntax": true, "using": true, "calc": true,
	"rec": true, "partial": true, "unsafe": true, "noncomputable": true, "abbrev": true, "axiom": true, "example": true,
	"for": true, "unless": true, "return": true, "try": true, "catch": true, "finally": true, "mut": true, "deriving": true,
	"extends": true, "inductive": true, "opaque": true, "universe": true, "hiding": true, "renaming": true, "attribute": true,
	"set_option": true, "nomatch": true, "nofun": true, "suffices": true, "obtain": true, "termination_by": true, "decreasing_by": true}

func leanIdent(s string) string {
	if leanKeywords[s] {
		return s + "_"
	}
	return s
}

func (t *Tr) nameOf(obj types.Object) string {
	if n, ok := t.names[obj]; ok {
		return n
	}
	base := leanIdent(obj.Name())
	n := base
	for i := 1; ; i++ {
		if o, taken := t.used[n]; !taken || o == obj {
			break
		}
		n = fmt.Sprintf("%s_%d", base, i)
	}
	t.names[obj] = n
	t.used[n] = obj
	return n
}

func (t *Tr) constLit(tv types.TypeAndValue, pos token.Pos) string {
	v := tv.Value
	switch v.Kind() {
	case constant.Bool:
		if constant.BoolVal(v) {
			return "true"
		}
		return "false"
	case constant.String:
		return leanString(constant.StringVal(v))
	case constant.Int:
		s := v.ExactString()
		lt := "Int"
		if b, ok := tv.Type.Underlying().(*types.Basic); ok && isUnsigned(b) {
			lt = "Nat"
		}
		if strings.HasPrefix(s, "-") {
			return "(" + s + " : Int)"
		}
		return "(" + s + " : " + lt + ")"
	}
	t.fail(pos, "unsupported constant kind %v", v.Kind())
	return ""
}

func leanString(s string) string {
	var b strings.Builder
	b.WriteByte('"')
	for _, r := range s {
		switch {
		case r == '"':
			b.WriteString("\\\"")
		case r == '\\':
			b.WriteString("\\\\")
		case r == '\n':
			b.WriteString("\\n")
		case r == '\t':
			b.WriteString("\\t")
		case r == '\r':
			b.WriteString("\\r")
		case r < 32 || r == 127:
			fmt.Fprintf(&b, "\\x%02x", r)
		default:
			b.WriteRune(r)
		}
	}
	b.WriteByte('"')
	return b.String()
}

func (t *Tr) info() *types.Info { return t.curPkg.Info }

func (t *Tr) typeOf(e ast.Expr) types.Type {
	tv, ok := t.info().Types[e]
	if !ok || tv.Type == nil {
		if id, ok := e.(*ast.Ident); ok {
			if o := t.info().Uses[id]; o != nil {
				return o.Type()
			}
			if o := t.info().Defs[id]; o != nil {
				return o.Type()
			}
		}
		t.fail(e.Pos(), "no type information for expression")
	}
	return tv.Type
}

func isBoolType(ty types.Type) bool {
	b, ok := ty.Underlying().(*types.Basic)
	return ok && b.Info()&types.IsBoolean != 0
}

// prop translates a boolean Go expression to a Lean Prop.
func (t *Tr) prop(e ast.Expr) string {
	if tv, ok := t.info().Types[e]; ok && tv.Value != nil && tv.Value.Kind() == constant.Bool {
		if constant.BoolVal(tv.Value) {
			return "True"
		}
		return "False"
	}
	switch x := e.(type) {
	case *ast.ParenExpr:
		return t.prop(x.X)
	case *ast.UnaryExpr:
		if x.Op == token.NOT {
			return "(¬ " + t.prop(x.X) + ")"
		}
	case *ast.BinaryExpr:
		switch x.Op {
		case token.LAND:
			return "(" + t.prop(x.X) + " ∧ " + t.prop(x.Y) + ")"
		case token.LOR:
			return "(" + t.prop(x.X) + " ∨ " + t.prop(x.Y) + ")"
		case token.EQL, token.NEQ, token.LSS, token.LEQ, token.GTR, token.GEQ:
			t.checkComparable(t.typeOf(x.X), x.Pos())
			op := map[token.Token]string{token.EQL: "=", token.NEQ: "≠", token.LSS: "<", token.LEQ: "≤", token.GTR: ">", token.GEQ: "≥"}[x.Op]
			return "(" + t.expr(x.X) + " " + op + " " + t.expr(x.Y) + ")"
		}
	}
	return "(" + t.expr(e) + " = true)"
}

// checkComparable refuses == / != on structs of which some field is not modelled (the Lean
// structure would then identify values Go distinguishes).
func (t *Tr) checkComparable(ty types.Type, pos token.Pos) {
	if extType(ty) != "" {
		return
	}
	if st, ok := ty.Underlying().(*types.Struct); ok {
		for i := 0; i < st.NumFields(); i++ {
			f := st.Field(i)
			if !t.translatableType(f.Type()) {
				t.fail(pos, "comparison of struct %s whose field %s is not modelled", ty, f.Name())
			}
			t.checkComparable(f.Type(), pos)
		}
	}
}

// funcLit translates a function literal (a closure over immutable locals) to a Lean lambda.
func (t *Tr) funcLit(x *ast.FuncLit) string {
	sig, ok := t.typeOf(x).Underlying().(*types.Signature)
	if !ok || sig.Results().Len() != 1 || sig.Params().Len() == 0 {
		t.fail(x.Pos(), "unsupported function literal shape")
	}
	ast.Inspect(x.Body, func(n ast.Node) bool {
		switch n.(type) {
		case *ast.AssignStmt, *ast.IncDecStmt, *ast.GoStmt, *ast.DeferStmt, *ast.ForStmt, *ast.RangeStmt:
			t.fail(n.Pos(), "function literal with assignments/loops is not supported")
		}
		return true
	})
	savedFn, savedRes, savedOpt := t.curFn, t.results, t.optRet
	t.curFn, t.results, t.optRet = sig, nil, false
	var ps []string
	for i := 0; i < sig.Params().Len(); i++ {
		v := sig.Params().At(i)
		if v.Name() == "" || v.Name() == "_" {
			ps = append(ps, fmt.Sprintf("(_ : %s)", t.leanType(v.Type(), x.Pos())))
		} else {
			ps = append(ps, fmt.Sprintf("(%s : %s)", t.nameOf(v), t.leanType(v.Type(), x.Pos())))
		}
	}
	body := t.stmts(x.Body.List, 4)
	t.curFn, t.results, t.optRet = savedFn, savedRes, savedOpt
	return "(fun " + strings.Join(ps, " ") + " =>\n" + body + ")"
}

func (t *Tr) expr(e ast.Expr) string {
	if tv, ok := t.info().Types[e]; ok && tv.Value != nil {
		return t.constLit(tv, e.Pos())
	}
	if t.frag != nil {
		if n, ok := t.frag.opaqueParam(t, e); ok {
			return n
		}
	}
	switch x := e.(type) {
	case *ast.ParenExpr:
		return t.expr(x.X)
	case *ast.Ident:
		obj := t.info().Uses[x]
		if obj == nil {
			obj = t.info().Defs[x]
		}
		if obj == nil {
			t.fail(x.Pos(), "unresolved identifier %s", x.Name)
		}
		switch o := obj.(type) {
		case *types.Var:
			if o.Parent() == o.Pkg().Scope() {
				return t.globalVar(o, x.Pos())
			}
			if t.frag != nil {
				t.frag.freeVar(t, o)
			}
			return t.nameOf(o)
		case *types.Nil:
			if tv, ok := t.info().Types[x]; ok && tv.Type != nil && isErrorType(tv.Type) {
				return "false"
			}
			return "[]"
		}
		t.fail(x.Pos(), "unsupported identifier %s (%T)", x.Name, obj)
	case *ast.UnaryExpr:
		switch x.Op {
		case token.NOT:
			return "(decide " + t.prop(e) + ")"
		case token.SUB:
			return "(- " + t.expr(x.X) + ")"
		case token.AND:
			// &T{...} : by value
			t.Assume["pointer-to-struct parameters are modelled by value"] = true
			return t.expr(x.X)
		}
	case *ast.StarExpr:
		t.Assume["pointer-to-struct parameters are modelled by value"] = true
		return t.expr(x.X)
	case *ast.BinaryExpr:
		return t.binary(x)
	case *ast.IndexExpr:
		xt := t.typeOf(x.X)
		if isByteSeq(xt) || isBoolTable(xt) {
			return "(" + t.expr(x.X) + " " + t.natIndex(x.Index) + ")"
		}
		t.fail(x.Pos(), "unsupported index expression on %s", xt)
	case *ast.SliceExpr:
		xt := t.typeOf(x.X)
		if isByteSeq(xt) {
			lo := "0"
			if x.Low != nil {
				lo = t.natIndex(x.Low)
			}
			return "(fun i_ => " + t.expr(x.X) + " (" + lo + " + i_))"
		}
		t.fail(x.Pos(), "unsupported slice expression on %s", xt)
	case *ast.SelectorExpr:
		if sel, ok := t.info().Selections[x]; ok && sel.Kind() == types.FieldVal {
			return "(" + t.expr(x.X) + ")." + leanIdent(x.Sel.Name)
		}
		// qualified identifier pkg.Var
		if obj := t.info().Uses[x.Sel]; obj != nil {
			if v, ok := obj.(*types.Var); ok {
				return t.globalVar(v, x.Pos())
			}
		}
		t.fail(x.Pos(), "unsupported selector %s", x.Sel.Name)
	case *ast.CallExpr:
		return t.call(x)
	case *ast.CompositeLit:
		return t.composite(x)
	case *ast.FuncLit:
		return t.funcLit(x)
	case *ast.BasicLit:
		t.fail(x.Pos(), "literal without constant value")
	}
	t.fail(e.Pos(), "unsupported expression %T", e)
	return ""
}

// natIndex renders an index expression as a Nat term.
func (t *Tr) natIndex(e ast.Expr) string {
	if tv, ok := t.info().Types[e]; ok && tv.Value != nil && tv.Value.Kind() == constant.Int {
		return tv.Value.ExactString()
	}
	ty := t.typeOf(e)
	if b, ok := ty.Underlying().(*types.Basic); ok && b.Info()&types.IsInteger != 0 {
		if isUnsigned(b) {
			return t.expr(e)
		}
		return "(Int.toNat " + t.expr(e) + ")"
	}
	t.fail(e.Pos(), "unsupported index type")
	return ""
}

func (t *Tr) globalVar(v *types.Var, pos token.Pos) string {
	key := "var:" + v.Pkg().Path() + "." + v.Name()
	if n, ok := t.done[key]; ok {
		return n
	}
	rel := strings.TrimPrefix(strings.TrimPrefix(v.Pkg().Path(), repoModule), "/")
	p, err := t.l.Load(rel)
	if err != nil {
		t.fail(pos, "cannot load %s: %v", v.Pkg().Path(), err)
	}
	vs, idx := p.FindValue(v.Name())
	if vs == nil || idx >= len(vs.Values) {
		t.fail(pos, "no initialiser for package variable %s", v.Name())
	}
	name := leanIdent(v.Name())
	t.done[key] = name
	saved := t.save()
	t.curPkg = p
	t.names = map[types.Object]string{}
	t.used = map[string]types.Object{}
	body := t.expr(vs.Values[idx])
	lt := t.leanType(v.Type(), pos)
	t.restore(saved)
	t.out = append(t.out, fmt.Sprintf("/-- Go: var %s (%s) -/\ndef %s : %s :=\n  %s\n", v.Name(), t.l.Fset.Position(vs.Pos()), name, lt, body))
	return name
}

type savedCtx struct {
	pkg     *Pkg
	names   map[types.Object]string
	used    map[string]types.Object
	results []*types.Var
	fn      *types.Signature
}

func (t *Tr) save() savedCtx { return savedCtx{t.curPkg, t.names, t.used, t.results, t.curFn} }
func (t *Tr) restore(s savedCtx) {
	t.curPkg, t.names, t.used, t.results, t.curFn = s.pkg, s.names, s.used, s.results, s.fn
}

func (t *Tr) binary(x *ast.BinaryExpr) string {
	switch x.Op {
	case token.LAND, token.LOR, token.EQL, token.NEQ, token.LSS, token.LEQ, token.GTR, token.GEQ:
		return "(decide " + t.prop(x) + ")"
	}
	ty := t.typeOf(x)
	b, ok := ty.Underlying().(*types.Basic)
	if !ok {
		t.fail(x.Pos(), "binary operator on non-basic type %s", ty)
	}
	l, r := t.expr(x.X), t.expr(x.Y)
	if b.Info()&types.IsString != 0 && x.Op == token.ADD {
		return "(" + l + " ++ " + r + ")"
	}
	if b.Info()&types.IsInteger == 0 {
		t.fail(x.Pos(), "binary operator on unsupported type %s", ty)
	}
	if isUnsigned(b) {
		w := bitWidth(b)
		switch x.Op {
		case token.ADD:
			t.Assume["unsigned + and * are assumed not to overflow"] = true
			return "(" + l + " + " + r + ")"
		case token.MUL:
			t.Assume["unsigned + and * are assumed not to overflow"] = true
			return "(" + l + " * " + r + ")"
		case token.SUB:
			return fmt.Sprintf("((%s + 2^%d - %s) %% 2^%d)", l, w, r, w)
		case token.QUO:
			return "(" + l + " / " + r + ")"
		case token.REM:
			return "(" + l + " % " + r + ")"
		case token.AND:
			return "(" + l + " &&& " + r + ")"
		case token.OR:
			return "(" + l + " ||| " + r + ")"
		case token.XOR:
			return "(" + l + " ^^^ " + r + ")"
		case token.SHL:
			return fmt.Sprintf("((%s <<< %s) %% 2^%d)", l, t.natIndex(x.Y), w)
		case token.SHR:
			return "(" + l + " >>> " + t.natIndex(x.Y) + ")"
		case token.AND_NOT:
			return fmt.Sprintf("(%s &&& ((2^%d - 1) ^^^ %s))", l, w, r)
		}
	} else {
		t.Assume["signed arithmetic is modelled over unbounded Int (no wrap-around)"] = true
		switch x.Op {
		case token.ADD:
			return "(" + l + " + " + r + ")"
		case token.SUB:
			return "(" + l + " - " + r + ")"
		case token.MUL:
			return "(" + l + " * " + r + ")"
		case token.QUO:
			return "(Int.tdiv " + l + " " + r + ")"
		case token.REM:
			return "(Int.tmod " + l + " " + r + ")"
		}
	}
	t.fail(x.Pos(), "unsupported operator %s on %s", x.Op, ty)
	return ""
}

func (t *Tr) convert(to types.Type, arg ast.Expr, pos token.Pos) string {
	from := t.typeOf(arg)
	a := t.expr(arg)
	tb, ok1 := to.Underlying().(*types.Basic)
	fb, ok2 := from.Underlying().(*types.Basic)
	if ok1 && ok2 && tb.Info()&types.IsInteger != 0 && !isUnsigned(tb) && fb.Info()&types.IsFloat != 0 {
		// only the float produced by (time.Duration).Seconds() is supported; it is rendered as an Int already
		if c, ok := ast.Unparen(arg).(*ast.CallExpr); ok {
			if se, ok := c.Fun.(*ast.SelectorExpr); ok && se.Sel.Name == "Seconds" && strings.HasPrefix(a, "(Int.tdiv ") {
				return a
			}
		}
	}
	if ok1 && ok2 && tb.Info()&types.IsInteger != 0 && fb.Info()&types.IsInteger != 0 {
		switch {
		case isUnsigned(tb) && isUnsigned(fb):
			if bitWidth(tb) < bitWidth(fb) {
				return fmt.Sprintf("(%s %% 2^%d)", a, bitWidth(tb))
			}
			return a
		case !isUnsigned(tb) && isUnsigned(fb):
			if bitWidth(tb) <= bitWidth(fb) {
				t.Assume["unsigned→signed conversions of equal width are assumed in range"] = true
			}
			return "(Int.ofNat " + a + ")"
		case isUnsigned(tb) && !isUnsigned(fb):
			return fmt.Sprintf("(Int.toNat (Int.emod %s (2^%d)))", a, bitWidth(tb))
		default:
			if bitWidth(tb) < bitWidth(fb) {
				t.Assume["narrowing signed conversions are assumed in range"] = true
			}
			return a
		}
	}
	if ok1 && ok2 && tb.Info()&types.IsString != 0 && fb.Info()&types.IsString != 0 {
		return a
	}
	if types.Identical(to.Underlying(), from.Underlying()) {
		return a
	}
	t.fail(pos, "unsupported conversion %s -> %s", from, to)
	return ""
}

func (t *Tr) call(c *ast.CallExpr) string {
	// conversion?
	if tv, ok := t.info().Types[c.Fun]; ok && tv.IsType() {
		if len(c.Args) != 1 {
			t.fail(c.Pos(), "bad conversion")
		}
		return t.convert(tv.Type, c.Args[0], c.Pos())
	}
	// builtins
	if id, ok := c.Fun.(*ast.Ident); ok {
		if _, isB := t.info().Uses[id].(*types.Builtin); isB {
			switch id.Name {
			case "len":
				at := t.typeOf(c.Args[0])
				if b, ok := at.Underlying().(*types.Basic); ok && b.Info()&types.IsString != 0 {
					return "(Int.ofNat " + t.expr(c.Args[0]) + ".utf8ByteSize)"
				}
				if _, ok := at.Underlying().(*types.Slice); ok && !isByteSeq(at) {
					return "(Int.ofNat " + t.expr(c.Args[0]) + ".length)"
				}
			case "min", "max":
				if len(c.Args) == 2 {
					return "(" + id.Name + " " + t.expr(c.Args[0]) + " " + t.expr(c.Args[1]) + ")"
				}
			}
			t.fail(c.Pos(), "unsupported builtin %s", id.Name)
		}
	}
	var fobj *types.Func
	var recv ast.Expr
	switch f := c.Fun.(type) {
	case *ast.Ident:
		fobj, _ = t.info().Uses[f].(*types.Func)
	case *ast.SelectorExpr:
		if sel, ok := t.info().Selections[f]; ok {
			fobj, _ = sel.Obj().(*types.Func)
			recv = f.X
		} else {
			fobj, _ = t.info().Uses[f.Sel].(*types.Func)
		}
	}
	if fobj == nil {
		t.fail(c.Pos(), "unsupported call target")
	}
	// specials
	if fobj.Pkg() != nil && fobj.Pkg().Path() == "time" && fobj.Name() == "Seconds" && recv != nil {
		t.Assume["(time.Duration).Seconds() is modelled as truncating integer division by 10^9 (exact for whole-second durations below 2^53 ns)"] = true
		return "(Int.tdiv " + t.expr(recv) + " 1000000000)"
	}
	if recv != nil {
		if e := extType(t.typeOf(recv)); e != "" && extMethods[e+"."+fobj.Name()] {
			args := []string{t.expr(recv)}
			for _, a := range c.Args {
				args = append(args, t.expr(a))
			}
			return "(" + e + "." + fobj.Name() + " " + strings.Join(args, " ") + ")"
		}
	}
	if fobj.Pkg() != nil && (fobj.FullName() == "fmt.Errorf" || fobj.FullName() == "errors.New") {
		t.Assume[errorAssumption] = true
		return "true"
	}
	if fobj.Pkg() == nil || !strings.HasPrefix(fobj.Pkg().Path(), repoModule) {
		t.fail(c.Pos(), "call to non-repo function %s", fobj.FullName())
	}
	name := t.funcFor(fobj, c.Pos())
	if t.panics["func:"+funcKey(fobj)] {
		t.fail(c.Pos(), "call to %s, which may panic (Option result), is not supported", fobj.Name())
	}
	var args []string
	if recv != nil {
		args = append(args, t.expr(recv))
	}
	for _, a := range c.Args {
		args = append(args, t.expr(a))
	}
	if len(args) == 0 {
		return name
	}
	return "(" + name + " " + strings.Join(args, " ") + ")"
}

func funcKey(f *types.Func) string {
	sig := f.Type().(*types.Signature)
	if r := sig.Recv(); r != nil {
		rt := r.Type()
		if p, ok := rt.(*types.Pointer); ok {
			rt = p.Elem()
		}
		if n, ok := rt.(*types.Named); ok {
			return f.Pkg().Path() + "." + n.Obj().Name() + "." + f.Name()
		}
	}
	return f.Pkg().Path() + "." + f.Name()
}

func (t *Tr) funcFor(f *types.Func, pos token.Pos) string {
	key := "func:" + funcKey(f)
	if n, ok := t.done[key]; ok {
		if t.inProg[key] {
			t.fail(pos, "recursive function %s", f.Name())
		}
		return n
	}
	rel := strings.TrimPrefix(strings.TrimPrefix(f.Pkg().Path(), repoModule), "/")
	p, err := t.l.Load(rel)
	if err != nil {
		t.fail(pos, "cannot load %s: %v", f.Pkg().Path(), err)
	}
	short := strings.TrimPrefix(funcKey(f), f.Pkg().Path()+".")
	fd := p.FindFunc(short)
	if fd == nil || fd.Body == nil {
		t.fail(pos, "no body for %s", short)
	}
	return t.Func(p, fd, "")
}

func (t *Tr) composite(c *ast.CompositeLit) string {
	ty := t.typeOf(c)
	switch u := ty.Underlying().(type) {
	case *types.Struct:
		n, ok := ty.(*types.Named)
		if !ok {
			t.fail(c.Pos(), "anonymous struct literal")
		}
		t.structFor(n, c.Pos())
		given := map[string]string{}
		for i, el := range c.Elts {
			if kv, ok := el.(*ast.KeyValueExpr); ok {
				fname := kv.Key.(*ast.Ident).Name
				var ft types.Type
				for j := 0; j < u.NumFields(); j++ {
					if u.Field(j).Name() == fname {
						ft = u.Field(j).Type()
					}
				}
				if ft == nil || !t.translatableType(ft) {
					t.fail(kv.Pos(), "struct literal sets untranslatable field %s", fname)
				}
				given[fname] = t.expr(kv.Value)
			} else {
				given[u.Field(i).Name()] = t.expr(el)
			}
		}
		var fs []string
		for j := 0; j < u.NumFields(); j++ {
			f := u.Field(j)
			if !t.translatableType(f.Type()) {
				continue
			}
			v, ok := given[f.Name()]
			if !ok {
				v = t.zero(f.Type(), c.Pos())
			}
			fs = append(fs, leanIdent(f.Name())+" := "+v)
		}
		return "({ " + strings.Join(fs, ", ") + " } : " + n.Obj().Name() + ")"
	case *types.Slice, *types.Array:
		if isBoolTable(ty) {
			// sparse lookup table: if-chain over the (constant) element indices, default = zero value
			arr := u.(*types.Array)
			var b strings.Builder
			b.WriteString("(fun i_ => ")
			next := int64(0)
			for _, el := range c.Elts {
				val := el
				if kv, ok := el.(*ast.KeyValueExpr); ok {
					tv, ok := t.info().Types[kv.Key]
					if !ok || tv.Value == nil || tv.Value.Kind() != constant.Int {
						t.fail(kv.Pos(), "non-constant key in array literal")
					}
					k, _ := constant.Int64Val(tv.Value)
					next, val = k, kv.Value
				}
				if next < 0 || next >= arr.Len() {
					t.fail(el.Pos(), "array literal index %d out of range", next)
				}
				fmt.Fprintf(&b, "if i_ = %d then %s else ", next, t.elt(val))
				next++
			}
			b.WriteString(t.zero(arr.Elem(), c.Pos()) + ")")
			return b.String()
		}
		var els []string
		for _, el := range c.Elts {
			if _, ok := el.(*ast.KeyValueExpr); ok {
				t.fail(el.Pos(), "keyed slice literal")
			}
			els = append(els, t.elt(el))
		}
		return "[" + strings.Join(els, ", ") + "]"
	case *types.Map:
		var els []string
		for _, el := range c.Elts {
			kv := el.(*ast.KeyValueExpr)
			els = append(els, "("+t.elt(kv.Key)+", "+t.elt(kv.Value)+")")
		}
		return "[" + strings.Join(els, ",\n   ") + "]"
	}
	t.fail(c.Pos(), "unsupported composite literal of %s", ty)
	return ""
}

// elt translates a composite-literal element (which may omit its type).
func (t *Tr) elt(e ast.Expr) string {
	return t.expr(e)
}

// ---------------------------------------------------------------- statements

func (t *Tr) wrapRet(v string) string {
	if t.optRet {
		return "(some " + v + ")"
	}
	return v
}

func (t *Tr) retNamed(pos token.Pos) string {
	return t.wrapRet(t.retNamed0(pos))
}

func (t *Tr) retNamed0(pos token.Pos) string {
	if len(t.results) == 0 {
		if t.curFn.Results().Len() == 0 {
			return "()"
		}
		t.fail(pos, "control reaches end of function without return")
	}
	var rs []string
	for _, r := range t.results {
		rs = append(rs, t.nameOf(r))
	}
	if len(rs) == 1 {
		return rs[0]
	}
	return "(" + strings.Join(rs, ", ") + ")"
}

func ind(n int) string { return strings.Repeat("  ", n) }

func (t *Tr) stmts(ss []ast.Stmt, d int) string {
	if len(ss) == 0 {
		if t.frag != nil && len(t.frag.yield) > 0 {
			// end of a bounded fragment: its value is what the yielded locals hold here
			if len(t.frag.yield) == 1 {
				return ind(d) + t.wrapRet(t.frag.yield[0])
			}
			return ind(d) + t.wrapRet("("+strings.Join(t.frag.yield, ", ")+")")
		}
		return ind(d) + t.retNamed(token.NoPos)
	}
	s, rest := ss[0], ss[1:]
	if t.frag != nil && t.frag.skip[srcText(t.l, s)] {
		t.frag.skipped[srcText(t.l, s)] = true
		return t.stmts(rest, d)
	}
	switch x := s.(type) {
	case *ast.ReturnStmt:
		if len(x.Results) == 0 {
			return ind(d) + t.retNamed(x.Pos())
		}
		var rs []string
		for i, r := range x.Results {
			if t.frag != nil && t.frag.dropResult(i) {
				continue
			}
			v := t.expr(r)
			// implicit conversion of untyped constants handled by constLit typing; an untyped nil
			// returned as an `error` result is "no error"
			if id, ok := r.(*ast.Ident); ok && id.Name == "nil" && t.curFn != nil && i < t.curFn.Results().Len() &&
				len(x.Results) == t.curFn.Results().Len() && isErrorType(t.curFn.Results().At(i).Type()) {
				v = "false"
			}
			rs = append(rs, v)
		}
		if len(rs) == 1 {
			return ind(d) + t.wrapRet(rs[0])
		}
		return ind(d) + t.wrapRet("("+strings.Join(rs, ", ")+")")
	case *ast.BlockStmt:
		return t.stmts(append(append([]ast.Stmt{}, x.List...), rest...), d)
	case *ast.EmptyStmt:
		return t.stmts(rest, d)
	case *ast.DeclStmt:
		gd := x.Decl.(*ast.GenDecl)
		var lets []string
		if gd.Tok == token.VAR {
			for _, sp := range gd.Specs {
				vs := sp.(*ast.ValueSpec)
				for i, n := range vs.Names {
					obj := t.info().Defs[n]
					if n.Name == "_" || obj == nil {
						continue
					}
					var v string
					if i < len(vs.Values) {
						v = t.expr(vs.Values[i])
					} else {
						v = t.zero(obj.Type(), n.Pos())
					}
					lets = append(lets, fmt.Sprintf("%slet %s : %s := %s", ind(d), t.nameOf(obj), t.leanType(obj.Type(), n.Pos()), v))
				}
			}
		}
		return strings.Join(append(lets, t.stmts(rest, d)), "\n")
	case *ast.IncDecStmt:
		op := " + 1"
		if x.Tok == token.DEC {
			op = " - 1"
		}
		if sel, isSel := x.X.(*ast.SelectorExpr); isSel {
			// s.f++ / s.f-- : same as s.f += 1 / s.f -= 1
			one := &ast.BasicLit{Kind: token.INT, Value: "1", ValuePos: x.Pos()}
			t.info().Types[one] = types.TypeAndValue{Type: t.typeOf(sel), Value: constant.MakeInt64(1)}
			tok := token.ADD_ASSIGN
			if x.Tok == token.DEC {
				tok = token.SUB_ASSIGN
			}
			return t.assign1(sel, one, tok, d) + t.stmts(rest, d)
		}
		id, ok := x.X.(*ast.Ident)
		if !ok {
			t.fail(x.Pos(), "inc/dec of non-identifier")
		}
		n := t.nameOf(t.info().Uses[id])
		return fmt.Sprintf("%slet %s := %s%s\n%s", ind(d), n, n, op, t.stmts(rest, d))
	case *ast.ExprStmt:
		if c, ok := x.X.(*ast.CallExpr); ok {
			if id, ok := c.Fun.(*ast.Ident); ok && id.Name == "copy" && len(c.Args) == 2 {
				return t.copyStmt(c, d) + "\n" + t.stmts(rest, d)
			}
			if id, ok := c.Fun.(*ast.Ident); ok && id.Name == "panic" && t.optRet {
				if _, isB := t.info().Uses[id].(*types.Builtin); isB {
					return ind(d) + "none"
				}
			}
		}
		t.fail(x.Pos(), "unsupported expression statement")
	case *ast.AssignStmt:
		return t.assign(x, d) + t.stmts(rest, d)
	case *ast.IfStmt:
		pre := ""
		if x.Init != nil {
			// the init statement scopes over the if/else only; names are unique per object so
			// emitting it as a leading let is sound
			pre = t.stmts1(x.Init, d)
		}
		thenS := append(append([]ast.Stmt{}, x.Body.List...), rest...)
		var elseS []ast.Stmt
		if x.Else != nil {
			elseS = append([]ast.Stmt{x.Else}, rest...)
		} else {
			elseS = rest
		}
		return fmt.Sprintf("%s%sif %s then\n%s\n%selse\n%s", pre, ind(d), t.prop(x.Cond), t.stmts(thenS, d+1), ind(d), t.stmts(elseS, d+1))
	case *ast.SwitchStmt:
		pre := ""
		if x.Init != nil {
			pre = t.stmts1(x.Init, d)
		}
		tag := ""
		if x.Tag != nil {
			tag = t.expr(x.Tag)
		}
		var def []ast.Stmt
		hasDef := false
		type arm struct {
			cond string
			body []ast.Stmt
		}
		var arms []arm
		for _, cc := range x.Body.List {
			cl := cc.(*ast.CaseClause)
			for _, b := range cl.Body {
				ast.Inspect(b, func(n ast.Node) bool {
					if br, ok := n.(*ast.BranchStmt); ok {
						t.fail(br.Pos(), "unsupported branch statement %s in switch", br.Tok)
					}
					return true
				})
			}
			if cl.List == nil {
				def, hasDef = cl.Body, true
				continue
			}
			var cs []string
			for _, v := range cl.List {
				if x.Tag != nil {
					cs = append(cs, tag+" = "+t.expr(v))
				} else {
					cs = append(cs, t.prop(v))
				}
			}
			arms = append(arms, arm{strings.Join(cs, " ∨ "), cl.Body})
		}
		_ = hasDef
		var b strings.Builder
		b.WriteString(pre)
		for i, a := range arms {
			kw := "if"
			if i > 0 {
				kw = "else if"
			}
			fmt.Fprintf(&b, "%s%s %s then\n%s\n", ind(d), kw, a.cond, t.stmts(append(append([]ast.Stmt{}, a.body...), rest...), d+1))
		}
		if len(arms) == 0 {
			return pre + t.stmts(append(append([]ast.Stmt{}, def...), rest...), d)
		}
		fmt.Fprintf(&b, "%selse\n%s", ind(d), t.stmts(append(append([]ast.Stmt{}, def...), rest...), d+1))
		return b.String()
	}
	t.fail(s.Pos(), "unsupported statement %T", s)
	return ""
}

// stmts1 renders a single simple statement (init of if/switch) as let-lines.
func (t *Tr) stmts1(s ast.Stmt, d int) string {
	switch x := s.(type) {
	case *ast.AssignStmt:
		return t.assign(x, d)
	}
	t.fail(s.Pos(), "unsupported init statement %T", s)
	return ""
}

func (t *Tr) lhsObj(id *ast.Ident) types.Object {
	if o := t.info().Defs[id]; o != nil {
		return o
	}
	return t.info().Uses[id]
}

func (t *Tr) assign(x *ast.AssignStmt, d int) string {
	if len(x.Lhs) == len(x.Rhs) && len(x.Lhs) == 1 {
		return t.assign1(x.Lhs[0], x.Rhs[0], x.Tok, d)
	}
	if len(x.Lhs) == len(x.Rhs) {
		// parallel assignment
		var ls, rs []string
		for i := range x.Lhs {
			id, ok := x.Lhs[i].(*ast.Ident)
			if !ok {
				t.fail(x.Pos(), "parallel assignment to non-identifier")
			}
			rs = append(rs, t.expr(x.Rhs[i]))
			if id.Name == "_" {
				ls = append(ls, "_")
			} else {
				ls = append(ls, t.nameOf(t.lhsObj(id)))
			}
		}
		return fmt.Sprintf("%slet (%s) := (%s)\n", ind(d), strings.Join(ls, ", "), strings.Join(rs, ", "))
	}
	if len(x.Rhs) == 1 {
		var ls []string
		for i := range x.Lhs {
			id, ok := x.Lhs[i].(*ast.Ident)
			if !ok {
				t.fail(x.Pos(), "tuple assignment to non-identifier")
			}
			if id.Name == "_" {
				ls = append(ls, "_")
			} else {
				ls = append(ls, t.nameOf(t.lhsObj(id)))
			}
		}
		return fmt.Sprintf("%slet (%s) := %s\n", ind(d), strings.Join(ls, ", "), t.expr(x.Rhs[0]))
	}
	t.fail(x.Pos(), "unsupported assignment shape")
	return ""
}

func (t *Tr) assign1(lhs, rhs ast.Expr, tok token.Token, d int) string {
	val := func(cur string) string {
		if tok == token.ASSIGN || tok == token.DEFINE {
			return t.expr(rhs)
		}
		// op-assign: synthesise a binary expression
		opTok := map[token.Token]token.Token{token.ADD_ASSIGN: token.ADD, token.SUB_ASSIGN: token.SUB, token.MUL_ASSIGN: token.MUL,
			token.QUO_ASSIGN: token.QUO, token.REM_ASSIGN: token.REM, token.AND_ASSIGN: token.AND, token.OR_ASSIGN: token.OR,
			token.XOR_ASSIGN: token.XOR, token.SHL_ASSIGN: token.SHL, token.SHR_ASSIGN: token.SHR}[tok]
		be := &ast.BinaryExpr{X: lhs, Op: opTok, Y: rhs}
		t.info().Types[be] = types.TypeAndValue{Type: t.typeOf(lhs)}
		_ = cur
		return t.binary(be)
	}
	switch l := lhs.(type) {
	case *ast.Ident:
		if l.Name == "_" {
			return ""
		}
		obj := t.lhsObj(l)
		n := t.nameOf(obj)
		return fmt.Sprintf("%slet %s : %s := %s\n", ind(d), n, t.leanType(obj.Type(), l.Pos()), val(n))
	case *ast.SelectorExpr:
		// s.f = v  or s.a.b = v
		root, path := t.fieldPath(l)
		n := t.nameOf(t.lhsObj(root))
		return fmt.Sprintf("%slet %s := %s\n", ind(d), n, t.withUpdate(n, path, val("")))
	case *ast.IndexExpr:
		if id, ok := l.X.(*ast.Ident); ok && isByteSeq(t.typeOf(l.X)) {
			n := t.nameOf(t.lhsObj(id))
			return fmt.Sprintf("%slet %s : Nat → Nat := fun j_ => if j_ = %s then %s else %s j_\n", ind(d), n, t.natIndex(l.Index), val(""), n)
		}
	case *ast.StarExpr:
		if id, ok := l.X.(*ast.Ident); ok {
			t.Assume["pointer-to-struct parameters are modelled by value"] = true
			n := t.nameOf(t.lhsObj(id))
			return fmt.Sprintf("%slet %s := %s\n", ind(d), n, val(n))
		}
	}
	t.fail(lhs.Pos(), "unsupported assignment target %T", lhs)
	return ""
}

func (t *Tr) fieldPath(s *ast.SelectorExpr) (*ast.Ident, []string) {
	switch x := s.X.(type) {
	case *ast.Ident:
		return x, []string{leanIdent(s.Sel.Name)}
	case *ast.SelectorExpr:
		r, p := t.fieldPath(x)
		return r, append(p, leanIdent(s.Sel.Name))
	}
	t.fail(s.Pos(), "unsupported field path")
	return nil, nil
}

func (t *Tr) withUpdate(base string, path []string, v string) string {
	if len(path) == 1 {
		return fmt.Sprintf("{ %s with %s := %s }", base, path[0], v)
	}
	return fmt.Sprintf("{ %s with %s := %s }", base, path[0], t.withUpdate(base+"."+path[0], path[1:], v))
}

func (t *Tr) copyStmt(c *ast.CallExpr, d int) string {
	dst, ok1 := c.Args[0].(*ast.SliceExpr)
	src, ok2 := c.Args[1].(*ast.SliceExpr)
	if !ok1 || !ok2 {
		t.fail(c.Pos(), "copy() supported only between slice expressions of byte arrays")
	}
	did, ok := dst.X.(*ast.Ident)
	if !ok || !isByteSeq(t.typeOf(dst.X)) || !isByteSeq(t.typeOf(src.X)) {
		t.fail(c.Pos(), "copy() destination must be a local byte array")
	}
	bound := func(e ast.Expr, def string) string {
		if e == nil {
			if def == "" {
				t.fail(c.Pos(), "copy() with open upper bound")
			}
			return def
		}
		return t.natIndex(e)
	}
	dlo, dhi := bound(dst.Low, "0"), bound(dst.High, "")
	slo, shi := bound(src.Low, "0"), bound(src.High, "")
	n := t.nameOf(t.lhsObj(did))
	return fmt.Sprintf("%slet %s : Nat → Nat := fun j_ => if %s ≤ j_ ∧ j_ < %s + min (%s - %s) (%s - %s) then %s (%s + (j_ - %s)) else %s j_",
		ind(d), n, dlo, dlo, dhi, dlo, shi, slo, t.expr(src.X), slo, dlo, n)
}

// Func translates a function declaration and returns its Lean name.
func (t *Tr) Func(p *Pkg, fd *ast.FuncDecl, leanName string) string {
	fobj := p.Info.Defs[fd.Name].(*types.Func)
	key := "func:" + funcKey(fobj)
	if n, ok := t.done[key]; ok {
		return n
	}
	sig := fobj.Type().(*types.Signature)
	if leanName == "" {
		leanName = fd.Name.Name
		if r := sig.Recv(); r != nil {
			rt := r.Type()
			if pt, ok := rt.(*types.Pointer); ok {
				rt = pt.Elem()
			}
			if n, ok := rt.(*types.Named); ok {
				leanName = n.Obj().Name() + "_" + fd.Name.Name
			}
		}
	}
	leanName = leanIdent(leanName)
	t.done[key] = leanName
	t.inProg[key] = true
	saved := t.save()
	savedOpt := t.optRet
	savedFrag := t.frag // a callee of a fragment is translated as an ordinary function
	t.frag = nil
	defer func() { t.frag = savedFrag }()
	t.curPkg = p
	t.curFn = sig
	t.names = map[types.Object]string{}
	t.used = map[string]types.Object{}
	t.results = nil

	var params []string
	addParam := func(v *types.Var) {
		if v.Name() == "" || v.Name() == "_" {
			params = append(params, fmt.Sprintf("(_ : %s)", t.leanType(v.Type(), fd.Pos())))
			return
		}
		params = append(params, fmt.Sprintf("(%s : %s)", t.nameOf(v), t.leanType(v.Type(), fd.Pos())))
	}
	if r := sig.Recv(); r != nil {
		addParam(r)
	}
	for i := 0; i < sig.Params().Len(); i++ {
		addParam(sig.Params().At(i))
	}
	var rts []string
	var pre []string
	for i := 0; i < sig.Results().Len(); i++ {
		r := sig.Results().At(i)
		rts = append(rts, t.leanType(r.Type(), fd.Pos()))
		if r.Name() != "" && r.Name() != "_" {
			t.results = append(t.results, r)
			pre = append(pre, fmt.Sprintf("  let %s : %s := %s", t.nameOf(r), t.leanType(r.Type(), fd.Pos()), t.zero(r.Type(), fd.Pos())))
		}
	}
	if len(t.results) != 0 && len(t.results) != sig.Results().Len() {
		t.fail(fd.Pos(), "partially named results")
	}
	rt := "Unit"
	// a method without results on a pointer-to-struct receiver is a mutator: it is translated as
	// the function returning the updated receiver (the receiver acts as the single named result)
	if r := sig.Recv(); r != nil && sig.Results().Len() == 0 && r.Name() != "" && r.Name() != "_" {
		if pt, ok := r.Type().(*types.Pointer); ok {
			if _, isStruct := pt.Elem().Underlying().(*types.Struct); isStruct {
				t.results = []*types.Var{r}
				rt = t.leanType(r.Type(), fd.Pos())
				t.Assume["a method without results on a pointer-to-struct receiver returns the updated receiver"] = true
			}
		}
	}
	if len(rts) == 1 {
		rt = rts[0]
	} else if len(rts) > 1 {
		rt = strings.Join(rts, " × ")
	}
	// a function whose own body (outside function literals) calls panic() returns Option
	t.optRet = false
	var findPanic func(n ast.Node) bool
	findPanic = func(n ast.Node) bool {
		switch x := n.(type) {
		case *ast.FuncLit:
			return false
		case *ast.CallExpr:
			if id, ok := x.Fun.(*ast.Ident); ok && id.Name == "panic" {
				if _, isB := p.Info.Uses[id].(*types.Builtin); isB {
					t.optRet = true
				}
			}
		}
		return true
	}
	ast.Inspect(fd.Body, findPanic)
	if t.optRet {
		rt = "Option (" + rt + ")"
		t.panics[key] = true
		t.Assume["a function that calls panic() returns Option; none = the Go function panics"] = true
	}
	body := t.stmts(fd.Body.List, 1)
	if len(pre) > 0 {
		body = strings.Join(pre, "\n") + "\n" + body
	}
	pos := t.l.Fset.Position(fd.Pos())
	rel := strings.TrimPrefix(pos.Filename, t.l.Root+"/")
	item := fmt.Sprintf("/-- Go: func %s (%s) -/\ndef %s %s : %s :=\n%s\n", strings.TrimPrefix(funcKey(fobj), repoModule+"/"), rel, leanName, strings.Join(params, " "), rt, body)
	t.restore(saved)
	t.optRet = savedOpt
	delete(t.inProg, key)
	t.out = append(t.out, item)
	return leanName
}

// Const emits a Lean def for a package-level constant.
func (t *Tr) Const(p *Pkg, name string) {
	obj := p.Types.Scope().Lookup(name)
	c, ok := obj.(*types.Const)
	if !ok {
		panic(trErr{fmt.Sprintf("%s: no constant %s", p.Path, name)})
	}
	tv := types.TypeAndValue{Type: c.Type(), Value: c.Val()}
	lt := "Int"
	switch c.Val().Kind() {
	case constant.String:
		lt = "String"
	case constant.Bool:
		lt = "Bool"
	default:
		if b, ok := c.Type().Underlying().(*types.Basic); ok && (isUnsigned(b) || b.Kind() == types.UntypedInt && constant.Sign(c.Val()) >= 0) {
			lt = "Nat"
			tv.Type = types.Typ[types.Uint64]
		}
	}
	t.out = append(t.out, fmt.Sprintf("/-- Go: const %s.%s -/\ndef %s : %s := %s\n", p.Types.Name(), name, leanIdent(name), lt, t.constLit(tv, token.NoPos)))
}

// Var emits a Lean def for a package-level variable with a literal initialiser.
func (t *Tr) Var(p *Pkg, name string) {
	obj := p.Types.Scope().Lookup(name)
	v, ok := obj.(*types.Var)
	if !ok {
		panic(trErr{fmt.Sprintf("%s: no variable %s", p.Path, name)})
	}
	saved := t.save()
	t.curPkg = p
	t.names = map[types.Object]string{}
	t.used = map[string]types.Object{}
	t.globalVar(v, token.NoPos)
	t.restore(saved)
}

func (t *Tr) Render(header string) string {
	var b strings.Builder
	b.WriteString("-- GENERATED by /verif/extract from /repo — do not edit; regenerated on every check run\n")
	b.WriteString(header)
	var imps []string
	for i := range t.imports {
		imps = append(imps, i)
	}
	sort.Strings(imps)
	for _, i := range imps {
		b.WriteString("import " + i + "\n")
	}
	b.WriteString("set_option linter.unusedVariables false\n\n")
	b.WriteString("namespace " + t.ns + "\n\n")
	for _, it := range t.out {
		b.WriteString(it)
		b.WriteString("\n")
	}
	var as []string
	for a := range t.Assume {
		as = append(as, a)
	}
	sort.Strings(as)
	b.WriteString("/-- translation assumptions used in this file -/\ndef translationAssumptions : List String := [")
	for i, a := range as {
		if i > 0 {
			b.WriteString(",")
		}
		b.WriteString("\n  " + leanString(a))
	}
	b.WriteString("]\n\nend " + t.ns + "\n")
	return b.String()
}
