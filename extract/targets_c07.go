package main

// C07 / C02 — facts that pin the code shapes the hand model of the encoder wrappers
// (lean/GoProbeModel/Model/C07.lean) is written from.
//
// The four library wrappers are selected by build constraints (`cgo && !goprobe_noliblz4`, …), so the
// Loader (which type-checks ONE configuration) never sees the native files. These extractors parse
// the named file directly, whatever its constraint, and report
//   * (targets_c02.go) the `//go:build` line: which build configuration compiles the file,
//   * a flattened statement skeleton of Compress / Decompress: every simple statement as normalised
//     source text, `if <cond> {` … `}` around nested ones. Whitespace and comments do not matter;
//     any change to a condition, a slice expression, an argument of a library call (e.g.
//     `EncodeAll(data, buf[:0])` back to `EncodeAll(data, buf)`) or the order of the steps does.

import (
	"fmt"
	"go/ast"
	"go/parser"
	"path/filepath"
	"strings"
)

func c07ParseFile(l *Loader, rel string) (*ast.File, error) {
	return parser.ParseFile(l.Fset, filepath.Join(l.Root, rel), nil, parser.ParseComments)
}

func c07BuildLine(l *Loader, rel string) (string, error) {
	f, err := c07ParseFile(l, rel)
	if err != nil {
		return "", err
	}
	for _, cg := range f.Comments {
		if cg.Pos() > f.Package {
			break
		}
		for _, c := range cg.List {
			if strings.HasPrefix(c.Text, "//go:build ") {
				return strings.TrimSpace(strings.TrimPrefix(c.Text, "//go:build ")), nil
			}
		}
	}
	return "", nil
}

func c07Skeleton(l *Loader, rel, method string) ([]string, error) {
	f, err := c07ParseFile(l, rel)
	if err != nil {
		return nil, err
	}
	var fd *ast.FuncDecl
	for _, d := range f.Decls {
		if x, ok := d.(*ast.FuncDecl); ok && x.Recv != nil && x.Name.Name == method && x.Body != nil {
			fd = x
		}
	}
	if fd == nil {
		return nil, fmt.Errorf("method %s not found in %s", method, rel)
	}
	out := []string{"func " + srcText(l, fd.Type)}
	var walk func(list []ast.Stmt)
	walk = func(list []ast.Stmt) {
		for _, s := range list {
			switch x := s.(type) {
			case *ast.IfStmt:
				head := "if "
				if x.Init != nil {
					head += srcText(l, x.Init) + "; "
				}
				out = append(out, head+srcText(l, x.Cond)+" {")
				walk(x.Body.List)
				if x.Else != nil {
					out = append(out, "} else {")
					if b, ok := x.Else.(*ast.BlockStmt); ok {
						walk(b.List)
					} else {
						walk([]ast.Stmt{x.Else})
					}
				}
				out = append(out, "}")
			case *ast.BlockStmt:
				walk(x.List)
			default:
				out = append(out, srcText(l, s))
			}
		}
	}
	walk(fd.Body.List)
	return out, nil
}

// c07Files: the five encoder implementations
var c07Files = map[string]string{
	"null":        "pkg/goDB/encoder/null/null.go",
	"lz4_cgo":     "pkg/goDB/encoder/lz4/lz4_cgo.go",
	"lz4_native":  "pkg/goDB/encoder/lz4/lz4_native.go",
	"zstd_cgo":    "pkg/goDB/encoder/zstd/zstd_cgo.go",
	"zstd_native": "pkg/goDB/encoder/zstd/zstd_native.go",
}

func init() {
	for name, rel := range c07Files {
		for _, m := range []string{"Compress", "Decompress"} {
			factExtractors["c07_"+name+"_"+m] = func(l *Loader) (any, error) { return c07Skeleton(l, rel, m) }
		}
	}
}
