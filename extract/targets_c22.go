package main

func init() {
	addTargets(Target{File: "Classify", Items: []Item{
		{Pkg: "pkg/capture/capturetypes", Kind: "func", Name: "ClassifyPacketDirectionV4"},
		{Pkg: "pkg/capture/capturetypes", Kind: "func", Name: "ClassifyPacketDirectionV6"},
		{Pkg: "pkg/capture/capturetypes", Kind: "func", Name: "EPHashV4.Reverse"},
		{Pkg: "pkg/capture/capturetypes", Kind: "func", Name: "EPHashV6.Reverse"},
		{Pkg: "pkg/capture/capturetypes", Kind: "func", Name: "EPHashV4.IsProbablyReverse"},
		{Pkg: "pkg/capture/capturetypes", Kind: "func", Name: "EPHashV6.IsProbablyReverse"},
	}})
}
