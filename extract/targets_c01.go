package main

func init() {
	// shapes the hand model of C01 relies on: Compress -> (Reset, Seek, null Compress) -> Flush -> AddBlock
	factExtractors["c01_writeBlock_calls"] = func(l *Loader) (any, error) {
		return CallSeq(l, "pkg/goDB/storage/gpfile", "GPFile.writeBlock"), nil
	}
	factExtractors["c01_open_calls"] = func(l *Loader) (any, error) {
		return CallSeq(l, "pkg/goDB/storage/gpfile", "GPFile.open"), nil
	}
}
