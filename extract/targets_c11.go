package main

// C11 — query results do not depend on parallelism or memory mode, and queries end.
//
// Regenerated: the constants of the work partition (`WorkBulkSize`) and of the directory selection
// (`DBWriteInterval`, `EpochDay`) — Model/C11.lean splits the day directories with the regenerated
// bulk size. The protocol itself (who sends what into which channel, in which order, who closes it)
// is concurrent code outside the translator's subset; its shape is pinned by facts: the call
// sequences of the producer, the worker loop, the fan-in and the statements of RunStatement that
// order them, the capacities of the three channels, and the additive merges (`Stats.Add`,
// `AggFlowMapWithMetadata.Merge`, `Counters.Add`).

func init() {
	addTargets(Target{File: "WorkMgr", Items: []Item{
		{Pkg: "pkg/goDB", Kind: "const", Name: "WorkBulkSize"},
		{Pkg: "pkg/goDB", Kind: "const", Name: "DBWriteInterval"},
		{Pkg: "pkg/goDB/storage/gpfile", Kind: "const", Name: "EpochDay"},
	}})

	for name, fn := range map[string][2]string{
		"c11_new_manager_calls":       {"pkg/goDB", "NewDBWorkManager"},
		"c11_create_jobs_calls":       {"pkg/goDB", "DBWorkManager.CreateWorkerJobs"},
		"c11_worker_calls":            {"pkg/goDB", "DBWorkManager.grabAndProcessWorkload"},
		"c11_execute_calls":           {"pkg/goDB", "DBWorkManager.ExecuteWorkerReadJobs"},
		"c11_aggregate_calls":         {"pkg/goDB/engine", "QueryRunner.aggregate"},
		"c11_create_manager_calls":    {"pkg/goDB/engine", "createWorkManager"},
		"c11_run_statement_calls":     {"pkg/goDB/engine", "QueryRunner.RunStatement"},
		"c11_map_merge_calls":         {"pkg/types/hashmap", "AggFlowMapWithMetadata.Merge"},
		"c11_named_map_len_calls":     {"pkg/types/hashmap", "NamedAggFlowMapWithMetadata.Len"},
		"c11_new_named_map_calls":     {"pkg/types/hashmap", "NewNamedAggFlowMapWithMetadata"},
		"c11_workload_addstats_calls": {"pkg/types/workload", "Workload.AddStats"},
	} {
		fn := fn
		factExtractors[name] = func(l *Loader) (any, error) {
			return CallSeq(l, fn[0], fn[1]), nil
		}
	}
	// capacities of the channels: the workload queue holds every workload, the map channel 1024
	// partial results, the result channel the one final result
	factExtractors["c11_channel_capacities"] = func(l *Loader) (any, error) {
		out := CallArgs(l, "pkg/goDB", "DBWorkManager.CreateWorkerJobs", "make")
		out = append(out, CallArgs(l, "pkg/goDB", "NewDBWorkManager", "make")...)
		out = append(out, CallArgs(l, "pkg/goDB/engine", "QueryRunner.RunStatement", "make")...)
		out = append(out, CallArgs(l, "pkg/goDB/engine", "QueryRunner.aggregate", "make")...)
		return out, nil
	}
	// the statements of the producer, in order (bulk rule, deferred hand-over, flush of the rest)
	factExtractors["c11_create_jobs_stmts"] = func(l *Loader) (any, error) {
		return StmtKinds(l, "pkg/goDB", "DBWorkManager.CreateWorkerJobs"), nil
	}
	// a new workload counts as one workload in its statistics
	factExtractors["c11_workload_new_stmts"] = func(l *Loader) (any, error) {
		return StmtKinds(l, "pkg/types/workload", "New"), nil
	}
	// the additive updates the fan-in is made of
	factExtractors["c11_stats_add_stmts"] = func(l *Loader) (any, error) {
		return StmtKinds(l, "pkg/types/workload", "Stats.Add"), nil
	}
	factExtractors["c11_counters_add_stmts"] = func(l *Loader) (any, error) {
		return StmtKinds(l, "pkg/types", "Counters.Add"), nil
	}
	// the number of workers is a package variable initialised from the CPU count (set by the hook)
	factExtractors["c11_num_processing_units"] = func(l *Loader) (any, error) {
		p, err := l.Load("pkg/goDB/engine")
		if err != nil {
			return nil, err
		}
		vs, i := p.FindValue("numProcessingUnits")
		if vs == nil || i >= len(vs.Values) {
			return "not found", nil
		}
		return srcText(l, vs.Values[i]), nil
	}
}
