package main

import (
	"bufio"
	"fmt"
	"go/ast"
	"go/token"
	"os"
	"path/filepath"
	"strings"
)

// C31 — query concurrency limit. The mechanism of the property is the ORDER of a handful of
// statements in `(*QueryRunner).run` (engine and distributed): the semaphore is acquired, a
// failed acquisition is answered with the too-many-requests result, and the release is deferred
// before anything that can return early. The step list of both `run` functions is therefore
// regenerated as a list of abstract step kinds (Gen/Facts.lean: c31_engine_run_steps,
// c31_dist_run_steps); Model/C31.lean interprets exactly these lists, and Props/C31.lean proves the
// property for every step list satisfying a decidable well-formedness predicate and checks (by
// `decide`) that the two regenerated lists satisfy it. The remaining shapes the hand model relies on
// (checkSemaphore, the servers' wiring of the channel, the version of the semaphore library) are
// facts pinned in extract/expect/C31.json.

// hasReturn reports whether n contains a return statement outside function literals.
func hasReturn(n ast.Node) bool {
	found := false
	ast.Inspect(n, func(m ast.Node) bool {
		switch m.(type) {
		case *ast.FuncLit:
			return false
		case *ast.ReturnStmt:
			found = true
		}
		return !found
	})
	return found
}

// callsMethod reports whether n contains a call whose callee text ends with suffix (outside
// function literals).
func callsSuffix(l *Loader, n ast.Node, suffix string) bool {
	found := false
	ast.Inspect(n, func(m ast.Node) bool {
		switch x := m.(type) {
		case *ast.FuncLit:
			return false
		case *ast.CallExpr:
			if strings.HasSuffix(srcText(l, x.Fun), suffix) {
				found = true
			}
		}
		return !found
	})
	return found
}

// c31Steps classifies every top-level statement of fn:
//
//	acquire       `<release>, err := <recv>.checkSemaphore(stmt)`            (the only statement calling it)
//	reject429     `if err != nil { return &results.Result{… types.StatusTooManyRequests …}, nil }`
//	deferRelease  `defer <release>()` for the variable assigned by the acquire statement
//	defer         any other defer
//	return        a top-level return statement (the execution of the query proper)
//	mayReturn     any other statement containing a return (an early exit)
//	work          anything else
//
// A statement that mentions the release variable or checkSemaphore in any other way is reported as
// `unknown:<text>` so that the Lean well-formedness check fails.
func c31Steps(l *Loader, pkg, fn string) []string {
	_, fd := mustFunc(l, pkg, fn)
	var out []string
	releaseVar := ""
	for _, s := range fd.Body.List {
		txt := srcText(l, s)
		kind := ""
		switch x := s.(type) {
		case *ast.AssignStmt:
			if callsSuffix(l, x, ".checkSemaphore") {
				if len(x.Lhs) == 2 && len(x.Rhs) == 1 && x.Tok == token.DEFINE &&
					srcText(l, x.Lhs[1]) == "err" && releaseVar == "" {
					if c, ok := x.Rhs[0].(*ast.CallExpr); ok && strings.HasSuffix(srcText(l, c.Fun), ".checkSemaphore") {
						releaseVar = srcText(l, x.Lhs[0])
						kind = "acquire"
					}
				}
				if kind == "" {
					kind = "unknown:" + txt
				}
			}
		case *ast.IfStmt:
			if strings.Contains(txt, "types.StatusTooManyRequests") {
				kind = "unknown:" + txt
				if x.Init == nil && x.Else == nil && srcText(l, x.Cond) == "err != nil" && len(x.Body.List) == 1 {
					if r, ok := x.Body.List[0].(*ast.ReturnStmt); ok && len(r.Results) == 2 &&
						srcText(l, r.Results[1]) == "nil" && strings.HasPrefix(srcText(l, r.Results[0]), "&results.Result{") {
						kind = "reject429"
					}
				}
			}
		case *ast.DeferStmt:
			if releaseVar != "" && srcText(l, x.Call.Fun) == releaseVar && len(x.Call.Args) == 0 {
				kind = "deferRelease"
			} else {
				kind = "defer"
			}
		case *ast.ReturnStmt:
			kind = "return"
		}
		if kind == "" {
			switch {
			case callsSuffix(l, s, ".checkSemaphore"):
				kind = "unknown:" + txt
			case hasReturn(s):
				kind = "mayReturn"
			default:
				kind = "work"
			}
		}
		// the release closure must not be touched anywhere else (called early, reassigned, passed on)
		if releaseVar != "" && kind != "acquire" && kind != "deferRelease" && mentionsIdent(s, releaseVar) {
			kind = "unknown:" + txt
		}
		out = append(out, kind)
	}
	return out
}

func mentionsIdent(n ast.Node, name string) bool {
	found := false
	ast.Inspect(n, func(m ast.Node) bool {
		if id, ok := m.(*ast.Ident); ok && id.Name == name {
			found = true
		}
		return !found
	})
	return found
}

// c31StmtTexts: the whitespace-normalised text of every top-level statement, untruncated.
func c31StmtTexts(l *Loader, pkg, fn string) []string {
	_, fd := mustFunc(l, pkg, fn)
	var out []string
	for _, s := range fd.Body.List {
		out = append(out, srcText(l, s))
	}
	return out
}

// c31Window: verbatim text of the statements classified acquire / reject429 / deferRelease.
func c31Window(l *Loader, pkg, fn string) []string {
	kinds := c31Steps(l, pkg, fn)
	texts := c31StmtTexts(l, pkg, fn)
	out := []string{}
	for i, k := range kinds {
		if k == "acquire" || k == "reject429" || k == "deferRelease" {
			out = append(out, texts[i])
		}
	}
	return out
}

// goModVersion returns the version required for module `mod` in <repo>/go.mod.
func goModVersion(root, mod string) (string, error) {
	f, err := os.Open(filepath.Join(root, "go.mod"))
	if err != nil {
		return "", err
	}
	defer f.Close()
	sc := bufio.NewScanner(f)
	for sc.Scan() {
		fs := strings.Fields(sc.Text())
		for i, w := range fs {
			if w == mod && i+1 < len(fs) {
				return fs[i+1], nil
			}
		}
	}
	return "", fmt.Errorf("module %s not required in go.mod", mod)
}

func init() {
	const eng, dist = "pkg/goDB/engine", "cmd/global-query/pkg/distributed"
	factExtractors["c31_engine_run_steps"] = func(l *Loader) (any, error) {
		return c31Steps(l, eng, "QueryRunner.run"), nil
	}
	factExtractors["c31_dist_run_steps"] = func(l *Loader) (any, error) {
		return c31Steps(l, dist, "QueryRunner.run"), nil
	}
	// the statements around the acquisition, verbatim (the labels above are derived from these)
	factExtractors["c31_engine_run_window"] = func(l *Loader) (any, error) {
		return c31Window(l, eng, "QueryRunner.run"), nil
	}
	factExtractors["c31_dist_run_window"] = func(l *Loader) (any, error) {
		return c31Window(l, dist, "QueryRunner.run"), nil
	}
	// checkSemaphore: nil channel = no limit, otherwise TryAddFor(keep-alive or the default timeout)
	factExtractors["c31_engine_check_semaphore"] = func(l *Loader) (any, error) {
		return c31StmtTexts(l, eng, "QueryRunner.checkSemaphore"), nil
	}
	factExtractors["c31_dist_check_semaphore"] = func(l *Loader) (any, error) {
		return c31StmtTexts(l, dist, "QueryRunner.checkSemaphore"), nil
	}
	// Run / RunStreaming only wrap run (no second path around the semaphore)
	factExtractors["c31_engine_run_entrypoints"] = func(l *Loader) (any, error) {
		return append(returnTexts(l, eng, "QueryRunner.Run"), returnTexts(l, eng, "QueryRunner.RunStreaming")...), nil
	}
	factExtractors["c31_dist_run_entrypoints"] = func(l *Loader) (any, error) {
		return append(returnTexts(l, dist, "QueryRunner.Run"), returnTexts(l, dist, "QueryRunner.RunStreaming")...), nil
	}
	// the option installs the caller's channel as the semaphore
	factExtractors["c31_with_max_concurrent"] = func(l *Loader) (any, error) {
		return append(returnTexts(l, eng, "WithMaxConcurrent"), returnTexts(l, dist, "WithMaxConcurrent")...), nil
	}
	// the servers create one buffered channel of the configured capacity per runner
	factExtractors["c31_server_wiring"] = func(l *Loader) (any, error) {
		var out []string
		for _, pkg := range []string{"pkg/api/goprobe/server", "pkg/api/globalquery/server"} {
			_, fd := mustFunc(l, pkg, "Server.registerRoutes")
			ast.Inspect(fd.Body, func(n ast.Node) bool {
				if is, ok := n.(*ast.IfStmt); ok && strings.Contains(srcText(l, is.Cond), "maxConcurrentQueries") {
					out = append(out, srcText(l, is))
				}
				return true
			})
		}
		// … whose capacity comes from this accessor (and from the option that stores the configured values)
		out = append(out, returnTexts(l, "pkg/api/server", "DefaultServer.QueryRateLimiter")...)
		out = append(out, CallSeq(l, "pkg/api/server", "WithQueryRateLimit")...)
		_, fd := mustFunc(l, "pkg/api/server", "WithQueryRateLimit")
		ast.Inspect(fd.Body, func(n ast.Node) bool {
			if as, ok := n.(*ast.AssignStmt); ok {
				out = append(out, srcText(l, as))
			}
			return true
		})
		return out, nil
	}
	// the status constant handed to the client
	factExtractors["c31_status_too_many_requests"] = func(l *Loader) (any, error) {
		p, err := l.Load("pkg/types")
		if err != nil {
			return nil, err
		}
		vs, i := p.FindValue("StatusTooManyRequests")
		if vs == nil || i >= len(vs.Values) {
			return nil, fmt.Errorf("StatusTooManyRequests not found")
		}
		return srcText(l, vs.Values[i]), nil
	}
	// semaphore library (TryAddFor: select { case l <- struct{}{}: return func(){ <-l } …; case <-ctx.Done(): … })
	factExtractors["c31_semaphore_library_version"] = func(l *Loader) (any, error) {
		return goModVersion(l.Root, "github.com/fako1024/gotools/concurrency")
	}
}
