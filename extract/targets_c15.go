package main

import (
	"fmt"
	"go/ast"
	"go/token"
	"strings"
)

// C15 — distributed aggregation.
//
// Regenerated into Lean: the streaming row cap. Facts (also emitted into Gen/Facts.lean, where the
// model *interprets* them): the field-wise `+=` programs of workload.Stats.Add and
// types.Counters.Add — the model's statistics/counter addition is whatever these lists say.
// Pinned by extract/expect/C15.json: the call sequences and assignment statements of
// aggregateResults / aggregateSingleResult / finalizeResult / Result.End / Statement.PostProcess /
// BinTime that the hand model mirrors.

func init() {
	addTargets(Target{File: "Distributed", Items: []Item{
		{Pkg: "cmd/global-query/pkg/distributed", Kind: "const", Name: "maxLimitStreaming"},
	}})
	const dist = "cmd/global-query/pkg/distributed"
	// the querier's fan-out (plugins/querier/apiclient/querier.go): the runner-count computation of
	// APIClientQuerier.Query is regenerated (bounded fragment, frag.go) as
	// Gen.Querier.numRunners (nHosts maxConcurrent : Int) : Int; everything else of Query,
	// prepareQueries, createQueryWorkload and ErrorRunner.Run is pinned statement by statement
	const qpkg = "plugins/querier/apiclient"
	addTargets(Target{File: "Querier", Items: []Item{
		{Pkg: qpkg, Kind: "frag", Name: "APIClientQuerier.Query", As: "numRunners",
			From: c15RunnersFrom, Until: c15RunnersUntil, Yield: []string{"numRunners"},
			Opaque: [][2]string{{"len(hosts)", "nHosts"}, {"a.MaxConcurrent", "maxConcurrent"}}},
	}})
	factExtractors["c15_querier_query_stmts"] = func(l *Loader) (any, error) {
		return c15StmtsOutside(l, qpkg, "APIClientQuerier.Query", c15RunnersFrom, c15RunnersUntil)
	}
	factExtractors["c15_querier_prepare_stmts"] = func(l *Loader) (any, error) {
		return c15StmtsOutside(l, qpkg, "APIClientQuerier.prepareQueries", "", "")
	}
	factExtractors["c15_querier_workload_stmts"] = func(l *Loader) (any, error) {
		return c15StmtsOutside(l, qpkg, "APIClientQuerier.createQueryWorkload", "", "")
	}
	factExtractors["c15_error_runner_stmts"] = func(l *Loader) (any, error) {
		return c15StmtsOutside(l, "pkg/distributed", "ErrorRunner.Run", "", "")
	}
	factExtractors["c15_querier_new_assigns"] = func(l *Loader) (any, error) { return c15Assigns(l, qpkg, "New"), nil }
	factExtractors["c15_querier_default_mc"] = func(l *Loader) (any, error) { return c15VarInit(l, qpkg, "defaultMaxConcurrent") }
	factExtractors["c15_runner_run_calls"] = func(l *Loader) (any, error) { return CallSeq(l, dist, "QueryRunner.run"), nil }
	factExtractors["c15_stats_add_lhs"] = func(l *Loader) (any, error) { a, _, err := c15AddProgram(l, "pkg/types/workload", "Stats.Add"); return a, err }
	factExtractors["c15_stats_add_rhs"] = func(l *Loader) (any, error) { _, b, err := c15AddProgram(l, "pkg/types/workload", "Stats.Add"); return b, err }
	factExtractors["c15_counters_add_lhs"] = func(l *Loader) (any, error) { a, _, err := c15AddProgram(l, "pkg/types", "Counters.Add"); return a, err }
	factExtractors["c15_counters_add_rhs"] = func(l *Loader) (any, error) { _, b, err := c15AddProgram(l, "pkg/types", "Counters.Add"); return b, err }
	factExtractors["c15_stats_add_calls"] = func(l *Loader) (any, error) { return CallSeq(l, "pkg/types/workload", "Stats.Add"), nil }
	factExtractors["c15_aggregate_results_calls"] = func(l *Loader) (any, error) { return CallSeq(l, dist, "aggregateResults"), nil }
	factExtractors["c15_aggregate_single_calls"] = func(l *Loader) (any, error) { return CallSeq(l, dist, "aggregateSingleResult"), nil }
	factExtractors["c15_aggregate_single_assigns"] = func(l *Loader) (any, error) { return c15Assigns(l, dist, "aggregateSingleResult"), nil }
	factExtractors["c15_aggregate_single_conds"] = func(l *Loader) (any, error) { return c15Conds(l, dist, "aggregateSingleResult"), nil }
	factExtractors["c15_finalize_calls"] = func(l *Loader) (any, error) { return CallSeq(l, dist, "finalizeResult"), nil }
	factExtractors["c15_finalize_assigns"] = func(l *Loader) (any, error) { return c15Assigns(l, dist, "finalizeResult"), nil }
	factExtractors["c15_finalize_conds"] = func(l *Loader) (any, error) { return c15Conds(l, dist, "finalizeResult"), nil }
	factExtractors["c15_result_end_assigns"] = func(l *Loader) (any, error) { return c15Assigns(l, "pkg/results", "Result.End"), nil }
	factExtractors["c15_result_end_conds"] = func(l *Loader) (any, error) { return c15Conds(l, "pkg/results", "Result.End"), nil }
	factExtractors["c15_postprocess_assigns"] = func(l *Loader) (any, error) { return c15Assigns(l, "pkg/query", "Statement.PostProcess"), nil }
	factExtractors["c15_postprocess_conds"] = func(l *Loader) (any, error) { return c15Conds(l, "pkg/query", "Statement.PostProcess"), nil }
	factExtractors["c15_bintime_assigns"] = func(l *Loader) (any, error) { return c15Assigns(l, "pkg/results", "TimeBinner.BinTime"), nil }
	factExtractors["c15_merge_row_assigns"] = func(l *Loader) (any, error) { return c15Assigns(l, "pkg/results", "RowsMap.MergeRow"), nil }
	factExtractors["c15_seterr_assigns"] = func(l *Loader) (any, error) { return c15Assigns(l, "pkg/results", "HostsStatuses.SetErr"), nil }
}

const (
	c15RunnersFrom  = "numRunners :="
	c15RunnersUntil = "logger := logging.FromContext(ctx)"
)

// c15StmtsOutside lists the source text (white space normalised, comments dropped) of every
// top-level statement of fn, in order; the stretch [from, until) — which is translated instead — is
// replaced by the marker "<fragment>". Both bounds must be found when given.
func c15StmtsOutside(l *Loader, pkg, fn, from, until string) ([]string, error) {
	_, fd := mustFunc(l, pkg, fn)
	out := []string{}
	state := 0 // 0 before, 1 inside, 2 after the stretch
	for _, s := range fd.Body.List {
		t := srcText(l, s)
		if from != "" && state == 0 && strings.HasPrefix(t, from) {
			state = 1
			out = append(out, "<fragment>")
		}
		if state == 1 && strings.HasPrefix(t, until) {
			state = 2
		}
		if state != 1 {
			out = append(out, t)
		}
	}
	if from != "" && state != 2 {
		return nil, fmt.Errorf("%s: stretch from %q to %q not found", fn, from, until)
	}
	return out, nil
}

// c15VarInit returns the source text of the initialiser of a package-level variable
func c15VarInit(l *Loader, pkg, name string) (string, error) {
	p, err := l.Load(pkg)
	if err != nil {
		return "", err
	}
	for _, f := range p.Files {
		for _, d := range f.Decls {
			gd, ok := d.(*ast.GenDecl)
			if !ok || gd.Tok != token.VAR {
				continue
			}
			for _, sp := range gd.Specs {
				vs := sp.(*ast.ValueSpec)
				for i, n := range vs.Names {
					if n.Name == name && i < len(vs.Values) {
						return srcText(l, vs.Values[i]), nil
					}
				}
			}
		}
	}
	return "", fmt.Errorf("variable %s not found in %s", name, pkg)
}

// c15AddProgram reads a method whose body is a sequence of `recv.X += param.Y` statements
// (besides calls and a nil guard) and returns the X's and the Y's in source order. Any other
// assignment / inc-dec statement is an extraction error.
func c15AddProgram(l *Loader, pkg, fn string) (lhs, rhs []string, err error) {
	_, fd := mustFunc(l, pkg, fn)
	if fd.Recv == nil || len(fd.Recv.List) != 1 || len(fd.Recv.List[0].Names) != 1 || fd.Type.Params == nil || len(fd.Type.Params.List) != 1 || len(fd.Type.Params.List[0].Names) != 1 {
		return nil, nil, fmt.Errorf("%s: expected a method with a named receiver and one named parameter", fn)
	}
	recv := fd.Recv.List[0].Names[0].Name
	param := fd.Type.Params.List[0].Names[0].Name
	lhs, rhs = []string{}, []string{}
	ast.Inspect(fd.Body, func(n ast.Node) bool {
		switch x := n.(type) {
		case *ast.IncDecStmt:
			err = fmt.Errorf("%s: unexpected statement %s", fn, srcText(l, x))
		case *ast.AssignStmt:
			ok := x.Tok == token.ADD_ASSIGN && len(x.Lhs) == 1 && len(x.Rhs) == 1
			var ls, rs *ast.SelectorExpr
			if ok {
				ls, ok = x.Lhs[0].(*ast.SelectorExpr)
			}
			if ok {
				rs, ok = x.Rhs[0].(*ast.SelectorExpr)
			}
			if ok {
				li, lok := ls.X.(*ast.Ident)
				ri, rok := rs.X.(*ast.Ident)
				ok = lok && rok && li.Name == recv && ri.Name == param
			}
			if !ok {
				err = fmt.Errorf("%s: unexpected statement %s", fn, srcText(l, x))
				return false
			}
			lhs = append(lhs, ls.Sel.Name)
			rhs = append(rhs, rs.Sel.Name)
		}
		return true
	})
	return lhs, rhs, err
}

// c15Assigns lists the source text of every assignment / inc-dec statement of fn, in source order.
func c15Assigns(l *Loader, pkg, fn string) []string {
	_, fd := mustFunc(l, pkg, fn)
	out := []string{}
	ast.Inspect(fd.Body, func(n ast.Node) bool {
		switch x := n.(type) {
		case *ast.AssignStmt:
			out = append(out, srcText(l, x))
		case *ast.IncDecStmt:
			out = append(out, srcText(l, x))
		}
		return true
	})
	return out
}

// c15Conds lists the conditions of every if statement and the range/for headers of fn, in source order.
func c15Conds(l *Loader, pkg, fn string) []string {
	_, fd := mustFunc(l, pkg, fn)
	out := []string{}
	ast.Inspect(fd.Body, func(n ast.Node) bool {
		switch x := n.(type) {
		case *ast.IfStmt:
			out = append(out, "if "+srcText(l, x.Cond))
		case *ast.RangeStmt:
			out = append(out, "range "+srcText(l, x.X))
		case *ast.ForStmt:
			c := ""
			if x.Cond != nil {
				c = srcText(l, x.Cond)
			}
			out = append(out, "for "+c)
		case *ast.ReturnStmt:
			out = append(out, "return")
		}
		return true
	})
	return out
}
