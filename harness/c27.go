//go:build verif_all || verif_c27

package main

import (
	"context"
	"errors"
	"fmt"
	"io"
	"os"
	"sort"
	"strconv"
	"strings"
	"sync"
	"time"

	"github.com/els0r/goProbe/v4/cmd/goProbe/config"
	"github.com/els0r/goProbe/v4/pkg/capture"
	"github.com/els0r/goProbe/v4/pkg/capture/capturetypes"
	"github.com/els0r/goProbe/v4/pkg/types"
	"github.com/els0r/telemetry/logging"
	"github.com/fako1024/gotools/link"
	slimcap "github.com/fako1024/slimcap/capture"
	"golang.org/x/net/bpf"
)

// C27 — capture reconfiguration. One case = the host links and a sequence of operations on ONE real
// capture.Manager whose captures run the real capture loop on scripted sources:
//
//   C27 L=<link,link,…|-> <op> <op> …
//     U;<cfg>[;late;<iface>;<flow>;<n>]  Manager.Update with that configuration. With `late`, n packets of
//                                        <flow> arrive on <iface> right after the final write-out of this
//                                        update has been handed over (if <iface> is part of it), i.e.
//                                        before the capture is closed
//     P;<iface>;<flow>;<n>               n packets of <flow> arrive on <iface> (and are processed)
//     R                                  the scheduled write-out (performWriteout of all captures)
//     E;0|1                              the host link lister works / fails from now on
//     X                                  Manager.Close()
//   <cfg>  = `-` (no interfaces) | `A[,<exclude>…]` (auto-detection) | <key>=<params>,<key>=<params>…
//   <key>  = interface name or /regexp/
//   <params> = p<0|1>v<0|1>r<N|<blocksize>x<numblocks>>f<#bpf instructions>d<0|1>
//
// Output: the results of the operations joined by " | ":
//   U → err:config | err:regexp | err:links |
//       ok en=<n,…> up=<n,…> dis=<n,…> run=<iface=<params of the capture>[~<params Config() reports>],…>
//          wo=<iface{flow:packets,…},…> [late=0|1] [leak=<ifaces>]
//   P → ok | none     R → wo=…     E → ok     X → wo=… run=…
// Every case runs c27Reps times on a fresh Manager; differing outputs give `nondet: <a> || <b>`.

const c27Reps = 4

// ---------------------------------------------------------------- scripted source

type c27Source struct {
	iface string
	cfg   config.CaptureConfig

	mu      sync.Mutex
	cond    *sync.Cond
	queue   [][]byte
	unblock int
	closed  bool
	waiting bool
}

func newC27Source(iface string, cfg config.CaptureConfig) *c27Source {
	s := &c27Source{iface: iface, cfg: cfg}
	s.cond = sync.NewCond(&s.mu)
	return s
}

func (s *c27Source) NextIPPacketZeroCopy() (slimcap.IPLayer, slimcap.PacketType, uint32, error) {
	s.mu.Lock()
	defer s.mu.Unlock()
	for {
		if s.closed {
			return nil, slimcap.PacketUnknown, 0, slimcap.ErrCaptureStopped
		}
		if s.unblock > 0 {
			s.unblock--
			return nil, slimcap.PacketUnknown, 0, slimcap.ErrCaptureUnblocked
		}
		if len(s.queue) > 0 {
			l := s.queue[0]
			s.queue = s.queue[1:]
			return slimcap.IPLayer(l), slimcap.PacketThisHost, 60, nil
		}
		s.waiting = true
		s.cond.Broadcast()
		s.cond.Wait()
		s.waiting = false
	}
}
func (s *c27Source) NextPayloadZeroCopy() ([]byte, slimcap.PacketType, uint32, error) {
	return nil, slimcap.PacketUnknown, 0, slimcap.ErrCaptureStopped
}
func (s *c27Source) NewPacket() slimcap.Packet { return nil }
func (s *c27Source) NextPacket(slimcap.Packet) (slimcap.Packet, error) {
	return nil, slimcap.ErrCaptureStopped
}
func (s *c27Source) NextPayload([]byte) ([]byte, byte, uint32, error) {
	return nil, 0, 0, slimcap.ErrCaptureStopped
}
func (s *c27Source) NextIPPacket(slimcap.IPLayer) (slimcap.IPLayer, slimcap.PacketType, uint32, error) {
	return nil, 0, 0, slimcap.ErrCaptureStopped
}
func (s *c27Source) NextPacketFn(func([]byte, uint32, slimcap.PacketType, byte) error) error {
	return slimcap.ErrCaptureStopped
}
func (s *c27Source) Stats() (slimcap.Stats, error) { return slimcap.Stats{}, nil }
func (s *c27Source) Link() *link.Link              { return &link.EmptyEthernetLink }
func (s *c27Source) Unblock() error {
	s.mu.Lock()
	s.unblock++
	s.cond.Broadcast()
	s.mu.Unlock()
	return nil
}
func (s *c27Source) Close() error {
	s.mu.Lock()
	s.closed = true
	s.cond.Broadcast()
	s.mu.Unlock()
	return nil
}

func (s *c27Source) isClosed() bool {
	s.mu.Lock()
	defer s.mu.Unlock()
	return s.closed
}

// inject queues n packets of the flow and waits until the capture loop has taken all of them and is
// back waiting for the next packet (outside a lock cycle that means: they are in the flow log).
func (s *c27Source) inject(flow, n int) bool {
	s.mu.Lock()
	defer s.mu.Unlock()
	if s.closed {
		return false
	}
	for i := 0; i < n; i++ {
		s.queue = append(s.queue, c27Packet(flow))
	}
	s.cond.Broadcast()
	deadline := time.Now().Add(10 * time.Second)
	for !(s.closed || (s.waiting && s.unblock == 0 && len(s.queue) == 0)) {
		if time.Now().After(deadline) {
			return false
		}
		// cond.Wait has no timeout: poll
		s.mu.Unlock()
		time.Sleep(20 * time.Microsecond)
		s.mu.Lock()
	}
	return !s.closed
}

// UDP/IPv4 packet 10.0.0.<flow>:40000 -> 10.0.1.1:53
func c27Packet(flow int) []byte {
	b := make([]byte, 28)
	b[0] = 0x45
	b[3] = 28
	b[8] = 64
	b[9] = 17
	copy(b[12:16], []byte{10, 0, 0, byte(flow)})
	copy(b[16:20], []byte{10, 0, 1, 1})
	b[20], b[21] = 0x9c, 0x40
	b[22], b[23] = 0, 53
	b[25] = 8
	return b
}

// ---------------------------------------------------------------- one run of a case

type c27Run struct {
	mu       sync.Mutex
	links    map[string]bool
	linkList []string
	linkErr  bool
	sources  []*c27Source // every source ever created
	wo       [][2]string  // write-out entries (interface, text) of the current operation
	late     *c27Late     // armed late packets of the current update
	lateDone bool
	stuck    bool
}

type c27Late struct {
	iface   string
	flow, n int
}

func (h *c27Run) live(iface string) *c27Source {
	h.mu.Lock()
	defer h.mu.Unlock()
	for i := len(h.sources) - 1; i >= 0; i-- {
		if h.sources[i].iface == iface && !h.sources[i].isClosed() {
			return h.sources[i]
		}
	}
	return nil
}

func (h *c27Run) liveNames() []string {
	h.mu.Lock()
	defer h.mu.Unlock()
	var out []string
	for _, s := range h.sources {
		if !s.isClosed() {
			out = append(out, s.iface)
		}
	}
	sort.Strings(out)
	return out
}

// HandleWriteout implements writeout.Handler: it records what it is handed (instead of writing it to
// a DB) and, once the write-out is complete, lets the armed late packets arrive.
func (h *c27Run) HandleWriteout(_ context.Context, _ time.Time, ch <-chan capturetypes.TaggedAggFlowMap) <-chan struct{} {
	done := make(chan struct{})
	go func() {
		defer close(done)
		seen := map[string]bool{}
		for m := range ch {
			flows := map[int]uint64{}
			if m.Map != nil {
				for it := m.Map.Iter(); it.Next(); {
					k, v := types.Key(it.Key()), it.Val()
					// flows are 10.0.0.<id> -> 10.0.1.1 (whichever way round the key was stored)
					ip := k.GetSIP()
					if len(ip) == 4 && ip[2] == 1 {
						ip = k.GetDIP()
					}
					id := int(ip[len(ip)-1])
					flows[id] += v.PacketsRcvd + v.PacketsSent
				}
			}
			var ids []int
			for id := range flows {
				ids = append(ids, id)
			}
			sort.Ints(ids)
			var fs []string
			for _, id := range ids {
				fs = append(fs, fmt.Sprintf("%d:%d", id, flows[id]))
			}
			h.mu.Lock()
			h.wo = append(h.wo, [2]string{m.Iface, m.Iface + "{" + strings.Join(fs, ",") + "}"})
			h.mu.Unlock()
			seen[m.Iface] = true
		}
		h.mu.Lock()
		late := h.late
		h.mu.Unlock()
		if late != nil && seen[late.iface] {
			if s := h.live(late.iface); s != nil {
				if s.inject(late.flow, late.n) {
					h.mu.Lock()
					h.lateDone = true
					h.mu.Unlock()
				}
			}
		}
	}()
	return done
}

func (h *c27Run) takeWO() string {
	h.mu.Lock()
	defer h.mu.Unlock()
	wo := h.wo
	h.wo = nil
	if len(wo) == 0 {
		return "-"
	}
	sort.SliceStable(wo, func(i, j int) bool { return wo[i][0] < wo[j][0] })
	var xs []string
	for _, e := range wo {
		xs = append(xs, e[1])
	}
	return strings.Join(xs, ",")
}

// c27List joins an already ordered list
func c27List(xs []string) string {
	if len(xs) == 0 {
		return "-"
	}
	return strings.Join(xs, ",")
}

func c27Changes(cs capturetypes.IfaceChanges) string {
	var xs []string
	// (the Success flags are not reported: update() sets them on copies of these slices)
	for _, c := range cs {
		xs = append(xs, c.Name)
	}
	sort.Strings(xs)
	return c27List(xs)
}

func c27ParamString(c config.CaptureConfig) string {
	b := func(x bool) string {
		if x {
			return "1"
		}
		return "0"
	}
	ring := "N"
	if c.RingBuffer != nil {
		ring = fmt.Sprintf("%dx%d", c.RingBuffer.BlockSize, c.RingBuffer.NumBlocks)
	}
	return "p" + b(c.Promisc) + "v" + b(c.IgnoreVLANs) + "r" + ring + "f" + strconv.Itoa(len(c.ExtraBPFFilters)) + "d" + b(c.Disable)
}

func c27ParseParams(s string) (c config.CaptureConfig, ok bool) {
	// p<0|1>v<0|1>r<N|AxB>f<k>d<0|1>
	if len(s) < 10 || s[0] != 'p' || s[2] != 'v' || s[4] != 'r' {
		return c, false
	}
	c.Promisc = s[1] == '1'
	c.IgnoreVLANs = s[3] == '1'
	rest := s[5:]
	fi := strings.LastIndexByte(rest, 'f')
	di := strings.LastIndexByte(rest, 'd')
	if fi < 0 || di < fi {
		return c, false
	}
	ring, f, d := rest[:fi], rest[fi+1:di], rest[di+1:]
	if ring != "N" {
		xi := strings.IndexByte(ring, 'x')
		if xi < 0 {
			return c, false
		}
		bs, err1 := strconv.Atoi(ring[:xi])
		nb, err2 := strconv.Atoi(ring[xi+1:])
		if err1 != nil || err2 != nil {
			return c, false
		}
		c.RingBuffer = &config.RingBufferConfig{BlockSize: bs, NumBlocks: nb}
	}
	k, err := strconv.Atoi(f)
	if err != nil || k < 0 || k > 16 {
		return c, false
	}
	for i := 0; i < k; i++ {
		// k instructions; the i-th differs between different k only by position
		c.ExtraBPFFilters = append(c.ExtraBPFFilters, bpf.RawInstruction{Op: 0x06, K: uint32(0x40000 + i)})
	}
	c.Disable = d == "1"
	return c, true
}

func c27ParseConfig(s string) (*config.Config, bool) {
	cfg := &config.Config{Interfaces: config.Ifaces{}}
	if s == "-" {
		return cfg, true
	}
	if s == "A" || strings.HasPrefix(s, "A,") {
		cfg.AutoDetection.Enabled = true
		if len(s) > 2 {
			cfg.AutoDetection.Exclude = strings.Split(s[2:], ",")
		}
		return cfg, true
	}
	for _, e := range strings.Split(s, ",") {
		i := strings.LastIndexByte(e, '=')
		if i < 0 {
			return nil, false
		}
		p, ok := c27ParseParams(e[i+1:])
		if !ok {
			return nil, false
		}
		cfg.Interfaces[e[:i]] = p
	}
	return cfg, true
}

func c27ErrKind(err error) string {
	msg := err.Error()
	switch {
	case strings.Contains(msg, "invalid regexp"):
		return "err:regexp"
	case strings.Contains(msg, "failed to get host links"):
		return "err:links"
	}
	return "err:config"
}

func (h *c27Run) runState(cm *capture.Manager) (string, string) {
	actual := cm.VerifCaptureConfigs()
	reported := cm.Config()
	var names, xs []string
	for n := range actual {
		names = append(names, n)
	}
	sort.Strings(names)
	for _, n := range names {
		a := c27ParamString(actual[n])
		e := n + "=" + a
		if rc, ok := reported[n]; !ok {
			e += "~none"
		} else if r := c27ParamString(rc); r != a {
			e += "~" + r
		}
		// the source the capture reads from was created for exactly this configuration
		if s := h.live(n); s == nil || c27ParamString(s.cfg) != a {
			e += "!src"
		}
		xs = append(xs, e)
	}
	leak := ""
	if l := h.liveNames(); strings.Join(l, ",") != strings.Join(names, ",") {
		leak = " leak=" + c27List(l)
	}
	return c27List(xs), leak
}

func c27RunOnce(f []string) string {
	if len(f) == 0 || !strings.HasPrefix(f[0], "L=") {
		return "err:bad-case"
	}
	h := &c27Run{links: map[string]bool{}}
	if l := f[0][2:]; l != "-" {
		for _, n := range strings.Split(l, ",") {
			h.links[n] = true
			h.linkList = append(h.linkList, n)
		}
	}
	restore := capture.VerifSetHostLinks(func(...string) (link.Links, error) {
		if h.linkErr {
			return nil, errors.New("netlink: scripted failure")
		}
		var ls link.Links
		for _, n := range h.linkList {
			ls = append(ls, &link.Link{Name: n})
		}
		return ls, nil
	})
	defer restore()
	ctx := context.Background()
	cm := capture.NewManager(h,
		capture.WithSkipWriteoutSchedule(true),
		capture.WithSourceInitFn(func(c *capture.Capture) (capture.Source, error) {
			if !h.links[c.Iface()] {
				return nil, errors.New("no such network interface")
			}
			s := newC27Source(c.Iface(), c.VerifConfig())
			h.mu.Lock()
			h.sources = append(h.sources, s)
			h.mu.Unlock()
			return s, nil
		}))
	// a panic inside Update leaves the manager locked: Close() must then not be attempted
	clean := false
	defer func() {
		if clean {
			cm.Close(ctx)
		}
	}()
	var out []string
	for _, op := range f[1:] {
		p := strings.Split(op, ";")
		switch {
		case p[0] == "U" && (len(p) == 2 || (len(p) == 6 && p[2] == "late")):
			cfg, ok := c27ParseConfig(p[1])
			if !ok {
				return "err:bad-case"
			}
			h.late, h.lateDone = nil, false
			if len(p) == 6 {
				fl, e1 := strconv.Atoi(p[4])
				n, e2 := strconv.Atoi(p[5])
				if e1 != nil || e2 != nil || fl < 1 || fl > 200 || n < 1 || n > 1000 {
					return "err:bad-case"
				}
				h.late = &c27Late{iface: p[3], flow: fl, n: n}
			}
			en, up, dis, err := cm.Update(ctx, cfg)
			if err != nil {
				h.late = nil
				out = append(out, c27ErrKind(err))
				continue
			}
			run, leak := h.runState(cm)
			res := "ok en=" + c27Changes(en) + " up=" + c27Changes(up) + " dis=" + c27Changes(dis) + " run=" + run + " wo=" + h.takeWO()
			if h.late != nil {
				if h.lateDone {
					res += " late=1"
				} else {
					res += " late=0"
				}
			}
			h.late = nil
			out = append(out, res+leak)
		case p[0] == "P" && len(p) == 4:
			fl, e1 := strconv.Atoi(p[2])
			n, e2 := strconv.Atoi(p[3])
			if e1 != nil || e2 != nil || fl < 1 || fl > 200 || n < 1 || n > 1000 {
				return "err:bad-case"
			}
			if s := h.live(p[1]); s == nil {
				out = append(out, "none")
			} else if s.inject(fl, n) {
				out = append(out, "ok")
			} else {
				out = append(out, "err:stuck")
			}
		case p[0] == "R" && len(p) == 1:
			cm.VerifPerformWriteout(ctx, time.Unix(1700000000, 0))
			out = append(out, "wo="+h.takeWO())
		case p[0] == "E" && len(p) == 2:
			h.linkErr = p[1] == "1"
			out = append(out, "ok")
		case p[0] == "X" && len(p) == 1:
			cm.Close(ctx)
			run, leak := h.runState(cm)
			out = append(out, "wo="+h.takeWO()+" run="+run+leak)
		default:
			return "err:bad-case"
		}
	}
	clean = true
	return strings.Join(out, " | ")
}

func c27Run1(f []string) (out string) {
	defer func() {
		if r := recover(); r != nil {
			out = "panic"
			if os.Getenv("VERIF_DEBUG") != "" {
				fmt.Fprintf(os.Stderr, "panic in %v: %v\n", f, r)
			}
		}
	}()
	return c27RunOnce(f)
}

func c27RunCase(f []string) string {
	first := c27Run1(f)
	for i := 1; i < c27Reps; i++ {
		if o := c27Run1(f); o != first {
			return "nondet: " + first + " || " + o
		}
	}
	return first
}

// ---------------------------------------------------------------- generation

var (
	c27Universe = []string{"eth0", "eth1", "eth10", "lo"}
	c27Names    = []string{"eth0", "eth1", "eth10", "lo", "eth2", "wlan0"}
	// patterns of the subset the Lean spec's matcher implements (literals . * ^ $), one invalid
	c27Patterns = []string{"eth.*", "eth1.*", "^eth1$", "^eth", "lo", ".*", "x", "eth0", "1", "^e.*0$", "0$", "th1", "eth1*", ""}
	c27Valid    = []string{"p0v0r1x4f0d0", "p1v0r1x4f0d0", "p0v1r1x4f0d0", "p0v0r2x4f0d0", "p0v0r1x8f0d0", "p0v0r1x4f1d0", "p0v0r1x4f2d0", "p1v1r2x8f1d0", "p0v0r1048576x4f0d0"}
	c27Invalid  = []string{"p0v0rNf0d0", "p0v0r0x4f0d0", "p0v0r1x0f0d0", "p0v0r-1x4f0d0", "p1v0rNf0d1", "p0v0r1x4f0d1", "p0v0rNf1d1", "p0v1rNf0d1"}
)

const c27Disabled = "p0v0rNf0d1"

type c27Entry struct{ key, params string }

func c27CfgString(es []c27Entry) string {
	if len(es) == 0 {
		return "-"
	}
	var xs []string
	for _, e := range es {
		xs = append(xs, e.key+"="+e.params)
	}
	return strings.Join(xs, ",")
}

func c27GenParams(r *Rand) string {
	switch r.Intn(20) {
	case 0:
		return Pick(r, c27Invalid)
	case 1, 2:
		return c27Disabled
	}
	if r.Chance(1, 2) {
		return c27Valid[r.Intn(3)]
	}
	return Pick(r, c27Valid)
}

func c27GenKey(r *Rand, used map[string]bool) string {
	for try := 0; try < 20; try++ {
		var k string
		switch r.Intn(12) {
		case 0, 1, 2, 3, 4:
			k = Pick(r, c27Names)
		case 5:
			if r.Chance(1, 6) {
				k = "/eth[/"
			} else if r.Chance(1, 6) {
				k = "/"
			} else {
				k = "/" + Pick(r, c27Patterns) + "/"
			}
		case 6, 7:
			k = "/" + Pick(r, c27Patterns) + "/"
		default:
			k = "/" + c27Patterns[r.Intn(4)] + "/"
		}
		if !used[k] {
			used[k] = true
			return k
		}
	}
	return ""
}

// a single-field change of a valid parameter set
func c27Tweak(r *Rand, p string) string {
	c, ok := c27ParseParams(p)
	if !ok || c.RingBuffer == nil {
		return Pick(r, c27Valid)
	}
	rb := *c.RingBuffer
	c.RingBuffer = &rb
	switch r.Intn(5) {
	case 0:
		c.Promisc = !c.Promisc
	case 1:
		c.IgnoreVLANs = !c.IgnoreVLANs
	case 2:
		c.RingBuffer.BlockSize = 3 - c.RingBuffer.BlockSize
		if c.RingBuffer.BlockSize <= 0 {
			c.RingBuffer.BlockSize = 2
		}
	case 3:
		c.RingBuffer.NumBlocks = 12 - c.RingBuffer.NumBlocks
		if c.RingBuffer.NumBlocks <= 0 {
			c.RingBuffer.NumBlocks = 8
		}
	default:
		n := (len(c.ExtraBPFFilters) + 1) % 3
		c.ExtraBPFFilters = make([]bpf.RawInstruction, n)
	}
	return c27ParamString(c)
}

func c27GenCase(r *Rand, maxUpd int) Case {
	links := append([]string(nil), c27Universe...)
	switch r.Intn(8) {
	case 0:
		links = links[:r.Intn(len(links)+1)]
	case 1:
		links = append(links, "wlan0")
	case 2:
		links = []string{"eth10", "eth1", "lo"}
	}
	linkField := "L=-"
	if len(links) > 0 {
		linkField = "L=" + strings.Join(links, ",")
	}
	ops := []string{linkField}
	var cur []c27Entry
	used := map[string]bool{}
	nUpd := 2 + r.Intn(maxUpd-1)
	overlapping, paramChange, traffic := false, false, false
	for u := 0; u < nUpd; u++ {
		// mutate the current configuration
		auto := ""
		switch k := r.Intn(14); {
		case u == 0 || k == 0:
			cur, used = nil, map[string]bool{}
			for i, n := 0, 1+r.Intn(4); i < n; i++ {
				if key := c27GenKey(r, used); key != "" {
					cur = append(cur, c27Entry{key, c27GenParams(r)})
				}
			}
		case k <= 3 && len(cur) > 0: // parameter change of one entry
			i := r.Intn(len(cur))
			cur[i].params = c27Tweak(r, cur[i].params)
			paramChange = true
		case k <= 5: // add an entry
			if key := c27GenKey(r, used); key != "" {
				cur = append(cur, c27Entry{key, c27GenParams(r)})
			}
		case k <= 7 && len(cur) > 0: // remove an entry
			i := r.Intn(len(cur))
			delete(used, cur[i].key)
			cur = append(cur[:i:i], cur[i+1:]...)
		case k == 8 && len(cur) > 1: // same configuration, listed in another order
			r.Shuffle(len(cur), func(i, j int) { cur[i], cur[j] = cur[j], cur[i] })
		case k == 9: // auto-detection
			auto = "A"
			for i, n := 0, r.Intn(3); i < n; i++ {
				if r.Bool() {
					auto += "," + Pick(r, c27Names)
				} else if r.Chance(1, 8) {
					auto += ",/eth[/"
				} else {
					auto += ",/" + Pick(r, c27Patterns) + "/"
				}
			}
		case k == 10 && len(cur) > 0: // disable / re-enable one entry
			i := r.Intn(len(cur))
			if cur[i].params == c27Disabled {
				cur[i].params = c27Valid[0]
			} else {
				cur[i].params = c27Disabled
			}
		case k == 11:
			cur, used = nil, map[string]bool{}
		default: // swap the parameters of two entries (regexp choice becomes visible)
			if len(cur) > 1 {
				i, j := r.Intn(len(cur)), r.Intn(len(cur))
				cur[i].params, cur[j].params = cur[j].params, cur[i].params
				paramChange = true
			}
		}
		nre := 0
		for _, e := range cur {
			if strings.HasPrefix(e.key, "/eth") || e.key == "/.*/" || e.key == "/1/" || e.key == "/th1/" {
				nre++
			}
		}
		if nre > 1 {
			overlapping = true
		}
		if r.Chance(1, 12) {
			ops = append(ops, "E;1")
		}
		op := "U;" + c27CfgString(cur)
		if auto != "" {
			op = "U;" + auto
		}
		if u > 0 && r.Chance(1, 6) {
			op += fmt.Sprintf(";late;%s;%d;%d", Pick(r, c27Universe), 1+r.Intn(5), 1+r.Intn(3))
		}
		ops = append(ops, op)
		if r.Chance(1, 10) {
			ops = append(ops, "E;0")
		}
		for i, n := 0, r.Intn(4); i < n; i++ {
			ops = append(ops, fmt.Sprintf("P;%s;%d;%d", Pick(r, c27Names[:5]), 1+r.Intn(5), 1+r.Intn(3)))
			traffic = true
		}
		if r.Chance(1, 5) {
			ops = append(ops, "R")
		}
		if r.Chance(1, 15) {
			ops = append(ops, "X")
		}
	}
	ops = append(ops, "X")
	class := "plain"
	switch {
	case overlapping && paramChange:
		class = "overlap+paramchange"
	case overlapping:
		class = "overlap"
	case paramChange:
		class = "paramchange"
	}
	return Case{Line: "C27 " + strings.Join(ops, " "), Class: class, NonTrivial: nUpd >= 2 && traffic && (overlapping || paramChange)}
}

func c27Gen(r *Rand, tier string) []Case {
	n, maxUpd := 520, 8
	if tier == "thorough" {
		n, maxUpd = 50000, 12
	}
	var cs []Case
	// systematic: every pair of entries from a small set over the full universe, with a change of
	// one parameter of the second entry afterwards and a removal at the end
	keys := []string{"eth1", "eth10", "/eth.*/", "/eth1.*/", "/^eth1$/", "/.*/", "lo"}
	for i, a := range keys {
		for j, b := range keys {
			if i == j {
				continue
			}
			pa, pb := c27Valid[(i+j)%3], c27Valid[(i+2*j+1)%3]
			line := fmt.Sprintf("C27 L=eth0,eth1,eth10,lo U;%s=%s,%s=%s P;eth10;1;2 P;eth1;2;1 U;%s=%s,%s=%s P;eth10;3;1 U;%s=%s X",
				a, pa, b, pb, a, pa, b, c27Tweak(r, pb), a, pa)
			cs = append(cs, Case{Line: line, Class: "systematic", NonTrivial: true})
		}
	}
	for i := 0; i < n; i++ {
		cs = append(cs, c27GenCase(r, maxUpd))
	}
	return cs
}

func init() {
	register(&Prop{
		ID:   "C27",
		Rule: "Sequences of 2…8 (thorough …12) Manager.Update calls on ONE real capture.Manager over host links drawn from {eth0,eth1,eth10,lo,wlan0} (stubbed link lister, sometimes failing), whose captures run the real capture loop on scripted sources (a source only starts for an existing link). Configurations evolve by seeded mutations: fresh configuration of 1…4 entries (explicit names incl. a non-existing eth2, overlapping regexps /eth.*/ /eth1.*/ /^eth1$/ /^eth/ /.*/ … , an invalid regexp, a lone \"/\"), single-parameter changes (promisc, ignore_vlans, ring buffer block size / number of blocks, extra BPF filter), entry added / removed / disabled, same entries listed in another order, parameters of two entries swapped, auto-detection with exclusions, empty and invalid configurations. Between updates packets of flows 1…5 arrive on the interfaces, scheduled write-outs and Close() happen, and `late` packets arrive right after the final write-out of an update. A systematic block covers every ordered pair of {eth1,eth10,/eth.*/,/eth1.*/,/^eth1$/,/.*/,lo} with a parameter change and a removal. Every case runs 4 times on a fresh Manager (map-order dependence shows as `nondet`). Non-trivial: at least 2 updates, traffic, and overlapping regexps or a parameter change of an entry. Distinct = distinct case lines.",
		Gen:  c27Gen,
		Run:  c27RunCase,
		Init: func(string) error {
			_, err := logging.Init(logging.LevelError+100, logging.EncodingLogfmt, logging.WithOutput(io.Discard), logging.WithErrorOutput(io.Discard))
			return err
		},
	})
}
