//go:build verif_all || verif_c14

package main

import (
	"context"
	"fmt"
	"math/big"
	"net/netip"
	"strconv"
	"strings"
	"time"

	gqdist "github.com/els0r/goProbe/v4/cmd/global-query/pkg/distributed"
	"github.com/els0r/goProbe/v4/pkg/query"
	"github.com/els0r/goProbe/v4/pkg/results"
	"github.com/els0r/goProbe/v4/pkg/types"
)

// C14 — result ordering (results.By(...).Sort) and the row limit ((*Statement).PostProcess,
// distributed.finalizeResult) on shuffled multisets of rows.

// c14Row is the wire form of a row (see lean/GoProbeModel/Spec/C14.lean)
type c14Row struct {
	inst         *big.Int // ns since the Unix epoch
	loc          int      // identity of the *time.Location
	host, hostID string
	iface        string
	sip, dip     netip.Addr
	dport        uint16
	proto        uint8
	c            [4]uint64 // bytes rcvd, bytes sent, packets rcvd, packets sent
}

var c14E9 = big.NewInt(1000000000)

func c14AddrWire(a netip.Addr) string {
	if !a.IsValid() {
		return "0:0:-"
	}
	b := a.AsSlice()
	return fmt.Sprintf("%d:%s:%s", a.BitLen(), new(big.Int).SetBytes(b).String(), esc(a.Zone()))
}

func c14ParseAddr(bl, v, z string) netip.Addr {
	n, _ := new(big.Int).SetString(v, 10)
	switch bl {
	case "32":
		var b [4]byte
		n.FillBytes(b[:])
		return netip.AddrFrom4(b)
	case "128":
		var b [16]byte
		n.FillBytes(b[:])
		return netip.AddrFrom16(b).WithZone(unesc(z))
	}
	return netip.Addr{}
}

func (r c14Row) wire() string {
	return fmt.Sprintf("%s:%d:%s:%s:%s:%s:%s:%d:%d:%d:%d:%d:%d", r.inst.String(), r.loc, esc(r.host), esc(r.hostID), esc(r.iface),
		c14AddrWire(r.sip), c14AddrWire(r.dip), r.dport, r.proto, r.c[0], r.c[1], r.c[2], r.c[3])
}

// c14ToRow builds the real row; locs maps location ids to *time.Location (id 0 = UTC)
func c14ToRow(f []string, locs map[int]*time.Location) results.Row {
	inst, _ := new(big.Int).SetString(f[0], 10)
	sec, nsec := new(big.Int).DivMod(inst, c14E9, new(big.Int)) // Euclidean: 0 <= nsec < 1e9
	id, _ := strconv.Atoi(f[1])
	loc, ok := locs[id]
	if !ok {
		if id == 0 {
			loc = time.UTC
		} else {
			// distinct pointer per id; several ids share name and offset on purpose
			loc = time.FixedZone(fmt.Sprintf("Z%d", id%3), (id%3-1)*3600)
		}
		locs[id] = loc
	}
	u16 := func(s string) uint64 { v, _ := strconv.ParseUint(s, 10, 64); return v }
	return results.Row{
		Labels: results.Labels{
			Timestamp: time.Unix(sec.Int64(), nsec.Int64()).In(loc),
			Hostname:  unesc(f[2]), HostID: unesc(f[3]), Iface: unesc(f[4]),
		},
		Attributes: results.Attributes{
			SrcIP: c14ParseAddr(f[5], f[6], f[7]), DstIP: c14ParseAddr(f[8], f[9], f[10]),
			DstPort: uint16(u16(f[11])), IPProto: uint8(u16(f[12])),
		},
		Counters: types.Counters{BytesRcvd: u16(f[13]), BytesSent: u16(f[14]), PacketsRcvd: u16(f[15]), PacketsSent: u16(f[16])},
	}
}

func c14Run(f []string) string {
	if len(f) != 8 {
		return "bad-case"
	}
	mode := f[0]
	sortBy, _ := strconv.Atoi(f[1])
	dir, _ := strconv.Atoi(f[2])
	asc := f[3] == "1"
	limit, _ := strconv.ParseUint(f[4], 10, 64)
	ub, _ := strconv.ParseUint(f[5], 10, 64)
	locs := map[int]*time.Location{}
	var rows []results.Row
	first := map[results.Row]int{}
	for _, rs := range splitSemi(f[6]) {
		p := strings.Split(rs, ":")
		if len(p) != 17 {
			return "bad-case"
		}
		r := c14ToRow(p, locs)
		if _, ok := first[r]; !ok {
			first[r] = len(rows)
		}
		rows = append(rows, r)
	}
	ctx := context.Background()
	// runOnce sends one input order through the chosen path with the given limit / upper bound
	runOnce := func(in results.Rows, limit, ub uint64) string {
		stmt := &query.Statement{NumResults: limit, SortBy: results.SortOrder(sortBy), Direction: types.Direction(dir), SortAscending: asc}
		res := results.New()
		switch mode {
		case "L":
			// the local query path: goDB/engine sorts, the caller post-processes (limit)
			results.By(stmt.SortBy, stmt.Direction, stmt.SortAscending).Sort(in)
			res.Rows = in
			if err := stmt.PostProcess(ctx, res); err != nil {
				return "err:postprocess"
			}
			if res.Summary.Hits.Displayed != len(res.Rows) {
				return "err:displayed-mismatch"
			}
		case "D":
			rm := results.RowsMap{}
			for _, r := range in {
				rm[results.MergeableAttributes{Labels: r.Labels, Attributes: r.Attributes}] = r.Counters
			}
			if len(rm) != len(in) {
				return "err:duplicate-rows-in-D"
			}
			gqdist.VerifFinalizeResult(ctx, res, stmt, rm, ub)
		default:
			return "err:bad-mode"
		}
		// the statement is shared by every partial and the final result of a (streamed) query
		if stmt.NumResults != limit || stmt.SortBy != results.SortOrder(sortBy) || stmt.SortAscending != asc {
			return "err:statement-changed"
		}
		var idx []string
		for _, r := range res.Rows {
			i, ok := first[r]
			if !ok {
				return "err:foreign-row"
			}
			idx = append(idx, strconv.Itoa(i))
		}
		return listField(idx)
	}
	big := uint64(len(rows) + 1000)
	var outs []string
	for _, sh := range strings.Split(f[7], "|") {
		var in results.Rows
		for _, is := range splitList(sh) {
			i, _ := strconv.Atoi(is)
			if i < 0 || i >= len(rows) {
				return "bad-case"
			}
			in = append(in, rows[i])
		}
		lim := runOnce(append(results.Rows{}, in...), limit, ub)
		full := runOnce(append(results.Rows{}, in...), big, big)
		if strings.HasPrefix(lim, "err:") {
			return lim
		}
		if strings.HasPrefix(full, "err:") {
			return full
		}
		outs = append(outs, lim+"/"+full)
	}
	return strings.Join(outs, "|")
}

// ---------------------------------------------------------------- generation

var c14ZeroInst = new(big.Int).Mul(big.NewInt(-62135596800), c14E9) // time.Time{}

type c14Key struct {
	inst        string
	host, iface string
	sip, dip    netip.Addr
	dport       uint16
	proto       uint8
}

func c14Gen(r *Rand, tier string) []Case {
	n := 3000
	if tier == "thorough" {
		n = 60000
	}
	hostPool := []string{"", "a", "A", "ab", "abc", "host-1", "host-10", "host-2", "h\xc3\xb6st", "z z", "b:1", "\xff"}
	ifacePool := []string{"", "eth0", "eth1", "eth10", "lo", "wlan0", "eth0.100"}
	mustA := netip.MustParseAddr
	addrPool := []netip.Addr{{}, mustA("0.0.0.0"), mustA("10.0.0.1"), mustA("10.0.0.2"), mustA("9.255.255.255"), mustA("255.255.255.255"),
		mustA("::"), mustA("::1"), mustA("::ffff:10.0.0.1"), mustA("2001:db8::1"), mustA("2001:db8::2"), mustA("fe80::1%eth0"), mustA("fe80::1%eth1"), mustA("fe80::1"),
		mustA("ffff:ffff:ffff:ffff:ffff:ffff:ffff:ffff")}
	randAddr := func() netip.Addr {
		switch r.Intn(3) {
		case 0:
			var b [4]byte
			copy(b[:], r.Bytes(4))
			return netip.AddrFrom4(b)
		case 1:
			var b [16]byte
			copy(b[:], r.Bytes(16))
			return netip.AddrFrom16(b)
		}
		return Pick(r, addrPool)
	}
	type cmp struct{ s, d int }
	valid := []cmp{{1, 1}, {1, 2}, {1, 3}, {1, 4}, {2, 1}, {2, 2}, {2, 3}, {2, 4}, {3, 0}, {3, 1}, {3, 2}, {3, 3}, {3, 4}, {3, 5}}
	invalid := []cmp{{0, 1}, {4, 2}, {1, 0}, {2, 0}, {1, 5}, {2, 7}, {-1, 1}}
	var cs []Case
	for i := 0; i < n; i++ {
		maxRows := 40
		if tier == "thorough" && r.Chance(1, 400) {
			maxRows = 600
		}
		nrows := r.Intn(maxRows + 1)
		if r.Chance(1, 3) {
			nrows = 13 + r.Intn(maxRows-12) // beyond sort.Sort's insertion-sort threshold
		}
		// per-case pools, small so that ties are frequent
		nh, ni, na, nt, nl := 1+r.Intn(4), 1+r.Intn(3), 1+r.Intn(4), 1+r.Intn(3), 1+r.Intn(4)
		hosts := make([]string, nh)
		for j := range hosts {
			hosts[j] = Pick(r, hostPool)
		}
		ifaces := make([]string, ni)
		for j := range ifaces {
			ifaces[j] = Pick(r, ifacePool)
		}
		addrs := make([]netip.Addr, na)
		for j := range addrs {
			if r.Chance(1, 2) {
				addrs[j] = Pick(r, addrPool)
			} else {
				addrs[j] = randAddr()
			}
		}
		insts := make([]*big.Int, nt)
		base := 1700000000 + 300*r.I64n(1000)
		allZero := r.Chance(1, 5) // no time label: every row carries time.Time{}
		for j := range insts {
			switch {
			case allZero:
				insts[j] = c14ZeroInst
			case r.Chance(1, 10):
				insts[j] = big.NewInt(-r.I64n(1 << 40)) // before 1970
			case r.Chance(1, 8):
				insts[j] = new(big.Int).Add(new(big.Int).Mul(big.NewInt(base), c14E9), big.NewInt(r.I64n(3)-1)) // +-1 ns
			default:
				insts[j] = new(big.Int).Mul(big.NewInt(base+300*r.I64n(3)), c14E9)
			}
		}
		cmode := r.Intn(4) // counters: all equal / tiny / large / boundary
		counter := func() uint64 {
			switch cmode {
			case 0:
				return 7
			case 1:
				return uint64(r.Intn(3))
			case 2:
				return r.U64() >> 2
			}
			return Pick(r, []uint64{0, 1, 1<<62 - 1, 1 << 62, 1<<63 - 1})
		}
		var rows []c14Row
		seen := map[c14Key]bool{}
		multiZone := false
		instLoc := map[string]int{}
		for j := 0; j < nrows; j++ {
			h := Pick(r, hosts)
			row := c14Row{inst: Pick(r, insts), loc: r.Intn(nl), host: h, hostID: "id/" + h, iface: Pick(r, ifaces),
				sip: Pick(r, addrs), dip: Pick(r, addrs), dport: Pick(r, []uint16{0, 53, 80, 443, 65535}), proto: Pick(r, []uint8{0, 1, 6, 17, 255})}
			if r.Chance(1, 6) {
				row.dport = uint16(r.Intn(65536))
			}
			for k := range row.c {
				row.c[k] = counter()
			}
			k := c14Key{row.inst.String(), row.host, row.iface, row.sip, row.dip, row.dport, row.proto}
			if seen[k] {
				continue // the comparator cannot tell such rows apart: outside the property's domain
			}
			seen[k] = true
			if l, ok := instLoc[k.inst]; ok && l != row.loc {
				multiZone = true
			}
			instLoc[k.inst] = row.loc
			rows = append(rows, row)
		}
		mode := "L"
		if r.Chance(1, 3) {
			mode = "D"
		}
		dups := false
		if mode == "L" && len(rows) > 0 && r.Chance(1, 6) { // exact duplicates are fine: any order of them is the same list
			for k := 0; k < 1+r.Intn(3); k++ {
				rows = append(rows, Pick(r, rows))
				dups = true
			}
		}
		c := valid[i%len(valid)]
		isValid := true
		if r.Chance(1, 40) {
			c, isValid = Pick(r, invalid), false
		}
		asc := r.Bool()
		var limit uint64
		switch r.Intn(6) {
		case 0:
			limit = 1
		case 1:
			limit = uint64(len(rows))
		case 2:
			limit = uint64(len(rows)) + 1
		case 3:
			limit = 1000
		default:
			limit = uint64(1 + r.Intn(len(rows)+2))
		}
		if limit == 0 {
			limit = 1
		}
		ub := uint64(0)
		if mode == "D" {
			switch r.Intn(3) {
			case 0:
				ub = limit // the non-streaming path
			case 1:
				ub = gqdist.VerifMaxLimitStreaming
			default:
				ub = uint64(1 + r.Intn(len(rows)+2))
			}
		}
		// shuffles: identity, reverse, random permutations
		nsh := 3 + r.Intn(4)
		var shs []string
		distinctSh := map[string]bool{}
		for k := 0; k < nsh; k++ {
			perm := make([]int, len(rows))
			for j := range perm {
				perm[j] = j
			}
			switch k {
			case 0:
			case 1:
				for a, b := 0, len(perm)-1; a < b; a, b = a+1, b-1 {
					perm[a], perm[b] = perm[b], perm[a]
				}
			default:
				r.Shuffle(len(perm), func(a, b int) { perm[a], perm[b] = perm[b], perm[a] })
			}
			var ps []string
			for _, p := range perm {
				ps = append(ps, strconv.Itoa(p))
			}
			s := listField(ps)
			distinctSh[s] = true
			shs = append(shs, s)
		}
		// ties on the primary key?
		tie := false
		if isValid {
			keys := map[string]bool{}
			rcvd, sent := 2, 3 // packets
			if c.s == 2 {
				rcvd, sent = 0, 1 // bytes
			}
			for _, row := range rows {
				var k string
				switch {
				case c.s == 3:
					k = row.inst.String()
				case c.d == 2:
					k = strconv.FormatUint(row.c[rcvd], 10)
				case c.d == 3:
					k = strconv.FormatUint(row.c[sent], 10)
				default:
					k = new(big.Int).Add(new(big.Int).SetUint64(row.c[sent]), new(big.Int).SetUint64(row.c[rcvd])).String()
				}
				if keys[k] {
					tie = true
				}
				keys[k] = true
			}
		}
		var rws []string
		for _, row := range rows {
			rws = append(rws, row.wire())
		}
		cls := mode + ":valid"
		if !isValid {
			cls = mode + ":no-such-comparator"
		} else {
			cls += fmt.Sprintf(":ties=%v:same-instant-two-zones=%v:dups=%v", tie, multiZone, dups)
		}
		cs = append(cs, Case{
			Line:       fmt.Sprintf("C14 %s %d %d %s %d %d %s %s", mode, c.s, c.d, b2s(asc), limit, ub, semiField(rws), strings.Join(shs, "|")),
			Class:      cls,
			NonTrivial: isValid && tie && len(distinctSh) >= 2,
		})
	}
	return cs
}

func init() {
	register(&Prop{
		ID:   "C14",
		Rule: "seeded: one multiset of <=40 rows (thorough: occasionally <=600) per case, drawn from small per-case pools (host names incl. empty / prefixes / non-ASCII bytes, interfaces, v4 / v6 / 4-in-6 / zoned / zero addresses, 1-3 instants incl. time.Time{}, pre-1970 and +-1ns, 1-4 *time.Location identities incl. equal-offset FixedZones, counters all-equal / tiny / large / boundary), deduplicated on (instant, host, iface, attributes), sometimes with exact duplicate rows; one of the 14 valid (sort key, direction) selections in turn (1/40: an invalid one) x random ascending flag; limit 1 / len / len+1 / 1000 / random; mode L = By(...).Sort + Statement.PostProcess, mode D = distributed.finalizeResult over a RowsMap (random map order) with upper bound = limit / maxLimitStreaming / random; 3-6 input orders per case (identity, reverse, random). Non-trivial: valid comparator, at least two rows tie on the primary key, at least two distinct input orders. Distinct = distinct case lines.",
		Gen:  c14Gen,
		Run:  c14Run,
	})
}
