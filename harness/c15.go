//go:build verif_all || verif_c15

package main

import (
	"context"
	"errors"
	"fmt"
	"io"
	"sort"
	"strconv"
	"strings"
	"time"

	"github.com/danielgtaylor/huma/v2/sse"
	gqdist "github.com/els0r/goProbe/v4/cmd/global-query/pkg/distributed"
	"github.com/els0r/goProbe/v4/pkg/api"
	"github.com/els0r/goProbe/v4/pkg/query"
	"github.com/els0r/goProbe/v4/pkg/results"
	"github.com/els0r/goProbe/v4/pkg/types"
	"github.com/els0r/goProbe/v4/pkg/types/workload"
	"github.com/els0r/telemetry/logging"
)

// C15 — distributed results do not depend on the order in which the hosts reply.
//
// One case line holds a *set* of per-host replies, a query configuration and a list of arrival
// orders (permutations). For every arrival order the real `aggregateResults` (hook
// VerifAggregateResults) is run twice on fresh copies of the replies: without a sender (batch)
// and with a recording sse.Sender (streaming). The output line holds, per arrival order, the
// canonical batch result, the canonical final streaming result and a digest of every partial
// result that was sent.
//
// wire:  C15 agg <cfg> <replies> <perms>
//   cfg     = sortBy,dir,asc,limit,tsLabel,binSecs      (bytes|packets|time , sum|in|out|both)
//   replies = reply;reply;...
//   reply   = E/<host>/<msg>/<wrapped>
//           | R/<host>/<statuses>/<ifaces>/<first>/<last>/<totals>/<stats>/<hitsTotal>/<rows>
//     statuses = host:code:msg,...   ifaces = i,...   first,last = unix seconds | z (zero time)
//     totals = br:bs:pr:ps   stats = nil | bl:bd:bp:bc:dp:wl   rows = ts:iface:dport:br:bs:pr:ps,...
//   perms   = i,j,k;...  (indices into replies)
// output: per permutation  B<result>#S<result>#P<partials>  joined by '|';
//   B is "=" when equal to the first permutation's batch result, S is "=" when equal to this
//   permutation's batch result.
//   result   = code:msg;hosts;ifaces;first:last;totals;stats;hitsTotal:displayed;rows
//   partials = nrows:hitsTotal:displayed:code,...
//
// Two more case kinds (`C15 fan …`, `C15 run …`, see c15_fan.go) put the real APIClientQuerier.Query —
// and the real distributed QueryRunner.Run — in front of the aggregation, against per-host goProbe
// API endpoints served by httptest servers.

type c15Reply struct {
	isErr    bool
	host     int
	msg      string
	wrapped  bool
	statuses [][3]string // host, code, msg
	ifaces   []int
	first    string
	last     string
	totals   [4]uint64
	stats    *[6]uint64
	hits     int
	rows     [][7]string
}

func c15Host(i int) string  { return fmt.Sprintf("h%02d", i) }
func c15Iface(i int) string { return fmt.Sprintf("eth%d", i) }

func c15Time(s string) time.Time {
	if s == "z" {
		return time.Time{}
	}
	v, _ := strconv.ParseInt(s, 10, 64)
	return time.Unix(v, 0)
}

func c15ShowTime(t time.Time) string {
	if t.IsZero() {
		return "z"
	}
	return strconv.FormatInt(t.Unix(), 10)
}

var c15Codes = map[string]types.Status{"ok": types.StatusOK, "empty": types.StatusEmpty, "error": types.StatusError, "missing": types.StatusMissingData, "toomany": types.StatusTooManyRequests}

func c15Code(s string) types.Status {
	if c, ok := c15Codes[s]; ok {
		return c
	}
	return types.Status(unesc(s))
}

func c15ShowCode(c types.Status) string {
	for k, v := range c15Codes {
		if v == c {
			return k
		}
	}
	return "other." + esc(string(c))
}

func c15Msg(s string) string {
	switch s {
	case "-":
		return ""
	case "noresults":
		return results.ErrorNoResults.Error()
	case "nodata":
		return results.ErrorDataMissing.Error()
	}
	return s
}

func c15ShowMsg(m string) string {
	switch m {
	case "":
		return "-"
	case results.ErrorNoResults.Error():
		return "noresults"
	case results.ErrorDataMissing.Error():
		return "nodata"
	}
	return esc(m)
}

func c15ParseReply(s string) c15Reply {
	p := strings.Split(s, "/")
	var r c15Reply
	r.host, _ = strconv.Atoi(p[1])
	if p[0] == "E" {
		r.isErr = true
		r.msg = p[2]
		r.wrapped = p[3] == "1"
		return r
	}
	for _, st := range splitList(p[2]) {
		q := strings.Split(st, ":")
		r.statuses = append(r.statuses, [3]string{q[0], q[1], q[2]})
	}
	for _, i := range splitList(p[3]) {
		v, _ := strconv.Atoi(i)
		r.ifaces = append(r.ifaces, v)
	}
	r.first, r.last = p[4], p[5]
	for i, v := range strings.Split(p[6], ":") {
		r.totals[i], _ = strconv.ParseUint(v, 10, 64)
	}
	if p[7] != "nil" {
		var st [6]uint64
		for i, v := range strings.Split(p[7], ":") {
			st[i], _ = strconv.ParseUint(v, 10, 64)
		}
		r.stats = &st
	}
	r.hits, _ = strconv.Atoi(p[8])
	for _, row := range splitList(p[9]) {
		q := strings.Split(row, ":")
		var a [7]string
		copy(a[:], q)
		r.rows = append(r.rows, a)
	}
	return r
}

// build makes a fresh *results.Result, shaped like what a Querier puts on the channel
func (r *c15Reply) build() *results.Result {
	if r.isErr {
		// plugins/querier/apiclient: qr = results.New(); qr.SetErr(err); qr.Hostname = host
		var err error = errors.New(r.msg)
		if r.wrapped {
			err = fmt.Errorf("failed to run query: %w", err)
		}
		qr := results.New()
		qr.SetErr(err)
		qr.Hostname = c15Host(r.host)
		return qr
	}
	qr := results.New()
	qr.Start()
	qr.Hostname = c15Host(r.host)
	for _, st := range r.statuses {
		h, _ := strconv.Atoi(st[0])
		qr.HostsStatuses[c15Host(h)] = results.Status{Code: c15Code(st[1]), Message: c15Msg(st[2])}
	}
	qr.Summary.Interfaces = results.Interfaces{}
	for _, i := range r.ifaces {
		qr.Summary.Interfaces = append(qr.Summary.Interfaces, c15Iface(i))
	}
	qr.Summary.First, qr.Summary.Last = c15Time(r.first), c15Time(r.last)
	qr.Summary.Totals = types.Counters{BytesRcvd: r.totals[0], BytesSent: r.totals[1], PacketsRcvd: r.totals[2], PacketsSent: r.totals[3]}
	qr.Summary.Stats = nil
	if r.stats != nil {
		s := r.stats
		qr.Summary.Stats = &workload.Stats{BytesLoaded: s[0], BytesDecompressed: s[1], BlocksProcessed: s[2], BlocksCorrupted: s[3], DirectoriesProcessed: s[4], Workloads: s[5]}
	}
	qr.Summary.Hits.Total = r.hits
	qr.Summary.DataAvailable = true
	qr.Query = results.Query{Attributes: []string{"dport"}}
	for _, row := range r.rows {
		iface, _ := strconv.Atoi(row[1])
		dport, _ := strconv.Atoi(row[2])
		var c [4]uint64
		for i := 0; i < 4; i++ {
			c[i], _ = strconv.ParseUint(row[3+i], 10, 64)
		}
		qr.Rows = append(qr.Rows, results.Row{
			Labels:     results.Labels{Timestamp: c15Time(row[0]), Iface: c15Iface(iface)},
			Attributes: results.Attributes{DstPort: uint16(dport)},
			Counters:   types.Counters{BytesRcvd: c[0], BytesSent: c[1], PacketsRcvd: c[2], PacketsSent: c[3]},
		})
	}
	qr.Summary.Hits.Displayed = len(qr.Rows)
	return qr
}

func c15Stmt(cfg string) *query.Statement {
	p := strings.Split(cfg, ",")
	st := &query.Statement{QueryType: "dport"}
	st.SortBy = results.SortOrderFromString(p[0])
	switch p[1] {
	case "sum":
		st.Direction = types.DirectionSum
	case "in":
		st.Direction = types.DirectionIn
	case "out":
		st.Direction = types.DirectionOut
	case "both":
		st.Direction = types.DirectionBoth
	}
	st.SortAscending = p[2] == "1"
	st.NumResults, _ = strconv.ParseUint(p[3], 10, 64)
	st.LabelSelector.Timestamp = p[4] == "1"
	bin, _ := strconv.ParseInt(p[5], 10, 64)
	st.TimeBinSize = time.Duration(bin) * time.Second
	return st
}

func c15IfaceID(s string) string {
	var i int
	if _, err := fmt.Sscanf(s, "eth%d", &i); err != nil {
		return "other." + esc(s)
	}
	return strconv.Itoa(i)
}

func c15HostID(s string) string {
	var i int
	if _, err := fmt.Sscanf(s, "h%d", &i); err != nil || c15Host(i) != s {
		return "other." + esc(s)
	}
	return strconv.Itoa(i)
}

func c15ShowResult(res *results.Result) string {
	if res == nil {
		return "nil"
	}
	var f []string
	f = append(f, c15ShowCode(res.Status.Code)+":"+c15ShowMsg(res.Status.Message))
	var hs []string
	var names []string
	for h := range res.HostsStatuses {
		names = append(names, h)
	}
	sort.Strings(names)
	for _, h := range names {
		st := res.HostsStatuses[h]
		hs = append(hs, c15HostID(h)+":"+c15ShowCode(st.Code)+":"+c15ShowMsg(st.Message))
	}
	f = append(f, listField(hs))
	var ifs []string
	for _, i := range res.Summary.Interfaces { // End() sorts them; printed in the order delivered
		ifs = append(ifs, c15IfaceID(i))
	}
	f = append(f, listField(ifs))
	f = append(f, c15ShowTime(res.Summary.First)+":"+c15ShowTime(res.Summary.Last))
	t := res.Summary.Totals
	f = append(f, fmt.Sprintf("%d:%d:%d:%d", t.BytesRcvd, t.BytesSent, t.PacketsRcvd, t.PacketsSent))
	if s := res.Summary.Stats; s != nil {
		f = append(f, fmt.Sprintf("%d:%d:%d:%d:%d:%d", s.BytesLoaded, s.BytesDecompressed, s.BlocksProcessed, s.BlocksCorrupted, s.DirectoriesProcessed, s.Workloads))
	} else {
		f = append(f, "nil")
	}
	f = append(f, fmt.Sprintf("%d:%d", res.Summary.Hits.Total, res.Summary.Hits.Displayed))
	var rows []string
	for _, r := range res.Rows { // in the order delivered: the order is part of the result
		c := r.Counters
		rows = append(rows, fmt.Sprintf("%s:%s:%d:%d:%d:%d:%d", c15ShowTime(r.Labels.Timestamp), c15IfaceID(r.Labels.Iface), r.Attributes.DstPort, c.BytesRcvd, c.BytesSent, c.PacketsRcvd, c.PacketsSent))
	}
	f = append(f, listField(rows))
	return strings.Join(f, ";")
}

func c15RunOnce(stmt *query.Statement, replies []c15Reply, perm []int, streaming bool) (string, string) {
	var ch chan *results.Result
	if streaming {
		// as in production: replies trickle in from another goroutine through an unbuffered
		// channel while the aggregator is running
		ch = make(chan *results.Result)
		go func() {
			for _, i := range perm {
				ch <- replies[i].build()
			}
			close(ch)
		}()
	} else {
		ch = make(chan *results.Result, len(perm))
		for _, i := range perm {
			ch <- replies[i].build()
		}
		close(ch)
	}
	var partials []string
	var send sse.Sender
	if streaming {
		send = func(m sse.Message) error {
			if pr, ok := m.Data.(*api.PartialResult); ok && pr.Result != nil {
				partials = append(partials, fmt.Sprintf("%d:%d:%d:%s", len(pr.Rows), pr.Summary.Hits.Total, pr.Summary.Hits.Displayed, c15ShowCode(pr.Status.Code)))
			} else {
				partials = append(partials, "other")
			}
			return nil
		}
	}
	st := *stmt
	res := gqdist.VerifAggregateResults(context.Background(), &st, ch, send)
	return c15ShowResult(res), listField(partials)
}

func c15ParsePerms(s string, n int) [][]int {
	var out [][]int
	for _, ps := range splitSemi(s) {
		var p []int
		for _, x := range splitList(ps) {
			v, err := strconv.Atoi(x)
			if err != nil || v < 0 || v >= n {
				panic("bad permutation index")
			}
			p = append(p, v)
		}
		out = append(out, p)
	}
	return out
}

func c15Run(f []string) string {
	if (f[0] == "fan" && len(f) == 3) || (f[0] == "run" && len(f) == 4) {
		// the querier's fan-out, see c15_fan.go
		var replies []c15Reply
		for _, rs := range splitSemi(f[len(f)-1]) {
			replies = append(replies, c15ParseReply(rs))
		}
		if f[0] == "fan" {
			return c15RunFan(f[1], replies)
		}
		return c15RunDistributed(f[1], f[2], replies)
	}
	if f[0] != "agg" || len(f) != 4 {
		return "bad-op"
	}
	stmt := c15Stmt(f[1])
	var replies []c15Reply
	for _, rs := range splitSemi(f[2]) {
		replies = append(replies, c15ParseReply(rs))
	}
	var out []string
	first := ""
	for i, perm := range c15ParsePerms(f[3], len(replies)) {
		b, _ := c15RunOnce(stmt, replies, perm, false)
		s, p := c15RunOnce(stmt, replies, perm, true)
		bs, ss := b, s
		if i == 0 {
			first = b
		} else if b == first {
			bs = "="
		}
		if s == b {
			ss = "="
		}
		out = append(out, "B"+bs+"#S"+ss+"#P"+p)
	}
	if len(out) == 0 {
		return "-"
	}
	return strings.Join(out, "|")
}

// ---------------------------------------------------------------- generator

func c15AllPerms(n int) [][]int {
	var out [][]int
	p := make([]int, n)
	for i := range p {
		p[i] = i
	}
	var rec func(k int)
	rec = func(k int) {
		if k == n {
			out = append(out, append([]int(nil), p...))
			return
		}
		for i := k; i < n; i++ {
			p[k], p[i] = p[i], p[k]
			rec(k + 1)
			p[k], p[i] = p[i], p[k]
		}
	}
	rec(0)
	return out
}

func c15ShowPerms(ps [][]int) string {
	var out []string
	for _, p := range ps {
		var xs []string
		for _, v := range p {
			xs = append(xs, strconv.Itoa(v))
		}
		out = append(out, listField(xs))
	}
	return semiField(out)
}

type c15GenCfg struct {
	maxAllPerms int // all permutations up to this many replies
	sampled     int // number of sampled permutations above
}

func c15GenReply(r *Rand, host int, base int64, binned bool, nRowsMax int, keyPool int) string {
	if r.Chance(1, 5) {
		return fmt.Sprintf("E/%d/%s/%s", host, Pick(r, []string{"timeout", "refused", "e1", "eof", "denied"}), b2s(r.Bool()))
	}
	var statuses string
	switch r.Intn(8) {
	case 0:
		statuses = "-"
	case 1:
		statuses = fmt.Sprintf("%d:empty:noresults", host)
	default:
		statuses = fmt.Sprintf("%d:ok:-", host)
	}
	var ifs []string
	for i := 0; i < 4; i++ {
		if r.Chance(1, 2) {
			ifs = append(ifs, strconv.Itoa(i))
		}
	}
	r.Shuffle(len(ifs), func(i, j int) { ifs[i], ifs[j] = ifs[j], ifs[i] })
	first, last := "z", "z"
	if !r.Chance(1, 8) {
		f := base + 300*r.I64n(20)
		first = strconv.FormatInt(f, 10)
		last = strconv.FormatInt(f+300*r.I64n(30), 10)
	}
	nrows := 0
	if !r.Chance(1, 5) {
		nrows = 1 + r.Intn(nRowsMax)
	}
	var rows []string
	var tot [4]uint64
	seen := map[string]bool{}
	for j := 0; j < nrows; j++ {
		k := r.Intn(keyPool)
		ts := "z"
		if binned {
			ts = strconv.FormatInt(base+300*int64(k%5), 10)
			if r.Chance(1, 20) {
				ts = "z"
			}
		} else if r.Chance(1, 10) {
			ts = strconv.FormatInt(base+300*int64(k%3), 10)
		}
		key := fmt.Sprintf("%s:%d:%d", ts, (k/5)%3, 1+k/15)
		if seen[key] && !r.Chance(1, 10) { // hosts normally deliver aggregated rows (distinct keys)
			continue
		}
		seen[key] = true
		var c [4]uint64
		switch r.Intn(4) {
		case 0: // equal primary sort values across rows: ties are broken by the key
			c = [4]uint64{100, 100, 10, 10}
		case 1:
			c = [4]uint64{uint64(r.I64n(5)), uint64(r.I64n(5)), uint64(r.I64n(3)), uint64(r.I64n(3))}
		default:
			c = [4]uint64{uint64(r.I64n(1 << 40)), uint64(r.I64n(1 << 40)), uint64(r.I64n(1 << 30)), uint64(r.I64n(1 << 30))}
		}
		for i := range c {
			tot[i] += c[i]
		}
		rows = append(rows, fmt.Sprintf("%s:%d:%d:%d:%d", key, c[0], c[1], c[2], c[3]))
	}
	if r.Chance(1, 6) {
		tot = [4]uint64{uint64(r.I64n(1 << 41)), uint64(r.I64n(1 << 41)), uint64(r.I64n(1 << 31)), uint64(r.I64n(1 << 31))}
	}
	stats := "nil"
	if !r.Chance(1, 6) {
		stats = fmt.Sprintf("%d:%d:%d:%d:%d:%d", r.I64n(1<<30), r.I64n(1<<32), r.I64n(5000), r.I64n(3), r.I64n(400), 1+r.I64n(40))
	}
	hits := len(rows)
	if r.Chance(1, 4) {
		hits += r.Intn(50)
	}
	return fmt.Sprintf("R/%d/%s/%s/%s/%s/%d:%d:%d:%d/%s/%d/%s", host, statuses, listField(ifs), first, last, tot[0], tot[1], tot[2], tot[3], stats, hits, listField(rows))
}

func c15ClassOf(replies []string) (string, bool) {
	nErr, nEmpty, nRows := 0, 0, 0
	keys := map[string]int{}
	overlap := false
	for _, rp := range replies {
		if strings.HasPrefix(rp, "E/") {
			nErr++
			continue
		}
		p := strings.Split(rp, "/")
		rows := splitList(p[9])
		if len(rows) == 0 {
			nEmpty++
			continue
		}
		nRows++
		for _, row := range rows {
			q := strings.SplitN(row, ":", 4)
			k := q[0] + ":" + q[1] + ":" + q[2]
			if keys[k] > 0 {
				overlap = true
			}
			keys[k]++
		}
	}
	cls := fmt.Sprintf("hosts=%d err=%v empty=%v overlap=%v", len(replies), nErr > 0, nEmpty > 0, overlap)
	return cls, len(replies) >= 2 && nRows >= 1 && (overlap || nErr > 0 || nEmpty > 0)
}

func c15Gen(r *Rand, tier string) []Case {
	nSets, maxAll, sampled, maxHosts := 1500, 5, 24, 7
	if tier == "thorough" {
		nSets, maxAll, sampled, maxHosts = 60000, 6, 200, 9
	}
	sorts := []string{"bytes", "packets", "time"}
	dirs := []string{"sum", "in", "out", "both"}
	var cs []Case
	for n := 0; n < nSets; n++ {
		nh := 1 + r.Intn(5)
		if r.Chance(1, 8) {
			nh = 6 + r.Intn(maxHosts-5)
		}
		base := int64(1700000000) - 1700000000%3600 + 3600*r.I64n(3)
		binned := r.Chance(1, 4)
		tsLabel, bin := 0, int64(300)
		if binned {
			tsLabel = 1
			bin = Pick(r, []int64{300, 600, 900, 3600})
			if r.Chance(1, 8) {
				tsLabel = 0
			}
		} else if r.Chance(1, 10) {
			bin = 600 // bin size set but no time label: no binning
		}
		nRowsMax, keyPool := 8, 20
		big := r.Chance(1, 15)
		if big { // more than maxLimitStreaming distinct rows
			nRowsMax, keyPool, nh = 90, 45*4, 2+r.Intn(2)
		}
		var replies []string
		hosts := r.Intn(3)
		dup := r.Chance(1, 25) && nh >= 2
		for h := 0; h < nh; h++ {
			host := hosts + h
			if dup && h == nh-1 {
				host = hosts // outside the property's domain: two replies from one host name
			}
			replies = append(replies, c15GenReply(r, host, base, binned || big, nRowsMax, keyPool))
		}
		nrowsTotal := 0
		for _, rp := range replies {
			if strings.HasPrefix(rp, "R/") {
				nrowsTotal += len(splitList(strings.Split(rp, "/")[9]))
			}
		}
		limit := uint64(1000)
		switch r.Intn(6) {
		case 0:
			limit = uint64(1 + r.Intn(3))
		case 1:
			limit = uint64(1 + r.Intn(nrowsTotal+1))
		case 2:
			if r.Chance(1, 4) {
				limit = 0 // rejected by Args.Prepare: outside the domain
			}
		case 3:
			if big {
				limit = uint64(95 + r.Intn(20))
			}
		}
		cfg := fmt.Sprintf("%s,%s,%s,%d,%d,%d", Pick(r, sorts), Pick(r, dirs), b2s(r.Chance(1, 3)), limit, tsLabel, bin)
		var perms [][]int
		if nh <= maxAll && !(big && tier != "thorough") {
			perms = c15AllPerms(nh)
		} else {
			k := sampled
			if big {
				k = 4
			}
			id := make([]int, nh)
			for i := range id {
				id[i] = i
			}
			perms = append(perms, append([]int(nil), id...))
			for i := 1; i < k; i++ {
				p := append([]int(nil), id...)
				r.Shuffle(nh, func(a, b int) { p[a], p[b] = p[b], p[a] })
				perms = append(perms, p)
			}
		}
		cls, nt := c15ClassOf(replies)
		if dup {
			cls = "dup-hosts(outside-domain)"
			nt = false
		}
		if limit == 0 {
			cls = "limit0(outside-domain)"
			nt = false
		}
		if binned && tsLabel == 1 && bin != 300 {
			cls += " binning"
		}
		if big {
			cls += " >100rows"
		}
		cs = append(cs, Case{Line: fmt.Sprintf("C15 agg %s %s %s", cfg, semiField(replies), c15ShowPerms(perms)), Class: cls, NonTrivial: nt && len(perms) >= 2})
	}
	// the querier's fan-out in front of the aggregation (own stream, so that the cases above stay as they were)
	cs = append(cs, c15GenFanCases(NewRand(r.U64()^0xC15FA0), tier)...)
	return cs
}

func init() {
	register(&Prop{
		ID: "C15",
		Rule: "seeded sets of 1..5 (sometimes 6..8) per-host replies: error replies (plain / wrapped errors), empty replies, replies with up to 8 rows drawn from a small key pool (overlapping keys across hosts, equal sort values), zero and non-zero time ranges, nil/non-nil statistics, hit totals above the row count, occasionally >100 rows (streaming cap), all 12 sort orders x asc/desc, limits below/at/above the row count, time label + bin sizes 300..3600 s; every set is run through the real aggregateResults in ALL arrival orders when it has <= 5 (thorough: 6) replies, else 24 (200) sampled orders, each order both without a sender and with a recording sse.Sender. Outside-domain classes (two replies under one host name, limit 0) are still compared model vs code. Non-trivial: >= 2 replies, >= 2 arrival orders, at least one reply with rows and (a key shared by two hosts, or an error reply, or an empty reply). Distinct = distinct case lines. PLUS the querier's fan-out (c15_fan.go): seeded host lists of 0..15 hosts in shuffled order (answering hosts with 0..8 rows, hosts without endpoint configuration, hosts answering 422, hosts answering garbage, once per run a host with a closed port; in `fan` cases sometimes one host twice) served by httptest servers on 127.0.0.1, MaxConcurrent cycling through 0, negative (incl. MinInt64), 1, 2, n-1, n, n+3, huge and the constructor's default: `fan` cases drain the result channel of the real APIClientQuerier.Query (timeout 40 s = hang), `run` cases run the real distributed QueryRunner.Run on top of it (12 sort orders descending, limits below/above the row count). Non-trivial there: >= 2 hosts of which >= 1 answers with rows.",
		Gen: c15Gen,
		Run: c15Run,
		Init: func(string) error {
			_, err := logging.Init(logging.LevelError+100, logging.EncodingLogfmt, logging.WithOutput(io.Discard), logging.WithErrorOutput(io.Discard))
			return err
		},
	})
}
