//go:build verif_all || verif_fs

package main

// Shared machinery of the file-system protocol properties (C04, C05, C25, C30): one real write-out
// in a child process under strace, normalisation of its system-call trace to the model's op
// alphabet, fault / kill injection at a chosen operation.

import (
	"bufio"
	"fmt"
	"os"
	"os/exec"
	"path/filepath"
	"regexp"
	"strconv"
	"strings"

	"github.com/els0r/goProbe/v4/pkg/goDB/encoder/encoders"
)

// C04 — a crash during a write-out. History of write-outs; one of them runs in a child process
// under strace and is killed (SIGKILL at system-call entry) before its n-th file operation.

// child: one real write-out between two marker system calls (stat of a reserved path)
func init() {
	children["writeout"] = func(a []string) int {
		// args: db iface ts drops flows
		ts, _ := strconv.ParseInt(a[2], 10, 64)
		drops, _ := strconv.ParseUint(a[3], 10, 64)
		_, _ = os.Stat("/verif-marker-begin")
		err := writeOut(a[0], a[1], ts, drops, parseFlows(a[4]), encoders.EncoderTypeLZ4)
		_, _ = os.Stat("/verif-marker-end")
		if err != nil {
			fmt.Println("err:" + errClass(err))
			return 3
		}
		fmt.Println("ok")
		return 0
	}
}

type WriteOut struct {
	Iface string
	TS    int64
	Drops uint64
	Flows []Flow
}

func (w WriteOut) String() string {
	return fmt.Sprintf("%s|%d|%d|%s", w.Iface, w.TS, w.Drops, flowsField(w.Flows))
}

func parseWriteOut(s string) WriteOut {
	p := strings.Split(s, "|")
	ts, _ := strconv.ParseInt(p[1], 10, 64)
	dr, _ := strconv.ParseUint(p[2], 10, 64)
	return WriteOut{Iface: p[0], TS: ts, Drops: dr, Flows: parseFlows(p[3])}
}

// the file operations that count as steps of the write-out protocol (and as injection points)
const fsOpSyscalls = "mkdirat,openat,write,renameat,fchmodat,unlinkat"

var straceLine = regexp.MustCompile(`^\d+\s+(\w+)\((.*)\)\s+=\s+(-?\d+)(?:\s+(\w+))?`)

// normaliseTrace maps the strace log between the two markers to the model's op alphabet.
// Returns the ops and, per op, the strace injection expression `name:%s:when=N` (strace counts
// `when=` per system-call name; %s is to be replaced by `signal=SIGKILL` or `error=ENOSPC` …).
func normaliseTrace(path, db string) (ops []string, inj []string, err error) {
	f, err := os.Open(path)
	if err != nil {
		return nil, nil, err
	}
	defer f.Close()
	ordinal := map[string]int{} // per system call name: invocations by the main thread so far (strace counts `when=` per call name)
	fds := map[string]string{}
	in := false
	sc := bufio.NewScanner(f)
	sc.Buffer(make([]byte, 1<<20), 1<<24)
	counted := map[string]bool{}
	for _, s := range strings.Split(fsOpSyscalls, ",") {
		counted[s] = true
	}
	// pass 1: join "<unfinished ...>" / "<... resumed>" pairs and find the thread that runs the write-out
	var lines []string
	pending := map[string]string{}
	mainPid := ""
	for sc.Scan() {
		line := sc.Text()
		pid := strings.SplitN(line, " ", 2)[0]
		if strings.HasSuffix(line, "<unfinished ...>") {
			pending[pid] = strings.TrimSuffix(line, " <unfinished ...>")
			continue
		}
		if i := strings.Index(line, "<... "); i >= 0 {
			if j := strings.Index(line, " resumed>"); j > i {
				line = pending[pid] + line[j+len(" resumed>"):]
				delete(pending, pid)
			}
		}
		if strings.Contains(line, "/verif-marker-begin") {
			mainPid = pid
		}
		lines = append(lines, line)
	}
	for _, line := range lines {
		if !strings.HasPrefix(line, mainPid+" ") {
			continue // only the (locked) main thread performs the write-out; `when=N` counts per thread
		}
		if strings.Contains(line, "/verif-marker-begin") {
			in = true
			continue
		}
		if strings.Contains(line, "/verif-marker-end") {
			break
		}
		m := straceLine.FindStringSubmatch(line)
		if m == nil {
			continue
		}
		name, args, ret, errno := m[1], m[2], m[3], m[4]
		if !counted[name] {
			continue
		}
		ordinal[name]++
		if !in {
			continue
		}
		nops := len(ops)
		rel := func(p string) string {
			p = strings.Trim(p, `"`)
			r, e := filepath.Rel(db, p)
			if e != nil {
				return p
			}
			return r
		}
		quoted := regexp.MustCompile(`"([^"]*)"`).FindAllStringSubmatch(args, -1)
		res := "ok"
		if strings.HasPrefix(ret, "-") {
			res = errno
		}
		base := func(p string) string { return filepath.Base(p) }
		switch name {
		case "mkdirat":
			ops = append(ops, "mkdir:"+strings.Join(strings.Split(rel(quoted[0][1]), "/")[1:], "/"))
		case "openat":
			p := rel(quoted[0][1])
			b := base(p)
			switch {
			case strings.Contains(args, "O_DIRECTORY"):
				ops = append(ops, "readdir:"+res)
			case b == ".blockmeta":
				ops = append(ops, "openmeta:"+res)
			case strings.HasPrefix(b, ".tmp-metadata-"):
				ops = append(ops, "opentmp:"+res)
				fds[ret] = "tmp"
			case strings.HasSuffix(b, ".gpf"):
				ops = append(ops, "opencol:"+strings.TrimSuffix(b, ".gpf")+":"+res)
				fds[ret] = "col:" + strings.TrimSuffix(b, ".gpf")
			default:
				ops = append(ops, "open:"+p+":"+res)
			}
		case "write":
			fd := strings.SplitN(args, ",", 2)[0]
			what := fds[fd]
			if what == "" {
				continue // stdout etc.: not a database operation, not counted by the model (see `extra`)
			}
			ops = append(ops, "write:"+what+":"+res)
		case "fchmodat":
			ops = append(ops, "chmod:"+res)
		case "renameat":
			to := base(rel(quoted[1][1]))
			if to == ".blockmeta" {
				ops = append(ops, "renamemeta:"+res)
			} else {
				ops = append(ops, "renamedir:"+res)
			}
		case "unlinkat":
			ops = append(ops, "unlink:"+res)
		}
		if len(ops) > nops {
			inj = append(inj, fmt.Sprintf("%s:%%s:when=%d", name, ordinal[name]))
		}
	}
	return ops, inj, nil
}

func copyTree(src, dst string) error {
	return exec.Command("cp", "-a", src, dst).Run()
}

// runChildWriteOut runs write-out w in a child under strace; killAt < 0: no injection.
// Returns the normalised op list (only meaningful without injection) and the child's status.
func runChildWriteOut(db string, w WriteOut, inject string, work string) (ops []string, inj []string, status string) {
	trace := filepath.Join(work, "trace-"+strings.NewReplacer(":", "_", "=", "_").Replace(inject)+".txt")
	_ = os.Remove(trace)
	args := []string{"-f", "-o", trace, "-e", "trace=%file,%desc"}
	if inject != "" {
		args = append(args, "-e", "inject="+inject)
	}
	args = append(args, os.Args[0], "__child", "writeout", db, w.Iface, strconv.FormatInt(w.TS, 10), strconv.FormatUint(w.Drops, 10), flowsField(w.Flows))
	cmd := exec.Command("strace", args...)
	cmd.Env = append(os.Environ(), "GOMAXPROCS=1", "TZ=UTC")
	out, err := cmd.Output()
	status = strings.TrimSpace(string(out))
	if err != nil && status == "" {
		status = "killed"
	}
	ops, inj, _ = normaliseTrace(trace, db)
	return
}


func init() {
	children["normtrace"] = func(a []string) int {
		ops, inj, err := normaliseTrace(a[0], a[1])
		fmt.Println(inj, err)
		for _, o := range ops {
			fmt.Println(o)
		}
		return 0
	}
}

func c04Range(ws []WriteOut) (int64, int64) {
	lo, hi := ws[0].TS, ws[0].TS
	for _, w := range ws {
		if w.TS < lo {
			lo = w.TS
		}
		if w.TS > hi {
			hi = w.TS
		}
	}
	return lo - 300, hi + 300
}

