//go:build verif_all || verif_c26

package main

import (
	"bufio"
	"context"
	"encoding/csv"
	"errors"
	"fmt"
	"io"
	"os"
	"path/filepath"
	"sort"
	"strconv"
	"strings"
	"sync/atomic"
	"time"

	"github.com/els0r/goProbe/v4/cmd/gpdb/pkg/csvimport"
	"github.com/els0r/goProbe/v4/pkg/goDB/encoder/encoders"
	"github.com/els0r/goProbe/v4/pkg/goDB/engine"
	"github.com/els0r/goProbe/v4/pkg/goDB/info"
	"github.com/els0r/goProbe/v4/pkg/query"
	"github.com/els0r/goProbe/v4/pkg/types"
)

// C26 — CSV import (`gpdb import`): csvimport.Import on generated CSV files into a fresh temp
// database, which is then read back through the real query engine, one query per stored interface
// with the attributes sip,dip,dport,proto,time,iface.
//
// wire:  C26 import <schema> <iface> <maxrows> <record>…
//        <schema>  = Options.Schema, %-escaped ("-" = empty: the first record of the file is the header)
//        <iface>   = Options.Interface, %-escaped ("-" = empty)
//        <maxrows> = Options.MaxRows (decimal, may be negative)
//        <record>  = one CSV record as the comma-separated list of its %-escaped fields ("-" = empty
//                    field), or `!` = a line with a bare quote (encoding/csv reports a parse error)
// out:   <status>|read=R|imp=I|skip=S|ifaces=N|blocks=B|db=<flow>,<flow>…
//        <status> = ok | err:<class>     (regression, csv, schema, noiface, empty, maxrows, write, …)
//        <flow>   = <iface %-escaped>@<unix time>/<sip hex>:<dip hex>:<dport>:<proto>:<bytes rcvd>:<bytes sent>:<pkts rcvd>:<pkts sent>
//                   sorted; an interface whose query fails contributes `<iface>@err:<class>`
//
// The harness writes the file itself (every field that needs it is quoted) and re-reads it with
// encoding/csv configured as in initCSVReader to confirm that the records the importer sees are the
// records of the case ("record splitting is a parameter of the model"); a mismatch is a harness
// error (`bad-csv-roundtrip`), never a verdict.

var (
	c26WorkDir string
	c26Seq     atomic.Int64
)

const c26BadLine = "x\"y,1"

func c26QuoteField(f string, only bool) string {
	if f == "" {
		if only {
			return `""`
		}
		return ""
	}
	if strings.ContainsAny(f, ",\"\r\n") || f[0] == ' ' || f[0] == '\t' {
		return `"` + strings.ReplaceAll(f, `"`, `""`) + `"`
	}
	return f
}

// c26Records decodes the record arguments; a nil entry stands for the malformed line
func c26Records(args []string) [][]string {
	var recs [][]string
	for _, a := range args {
		if a == "!" {
			recs = append(recs, nil)
			continue
		}
		var rec []string
		for _, f := range strings.Split(a, ",") {
			rec = append(rec, unesc(f))
		}
		recs = append(recs, rec)
	}
	return recs
}

func c26WriteCSV(path string, recs [][]string) error {
	var b strings.Builder
	for _, rec := range recs {
		if rec == nil {
			b.WriteString(c26BadLine + "\n")
			continue
		}
		for i, f := range rec {
			if i > 0 {
				b.WriteByte(',')
			}
			b.WriteString(c26QuoteField(f, len(rec) == 1))
		}
		b.WriteByte('\n')
	}
	return os.WriteFile(path, []byte(b.String()), 0o600)
}

// c26CheckRoundTrip re-reads the file the way initCSVReader does and compares with the case
func c26CheckRoundTrip(path string, recs [][]string) bool {
	f, err := os.Open(path)
	if err != nil {
		return false
	}
	defer f.Close()
	rd := csv.NewReader(bufio.NewReader(f))
	rd.FieldsPerRecord = -1
	rd.ReuseRecord = true
	for _, want := range recs {
		got, err := rd.Read()
		if want == nil {
			return err != nil && !errors.Is(err, io.EOF) // the importer stops here
		}
		if err != nil || len(got) != len(want) {
			return false
		}
		for i := range got {
			if got[i] != want[i] {
				return false
			}
		}
	}
	_, err = rd.Read()
	return errors.Is(err, io.EOF)
}

func c26ErrClass(err error) string {
	s := err.Error()
	switch {
	case strings.Contains(s, "input must be ordered by non-decreasing timestamp"):
		return "regression"
	case strings.Contains(s, "failed to read CSV row"):
		return "csv"
	case strings.Contains(s, "failed to read CSV header"):
		return "csv-header"
	case strings.Contains(s, "is empty"):
		return "empty"
	case strings.Contains(s, "failed to parse schema"), strings.Contains(s, "failed to parse header schema"):
		if strings.Contains(s, "required `time` field") {
			return "schema-notime"
		}
		return "schema-nofields"
	case strings.Contains(s, "no interface was provided"):
		return "noiface"
	case strings.Contains(s, "max rows must be"):
		return "maxrows"
	case strings.Contains(s, "failed to write block"), strings.Contains(s, "daily directory"):
		return "write"
	case errors.Is(err, context.Canceled), errors.Is(err, context.DeadlineExceeded):
		return "ctx"
	}
	return "other-" + esc(firstN(s, 40))
}

func firstN(s string, n int) string {
	if len(s) > n {
		return s[:n]
	}
	return s
}

// c26ReadDB reads the destination back with ONE query over all stored interfaces (`any`: the
// importer accepts interface names the query front end would refuse by name, e.g. with a space) and
// the whole time range 1 … 9999999999.
func c26ReadDB(db string) string {
	ifaces, err := info.GetInterfaces(db)
	if err != nil {
		if os.IsNotExist(err) || strings.Contains(err.Error(), "no such file") {
			return "-"
		}
		return "err:ifaces-" + errClass(err)
	}
	if len(ifaces) == 0 {
		return "-"
	}
	opts := []query.Option{
		query.WithFirst("1"), query.WithLast("9999999999"),
		query.WithNumResults(1 << 40), query.WithFormat("json"), query.WithMaxMemPct(90),
	}
	a := query.NewArgs("sip,dip,dport,proto,time,iface", "any", opts...).AddOutputs(io.Discard)
	ctx, cancel := context.WithTimeout(context.Background(), 120*time.Second)
	defer cancel()
	res, err := engine.NewQueryRunner(db).Run(ctx, a)
	if err != nil {
		return "err:" + errClass(err)
	}
	if res == nil {
		return "err:nil-result"
	}
	if res.Status.Code != types.StatusOK && res.Status.Code != types.StatusEmpty {
		return "err:status-" + esc(string(res.Status.Code))
	}
	var rows []string
	for _, r := range res.Rows {
		rows = append(rows, fmt.Sprintf("%s@%d/%s:%s:%d:%d:%d:%d:%d:%d", esc(r.Labels.Iface), r.Labels.Timestamp.Unix(),
			addrHex(r.Attributes.SrcIP), addrHex(r.Attributes.DstIP), r.Attributes.DstPort, r.Attributes.IPProto,
			r.Counters.BytesRcvd, r.Counters.BytesSent, r.Counters.PacketsRcvd, r.Counters.PacketsSent))
	}
	sort.Strings(rows)
	return listField(rows)
}

func c26Run(f []string) string {
	if len(f) < 4 || f[0] != "import" {
		return "bad-op"
	}
	maxRows, err := strconv.Atoi(f[3])
	if err != nil {
		return "bad-args"
	}
	recs := c26Records(f[4:])
	dir := filepath.Join(c26WorkDir, fmt.Sprintf("c%d", c26Seq.Add(1)))
	if err := os.MkdirAll(dir, 0o755); err != nil {
		return "err:mkdir"
	}
	if os.Getenv("VERIF_C26_KEEP") == "" {
		defer os.RemoveAll(dir)
	}
	in, db := filepath.Join(dir, "in.csv"), filepath.Join(dir, "db")
	if err := c26WriteCSV(in, recs); err != nil {
		return "err:write-csv"
	}
	if !c26CheckRoundTrip(in, recs) {
		return "bad-csv-roundtrip"
	}
	sum, ierr := csvimport.Import(context.Background(), csvimport.Options{
		InputPath:   in,
		OutputPath:  db,
		Schema:      unesc(f[1]),
		Interface:   unesc(f[2]),
		MaxRows:     maxRows,
		EncoderType: encoders.EncoderTypeLZ4,
	})
	status := "ok"
	if ierr != nil {
		status = "err:" + c26ErrClass(ierr)
	}
	return fmt.Sprintf("%s|read=%d|imp=%d|skip=%d|ifaces=%d|blocks=%d|db=%s", status,
		sum.RowsRead, sum.RowsImported, sum.RowsSkipped, sum.Interfaces, sum.BlocksWritten, c26ReadDB(db))
}

// ---------------------------------------------------------------------------------- generator

type c26Col struct {
	name string // as written in the schema (may carry blanks / capitals)
	kind string // time iface sip dip dport proto pr ps br bs junk
}

var (
	c26V4     = []string{"10.0.0.1", "10.0.0.2", "192.168.1.7", "0.0.0.0", "::ffff:10.0.0.1", "::10.0.0.2", "255.255.255.255"}
	c26V6     = []string{"2001:db8::1", "2001:0db8:0:0:0:0:0:1", "2001:DB8::2", "fe80::1", "::", "::1", "102:304::", "::ffff:102:304", "1:2:3:4:5:6:7:8"}
	c26BadIP  = []string{"", "10.0.0", "10.0.0.256", "01.2.3.4", "1.2.3.4.5", "fe80::1%eth0", "2001:db8:::1", "12345::", "g::1", "::1::2", "1.2.3.4::", "INVALID_IP", "1:2:3:4:5:6:7:8:9", "1:2:3:4:5:6:7::8.9.10.11"}
	c26Ports  = []string{"53", "80", "443", "0080", "0", "65535", "8080"}
	c26BadPrt = []string{"65536", "+80", "80a", "", "-1", "8_0", "0x50"}
	c26Protos = []string{"TCP", "tcp", "6", "udp", "UDP", "17", "ICMP", "1", "IPv6-ICMP", "255", "esp", "006"}
	c26BadPro = []string{"xyz", "256", "", "tcp6", "-1"}
	c26BadTim = []string{"0", "-5", "abc", "", "1.5", "9223372036854775808", "-0", "+"}
	c26BadCnt = []string{"-1", "1.5", "18446744073709551616", "", "1e3", "+4"}
	c26Ifaces = []string{"eth0", "eth1", "lo", "eth0", "wan 1", "a,b", "!eth0", "averyveryverylonginterfacename", "ETH0", ".hidden", "any", "br0.100"}
	c26BadIfc = []string{"", " ", ".", "..", "a/b", "a\\b", "/"}
	c26Blanks = []string{" ", "\t", "  ", " \t", "\n", "\r", "\v", "\f"}
)

func c26Wrap(r *Rand, s string) string {
	if r.Chance(1, 10) {
		if r.Bool() {
			s = Pick(r, c26Blanks) + s
		}
		if r.Bool() {
			b := Pick(r, c26Blanks)
			if !(strings.HasSuffix(s, "\r") && strings.HasPrefix(b, "\n")) {
				s = s + b
			}
		}
	}
	return s
}

func c26Schema(r *Rand) []c26Col {
	var cols []c26Col
	add := func(name, kind string) {
		switch r.Intn(8) {
		case 0:
			name = strings.ToUpper(name)
		case 1:
			name = " " + name + " "
		case 2:
			name = strings.ToUpper(name[:1]) + name[1:]
		}
		cols = append(cols, c26Col{name, kind})
	}
	if !r.Chance(1, 25) {
		add("time", "time")
	}
	if r.Chance(1, 2) {
		add("iface", "iface")
	}
	if !r.Chance(1, 8) {
		add("sip", "sip")
	}
	if !r.Chance(1, 5) {
		add("dip", "dip")
	}
	if !r.Chance(1, 4) {
		add("dport", "dport")
	}
	if !r.Chance(1, 4) {
		add("proto", "proto")
	}
	for _, c := range [][2]string{{"packets received", "pr"}, {"packets sent", "ps"}, {"data vol. received", "br"}, {"data vol. sent", "bs"}} {
		if !r.Chance(1, 4) {
			add(c[0], c[1])
		}
	}
	// columns the importer ignores, and repeated columns (the last one counts)
	for r.Chance(1, 3) {
		cols = append(cols, c26Col{Pick(r, []string{"%", "foo", "", " ", "src", "packets", "time ns", "sip6"}), "junk"})
	}
	if r.Chance(1, 10) {
		k := Pick(r, []string{"time", "sip", "dip", "dport", "proto", "iface"})
		add(k, k)
	}
	if r.Chance(1, 12) {
		add("packets sent", "ps")
	}
	r.Shuffle(len(cols), func(i, j int) { cols[i], cols[j] = cols[j], cols[i] })
	if r.Chance(1, 40) {
		cols = nil
		for i := 0; i < r.Intn(3); i++ {
			cols = append(cols, c26Col{Pick(r, []string{"foo", "", "bar"}), "junk"})
		}
	}
	return cols
}

type c26Flow struct{ sip, dip, dport, proto string }

func c26Flows(r *Rand) []c26Flow {
	n := 1 + r.Intn(5)
	fl := make([]c26Flow, n)
	for i := range fl {
		if r.Chance(2, 3) {
			fl[i] = c26Flow{Pick(r, c26V4), Pick(r, c26V4), Pick(r, c26Ports), Pick(r, c26Protos)}
		} else {
			fl[i] = c26Flow{Pick(r, c26V6), Pick(r, c26V6), Pick(r, c26Ports), Pick(r, c26Protos)}
		}
	}
	return fl
}

func c26Counter(r *Rand) string {
	switch r.Intn(12) {
	case 0:
		return "0"
	case 1:
		return fmt.Sprintf("%03d", r.Intn(1000))
	case 2:
		return strconv.FormatUint(1<<60+uint64(r.Intn(1000)), 10)
	}
	return strconv.Itoa(r.Intn(100000))
}

func c26Gen(r *Rand, tier string) []Case {
	n, maxRows := 260, 60
	if tier == "thorough" {
		n, maxRows = 8000, 400
	}
	var cs []Case
	for i := 0; i < n; i++ {
		rowsCap := maxRows
		if tier == "thorough" && i%400 == 0 {
			rowsCap = 5000
		}
		cs = append(cs, c26GenCase(r, rowsCap))
	}
	return cs
}

func c26GenCase(r *Rand, rowsCap int) Case {
	cols := c26Schema(r)
	hasIface, hasTime := false, false
	for _, c := range cols {
		hasIface = hasIface || c.kind == "iface"
		hasTime = hasTime || c.kind == "time"
	}
	header := r.Bool()
	optIface := ""
	if !hasIface || r.Chance(1, 4) {
		optIface = Pick(r, []string{"eth0", "lo", " eth2 ", "wan 1"})
	}
	if r.Chance(1, 30) {
		optIface = Pick(r, []string{"", " ", "a/b"})
	}
	maxR := 0
	nRows := r.Intn(rowsCap + 1)
	if r.Chance(1, 6) {
		nRows = r.Intn(6)
	}
	if r.Chance(1, 8) {
		maxR = 1 + r.Intn(nRows+2)
	}
	if r.Chance(1, 60) {
		maxR = -1 - r.Intn(3)
	}
	class := "ordered"
	nontrivial := false
	flows := c26Flows(r)
	ifaces := []string{Pick(r, c26Ifaces)}
	for r.Chance(1, 2) && len(ifaces) < 4 {
		ifaces = append(ifaces, Pick(r, c26Ifaces))
	}
	// day-directory names must keep one width for the query engine's walk (see C12): times before
	// 2001-09-09 stay inside day 0, the others are 10-digit times
	// (the first day directory with a 10-digit name starts at 1000080000)
	ts := Pick(r, []int64{1, 100, 1000080000, 1711929900, 1711929600, 1735689500, 4102444000})
	small := ts < 1000
	regressAt, badAt := -1, -1
	if nRows > 1 && r.Chance(1, 6) {
		regressAt = 1 + r.Intn(nRows-1)
		class = "regression"
		nontrivial = true
	}
	if nRows > 0 && r.Chance(1, 30) {
		badAt = r.Intn(nRows)
		class = "csv-error"
	}
	seen := map[string]bool{}
	var recs []string
	for i := 0; i < nRows; i++ {
		if i == badAt {
			recs = append(recs, "!")
			continue
		}
		switch {
		case i == regressAt:
			ts -= Pick(r, []int64{1, 300, 86400, 5})
			if ts < 1 {
				ts = 1
			}
		case r.Chance(1, 2):
		default:
			if small {
				ts += Pick(r, []int64{1, 2, 10})
			} else {
				ts += Pick(r, []int64{1, 300, 300, 300, 86400, 3600, 10})
			}
		}
		f := Pick(r, flows)
		ifc := Pick(r, ifaces)
		malformed := r.Chance(1, 10)
		bad := ""
		if malformed {
			bad = Pick(r, []string{"short", "sip", "dip", "mixed", "dport", "proto", "time", "cnt", "iface"})
			nontrivial = true
		}
		var fields []string
		for _, c := range cols {
			v := ""
			switch c.kind {
			case "time":
				v = strconv.FormatInt(ts, 10)
				if bad == "time" {
					v = Pick(r, c26BadTim)
				} else if r.Chance(1, 40) {
					v = "+" + v
				}
			case "iface":
				v = ifc
				if bad == "iface" {
					v = Pick(r, c26BadIfc)
				}
			case "sip":
				v = f.sip
				if bad == "sip" {
					v = Pick(r, c26BadIP)
				}
			case "dip":
				v = f.dip
				if bad == "dip" {
					v = Pick(r, c26BadIP)
				} else if bad == "mixed" {
					if strings.Contains(f.sip, ".") {
						v = Pick(r, c26V6[:6])
					} else {
						v = Pick(r, c26V4)
					}
				}
			case "dport":
				v = f.dport
				if bad == "dport" {
					v = Pick(r, c26BadPrt)
				}
			case "proto":
				v = f.proto
				if bad == "proto" {
					v = Pick(r, c26BadPro)
				}
			case "pr", "ps", "br", "bs":
				v = c26Counter(r)
				if bad == "cnt" && r.Bool() {
					v = Pick(r, c26BadCnt)
				}
			default:
				v = Pick(r, []string{"", "x", "12.5 %", "a,b", "say \"hi\"", "-"})
			}
			fields = append(fields, esc(c26Wrap(r, v)))
		}
		if bad == "short" && len(fields) > 0 {
			fields = fields[:r.Intn(len(fields))]
			if len(fields) == 0 {
				fields = []string{esc(Pick(r, []string{"", "x"}))}
			}
		} else if r.Chance(1, 20) {
			fields = append(fields, esc("extra"))
		}
		if len(fields) == 0 {
			fields = []string{"-"}
		}
		id := fmt.Sprintf("%s|%d|%v", ifc, ts, f)
		if !malformed {
			if seen[id] {
				nontrivial = true // rows sharing interface, timestamp and key
			}
			seen[id] = true
		}
		recs = append(recs, strings.Join(fields, ","))
	}
	var names []string
	for _, c := range cols {
		names = append(names, c.name)
	}
	schemaArg := "-"
	var all []string
	if header {
		var hf []string
		for _, nme := range names {
			if r.Chance(1, 50) {
				nme = nme + ",zzz" // a quoted header field with a comma shifts the later columns
			}
			hf = append(hf, esc(nme))
		}
		if len(hf) == 0 {
			hf = []string{"-"}
		}
		if !(r.Chance(1, 40)) {
			all = append(all, strings.Join(hf, ","))
		}
	} else {
		schemaArg = esc(strings.Join(names, ","))
		if r.Chance(1, 40) {
			schemaArg = esc(" ")
		}
	}
	all = append(all, recs...)
	if !hasTime || maxR < 0 || (!hasIface && strings.TrimSpace(optIface) == "") || len(cols) == 0 {
		class = "setup-error"
		nontrivial = false
	} else if maxR > 0 && class == "ordered" {
		class = "maxrows"
	}
	if nRows == 0 {
		nontrivial = false
	}
	line := fmt.Sprintf("C26 import %s %s %d", schemaArg, esc(optIface), maxR)
	if len(all) > 0 {
		line += " " + strings.Join(all, " ")
	}
	return Case{Line: line, Class: class, NonTrivial: nontrivial}
}

func init() {
	register(&Prop{
		ID:   "C26",
		Rule: "seeded CSV files through the real csvimport.Import into a fresh temp DB, read back by ONE real query (sip,dip,dport,proto,time,iface over `any`): schemas of 0-12 columns in shuffled order (time/iface/sip/dip/dport/proto/4 counters each present or not, ignored and empty columns, repeated columns, capitals and blanks), given as Options.Schema or as header record (rarely with a quoted comma, missing, or blank option); Options.Interface present/absent/blank/invalid; MaxRows 0, 1..n+2, negative; 0-60 rows (thorough: 8000 files of 0-400 rows, every 400th up to 5000) drawn from 1-5 flows (IPv4 and IPv6 in several spellings incl. v4-mapped and 12-trailing-zero addresses, ports with leading zeros, protocols by name/number) x 1-4 interfaces (incl. names with blank, comma, !, 30 chars, dot) on a timeline starting at 1, 100, a day boundary or 2024/2025/2100 whose timestamp stays (p=1/2) or advances by 1 s..1 day, so that identities repeat within and across timestamps; 10% malformed rows (short, bad/mixed-version address, bad port/protocol/time/counter/interface), blanks around values, extra fields; 1/6 of the files with one time regression, 1/30 with a bare-quote line. Non-trivial (by construction): set-up succeeds, at least one row, and a repeated (iface, ts, key), a malformed row or a regression was generated. Distinct = distinct case lines. TZ=UTC.",
		Gen:  c26Gen,
		Run:  c26Run,
		Init: func(tier string) error {
			time.Local = time.UTC
			out := ""
			for i, a := range os.Args {
				if (a == "-out" || a == "--out") && i+1 < len(os.Args) {
					out = os.Args[i+1]
				} else if strings.HasPrefix(a, "-out=") {
					out = strings.TrimPrefix(a, "-out=")
				}
			}
			if out == "" {
				out = os.TempDir()
			}
			c26WorkDir = filepath.Join(out, "c26work")
			_ = os.RemoveAll(c26WorkDir)
			return os.MkdirAll(c26WorkDir, 0o755)
		},
		Done: func() {
			if os.Getenv("VERIF_C26_KEEP") == "" {
				_ = os.RemoveAll(c26WorkDir)
			}
		},
	})
}
