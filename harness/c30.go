//go:build verif_all || verif_c30

package main

import (
	"fmt"
	"hash/fnv"
	"os"
	"os/exec"
	"path/filepath"
	"regexp"
	"strconv"
	"strings"
	"time"

	"github.com/els0r/goProbe/v4/pkg/goDB/encoder/encoders"
	"github.com/els0r/goProbe/v4/pkg/goDB/storage/gpfile"
	"github.com/els0r/goProbe/v4/pkg/types"
)

// C30 — queries during write-outs: a reader process (GPDir level) and a writer process are
// interleaved one file operation at a time by the scheduler of sched.go.

const c30ReaderStops = "openat,close"

func init() {
	children["writeouts"] = func(a []string) int {
		// args: db, write-outs separated by ';'
		_, _ = os.Stat("/verif-marker-begin")
		st := "ok"
		for _, s := range splitSemi(a[1]) {
			w := parseWriteOut(s)
			if err := writeOut(a[0], w.Iface, w.TS, w.Drops, w.Flows, encoders.EncoderTypeLZ4); err != nil {
				st = "err:" + errClass(err)
			}
		}
		_, _ = os.Stat("/verif-marker-end")
		fmt.Println(st)
		return 0
	}
	children["writeouts-slow"] = func(a []string) int {
		for _, s := range splitSemi(a[1]) {
			w := parseWriteOut(s)
			time.Sleep(15 * time.Millisecond)
			_ = writeOut(a[0], w.Iface, w.TS, w.Drops, w.Flows, encoders.EncoderTypeLZ4)
		}
		return 0
	}
	children["readday"] = func(a []string) int {
		// args: db iface day
		day, _ := strconv.ParseInt(a[2], 10, 64)
		fmt.Println(c30ReadDay(filepath.Join(a[0], a[1]), day))
		return 0
	}
}

// c30ReadDay reads a whole day through GPDir exactly as a query worker does for its I/O:
// list the month directory, Open, ReadBlockAtIndex for every block and column.
func c30ReadDay(ifacePath string, day int64) string {
	_, _ = os.Stat("/verif-marker-begin")
	defer func() { _, _ = os.Stat("/verif-marker-end") }()
	_, ym := c30YearMonth(day)
	ents, err := os.ReadDir(filepath.Join(ifacePath, ym))
	if err != nil {
		return "absent"
	}
	name := ""
	for _, e := range ents {
		if e.IsDir() && strings.HasPrefix(e.Name(), strconv.FormatInt(day, 10)) {
			name = e.Name()
			break
		}
	}
	if name == "" {
		return "absent"
	}
	// as walkDB does: a day directory that exists but holds no metadata yet is skipped
	if gpfile.IsUninitialized(filepath.Join(ifacePath, ym, name)) {
		return "absent"
	}
	_, suffix, err := gpfile.ExtractTimestampMetadataSuffix(name)
	if err != nil {
		return "err:name"
	}
	d := gpfile.NewDirReader(ifacePath, day, suffix)
	if err := d.Open(); err != nil {
		return "err:open"
	}
	blocks := d.BlockMetadata[0].Blocks()
	var out []string
	for b, blk := range blocks {
		ok := true
		// as the query does: the slices of all columns of a block are held until the block is evaluated
		var held [types.ColIdxCount][]byte
		for c := types.ColumnIndex(0); c < types.ColIdxCount; c++ {
			data, err := d.ReadBlockAtIndex(c, b)
			if err != nil {
				ok = false
				break
			}
			held[c] = data
		}
		if ok {
			h := fnv.New64a()
			for c := range held {
				_, _ = h.Write([]byte{byte(c), byte(len(held[c])), byte(len(held[c]) >> 8)})
				_, _ = h.Write(held[c])
			}
			out = append(out, fmt.Sprintf("%d#%x", blk.Timestamp, h.Sum64()))
		} else {
			out = append(out, "ERR")
		}
	}
	_ = d.Close()
	return listField(out)
}

// c30SplitDigests separates the block timestamps from the content digests of a readday result
func c30SplitDigests(res string) (string, map[string]string) {
	if strings.HasPrefix(res, "err") || res == "absent" || res == "" {
		return res, nil
	}
	dig := map[string]string{}
	var ts []string
	for _, e := range splitList(res) {
		if i := strings.IndexByte(e, '#'); i >= 0 {
			dig[e[:i]] = e[i+1:]
			e = e[:i]
		}
		ts = append(ts, e)
	}
	return listField(ts), dig
}

func c30YearMonth(day int64) (string, string) {
	t := timeUnixUTC(day)
	return fmt.Sprintf("%04d", t.Year()), fmt.Sprintf("%04d/%02d", t.Year(), int(t.Month()))
}

var c30Quoted = regexp.MustCompile(`"([^"]*)"`)

// readerOps normalises the reader's trace (main thread, between the markers) to the model's alphabet
func readerOps(trace string) []string {
	data, _ := os.ReadFile(trace)
	var ops []string
	mainPid, in := "", false
	pending := map[string]string{}
	for _, line := range strings.Split(string(data), "\n") {
		f := strings.Fields(line)
		if len(f) < 2 {
			continue
		}
		pid := f[0]
		if strings.HasSuffix(line, "<unfinished ...>") {
			pending[pid] = strings.TrimSuffix(line, " <unfinished ...>")
			continue
		}
		if i := strings.Index(line, "<... "); i >= 0 {
			if j := strings.Index(line, " resumed>"); j > i {
				line = pending[pid] + line[j+len(" resumed>"):]
				delete(pending, pid)
			}
		}
		if strings.Contains(line, "/verif-marker-begin") {
			mainPid, in = pid, true
			continue
		}
		if strings.Contains(line, "/verif-marker-end") {
			break
		}
		if !in || pid != mainPid {
			continue
		}
		m := straceLine.FindStringSubmatch(line)
		if m != nil && m[1] == "close" {
			ops = append(ops, "close")
			continue
		}
		if m == nil || m[1] != "openat" {
			continue
		}
		q := c30Quoted.FindAllStringSubmatch(m[2], -1)
		if len(q) == 0 {
			continue
		}
		res := "ok"
		if strings.HasPrefix(m[3], "-") {
			res = m[4]
		}
		base := filepath.Base(q[0][1])
		switch {
		case strings.Contains(m[2], "O_DIRECTORY"):
			ops = append(ops, "readdir")
		case base == ".blockmeta":
			ops = append(ops, "openmeta:"+res)
		case strings.HasSuffix(base, ".gpf"):
			ops = append(ops, "opencol:"+strings.TrimSuffix(base, ".gpf")+":"+res)
		}
	}
	return ops
}

// c30Free: the real query engine and ReadMetadata run in a loop while a writer process performs the
// remaining write-outs at full speed (no scheduler): every answer must be that of a committed state.
func c30Free(f []string) string {
	var ws []WriteOut
	for _, s := range splitSemi(f[1]) {
		ws = append(ws, parseWriteOut(s))
	}
	k0, _ := strconv.Atoi(f[2])
	work, err := os.MkdirTemp("", "verif-c30f-")
	if err != nil {
		panic(err)
	}
	defer os.RemoveAll(work)
	db := filepath.Join(work, "db")
	_ = os.MkdirAll(db, 0o755)
	for _, w := range ws[:k0] {
		if err := writeOut(db, w.Iface, w.TS, w.Drops, w.Flows, encoders.EncoderTypeLZ4); err != nil {
			return "free=violates:setup"
		}
	}
	first, last := c04Range(ws)
	// "for every day it reflects the blocks of some write-out that had completed": the answer is judged per
	// interface (each history of these cases lies within one day) — a query over several interfaces reads
	// them one after the other and may see a later state of the second one
	allowedQ, allowedL := map[string]bool{}, map[string]bool{}
	addQ := func(q string) {
		for _, part := range c30PerIface(q) {
			allowedQ[part] = true
		}
	}
	addL := func(l string) {
		for _, e := range splitSemi(l) {
			allowedL[e] = true
		}
	}
	var mustHave []string // interfaces that hold data from the start: they can never be missing from an answer
	okQ := func(q string) bool {
		parts := c30PerIface(q)
		for _, part := range parts {
			if !allowedQ[part] {
				return false
			}
		}
		for _, ifc := range mustHave {
			found := false
			for _, part := range parts {
				found = found || strings.HasPrefix(part, ifc+"=")
			}
			if !found {
				return false
			}
		}
		return true
	}
	okL := func(l string) bool {
		for _, e := range splitSemi(l) {
			if !allowedL[e] {
				return false
			}
		}
		return true
	}
	// expected answers for every committed prefix, computed on scratch databases through the same code
	for j := k0; j <= len(ws); j++ {
		ref := filepath.Join(work, fmt.Sprintf("ref%d", j))
		_ = os.MkdirAll(ref, 0o755)
		for _, w := range ws[:j] {
			_ = writeOut(ref, w.Iface, w.TS, w.Drops, w.Flows, encoders.EncoderTypeLZ4)
		}
		qref := queryRows(ref, "any", first, last, "")
		addQ(qref)
		if j == k0 && strings.HasPrefix(qref, "rows=") {
			for _, part := range c30PerIface(qref) {
				mustHave = append(mustHave, strings.SplitN(part, "=", 2)[0])
			}
		}
		addL(c30DropZero(listSummary(ref, first, last)))
		_ = os.RemoveAll(ref)
	}
	var rest []string
	for _, w := range ws[k0:] {
		rest = append(rest, w.String())
	}
	cmd := exec.Command(os.Args[0], "__child", "writeouts-slow", db, semiField(rest))
	cmd.Env = append(os.Environ(), "TZ=UTC")
	if err := cmd.Start(); err != nil {
		return "free=violates:writer-start"
	}
	done := make(chan struct{})
	go func() { _ = cmd.Wait(); close(done) }()
	n := 0
	for {
		q := queryRows(db, "any", first, last, "")
		l := c30DropZero(listSummary(db, first, last))
		n++
		if k0 == 0 && (q == "err:iface" || strings.HasPrefix(q, "rows=-")) {
			// empty database: nothing to answer yet
		} else if !okQ(q) {
			<-done
			if os.Getenv("VERIF_DEBUG") != "" {
				fmt.Fprintf(os.Stderr, "observed: %s\nallowed:\n", q)
				for a := range allowedQ {
					fmt.Fprintf(os.Stderr, "  %s\n", a)
				}
			}
			return "free=violates:query-not-a-committed-state:" + esc(q[:min(len(q), 60)])
		}
		if !okL(l) && !(k0 == 0 && (l == "-" || strings.HasSuffix(l, "/0:0:0:0:0:0:0"))) {
			<-done
			return "free=violates:listing-not-a-committed-state:" + esc(l[:min(len(l), 60)])
		}
		select {
		case <-done:
			if q2 := queryRows(db, "any", first, last, ""); !okQ(q2) {
				return "free=violates:final-query"
			}
			if n < 3 {
				return "free=ok" // (too fast to overlap much; still a valid run)
			}
			return "free=ok"
		default:
		}
	}
}

// c30PerIface splits a rendered query answer (rows=iface@ts/…,…|totals=…|hits=…) into one string per
// interface holding that interface's rows in order ("err…" and empty answers stay whole)
func c30PerIface(q string) []string {
	if !strings.HasPrefix(q, "rows=") {
		return []string{q}
	}
	rows := strings.SplitN(strings.TrimPrefix(q, "rows="), "|", 2)[0]
	by := map[string][]string{}
	var order []string
	for _, r := range strings.Split(rows, ",") {
		if r == "-" || r == "" {
			continue
		}
		ifc := strings.SplitN(r, "@", 2)[0]
		if _, ok := by[ifc]; !ok {
			order = append(order, ifc)
		}
		by[ifc] = append(by[ifc], r)
	}
	var out []string
	for _, ifc := range order {
		out = append(out, ifc+"="+strings.Join(by[ifc], ","))
	}
	return out
}

// an interface directory that exists but holds no committed data is listed with zero totals: same as absent
func c30DropZero(l string) string {
	var keep []string
	for _, e := range splitSemi(l) {
		if !strings.HasSuffix(e, "/0:0:0:0:0:0:0") {
			keep = append(keep, e)
		}
	}
	return semiField(keep)
}

func c30Run(f []string) string {
	if f[0] == "free" {
		return c30Free(f)
	}
	var ws []WriteOut
	for _, s := range splitSemi(f[0]) {
		ws = append(ws, parseWriteOut(s))
	}
	k0, _ := strconv.Atoi(f[1])
	sched := f[2]
	work, err := os.MkdirTemp("", "verif-c30-")
	if err != nil {
		panic(err)
	}
	if os.Getenv("VERIF_KEEP") == "" {
		defer os.RemoveAll(work)
	}
	db := filepath.Join(work, "db")
	_ = os.MkdirAll(db, 0o755)
	for _, w := range ws[:k0] {
		if err := writeOut(db, w.Iface, w.TS, w.Drops, w.Flows, encoders.EncoderTypeLZ4); err != nil {
			return "err:setup"
		}
	}
	var rest []string
	for _, w := range ws[k0:] {
		rest = append(rest, w.String())
	}
	target := ws[k0]
	day := target.TS / 86400 * 86400
	wargs := []string{"writeouts", db, semiField(rest)}
	rargs := []string{"readday", db, target.Iface, strconv.FormatInt(day, 10)}
	// dry runs (on a copy for the writer) to learn how many stops precede each window
	dry := filepath.Join(work, "dry")
	_ = copyTree(db, dry)
	dtr := filepath.Join(work, "dry-w.txt")
	c := exec.Command("strace", "-f", "-o", dtr, "-e", "trace=%file,%desc", os.Args[0], "__child", "writeouts", dry, semiField(rest))
	c.Env = append(os.Environ(), "GOMAXPROCS=1", "TZ=UTC")
	_ = c.Run()
	wBefore, _ := countedBefore(dtr, fsOpSyscalls)
	dtr2 := filepath.Join(work, "dry-r.txt")
	c = exec.Command("strace", "-f", "-o", dtr2, "-e", "trace=%file,%desc", os.Args[0], "__child", "readday", dry, target.Iface, strconv.FormatInt(day, 10))
	c.Env = append(os.Environ(), "GOMAXPROCS=1", "TZ=UTC")
	_ = c.Run()
	rBefore, _ := countedBefore(dtr2, c30ReaderStops)
	_ = os.RemoveAll(dry)

	wp, err := startStopped(work, "w", fsOpSyscalls, wargs...)
	if err != nil {
		return "err:sched-writer"
	}
	rp, err := startStopped(work, "r", c30ReaderStops, rargs...)
	if err != nil {
		wp.Finish()
		return "err:sched-reader"
	}
	// startStopped returns at the first stop, i.e. after the first counted system call; advance both until
	// all calls preceding their windows are done (each Step performs exactly one more)
	wp.AdvanceTo(wBefore)
	rp.AdvanceTo(rBefore)
	for _, ch := range sched {
		if ch == 'w' {
			wp.StepOp()
		} else {
			rp.StepOp()
		}
	}
	rp.Finish()
	wp.Finish()
	res := strings.TrimSpace(rp.out.String())
	if res == "" {
		res = "err:no-output"
	}
	res, dig := c30SplitDigests(res)
	// what the reader held for each block must be what the block contains (read again, nothing running)
	_, ref := c30SplitDigests(c30ReadDay(filepath.Join(db, target.Iface), day))
	data := "ok"
	for ts, h := range dig {
		if ref[ts] != h {
			data = "corrupt"
		}
	}
	return "rops=" + listField(readerOps(rp.trace)) + " res=" + res + " data=" + data
}

func c30Gen(r *Rand, tier string) []Case {
	nh, per := 2, 40
	if tier == "thorough" {
		nh, per = 12, 300
	}
	var cs []Case
	day := int64(1699920000)
	for h := 0; h < nh; h++ {
		// k0 committed write-outs to one day, then 1-3 more by the concurrent writer
		k0 := r.Intn(3)
		more := 1 + r.Intn(3)
		var hs []string
		for i := 0; i < k0+more; i++ {
			nf := 1 + r.Intn(2)
			hs = append(hs, WriteOut{Iface: "eth0", TS: day + int64(i+1)*300, Drops: uint64(r.Intn(3)), Flows: genFlows(r, nf)}.String())
		}
		hist := semiField(hs)
		for s := 0; s < per; s++ {
			// schedules: bursts of writer / reader operations; the writer needs about 25 per write-out
			var b strings.Builder
			n := 10 + r.Intn(30*more+20)
			for b.Len() < n {
				run := 1 + r.Intn(8)
				ch := byte('w')
				if r.Chance(2, 5) {
					ch = 'r'
					run = 1 + r.Intn(3)
				}
				for i := 0; i < run; i++ {
					b.WriteByte(ch)
				}
			}
			cs = append(cs, Case{Line: fmt.Sprintf("C30 %s %d %s", hist, k0, b.String()), Class: fmt.Sprintf("k0=%d,more=%d", k0, more), NonTrivial: true})
		}
	}
	// free-running overlap of the real engine with a writer process (no scheduler), judged against the set
	// of committed states
	nfree := 6
	if tier == "thorough" {
		nfree = 200
	}
	for i := 0; i < nfree; i++ {
		k0 := r.Intn(3)
		more := 4 + r.Intn(12)
		var hs []string
		for j := 0; j < k0+more; j++ {
			hs = append(hs, WriteOut{Iface: Pick(r, []string{"eth0", "eth0", "eth1"}), TS: day + int64(j+1)*300, Drops: uint64(r.Intn(3)), Flows: genFlows(r, 1+r.Intn(3))}.String())
		}
		cs = append(cs, Case{Line: fmt.Sprintf("C30 free %s %d", semiField(hs), k0), Class: "free-running", NonTrivial: true})
	}
	return cs
}

func init() {
	register(&Prop{
		ID:       "C30",
		Rule:     "seeded: a day with 0-2 committed write-outs, a writer process performing 1-3 further real write-outs (DBWriter.Write) and a reader process reading that day through GPDir (list, Open, ReadBlockAtIndex of every block and column), interleaved ONE FILE OPERATION AT A TIME according to a seeded schedule string (bursts of 1-8 writer operations and 1-3 reader operations) enforced by SIGSTOP injection before every file operation of both processes; the reader's operation trace and what it read are compared with the model. Non-trivial: every case (writer and reader overlap). Distinct = distinct (history, schedule).",
		Gen:      c30Gen,
		Run:      c30Run,
		Parallel: 6,
	})
}
