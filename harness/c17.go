//go:build verif_all || verif_c17

package main

import (
	"bytes"
	"encoding/json"
	"fmt"
	"net/netip"
	"reflect"
	"sort"
	"strconv"
	"strings"
	"time"

	"github.com/els0r/goProbe/v4/pkg/query"
	"github.com/els0r/goProbe/v4/pkg/results"
	"github.com/els0r/goProbe/v4/pkg/types"
	"github.com/els0r/goProbe/v4/pkg/types/workload"
	jsoniter "github.com/json-iterator/go"
)

// C17 — JSON round trips of query.Args, query.Statement, results.Result (and results.Row), and the
// enum <-> name maps of types.Direction and results.SortOrder. Values travel on the wire as terms
// (see lean/GoProbeModel/Spec/C17.lean); the term printer / parser below is reflection based, so a
// new JSON-visible field automatically shows up in the terms (and must then be known to the model's
// regenerated field tables).

var (
	c17TimeType = reflect.TypeOf(time.Time{})
	c17AddrType = reflect.TypeOf(netip.Addr{})
)

type c17Field struct {
	name  string
	index []int
}

// JSON-visible fields in declaration order, embedded structs spliced in (as encoding/json promotes them)
func c17Fields(t reflect.Type) []c17Field {
	var out []c17Field
	for i := 0; i < t.NumField(); i++ {
		f := t.Field(i)
		tag := strings.Split(f.Tag.Get("json"), ",")[0]
		if tag == "-" {
			continue
		}
		if f.Anonymous && f.Type.Kind() == reflect.Struct && tag == "" {
			if f.Type.PkgPath() == "sync" {
				continue
			}
			for _, sub := range c17Fields(f.Type) {
				out = append(out, c17Field{sub.name, append([]int{i}, sub.index...)})
			}
			continue
		}
		if f.PkgPath != "" { // unexported
			continue
		}
		out = append(out, c17Field{f.Name, []int{i}})
	}
	return out
}

func c17Show(v reflect.Value, out *[]string) {
	switch v.Type() {
	case c17TimeType:
		t := v.Interface().(time.Time)
		_, off := t.Zone()
		*out = append(*out, fmt.Sprintf("t%d:%d:%d", t.Unix(), t.Nanosecond(), off))
		return
	case c17AddrType:
		a := v.Interface().(netip.Addr)
		if !a.IsValid() {
			*out = append(*out, "a-")
		} else {
			*out = append(*out, "a"+esc(a.String()))
		}
		return
	}
	switch v.Kind() {
	case reflect.Bool:
		*out = append(*out, "b"+b2s(v.Bool()))
	case reflect.Int, reflect.Int8, reflect.Int16, reflect.Int32, reflect.Int64:
		*out = append(*out, "i"+strconv.FormatInt(v.Int(), 10))
	case reflect.Uint, reflect.Uint8, reflect.Uint16, reflect.Uint32, reflect.Uint64:
		*out = append(*out, "i"+strconv.FormatUint(v.Uint(), 10))
	case reflect.String:
		*out = append(*out, "s"+esc(v.String()))
	case reflect.Ptr:
		if v.IsNil() {
			*out = append(*out, "n")
			return
		}
		*out = append(*out, "p")
		c17Show(v.Elem(), out)
	case reflect.Slice:
		if v.IsNil() {
			*out = append(*out, "n")
			return
		}
		*out = append(*out, fmt.Sprintf("l%d", v.Len()))
		for i := 0; i < v.Len(); i++ {
			c17Show(v.Index(i), out)
		}
	case reflect.Map:
		if v.IsNil() {
			*out = append(*out, "n")
			return
		}
		type kv struct {
			k string
			v reflect.Value
		}
		var kvs []kv
		for _, k := range v.MapKeys() {
			kvs = append(kvs, kv{esc(k.String()), v.MapIndex(k)})
		}
		sort.Slice(kvs, func(i, j int) bool { return kvs[i].k < kvs[j].k })
		*out = append(*out, fmt.Sprintf("m%d", len(kvs)))
		for _, e := range kvs {
			*out = append(*out, "k"+e.k)
			c17Show(e.v, out)
		}
	case reflect.Struct:
		fs := c17Fields(v.Type())
		*out = append(*out, fmt.Sprintf("o%s:%d", v.Type().Name(), len(fs)))
		for _, f := range fs {
			*out = append(*out, "f"+f.name)
			c17Show(v.FieldByIndex(f.index), out)
		}
	default:
		panic("c17: unsupported kind " + v.Kind().String())
	}
}

func c17Term(x any) string {
	var out []string
	c17Show(reflect.ValueOf(x), &out)
	return strings.Join(out, ",")
}

type c17Toks struct {
	t []string
	i int
}

func (p *c17Toks) next(tag byte) string {
	if p.i >= len(p.t) || len(p.t[p.i]) == 0 || p.t[p.i][0] != tag {
		panic("c17: bad term")
	}
	s := p.t[p.i][1:]
	p.i++
	return s
}

func (p *c17Toks) peekNil() bool {
	if p.i < len(p.t) && p.t[p.i] == "n" {
		p.i++
		return true
	}
	return false
}

func c17Parse(v reflect.Value, p *c17Toks) {
	switch v.Type() {
	case c17TimeType:
		parts := strings.Split(p.next('t'), ":")
		if len(parts) != 3 {
			panic("c17: bad time")
		}
		sec, e1 := strconv.ParseInt(parts[0], 10, 64)
		nsec, e2 := strconv.ParseInt(parts[1], 10, 64)
		off, e3 := strconv.Atoi(parts[2])
		if e1 != nil || e2 != nil || e3 != nil {
			panic("c17: bad time")
		}
		t := time.Unix(sec, nsec).UTC()
		if off != 0 {
			t = t.In(time.FixedZone("", off))
		}
		v.Set(reflect.ValueOf(t))
		return
	case c17AddrType:
		s := p.next('a')
		if s != "-" {
			v.Set(reflect.ValueOf(netip.MustParseAddr(unesc(s))))
		}
		return
	}
	switch v.Kind() {
	case reflect.Bool:
		v.SetBool(p.next('b') == "1")
	case reflect.Int, reflect.Int8, reflect.Int16, reflect.Int32, reflect.Int64:
		n, err := strconv.ParseInt(p.next('i'), 10, 64)
		if err != nil || v.OverflowInt(n) {
			panic("c17: bad int")
		}
		v.SetInt(n)
	case reflect.Uint, reflect.Uint8, reflect.Uint16, reflect.Uint32, reflect.Uint64:
		n, err := strconv.ParseUint(p.next('i'), 10, 64)
		if err != nil || v.OverflowUint(n) {
			panic("c17: bad uint")
		}
		v.SetUint(n)
	case reflect.String:
		v.SetString(unesc(p.next('s')))
	case reflect.Ptr:
		if p.peekNil() {
			return
		}
		p.next('p')
		v.Set(reflect.New(v.Type().Elem()))
		c17Parse(v.Elem(), p)
	case reflect.Slice:
		if p.peekNil() {
			return
		}
		k, err := strconv.Atoi(p.next('l'))
		if err != nil {
			panic("c17: bad len")
		}
		v.Set(reflect.MakeSlice(v.Type(), k, k))
		for i := 0; i < k; i++ {
			c17Parse(v.Index(i), p)
		}
	case reflect.Map:
		if p.peekNil() {
			return
		}
		k, err := strconv.Atoi(p.next('m'))
		if err != nil {
			panic("c17: bad len")
		}
		v.Set(reflect.MakeMap(v.Type()))
		for i := 0; i < k; i++ {
			key := reflect.New(v.Type().Key()).Elem()
			key.SetString(unesc(p.next('k')))
			e := reflect.New(v.Type().Elem()).Elem()
			c17Parse(e, p)
			v.SetMapIndex(key, e)
		}
	case reflect.Struct:
		fs := c17Fields(v.Type())
		if p.next('o') != fmt.Sprintf("%s:%d", v.Type().Name(), len(fs)) {
			panic("c17: struct header mismatch")
		}
		for _, f := range fs {
			if p.next('f') != f.name {
				panic("c17: field name mismatch")
			}
			c17Parse(v.FieldByIndex(f.index), p)
		}
	default:
		panic("c17: unsupported kind " + v.Kind().String())
	}
}

// set of key paths of a JSON document (struct keys and map keys alike, %-escaped), sorted
func c17KeyPaths(doc []byte) string {
	d := json.NewDecoder(bytes.NewReader(doc))
	d.UseNumber()
	var x any
	if err := d.Decode(&x); err != nil {
		return "bad-json"
	}
	set := map[string]bool{}
	var walk func(p string, x any)
	walk = func(p string, x any) {
		switch y := x.(type) {
		case []any:
			for _, e := range y {
				walk(p+"[]", e)
			}
		case map[string]any:
			for k, e := range y {
				q := esc(k)
				if p != "" {
					q = p + "." + q
				}
				set[q] = true
				walk(q, e)
			}
		}
	}
	walk("", x)
	var ps []string
	for k := range set {
		ps = append(ps, k)
	}
	sort.Strings(ps)
	return listField(ps)
}

func c17Marshal(lib string, x any) ([]byte, error) {
	if lib == "ji" {
		return jsoniter.Marshal(x)
	}
	return json.Marshal(x)
}

func c17Unmarshal(lib string, b []byte, x any) error {
	if lib == "ji" {
		return jsoniter.Unmarshal(b, x)
	}
	return json.Unmarshal(b, x)
}

var c17Types = map[string]reflect.Type{
	"Args":      reflect.TypeOf(query.Args{}),
	"Statement": reflect.TypeOf(query.Statement{}),
	"Result":    reflect.TypeOf(results.Result{}),
	"Row":       reflect.TypeOf(results.Row{}),
}

func c17Run(f []string) string {
	switch f[0] {
	case "enum":
		n, _ := strconv.Atoi(f[2])
		if f[1] == "dir" {
			s := types.Direction(n).String()
			return esc(s) + " " + strconv.Itoa(int(types.DirectionFromString(s)))
		}
		s := results.SortOrder(n).String()
		return esc(s) + " " + strconv.Itoa(int(results.SortOrderFromString(s)))
	case "fromstr":
		if f[1] == "dir" {
			return strconv.Itoa(int(types.DirectionFromString(unesc(f[2]))))
		}
		return strconv.Itoa(int(results.SortOrderFromString(unesc(f[2]))))
	case "enumjson":
		lib, mode := f[2], f[3]
		n, _ := strconv.Atoi(f[4])
		var b []byte
		var err error
		var back int
		if f[1] == "dir" {
			d := types.Direction(n)
			if mode == "ptr" {
				b, err = c17Marshal(lib, &d)
			} else {
				b, err = c17Marshal(lib, d)
			}
			if err != nil {
				return "err:marshal"
			}
			var d2 types.Direction
			if err = c17Unmarshal(lib, b, &d2); err != nil {
				return "err:unmarshal"
			}
			back = int(d2)
		} else {
			s := results.SortOrder(n)
			if mode == "ptr" {
				b, err = c17Marshal(lib, &s)
			} else {
				b, err = c17Marshal(lib, s)
			}
			if err != nil {
				return "err:marshal"
			}
			var s2 results.SortOrder
			if err = c17Unmarshal(lib, b, &s2); err != nil {
				return "err:unmarshal"
			}
			back = int(s2)
		}
		return esc(string(b)) + " " + strconv.Itoa(back)
	case "rt":
		t, ok := c17Types[f[1]]
		if !ok {
			return "bad-args"
		}
		lib, mode := f[2], f[3]
		orig := reflect.New(t)
		p := &c17Toks{t: strings.Split(f[4], ",")}
		c17Parse(orig.Elem(), p)
		if p.i != len(p.t) {
			panic("c17: trailing tokens")
		}
		var b []byte
		var err error
		if mode == "ptr" {
			b, err = c17Marshal(lib, orig.Interface())
		} else {
			b, err = c17Marshal(lib, orig.Elem().Interface())
		}
		if err != nil {
			return "err:marshal"
		}
		back := reflect.New(t)
		if err = c17Unmarshal(lib, b, back.Interface()); err != nil {
			return "err:unmarshal"
		}
		return c17Term(back.Elem().Interface()) + " " + c17KeyPaths(b)
	}
	return "bad-op"
}

// ---------------------------------------------------------------- generation

var c17Strings = []string{
	"", "", "eth0", "eth1", "hostA", "host-b.example.com", "a b", "sip,dip", "dport = 80 & proto = TCP",
	"ü", "日本語", "\"", "\\", "a\"b\\c", "\n", "\t\r", "\x00", "\x1f", "<>&", "  ", "😀", "%", "-", "--",
	"a,b;c:d|e", "null", "0", "true", "{}", "[]", " ", "ÿ", " ", "time", "any", "/eth[0-3]/",
}

func c17Str(r *Rand) string {
	if r.Chance(1, 8) {
		n := r.Intn(12)
		var sb strings.Builder
		for i := 0; i < n; i++ {
			sb.WriteRune(Pick(r, []rune{'a', 'Z', '0', ' ', '"', '\\', '/', 'é', '€', '𝄞', '\n', 0x7f, '-', '%', '_', '.', ':'}))
		}
		return sb.String()
	}
	return Pick(r, c17Strings)
}

func c17U64(r *Rand) uint64 {
	switch r.Intn(8) {
	case 0:
		return 0
	case 1:
		return 1
	case 2:
		return 1<<53 + 1
	case 3:
		return 1<<64 - 1
	case 4:
		return 1 << 63
	case 5:
		return r.U64()
	default:
		return uint64(r.I64n(1 << 40))
	}
}

func c17I64(r *Rand) int64 {
	switch r.Intn(8) {
	case 0:
		return 0
	case 1:
		return -1
	case 2:
		return 1<<63 - 1
	case 3:
		return -1 << 63
	case 4:
		return int64(r.U64())
	default:
		return r.I64n(1 << 40)
	}
}

func c17Dur(r *Rand) time.Duration {
	switch r.Intn(6) {
	case 0:
		return 0
	case 1:
		return time.Duration(c17I64(r))
	case 2:
		return 300 * time.Second
	default:
		return time.Duration(r.I64n(86400)) * time.Second
	}
}

const (
	c17ZeroSec   = -62135596800
	c17Year0     = -62167219200
	c17Year10000 = 253402300800
)

// c17Time returns a time and whether it lies in the property's domain (RFC 3339 can carry it)
func c17Time(r *Rand, zeroOften bool) (time.Time, bool) {
	var sec int64
	switch r.Intn(20) {
	case 0:
		sec = c17ZeroSec
	case 1:
		sec = 0
	case 2:
		sec = c17Year0 + r.I64n(3)*86400 - 86400 // around the start of year 0
	case 3:
		sec = c17Year10000 - 1 - r.I64n(3)*86400 + 86400 // around the end of year 9999
	case 4:
		sec = -r.I64n(4000000000)
	case 5:
		sec = (1700000000/300 + r.I64n(100000)) * 300
	case 6:
		sec = c17ZeroSec + r.I64n(3) - 1
	default:
		sec = 1600000000 + r.I64n(200000000)
	}
	if zeroOften && r.Chance(1, 3) {
		sec = c17ZeroSec
	}
	var nsec int64
	switch r.Intn(6) {
	case 0:
		nsec = r.I64n(1000000000)
	case 1:
		nsec = 999999999
	case 2:
		nsec = 1
	}
	off := 0
	switch r.Intn(14) {
	case 0, 1:
		off = (r.Intn(105) - 48) * 900 // -12:00 .. +14:00 in quarter hours
	case 2:
		off = Pick(r, []int{86340, -86340, 60, -60, 12600, -34200})
	case 3:
		if r.Chance(1, 6) {
			off = Pick(r, []int{1, -1, 59, -59, 3601, -3599, 1172}) // sub-minute: RFC 3339 cannot carry it
		}
	case 4:
		if r.Chance(1, 6) {
			off = Pick(r, []int{86400, -86400, 90000, 360000, -400000}) // zone hour out of range
		}
	}
	t := time.Unix(sec, nsec).UTC()
	if off != 0 {
		t = t.In(time.FixedZone("", off))
	}
	local := sec + int64(off)
	ok := local >= c17Year0 && local < c17Year10000 && off%60 == 0 && off > -86400 && off < 86400
	return t, ok
}

var c17Addrs = []string{
	"0.0.0.0", "127.0.0.1", "10.81.45.1", "8.8.8.8", "255.255.255.255", "::", "::1", "2001:db8::1", "fe80::1%eth0",
	"::ffff:1.2.3.4", "ff02::fb", "2a00:1450:4001:82b::200e", "fe80::a%25", "::ffff:0:0",
}

func c17Addr(r *Rand) netip.Addr {
	switch r.Intn(6) {
	case 0:
		return netip.Addr{}
	case 1:
		var b [4]byte
		copy(b[:], r.Bytes(4))
		return netip.AddrFrom4(b)
	case 2:
		var b [16]byte
		copy(b[:], r.Bytes(16))
		return netip.AddrFrom16(b)
	default:
		return netip.MustParseAddr(Pick(r, c17Addrs))
	}
}

func c17Counters(r *Rand) types.Counters {
	if r.Chance(1, 6) {
		return types.Counters{}
	}
	return types.Counters{BytesRcvd: c17U64(r), BytesSent: c17U64(r), PacketsRcvd: c17U64(r), PacketsSent: c17U64(r)}
}

func c17Row(r *Rand) (results.Row, bool) {
	ts, ok := c17Time(r, true)
	row := results.Row{
		Labels:     results.Labels{Timestamp: ts},
		Attributes: results.Attributes{SrcIP: c17Addr(r), DstIP: c17Addr(r)},
		Counters:   c17Counters(r),
	}
	if r.Bool() {
		row.Labels.Iface = c17Str(r)
	}
	if r.Chance(1, 3) {
		row.Labels.Hostname = c17Str(r)
	}
	if r.Chance(1, 3) {
		row.Labels.HostID = c17Str(r)
	}
	if r.Bool() {
		row.Attributes.IPProto = uint8(Pick(r, []int{0, 1, 6, 17, 58, 255, r.Intn(256)}))
	}
	if r.Bool() {
		row.Attributes.DstPort = uint16(Pick(r, []int{0, 53, 80, 443, 65535, r.Intn(65536)}))
	}
	return row, ok
}

func c17DNS(r *Rand) query.DNSResolution {
	if r.Chance(1, 3) {
		return query.DNSResolution{}
	}
	return query.DNSResolution{Enabled: r.Bool(), Timeout: c17Dur(r), MaxRows: int(c17I64(r))}
}

func c17Args(r *Rand) query.Args {
	if r.Chance(1, 10) {
		a := query.DefaultArgs()
		a.First = "1700000000" // the default is derived from the wall clock
		return *a
	}
	a := query.Args{
		Query: c17Str(r), Ifaces: c17Str(r), QueryHosts: c17Str(r), QueryHostsResolverType: c17Str(r), Hostname: c17Str(r),
		HostID: uint(c17U64(r)), Condition: c17Str(r), In: r.Bool(), Out: r.Bool(), Sum: r.Bool(),
		First: c17Str(r), Last: c17Str(r), TimeResolution: Pick(r, []string{"", "auto", "5m", "1h", c17Str(r)}),
		Format: Pick(r, []string{"", "json", "txt", "csv", c17Str(r)}), SortBy: Pick(r, []string{"", "bytes", "packets", "time", c17Str(r)}),
		NumResults: c17U64(r), SortAscending: r.Bool(), List: r.Bool(), Version: r.Bool(), DNSResolution: c17DNS(r),
		MaxMemPct: int(c17I64(r)), LowMem: r.Bool(), KeepAlive: c17Dur(r), Caller: c17Str(r), Live: r.Bool(),
	}
	return a
}

func c17Strs(r *Rand) []string {
	switch r.Intn(5) {
	case 0:
		return nil
	case 1:
		return []string{}
	}
	n := 1 + r.Intn(4)
	out := make([]string, n)
	for i := range out {
		out[i] = c17Str(r)
	}
	return out
}

// c17Statement returns a statement and whether its enumeration fields hold members
func c17Statement(r *Rand) (query.Statement, bool, string) {
	if r.Chance(1, 3) {
		// a prepared statement: what Args.Prepare produces for valid-looking arguments
		a := query.NewArgs(Pick(r, []string{"sip,dip", "talk_conv", "time,iface,dport", "sip", "raw", "dip,proto,time", "iface"}),
			Pick(r, []string{"eth0", "eth0,eth1", "any", "/eth[0-9]/"}))
		a.First = strconv.FormatInt(1700000000+r.I64n(1000000), 10)
		a.Last = strconv.FormatInt(1702000000+r.I64n(1000000), 10)
		a.In, a.Out, a.Sum = r.Chance(1, 3), r.Chance(1, 3), r.Chance(1, 5)
		a.SortBy = Pick(r, []string{"", "bytes", "packets"})
		a.Format = Pick(r, []string{"json", "txt", "csv"})
		a.Condition = Pick(r, []string{"", "dport = 80", "sip = 10.0.0.1 & proto = tcp", "dir = in"})
		a.SortAscending = r.Bool()
		a.Caller = Pick(r, []string{"", "goQuery", "global-query"})
		a.TimeResolution = Pick(r, []string{"", "auto", "10m", "1h"})
		a.LowMem = r.Bool()
		if r.Chance(1, 4) {
			a.KeepAlive = 2 * time.Second
		}
		if st, err := a.Prepare(); err == nil && st != nil {
			return *st, true, "prepared"
		}
	}
	members := true
	dir := types.Direction(r.Intn(5))
	so := results.SortOrder(r.Intn(4))
	if r.Chance(1, 12) {
		dir = types.Direction(Pick(r, []int{5, -1, 100}))
		members = false
	}
	if r.Chance(1, 12) {
		so = results.SortOrder(Pick(r, []int{4, -1, 77}))
		members = false
	}
	s := query.Statement{
		Ifaces:        c17Strs(r),
		LabelSelector: types.LabelSelector{Timestamp: r.Bool(), Iface: r.Bool(), Hostname: r.Bool(), HostID: r.Bool()},
		QueryType:     c17Str(r), Condition: c17Str(r), Direction: dir, First: c17I64(r), Last: c17I64(r), TimeBinSize: c17Dur(r),
		Format: c17Str(r), NumResults: c17U64(r), SortBy: so, SortAscending: r.Bool(), Caller: c17Str(r), DNSResolution: c17DNS(r),
		MaxMemPct: int(c17I64(r)), LowMem: r.Bool(), KeepAliveDuration: c17Dur(r), Live: r.Bool(),
	}
	return s, members, "random"
}

var c17Codes = []types.Status{types.StatusOK, types.StatusEmpty, types.StatusError, types.StatusMissingData, types.StatusTooManyRequests, "", "something else"}

func c17Status(r *Rand) results.Status {
	st := results.Status{Code: Pick(r, c17Codes)}
	if r.Bool() {
		st.Message = c17Str(r)
	}
	return st
}

func c17Result(r *Rand, tier string) (results.Result, bool) {
	if r.Chance(1, 12) {
		return *results.New(), true
	}
	ok := true
	res := results.Result{Hostname: c17Str(r), Status: c17Status(r)}
	switch r.Intn(4) {
	case 0: // nil
	case 1:
		res.HostsStatuses = results.HostsStatuses{}
	default:
		res.HostsStatuses = results.HostsStatuses{}
		for i, n := 0, 1+r.Intn(4); i < n; i++ {
			res.HostsStatuses[c17Str(r)] = c17Status(r)
		}
	}
	res.Summary.Interfaces = c17Strs(r)
	var o bool
	res.Summary.First, o = c17Time(r, false)
	ok = ok && o
	res.Summary.Last, o = c17Time(r, false)
	ok = ok && o
	res.Summary.Totals = c17Counters(r)
	res.Summary.Timings.QueryStart, o = c17Time(r, false)
	ok = ok && o
	res.Summary.Timings.QueryDuration = c17Dur(r)
	res.Summary.Timings.ResolutionDuration = c17Dur(r)
	res.Summary.Hits = results.Hits{Displayed: int(r.I64n(1000)), Total: int(c17I64(r))}
	res.Summary.DataAvailable = r.Bool()
	if r.Bool() {
		res.Summary.Stats = &workload.Stats{BytesLoaded: c17U64(r), BytesDecompressed: c17U64(r), BlocksProcessed: c17U64(r),
			BlocksCorrupted: c17U64(r), DirectoriesProcessed: c17U64(r), Workloads: c17U64(r)}
	}
	res.Query = results.Query{Attributes: c17Strs(r), Condition: c17Str(r)}
	switch r.Intn(5) {
	case 0: // nil rows
	case 1:
		res.Rows = results.Rows{}
	default:
		n := 1 + r.Intn(6)
		if tier == "thorough" && r.Chance(1, 20) {
			n = 50 + r.Intn(100)
		}
		for i := 0; i < n; i++ {
			row, o := c17Row(r)
			ok = ok && o
			res.Rows = append(res.Rows, row)
		}
	}
	return res, ok
}

func c17Gen(r *Rand, tier string) []Case {
	n := 500
	if tier == "thorough" {
		n = 120000
	}
	var cs []Case
	libs := []string{"std", "ji"}
	modes := []string{"val", "ptr"}
	// the enumerations, exhaustively (members and a margin of non-members), on every run
	for _, k := range []struct {
		kind string
		max  int
	}{{"dir", 4}, {"sort", 3}} {
		for v := -2; v <= k.max+3; v++ {
			member := v >= 0 && v <= k.max
			cs = append(cs, Case{Line: fmt.Sprintf("C17 enum %s %d", k.kind, v), Class: fmt.Sprintf("enum:member=%v", member), NonTrivial: member})
			for _, lib := range libs {
				for _, mode := range modes {
					cs = append(cs, Case{Line: fmt.Sprintf("C17 enumjson %s %s %s %d", k.kind, lib, mode, v), Class: fmt.Sprintf("enumjson:member=%v", member), NonTrivial: member})
				}
			}
		}
	}
	names := []string{"unknown", "sum", "in", "out", "bi-directional", "packets", "bytes", "time"}
	for i := 0; i < n/5; i++ {
		var s string
		switch r.Intn(4) {
		case 0:
			s = Pick(r, names)
		case 1:
			s = Pick(r, names)
			switch r.Intn(5) {
			case 0:
				s = strings.ToUpper(s)
			case 1:
				s = s + " "
			case 2:
				s = " " + s
			case 3:
				s = s[:len(s)-1]
			default:
				s = strings.Replace(s, "-", "", 1) + "x"
			}
		case 2:
			s = c17Str(r)
		default:
			s = Pick(r, []string{"both", "bidirectional", "bi-directional ", "inbound", "outbound", "traffic", "0", "4"})
		}
		kind := Pick(r, []string{"dir", "sort"})
		cs = append(cs, Case{Line: fmt.Sprintf("C17 fromstr %s %s", kind, esc(s)), Class: "fromstr", NonTrivial: true})
	}
	for i := 0; i < n; i++ {
		lib, mode := Pick(r, libs), Pick(r, modes)
		a := c17Args(r)
		cs = append(cs, Case{Line: fmt.Sprintf("C17 rt Args %s %s %s", lib, mode, c17Term(a)), Class: "rt:Args", NonTrivial: true})
	}
	for i := 0; i < n; i++ {
		lib, mode := Pick(r, libs), Pick(r, modes)
		s, members, how := c17Statement(r)
		cs = append(cs, Case{Line: fmt.Sprintf("C17 rt Statement %s %s %s", lib, mode, c17Term(s)), Class: fmt.Sprintf("rt:Statement:%s:in-domain=%v", how, members), NonTrivial: members})
	}
	for i := 0; i < n; i++ {
		lib, mode := Pick(r, libs), Pick(r, modes)
		res, ok := c17Result(r, tier)
		cs = append(cs, Case{Line: fmt.Sprintf("C17 rt Result %s %s %s", lib, mode, c17Term(res)), Class: fmt.Sprintf("rt:Result:in-domain=%v", ok), NonTrivial: ok && len(res.Rows) > 0})
	}
	for i := 0; i < n; i++ {
		lib, mode := Pick(r, libs), Pick(r, modes)
		row, ok := c17Row(r)
		cs = append(cs, Case{Line: fmt.Sprintf("C17 rt Row %s %s %s", lib, mode, c17Term(row)), Class: fmt.Sprintf("rt:Row:in-domain=%v", ok), NonTrivial: ok})
	}
	return cs
}

func init() {
	register(&Prop{
		ID: "C17",
		Rule: "every run: enum String/FromString and JSON Marshal->Unmarshal of every Direction/SortOrder value in [-2, max+3] x {encoding/json, jsoniter} x {by value, by pointer}; " +
			"seeded: FromString on member names, near-miss names and arbitrary strings; real Marshal->Unmarshal (encoding/json or jsoniter, by value or by pointer) of generated " +
			"query.Args, query.Statement (one third produced by Args.Prepare), results.Result (nil/empty/non-empty rows, host statuses, stats) and results.Row values with " +
			"boundary integers, valid-UTF-8 strings incl. quotes/controls/non-BMP, zero/IPv4/IPv6/4in6/zoned addresses, zero and non-zero instants with zone offsets; a " +
			"malformed stream of non-member enum values, years outside 0..9999, zone hours >= 24 and sub-minute zone offsets (outside what RFC 3339 carries; still compared model vs code). " +
			"Non-trivial: enum cases on members; FromString cases; Args; Statements whose enum fields hold members; Rows/Results whose instants RFC 3339 can carry (Results with >= 1 row). Distinct = distinct case lines.",
		Gen: c17Gen,
		Run: c17Run,
	})
}
