//go:build verif_all || verif_c09

package main

import (
	"bytes"
	"encoding/hex"
	"fmt"
	"strconv"
	"strings"
	"time"

	"github.com/els0r/goProbe/v4/pkg/goDB/conditions/node"
	"github.com/els0r/goProbe/v4/pkg/types"
)

// C09 — conditions follow Boolean logic over per-flow comparisons.
//
// Every case goes through the public path node.ParseAndInstrument(text) + Node.Evaluate(key).
//
// wire:  C09 <mode> <key> <cond>
//   <mode>  x            the key is a slice of exactly its own capacity (11 / 35 bytes), as the
//                        database scan builds it (types.NewEmptyV4Key / NewEmptyV6Key)
//           a<hex>       the key is a sub-slice of a larger arena (as the keys handed out by the
//                        hashmap iterator of the live-query filter are); <hex> = the arena bytes
//                        that follow the key
//   <key>   hex, 11 bytes (sip4 dip4 dport2 proto1) or 35 bytes (sip16 dip16 dport2 proto1)
//   <cond>  the condition tree in prefix notation, elements separated by commas:
//             &  |  (two operands follow)    !  (one operand follows)
//             <attr><cmp><value>             a comparison; <cmp> one of = != < > <= >=
//           <value>: an address as 8 (IPv4) or 32 (IPv6) hex digits, a network as <address>/<prefix>,
//           a port in decimal, a protocol in decimal or n<decimal> (= written by name in the text)
// out:   <0|1> <key bytes after the evaluation, hex>    |  err:<kind>  |  panic
//
// The harness renders the tree as condition text (fully parenthesised; IPv6 addresses as eight
// hex groups, never with an embedded dotted quad) — hostnames never occur (DNS is outside C09).

var c09ProtoNames = map[int]string{1: "icmp", 6: "tcp", 17: "udp"}

func c09IPText(b []byte) string {
	if len(b) == 4 {
		return fmt.Sprintf("%d.%d.%d.%d", b[0], b[1], b[2], b[3])
	}
	var g []string
	for i := 0; i < 16; i += 2 {
		g = append(g, fmt.Sprintf("%x", int(b[i])<<8|int(b[i+1])))
	}
	return strings.Join(g, ":")
}

// c09ValueText renders a wire value for attribute attr
func c09ValueText(attr, v string) (string, error) {
	switch attr {
	case "sip", "dip", "host", "src", "dst":
		b, err := hex.DecodeString(v)
		if err != nil || (len(b) != 4 && len(b) != 16) {
			return "", fmt.Errorf("bad address %q", v)
		}
		return c09IPText(b), nil
	case "snet", "dnet", "net":
		i := strings.IndexByte(v, '/')
		if i < 0 {
			return "", fmt.Errorf("bad network %q", v)
		}
		b, err := hex.DecodeString(v[:i])
		if err != nil || (len(b) != 4 && len(b) != 16) {
			return "", fmt.Errorf("bad network %q", v)
		}
		if _, err := strconv.ParseUint(v[i+1:], 10, 16); err != nil {
			return "", fmt.Errorf("bad prefix %q", v)
		}
		return c09IPText(b) + v[i:], nil
	case "dport", "port":
		if _, err := strconv.ParseUint(v, 10, 32); err != nil {
			return "", fmt.Errorf("bad port %q", v)
		}
		return v, nil
	case "proto", "protocol", "ipproto":
		if strings.HasPrefix(v, "n") {
			n, err := strconv.Atoi(v[1:])
			if err != nil || c09ProtoNames[n] == "" {
				return "", fmt.Errorf("bad protocol %q", v)
			}
			return c09ProtoNames[n], nil
		}
		if _, err := strconv.ParseUint(v, 10, 32); err != nil {
			return "", fmt.Errorf("bad protocol %q", v)
		}
		return v, nil
	}
	return "", fmt.Errorf("bad attribute %q", attr)
}

func c09SplitLeaf(tok string) (attr, cmp, val string) {
	i := 0
	for i < len(tok) && tok[i] >= 'a' && tok[i] <= 'z' {
		i++
	}
	j := i
	for j < len(tok) && strings.IndexByte("=!<>", tok[j]) >= 0 {
		j++
	}
	return tok[:i], tok[i:j], tok[j:]
}

// c09Text renders the prefix-notation tree as condition text
func c09Text(toks []string) (string, []string, error) {
	if len(toks) == 0 {
		return "", nil, fmt.Errorf("truncated tree")
	}
	switch toks[0] {
	case "&", "|":
		l, rest, err := c09Text(toks[1:])
		if err != nil {
			return "", nil, err
		}
		r, rest, err := c09Text(rest)
		if err != nil {
			return "", nil, err
		}
		return "(" + l + " " + toks[0] + " " + r + ")", rest, nil
	case "!":
		x, rest, err := c09Text(toks[1:])
		if err != nil {
			return "", nil, err
		}
		return "!(" + x + ")", rest, nil
	}
	attr, cmp, val := c09SplitLeaf(toks[0])
	switch cmp {
	case "=", "!=", "<", ">", "<=", ">=":
	default:
		return "", nil, fmt.Errorf("bad comparator %q", cmp)
	}
	vt, err := c09ValueText(attr, val)
	if err != nil {
		return "", nil, err
	}
	return attr + " " + cmp + " " + vt, toks[1:], nil
}

func c09Err(err error) string {
	m := err.Error()
	switch {
	case strings.Contains(m, "not allowed for attribute"), strings.Contains(m, "invalid comparison operator"):
		return "err:comparator"
	case strings.Contains(m, "incorrect netmask"):
		return "err:netmask"
	}
	return "err:other"
}

func c09Run(f []string) string {
	if len(f) != 3 {
		return "bad-case"
	}
	keyBytes := unhex(f[1])
	if len(keyBytes) != types.KeyWidthIPv4 && len(keyBytes) != types.KeyWidthIPv6 {
		return "bad-case:key-length"
	}
	text, rest, err := c09Text(splitList(f[2]))
	if err != nil || len(rest) != 0 {
		return "bad-case:tree"
	}
	var key types.Key
	var arena, suffix []byte
	switch {
	case f[0] == "x":
		if len(keyBytes) == types.KeyWidthIPv4 {
			key = types.NewEmptyV4Key()
		} else {
			key = types.NewEmptyV6Key()
		}
		copy(key, keyBytes)
	case strings.HasPrefix(f[0], "a"):
		suffix = unhex(f[0][1:])
		arena = make([]byte, len(keyBytes)+len(suffix))
		copy(arena, keyBytes)
		copy(arena[len(keyBytes):], suffix)
		key = types.Key(arena[:len(keyBytes)])
	default:
		return "bad-case:mode"
	}
	n, _, err := node.ParseAndInstrument(text, time.Second)
	if err != nil {
		return c09Err(err)
	}
	if n == nil {
		return "err:empty"
	}
	res := n.Evaluate(key)
	out := b2s(res) + " " + hexBytes(key)
	if arena != nil && !bytes.Equal(arena[len(keyBytes):], suffix) {
		out += " arena-modified"
	}
	return out
}

// ---------------------------------------------------------------- generation

var (
	c09AddrAttrs = []string{"sip", "dip", "host", "src", "dst"}
	c09NetAttrs  = []string{"snet", "dnet", "net"}
	c09PortAttrs = []string{"dport", "port"}
	c09ProtAttrs = []string{"proto", "protocol", "ipproto"}
	c09Cmps      = []string{"=", "!=", "<", ">", "<=", ">="}
	c09V4Pool    = []string{"0a000001", "0a820001", "01020301", "01020304", "c0a80122", "00000000", "ffffffff", "80000000", "0a000000", "7fffffff", "0a7f0001", "20010db8"}
	c09V6Pool    = []string{
		"20010db8000000000000000000000001", "20010db8000000000000000001020301", "0a010000000000000000000000000001",
		"00000000000000000000000000000000", "ffffffffffffffffffffffffffffffff", "0a000001000000000000000000000000",
		"20010db8000000000000000080000000", "00000000000000000000ffff01020304", "fe800000000000000a0000ff00000001",
		"0a820001000000000000000000000000", "20010db80000000080000000000000ff",
	}
	c09V4Prefixes = []int{0, 1, 7, 8, 9, 15, 16, 17, 23, 24, 25, 31, 32}
	c09V6Prefixes = []int{0, 1, 7, 8, 9, 31, 32, 33, 63, 64, 65, 96, 97, 120, 127, 128}
	c09Ports      = []int{0, 1, 53, 80, 255, 256, 443, 1024, 65534, 65535}
	c09Protos     = []int{0, 1, 6, 17, 58, 254, 255}
	c09Alphabet   = []byte{0x00, 0x0a, 0x80, 0xff, 0x01, 0x7f}
)

type c09Gen struct {
	r        *Rand
	addrs    [][]byte // address / network values used in the tree
	prefixes []int    // prefix of the network value (-1 for plain addresses), parallel to addrs
	ports    []int
	protos   []int
	leaves   int
	nots     int
	sugar    int
	addrLeaf int
	bad      bool
}

func (g *c09Gen) smallBytes(n int) []byte {
	b := make([]byte, n)
	for i := range b {
		b[i] = Pick(g.r, c09Alphabet)
	}
	return b
}

func (g *c09Gen) addr() []byte {
	r := g.r
	switch r.Intn(8) {
	case 0, 1, 2:
		return unhex(Pick(r, c09V4Pool))
	case 3, 4, 5:
		return unhex(Pick(r, c09V6Pool))
	case 6:
		return g.smallBytes(4)
	default:
		return g.smallBytes(16)
	}
}

func (g *c09Gen) leaf(malformed bool) string {
	r := g.r
	g.leaves++
	kind := r.Intn(10)
	switch {
	case kind < 3: // address
		attr := Pick(r, c09AddrAttrs)
		if attr != "sip" && attr != "dip" {
			g.sugar++
		}
		cmp := Pick(r, c09Cmps[:2])
		if malformed && r.Chance(1, 2) {
			cmp = Pick(r, c09Cmps[2:])
			g.bad = true
		}
		a := g.addr()
		if len(g.addrs) > 0 && r.Chance(1, 3) {
			a = Pick(r, g.addrs) // the same value again in another clause
		}
		g.addrs, g.prefixes = append(g.addrs, a), append(g.prefixes, -1)
		g.addrLeaf++
		return attr + cmp + hex.EncodeToString(a)
	case kind < 7: // network
		attr := Pick(r, c09NetAttrs)
		if attr == "net" {
			g.sugar++
		}
		cmp := Pick(r, c09Cmps[:2])
		if malformed && r.Chance(1, 3) {
			cmp = Pick(r, c09Cmps[2:])
			g.bad = true
		}
		a := g.addr()
		if len(g.addrs) > 0 && r.Chance(1, 3) {
			a = Pick(r, g.addrs)
		}
		var p int
		if len(a) == 4 {
			p = Pick(r, c09V4Prefixes)
			if r.Chance(1, 6) {
				p = r.Intn(33)
			}
			if malformed && r.Chance(1, 3) {
				p = Pick(r, []int{33, 40, 64, 128, 129, 1000})
				g.bad = true
			}
		} else {
			p = Pick(r, c09V6Prefixes)
			if r.Chance(1, 6) {
				p = r.Intn(129)
			}
			if malformed && r.Chance(1, 3) {
				p = Pick(r, []int{129, 130, 255, 256, 1000})
				g.bad = true
			}
		}
		g.addrs, g.prefixes = append(g.addrs, a), append(g.prefixes, p)
		g.addrLeaf++
		return fmt.Sprintf("%s%s%s/%d", attr, cmp, hex.EncodeToString(a), p)
	case kind < 9: // port
		attr := Pick(r, c09PortAttrs)
		if attr == "port" {
			g.sugar++
		}
		p := Pick(r, c09Ports)
		if r.Chance(1, 5) {
			p = r.Intn(65536)
		}
		g.ports = append(g.ports, p)
		return attr + Pick(r, c09Cmps) + strconv.Itoa(p)
	default: // protocol
		attr := Pick(r, c09ProtAttrs)
		if attr != "proto" {
			g.sugar++
		}
		p := Pick(r, c09Protos)
		g.protos = append(g.protos, p)
		v := strconv.Itoa(p)
		if c09ProtoNames[p] != "" && r.Bool() {
			v = "n" + v
		}
		return attr + Pick(r, c09Cmps) + v
	}
}

func (g *c09Gen) tree(depth int, malformed bool) []string {
	r := g.r
	if depth == 0 || r.Chance(3, 10) {
		return []string{g.leaf(malformed)}
	}
	switch r.Intn(5) {
	case 0:
		g.nots++
		return append([]string{"!"}, g.tree(depth-1, malformed)...)
	case 1, 2:
		l := g.tree(depth-1, malformed)
		return append(append([]string{"&"}, l...), g.tree(depth-1, malformed)...)
	default:
		l := g.tree(depth-1, malformed)
		return append(append([]string{"|"}, l...), g.tree(depth-1, malformed)...)
	}
}

// near returns an address derived from a value of the tree: the value itself, or (for a network)
// the value with the bit just inside / just outside the prefix flipped, or with random host bits
func (g *c09Gen) near(i int) []byte {
	r := g.r
	a := append([]byte(nil), g.addrs[i]...)
	p := g.prefixes[i]
	flip := func(bit int) {
		if bit >= 0 && bit < 8*len(a) {
			a[bit/8] ^= 0x80 >> uint(bit%8)
		}
	}
	switch r.Intn(5) {
	case 0:
	case 1:
		if p >= 0 {
			flip(p - 1)
		} else {
			flip(8*len(a) - 1)
		}
	case 2:
		if p >= 0 {
			flip(p)
		} else {
			flip(r.Intn(8 * len(a)))
		}
	default:
		if p >= 0 && p <= 8*len(a) {
			for bit := p; bit < 8*len(a); bit++ {
				if r.Bool() {
					flip(bit)
				}
			}
		}
	}
	return a
}

func (g *c09Gen) keyAddr(width int) []byte {
	r := g.r
	var same, other []int
	for i, a := range g.addrs {
		if len(a) == width {
			same = append(same, i)
		} else {
			other = append(other, i)
		}
	}
	c := r.Intn(10)
	switch {
	case c < 5 && len(same) > 0:
		return g.near(Pick(r, same))
	case c < 8 && len(other) > 0:
		// cross-family coincidence: the bytes of a value of the other family
		o := g.near(Pick(r, other))
		b := g.smallBytes(width)
		copy(b, o)
		return b
	case c < 9:
		if width == 4 {
			return unhex(Pick(r, c09V4Pool))
		}
		return unhex(Pick(r, c09V6Pool))
	}
	return g.smallBytes(width)
}

func (g *c09Gen) key() []byte {
	r := g.r
	width := 4
	if r.Bool() {
		width = 16
	}
	k := append(g.keyAddr(width), g.keyAddr(width)...)
	port := Pick(r, c09Ports)
	if len(g.ports) > 0 && r.Chance(3, 4) {
		port = Pick(r, g.ports) + r.Intn(3) - 1
	}
	if port < 0 {
		port = 0
	}
	if port > 65535 {
		port = 65535
	}
	proto := Pick(r, c09Protos)
	if len(g.protos) > 0 && r.Chance(3, 4) {
		proto = Pick(r, g.protos) + r.Intn(3) - 1
	}
	if proto < 0 {
		proto = 0
	}
	if proto > 255 {
		proto = 255
	}
	return append(k, byte(port>>8), byte(port), byte(proto))
}

func c09Case(r *Rand, depth int, malformed bool) Case {
	g := &c09Gen{r: r}
	toks := g.tree(depth, malformed)
	key := g.key()
	mode := "x"
	if r.Bool() {
		suffix := g.smallBytes(24)
		// the memory image key+suffix of an IPv4 key sometimes spells an IPv6 value of the tree
		if len(key) == types.KeyWidthIPv4 && r.Chance(1, 2) {
			for i, a := range g.addrs {
				if len(a) == 16 && r.Chance(1, 2) {
					img := g.near(i)
					if r.Bool() { // what a source-network comparison of the other family would read
						copy(key, img[:11])
						copy(suffix, img[11:])
					} else { // what a destination-network comparison would read
						copy(key[4:], img[:7])
						copy(suffix, img[7:])
					}
					break
				}
			}
		}
		mode = "a" + hex.EncodeToString(suffix)
	}
	cls := fmt.Sprintf("leaves=%d", g.leaves)
	if g.leaves > 4 {
		cls = "leaves>4"
	}
	if malformed {
		cls = "malformed-stream"
	}
	if mode == "x" {
		cls += ":exact"
	} else {
		cls += ":arena"
	}
	nt := !g.bad && g.leaves >= 2 && g.addrLeaf >= 1 && (g.nots > 0 || g.sugar > 0)
	return Case{Line: fmt.Sprintf("C09 %s %s %s", mode, hexBytes(key), strings.Join(toks, ",")), Class: cls, NonTrivial: nt}
}

// c09Atoms: every single comparison over all attribute names x all comparators x the value pools
// (every pool prefix length plus one beyond the family's width), each on keysPer keys derived from it
func c09Atoms(r *Rand, keysPer int) []Case {
	var cs []Case
	emit := func(g *c09Gen, tok string) {
		for i := 0; i < keysPer; i++ {
			key := g.key()
			mode := "x"
			cls := "atom:exact"
			if r.Bool() {
				mode, cls = "a"+hex.EncodeToString(g.smallBytes(24)), "atom:arena"
			}
			cs = append(cs, Case{Line: fmt.Sprintf("C09 %s %s %s", mode, hexBytes(key), tok), Class: cls, NonTrivial: false})
		}
	}
	var addrs [][]byte
	for _, h := range c09V4Pool {
		addrs = append(addrs, unhex(h))
	}
	for _, h := range c09V6Pool {
		addrs = append(addrs, unhex(h))
	}
	for _, cmp := range c09Cmps {
		for _, a := range addrs {
			for _, attr := range c09AddrAttrs {
				emit(&c09Gen{r: r, addrs: [][]byte{a}, prefixes: []int{-1}}, attr+cmp+hex.EncodeToString(a))
			}
			pfx := append(append([]int{}, c09V4Prefixes...), 33)
			if len(a) == 16 {
				pfx = append(append([]int{}, c09V6Prefixes...), 129)
			}
			for _, p := range pfx {
				for _, attr := range c09NetAttrs {
					emit(&c09Gen{r: r, addrs: [][]byte{a}, prefixes: []int{p}}, fmt.Sprintf("%s%s%s/%d", attr, cmp, hex.EncodeToString(a), p))
				}
			}
		}
		for _, p := range c09Ports {
			for _, attr := range c09PortAttrs {
				emit(&c09Gen{r: r, ports: []int{p}}, attr+cmp+strconv.Itoa(p))
			}
		}
		for _, p := range c09Protos {
			for _, attr := range c09ProtAttrs {
				emit(&c09Gen{r: r, protos: []int{p}}, attr+cmp+strconv.Itoa(p))
			}
		}
	}
	return cs
}

func c09Gen_(r *Rand, tier string) []Case {
	n, keysPer := 20000, 2
	if tier == "thorough" {
		n, keysPer = 2000000, 16
	}
	cs := c09Atoms(r, keysPer)
	for i := 0; i < n; i++ {
		depth := 1 + r.Intn(4)
		cs = append(cs, c09Case(r, depth, r.Chance(1, 10)))
	}
	return cs
}

func init() {
	register(&Prop{
		ID: "C09",
		Rule: "atom sweep: every single comparison over all 13 attribute names x 6 comparators x the value pools (12 IPv4 + 11 IPv6 addresses, every pool prefix length and one beyond the family's width, 10 ports, 7 protocols), each on 2 (thorough 16) keys derived from it; then seeded random condition trees of depth <= 4 (operators & | !) over the attributes {sip,dip,host,src,dst} x {=,!=}, {snet,dnet,net} x {=,!=}, {dport,port} and {proto,protocol,ipproto} x {=,!=,<,>,<=,>=}; address values IPv4 and IPv6 from fixed pools, bytes from {00,0a,80,ff,01,7f}, and values repeated across clauses; prefix lengths 0,1,7,8,9,15,16,17,23,24,25,31,32 (IPv4) / 0,1,7,8,9,31,32,33,63,64,65,96,97,120,127,128 (IPv6) and random ones, network values with host bits set; ports 0/1/53/80/255/256/443/1024/65534/65535 and random; protocols by number and by name. 1 in 10 trees comes from the malformed stream (ordering comparator on an address / network / host / net, prefix length beyond the family's width). Keys: IPv4 or IPv6, addresses derived from the tree's values (equal, bit just inside / outside the prefix flipped, random host bits), from values of the OTHER family (cross-family byte coincidences) or from the pools; ports / protocols equal or adjacent to the tree's; each key either with exact capacity (as the DB scan builds it) or as a sub-slice of a larger arena (as the live-query filter sees it) whose following bytes sometimes continue an IPv6 value of the tree. Everything goes through the public ParseAndInstrument + Evaluate; recorded: result, key bytes afterwards, or error kind / panic. Non-trivial: well-formed tree with at least two comparisons, at least one on an address or network, and at least one negation or sugared attribute (host, net, src, dst, port, protocol, ipproto). Distinct = distinct case lines.",
		Gen: c09Gen_,
		Run: c09Run,
	})
}
