//go:build verif_all || verif_c24

package main

import (
	"context"
	"crypto/sha256"
	"encoding/binary"
	"encoding/hex"
	"fmt"
	"io/fs"
	"os"
	"path/filepath"
	"sort"
	"strconv"
	"strings"
	"time"

	"github.com/els0r/goProbe/v4/pkg/capture/capturetypes"
	"github.com/els0r/goProbe/v4/pkg/goDB"
	"github.com/els0r/goProbe/v4/pkg/goDB/encoder/encoders"
	"github.com/els0r/goProbe/v4/pkg/goDB/storage/gpfile"
	"github.com/els0r/goProbe/v4/pkg/types"
	"github.com/els0r/goProbe/v4/pkg/types/hashmap"
)

// C24 — merging databases follows the documented per-day plan.
//
// A case builds a source and a destination goDB in temporary directories with the real
// goDB.DBWriter, runs the real goDB.MergeDatabases, decodes the destination with the real
// gpfile.GPDir reader, hashes the source tree before/after, repeats the merge and reports the two
// summaries. Wire format (see lean/GoProbeModel/Spec/C24.lean):
//
//	C24 <overwrite 0|1> <dryrun 0|1> <tolerance ns> <requested ifaces> <enc src> <enc dst> <src db> <dst db>
//	db    := "!" (path does not exist) | "-" (no interface) | iface(";"iface)*
//	iface := name "=" [ day("|"day)* ]
//	day   := dayTimestamp ":" block(","block)*          block := offsetInDay "." payloadId
//
// output: <res> dst=<db> meta=<ok|bad…> src=<same|changed> tree=<same|changed|-> again=<res> dst2=<same|db>
//
//	res := ok:<ifaces>:<copied>:<rebuilt>:<skipped>:<conflictsDst>:<conflictsSrc>:<dry 0|1> | err:<kind>

type c24Block struct {
	ts  int64
	pid int
}
type c24Day struct {
	ts     int64
	blocks []c24Block
}
type c24Iface struct {
	name string
	days []c24Day
}
type c24DB struct {
	missing bool
	ifaces  []c24Iface
}

func c24ParseDB(s string) c24DB {
	if s == "!" {
		return c24DB{missing: true}
	}
	var db c24DB
	if s == "-" {
		return db
	}
	for _, is := range strings.Split(s, ";") {
		eq := strings.IndexByte(is, '=')
		if eq < 0 {
			panic("bad iface " + is)
		}
		ifc := c24Iface{name: unesc(is[:eq])}
		if rest := is[eq+1:]; rest != "" {
			for _, ds := range strings.Split(rest, "|") {
				c := strings.IndexByte(ds, ':')
				dts, err := strconv.ParseInt(ds[:c], 10, 64)
				if err != nil {
					panic(err)
				}
				d := c24Day{ts: dts}
				for _, bs := range strings.Split(ds[c+1:], ",") {
					p := strings.Split(bs, ".")
					off, _ := strconv.ParseInt(p[0], 10, 64)
					pid, _ := strconv.Atoi(p[1])
					d.blocks = append(d.blocks, c24Block{ts: dts + off, pid: pid})
				}
				ifc.days = append(ifc.days, d)
			}
		}
		db.ifaces = append(db.ifaces, ifc)
	}
	return db
}

func c24ShowDays(days []c24Day, pidStr func(c24Block) string) string {
	var ds []string
	for _, d := range days {
		var bs []string
		for _, b := range d.blocks {
			bs = append(bs, fmt.Sprintf("%d.%s", b.ts-d.ts, pidStr(b)))
		}
		ds = append(ds, fmt.Sprintf("%d:%s", d.ts, strings.Join(bs, ",")))
	}
	return strings.Join(ds, "|")
}

func c24ShowDB(db c24DB, keepEmpty bool) string {
	if db.missing {
		return "!"
	}
	var is []string
	for _, i := range db.ifaces {
		if len(i.days) == 0 && !keepEmpty {
			continue
		}
		is = append(is, esc(i.name)+"="+c24ShowDays(i.days, func(b c24Block) string {
			if b.pid < 0 {
				return "?"
			}
			return strconv.Itoa(b.pid)
		}))
	}
	if len(is) == 0 {
		return "-"
	}
	return strings.Join(is, ";")
}

// ---------------------------------------------------------------- payloads

type c24Payload struct {
	v4, v6, drops uint64
	counts        types.Counters
}

func c24Mix(x uint64) uint64 {
	x += 0x9E3779B97F4A7C15
	x = (x ^ (x >> 30)) * 0xBF58476D1CE4E5B9
	x = (x ^ (x >> 27)) * 0x94D049BB133111EB
	return x ^ (x >> 31)
}

// c24Flows builds the flow map of a payload id (a pure function of the id)
func c24Flows(pid int) (*hashmap.AggFlowMap, c24Payload) {
	m := hashmap.NewAggFlowMap()
	var p c24Payload
	add4 := func(sip, dip [4]byte, dport uint16, proto byte, c types.Counters) {
		m.SetOrUpdate(types.NewV4KeyStatic(sip, dip, []byte{byte(dport >> 8), byte(dport)}, proto), true, c.BytesRcvd, c.BytesSent, c.PacketsRcvd, c.PacketsSent)
		p.v4++
		p.counts.Add(c)
	}
	u := uint64(pid)
	add4([4]byte{10, 0, 0, 1}, [4]byte{10, 0, 0, 2}, 80, 6, types.Counters{BytesRcvd: u, BytesSent: 3*u + 1, PacketsRcvd: u%7 + 1, PacketsSent: 1})
	if pid%3 == 0 {
		add4([4]byte{10, 0, byte(pid >> 8), byte(pid)}, [4]byte{192, 168, 1, 1}, 443, 17, types.Counters{BytesRcvd: 40, BytesSent: u + 2, PacketsRcvd: 2, PacketsSent: 3})
	}
	if pid%2 == 1 {
		var sip, dip [16]byte
		sip[0], sip[1], sip[15] = 0x20, 0x01, byte(pid)
		dip[0], dip[1], dip[14], dip[15] = 0x20, 0x01, byte(pid>>8), 1
		m.SetOrUpdate(types.NewV6KeyStatic(sip, dip, []byte{0, 53}, 17), false, u+5, 2, 1, 1)
		p.v6++
		p.counts.Add(types.Counters{BytesRcvd: u + 5, BytesSent: 2, PacketsRcvd: 1, PacketsSent: 1})
	}
	if pid >= 9000 {
		// a big block: 1500 flows with pseudo-random addresses (columns well above the 4096-byte
		// buffer of the column writer, poorly compressible)
		for i := 0; i < 1500; i++ {
			h := c24Mix(u<<20 + uint64(i))
			g := c24Mix(h)
			add4([4]byte{byte(h), byte(h >> 8), byte(h >> 16), byte(h >> 24)}, [4]byte{byte(g), byte(g >> 8), byte(g >> 16), byte(g >> 24)}, uint16(h>>32), 6,
				types.Counters{BytesRcvd: g >> 40, BytesSent: h >> 40, PacketsRcvd: g>>56 + 1, PacketsSent: h>>56 + 1})
		}
		p.v4 = uint64(m.PrimaryMap.Len()) // (collisions of random keys would merge; none expected)
	}
	p.drops = u % 4
	return m, p
}

func c24Enc(name string) encoders.Type { return encType(name) }

// c24WriteDB creates the database below root with the real DBWriter
func c24WriteDB(root string, db c24DB, enc string) error {
	if db.missing {
		return nil
	}
	if err := os.MkdirAll(root, 0o755); err != nil {
		return err
	}
	if err := os.WriteFile(filepath.Join(root, "notes.txt"), []byte("not an interface\n"), 0o644); err != nil {
		return err
	}
	for _, ifc := range db.ifaces {
		if err := os.MkdirAll(filepath.Join(root, ifc.name), 0o755); err != nil {
			return err
		}
		w := goDB.NewDBWriter(root, ifc.name, c24Enc(enc))
		for _, d := range ifc.days {
			if len(d.blocks) <= 8 {
				for _, b := range d.blocks {
					m, p := c24Flows(b.pid)
					if err := w.Write(m, capturetypes.CaptureStats{Dropped: p.drops}, b.ts); err != nil {
						return err
					}
				}
				continue
			}
			var wl []goDB.BulkWorkload
			for _, b := range d.blocks {
				m, p := c24Flows(b.pid)
				wl = append(wl, goDB.BulkWorkload{FlowMap: m, CaptureStats: capturetypes.CaptureStats{Dropped: p.drops}, Timestamp: b.ts})
			}
			if err := w.WriteBulk(wl, d.ts); err != nil {
				return err
			}
		}
	}
	return nil
}

type c24Decoded struct {
	db      c24DB
	digests map[string][]string // iface/day -> digest per block
	meta    []string            // metadata complaints
}

// c24Decode reads every interface / day / block of the database below root with the real reader.
// pidOf maps a block digest to a payload id (nil: leave pid = -1)
func c24Decode(root string, pidOf map[string]int) (out c24Decoded, err error) {
	out.digests = map[string][]string{}
	ents, err := os.ReadDir(root)
	if err != nil {
		if os.IsNotExist(err) {
			out.db.missing = true
			return out, nil
		}
		return out, err
	}
	for _, e := range ents {
		if !e.IsDir() {
			continue
		}
		ifc := c24Iface{name: e.Name()}
		ifacePath := filepath.Join(root, e.Name())
		type dd struct {
			ts     int64
			suffix string
			name   string
		}
		var dds []dd
		years, _ := os.ReadDir(ifacePath)
		for _, y := range years {
			if !y.IsDir() {
				continue
			}
			months, _ := os.ReadDir(filepath.Join(ifacePath, y.Name()))
			for _, mo := range months {
				if !mo.IsDir() {
					continue
				}
				days, _ := os.ReadDir(filepath.Join(ifacePath, y.Name(), mo.Name()))
				for _, d := range days {
					if !d.IsDir() {
						continue
					}
					ts, suffix, perr := gpfile.ExtractTimestampMetadataSuffix(d.Name())
					if perr != nil {
						return out, fmt.Errorf("dirname:%s", d.Name())
					}
					dds = append(dds, dd{ts, suffix, d.Name()})
				}
			}
		}
		sort.Slice(dds, func(i, j int) bool {
			if dds[i].ts != dds[j].ts {
				return dds[i].ts < dds[j].ts
			}
			return dds[i].name < dds[j].name
		})
		for _, d := range dds {
			day := c24Day{ts: d.ts}
			key := fmt.Sprintf("%s/%d", e.Name(), d.ts)
			r := gpfile.NewDirReader(ifacePath, d.ts, d.suffix)
			if oerr := r.Open(); oerr != nil {
				return out, fmt.Errorf("open:%s", key)
			}
			var sumT gpfile.TrafficMetadata
			var sumC types.Counters
			known := true
			for i := 0; i < r.NBlocks(); i++ {
				h := sha256.New()
				for c := types.ColumnIndex(0); c < types.ColIdxCount; c++ {
					data, rerr := r.ReadBlockAtIndex(c, i)
					if rerr != nil {
						_ = r.Close()
						return out, fmt.Errorf("read:%s", key)
					}
					var l [8]byte
					binary.BigEndian.PutUint64(l[:], uint64(len(data)))
					h.Write(l[:])
					h.Write(data)
				}
				dg := hex.EncodeToString(h.Sum(nil)[:12])
				out.digests[key] = append(out.digests[key], dg)
				pid := -1
				if pidOf != nil {
					if p, ok := pidOf[dg]; ok {
						pid = p
					}
				}
				if pid >= 0 {
					_, p := c24Flows(pid)
					bt := r.BlockTraffic[i]
					if bt.NumV4Entries != p.v4 || bt.NumV6Entries != p.v6 || bt.NumDrops != p.drops {
						out.meta = append(out.meta, "block-traffic:"+key)
					}
					sumT = sumT.Add(gpfile.TrafficMetadata{NumV4Entries: p.v4, NumV6Entries: p.v6, NumDrops: p.drops})
					sumC.Add(p.counts)
				} else {
					known = false
				}
				day.blocks = append(day.blocks, c24Block{ts: r.BlockMetadata[0].BlockList[i].Timestamp, pid: pid})
			}
			if known && pidOf != nil {
				if r.Metadata.Traffic != sumT || r.Metadata.Counts != sumC {
					out.meta = append(out.meta, "day-totals:"+key)
				}
				sm := new(gpfile.Metadata)
				if uerr := sm.UnmarshalString(d.suffix); uerr != nil || sm.Traffic != sumT || sm.Counts != sumC {
					out.meta = append(out.meta, "dir-suffix:"+key)
				}
			}
			_ = r.Close()
			ifc.days = append(ifc.days, day)
		}
		out.db.ifaces = append(out.db.ifaces, ifc)
	}
	sort.Slice(out.db.ifaces, func(i, j int) bool { return out.db.ifaces[i].name < out.db.ifaces[j].name })
	return out, nil
}

// c24TreeHash hashes names, types, permission bits and contents of everything below root
func c24TreeHash(root string) string {
	h := sha256.New()
	if _, err := os.Lstat(root); err != nil {
		return "absent"
	}
	_ = filepath.WalkDir(root, func(p string, d fs.DirEntry, err error) error {
		if err != nil {
			fmt.Fprintf(h, "ERR %s\n", p)
			return nil
		}
		rel, _ := filepath.Rel(root, p)
		info, _ := d.Info()
		fmt.Fprintf(h, "%s %v %o\n", rel, d.IsDir(), info.Mode().Perm())
		if !d.IsDir() {
			b, _ := os.ReadFile(p)
			fmt.Fprintf(h, "%d:", len(b))
			h.Write(b)
		}
		return nil
	})
	return hex.EncodeToString(h.Sum(nil))
}

func c24Res(s goDB.MergeSummary, err error) string {
	if err != nil {
		msg := err.Error()
		switch {
		case strings.Contains(msg, "not found in source"):
			return "err:iface-not-found"
		case strings.Contains(msg, "failed to access source path"):
			return "err:source"
		}
		if os.Getenv("VERIF_DEBUG") != "" {
			fmt.Fprintln(os.Stderr, "merge error:", msg)
		}
		return "err:other"
	}
	return fmt.Sprintf("ok:%d:%d:%d:%d:%d:%d:%s", s.InterfacesProcessed, s.DaysCopied, s.DaysRebuilt, s.DaysSkipped, s.ConflictsResolvedByDestination, s.ConflictsResolvedBySource, b2s(s.DryRun))
}

func c24Requested(s string) []string {
	if s == "-" {
		return nil
	}
	var out []string
	for _, x := range strings.Split(s, ",") {
		if x == "%" {
			out = append(out, "")
		} else {
			out = append(out, unesc(x))
		}
	}
	return out
}

var c24Tmp string

func c24Run(f []string) string {
	if len(f) != 8 {
		return "err:bad-case"
	}
	ow, dry := f[0] == "1", f[1] == "1"
	tol, _ := strconv.ParseInt(f[2], 10, 64)
	req := c24Requested(f[3])
	src, dst := c24ParseDB(f[6]), c24ParseDB(f[7])
	base, err := os.MkdirTemp(c24Tmp, "c24-")
	if err != nil {
		panic(err)
	}
	defer os.RemoveAll(base)
	srcRoot, dstRoot := filepath.Join(base, "src"), filepath.Join(base, "dst")
	if err := c24WriteDB(srcRoot, src, f[4]); err != nil {
		return "err:setup-write-src"
	}
	if err := c24WriteDB(dstRoot, dst, f[5]); err != nil {
		return "err:setup-write-dst"
	}
	// learn digest -> payload id from what was written, and check that the writer stored what the case says
	pidOf := map[string]int{}
	for _, side := range []struct {
		root string
		db   c24DB
	}{{srcRoot, src}, {dstRoot, dst}} {
		if side.db.missing {
			continue
		}
		dec, err := c24Decode(side.root, nil)
		if err != nil {
			return "err:setup-decode:" + err.Error()
		}
		if len(dec.db.ifaces) != len(side.db.ifaces) {
			return "err:setup-ifaces"
		}
		for i, ifc := range side.db.ifaces {
			var gi *c24Iface
			for k := range dec.db.ifaces {
				if dec.db.ifaces[k].name == ifc.name {
					gi = &dec.db.ifaces[k]
				}
			}
			if gi == nil || len(gi.days) != len(ifc.days) {
				return fmt.Sprintf("err:setup-days:%d", i)
			}
			for j, d := range ifc.days {
				gd := gi.days[j]
				dgs := dec.digests[fmt.Sprintf("%s/%d", ifc.name, d.ts)]
				if gd.ts != d.ts || len(gd.blocks) != len(d.blocks) || len(dgs) != len(d.blocks) {
					return fmt.Sprintf("err:setup-blocks:%s/%d", ifc.name, d.ts)
				}
				for k, b := range d.blocks {
					if gd.blocks[k].ts != b.ts {
						return fmt.Sprintf("err:setup-ts:%s/%d", ifc.name, d.ts)
					}
					if old, ok := pidOf[dgs[k]]; ok && old != b.pid {
						return "err:setup-digest-collision"
					}
					pidOf[dgs[k]] = b.pid
				}
			}
		}
	}
	srcHash := c24TreeHash(srcRoot)
	dstHash := c24TreeHash(dstRoot)
	opts := goDB.MergeOptions{SourcePath: srcRoot, DestinationPath: dstRoot, Interfaces: req, Overwrite: ow, DryRun: dry, CompleteTolerance: time.Duration(tol)}

	res1 := c24Res(goDB.MergeDatabases(context.Background(), opts))
	dec1, err := c24Decode(dstRoot, pidOf)
	if err != nil {
		return res1 + " err:decode:" + err.Error()
	}
	tree := "-"
	if dry {
		tree = "same"
		if c24TreeHash(dstRoot) != dstHash {
			tree = "changed"
		}
	}
	res2 := c24Res(goDB.MergeDatabases(context.Background(), opts))
	dec2, err := c24Decode(dstRoot, pidOf)
	if err != nil {
		return res1 + " err:decode2:" + err.Error()
	}
	srcSame := "same"
	if c24TreeHash(srcRoot) != srcHash {
		srcSame = "changed"
	}
	d1, d2 := c24ShowDB(dec1.db, false), c24ShowDB(dec2.db, false)
	if d2 == d1 {
		d2 = "same"
	}
	meta := "ok"
	if all := append(append([]string{}, dec1.meta...), dec2.meta...); len(all) > 0 {
		sort.Strings(all)
		meta = "bad:" + all[0]
	}
	return fmt.Sprintf("%s dst=%s meta=%s src=%s tree=%s again=%s dst2=%s", res1, d1, meta, srcSame, tree, res2, d2)
}

// ---------------------------------------------------------------- generator

const c24Day0 = int64(1704844800) // 2024-01-10 00:00:00 UTC

var c24DayPool = []int64{c24Day0, c24Day0 + 86400, c24Day0 + 2*86400, c24Day0 + 22*86400 /* 2024-02-01 */, c24Day0 + 356*86400 /* 2024-12-31 */, c24Day0 + 357*86400 /* 2025-01-01 */}

// tolerance (seconds) of the case being generated: lets c24GenDay place days on the completeness boundary
var c24Tol int64

var c24Slots = []int{0, 0, 1, 1, 2, 3, 12, 71, 143, 144, 145, 216, 275, 284, 285, 286, 286, 287, 287}

func c24Pid(r *Rand, tier string) int {
	if r.Chance(1, 60) || (tier == "thorough" && r.Chance(1, 25)) {
		return 9000 + r.Intn(10)
	}
	return 1 + r.Intn(899)
}

// c24GenDay generates block offsets (strictly increasing) of one day
func c24GenDay(r *Rand, tier string) []int64 {
	set := map[int64]bool{}
	if c24Tol >= 1 && c24Tol < 43000 && r.Chance(1, 6) {
		// a day ON the completeness boundary of the case's tolerance (or one second off it): the last block
		// plus the block duration ends exactly `tolerance` before the end of the day, the first block starts
		// exactly `tolerance` after its start
		dur := Pick(r, []int64{300, 300, 299, 600})
		last := 86399 - c24Tol - dur + Pick(r, []int64{-1, 0, 0, 0, 1})
		prev := last - dur
		first := c24Tol + Pick(r, []int64{-1, 0, 0, 0, 1})
		if first < 0 {
			first = 0
		}
		if prev > first && last < 86400 {
			set[first], set[prev], set[last] = true, true, true
			if r.Bool() {
				set[first+(prev-first)/2] = true
			}
			var offs []int64
			for o := range set {
				offs = append(offs, o)
			}
			sort.Slice(offs, func(i, j int) bool { return offs[i] < offs[j] })
			return offs
		}
		set = map[int64]bool{}
	}
	switch k := r.Intn(20); {
	case k == 0 && tier == "thorough":
		// a full day of 288 blocks, possibly with a gap
		gap := -1
		if r.Bool() {
			gap = r.Intn(288)
		}
		for s := 0; s < 288; s++ {
			if s != gap {
				set[int64(s)*300] = true
			}
		}
	case k <= 2:
		set[int64(Pick(r, c24Slots))*300+int64(r.Intn(2)*r.Intn(300))] = true // a single block
	default:
		n := 2 + r.Intn(5)
		for i := 0; i < n; i++ {
			off := int64(Pick(r, c24Slots)) * 300
			if r.Chance(1, 6) {
				off = int64(r.Intn(288)) * 300
			}
			if r.Chance(1, 8) {
				off += int64(r.Intn(300)) // off-grid
			}
			if r.Chance(1, 30) {
				off = 86399
			}
			set[off] = true
		}
	}
	var offs []int64
	for o := range set {
		offs = append(offs, o)
	}
	sort.Slice(offs, func(i, j int) bool { return offs[i] < offs[j] })
	return offs
}

func c24ShowGen(db c24DB) string { return c24ShowDB(db, true) }

func c24Gen(r *Rand, tier string) []Case {
	n := 140
	if tier == "thorough" {
		n = 4000
	}
	ifPool := []string{"eth0", "eth1", "wlan0", "tun3", "eth10"}
	tols := []int64{0, -5e9, 5e8, 1e9, 150e9, 300e9, 300e9, 301e9, 900e9, 3600e9, 3600e9, 21600e9, 43200e9, 43200e9, 86399e9, 86400e9, 90000e9}
	encs := []string{"lz4", "lz4", "zstd", "null"}
	var cs []Case
	for i := 0; i < n; i++ {
		ow, dry := r.Bool(), r.Chance(1, 4)
		tol := Pick(r, tols)
		c24Tol = tol / 1e9
		var src, dst c24DB
		nif := 1 + r.Intn(3)
		perm := append([]string{}, ifPool...)
		r.Shuffle(len(perm), func(a, b int) { perm[a], perm[b] = perm[b], perm[a] })
		srcNames := append([]string{}, perm[:nif]...)
		sort.Strings(srcNames)
		maxDays := 3
		if tier == "thorough" {
			maxDays = 4
		}
		conflict := false
		dstIf := map[string]*c24Iface{}
		for _, name := range srcNames {
			ifc := c24Iface{name: name}
			nd := r.Intn(maxDays + 1)
			if r.Chance(3, 4) && nd == 0 {
				nd = 1
			}
			dperm := append([]int64{}, c24DayPool...)
			r.Shuffle(len(dperm), func(a, b int) { dperm[a], dperm[b] = dperm[b], dperm[a] })
			dts := append([]int64{}, dperm[:nd]...)
			sort.Slice(dts, func(a, b int) bool { return dts[a] < dts[b] })
			var dIfc *c24Iface
			if r.Chance(3, 4) {
				dIfc = &c24Iface{name: name}
				dstIf[name] = dIfc
			}
			for _, dt := range dts {
				d := c24Day{ts: dt}
				for _, off := range c24GenDay(r, tier) {
					d.blocks = append(d.blocks, c24Block{ts: dt + off, pid: c24Pid(r, tier)})
				}
				ifc.days = append(ifc.days, d)
				if dIfc != nil && r.Chance(2, 3) {
					// destination has the day too: a mix of shared and own block timestamps
					dd := c24Day{ts: dt}
					set := map[int64]int{}
					mode := r.Intn(6)
					for _, b := range d.blocks {
						switch {
						case mode == 0: // identical timestamps
							set[b.ts] = c24Pid(r, tier)
						case mode == 1: // disjoint
						case r.Bool():
							if r.Chance(1, 4) {
								set[b.ts] = b.pid // same content
							} else {
								set[b.ts] = c24Pid(r, tier)
							}
						}
					}
					if mode != 0 || r.Chance(1, 3) {
						for _, off := range c24GenDay(r, tier) {
							if _, ok := set[dt+off]; !ok {
								clash := false
								for _, b := range d.blocks {
									clash = clash || b.ts == dt+off
								}
								if !clash || mode != 1 {
									set[dt+off] = c24Pid(r, tier)
								}
							}
						}
					}
					for ts := range set {
						for _, b := range d.blocks {
							if b.ts == ts {
								conflict = true
							}
						}
					}
					var tss []int64
					for ts := range set {
						tss = append(tss, ts)
					}
					sort.Slice(tss, func(a, b int) bool { return tss[a] < tss[b] })
					for _, ts := range tss {
						dd.blocks = append(dd.blocks, c24Block{ts: ts, pid: set[ts]})
					}
					if len(dd.blocks) > 0 {
						dIfc.days = append(dIfc.days, dd)
					}
				}
			}
			// days only the destination has
			if dIfc != nil && r.Chance(1, 3) {
				for _, dt := range c24DayPool {
					has := false
					for _, x := range dts {
						has = has || x == dt
					}
					if !has && r.Chance(1, 3) {
						dd := c24Day{ts: dt}
						for _, off := range c24GenDay(r, tier) {
							dd.blocks = append(dd.blocks, c24Block{ts: dt + off, pid: c24Pid(r, tier)})
						}
						dIfc.days = append(dIfc.days, dd)
					}
				}
				sort.Slice(dIfc.days, func(a, b int) bool { return dIfc.days[a].ts < dIfc.days[b].ts })
			}
			src.ifaces = append(src.ifaces, ifc)
		}
		// interfaces only the destination has
		for _, name := range perm[nif:] {
			if r.Chance(1, 4) {
				ifc := &c24Iface{name: name}
				dd := c24Day{ts: Pick(r, c24DayPool)}
				for _, off := range c24GenDay(r, tier) {
					dd.blocks = append(dd.blocks, c24Block{ts: dd.ts + off, pid: c24Pid(r, tier)})
				}
				ifc.days = append(ifc.days, dd)
				dstIf[name] = ifc
			}
		}
		var dnames []string
		for k := range dstIf {
			dnames = append(dnames, k)
		}
		sort.Strings(dnames)
		for _, k := range dnames {
			dst.ifaces = append(dst.ifaces, *dstIf[k])
		}
		// interface selection
		req := "-"
		cls := "all-ifaces"
		sel := map[string]bool{}
		for _, s := range srcNames {
			sel[s] = true
		}
		switch k := r.Intn(12); {
		case k < 5:
		case k < 9: // a subset, possibly padded / duplicated / with blanks
			cls = "subset"
			sel = map[string]bool{}
			var xs []string
			for _, s := range srcNames {
				if r.Bool() {
					sel[s] = true
					x := s
					if r.Chance(1, 3) {
						x = " " + x + "\t"
					}
					xs = append(xs, esc(x))
					if r.Chance(1, 5) {
						xs = append(xs, esc(s))
					}
				}
			}
			if r.Chance(1, 4) {
				xs = append(xs, "%")
			}
			if r.Chance(1, 4) {
				xs = append(xs, esc("  "))
			}
			r.Shuffle(len(xs), func(a, b int) { xs[a], xs[b] = xs[b], xs[a] })
			if len(xs) > 0 {
				req = strings.Join(xs, ",")
			} else {
				sel = map[string]bool{}
				for _, s := range srcNames {
					sel[s] = true
				}
			}
			if len(sel) == 0 && len(xs) > 0 {
				cls = "blank-selection"
			}
		case k < 11: // malformed: an interface the source does not have (maybe one the destination has)
			cls = "unknown-iface"
			sel = map[string]bool{}
			xs := []string{esc(Pick(r, append([]string{"nope0"}, perm[nif:]...)))}
			if r.Bool() {
				xs = append([]string{esc(srcNames[0])}, xs...)
			}
			req = strings.Join(xs, ",")
		default:
			cls = "all-ifaces"
		}
		switch r.Intn(40) {
		case 0:
			src = c24DB{missing: true}
			cls = "source-missing"
			conflict = false
		case 1, 2:
			dst = c24DB{missing: true}
			cls += ":dst-missing"
			conflict = false
		case 3:
			src = c24DB{}
			req = "-"
			cls = "source-empty"
			conflict = false
		}
		nt := false
		if conflict && cls != "unknown-iface" && cls != "blank-selection" {
			// a shared block timestamp on a selected interface
			for _, si := range src.ifaces {
				if !sel[si.name] {
					continue
				}
				for _, di := range dst.ifaces {
					if di.name != si.name {
						continue
					}
					for _, sd := range si.days {
						for _, dd := range di.days {
							if sd.ts != dd.ts {
								continue
							}
							for _, sb := range sd.blocks {
								for _, db := range dd.blocks {
									nt = nt || sb.ts == db.ts
								}
							}
						}
					}
				}
			}
		}
		line := fmt.Sprintf("C24 %s %s %d %s %s %s %s %s", b2s(ow), b2s(dry), tol, req, Pick(r, encs), Pick(r, encs), c24ShowGen(src), c24ShowGen(dst))
		cs = append(cs, Case{Line: line, Class: fmt.Sprintf("%s:ow=%s:dry=%s", cls, b2s(ow), b2s(dry)), NonTrivial: nt})
	}
	return cs
}

func init() {
	register(&Prop{
		ID: "C24",
		Rule: "seeded pairs of source/destination databases written with the real goDB.DBWriter (1-3 source interfaces of a pool of 5, 0-4 days per interface incl. month and year boundaries, per day 1-6 blocks on slots spread over the day — start, middle, end, off-grid, 86399 —, 1 in 6 days placed exactly on (or one second off) the completeness boundary of the case's tolerance at both ends, or (thorough) full 288-block days with a gap; the destination shares / partly shares / lacks each day with identical, overlapping or disjoint block timestamps and own days and interfaces; payloads are a function of a payload id, 1 in 60 a 1500-flow block) x overwrite x dry-run x tolerance in {<=0 (default), 0.5 s, 1 s, 150 s, 300 s, 301 s, 15 min, 1 h, 6 h, 12 h, 86399 s, 24 h, 25 h} (which makes the same sparse days complete or partial) x interface selection {all, subset with padded / duplicate / blank names, unknown name (malformed), blank only} x encoders {lz4, zstd, null} per side, plus missing source / missing destination / empty source. The real MergeDatabases runs twice; the decoded destination (timestamps + payload id recognised from a digest of the 8 decoded columns, block/day/dir-name metadata), the source tree hash, the destination tree hash (dry-run) and both summaries are compared with the Lean model. Non-trivial: a selected interface has a day on both sides with at least one common block timestamp. Distinct = distinct case lines.",
		Gen: c24Gen,
		Run: c24Run,
		Init: func(string) error {
			d, err := os.MkdirTemp("", "verif-c24-")
			c24Tmp = d
			return err
		},
		Done: func() { _ = os.RemoveAll(c24Tmp) },
	})
}
