//go:build verif_all || verif_c06

package main

// C06 — corrupted or foreign files never crash a reader and stay contained.
//
// A case is a small valid database (1–3 days of one interface, written by the real DBWriter with the
// null or the LZ4 encoder), a list of byte-level mutations of its day files (the case line carries the
// resulting bytes of every file, so that the Lean model sees exactly what the reader sees) and one query.
// The query runs through the real engine in a CHILD process of the harness binary (a reader that panics
// in a worker goroutine, hangs or exhausts memory would otherwise take the harness down). Reader processes
// serve one query after the other (`__child c06query`, requests on stdin) until one dies; how a query ends is
// mapped to `rows=…|totals=…|hits=…|stats=…`, `err:<kind>`, `panic`, `hang`, `oom`, `crash`.

import (
	"bufio"
	"bytes"
	"context"
	"encoding/binary"
	"fmt"
	"io"
	"net/netip"
	"os"
	"os/exec"
	"path/filepath"
	"sort"
	"strconv"
	"strings"
	"sync"
	"sync/atomic"
	"syscall"
	"time"

	"github.com/els0r/goProbe/v4/pkg/goDB/encoder"
	"github.com/els0r/goProbe/v4/pkg/goDB/encoder/encoders"
	"github.com/els0r/goProbe/v4/pkg/goDB/engine"
	"github.com/els0r/goProbe/v4/pkg/query"
	"github.com/els0r/goProbe/v4/pkg/results"
	"github.com/els0r/goProbe/v4/pkg/types"
)

const (
	c06Iface    = "eth0"
	c06Base     = int64(1700006400) // 2023-11-15 00:00:00 UTC (multiple of 86400)
	c06NCols    = 8
	c06MaxRaw   = 64 << 20 // decoder oracle: larger announced raw lengths cannot be reached by ≤ 4 KiB of source
	c06Timeout  = 240 * time.Second // per query; generous because the check may share the machine
	c06ChildAS  = 2 << 30 // address space of the child: a buffer for an announced length >= 2^30 (twice that is allocated) cannot be had
	c06BigLen   = 1 << 30 // announced lengths from here on end in "out of memory" under c06ChildAS
	c06SafeLen  = 1 << 24 // announced lengths below this are harmless; those in between depend on host and load and are not generated
)

var c06ColNames = [c06NCols]string{"sip", "dip", "proto", "dport", "bytes_rcvd", "bytes_sent", "pkts_rcvd", "pkts_sent"}

// ---------------------------------------------------------------------------------------------
// day files on the wire

// c06File: nil = file missing
type c06File struct {
	Present bool
	Data    []byte
}

func (f c06File) wire() string {
	if !f.Present {
		return "x"
	}
	return hexBytes(f.Data)
}

func c06ParseFile(s string) c06File {
	if s == "x" {
		return c06File{}
	}
	return c06File{Present: true, Data: unhex(s)}
}

type c06Day struct {
	TS     int64  // day timestamp the directory was written for (decides YYYY/MM)
	Suffix string // metadata suffix of the directory name ("" = none)
	Meta   c06File
	Cols   [c06NCols]c06File
}

func (d c06Day) wire() string {
	p := []string{strconv.FormatInt(d.TS, 10), esc(d.Suffix), d.Meta.wire()}
	for _, c := range d.Cols {
		p = append(p, c.wire())
	}
	return strings.Join(p, "|")
}

func c06ParseDay(s string) c06Day {
	p := strings.Split(s, "|")
	var d c06Day
	d.TS, _ = strconv.ParseInt(p[0], 10, 64)
	d.Suffix = unesc(p[1])
	d.Meta = c06ParseFile(p[2])
	for i := 0; i < c06NCols; i++ {
		d.Cols[i] = c06ParseFile(p[3+i])
	}
	return d
}

func (d c06Day) dirName() string {
	n := strconv.FormatInt(d.TS, 10)
	if d.Suffix != "" {
		n += "_" + d.Suffix
	}
	return n
}

func (d c06Day) equal(o c06Day) bool { return d.wire() == o.wire() }

func c06MonthDir(db string, ts int64) string {
	t := time.Unix(ts, 0).UTC()
	return filepath.Join(db, c06Iface, strconv.Itoa(t.Year()), fmt.Sprintf("%02d", int(t.Month())))
}

// c06Materialise writes the days to a fresh database directory
func c06Materialise(db string, days []c06Day) error {
	if err := os.MkdirAll(filepath.Join(db, c06Iface), 0o755); err != nil {
		return err
	}
	for _, d := range days {
		dir := filepath.Join(c06MonthDir(db, d.TS), d.dirName())
		if err := os.MkdirAll(dir, 0o755); err != nil {
			return err
		}
		if d.Meta.Present {
			if err := os.WriteFile(filepath.Join(dir, ".blockmeta"), d.Meta.Data, 0o644); err != nil {
				return err
			}
		}
		for i, c := range d.Cols {
			if c.Present {
				if err := os.WriteFile(filepath.Join(dir, c06ColNames[i]+".gpf"), c.Data, 0o644); err != nil {
					return err
				}
			}
		}
	}
	return nil
}

// c06ReadDays reads back the day directories of a database written by the real writer
func c06ReadDays(db string) ([]c06Day, error) {
	var days []c06Day
	root := filepath.Join(db, c06Iface)
	err := filepath.Walk(root, func(p string, fi os.FileInfo, err error) error {
		if err != nil || !fi.IsDir() {
			return err
		}
		rel, _ := filepath.Rel(root, p)
		if len(strings.Split(rel, string(filepath.Separator))) != 3 {
			return nil
		}
		name := fi.Name()
		var d c06Day
		parts := strings.SplitN(name, "_", 2)
		d.TS, _ = strconv.ParseInt(parts[0], 10, 64)
		if len(parts) > 1 {
			d.Suffix = parts[1]
		}
		if b, err := os.ReadFile(filepath.Join(p, ".blockmeta")); err == nil {
			d.Meta = c06File{true, b}
		}
		for i := range d.Cols {
			if b, err := os.ReadFile(filepath.Join(p, c06ColNames[i]+".gpf")); err == nil {
				d.Cols[i] = c06File{true, b}
			}
		}
		days = append(days, d)
		return filepath.SkipDir
	})
	sort.Slice(days, func(i, j int) bool { return days[i].TS < days[j].TS })
	return days, err
}

// ---------------------------------------------------------------------------------------------
// the query (child process)

type c06Query struct {
	Attrs string // subset of sip,dip,dport,proto (comma separated, non-empty)
	Time  bool
	Cond  string // "-" or <attr>=<value> (addresses as hex)
	First int64
	Last  int64
}

func c06CondString(c string) string {
	if c == "-" || c == "" {
		return ""
	}
	kv := strings.SplitN(c, "=", 2)
	switch kv[0] {
	case "sip", "dip":
		b := unhex(kv[1])
		a, _ := netip.AddrFromSlice(b)
		return kv[0] + " = " + a.String()
	}
	return kv[0] + " = " + kv[1]
}

func c06AddrHex(a netip.Addr) string {
	if !a.IsValid() {
		return "-"
	}
	if a.Is4() {
		b := a.As4()
		return hexBytes(b[:])
	}
	b := a.As16()
	return hexBytes(b[:])
}

// c06RunQuery: the real engine; canonical result
func c06RunQuery(db string, q c06Query) string {
	qt := q.Attrs
	if q.Time {
		qt += ",time"
	}
	opts := []query.Option{
		query.WithFirst(strconv.FormatInt(q.First, 10)), query.WithLast(strconv.FormatInt(q.Last, 10)),
		query.WithNumResults(1 << 40), query.WithFormat("json"), query.WithMaxMemPct(90),
	}
	if c := c06CondString(q.Cond); c != "" {
		opts = append(opts, query.WithCondition(c))
	}
	a := query.NewArgs(qt, c06Iface, opts...).AddOutputs(io.Discard)
	ctx, cancel := context.WithTimeout(context.Background(), 200*time.Second)
	defer cancel()
	res, err := engine.NewQueryRunner(db).Run(ctx, a)
	if err != nil {
		return "err:" + c06ErrClass(err)
	}
	return c06Render(res, q)
}

// c06Listing runs the real ReadMetadata over the queried range: `fine` (an answer or an error) or `panic`
func c06Listing(db string, first, last int64) (res string) {
	defer func() {
		if r := recover(); r != nil {
			res = "panic"
		}
	}()
	_ = listSummary(db, first, last)
	return "fine"
}

func c06ErrClass(err error) string {
	s := err.Error()
	switch {
	case strings.Contains(s, "internal error during query processing"):
		return "internal"
	case strings.Contains(s, "error decoding metadata file"):
		return "metadata"
	case strings.Contains(s, "error reading metadata file"):
		return "metadata-io"
	case strings.Contains(s, "failed to parse"):
		return "dirname"
	case strings.Contains(s, "memory limit"):
		return "memlimit"
	}
	if len(s) > 60 {
		s = s[:60]
	}
	return esc(s)
}

func c06Render(res *results.Result, q c06Query) string {
	if res == nil {
		return "err:nil-result"
	}
	if res.Status.Code != types.StatusOK && res.Status.Code != types.StatusEmpty && res.Status.Code != types.StatusMissingData {
		return "err:status-" + esc(string(res.Status.Code))
	}
	has := map[string]bool{}
	for _, a := range strings.Split(q.Attrs, ",") {
		has[a] = true
	}
	var rows []string
	for _, r := range res.Rows {
		var f []string
		if q.Time {
			f = append(f, strconv.FormatInt(r.Labels.Timestamp.Unix(), 10))
		}
		if has["sip"] {
			f = append(f, c06AddrHex(r.Attributes.SrcIP))
		}
		if has["dip"] {
			f = append(f, c06AddrHex(r.Attributes.DstIP))
		}
		if has["dport"] {
			f = append(f, strconv.Itoa(int(r.Attributes.DstPort)))
		}
		if has["proto"] {
			f = append(f, strconv.Itoa(int(r.Attributes.IPProto)))
		}
		rows = append(rows, fmt.Sprintf("%s/%d:%d:%d:%d", strings.Join(f, ":"),
			r.Counters.BytesRcvd, r.Counters.BytesSent, r.Counters.PacketsRcvd, r.Counters.PacketsSent))
	}
	sort.Strings(rows)
	t := res.Summary.Totals
	st := res.Summary.Stats
	stats := "0:0:0:0:0:0"
	if st != nil {
		stats = fmt.Sprintf("%d:%d:%d:%d:%d:%d", st.BytesLoaded, st.BytesDecompressed, st.BlocksProcessed, st.BlocksCorrupted, st.DirectoriesProcessed, st.Workloads)
	}
	return fmt.Sprintf("rows=%s|totals=%d:%d:%d:%d|hits=%d|stats=%s", listField(rows),
		t.BytesRcvd, t.BytesSent, t.PacketsRcvd, t.PacketsSent, res.Summary.Hits.Total, stats)
}

func init() {
	// `__child c06query`: serves queries read from stdin, one per line: db attrs time cond first last listing
	children["c06query"] = func(_ []string) int {
		// a hard limit on the address space makes "the reader asks for more memory than there is"
		// a deterministic outcome (fatal error: out of memory) instead of a question of host and load
		_ = syscall.Setrlimit(syscall.RLIMIT_AS, &syscall.Rlimit{Cur: c06ChildAS, Max: c06ChildAS})
		sc := bufio.NewScanner(os.Stdin)
		sc.Buffer(make([]byte, 1<<16), 1<<20)
		for sc.Scan() {
			a := strings.Fields(sc.Text())
			if len(a) != 7 {
				fmt.Println("C06RESULT err:bad-request")
				continue
			}
			first, _ := strconv.ParseInt(a[4], 10, 64)
			last, _ := strconv.ParseInt(a[5], 10, 64)
			out := c06RunQuery(a[0], c06Query{Attrs: a[1], Time: a[2] == "1", Cond: a[3], First: first, Last: last})
			// the interface listing (ReadMetadata) reads the same damaged files: it may fail, it must not crash
			if a[6] == "1" {
				out += " list=" + c06Listing(a[0], first, last)
			} else {
				out += " list=fine"
			}
			fmt.Println("C06RESULT " + out)
		}
		return 0
	}
}

var c06Work string
var c06Seq atomic.Int64

// one reader process; it serves queries until it dies (or is killed after a timeout)
type c06Server struct {
	cmd    *exec.Cmd
	in     io.WriteCloser
	out    *bufio.Reader
	mu     sync.Mutex
	stderr bytes.Buffer
	served int
}

var c06Idle = make(chan *c06Server, 64)

func c06Spawn() (*c06Server, error) {
	s := &c06Server{cmd: exec.Command(os.Args[0], "__child", "c06query")}
	s.cmd.Env = append(os.Environ(), "TZ=UTC", "GOMAXPROCS=4")
	var err error
	if s.in, err = s.cmd.StdinPipe(); err != nil {
		return nil, err
	}
	op, err := s.cmd.StdoutPipe()
	if err != nil {
		return nil, err
	}
	ep, err := s.cmd.StderrPipe()
	if err != nil {
		return nil, err
	}
	s.out = bufio.NewReaderSize(op, 1<<20)
	if err := s.cmd.Start(); err != nil {
		return nil, err
	}
	go func() {
		buf := make([]byte, 1<<14)
		for {
			n, err := ep.Read(buf)
			s.mu.Lock()
			if s.stderr.Len() < 1<<20 {
				s.stderr.Write(buf[:n])
			}
			s.mu.Unlock()
			if err != nil {
				return
			}
		}
	}()
	return s, nil
}

func (s *c06Server) kill() {
	_ = s.in.Close()
	_ = s.cmd.Process.Kill()
	_ = s.cmd.Wait()
}

// c06Child runs the query in a reader process and classifies how that went
func c06Child(db string, q c06Query, listing bool) string {
	var s *c06Server
	select {
	case s = <-c06Idle:
	default:
		var err error
		if s, err = c06Spawn(); err != nil {
			return "err:spawn-" + esc(err.Error())
		}
	}
	s.mu.Lock()
	s.stderr.Reset()
	s.mu.Unlock()
	req := strings.Join([]string{db, q.Attrs, b2s(q.Time), q.Cond, strconv.FormatInt(q.First, 10), strconv.FormatInt(q.Last, 10), b2s(listing)}, " ")
	type answer struct {
		line string
		err  error
	}
	ch := make(chan answer, 1)
	go func() {
		if _, err := io.WriteString(s.in, req+"\n"); err != nil {
			ch <- answer{"", err}
			return
		}
		for {
			l, err := s.out.ReadString('\n')
			if strings.HasPrefix(l, "C06RESULT ") {
				ch <- answer{strings.TrimSpace(strings.TrimPrefix(l, "C06RESULT ")), nil}
				return
			}
			if err != nil {
				ch <- answer{"", err}
				return
			}
		}
	}()
	select {
	case a := <-ch:
		if a.err == nil {
			// a reader is retired after a while so that address space it keeps mapped cannot add up to the limit
			if s.served++; s.served >= 200 {
				s.kill()
			} else {
				c06Idle <- s
			}
			return a.line
		}
	case <-time.After(c06Timeout):
		s.kill()
		return "hang"
	}
	// the reader process died
	werr := s.cmd.Wait()
	_ = s.in.Close()
	time.Sleep(20 * time.Millisecond) // let the stderr copier drain
	s.mu.Lock()
	es := s.stderr.String()
	s.mu.Unlock()
	if os.Getenv("VERIF_DEBUG") != "" {
		fmt.Fprintf(os.Stderr, "reader died (%v): %s\n", werr, es)
	}
	switch {
	case strings.Contains(es, "out of memory") || strings.Contains(es, "cannot allocate memory"):
		return "oom"
	case strings.Contains(es, "panic:") || strings.Contains(es, "fatal error:") || strings.Contains(es, "SIGSEGV"):
		return "panic"
	}
	if ee, ok := werr.(*exec.ExitError); ok {
		if ws, ok := ee.Sys().(syscall.WaitStatus); ok && ws.Signaled() && ws.Signal() == syscall.SIGKILL {
			return "oom"
		}
	}
	return "crash"
}

func c06Shutdown() {
	for {
		select {
		case s := <-c06Idle:
			s.kill()
		default:
			return
		}
	}
}

// ---------------------------------------------------------------------------------------------
// building the valid database

type c06WriteOut struct {
	TS    int64
	Drops uint64
	Flows []Flow
}

func (w c06WriteOut) wire() string {
	return fmt.Sprintf("%s|%d|%d|%s", c06Iface, w.TS, w.Drops, flowsField(w.Flows))
}

func c06ParseHist(s string) []c06WriteOut {
	var ws []c06WriteOut
	for _, x := range splitSemi(s) {
		p := strings.Split(x, "|")
		ts, _ := strconv.ParseInt(p[1], 10, 64)
		dr, _ := strconv.ParseUint(p[2], 10, 64)
		ws = append(ws, c06WriteOut{TS: ts, Drops: dr, Flows: parseFlows(p[3])})
	}
	return ws
}

func c06Build(ws []c06WriteOut, enc encoders.Type) ([]c06Day, error) {
	db, err := os.MkdirTemp(c06Work, "build-")
	if err != nil {
		return nil, err
	}
	defer os.RemoveAll(db)
	for _, w := range ws {
		if err := writeOut(db, c06Iface, w.TS, w.Drops, w.Flows, enc); err != nil {
			return nil, err
		}
	}
	return c06ReadDays(db)
}

// ---------------------------------------------------------------------------------------------
// metadata layout helpers (only used to aim mutations and to collect decoder oracle entries)

type c06Desc struct {
	Len, Raw uint32
	Enc      byte
	Pos      int // position of the descriptor in the file
}

type c06Meta struct {
	N      int
	Cols   [c06NCols][]c06Desc
	TSPos  int // position of the initial timestamp
	TrafAt int // position of the first traffic entry
}

func c06ParseMeta(b []byte) (*c06Meta, bool) {
	if len(b) < 144 {
		return nil, false
	}
	n := binary.BigEndian.Uint64(b[8:16])
	if n > uint64(len(b)-144)/88 {
		return nil, false
	}
	m := &c06Meta{N: int(n)}
	pos := 72
	for i := 0; i < c06NCols; i++ {
		pos += 8
		for j := 0; j < m.N; j++ {
			m.Cols[i] = append(m.Cols[i], c06Desc{binary.BigEndian.Uint32(b[pos:]), binary.BigEndian.Uint32(b[pos+4:]), b[pos+8], pos})
			pos += 9
		}
	}
	m.TSPos = pos
	m.TrafAt = pos + 8
	return m, true
}

// c06Announced returns the largest stored / raw length announced by any block descriptor of any day
func c06Announced(days []c06Day) uint32 {
	var mx uint32
	for _, d := range days {
		if !d.Meta.Present {
			continue
		}
		if m, ok := c06ParseMeta(d.Meta.Data); ok {
			for i := range m.Cols {
				for _, b := range m.Cols[i] {
					mx = max(mx, b.Len, b.Raw)
				}
			}
		}
	}
	return mx
}

// c06Decode: what the reader's decoder answers for (encoder type, source bytes, announced raw length):
// "e" = error (including a decompressed length other than the announced one), else the bytes
func c06Decode(enc byte, src []byte, raw uint32) string {
	if raw > c06MaxRaw {
		return "e"
	}
	e, err := encoder.New(encoders.Type(enc))
	if err != nil {
		return "e"
	}
	defer e.Close()
	in := make([]byte, len(src))
	out := make([]byte, raw)
	n, err := e.Decompress(in, out, bytes.NewReader(src))
	if err != nil || uint32(n) != raw {
		return "e"
	}
	return hexBytes(out)
}

// c06Oracle collects the decoder answers for every (column, block) of every day and every read
// position the column file can be at (the reader's position bookkeeping can run out of step with
// the file, see Model/C06.lean `readBlock`)
func c06Oracle(days []c06Day) []string {
	seen := map[string]bool{}
	var out []string
	for _, d := range days {
		if !d.Meta.Present {
			continue
		}
		m, ok := c06ParseMeta(d.Meta.Data)
		if !ok {
			continue
		}
		for i := 0; i < c06NCols; i++ {
			if !d.Cols[i].Present {
				continue
			}
			data := d.Cols[i].Data
			// candidate positions: every block offset, and every position reachable by reading any
			// subset of earlier blocks from any candidate
			cand := map[int]bool{0: true}
			off := 0
			for _, b := range m.Cols[i] {
				cand[off] = true
				off += int(b.Len)
			}
			for round := 0; round < len(m.Cols[i])+1; round++ {
				for p := range cand {
					for _, b := range m.Cols[i] {
						for _, adv := range []int{int(b.Len), int(b.Raw)} {
							if q := p + adv; q <= len(data) {
								cand[q] = true
							}
						}
					}
				}
			}
			for _, b := range m.Cols[i] {
				if b.Enc == byte(encoders.EncoderTypeNull) || b.Raw == 0 || b.Len == 0 {
					continue
				}
				if _, err := encoder.New(encoders.Type(b.Enc)); err != nil {
					continue
				}
				for p := range cand {
					if p+int(b.Len) > len(data) {
						continue
					}
					src := data[p : p+int(b.Len)]
					key := fmt.Sprintf("%d/%s/%d", b.Enc, hexBytes(src), b.Raw)
					if seen[key] {
						continue
					}
					seen[key] = true
					out = append(out, key+"/"+c06Decode(b.Enc, src, b.Raw))
				}
			}
		}
	}
	sort.Strings(out)
	return out
}

// ---------------------------------------------------------------------------------------------
// case lines

type c06Case struct {
	Q       c06Query
	Hist    []c06WriteOut
	Damaged []int64
	Days    []c06Day
	Oracle  []string
	Ops     []string // informational (the bytes of the days are what counts)
}

func (c c06Case) line() string {
	var hs, ds, dm []string
	for _, w := range c.Hist {
		hs = append(hs, w.wire())
	}
	for _, d := range c.Days {
		ds = append(ds, d.wire())
	}
	for _, t := range c.Damaged {
		dm = append(dm, strconv.FormatInt(t, 10))
	}
	return strings.Join([]string{"C06", c.Q.Attrs, b2s(c.Q.Time), c.Q.Cond, strconv.FormatInt(c.Q.First, 10), strconv.FormatInt(c.Q.Last, 10),
		semiField(hs), listField(dm), "big=" + b2s(c06Announced(c.Days) >= c06BigLen), semiField(ds), listField(c.Oracle), "ops=" + strings.Join(c.Ops, "+")}, " ")
}

func c06ParseCase(f []string) c06Case {
	var c c06Case
	c.Q.Attrs, c.Q.Time, c.Q.Cond = f[0], f[1] == "1", f[2]
	c.Q.First, _ = strconv.ParseInt(f[3], 10, 64)
	c.Q.Last, _ = strconv.ParseInt(f[4], 10, 64)
	c.Hist = c06ParseHist(f[5])
	for _, s := range splitSemi(f[8]) {
		c.Days = append(c.Days, c06ParseDay(s))
	}
	return c
}

func c06Run(f []string) string {
	c := c06ParseCase(f)
	db := filepath.Join(c06Work, fmt.Sprintf("run-%d", c06Seq.Add(1)))
	defer os.RemoveAll(db)
	if err := c06Materialise(db, c.Days); err != nil {
		return "err:materialise-" + esc(err.Error())
	}
	// f[7] = big=<0|1>: a descriptor announces 2^30 bytes or more (the recorded allocation finding); the
	// listing reads counter columns of partial days and would hit the same allocation: not run then
	return c06Child(db, c.Q, f[7] != "big=1")
}

// ---------------------------------------------------------------------------------------------
// mutations: a tiny language applied to the day files (file = "m" for .blockmeta or a column index)

func c06FileOf(d *c06Day, f string) *c06File {
	if f == "m" {
		return &d.Meta
	}
	i, _ := strconv.Atoi(f)
	return &d.Cols[i]
}

func c06Apply(days []c06Day, op string) {
	p := strings.Split(op, ":")
	di, _ := strconv.Atoi(p[1])
	if di >= len(days) {
		return
	}
	d := &days[di]
	switch p[0] {
	case "suffix":
		d.Suffix = unesc(p[2])
		return
	}
	f := c06FileOf(d, p[2])
	switch p[0] {
	case "trunc":
		n, _ := strconv.Atoi(p[3])
		if f.Present && n < len(f.Data) {
			f.Data = append([]byte{}, f.Data[:n]...)
		}
	case "flip":
		n, _ := strconv.Atoi(p[3])
		if f.Present && n/8 < len(f.Data) {
			f.Data = append([]byte{}, f.Data...)
			f.Data[n/8] ^= 1 << (n % 8)
		}
	case "set":
		pos, _ := strconv.Atoi(p[3])
		b := unhex(p[4])
		if f.Present {
			nd := append([]byte{}, f.Data...)
			for len(nd) < pos+len(b) {
				nd = append(nd, 0)
			}
			copy(nd[pos:], b)
			f.Data = nd
		}
	case "del":
		*f = c06File{}
	case "repl":
		*f = c06File{true, unhex(p[3])}
	case "copy":
		si, _ := strconv.Atoi(p[3])
		if si < len(days) {
			src := c06FileOf(&days[si], p[4])
			*f = c06File{src.Present, append([]byte{}, src.Data...)}
		}
	}
}

func c06MakeCase(q c06Query, hist []c06WriteOut, enc encoders.Type, ops []string) (c06Case, error) {
	orig, err := c06Build(hist, enc)
	if err != nil {
		return c06Case{}, err
	}
	days := make([]c06Day, len(orig))
	copy(days, orig)
	for _, op := range ops {
		c06Apply(days, op)
	}
	c := c06Case{Q: q, Hist: hist, Days: days, Ops: ops}
	for i := range days {
		if !days[i].equal(orig[i]) {
			c.Damaged = append(c.Damaged, orig[i].TS)
		}
	}
	c.Oracle = c06Oracle(days)
	return c, nil
}

func c06ProbeHist() []c06WriteOut {
	v4 := func(a, b byte, dport uint16, proto uint8, n uint64) Flow {
		return Flow{SIP: []byte{10, 0, 0, a}, DIP: []byte{192, 168, 1, b}, Dport: dport, Proto: proto, BR: 100 * n, BS: 10 * n, PR: n, PS: n + 1}
	}
	v6 := func(a, b byte, dport uint16, proto uint8, n uint64) Flow {
		return Flow{SIP: append([]byte{0x20, 0x01, 0x0d, 0xb8, 0, 0, 0, 0, 0, 0, 0, 0, 0, 0, 0}, a),
			DIP: append([]byte{0xfe, 0x80, 0, 0, 0, 0, 0, 0, 0, 0, 0, 0, 0, 0, 0}, b), Dport: dport, Proto: proto, BR: 100 * n, BS: 10 * n, PR: n, PS: n + 1}
	}
	if os.Getenv("C06_TINY") != "" {
		return []c06WriteOut{{TS: c06Base + 600, Drops: 0, Flows: []Flow{v4(1, 1, 53, 17, 1), v6(1, 1, 443, 6, 4)}}}
	}
	return []c06WriteOut{
		{TS: c06Base + 600, Drops: 1, Flows: []Flow{v4(1, 1, 53, 17, 1), v4(2, 1, 443, 6, 2), v4(3, 2, 80, 6, 3), v6(1, 1, 443, 6, 4)}},
		{TS: c06Base + 900, Drops: 0, Flows: []Flow{v4(1, 1, 53, 17, 5), v6(2, 2, 53, 17, 6)}},
		{TS: c06Base + 86400 + 300, Drops: 2, Flows: []Flow{v4(1, 1, 53, 17, 7), v4(2, 2, 8080, 6, 8), v6(1, 1, 443, 6, 9)}},
	}
}

func init() {
	// probe: `__child c06probe <null|lz4> <attrs> <time> <cond> <first> <last> [op…]` prints the case line and the result
	children["c06probe"] = func(a []string) int {
		c06Work, _ = os.MkdirTemp("", "c06probe-")
		defer os.RemoveAll(c06Work)
		defer c06Shutdown()
		enc := encoders.EncoderTypeNull
		if a[0] == "lz4" {
			enc = encoders.EncoderTypeLZ4
		}
		first, _ := strconv.ParseInt(a[4], 10, 64)
		last, _ := strconv.ParseInt(a[5], 10, 64)
		if first == 0 {
			first = c06Base
		}
		if last == 0 {
			last = c06Base + 3*86400
		}
		c, err := c06MakeCase(c06Query{Attrs: a[1], Time: a[2] == "1", Cond: a[3], First: first, Last: last}, c06ProbeHist(), enc, a[6:])
		if err != nil {
			fmt.Println("build failed:", err)
			return 1
		}
		line := c.line()
		fmt.Println(line)
		if keep := os.Getenv("C06_KEEP"); keep != "" {
			_ = c06Materialise(keep, c.Days)
			return 0
		}
		fmt.Fprintln(os.Stderr, "=> "+c06Run(strings.Fields(line)[1:]))
		return 0
	}
}

// ---------------------------------------------------------------------------------------------
// generator

var c06Interesting32 = []uint32{0, 1, 2, 3, 4, 5, 8, 16, 17, 0xffff, 0xffffff, 0x7fffffff, 0x80000000, 0x80000005, 0xffffffff, 0x40000000}

func c06U32(v uint32) string { return fmt.Sprintf("%08x", v) }
func c06U64(v uint64) string { return fmt.Sprintf("%016x", v) }

// c06RandOp draws one mutation of the (still valid) days
func c06RandOp(r *Rand, days []c06Day) (op, class string) {
	di := r.Intn(len(days))
	d := days[di]
	m, ok := c06ParseMeta(d.Meta.Data)
	file := func() string {
		if r.Chance(2, 5) {
			return "m"
		}
		return strconv.Itoa(r.Intn(c06NCols))
	}
	flen := func(f string) int { return len(c06FileOf(&d, f).Data) }
	switch k := r.Intn(20); {
	case k < 2: // truncation
		f := file()
		return fmt.Sprintf("trunc:%d:%s:%d", di, f, r.Intn(flen(f)+1)), "truncate"
	case k < 5: // bit flip
		f := file()
		return fmt.Sprintf("flip:%d:%s:%d", di, f, r.Intn(8*flen(f)+1)), "bitflip"
	case k < 6: // a few garbage bytes somewhere (possibly appended)
		f := file()
		return fmt.Sprintf("set:%d:%s:%d:%s", di, f, r.Intn(flen(f)+1), hexBytes(r.Bytes(1+r.Intn(4)))), "garbage-bytes"
	case k < 7: // whole file garbage
		return fmt.Sprintf("repl:%d:%s:%s", di, file(), hexBytes(r.Bytes(r.Intn(200)))), "garbage-file"
	case k < 8: // missing file
		return fmt.Sprintf("del:%d:%s", di, file()), "missing"
	case k < 10: // swapped / foreign file
		return fmt.Sprintf("copy:%d:%s:%d:%s", di, file(), r.Intn(len(days)), file()), "swap"
	case k < 11: // directory suffix
		sfx := []string{"a~b", "1-1-1-1-1-1-%7e", "1-2-3-4-5-6-%7b7", "%ff-1-1-1-1-1-1", "1-1-1", "", "Z-Z-Z-Z-Z-Z-ZZZZZZZZZZZZZ", "1-1-1-1-1-1-%c3%a9", "1-%7f-1-1-1-1-1"}
		return fmt.Sprintf("suffix:%d:%s", di, sfx[r.Intn(len(sfx))]), "suffix"
	}
	if !ok || m.N == 0 {
		return fmt.Sprintf("flip:%d:m:%d", di, r.Intn(8*flen("m")+1)), "bitflip"
	}
	col, blk := r.Intn(c06NCols), r.Intn(m.N)
	desc := m.Cols[col][blk]
	switch k := r.Intn(12); {
	case k < 2: // number of blocks
		v := []uint64{0, uint64(m.N) - 1, uint64(m.N) + 1, uint64(m.N) + 2, 1 << 32, 1 << 63, ^uint64(0)}[r.Intn(7)]
		return fmt.Sprintf("set:%d:m:8:%s", di, c06U64(v)), "meta-nblocks"
	case k < 4: // stored length
		v := append([]uint32{desc.Len + 1, desc.Len - 1, desc.Raw}, c06Interesting32...)[r.Intn(3+len(c06Interesting32))]
		return fmt.Sprintf("set:%d:m:%d:%s", di, desc.Pos, c06U32(v)), "meta-len"
	case k < 6: // raw length
		v := append([]uint32{desc.Raw + 1, desc.Raw - 1, desc.Len, desc.Raw + 4, desc.Raw + 16}, c06Interesting32...)[r.Intn(5+len(c06Interesting32))]
		return fmt.Sprintf("set:%d:m:%d:%s", di, desc.Pos+4, c06U32(v)), "meta-rawlen"
	case k < 8: // encoder type (half of the time of a block that is followed by another one of the column:
		// what the reader does to itself on a block it cannot decode must not hurt the next block)
		if m.N > 1 && r.Bool() {
			blk = r.Intn(m.N - 1)
			desc = m.Cols[col][blk]
		}
		return fmt.Sprintf("set:%d:m:%d:%02x", di, desc.Pos+8, []byte{0, 1, 2, 3, 4, 4, 9, 255}[r.Intn(8)]), "meta-enc"
	case k < 9: // IPv4 / IPv6 entry counts of a block
		pos := m.TrafAt + 16*blk + 4*r.Intn(2)
		cur := binary.BigEndian.Uint32(d.Meta.Data[pos:])
		v := append([]uint32{cur + 1, cur - 1, cur + 2}, c06Interesting32...)[r.Intn(3+len(c06Interesting32))]
		return fmt.Sprintf("set:%d:m:%d:%s", di, pos, c06U32(v)), "meta-ipcount"
	case k < 10: // timestamps
		if r.Bool() {
			v := []uint64{0, 1 << 62, ^uint64(0), uint64(d.TS + 86400), uint64(d.TS - 86400), uint64(d.TS)}[r.Intn(6)]
			return fmt.Sprintf("set:%d:m:%d:%s", di, m.TSPos, c06U64(v)), "meta-time"
		}
		return fmt.Sprintf("set:%d:m:%d:%s", di, m.TrafAt+16*blk+12, c06U32([]uint32{0, 1, 300, 86400, 0xffffffff}[r.Intn(5)])), "meta-time"
	default: // first byte of a stored block (the width byte of a counter column, the first address byte …)
		off := 0
		for j := 0; j < blk; j++ {
			off += int(m.Cols[col][j].Len)
		}
		return fmt.Sprintf("set:%d:%d:%d:%02x", di, col, off, []byte{0, 1, 2, 7, 8, 9, 16, 255}[r.Intn(8)]), "block-first-byte"
	}
}

func c06RandHist(r *Rand, lz4 bool) []c06WriteOut {
	var ws []c06WriteOut
	day := c06Base + int64(r.Intn(20))*86400
	nd := 1 + r.Intn(3)
	for d := 0; d < nd; d++ {
		nb := 1 + r.Intn(3)
		ts := day + int64(r.Intn(200))*300
		for b := 0; b < nb; b++ {
			nf := r.Intn(6)
			if lz4 {
				nf = 8 + r.Intn(8)
			}
			ws = append(ws, c06WriteOut{TS: ts, Drops: uint64(r.Intn(3)), Flows: genFlows(r, nf)})
			ts += int64(1+r.Intn(3)) * 300
		}
		day += 86400 * int64(1+r.Intn(2))
	}
	return ws
}

func c06RandQuery(r *Rand, ws []c06WriteOut) c06Query {
	var q c06Query
	names := []string{"sip", "dip", "dport", "proto"}
	for {
		var as []string
		for _, n := range names {
			if r.Chance(3, 5) {
				as = append(as, n)
			}
		}
		if len(as) > 0 {
			q.Attrs = strings.Join(as, ",")
			break
		}
	}
	q.Time = r.Chance(3, 5)
	q.Cond = "-"
	var flows []Flow
	for _, w := range ws {
		flows = append(flows, w.Flows...)
	}
	if r.Chance(1, 2) && len(flows) > 0 {
		f := flows[r.Intn(len(flows))]
		switch r.Intn(4) {
		case 0:
			q.Cond = "sip=" + hexBytes(f.SIP)
		case 1:
			q.Cond = "dip=" + hexBytes(f.DIP)
		case 2:
			q.Cond = fmt.Sprintf("dport=%d", f.Dport)
		default:
			q.Cond = fmt.Sprintf("proto=%d", f.Proto)
		}
	}
	lo, hi := ws[0].TS, ws[len(ws)-1].TS
	q.First, q.Last = lo-lo%86400, hi-hi%86400+86400
	if r.Chance(3, 10) {
		w := ws[r.Intn(len(ws))]
		q.First = w.TS + int64(r.Intn(3)-1)
	}
	if r.Chance(3, 10) {
		w := ws[r.Intn(len(ws))]
		if l := w.TS + int64(r.Intn(3)-1); l >= q.First {
			q.Last = l
		}
	}
	return q
}

func c06Gen(r *Rand, tier string) []Case {
	r = NewRand(r.U64() ^ 0xC06C06C06)
	nDB, perDB := 60, 7
	if tier == "thorough" {
		nDB, perDB = 900, 8
	}
	var cs []Case
	for i := 0; i < nDB; i++ {
		lz4 := r.Chance(2, 5)
		enc := encoders.EncoderTypeNull
		if lz4 {
			enc = encoders.EncoderTypeLZ4
		}
		hist := c06RandHist(r, lz4)
		orig, err := c06Build(hist, enc)
		if err != nil || len(orig) == 0 {
			continue
		}
		for k := 0; k < perDB; k++ {
			q := c06RandQuery(r, hist)
			days := make([]c06Day, len(orig))
			copy(days, orig)
			nops := []int{0, 1, 1, 1, 1, 1, 2, 2, 3, 4}[r.Intn(10)]
			var ops []string
			class := "intact"
			for o := 0; o < nops; o++ {
				op, cl := c06RandOp(r, orig)
				c06Apply(days, op)
				ops = append(ops, op)
				if o == 0 {
					class = cl
				}
			}
			if a := c06Announced(days); a >= c06SafeLen && a < c06BigLen {
				continue // outcome depends on how much memory the host can spare (see Rule)
			}
			c := c06Case{Q: q, Hist: hist, Days: days, Ops: ops}
			for j := range days {
				if !days[j].equal(orig[j]) {
					c.Damaged = append(c.Damaged, orig[j].TS)
				}
			}
			c.Oracle = c06Oracle(days)
			if lz4 {
				class += "/lz4"
			}
			cs = append(cs, Case{Line: c.line(), Class: class, NonTrivial: len(c.Damaged) > 0})
		}
	}
	return cs
}

func init() {
	register(&Prop{
		ID: "C06",
		Rule: "valid databases of 1-3 days x 1-3 blocks written by the real DBWriter (null encoder: 0-5 flows per block; LZ4: 8-15 flows so that blocks are really compressed), 0-4 byte-level mutations per case " +
			"(truncation, bit flips, garbage bytes / whole garbage files, missing files, files swapped within or across days, hostile metadata fields: number of blocks, stored / raw lengths 0, +-1, 2^31, 2^32-1, encoder types, " +
			"IPv4/IPv6 counts, timestamps; width bytes of counter blocks; directory suffixes with bytes beyond 'z'), one query (attribute subset, optional time attribute, optional equality condition on sip/dip/dport/proto taken from a stored flow, " +
			"full or partial time range) run by the real engine in reader child processes (2 GiB address space, 240 s timeout per query; a reader that dies is classified panic / oom / crash and replaced). " +
			"Mutants announcing a block length in [2^24, 2^30) are dropped (whether the reader gets that much memory depends on the host); lengths from 2^30 on end in the known out-of-memory finding. " +
			"Every case carries the bytes of all files after mutation and the answers of the real LZ4 / ZSTD decoders for every read the reader can make. Non-trivial: at least one day's files differ from what the writer produced.",
		Init: func(string) error {
			var err error
			c06Work, err = os.MkdirTemp("", "c06-")
			return err
		},
		Done:     func() { c06Shutdown(); os.RemoveAll(c06Work) },
		Parallel: 6,
		Gen:      c06Gen,
		Run:      c06Run,
	})
}
