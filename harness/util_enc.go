package main

// helpers shared by several property harnesses (kept free of heavy imports)

import "github.com/els0r/goProbe/v4/pkg/goDB/encoder/encoders"

func encType(name string) encoders.Type {
	switch name {
	case "null":
		return encoders.EncoderTypeNull
	case "lz4":
		return encoders.EncoderTypeLZ4
	default:
		return encoders.EncoderTypeZSTD
	}
}

