//go:build verif_all || verif_c20

package main

import (
	"bytes"
	"context"
	"fmt"
	"os"
	"sort"
	"strconv"
	"strings"
	"time"

	"github.com/els0r/goProbe/v4/pkg/capture"
	"github.com/els0r/goProbe/v4/pkg/capture/capturetypes"
	"github.com/els0r/goProbe/v4/pkg/goDB/encoder/encoders"
	"github.com/els0r/goProbe/v4/pkg/goprobe/writeout"
	"github.com/els0r/goProbe/v4/pkg/types/hashmap"
)

// C20 — captured traffic is fully accounted for across write-outs.
//
// Case:  C20 <op>,<op>,…   with  R = rotation (write-out)  and
//                          4|6:<hash hex>:<ptype>:<size>:<aux> = one parsed packet
// Every packet goes through the real addToFlowLogV4/V6 (hook VerifAddV4/V6) of two captures:
//   A  rotated with the real FlowLog.Rotate(); the flow log right before (`pre`), the emitted
//      aggregate (`agg`), the totals (`tot`) and whether FlowLog.Aggregate() showed the same (`live`)
//      are printed; a digest of the flow log after every operation is chained into `chain`;
//   B  rotated with the real Capture.rotate() (hook VerifRotate), the result handed to the real
//      write-out handler (GoDBHandler.HandleWriteout -> DBWriter.Write -> dbData) into a temp
//      database which is finally read back with the real query engine (`db`).
// `mem` is the flow log at the end.

const (
	c20Iface  = "verif0"
	c20TsBase = int64(1700000100)
	c20Mod    = uint64(2147483647)
)

var c20WorkDir string

func c20Mix(d, x uint64) uint64 { return (d*1000003 + x%c20Mod) % c20Mod }

func c20EntryDigest(k string, f *capture.Flow) uint64 {
	d := uint64(7)
	for i := 0; i < len(k); i++ {
		d = c20Mix(d, uint64(k[i]))
	}
	return c20Mix(c20Mix(c20Mix(c20Mix(d, f.BytesRcvd), f.BytesSent), f.PacketsRcvd), f.PacketsSent)
}

func c20StateDigest(fl *capture.FlowLog) uint64 {
	var s uint64
	for k, f := range fl.FlowsV4() {
		s += c20EntryDigest(k, f)
	}
	for k, f := range fl.FlowsV6() {
		s += c20EntryDigest(k, f)
	}
	return s % c20Mod
}

type c20Rec struct {
	key            []byte
	br, bs, pr, ps uint64
}

func c20Render(recs []c20Rec) string {
	sort.Slice(recs, func(i, j int) bool {
		if len(recs[i].key) != len(recs[j].key) {
			return len(recs[i].key) < len(recs[j].key)
		}
		return bytes.Compare(recs[i].key, recs[j].key) < 0
	})
	var xs []string
	for _, r := range recs {
		xs = append(xs, fmt.Sprintf("%s:%d:%d:%d:%d", hexBytes(r.key), r.br, r.bs, r.pr, r.ps))
	}
	return listField(xs)
}

func c20Log(fl *capture.FlowLog) string {
	var recs []c20Rec
	for k, f := range fl.FlowsV4() {
		recs = append(recs, c20Rec{[]byte(k), f.BytesRcvd, f.BytesSent, f.PacketsRcvd, f.PacketsSent})
	}
	for k, f := range fl.FlowsV6() {
		recs = append(recs, c20Rec{[]byte(k), f.BytesRcvd, f.BytesSent, f.PacketsRcvd, f.PacketsSent})
	}
	return c20Render(recs)
}

func c20Agg(m *hashmap.AggFlowMap) string {
	var recs []c20Rec
	if m != nil {
		for it := m.Iter(); it.Next(); {
			k := append([]byte(nil), it.Key()...)
			v := it.Val()
			recs = append(recs, c20Rec{k, v.BytesRcvd, v.BytesSent, v.PacketsRcvd, v.PacketsSent})
		}
	}
	return c20Render(recs)
}

func c20Term(xs []string) string {
	var b strings.Builder
	for _, x := range xs {
		b.WriteString(x)
		b.WriteByte(';')
	}
	return b.String()
}

func c20Run(f []string) string {
	ops := splitList(f[0])
	a := capture.VerifNewCapture(c20Iface)
	b := capture.VerifNewCapture(c20Iface)
	dbPath, err := os.MkdirTemp(c20WorkDir, "db-")
	if err != nil {
		return "err:tempdir"
	}
	defer os.RemoveAll(dbPath)
	handler := writeout.NewGoDBHandler(dbPath, encoders.EncoderTypeLZ4)
	ctx := context.Background()

	chain := uint64(1)
	var live, pre, agg, tot []string
	nRot := 0
	for _, op := range ops {
		if op == "R" {
			pre = append(pre, c20Log(a.VerifFlowLog()))
			lv := c20Agg(a.VerifFlowLog().Aggregate())
			m, totals := a.VerifFlowLog().Rotate()
			rendered := c20Agg(m)
			agg = append(agg, rendered)
			tot = append(tot, fmt.Sprintf("%d:%d:%d:%d", totals.BytesRcvd, totals.BytesSent, totals.PacketsRcvd, totals.PacketsSent))
			live = append(live, b2s(lv == rendered))

			// end-to-end: the capture's own rotate, the write-out handler, the database
			ch := make(chan capturetypes.TaggedAggFlowMap, writeout.WriteoutsChanDepth)
			done := handler.HandleWriteout(ctx, time.Unix(c20TsBase+300*int64(nRot), 0), ch)
			ch <- capturetypes.TaggedAggFlowMap{Map: b.VerifRotate(ctx), Iface: c20Iface}
			close(ch)
			<-done
			nRot++
		} else {
			p := strings.Split(op, ":")
			if len(p) != 5 {
				return "err:bad-op"
			}
			h := unhex(p[1])
			pt, _ := strconv.ParseUint(p[2], 10, 8)
			sz, _ := strconv.ParseUint(p[3], 10, 32)
			aux, _ := strconv.ParseUint(p[4], 10, 8)
			switch {
			case p[0] == "4" && len(h) == capturetypes.EPHashSizeV4:
				var k capturetypes.EPHashV4
				copy(k[:], h)
				a.VerifAddV4(k, byte(pt), uint32(sz), byte(aux))
				b.VerifAddV4(k, byte(pt), uint32(sz), byte(aux))
			case p[0] == "6" && len(h) == capturetypes.EPHashSizeV6:
				var k capturetypes.EPHashV6
				copy(k[:], h)
				a.VerifAddV6(k, byte(pt), uint32(sz), byte(aux))
				b.VerifAddV6(k, byte(pt), uint32(sz), byte(aux))
			default:
				return "err:bad-op"
			}
		}
		chain = c20Mix(chain, c20StateDigest(a.VerifFlowLog()))
	}
	if c20Log(a.VerifFlowLog()) != c20Log(b.VerifFlowLog()) {
		return "err:captures-diverge"
	}
	db := "rows=-|totals=0:0:0:0|hits=0" // nothing was written: there is no database to read
	if nRot > 0 {
		db = queryRows(dbPath, c20Iface, c20TsBase-86400, c20TsBase+300*int64(nRot)+86400, "")
	}
	return fmt.Sprintf("chain=%d live=%s pre=%s agg=%s tot=%s mem=%s db=%s", chain, c20Term(live), c20Term(pre), c20Term(agg), c20Term(tot),
		c20Log(a.VerifFlowLog()), db)
}

// ---------------------------------------------------------------------------- generation

var (
	c20Ports   = []uint16{0, 53, 80, 443, 1024, 40000, 40001}
	c20Flags   = []byte{0, 0x02, 0x12, 0x10}
	c20HostsV4 = [][]byte{{10, 0, 0, 1}, {10, 0, 0, 2}, {192, 168, 1, 1}, {224, 0, 0, 1}, {255, 255, 255, 255}}
	c20HostsV6 = [][]byte{
		{0x20, 0x01, 0x0d, 0xb8, 0, 0, 0, 0, 0, 0, 0, 0, 0, 0, 0, 1},
		{0x20, 0x01, 0x0d, 0xb8, 0, 0, 0, 0, 0, 0, 0, 0, 0, 0, 0, 2},
		{0xfe, 0x80, 0, 0, 0, 0, 0, 0, 0, 0, 0, 0, 0, 0, 0, 1},
		{0xff, 0x02, 0, 0, 0, 0, 0, 0, 0, 0, 0, 0, 0, 0, 0, 1},
	}
)

// the parser's common-port rule (pkg/capture/flow.go: commonPorts), restated independently
func c20Common(port uint16, proto byte) bool {
	switch proto {
	case 6:
		return port == 53 || port == 80 || port == 443 || port == 445 || port == 8080
	case 17:
		return port == 53 || port == 443
	}
	return false
}

type c20Conv struct {
	v6     bool
	a, b   []byte
	ap, bp uint16
	proto  byte
	seen   int
}

// hash builds the parsed 5-tuple of a packet of the conversation travelling a->b (fwd) or b->a
func (c *c20Conv) hash(fwd bool) []byte {
	s, d, sp, dp := c.a, c.b, c.ap, c.bp
	if !fwd {
		s, d, sp, dp = c.b, c.a, c.bp, c.ap
	}
	var hs, hd uint16
	if c.proto == 6 || c.proto == 17 {
		if !c20Common(dp, c.proto) {
			hs = sp
		}
		if !c20Common(sp, c.proto) {
			hd = dp
		}
	}
	h := append([]byte{}, s...)
	h = append(h, byte(hs>>8), byte(hs))
	h = append(h, d...)
	h = append(h, byte(hd>>8), byte(hd))
	return append(h, c.proto)
}

func c20Pkt(v6 bool, h []byte, pt byte, size uint32, aux byte) string {
	fam := "4"
	if v6 {
		fam = "6"
	}
	return fmt.Sprintf("%s:%s:%d:%d:%d", fam, hexBytes(h), pt, size, aux)
}

func c20Size(r *Rand) uint32 {
	switch r.Intn(12) {
	case 0:
		return Pick(r, []uint32{0, 1, 65535, 4294967295})
	case 1, 2:
		return uint32(r.Intn(65536))
	}
	return Pick(r, []uint32{40, 52, 60, 64, 576, 1500})
}

func c20NewConv(r *Rand, nHosts int) *c20Conv {
	c := &c20Conv{v6: r.Chance(1, 3)}
	hosts := c20HostsV4
	if c.v6 {
		hosts = c20HostsV6
	}
	if nHosts > len(hosts) {
		nHosts = len(hosts)
	}
	c.a, c.b = hosts[r.Intn(nHosts)], hosts[r.Intn(nHosts)]
	icmp := byte(1)
	if c.v6 {
		icmp = 58
	}
	c.proto = Pick(r, []byte{6, 6, 6, 17, 17, icmp, 50, 47})
	c.ap, c.bp = Pick(r, c20Ports), Pick(r, c20Ports)
	if r.Chance(2, 3) { // the usual shape: ephemeral client port, service port
		c.ap, c.bp = Pick(r, []uint16{1024, 40000, 40001}), Pick(r, []uint16{53, 80, 443, 1024})
	}
	return c
}

func (c *c20Conv) next(r *Rand) string {
	fwd := r.Chance(3, 5)
	if c.seen == 0 {
		fwd = r.Chance(9, 10) // now and then the reply is the first packet captured
	}
	var aux byte
	switch c.proto {
	case 6:
		switch {
		case r.Chance(1, 5):
			aux = Pick(r, c20Flags)
		case c.seen == 0 && fwd:
			aux = 0x02
		case c.seen == 1 && !fwd:
			aux = 0x12
		default:
			aux = Pick(r, []byte{0x10, 0x10, 0})
		}
	case 1:
		aux = Pick(r, []byte{8, 0, 3, 11, 13, 14, 5})
		if r.Chance(2, 3) {
			aux = 8
			if !fwd {
				aux = 0
			}
		}
	case 58:
		aux = Pick(r, []byte{128, 129, 1, 3, 135, 136})
		if r.Chance(2, 3) {
			aux = 128
			if !fwd {
				aux = 129
			}
		}
	}
	pt := byte(0)
	if !fwd {
		pt = 4
	}
	if r.Chance(1, 6) {
		pt = Pick(r, []byte{0, 1, 2, 3, 4})
	}
	c.seen++
	return c20Pkt(c.v6, c.hash(fwd), pt, c20Size(r), aux)
}

// c20NonTrivial: at least one rotation, and some interval holds both directions of a conversation
// (a packet and another one carrying the mirrored 5-tuple, the two being different)
func c20NonTrivial(ops []string) bool {
	rot := false
	seen := map[string]bool{}
	both := false
	for _, op := range ops {
		if op == "R" {
			rot = true
			seen = map[string]bool{}
			continue
		}
		p := strings.Split(op, ":")
		h := unhex(p[1])
		half := (len(h) - 1) / 2
		m := append(append(append([]byte{}, h[half:2*half]...), h[:half]...), h[2*half])
		if !bytes.Equal(m, h) && seen[string(m)] {
			both = true
		}
		seen[string(h)] = true
	}
	return rot && both
}

func c20Seq(r *Rand, maxPkts, maxRot int) (ops []string, class string) {
	kind := r.Intn(10)
	nConv := 1 + r.Intn(12)
	nHosts := 2 + r.Intn(4)
	var convs []*c20Conv
	for i := 0; i < nConv; i++ {
		convs = append(convs, c20NewConv(r, nHosts))
	}
	nPkts := 1 + r.Intn(maxPkts)
	if r.Chance(1, 3) {
		nPkts = 1 + r.Intn(20)
	}
	nRot := r.Intn(maxRot + 1)
	class = "conversations"
	pRot := float64(nRot) / float64(nPkts+1)
	rots := 0
	rotate := func() {
		ops = append(ops, "R")
		rots++
		if kind == 0 && r.Chance(1, 2) { // idle intervals: two or three write-outs in a row
			ops = append(ops, "R")
			if r.Bool() {
				ops = append(ops, "R")
			}
		}
	}
	if kind == 0 {
		class = "idle-intervals"
	}
	if kind == 1 {
		class = "random-hashes"
	}
	if r.Chance(1, 8) {
		rotate()
	}
	for i := 0; i < nPkts; i++ {
		if kind == 1 && r.Chance(1, 2) {
			// malformed stream: arbitrary "parsed" tuples from a tiny byte alphabet, so that keys, their
			// mirror images and self-mirrored keys (sip=dip, sport=dport) collide often
			v6 := r.Chance(1, 4)
			n := 13
			if v6 {
				n = 37
			}
			h := make([]byte, n)
			for j := range h {
				h[j] = Pick(r, []byte{0, 0, 0, 1, 255})
			}
			h[n-1] = Pick(r, []byte{6, 17, 1, 58, 0, 255})
			if r.Chance(1, 3) {
				half := (n - 1) / 2
				copy(h[half:2*half], h[:half])
			}
			ops = append(ops, c20Pkt(v6, h, byte(r.Intn(6)), c20Size(r), Pick(r, []byte{0, 2, 0x12, 0x10, 8, 128, 129, 255})))
		} else {
			ops = append(ops, Pick(r, convs).next(r))
		}
		if rots < maxRot+2 && r.Intn(1000) < int(pRot*1000) {
			rotate()
		}
	}
	if r.Chance(1, 2) {
		rotate()
	}
	return ops, class
}

// c20Small: the DESIGN's small scope — conversations of <= 4 packets between 2 hosts over the port
// and flag tables, with a rotation (or none, or two) between any two packets
func c20Small(r *Rand) []string {
	c := &c20Conv{v6: r.Chance(1, 4), proto: Pick(r, []byte{6, 6, 17}), ap: Pick(r, c20Ports), bp: Pick(r, c20Ports)}
	if c.v6 {
		c.a, c.b = c20HostsV6[0], c20HostsV6[1]
	} else {
		c.a, c.b = c20HostsV4[0], c20HostsV4[1]
	}
	var ops []string
	n := 1 + r.Intn(4)
	for i := 0; i < n; i++ {
		fwd := r.Bool()
		pt := byte(0)
		if !fwd {
			pt = 4
		}
		var aux byte
		if c.proto == 6 {
			aux = Pick(r, c20Flags)
		}
		ops = append(ops, c20Pkt(c.v6, c.hash(fwd), pt, c20Size(r), aux))
		for k := r.Intn(3); k > 0 && (i < n-1 || r.Bool()); k-- {
			ops = append(ops, "R")
		}
	}
	return ops
}

func c20Gen(r *Rand, tier string) []Case {
	n, maxPkts, maxRot := 1200, 300, 6
	if tier == "thorough" {
		n, maxPkts, maxRot = 60000, 300, 8
	}
	var cs []Case
	for i := 0; i < n; i++ {
		var ops []string
		class := "small-scope"
		if i%4 == 3 {
			ops = c20Small(r)
		} else {
			ops, class = c20Seq(r, maxPkts, maxRot)
		}
		cs = append(cs, Case{Line: "C20 " + listField(ops), Class: class, NonTrivial: c20NonTrivial(ops)})
	}
	return cs
}

func init() {
	register(&Prop{
		ID: "C20",
		Rule: "seeded operation sequences: 1-300 parsed packets of 1-12 conversations between 2-5 hosts (IPv4 and IPv6, unicast/multicast/broadcast), TCP/UDP/ICMP/ESP/GRE, ports {0,53,80,443,1024,40000,40001} with the parser's common-port zeroing applied, TCP flag bytes {0,SYN,SYN|ACK,ACK}, ICMP request/reply/error types, both directions (now and then the reply first), packet types 0-4, sizes incl. 0, 65535 and 2^32-1, with 0-6 rotations at random points (also before the first packet, at the end, and 2-3 in a row = idle intervals); a malformed stream of arbitrary tuples over a tiny byte alphabet (colliding, mirrored and self-mirrored keys); and the small scope: <=4 packets of one conversation with 0-2 rotations between any two. Every packet goes through the real addToFlowLogV4/V6; capture A is rotated with FlowLog.Rotate (flow log before, emitted aggregate, totals, FlowLog.Aggregate agreement and a chained digest of the flow log after EVERY operation are compared with the model), capture B with Capture.rotate -> GoDBHandler.HandleWriteout -> DBWriter.Write into a temp DB read back by the real query engine. Non-trivial: at least one rotation and an interval holding both directions (a tuple and its different mirror image) of a conversation. Distinct = distinct case lines.",
		Gen:  c20Gen,
		Run:  c20Run,
		Init: func(tier string) error {
			time.Local = time.UTC
			d, err := os.MkdirTemp("", "verif-c20-")
			c20WorkDir = d
			return err
		},
		Done:     func() { _ = os.RemoveAll(c20WorkDir) },
		Parallel: 8,
	})
}
