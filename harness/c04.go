package main

import (
	"fmt"
	"os"
	"strconv"

	"github.com/els0r/goProbe/v4/pkg/goDB/encoder/encoders"
)

// child: one real write-out between two marker system calls (stat of a reserved path)
func init() {
	children["writeout"] = func(a []string) int {
		// args: db iface ts drops flows
		ts, _ := strconv.ParseInt(a[2], 10, 64)
		drops, _ := strconv.ParseUint(a[3], 10, 64)
		_, _ = os.Stat("/verif-marker-begin")
		err := writeOut(a[0], a[1], ts, drops, parseFlows(a[4]), encoders.EncoderTypeLZ4)
		_, _ = os.Stat("/verif-marker-end")
		if err != nil {
			fmt.Println("err:" + errClass(err))
			return 3
		}
		fmt.Println("ok")
		return 0
	}
}
