//go:build verif_all || verif_c04

package main

import (
	"fmt"
	"os"
	"path/filepath"
	"strconv"
	"strings"

	"github.com/els0r/goProbe/v4/pkg/goDB/encoder/encoders"
)

// C04 — a crash during a write-out. History of write-outs; one of them runs in a child process
// under strace and is killed (SIGKILL at system-call entry) before its n-th file operation.

func c04Run(f []string) string {
	var ws []WriteOut
	for _, s := range splitSemi(f[0]) {
		ws = append(ws, parseWriteOut(s))
	}
	crashK, crashN := -1, -1
	if f[1] != "-" {
		p := strings.Split(f[1], ".")
		crashK, _ = strconv.Atoi(p[0])
		crashN, _ = strconv.Atoi(p[1])
	}
	work, err := os.MkdirTemp("", "verif-c04-")
	if err != nil {
		panic(err)
	}
	if os.Getenv("VERIF_KEEP") == "" {
		defer os.RemoveAll(work)
	} else {
		fmt.Fprintln(os.Stderr, "work dir kept:", work)
	}
	db := filepath.Join(work, "db")
	_ = os.MkdirAll(db, 0o755)
	first, last := c04Range(ws)
	var out []string
	for k, w := range ws {
		if k != crashK {
			if err := writeOut(db, w.Iface, w.TS, w.Drops, w.Flows, encoders.EncoderTypeLZ4); err != nil {
				out = append(out, fmt.Sprintf("w%d=err:%s", k, errClass(err)))
			}
			continue
		}
		// dry run on a copy: the full op list of this write-out in the current state
		dry := filepath.Join(work, "dry")
		_ = copyTree(db, dry)
		ops, inj, st := runChildWriteOut(dry, w, "", work)
		_ = os.RemoveAll(dry)
		out = append(out, "ops="+listField(ops), "dry="+st)
		// real run, killed at the entry of the crashN-th counted system call of the write-out
		if crashN < len(ops) {
			_, _, st = runChildWriteOut(db, w, fmt.Sprintf(inj[crashN], "signal=SIGKILL"), work)
			out = append(out, "crashed="+st)
		} else {
			_, _, st = runChildWriteOut(db, w, "", work)
			out = append(out, "crashed="+st)
		}
		out = append(out, "q1="+queryRows(db, "any", first, last, ""), "l1="+listSummary(db, first, last))
	}
	out = append(out, "q2="+queryRows(db, "any", first, last, ""), "l2="+listSummary(db, first, last))
	return strings.Join(out, " ")
}

func c04Gen(r *Rand, tier string) []Case {
	nh := 2
	if tier == "thorough" {
		nh = 30
	}
	var cs []Case
	day := int64(1699920000)
	for h := 0; h < nh; h++ {
		nw := 2 + r.Intn(3)
		ifaces := []string{"eth0", "eth1"}
		slot := map[string]int64{}
		var ws []WriteOut
		for i := 0; i < nw; i++ {
			ifc := ifaces[r.Intn(1+r.Intn(2))]
			slot[ifc] += int64(1 + r.Intn(2))
			ts := day + slot[ifc]*300
			if r.Chance(1, 5) {
				slot[ifc] += 288 // next day
				ts = day + slot[ifc]*300
			}
			nf := 1 + r.Intn(3)
			if r.Chance(1, 8) {
				nf = 0
			}
			ws = append(ws, WriteOut{Iface: ifc, TS: ts, Drops: uint64(r.Intn(5)), Flows: genFlows(r, nf)})
		}
		var hs []string
		for _, w := range ws {
			hs = append(hs, w.String())
		}
		hist := semiField(hs)
		// every crash point of every write-out (the model says how many ops each has; 40 is an upper bound,
		// indices beyond the op list mean "not killed")
		for k := range ws {
			for n := 0; n <= 30; n++ {
				cs = append(cs, Case{Line: fmt.Sprintf("C04 %s %d.%d", hist, k, n), Class: fmt.Sprintf("crash:w%d/%d", k, nw), NonTrivial: true})
			}
		}
		cs = append(cs, Case{Line: fmt.Sprintf("C04 %s -", hist), Class: "no-crash", NonTrivial: false})
	}
	return cs
}

func init() {
	register(&Prop{
		ID:   "C04",
		Rule: "seeded histories of 2-4 real write-outs (DBWriter.Write; 1-2 interfaces, day roll-over 1 in 5, 0-3 flows, IPv4/IPv6) and, for EVERY write-out k and EVERY file-operation index n of it (mkdirat/openat/write/renameat/fchmodat/unlinkat, enumerated from a strace dry run), a run in which the writing child process is killed by SIGKILL at the entry of its n-th operation (strace fault injection); afterwards the real query engine and ReadMetadata run on the damaged database, the remaining write-outs are applied and both run again. The normalised system-call trace must equal the model's op list. Non-trivial: every crash case. Distinct = distinct (history, k, n).",
		Gen:  c04Gen,
		Run:  c04Run,
		Parallel: 8,
	})
}

