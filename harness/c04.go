//go:build verif_all || verif_c04

package main

import (
	"bufio"
	"fmt"
	"os"
	"os/exec"
	"path/filepath"
	"regexp"
	"strconv"
	"strings"

	"github.com/els0r/goProbe/v4/pkg/goDB/encoder/encoders"
)

// C04 — a crash during a write-out. History of write-outs; one of them runs in a child process
// under strace and is killed (SIGKILL at system-call entry) before its n-th file operation.

// child: one real write-out between two marker system calls (stat of a reserved path)
func init() {
	children["writeout"] = func(a []string) int {
		// args: db iface ts drops flows
		ts, _ := strconv.ParseInt(a[2], 10, 64)
		drops, _ := strconv.ParseUint(a[3], 10, 64)
		_, _ = os.Stat("/verif-marker-begin")
		err := writeOut(a[0], a[1], ts, drops, parseFlows(a[4]), encoders.EncoderTypeLZ4)
		_, _ = os.Stat("/verif-marker-end")
		if err != nil {
			fmt.Println("err:" + errClass(err))
			return 3
		}
		fmt.Println("ok")
		return 0
	}
}

type WriteOut struct {
	Iface string
	TS    int64
	Drops uint64
	Flows []Flow
}

func (w WriteOut) String() string {
	return fmt.Sprintf("%s|%d|%d|%s", w.Iface, w.TS, w.Drops, flowsField(w.Flows))
}

func parseWriteOut(s string) WriteOut {
	p := strings.Split(s, "|")
	ts, _ := strconv.ParseInt(p[1], 10, 64)
	dr, _ := strconv.ParseUint(p[2], 10, 64)
	return WriteOut{Iface: p[0], TS: ts, Drops: dr, Flows: parseFlows(p[3])}
}

// the file operations that count as steps of the write-out protocol (and as injection points)
const fsOpSyscalls = "mkdirat,openat,write,renameat,fchmodat,unlinkat"

var straceLine = regexp.MustCompile(`^\d+\s+(\w+)\((.*)\)\s+=\s+(-?\d+)(?:\s+(\w+))?`)

// normaliseTrace maps the strace log between the two markers to the model's op alphabet.
// Returns the ops and the number of counted system calls that precede the begin marker.
func normaliseTrace(path, db string) (ops []string, inj []string, err error) {
	f, err := os.Open(path)
	if err != nil {
		return nil, nil, err
	}
	defer f.Close()
	ordinal := map[string]int{} // per system call name: invocations by the main thread so far (strace counts `when=` per call name)
	fds := map[string]string{}
	in := false
	sc := bufio.NewScanner(f)
	sc.Buffer(make([]byte, 1<<20), 1<<24)
	counted := map[string]bool{}
	for _, s := range strings.Split(fsOpSyscalls, ",") {
		counted[s] = true
	}
	// pass 1: join "<unfinished ...>" / "<... resumed>" pairs and find the thread that runs the write-out
	var lines []string
	pending := map[string]string{}
	mainPid := ""
	for sc.Scan() {
		line := sc.Text()
		pid := strings.SplitN(line, " ", 2)[0]
		if strings.HasSuffix(line, "<unfinished ...>") {
			pending[pid] = strings.TrimSuffix(line, " <unfinished ...>")
			continue
		}
		if i := strings.Index(line, "<... "); i >= 0 {
			if j := strings.Index(line, " resumed>"); j > i {
				line = pending[pid] + line[j+len(" resumed>"):]
				delete(pending, pid)
			}
		}
		if strings.Contains(line, "/verif-marker-begin") {
			mainPid = pid
		}
		lines = append(lines, line)
	}
	for _, line := range lines {
		if !strings.HasPrefix(line, mainPid+" ") {
			continue // only the (locked) main thread performs the write-out; `when=N` counts per thread
		}
		if strings.Contains(line, "/verif-marker-begin") {
			in = true
			continue
		}
		if strings.Contains(line, "/verif-marker-end") {
			break
		}
		m := straceLine.FindStringSubmatch(line)
		if m == nil {
			continue
		}
		name, args, ret, errno := m[1], m[2], m[3], m[4]
		if !counted[name] {
			continue
		}
		ordinal[name]++
		if !in {
			continue
		}
		nops := len(ops)
		rel := func(p string) string {
			p = strings.Trim(p, `"`)
			r, e := filepath.Rel(db, p)
			if e != nil {
				return p
			}
			return r
		}
		quoted := regexp.MustCompile(`"([^"]*)"`).FindAllStringSubmatch(args, -1)
		res := "ok"
		if strings.HasPrefix(ret, "-") {
			res = errno
		}
		base := func(p string) string { return filepath.Base(p) }
		switch name {
		case "mkdirat":
			ops = append(ops, "mkdir:"+strings.Join(strings.Split(rel(quoted[0][1]), "/")[1:], "/"))
		case "openat":
			p := rel(quoted[0][1])
			b := base(p)
			switch {
			case strings.Contains(args, "O_DIRECTORY"):
				ops = append(ops, "readdir:"+res)
			case b == ".blockmeta":
				ops = append(ops, "openmeta:"+res)
			case strings.HasPrefix(b, ".tmp-metadata-"):
				ops = append(ops, "opentmp:"+res)
				fds[ret] = "tmp"
			case strings.HasSuffix(b, ".gpf"):
				ops = append(ops, "opencol:"+strings.TrimSuffix(b, ".gpf")+":"+res)
				fds[ret] = "col:" + strings.TrimSuffix(b, ".gpf")
			default:
				ops = append(ops, "open:"+p+":"+res)
			}
		case "write":
			fd := strings.SplitN(args, ",", 2)[0]
			what := fds[fd]
			if what == "" {
				continue // stdout etc.: not a database operation, not counted by the model (see `extra`)
			}
			ops = append(ops, "write:"+what+":"+res)
		case "fchmodat":
			ops = append(ops, "chmod:"+res)
		case "renameat":
			to := base(rel(quoted[1][1]))
			if to == ".blockmeta" {
				ops = append(ops, "renamemeta:"+res)
			} else {
				ops = append(ops, "renamedir:"+res)
			}
		case "unlinkat":
			ops = append(ops, "unlink:"+res)
		}
		if len(ops) > nops {
			inj = append(inj, fmt.Sprintf("%s:signal=SIGKILL:when=%d", name, ordinal[name]))
		}
	}
	return ops, inj, nil
}

func copyTree(src, dst string) error {
	return exec.Command("cp", "-a", src, dst).Run()
}

// runChildWriteOut runs write-out w in a child under strace; killAt < 0: no injection.
// Returns the normalised op list (only meaningful without injection) and the child's status.
func runChildWriteOut(db string, w WriteOut, inject string, work string) (ops []string, inj []string, status string) {
	trace := filepath.Join(work, "trace-"+strings.NewReplacer(":", "_", "=", "_").Replace(inject)+".txt")
	_ = os.Remove(trace)
	args := []string{"-f", "-o", trace, "-e", "trace=%file,%desc"}
	if inject != "" {
		args = append(args, "-e", "inject="+inject)
	}
	args = append(args, os.Args[0], "__child", "writeout", db, w.Iface, strconv.FormatInt(w.TS, 10), strconv.FormatUint(w.Drops, 10), flowsField(w.Flows))
	cmd := exec.Command("strace", args...)
	cmd.Env = append(os.Environ(), "GOMAXPROCS=1", "TZ=UTC")
	out, err := cmd.Output()
	status = strings.TrimSpace(string(out))
	if err != nil && status == "" {
		status = "killed"
	}
	ops, inj, _ = normaliseTrace(trace, db)
	return
}

func c04Range(ws []WriteOut) (int64, int64) {
	lo, hi := ws[0].TS, ws[0].TS
	for _, w := range ws {
		if w.TS < lo {
			lo = w.TS
		}
		if w.TS > hi {
			hi = w.TS
		}
	}
	return lo - 300, hi + 300
}

func c04Run(f []string) string {
	var ws []WriteOut
	for _, s := range splitSemi(f[0]) {
		ws = append(ws, parseWriteOut(s))
	}
	crashK, crashN := -1, -1
	if f[1] != "-" {
		p := strings.Split(f[1], ".")
		crashK, _ = strconv.Atoi(p[0])
		crashN, _ = strconv.Atoi(p[1])
	}
	work, err := os.MkdirTemp("", "verif-c04-")
	if err != nil {
		panic(err)
	}
	if os.Getenv("VERIF_KEEP") == "" {
		defer os.RemoveAll(work)
	} else {
		fmt.Fprintln(os.Stderr, "work dir kept:", work)
	}
	db := filepath.Join(work, "db")
	_ = os.MkdirAll(db, 0o755)
	first, last := c04Range(ws)
	var out []string
	for k, w := range ws {
		if k != crashK {
			if err := writeOut(db, w.Iface, w.TS, w.Drops, w.Flows, encoders.EncoderTypeLZ4); err != nil {
				out = append(out, fmt.Sprintf("w%d=err:%s", k, errClass(err)))
			}
			continue
		}
		// dry run on a copy: the full op list of this write-out in the current state
		dry := filepath.Join(work, "dry")
		_ = copyTree(db, dry)
		ops, inj, st := runChildWriteOut(dry, w, "", work)
		_ = os.RemoveAll(dry)
		out = append(out, "ops="+listField(ops), "dry="+st)
		// real run, killed at the entry of the crashN-th counted system call of the write-out
		if crashN < len(ops) {
			_, _, st = runChildWriteOut(db, w, inj[crashN], work)
			out = append(out, "crashed="+st)
		} else {
			_, _, st = runChildWriteOut(db, w, "", work)
			out = append(out, "crashed="+st)
		}
		out = append(out, "q1="+queryRows(db, "any", first, last, ""), "l1="+listSummary(db, first, last))
	}
	out = append(out, "q2="+queryRows(db, "any", first, last, ""), "l2="+listSummary(db, first, last))
	return strings.Join(out, " ")
}

func c04Gen(r *Rand, tier string) []Case {
	nh := 2
	if tier == "thorough" {
		nh = 30
	}
	var cs []Case
	day := int64(1699920000)
	for h := 0; h < nh; h++ {
		nw := 2 + r.Intn(3)
		ifaces := []string{"eth0", "eth1"}
		slot := map[string]int64{}
		var ws []WriteOut
		for i := 0; i < nw; i++ {
			ifc := ifaces[r.Intn(1+r.Intn(2))]
			slot[ifc] += int64(1 + r.Intn(2))
			ts := day + slot[ifc]*300
			if r.Chance(1, 5) {
				slot[ifc] += 288 // next day
				ts = day + slot[ifc]*300
			}
			nf := 1 + r.Intn(3)
			if r.Chance(1, 8) {
				nf = 0
			}
			ws = append(ws, WriteOut{Iface: ifc, TS: ts, Drops: uint64(r.Intn(5)), Flows: genFlows(r, nf)})
		}
		var hs []string
		for _, w := range ws {
			hs = append(hs, w.String())
		}
		hist := semiField(hs)
		// every crash point of every write-out (the model says how many ops each has; 40 is an upper bound,
		// indices beyond the op list mean "not killed")
		for k := range ws {
			for n := 0; n <= 30; n++ {
				cs = append(cs, Case{Line: fmt.Sprintf("C04 %s %d.%d", hist, k, n), Class: fmt.Sprintf("crash:w%d/%d", k, nw), NonTrivial: true})
			}
		}
		cs = append(cs, Case{Line: fmt.Sprintf("C04 %s -", hist), Class: "no-crash", NonTrivial: false})
	}
	return cs
}

func init() {
	register(&Prop{
		ID:   "C04",
		Rule: "seeded histories of 2-4 real write-outs (DBWriter.Write; 1-2 interfaces, day roll-over 1 in 5, 0-3 flows, IPv4/IPv6) and, for EVERY write-out k and EVERY file-operation index n of it (mkdirat/openat/write/renameat/fchmodat/unlinkat, enumerated from a strace dry run), a run in which the writing child process is killed by SIGKILL at the entry of its n-th operation (strace fault injection); afterwards the real query engine and ReadMetadata run on the damaged database, the remaining write-outs are applied and both run again. The normalised system-call trace must equal the model's op list. Non-trivial: every crash case. Distinct = distinct (history, k, n).",
		Gen:  c04Gen,
		Run:  c04Run,
		Parallel: 8,
	})
}

func init() {
	children["normtrace"] = func(a []string) int {
		ops, inj, err := normaliseTrace(a[0], a[1])
		fmt.Println(inj, err)
		for _, o := range ops {
			fmt.Println(o)
		}
		return 0
	}
}
