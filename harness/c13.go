//go:build verif_all || verif_c13

package main

import (
	"context"
	"fmt"
	"sort"
	"strconv"
	"strings"
	"time"

	"github.com/els0r/goProbe/v4/pkg/query"
	"github.com/els0r/goProbe/v4/pkg/results"
	"github.com/els0r/goProbe/v4/pkg/types"
)

// C13 — time binning: BinTimestamp, CalcTimeBinSize, (*TimeBinner).BinTime

var c13Protos = []uint8{6, 17, 1, 0}

var c13Fixed = time.FixedZone("X", 3600)

func c13RowFromKey(ts string, key int, c [4]uint64) results.Row {
	var t time.Time
	if ts != "z" {
		// a trailing letter gives the SAME instant another *time.Location (rows decoded from JSON of other
		// hosts are UTC or carry a fixed offset): u = UTC, f = fixed zone +01:00
		loc := time.Local
		switch {
		case strings.HasSuffix(ts, "u"):
			loc, ts = time.UTC, strings.TrimSuffix(ts, "u")
		case strings.HasSuffix(ts, "f"):
			loc, ts = c13Fixed, strings.TrimSuffix(ts, "f")
		}
		v, _ := strconv.ParseInt(ts, 10, 64)
		t = time.Unix(v, 0).In(loc)
	}
	return results.Row{
		Labels:     results.Labels{Timestamp: t, Iface: fmt.Sprintf("eth%d", key%3)},
		Attributes: results.Attributes{IPProto: c13Protos[(key/3)%4], DstPort: uint16(key / 12)},
		Counters:   types.Counters{BytesRcvd: c[0], BytesSent: c[1], PacketsRcvd: c[2], PacketsSent: c[3]},
	}
}

func c13KeyFromRow(r results.Row) int {
	var i int
	fmt.Sscanf(r.Labels.Iface, "eth%d", &i)
	pi := 0
	for j, p := range c13Protos {
		if p == r.Attributes.IPProto {
			pi = j
		}
	}
	return int(r.Attributes.DstPort)*12 + pi*3 + i
}

func c13ShowRows(rows results.Rows) string {
	type kr struct {
		ts  int64
		z   bool
		key int
		s   string
	}
	var ks []kr
	for _, r := range rows {
		k := c13KeyFromRow(r)
		ts := "z"
		z := r.Labels.Timestamp.IsZero()
		if !z {
			ts = strconv.FormatInt(r.Labels.Timestamp.Unix(), 10)
		}
		ks = append(ks, kr{r.Labels.Timestamp.Unix(), z, k, fmt.Sprintf("%s:%d:%d:%d:%d:%d", ts, k, r.Counters.BytesRcvd, r.Counters.BytesSent, r.Counters.PacketsRcvd, r.Counters.PacketsSent)})
	}
	sort.SliceStable(ks, func(i, j int) bool {
		if ks[i].z != ks[j].z {
			return ks[i].z
		}
		if ks[i].ts != ks[j].ts {
			return ks[i].ts < ks[j].ts
		}
		return ks[i].key < ks[j].key
	})
	var out []string
	for _, k := range ks {
		out = append(out, k.s)
	}
	return listField(out)
}

func c13Run(f []string) string {
	switch f[0] {
	case "bints":
		ts, _ := strconv.ParseInt(f[1], 10, 64)
		b, _ := strconv.ParseInt(f[2], 10, 64)
		return strconv.FormatInt(results.BinTimestamp(ts, time.Duration(b)), 10)
	case "calc":
		r, _ := strconv.ParseInt(f[1], 10, 64)
		d, _ := strconv.ParseInt(f[2], 10, 64)
		return strconv.FormatInt(int64(results.CalcTimeBinSize(time.Duration(r), time.Duration(d))), 10)
	case "bintime":
		b, _ := strconv.ParseInt(f[1], 10, 64)
		res := results.New()
		for _, rs := range splitList(f[2]) {
			p := strings.Split(rs, ":")
			key, _ := strconv.Atoi(p[1])
			var c [4]uint64
			for i := 0; i < 4; i++ {
				c[i], _ = strconv.ParseUint(p[2+i], 10, 64)
			}
			res.Rows = append(res.Rows, c13RowFromKey(p[0], key, c))
		}
		tb := results.NewTimeBinner(0, time.Duration(b))
		if err := tb.BinTime(context.Background(), res); err != nil {
			return "err"
		}
		if len(res.Rows) != res.Summary.Hits.Total && len(res.Rows) > 0 {
			return "hits-mismatch"
		}
		return c13ShowRows(res.Rows)
	case "pp":
		// Statement.PostProcess: time binning THEN the row limit. The limit of these cases is at least the
		// number of rows after binning, so nothing may be cut: the result is the binned result.
		b, _ := strconv.ParseInt(f[1], 10, 64)
		limit, _ := strconv.ParseUint(f[2], 10, 64)
		res := results.New()
		for _, rs := range splitList(f[3]) {
			p := strings.Split(rs, ":")
			key, _ := strconv.Atoi(p[1])
			var c [4]uint64
			for i := 0; i < 4; i++ {
				c[i], _ = strconv.ParseUint(p[2+i], 10, 64)
			}
			res.Rows = append(res.Rows, c13RowFromKey(p[0], key, c))
		}
		stmt := &query.Statement{NumResults: limit, TimeBinSize: time.Duration(b)}
		stmt.LabelSelector.Timestamp = true
		if err := stmt.PostProcess(context.Background(), res); err != nil {
			return "err"
		}
		if res.Summary.Hits.Displayed != len(res.Rows) {
			return "displayed-mismatch"
		}
		return c13ShowRows(res.Rows)
	}
	return "bad-op"
}

func c13Gen(r *Rand, tier string) []Case {
	n := 400
	if tier == "thorough" {
		n = 40000
	}
	secs := []int64{300, 600, 900, 1800, 3600, 7200, 86400, 7 * 86400}
	pickBin := func() int64 {
		if r.Chance(1, 4) {
			return (1 + r.I64n(2000)) * 300
		}
		return Pick(r, secs)
	}
	var cs []Case
	for i := 0; i < n; i++ {
		s := pickBin()
		var ts int64
		switch r.Intn(6) {
		case 0:
			ts = s * r.I64n(6000000) // aligned
		case 1:
			ts = s*r.I64n(6000000) + 1
		case 2:
			ts = s*(1+r.I64n(6000000)) - 1
		case 3:
			ts = r.I64n(4102444800) // up to 2100
		case 4:
			ts = -r.I64n(100000) // outside the property's domain, still compared model vs code
		default:
			ts = 1700000000 + r.I64n(86400*30)
		}
		cls := "bints:in-domain"
		if ts < 0 {
			cls = "bints:negative-ts"
		}
		cs = append(cs, Case{Line: fmt.Sprintf("C13 bints %d %d", ts, s*1000000000), Class: cls, NonTrivial: ts >= 0 && ts%s != 0})
	}
	for i := 0; i < n/2; i++ {
		var d int64
		switch r.Intn(5) {
		case 0:
			d = (1 + r.I64n(86400)) * 1e9
		case 1:
			d = (1 + r.I64n(86400*3650)) * 1e9
		case 2:
			d = 288 * 300 * 1e9 * (1 + r.I64n(50))
		case 3:
			d = 288*300*1e9*(1+r.I64n(50)) + 1e9
		default:
			d = r.I64n(1 << 50) // arbitrary nanoseconds
		}
		res := int64(300e9)
		if r.Chance(1, 6) {
			res = Pick(r, []int64{1e9, 60e9, 600e9, 3600e9, 86400e9})
		}
		cs = append(cs, Case{Line: fmt.Sprintf("C13 calc %d %d", res, d), Class: "calc", NonTrivial: res == 300e9 && d%1e9 == 0 && d > 0})
	}
	for i := 0; i < n/2; i++ {
		s := pickBin()
		base := 1700000000 - 1700000000%s + s*r.I64n(3)
		nrows := r.Intn(40)
		if tier == "thorough" && r.Chance(1, 20) {
			nrows = 200 + r.Intn(300)
		}
		nkeys := 1 + r.Intn(6)
		var rows []string
		seen := map[string]bool{}
		merges := 0
		for j := 0; j < nrows; j++ {
			ts := "z"
			var bin int64 = -1
			if !r.Chance(1, 15) {
				t := base + r.I64n(3*s+1)
				if r.Chance(1, 4) {
					t = base + s*r.I64n(4) // exactly on a bin boundary
				}
				ts = strconv.FormatInt(t, 10)
				bin = (t + s - 1) / s * s
				if r.Chance(1, 3) {
					ts += Pick(r, []string{"u", "f"}) // same instant, another location
				}
			}
			key := r.Intn(nkeys)*7 + r.Intn(2)
			k := fmt.Sprintf("%d/%d", bin, key)
			if seen[k] {
				merges++
			}
			seen[k] = true
			rows = append(rows, fmt.Sprintf("%s:%d:%d:%d:%d:%d", ts, key, r.I64n(1<<40), r.I64n(1<<40), r.I64n(1<<30), r.I64n(1<<30)))
		}
		cs = append(cs, Case{Line: fmt.Sprintf("C13 bintime %d %s", s*1000000000, listField(rows)), Class: fmt.Sprintf("bintime:merges>0=%v", merges > 0), NonTrivial: merges > 0})
		if s != 300 && len(rows) > 0 && r.Chance(1, 2) {
			// the same rows through Statement.PostProcess with a row limit between the number of rows after
			// binning and the number of rows before (or above)
			binned := len(rows) - merges
			limit := binned + r.Intn(merges+2)
			cs = append(cs, Case{Line: fmt.Sprintf("C13 pp %d %d %s", s*1000000000, limit, listField(rows)), Class: fmt.Sprintf("postprocess:limit-below-raw=%v", limit < len(rows)), NonTrivial: limit < len(rows)})
		}
	}
	return cs
}

func init() {
	register(&Prop{
		ID:   "C13",
		Rule: "seeded: BinTimestamp on aligned/off-by-one/random/negative timestamps x bin sizes (5m..7d, random multiples of 5m); CalcTimeBinSize on whole-second and arbitrary durations; BinTime on <=40 (thorough <=500) rows over <=12 keys within 3 bins (1 in 4 timestamps exactly on a bin boundary, 1 in 3 in another *time.Location — UTC or a fixed offset — than the others); the same rows through Statement.PostProcess (binning, then row limit) with a limit between the number of rows after and before binning. Non-trivial: bints with ts>=0 not aligned; calc within the auto-size domain; bintime where at least two rows merge. Distinct = distinct case lines.",
		Gen:  c13Gen,
		Run:  c13Run,
	})
}
