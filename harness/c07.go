//go:build verif_all || verif_c07

package main

// C07 — every compressor restores exactly the bytes it was given.
//
// One case = Compress(data, buf, dst) on a fresh encoder, then Decompress(in, out, src) on the bytes
// that reached the writer, through the REAL encoder.Encoder implementations. The wrappers around the
// system libraries (cgo) and around the pure-Go libraries are selected by build constraints, so the
// harness builds ITSELF in both configurations (CGO_ENABLED=1 and =0) on every run and serves every case
// from a child process of the matching build (`__child c07srv`, line protocol on stdin/stdout). A child
// that dies while serving a case (a crash recover() cannot catch, e.g. SIGSEGV inside a C library) is
// reported as `c=crash` and restarted.

import (
	"bufio"
	"bytes"
	"errors"
	"fmt"
	"io"
	"os"
	"os/exec"
	"path/filepath"
	"runtime/debug"
	"strconv"
	"strings"
	"sync"

	"github.com/els0r/goProbe/v4/pkg/goDB/encoder"
	"github.com/els0r/goProbe/v4/pkg/goDB/encoder/encoders"
)

// ---------------------------------------------------------------- build configurations

// c07OwnCfg: "cgo" when this binary links the system libraries, "nocgo" otherwise
func c07OwnCfg() string {
	if bi, ok := debug.ReadBuildInfo(); ok {
		for _, s := range bi.Settings {
			if s.Key == "CGO_ENABLED" {
				if s.Value == "1" {
					return "cgo"
				}
				return "nocgo"
			}
		}
	}
	return "cgo"
}

func c07HarnessSrc() string {
	if r := os.Getenv("VERIF_ROOT"); r != "" {
		return filepath.Join(r, "harness")
	}
	exe, _ := os.Executable()
	return filepath.Join(filepath.Dir(filepath.Dir(exe)), "harness")
}

func c07OutDir() string {
	for i, a := range os.Args {
		if a == "-out" && i+1 < len(os.Args) {
			return os.Args[i+1]
		}
		if strings.HasPrefix(a, "-out=") {
			return a[5:]
		}
	}
	return os.TempDir()
}

type c07Child struct {
	bin string
	cmd *exec.Cmd
	in  *bufio.Writer
	out *bufio.Reader
}

func (c *c07Child) start() error {
	c.cmd = exec.Command(c.bin, "__child", "c07srv")
	stdin, _ := c.cmd.StdinPipe()
	stdout, _ := c.cmd.StdoutPipe()
	if os.Getenv("VERIF_DEBUG") != "" {
		c.cmd.Stderr = os.Stderr
	}
	if err := c.cmd.Start(); err != nil {
		return err
	}
	c.in, c.out = bufio.NewWriterSize(stdin, 1<<20), bufio.NewReaderSize(stdout, 1<<20)
	return nil
}

func (c *c07Child) stop() {
	if c.cmd != nil && c.cmd.Process != nil {
		_ = c.cmd.Process.Kill()
		_, _ = c.cmd.Process.Wait()
	}
}

// ask sends one request line; ok=false when the server process died while serving it (a crash of
// the real code that recover() cannot catch, e.g. SIGSEGV inside a C library) — it is restarted
func (c *c07Child) ask(line string) (string, bool) {
	fail := func() (string, bool) {
		c.stop()
		_ = c.start()
		return "", false
	}
	if _, err := c.in.WriteString(line + "\n"); err != nil {
		return fail()
	}
	if err := c.in.Flush(); err != nil {
		return fail()
	}
	s, err := c.out.ReadString('\n')
	if err != nil {
		return fail()
	}
	return strings.TrimRight(s, "\n"), true
}

// per configuration a small pool of server processes of the harness built in that configuration
var c07Pool = map[string]chan *c07Child{}
var c07All []*c07Child
var c07Mu sync.Mutex

const c07PoolSize = 2

func c07Ask(cfg, line string) (string, bool) {
	pool, ok := c07Pool[cfg]
	if !ok {
		return "no-such-configuration", true
	}
	c := <-pool
	defer func() { pool <- c }()
	return c.ask(line)
}

func c07Init(string) error {
	var wg sync.WaitGroup
	errs := make([]error, 2)
	for i, cfg := range []string{"cgo", "nocgo"} {
		wg.Add(1)
		go func() {
			defer wg.Done()
			cgoEnabled := "1"
			if cfg == "nocgo" {
				cgoEnabled = "0"
			}
			bin := filepath.Join(c07OutDir(), "verifharness_C07_"+cfg)
			cmd := exec.Command("go", "build", "-tags", "verif,verif_c07", "-o", bin, ".")
			cmd.Dir = c07HarnessSrc()
			cmd.Env = append(os.Environ(), "GOFLAGS=-mod=mod", "GOPROXY=off", "GOWORK=off", "CGO_ENABLED="+cgoEnabled)
			if o, err := cmd.CombinedOutput(); err != nil {
				errs[i] = fmt.Errorf("building the %s harness: %v: %s", cfg, err, o)
				return
			}
			pool := make(chan *c07Child, c07PoolSize)
			for k := 0; k < c07PoolSize; k++ {
				c := &c07Child{bin: bin}
				if err := c.start(); err != nil {
					errs[i] = err
					return
				}
				if got, _ := c.ask("cfg"); got != cfg {
					errs[i] = fmt.Errorf("the %s harness reports configuration %q", cfg, got)
					return
				}
				pool <- c
				c07Mu.Lock()
				c07All = append(c07All, c)
				c07Mu.Unlock()
			}
			c07Mu.Lock()
			c07Pool[cfg] = pool
			c07Mu.Unlock()
		}()
	}
	wg.Wait()
	return errors.Join(errs...)
}

func c07Done() {
	for _, c := range c07All {
		c.stop()
	}
}

func c07Serve([]string) int {
	in := bufio.NewReaderSize(os.Stdin, 1<<20)
	out := bufio.NewWriterSize(os.Stdout, 1<<20)
	for {
		line, err := in.ReadString('\n')
		f := strings.Fields(line)
		if len(f) > 0 {
			var res string
			switch f[0] {
			case "cfg":
				res = c07OwnCfg()
			case "ref":
				lvl, _ := strconv.Atoi(f[2])
				res = hexBytes(c07Ref(f[1], lvl, unhex(f[3])))
			case "run":
				res = c07Exec(f[1:])
			default:
				res = "bad-request"
			}
			fmt.Fprintln(out, res)
			out.Flush()
		}
		if err != nil {
			return 0
		}
	}
}

// ---------------------------------------------------------------- one case on the real code

func c07EncType(name string) encoders.Type {
	switch name {
	case "null":
		return encoders.EncoderTypeNull
	case "lz4":
		return encoders.EncoderTypeLZ4
	default:
		return encoders.EncoderTypeZSTD
	}
}

func c07New(name string, level int) encoder.Encoder {
	e, err := encoder.New(c07EncType(name))
	if err != nil {
		panic(err)
	}
	if level > 0 { // as GPFile does: level 0 = the encoder's default
		e.SetLevel(level)
	}
	return e
}

// c07Ref: what the library emits for data (nil scratch buffer, fresh encoder)
func c07Ref(name string, level int, data []byte) []byte {
	e := c07New(name, level)
	defer e.Close()
	var b bytes.Buffer
	if _, err := e.Compress(data, nil, &b); err != nil {
		panic(err)
	}
	return b.Bytes()
}

// collecting writer with an optional limit (lim < 0: none); every call is recorded
type c07Writer struct {
	lim int
	b   []byte
}

var errC07WriterFull = errors.New("writer full")

func (w *c07Writer) Write(p []byte) (int, error) {
	if w.lim >= 0 && len(w.b)+len(p) > w.lim {
		room := w.lim - len(w.b)
		w.b = append(w.b, p[:room]...)
		return room, errC07WriterFull
	}
	w.b = append(w.b, p...)
	return len(p), nil
}

// file-like reader: Read(empty) = (0, nil); at the end (0, io.EOF); otherwise as much as fits
type c07Reader struct{ b []byte }

func (r *c07Reader) Read(p []byte) (int, error) {
	if len(p) == 0 {
		return 0, nil
	}
	if len(r.b) == 0 {
		return 0, io.EOF
	}
	n := copy(p, r.b)
	r.b = r.b[n:]
	return n, nil
}

func c07Scratch(spec string) []byte {
	p := strings.Split(spec, ":")
	l, _ := strconv.Atoi(p[0])
	c, _ := strconv.Atoi(p[1])
	fill, _ := strconv.Atoi(p[2])
	if c == 0 {
		if fill == 0 {
			return nil
		}
		return []byte{}
	}
	b := make([]byte, c)
	for i := range b {
		b[i] = byte(fill + i)
	}
	return b[:l]
}

func c07Filled(n int, v byte) []byte {
	b := make([]byte, n)
	for i := range b {
		b[i] = v
	}
	return b
}

func c07Exec(f []string) string {
	encName := f[1]
	level, _ := strconv.Atoi(f[2])
	warm := f[3] == "1"
	data := unhex(f[4])
	buf := c07Scratch(f[5])
	dstSpec, inSpec, outSpec := f[6], f[7], f[8]
	trail, _ := strconv.Atoi(f[9])

	e := c07New(encName, level)
	defer e.Close()
	if warm {
		// the encoder object has been used before, as in a GPFile that writes and reads many blocks
		w := &c07Writer{lim: -1}
		pat := bytes.Repeat([]byte("goProbe warm-up block "), 50)
		// (half of the time with a scratch buffer that is too small for the warm-up block, so that an
		// encoder that keeps a buffer of its own has sized it for a SMALLER input than the one that follows)
		scratch := make([]byte, 8192)
		if len(data)%2 == 1 {
			scratch = make([]byte, 16)
		}
		if _, err := e.Compress(pat, scratch, w); err == nil {
			_, _ = e.Decompress(make([]byte, len(w.b)), make([]byte, len(pat)), &c07Reader{b: w.b})
		}
	}

	var w *c07Writer
	var dst io.Writer // stays a nil interface for "nil"
	switch {
	case dstSpec == "buf":
		w = &c07Writer{lim: -1}
		dst = w
	case strings.HasPrefix(dstSpec, "lim"):
		k, _ := strconv.Atoi(dstSpec[3:])
		w = &c07Writer{lim: k}
		dst = w
	}
	var n int
	var err error
	panicked := func() (p bool) {
		defer func() {
			if r := recover(); r != nil {
				p = true
			}
		}()
		n, err = e.Compress(data, buf, dst)
		return false
	}()
	if panicked {
		return "c=panic"
	}
	var emitted []byte
	if w != nil {
		emitted = w.b
	}
	c := "ok"
	if err != nil {
		c = "err:compress"
		if errors.Is(err, errC07WriterFull) {
			c = "err:write"
		}
	}
	res := fmt.Sprintf("c=%s n=%d em=%s", c, n, hexBytes(emitted))
	if dstSpec != "buf" || err != nil {
		return res
	}

	src := append(append([]byte{}, emitted...), c07Filled(trail, 0xAB)...)
	inLen := len(emitted)
	switch {
	case inSpec == "e":
		inLen = 0
	case strings.HasPrefix(inSpec, "l"):
		k, _ := strconv.Atoi(inSpec[1:])
		inLen = len(src) + k
	}
	outLen := len(data)
	switch {
	case strings.HasPrefix(outSpec, "g"):
		k, _ := strconv.Atoi(outSpec[1:])
		outLen += k
	case strings.HasPrefix(outSpec, "s"):
		k, _ := strconv.Atoi(outSpec[1:])
		outLen -= k
		if outLen < 0 {
			outLen = 0
		}
	}
	in, out := make([]byte, inLen), c07Filled(outLen, 0xEE)
	var dn int
	panicked = func() (p bool) {
		defer func() {
			if r := recover(); r != nil {
				p = true
			}
		}()
		dn, err = e.Decompress(in, out, &c07Reader{b: src})
		return false
	}()
	switch {
	case panicked:
		return res + " d=panic"
	case err == io.EOF:
		return res + " d=err:eof"
	case err != nil && strings.Contains(err.Error(), "incorrect number of bytes read"):
		return res + " d=err:short-read"
	case err != nil:
		return res + " d=err:decompress"
	}
	var restored []byte
	if dn <= len(out) {
		restored = out[:dn]
	}
	return res + fmt.Sprintf(" d=ok dn=%d out=%s", dn, hexBytes(restored))
}

func c07Run(f []string) string {
	res, ok := c07Ask(f[0], "run "+strings.Join(f, " "))
	if !ok {
		return "c=crash"
	}
	return res
}

func c07RefFor(cfg, enc string, level int, data []byte) []byte {
	if enc == "null" {
		return nil
	}
	res, ok := c07Ask(cfg, fmt.Sprintf("ref %s %d %s", enc, level, hexBytes(data)))
	if !ok {
		return nil // the library call crashed the process: the case itself will report it
	}
	return unhex(res)
}

// ---------------------------------------------------------------- generator

func c07Data(r *Rand, n int) ([]byte, string) {
	b := make([]byte, n)
	switch r.Intn(5) {
	case 0:
		return b, "zeros"
	case 1:
		copy(b, r.Bytes(n))
		return b, "random"
	case 2:
		copy(b[n/2:], r.Bytes(n-n/2))
		return b, "half"
	case 3:
		for i := range b {
			b[i] = byte(i % 7)
		}
		return b, "periodic"
	default:
		// flow-column-like: small values with occasional outliers
		for i := range b {
			if r.Chance(1, 9) {
				b[i] = byte(r.U64())
			} else {
				b[i] = byte(r.Intn(4))
			}
		}
		return b, "sparse"
	}
}

func c07Bound(enc string, n int) int {
	if enc == "lz4" {
		return n + n/255 + 16
	}
	b := n + n/256
	if n < 131072 {
		b += (131072 - n) / 2048
	}
	return b
}

func c07Gen(r *Rand, tier string) []Case {
	small := []int{0, 0, 1, 2, 15, 16, 17, 64, 255, 256, 1000, 4095, 4096, 4097, 8191, 8192, 8193}
	mid := []int{12000, 20000, 65535, 65536, 70000}
	big := []int{131071, 131072, 200000, 300000, 524288}
	nSmall, nMid, nBig := 500, 40, 12
	if tier == "thorough" {
		nSmall, nMid, nBig = 20000, 1200, 160
	}
	var cs []Case
	gen := func(sizes []int, count int, class string) {
		for i := 0; i < count; i++ {
			cfg := Pick(r, []string{"cgo", "nocgo"})
			enc := Pick(r, []string{"lz4", "lz4", "zstd", "zstd", "zstd", "null"})
			level := 0
			switch enc {
			case "lz4":
				level = Pick(r, []int{0, 1, 3, 6, 9, 12})
			case "zstd":
				level = Pick(r, []int{0, 1, 3, 6, 11, 19})
				if class != "small" && tier != "thorough" && level > 11 {
					level = 11
				}
			}
			n := Pick(r, sizes)
			if r.Chance(1, 6) {
				n = r.Intn(n + 1)
			}
			data, kind := c07Data(r, n)
			ref := c07RefFor(cfg, enc, level, data)
			bound := c07Bound(enc, n)
			// scratch buffer
			var scratch, sclass string
			fill := 1 + r.Intn(255)
			switch r.Intn(10) {
			case 0:
				scratch, sclass = "0:0:0", "nil"
			case 1:
				scratch, sclass = "0:0:1", "empty"
			case 2, 3:
				scratch, sclass = fmt.Sprintf("8192:8192:%d", fill), "len8192" // what GPFile passes
			case 4:
				scratch, sclass = fmt.Sprintf("%d:%d:%d", 1+r.Intn(4), 5, fill), "len>0,cap-small"
			case 5:
				c := bound + Pick(r, []int{-1, 0, 1})
				if c < 1 {
					c = 1
				}
				scratch, sclass = fmt.Sprintf("%d:%d:%d", r.Intn(c+1), c, fill), "cap~bound"
			case 6:
				scratch, sclass = fmt.Sprintf("0:%d:%d", 1<<20, fill), "len0,cap-huge"
			case 7:
				scratch, sclass = fmt.Sprintf("%d:%d:%d", 1<<20, 1<<20, fill), "len-huge"
			case 8:
				c := len(ref) + Pick(r, []int{-1, 0, 1, 7})
				if c < 1 {
					c = 1
				}
				scratch, sclass = fmt.Sprintf("%d:%d:%d", c, c, fill), "len~output"
			default:
				c := 1 + r.Intn(2*n+64)
				scratch, sclass = fmt.Sprintf("%d:%d:%d", r.Intn(c+1), c, fill), "random"
			}
			dst, inm, outm := "buf", "x", "x"
			switch r.Intn(14) {
			case 0:
				dst = "nil"
			case 1:
				el := len(ref)
				if enc == "null" {
					el = n
				}
				k := Pick(r, []int{0, 1, 5, el / 2, el - 1, el, el + 1})
				if k < 0 {
					k = 0
				}
				dst = "lim" + strconv.Itoa(k)
			case 2:
				if enc != "null" {
					inm = "l" + strconv.Itoa(1+r.Intn(9))
				}
			case 3:
				if enc != "null" && cfg == "cgo" {
					inm = "e"
				}
			case 4, 5:
				outm = "g" + strconv.Itoa(1+r.Intn(40))
			case 6:
				if n > 0 {
					outm = "s" + strconv.Itoa(1+r.Intn(min(n, 9)))
				}
			}
			trail := Pick(r, []int{0, 0, 1, 100})
			if inm != "x" && trail == 0 && r.Bool() {
				trail = 3
			}
			line := fmt.Sprintf("C07 %s %s %d %s %s %s %s %s %s %d %s", cfg, enc, level, b2s(r.Chance(1, 4)), hexBytes(data), scratch, dst, inm, outm, trail, hexBytes(ref))
			lenPos := !strings.HasPrefix(scratch, "0:")
			cs = append(cs, Case{Line: line,
				Class:      fmt.Sprintf("%s/%s:%s:%s:scratch=%s:dst=%s", cfg, enc, class, kind, sclass, strings.TrimRight(dst, "0123456789")),
				NonTrivial: lenPos && dst == "buf" && inm == "x" && outm == "x"})
		}
	}
	gen(small, nSmall, "small")
	gen(mid, nMid, "mid")
	gen(big, nBig, "big")
	return cs
}

func init() {
	children["c07srv"] = c07Serve
	register(&Prop{
		ID: "C07",
		Rule: "seeded calls Compress(data, buf, dst) + Decompress(in, out, src) through the real null / lz4 / zstd encoders, " +
			"in the cgo build and in a CGO_ENABLED=0 build of the same harness (child process): lz4 levels {0,1,3,6,9,12}, zstd {0,1,3,6,11,19}; " +
			"inputs of 0..8193 bytes (boundaries 0,1,15-17,255/256,4095-4097,8191-8193), 12k-70k and 128Ki-512Ki, contents zeros / random / half-random / periodic / sparse; " +
			"scratch buffers nil, empty, len=cap=8192 (what GPFile passes), len>0 with cap 5, cap = bound-1/bound/bound+1, cap 1Mi with len 0 and len 1Mi, len = output size +-1, random; " +
			"dst an unbounded buffer (12/14), nil, or a writer failing after k bytes; in/out exact, in too long or empty, out longer or shorter; 0-100 trailing bytes in the source; every 4th encoder object pre-used. " +
			"The library output for each input (nil scratch, fresh encoder) is handed to the model; n, the emitted bytes, the decompressed length and bytes are compared with the model and judged by the spec. " +
			"Non-trivial: scratch buffer of positive length, full writer, properly sized in/out. Distinct = distinct case lines.",
		Gen:      c07Gen,
		Run:      c07Run,
		Init:     c07Init,
		Done:     c07Done,
		Parallel: 4,
	})
}
