//go:build verif_all || verif_c11

package main

import (
	"context"
	"fmt"
	"io"
	"os"
	"path/filepath"
	"runtime"
	"sort"
	"strconv"
	"strings"
	"sync"
	"sync/atomic"
	"time"

	"github.com/els0r/goProbe/v4/pkg/goDB/encoder/encoders"
	"github.com/els0r/goProbe/v4/pkg/goDB/engine"
	"github.com/els0r/goProbe/v4/pkg/query"
	"github.com/els0r/goProbe/v4/pkg/results"
	"github.com/els0r/goProbe/v4/pkg/types"
)

// C11 — query results do not depend on parallelism or memory mode, and queries end.
//
// A case is a write history (every write-out goes through the real DBWriter into a temp database),
// one query and a SET of configurations: worker counts (engine.numProcessingUnits, set through the
// verif hook) x low-memory on/off. The query is run through the real engine.QueryRunner.Run once
// per configuration, each run under a scheduling perturbation derived from <sched> (GOMAXPROCS of the
// run, goroutines that spin on runtime.Gosched, a goroutine that flips GOMAXPROCS while the query runs)
// and under a watchdog: a run that does not return within the time limit is reported as `hang`.
//
// wire:  C11 q <attrs> <cond> <first> <last> <ifaces> <workers> <lowmem> <sched> <history>
//   attrs   = non-empty comma list out of sip,dip,dport,proto,time (the query type; the interface is
//             always a label of a row)
//   cond    = "-" | proto.eq.<n> | dport.eq.<n>
//   ifaces  = comma list of interface names, or "any"
//   workers = comma list of worker counts (1..16)
//   lowmem  = comma list out of 0,1
//   sched   = seed of the scheduling perturbation (and of the model's scheduler)
//   history = write-outs separated by ';' in write order, each
//               iface|ts|drops|flow,flow,…                one write-out
//               iface|ts|drops|flow,flow,…|step|count     `count` write-outs at ts, ts+step, … with the same flows
// out:   rows=<row,…>|totals=br:bs:pr:ps|hits=n|stats=workloads:dirs:blocks:corrupt|cfgs=<k>
//          when all k configurations returned the same answer (rows sorted; row =
//          iface@<ts or ->/<sip or ->:<dip or ->:<dport or ->:<proto or ->:br:bs:pr:ps), or err:<class>|cfgs=<k>
//        differ:<cfg>=<answer>;<cfg>=<answer>   two configurations with different answers (cfg = w<n>l<0|1>)
//        hang:<cfg>                              the first configuration that did not return in time
//
// The byte statistics of a result (bytes loaded / decompressed) are compared between the
// configurations as well (they are a function of the database, not of the schedule) but are not
// printed, since the model does not know compressed sizes; a difference only there is reported as
// differ-bytes:<cfg>=<loaded:decompressed>;<cfg>=<…>.

type c11WriteOut struct {
	Iface string
	TS    int64
	Drops uint64
	Flows []Flow
	Step  int64
	Count int
}

func (w c11WriteOut) String() string {
	s := fmt.Sprintf("%s|%d|%d|%s", w.Iface, w.TS, w.Drops, flowsField(w.Flows))
	if w.Count > 0 {
		s += fmt.Sprintf("|%d|%d", w.Step, w.Count)
	}
	return s
}

func c11ParseHistory(s string) ([]c11WriteOut, error) {
	var out []c11WriteOut
	for _, ws := range splitSemi(s) {
		p := strings.Split(ws, "|")
		if (len(p) != 4 && len(p) != 6) || p[0] == "" {
			return nil, fmt.Errorf("bad write-out %q", ws)
		}
		ts, err := strconv.ParseInt(p[1], 10, 64)
		if err != nil {
			return nil, err
		}
		dr, err := strconv.ParseUint(p[2], 10, 64)
		if err != nil {
			return nil, err
		}
		w := c11WriteOut{Iface: p[0], TS: ts, Drops: dr, Flows: parseFlows(p[3])}
		if len(p) == 6 {
			if w.Step, err = strconv.ParseInt(p[4], 10, 64); err != nil {
				return nil, err
			}
			if w.Count, err = strconv.Atoi(p[5]); err != nil || w.Count < 1 {
				return nil, fmt.Errorf("bad repeat %q", ws)
			}
		}
		out = append(out, w)
	}
	return out, nil
}

// ------------------------------------------------------------------------------ databases

var (
	c11WorkDir string
	c11Mu      sync.Mutex
	c11DBs     = map[string]*c11DB{}
	c11Limit   = 120 * time.Second
)

type c11DB struct {
	path string
	err  error
}

// c11Database writes the history through the real DBWriter (once per distinct history)
func c11Database(hist string) (string, error) {
	c11Mu.Lock()
	defer c11Mu.Unlock()
	if d := c11DBs[hist]; d != nil {
		return d.path, d.err
	}
	d := &c11DB{path: filepath.Join(c11WorkDir, fmt.Sprintf("db%d", len(c11DBs)))}
	c11DBs[hist] = d
	ws, err := c11ParseHistory(hist)
	if err != nil {
		d.err = err
		return d.path, d.err
	}
	if d.err = os.MkdirAll(d.path, 0o755); d.err != nil {
		return d.path, d.err
	}
	for _, w := range ws {
		n := w.Count
		if n == 0 {
			n = 1
		}
		for i := 0; i < n; i++ {
			if err := writeOut(d.path, w.Iface, w.TS+int64(i)*w.Step, w.Drops, w.Flows, encoders.EncoderTypeLZ4); err != nil {
				d.err = err
				return d.path, d.err
			}
		}
	}
	return d.path, nil
}

// ------------------------------------------------------------------------------ one run

func c11Has(attrs []string, a string) bool {
	for _, x := range attrs {
		if x == a {
			return true
		}
	}
	return false
}

// c11Render returns the canonical answer and, separately, the byte statistics
func c11Render(res *results.Result, attrs []string) (string, string) {
	if res == nil {
		return "err:nil-result", ""
	}
	if res.Status.Code != types.StatusOK && res.Status.Code != types.StatusEmpty && res.Status.Code != types.StatusMissingData {
		return "err:status-" + esc(string(res.Status.Code)), ""
	}
	sel := func(a, v string) string {
		if c11Has(attrs, a) {
			return v
		}
		return "-"
	}
	var rows []string
	for _, r := range res.Rows {
		rows = append(rows, fmt.Sprintf("%s@%s/%s:%s:%s:%s:%d:%d:%d:%d", r.Labels.Iface,
			sel("time", strconv.FormatInt(r.Labels.Timestamp.Unix(), 10)),
			sel("sip", addrHex(r.Attributes.SrcIP)), sel("dip", addrHex(r.Attributes.DstIP)),
			sel("dport", strconv.Itoa(int(r.Attributes.DstPort))), sel("proto", strconv.Itoa(int(r.Attributes.IPProto))),
			r.Counters.BytesRcvd, r.Counters.BytesSent, r.Counters.PacketsRcvd, r.Counters.PacketsSent))
	}
	sort.Strings(rows)
	t, s := res.Summary.Totals, res.Summary.Stats
	out := fmt.Sprintf("rows=%s|totals=%d:%d:%d:%d|hits=%d", listField(rows), t.BytesRcvd, t.BytesSent, t.PacketsRcvd, t.PacketsSent, res.Summary.Hits.Total)
	bytes := ""
	if s != nil {
		out += fmt.Sprintf("|stats=%d:%d:%d:%d", s.Workloads, s.DirectoriesProcessed, s.BlocksProcessed, s.BlocksCorrupted)
		bytes = fmt.Sprintf("%d:%d", s.BytesLoaded, s.BytesDecompressed)
	} else {
		out += "|stats=nil"
	}
	return out, bytes
}

func c11ErrClass(err error) string {
	s := err.Error()
	switch {
	case strings.Contains(s, "no interfaces provided"):
		return "noiface"
	case strings.Contains(s, "query preparation failed"), strings.Contains(s, "conditions parsing error"):
		return "prepare"
	}
	return errClass(err)
}

type c11Answer struct{ out, bytes string }

// c11RunOnce runs the query with `workers` worker goroutines per interface under the perturbation
// drawn from r; ok=false when the run did not return within the limit.
func c11RunOnce(db string, attrs []string, cond string, first, last int64, ifaces string, workers int, lowmem bool, r *Rand) (c11Answer, bool) {
	ncpu := runtime.NumCPU()
	procs := Pick(r, []int{1, 1, 2, 3, 4, 8, ncpu})
	if procs > ncpu {
		procs = ncpu
	}
	spinners := Pick(r, []int{0, 0, 1, 3, 8})
	flip := r.Chance(1, 3)
	flipTo := 1 + r.Intn(ncpu)
	flipEvery := time.Duration(50+r.Intn(2000)) * time.Microsecond

	oldProcs := runtime.GOMAXPROCS(procs)
	oldWorkers := engine.VerifSetNumProcessingUnits(workers)
	var stop atomic.Bool
	var wg sync.WaitGroup
	for i := 0; i < spinners; i++ {
		wg.Add(1)
		go func() {
			defer wg.Done()
			for !stop.Load() {
				runtime.Gosched()
			}
		}()
	}
	if flip {
		wg.Add(1)
		go func() {
			defer wg.Done()
			for k := 0; !stop.Load(); k++ {
				if k%2 == 0 {
					runtime.GOMAXPROCS(flipTo)
				} else {
					runtime.GOMAXPROCS(procs)
				}
				time.Sleep(flipEvery)
			}
		}()
	}
	defer func() {
		stop.Store(true)
		wg.Wait()
		engine.VerifSetNumProcessingUnits(oldWorkers)
		runtime.GOMAXPROCS(oldProcs)
	}()

	opts := []query.Option{
		query.WithFirst(strconv.FormatInt(first, 10)), query.WithLast(strconv.FormatInt(last, 10)),
		query.WithNumResults(1 << 40), query.WithFormat("json"), query.WithMaxMemPct(90),
	}
	if cond != "" {
		opts = append(opts, query.WithCondition(cond))
	}
	a := query.NewArgs(strings.Join(attrs, ","), ifaces, opts...).AddOutputs(io.Discard)
	a.LowMem = lowmem

	done := make(chan c11Answer, 1)
	go func() {
		defer func() {
			if rec := recover(); rec != nil {
				done <- c11Answer{out: "panic"}
			}
		}()
		ctx, cancel := context.WithTimeout(context.Background(), 4*c11Limit)
		defer cancel()
		res, err := engine.NewQueryRunner(db).Run(ctx, a)
		if err != nil {
			if os.Getenv("VERIF_DEBUG") != "" {
				fmt.Fprintf(os.Stderr, "C11: %v\n", err)
			}
			done <- c11Answer{out: "err:" + c11ErrClass(err)}
			return
		}
		out, bytes := c11Render(res, attrs)
		done <- c11Answer{out, bytes}
	}()
	select {
	case ans := <-done:
		return ans, true
	case <-time.After(c11Limit):
		// the query goroutines stay blocked for the rest of the process (nothing can cancel a
		// send on a full channel); they hold no CPU
		return c11Answer{}, false
	}
}

func c11CondText(c string) (string, bool) {
	if c == "-" {
		return "", true
	}
	p := strings.Split(c, ".")
	if len(p) != 3 || p[1] != "eq" || (p[0] != "proto" && p[0] != "dport") {
		return "", false
	}
	if _, err := strconv.ParseUint(p[2], 10, 16); err != nil {
		return "", false
	}
	return p[0] + " = " + p[2], true
}

func c11Run(f []string) string {
	if len(f) != 10 || f[0] != "q" {
		return "bad-op"
	}
	attrs := strings.Split(f[1], ",")
	cond, ok := c11CondText(f[2])
	first, err1 := strconv.ParseInt(f[3], 10, 64)
	last, err2 := strconv.ParseInt(f[4], 10, 64)
	sched, err3 := strconv.ParseUint(f[8], 10, 64)
	if !ok || err1 != nil || err2 != nil || err3 != nil {
		return "bad-args"
	}
	var workers []int
	for _, s := range splitList(f[6]) {
		n, err := strconv.Atoi(s)
		if err != nil || n < 1 || n > 64 {
			return "bad-args"
		}
		workers = append(workers, n)
	}
	var lowmem []bool
	for _, s := range splitList(f[7]) {
		if s != "0" && s != "1" {
			return "bad-args"
		}
		lowmem = append(lowmem, s == "1")
	}
	if len(workers) == 0 || len(lowmem) == 0 {
		return "bad-args"
	}
	db, err := c11Database(f[9])
	if err != nil {
		return "err:write-" + errClass(err)
	}
	r := NewRand(sched ^ 0xC11C11C11)
	type run struct {
		cfg string
		ans c11Answer
	}
	var runs []run
	for _, w := range workers {
		for _, lm := range lowmem {
			cfg := fmt.Sprintf("w%dl%s", w, b2s(lm))
			ans, ok := c11RunOnce(db, attrs, cond, first, last, f[5], w, lm, r)
			if !ok {
				return "hang:" + cfg
			}
			runs = append(runs, run{cfg, ans})
		}
	}
	for _, x := range runs[1:] {
		if x.ans.out != runs[0].ans.out {
			return fmt.Sprintf("differ:%s=%s;%s=%s", runs[0].cfg, runs[0].ans.out, x.cfg, x.ans.out)
		}
	}
	for _, x := range runs[1:] {
		if x.ans.bytes != runs[0].ans.bytes {
			return fmt.Sprintf("differ-bytes:%s=%s;%s=%s", runs[0].cfg, runs[0].ans.bytes, x.cfg, x.ans.bytes)
		}
	}
	return fmt.Sprintf("%s|cfgs=%d", runs[0].ans.out, len(runs))
}

// ------------------------------------------------------------------------------ generator

const c11Day0 = int64(1699920000) // 2023-11-14 00:00:00 UTC

func c11Ints(xs []int) string {
	var s []string
	for _, x := range xs {
		s = append(s, strconv.Itoa(x))
	}
	return strings.Join(s, ",")
}

// c11GenDays draws the write-outs of one interface over `ndays` consecutive UTC days starting at
// day index d0: per day 1-3 blocks (mostly one), 0-maxFlows flows per block out of the small
// universe of genFlows, so that the same flow key occurs in many days (and therefore in many
// workloads: a query without the time attribute has to ADD counters across partial results).
// Runs of days with identical content are emitted in the compact repeat form.
func c11GenDays(r *Rand, iface string, d0, ndays, maxFlows int, compact bool) []c11WriteOut {
	var hist []c11WriteOut
	for d := 0; d < ndays; {
		day := c11Day0 + int64(d0+d)*86400
		if compact && ndays-d >= 8 && r.Chance(3, 4) {
			run := 8 + r.Intn(ndays-d-7)
			if run > 700 {
				run = 700
			}
			n := 1 + r.Intn(maxFlows)
			if r.Chance(1, 8) {
				n = 0
			}
			hist = append(hist, c11WriteOut{Iface: iface, TS: day + 300*int64(1+r.Intn(280)), Drops: uint64(r.Intn(3)), Flows: genFlows(r, n), Step: 86400, Count: run})
			d += run
			continue
		}
		if ndays > 3 && r.Chance(1, 12) {
			d++ // a day without data
			continue
		}
		nb := Pick(r, []int{1, 1, 1, 2, 3})
		ts := day + 300*int64(r.Intn(200))
		if r.Chance(1, 8) {
			ts = day
		}
		for b := 0; b < nb && ts < day+86400; b++ {
			n := r.Intn(maxFlows + 1)
			hist = append(hist, c11WriteOut{Iface: iface, TS: ts, Drops: uint64(r.Intn(3)), Flows: genFlows(r, n)})
			ts += 300 * int64(1+r.Intn(40))
		}
		d++
	}
	return hist
}

func c11Stamps(hist []c11WriteOut) []int64 {
	var st []int64
	for _, w := range hist {
		st = append(st, w.TS)
		if w.Count > 1 {
			st = append(st, w.TS+int64(w.Count-1)*w.Step, w.TS+int64(w.Count/2)*w.Step)
		}
	}
	return st
}

func c11GenRange(r *Rand, stamps []int64) (int64, int64) {
	if len(stamps) == 0 || r.Chance(1, 2) {
		return 1600000000, 2500000000
	}
	bound := func() int64 {
		s := Pick(r, stamps)
		switch r.Intn(7) {
		case 0, 1:
			return s
		case 2:
			return s - 1
		case 3:
			return s + 1
		case 4:
			return s - s%86400
		case 5:
			return s - s%86400 + 86399
		}
		return s + r.I64n(200000) - 100000
	}
	a, b := bound(), bound()
	if a > b {
		a, b = b, a
	}
	if r.Chance(1, 4) {
		a = 1600000000
	}
	if r.Chance(1, 4) {
		b = 2500000000
	}
	return a, b
}

func c11GenAttrs(r *Rand) string {
	switch r.Intn(8) {
	case 0, 1:
		return "sip,dip,dport,proto,time"
	case 2, 3, 4:
		return "sip,dip,dport,proto"
	case 5:
		return Pick(r, []string{"sip", "dip", "sip,dip", "sip,time"})
	case 6:
		return Pick(r, []string{"dport,proto", "proto", "dport"})
	}
	return Pick(r, []string{"time", "proto,time", "dip,dport"})
}

func c11Line(attrs, cond string, first, last int64, ifaces string, workers []int, lowmem string, sched uint64, hist []c11WriteOut) string {
	var hs []string
	for _, w := range hist {
		hs = append(hs, w.String())
	}
	return fmt.Sprintf("C11 q %s %s %d %d %s %s %s %d %s", attrs, cond, first, last, ifaces, c11Ints(workers), lowmem, sched, semiField(hs))
}

func c11NumDays(hist []c11WriteOut) int {
	days := map[string]bool{}
	for _, w := range hist {
		n := w.Count
		if n == 0 {
			n = 1
		}
		for i := 0; i < n; i++ {
			ts := w.TS + int64(i)*w.Step
			days[fmt.Sprintf("%s/%d", w.Iface, ts/86400)] = true
		}
	}
	return len(days)
}

func c11Gen(r *Rand, tier string) []Case {
	r = NewRand(r.U64() ^ 0x11c11c11c11)
	thorough := tier == "thorough"
	var cases []Case
	names := []string{"eth0", "eth1", "wlan0"}
	allWorkers := []int{1, 2, 3, 4, 5, 6, 7, 8, 9, 10, 11, 12, 13, 14, 15, 16}
	add := func(class string, hist []c11WriteOut, ifaces []string, nQ int, workers func() []int, big bool) {
		stamps := c11Stamps(hist)
		ndays := c11NumDays(hist)
		for q := 0; q < nQ; q++ {
			attrs := c11GenAttrs(r)
			if big && r.Chance(1, 2) {
				attrs = "sip,dip,dport,proto"
			}
			cond := "-"
			if r.Chance(1, 4) {
				cond = Pick(r, []string{"proto.eq.6", "proto.eq.17", "dport.eq.443", "dport.eq.53", "proto.eq.1"})
			}
			first, last := c11GenRange(r, stamps)
			if big && r.Chance(2, 3) {
				first, last = 1600000000, 2500000000
			}
			ifs := "any"
			switch r.Intn(5) {
			case 0:
				ifs = Pick(r, ifaces)
			case 1:
				ifs = strings.Join(ifaces, ",")
			case 2:
				if r.Chance(1, 4) {
					ifs = "nosuch0" // malformed: an interface the database does not have
				}
			}
			lowmem := "0,1"
			if big && !thorough {
				lowmem = Pick(r, []string{"0", "1"})
			}
			ws := workers()
			line := c11Line(attrs, cond, first, last, ifs, ws, lowmem, r.U64()%1000000, hist)
			// non-trivial: more than one workload for some interface (the fan-in merges at least
			// two partial results) and more than one configuration
			cases = append(cases, Case{Line: line, Class: class, NonTrivial: ndays > 32 && len(ws)*len(splitList(lowmem)) > 1})
		}
	}
	someWorkers := func(k int) func() []int {
		return func() []int {
			ws := []int{1}
			for len(ws) < k {
				w := Pick(r, allWorkers)
				dup := false
				for _, x := range ws {
					dup = dup || x == w
				}
				if !dup {
					ws = append(ws, w)
				}
			}
			sort.Ints(ws)
			return ws
		}
	}
	every := func() []int { return allWorkers }

	// small databases: 1-3 interfaces, up to ~100 days (0-4 workloads per interface), bulk-size boundaries
	nSmall, nQ := 10, 3
	if thorough {
		nSmall, nQ = 60, 4
	}
	for d := 0; d < nSmall; d++ {
		ifaces := names[:1+r.Intn(3)]
		var hist []c11WriteOut
		for _, ifc := range ifaces {
			nd := Pick(r, []int{1, 2, 5, 31, 32, 33, 40, 63, 64, 65, 70, 96, 97, 120})
			hist = append(hist, c11GenDays(r, ifc, r.Intn(40), nd, 4, r.Chance(1, 3))...)
		}
		w := someWorkers(4)
		if thorough {
			w = every
		}
		add("small", hist, ifaces, nQ, w, false)
	}
	// medium: a few hundred days on one or two interfaces
	nMed := 2
	if thorough {
		nMed = 6
	}
	for d := 0; d < nMed; d++ {
		ifaces := names[:1+r.Intn(2)]
		var hist []c11WriteOut
		for _, ifc := range ifaces {
			hist = append(hist, c11GenDays(r, ifc, r.Intn(40), 200+r.Intn(300), 3, true)...)
		}
		w := someWorkers(4)
		if thorough {
			w = every
		}
		add("medium", hist, ifaces, 2, w, true)
	}
	// big: more day directories than the work queue of ONE worker had room for before the fix
	// (64 workloads of 32 directories = 2048): 1 and 2 workers first, then others
	bigDays := []int{2100}
	if thorough {
		bigDays = []int{2049, 2100, 3500, 5000}
	}
	for _, nd := range bigDays {
		hist := c11GenDays(r, "eth0", 0, nd, 2, true)
		if thorough {
			add("big", hist, []string{"eth0"}, 2, every, true)
		} else {
			add("big", hist, []string{"eth0"}, 1, func() []int { return []int{1, 2, Pick(r, allWorkers[2:])} }, true)
		}
	}
	return cases
}

func init() {
	register(&Prop{
		ID: "C11",
		Rule: "databases written through the real DBWriter: small (1-3 interfaces, 1-120 days each incl. the bulk-size boundaries 31/32/33/63/64/65/96/97), " +
			"medium (200-500 days) and big (2100 days in quick, up to 5000 in thorough: more workloads than the work queue of one worker used to hold); per database queries with/without the time " +
			"attribute, partial attribute sets, optional proto/dport condition, ranges cut at block/day boundaries, interface lists incl. a missing interface; every query is run under " +
			"worker counts 1..16 (quick: 1 + three drawn; thorough: all sixteen) x low-memory off/on, each run with its own GOMAXPROCS / Gosched-spinner / GOMAXPROCS-flipping perturbation and a watchdog; " +
			"non-trivial = some interface has more than one workload (> 32 day directories) and more than one configuration is compared",
		Gen: c11Gen,
		Run: c11Run,
		Init: func(tier string) error {
			d, err := os.MkdirTemp("", "verif-c11-")
			c11WorkDir = d
			if tier == "thorough" {
				c11Limit = 600 * time.Second
			}
			return err
		},
		Done: func() { _ = os.RemoveAll(c11WorkDir) },
	})
}
