//go:build verif_all || verif_db

package main

// Shared helpers: flow specs on the wire, writing them through the real DBWriter, querying and
// listing a database through the real engine, canonical rendering of results.

import (
	"context"
	"fmt"
	"io"
	"net/netip"
	"os"
	"path/filepath"
	"sort"
	"strconv"
	"strings"
	"time"

	"github.com/els0r/goProbe/v4/pkg/capture/capturetypes"
	"github.com/els0r/goProbe/v4/pkg/goDB"
	"github.com/els0r/goProbe/v4/pkg/goDB/encoder/encoders"
	"github.com/els0r/goProbe/v4/pkg/goDB/engine"
	"github.com/els0r/goProbe/v4/pkg/goDB/info"
	"github.com/els0r/goProbe/v4/pkg/query"
	"github.com/els0r/goProbe/v4/pkg/results"
	"github.com/els0r/goProbe/v4/pkg/types"
	"github.com/els0r/goProbe/v4/pkg/types/hashmap"
)

// Flow on the wire: `<sip hex>:<dip hex>:<dport>:<proto>:<br>:<bs>:<pr>:<ps>` (4- or 16-byte addresses)
type Flow struct {
	SIP, DIP       []byte
	Dport          uint16
	Proto          uint8
	BR, BS, PR, PS uint64
}

func (f Flow) String() string {
	return fmt.Sprintf("%s:%s:%d:%d:%d:%d:%d:%d", hexBytes(f.SIP), hexBytes(f.DIP), f.Dport, f.Proto, f.BR, f.BS, f.PR, f.PS)
}

func parseFlow(s string) Flow {
	p := strings.Split(s, ":")
	u := func(i int) uint64 { v, _ := strconv.ParseUint(p[i], 10, 64); return v }
	return Flow{SIP: unhex(p[0]), DIP: unhex(p[1]), Dport: uint16(u(2)), Proto: uint8(u(3)), BR: u(4), BS: u(5), PR: u(6), PS: u(7)}
}

func parseFlows(s string) []Flow {
	var fs []Flow
	for _, x := range splitList(s) {
		fs = append(fs, parseFlow(x))
	}
	return fs
}

func flowsField(fs []Flow) string {
	var xs []string
	for _, f := range fs {
		xs = append(xs, f.String())
	}
	return listField(xs)
}

func flowMapOf(fs []Flow) *hashmap.AggFlowMap {
	m := hashmap.NewAggFlowMap()
	for _, f := range fs {
		dport := []byte{byte(f.Dport >> 8), byte(f.Dport)}
		if len(f.SIP) == 4 {
			m.SetOrUpdate(types.NewV4Key(f.SIP, f.DIP, dport, f.Proto), true, f.BR, f.BS, f.PR, f.PS)
		} else {
			m.SetOrUpdate(types.NewV6Key(f.SIP, f.DIP, dport, f.Proto), false, f.BR, f.BS, f.PR, f.PS)
		}
	}
	return m
}

// writeOut performs one real write-out (DBWriter.Write)
func writeOut(db, iface string, ts int64, drops uint64, fs []Flow, enc encoders.Type) error {
	w := goDB.NewDBWriter(db, iface, enc)
	return w.Write(flowMapOf(fs), capturetypes.CaptureStats{Dropped: drops}, ts)
}

// genFlows draws n distinct flows (mixed IPv4/IPv6) from a small universe so that keys repeat across blocks
func genFlows(r *Rand, n int) []Flow {
	seen := map[string]bool{}
	var fs []Flow
	for len(fs) < n {
		var f Flow
		if r.Chance(2, 3) {
			f.SIP = []byte{10, 0, byte(r.Intn(2)), byte(1 + r.Intn(4))}
			f.DIP = []byte{192, 168, 1, byte(1 + r.Intn(3))}
		} else {
			f.SIP = append([]byte{0x20, 0x01, 0x0d, 0xb8, 0, 0, 0, 0, 0, 0, 0, 0, 0, 0, 0}, byte(1+r.Intn(4)))
			f.DIP = append([]byte{0xfe, 0x80, 0, 0, 0, 0, 0, 0, 0, 0, 0, 0, 0, 0, 0}, byte(1+r.Intn(3)))
		}
		f.Dport = Pick(r, []uint16{53, 80, 443, 8080})
		f.Proto = Pick(r, []uint8{6, 17})
		k := fmt.Sprintf("%x|%x|%d|%d", f.SIP, f.DIP, f.Dport, f.Proto)
		if seen[k] {
			continue
		}
		seen[k] = true
		f.BR, f.BS, f.PR, f.PS = uint64(1+r.Intn(100000)), uint64(r.Intn(100000)), uint64(1+r.Intn(1000)), uint64(r.Intn(1000))
		fs = append(fs, f)
	}
	return fs
}

func addrHex(a netip.Addr) string {
	if !a.IsValid() {
		return "-"
	}
	if a.Is4() {
		b := a.As4()
		return hexBytes(b[:])
	}
	b := a.As16()
	return hexBytes(b[:])
}

// queryRows runs `sip,dip,dport,proto,time` over [first,last] on the given interface argument through
// the real engine and returns canonical rows `iface@ts/sip:dip:dport:proto:br:bs:pr:ps` (sorted), or "err:<class>".
func queryRows(db, ifaces string, first, last int64, cond string) string {
	opts := []query.Option{
		query.WithFirst(strconv.FormatInt(first, 10)), query.WithLast(strconv.FormatInt(last, 10)),
		query.WithNumResults(1 << 40), query.WithFormat("json"), query.WithMaxMemPct(90),
	}
	if cond != "" {
		opts = append(opts, query.WithCondition(cond))
	}
	a := query.NewArgs("sip,dip,dport,proto,time,iface", ifaces, opts...).AddOutputs(io.Discard)
	ctx, cancel := context.WithTimeout(context.Background(), 60*time.Second)
	defer cancel()
	res, err := engine.NewQueryRunner(db).Run(ctx, a)
	if err != nil {
		return "err:" + errClass(err)
	}
	return renderRows(res)
}

func errClass(err error) string {
	s := err.Error()
	switch {
	case strings.Contains(s, "no such file"):
		return "notexist"
	case strings.Contains(s, "internal"):
		return "internal"
	case strings.Contains(s, "metadata"):
		return "metadata"
	case strings.Contains(s, "interface"):
		return "iface"
	}
	if len(s) > 40 {
		s = s[:40]
	}
	return esc(s)
}

func renderRows(res *results.Result) string {
	if res == nil {
		return "err:nil-result"
	}
	if res.Status.Code != types.StatusOK && res.Status.Code != types.StatusEmpty && res.Status.Code != types.StatusMissingData {
		return "err:status-" + esc(string(res.Status.Code))
	}
	var rows []string
	for _, r := range res.Rows {
		rows = append(rows, fmt.Sprintf("%s@%d/%s:%s:%d:%d:%d:%d:%d:%d", r.Labels.Iface, r.Labels.Timestamp.Unix(),
			addrHex(r.Attributes.SrcIP), addrHex(r.Attributes.DstIP), r.Attributes.DstPort, r.Attributes.IPProto,
			r.Counters.BytesRcvd, r.Counters.BytesSent, r.Counters.PacketsRcvd, r.Counters.PacketsSent))
	}
	sort.Strings(rows)
	t := res.Summary.Totals
	return fmt.Sprintf("rows=%s|totals=%d:%d:%d:%d|hits=%d", listField(rows), t.BytesRcvd, t.BytesSent, t.PacketsRcvd, t.PacketsSent, res.Summary.Hits.Total)
}

// listSummary returns, per interface (sorted), `iface/v4:v6:drops:br:bs:pr:ps` over [first,last] via ReadMetadata
func listSummary(db string, first, last int64) string {
	ifaces, err := info.GetInterfaces(db)
	if err != nil {
		return "err:ifaces-" + errClass(err)
	}
	sort.Strings(ifaces)
	var out []string
	for _, iface := range ifaces {
		wm, err := goDB.NewDBWorkManager(goDB.NewMetadataQuery(), db, iface, 1)
		if err != nil {
			out = append(out, iface+"/err:wm")
			continue
		}
		md, err := wm.ReadMetadata(first, last)
		if err != nil {
			out = append(out, iface+"/err:"+errClass(err))
			continue
		}
		t, c := md.Traffic, md.Counts
		out = append(out, fmt.Sprintf("%s/%d:%d:%d:%d:%d:%d:%d", iface, t.NumV4Entries, t.NumV6Entries, t.NumDrops, c.BytesRcvd, c.BytesSent, c.PacketsRcvd, c.PacketsSent))
	}
	return semiField(out)
}

// dirTree lists the database tree (relative paths, sizes) for debugging and trace normalisation
func dirTree(db string) []string {
	var out []string
	_ = filepath.Walk(db, func(p string, fi os.FileInfo, err error) error {
		if err != nil {
			return nil
		}
		rel, _ := filepath.Rel(db, p)
		if fi.IsDir() {
			out = append(out, rel+"/")
		} else {
			out = append(out, fmt.Sprintf("%s:%d", rel, fi.Size()))
		}
		return nil
	})
	return out
}

func timeUnixUTC(ts int64) time.Time { return time.Unix(ts, 0).UTC() }
