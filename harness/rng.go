package main

// SplitMix64: every random choice of every generator derives from one state seeded by VERIF_SEED.
type Rand struct{ s uint64 }

// NewRand scrambles the seed so that neighbouring seeds give unrelated streams (the state advances by a
// constant per draw, so an affine seeding would make seed n+1 a shifted copy of seed n).
func NewRand(seed uint64) *Rand {
	z := seed + 0x9E3779B97F4A7C15
	z = (z ^ (z >> 30)) * 0xBF58476D1CE4E5B9
	z = (z ^ (z >> 27)) * 0x94D049BB133111EB
	z ^= z >> 31
	return &Rand{s: z*0x9E3779B97F4A7C15 + 0x1234567}
}

func (r *Rand) U64() uint64 {
	r.s += 0x9E3779B97F4A7C15
	z := r.s
	z = (z ^ (z >> 30)) * 0xBF58476D1CE4E5B9
	z = (z ^ (z >> 27)) * 0x94D049BB133111EB
	return z ^ (z >> 31)
}

// Intn returns a value in [0,n)
func (r *Rand) Intn(n int) int {
	if n <= 0 {
		return 0
	}
	return int(r.U64() % uint64(n))
}

func (r *Rand) I64n(n int64) int64 {
	if n <= 0 {
		return 0
	}
	return int64(r.U64() % uint64(n))
}

func (r *Rand) Bool() bool { return r.U64()&1 == 1 }

// Chance returns true with probability num/den
func (r *Rand) Chance(num, den int) bool { return r.Intn(den) < num }

func Pick[T any](r *Rand, xs []T) T { return xs[r.Intn(len(xs))] }

func (r *Rand) Bytes(n int) []byte {
	b := make([]byte, n)
	for i := range b {
		b[i] = byte(r.U64())
	}
	return b
}

func (r *Rand) Shuffle(n int, swap func(i, j int)) {
	for i := n - 1; i > 0; i-- {
		j := r.Intn(i + 1)
		swap(i, j)
	}
}
