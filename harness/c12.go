//go:build verif_all || verif_c12

package main

import (
	"context"
	"fmt"
	"os"
	"path/filepath"
	"strconv"
	"strings"
	"time"

	"github.com/els0r/goProbe/v4/pkg/capture/capturetypes"
	"github.com/els0r/goProbe/v4/pkg/goDB"
	"github.com/els0r/goProbe/v4/pkg/goDB/encoder/encoders"
	"github.com/els0r/goProbe/v4/pkg/types"
	"github.com/els0r/goProbe/v4/pkg/types/hashmap"
)

// C12 — interface summaries (`goQuery list`): (*DBWorkManager).ReadMetadata on databases written by
// the real DBWriter, compared with the Lean model / spec; the packet and byte totals are also
// compared with a real block-level query (CreateWorkerJobs + ExecuteWorkerReadJobs) over the same
// interface and range.
//
// wire:  C12 list <enc> <first> <last> <iface>=<block>;<block>…|<iface>=…
//        block = <ts>:<drops>:<flow>,<flow>…      flow = <4|6>/<bytesRcvd>/<bytesSent>/<pktsRcvd>/<pktsSent>
//        (an interface without blocks is `name=-`, a block without flows is `ts:drops:-`)
// out:   <iface>:<v4>/<v6>/<drops>/<bytesRcvd>/<bytesSent>/<pktsRcvd>/<pktsSent>:<q bytesRcvd>/<q bytesSent>/<q pktsRcvd>/<q pktsSent>|…
//
// Blocks are written in wire order, one DBWriter.Write per block (one open/close session of the
// day directory each), so the wire order is the write history.
//
// Time zone: goDB derives the year/month directory names and the year/month pruning in walkDB
// from time.Unix(..).Year()/Month(), i.e. from the process-local zone, while day directories are
// UTC days (DirTimestamp). The harness pins time.Local to UTC (stated in the assumptions).

var c12WorkDir string

type c12Flow struct {
	v4 bool
	c  [4]uint64
}

type c12Block struct {
	ts    int64
	drops uint64
	flows []c12Flow
}

type c12Iface struct {
	name   string
	blocks []c12Block
}

func c12Parse(s string) ([]c12Iface, error) {
	var out []c12Iface
	for _, is := range strings.Split(s, "|") {
		nb := strings.SplitN(is, "=", 2)
		if len(nb) != 2 || nb[0] == "" {
			return nil, fmt.Errorf("bad iface %q", is)
		}
		ifc := c12Iface{name: nb[0]}
		if nb[1] != "-" {
			for _, bs := range strings.Split(nb[1], ";") {
				p := strings.Split(bs, ":")
				if len(p) != 3 {
					return nil, fmt.Errorf("bad block %q", bs)
				}
				ts, err := strconv.ParseInt(p[0], 10, 64)
				if err != nil {
					return nil, err
				}
				dr, err := strconv.ParseUint(p[1], 10, 64)
				if err != nil {
					return nil, err
				}
				b := c12Block{ts: ts, drops: dr}
				if p[2] != "-" {
					for _, fs := range strings.Split(p[2], ",") {
						q := strings.Split(fs, "/")
						if len(q) != 5 || (q[0] != "4" && q[0] != "6") {
							return nil, fmt.Errorf("bad flow %q", fs)
						}
						f := c12Flow{v4: q[0] == "4"}
						for i := 0; i < 4; i++ {
							if f.c[i], err = strconv.ParseUint(q[1+i], 10, 64); err != nil {
								return nil, err
							}
						}
						b.flows = append(b.flows, f)
					}
				}
				ifc.blocks = append(ifc.blocks, b)
			}
		}
		out = append(out, ifc)
	}
	return out, nil
}

// c12FlowMap builds the aggregated flow map of one block; the j-th flow gets a key unique within
// the block (the writer's map would merge equal keys).
func c12FlowMap(b c12Block) *hashmap.AggFlowMap {
	m := hashmap.NewAggFlowMap()
	for j, f := range b.flows {
		hi, lo := byte(j>>8), byte(j)
		dport := []byte{byte(1 + j%7), byte(80 + j%3)}
		proto := []byte{6, 17, 1}[j%3]
		if f.v4 {
			k := types.NewV4KeyStatic([4]byte{10, 0, hi, lo}, [4]byte{192, 168, lo, hi}, dport, proto)
			m.SetOrUpdate(k, true, f.c[0], f.c[1], f.c[2], f.c[3])
		} else {
			var sip, dip [16]byte
			sip[0], sip[1], sip[14], sip[15] = 0x20, 0x01, hi, lo
			dip[0], dip[1], dip[14], dip[15] = 0xfd, 0x00, lo, hi
			k := types.NewV6KeyStatic(sip, dip, dport, proto)
			m.SetOrUpdate(k, false, f.c[0], f.c[1], f.c[2], f.c[3])
		}
	}
	return m
}

func c12QueryTotals(dbPath, iface string, first, last int64) (tot [4]uint64, err error) {
	q := goDB.NewQuery([]types.Attribute{
		types.SIPAttribute{}, types.DIPAttribute{}, types.DportAttribute{}, types.ProtoAttribute{},
	}, nil, types.LabelSelector{})
	wm, err := goDB.NewDBWorkManager(q, dbPath, iface, 2)
	if err != nil {
		return tot, err
	}
	if _, err = wm.CreateWorkerJobs(first, last); err != nil {
		return tot, err
	}
	mapChan := make(chan hashmap.AggFlowMapWithMetadata, 4096)
	wm.ExecuteWorkerReadJobs(context.Background(), mapChan)
	close(mapChan)
	for am := range mapChan {
		if am.AggFlowMap == nil {
			continue
		}
		for _, m := range []*hashmap.Map{am.PrimaryMap, am.SecondaryMap} {
			if m == nil {
				continue
			}
			for it := m.Iter(); it.Next(); {
				v := it.Val()
				tot[0] += v.BytesRcvd
				tot[1] += v.BytesSent
				tot[2] += v.PacketsRcvd
				tot[3] += v.PacketsSent
			}
		}
	}
	return tot, nil
}

var c12Seq int

func c12Run(f []string) string {
	if len(f) != 5 || f[0] != "list" {
		return "bad-op"
	}
	enc, err := encoders.GetTypeByString(f[1])
	if err != nil {
		return "bad-args"
	}
	first, err1 := strconv.ParseInt(f[2], 10, 64)
	last, err2 := strconv.ParseInt(f[3], 10, 64)
	ifaces, err3 := c12Parse(f[4])
	if err1 != nil || err2 != nil || err3 != nil {
		return "bad-args"
	}
	c12Seq++
	dbPath := filepath.Join(c12WorkDir, fmt.Sprintf("db%d", c12Seq))
	if err := os.MkdirAll(dbPath, 0o755); err != nil {
		return "err:mkdir"
	}
	defer os.RemoveAll(dbPath)

	for _, ifc := range ifaces {
		if err := os.MkdirAll(filepath.Join(dbPath, ifc.name), 0o755); err != nil {
			return "err:mkdir"
		}
		w := goDB.NewDBWriter(dbPath, ifc.name, enc)
		for _, b := range ifc.blocks {
			if err := w.Write(c12FlowMap(b), capturetypes.CaptureStats{Dropped: b.drops}, b.ts); err != nil {
				return "err:write"
			}
		}
	}
	var out []string
	for _, ifc := range ifaces {
		wm, err := goDB.NewDBWorkManager(goDB.NewMetadataQuery(), dbPath, ifc.name, 2)
		if err != nil {
			out = append(out, ifc.name+":err:workmanager")
			continue
		}
		im, err := wm.ReadMetadata(first, last)
		if err != nil {
			out = append(out, ifc.name+":err:readmetadata")
			continue
		}
		if im.Iface != ifc.name {
			out = append(out, ifc.name+":err:iface-name")
			continue
		}
		qt, err := c12QueryTotals(dbPath, ifc.name, first, last)
		if err != nil {
			out = append(out, ifc.name+":err:query")
			continue
		}
		out = append(out, fmt.Sprintf("%s:%d/%d/%d/%d/%d/%d/%d:%d/%d/%d/%d", ifc.name,
			im.Traffic.NumV4Entries, im.Traffic.NumV6Entries, im.Traffic.NumDrops,
			im.Counts.BytesRcvd, im.Counts.BytesSent, im.Counts.PacketsRcvd, im.Counts.PacketsSent,
			qt[0], qt[1], qt[2], qt[3]))
	}
	return strings.Join(out, "|")
}

// ---------------------------------------------------------------------------------- generator

const c12Day = 86400

func c12ShowBlock(b c12Block) string {
	var fl []string
	for _, f := range b.flows {
		v := "6"
		if f.v4 {
			v = "4"
		}
		fl = append(fl, fmt.Sprintf("%s/%d/%d/%d/%d", v, f.c[0], f.c[1], f.c[2], f.c[3]))
	}
	return fmt.Sprintf("%d:%d:%s", b.ts, b.drops, listField(fl))
}

func c12GenFlows(r *Rand, maxFlows int) []c12Flow {
	n := r.Intn(maxFlows + 1)
	if r.Chance(1, 12) {
		n = 0
	}
	fl := make([]c12Flow, n)
	for i := range fl {
		fl[i].v4 = r.Chance(3, 5)
		var big int64 = 1 << 20
		if r.Chance(1, 8) {
			big = 1 << 45
		}
		fl[i].c = [4]uint64{uint64(r.I64n(big)), uint64(r.I64n(big)), uint64(r.I64n(1 << 16)), uint64(r.I64n(1 << 16))}
		if r.Chance(1, 6) {
			fl[i].c[r.Intn(4)] = 0
		}
	}
	return fl
}

// c12GenIface: blocks on `ndays` days starting at day `d0` (some days skipped), timestamps strictly
// increasing within a day; optionally the days are written in a shuffled order.
func c12GenIface(r *Rand, d0 int64, ndays, maxBlocks, maxFlows int) (blocks []c12Block, stamps []int64) {
	var days [][]c12Block
	for d := 0; d < ndays; d++ {
		if ndays > 1 && r.Chance(1, 5) {
			continue // gap day
		}
		day := d0 + int64(d)*c12Day
		nb := 1 + r.Intn(maxBlocks)
		var ts int64
		switch r.Intn(5) {
		case 0:
			ts = day // first block exactly at midnight
		case 1:
			ts = day + c12Day - 1 - int64(nb)*300 - r.I64n(200) // blocks end just before midnight
			if ts < day {
				ts = day
			}
		default:
			ts = day + r.I64n(c12Day/2)
		}
		var bl []c12Block
		for i := 0; i < nb && ts < day+c12Day; i++ {
			dr := uint64(0)
			if r.Chance(2, 3) {
				dr = uint64(1 + r.I64n(1000))
			}
			bl = append(bl, c12Block{ts: ts, drops: dr, flows: c12GenFlows(r, maxFlows)})
			stamps = append(stamps, ts)
			switch r.Intn(4) {
			case 0:
				ts += 300
			case 1:
				ts += 1 + r.I64n(299)
			case 2:
				ts += 300 + r.I64n(3000)
			default:
				ts += 1 + r.I64n(c12Day/int64(nb+1))
			}
		}
		if r.Chance(1, 6) && len(bl) > 0 && bl[len(bl)-1].ts < day+c12Day-1 {
			// a block in the last seconds of the day
			ts = day + c12Day - 1 - r.I64n(250)
			if ts > bl[len(bl)-1].ts {
				bl = append(bl, c12Block{ts: ts, drops: uint64(r.I64n(50)), flows: c12GenFlows(r, maxFlows)})
				stamps = append(stamps, ts)
			}
		}
		days = append(days, bl)
	}
	if r.Chance(1, 4) {
		r.Shuffle(len(days), func(i, j int) { days[i], days[j] = days[j], days[i] })
	}
	for _, bl := range days {
		blocks = append(blocks, bl...)
	}
	return blocks, stamps
}

func c12PickBound(r *Rand, stamps []int64, d0 int64, ndays int) int64 {
	if len(stamps) == 0 {
		return d0 + r.I64n(int64(ndays)*c12Day)
	}
	s := Pick(r, stamps)
	switch r.Intn(12) {
	case 0, 1, 2:
		return s // on a block
	case 3:
		return s - 1
	case 4:
		return s + 1
	case 5:
		return s + 1 + r.I64n(299) // between blocks, within a write interval
	case 6:
		return s - 1 - r.I64n(299)
	case 7:
		return s - s%c12Day // day boundary
	case 8:
		return s - s%c12Day + c12Day - 1 - r.I64n(300) // last five minutes of the day
	case 9:
		return s - s%c12Day + c12Day
	case 10:
		// outside the data
		if r.Bool() {
			return d0 - 1 - r.I64n(3*c12Day)
		}
		return d0 + int64(ndays)*c12Day + r.I64n(3*c12Day)
	default:
		return d0 + r.I64n(int64(ndays)*c12Day)
	}
}

func c12Gen(r *Rand, tier string) []Case {
	n := 260
	maxDays, maxBlocks, maxFlows := 5, 6, 5
	if tier == "thorough" {
		n = 12000
		maxDays, maxBlocks, maxFlows = 9, 14, 12
	}
	// anchors: ordinary days, a month boundary, a year boundary, a leap day (all 10-digit timestamps)
	anchors := []int64{1700006400, 1701302400 /* 2023-11-30 */, 1703894400 /* 2023-12-30 */, 1709078400 /* 2024-02-28 */, 1000080000 /* 2001-09-10 */, 4102358400 /* 2099-12-31 */}
	var cs []Case
	for i := 0; i < n; i++ {
		d0 := Pick(r, anchors)
		ndays := 1 + r.Intn(maxDays)
		nif := 1 + r.Intn(3)
		var ifs []string
		var stamps []int64
		nblocks := 0
		for k := 0; k < nif; k++ {
			name := []string{"eth0", "eth1", "wg0"}[k]
			if k > 0 && r.Chance(1, 10) {
				ifs = append(ifs, name+"=-")
				continue
			}
			bl, st := c12GenIface(r, d0, ndays, maxBlocks, maxFlows)
			stamps = append(stamps, st...)
			nblocks += len(bl)
			var bs []string
			for _, b := range bl {
				bs = append(bs, c12ShowBlock(b))
			}
			ifs = append(ifs, name+"="+semiField(bs))
		}
		a, b := c12PickBound(r, stamps, d0, ndays), c12PickBound(r, stamps, d0, ndays)
		cls := "range"
		switch r.Intn(14) {
		case 0:
			a, b = 0, 1<<40 // everything (list without --first/--last)
			cls = "all"
		case 1:
			b = a // single instant
			cls = "instant"
		case 2:
			if a < b {
				a, b = b, a
			}
			if a == b {
				a++
			}
			cls = "first>last" // outside the domain (goQuery rejects it); model vs code only
		default:
			if a > b {
				a, b = b, a
			}
		}
		enc := "lz4"
		if r.Chance(1, 3) {
			enc = "null"
		}
		in, out := 0, 0
		for _, s := range stamps {
			if a <= s && s <= b {
				in++
			} else {
				out++
			}
		}
		if cls == "range" {
			cls = fmt.Sprintf("range:in>0=%v,out>0=%v", in > 0, out > 0)
		}
		cs = append(cs, Case{
			Line:       fmt.Sprintf("C12 list %s %d %d %s", enc, a, b, strings.Join(ifs, "|")),
			Class:      cls,
			NonTrivial: a <= b && in > 0 && out > 0,
		})
	}
	return cs
}

func init() {
	register(&Prop{
		ID: "C12",
		Rule: "seeded: 1-3 interfaces x 1-5 (thorough 1-9) UTC days (gap days, month/year/leap boundaries, optionally written in shuffled day order) x 1-6 (1-14) blocks per day with strictly increasing, not necessarily 300 s-aligned timestamps (first block at midnight, last block in the final seconds of a day), 0-5 (0-12) v4/v6 flows per block incl. empty blocks, random drops; every block written by the real DBWriter.Write (lz4 or null encoder) into a temp DB under the work dir. Ranges: bounds on a block, +-1, between blocks, on day boundaries, in the last 5 minutes of a day, outside the data, whole DB, single instant, and first>last (outside the property's domain, model vs code only). Output: ReadMetadata counts per interface plus totals of a real block-level query for the same range. Non-trivial: first<=last and at least one stored block inside and one outside the range. Distinct = distinct case lines. time.Local pinned to UTC.",
		Gen: c12Gen,
		Run: c12Run,
		Init: func(tier string) error {
			time.Local = time.UTC
			// experiment switch only (not used by bin/check): VERIF_C12_TZ=Pacific/Kiritimati shows the
			// year/month pruning of walkDB hiding day directories in non-UTC zones
			if tz := os.Getenv("VERIF_C12_TZ"); tz != "" {
				loc, err := time.LoadLocation(tz)
				if err != nil {
					return err
				}
				time.Local = loc
			}
			out := ""
			for i, a := range os.Args {
				if (a == "-out" || a == "--out") && i+1 < len(os.Args) {
					out = os.Args[i+1]
				} else if strings.HasPrefix(a, "-out=") {
					out = strings.TrimPrefix(a, "-out=")
				}
			}
			if out == "" {
				out = os.TempDir()
			}
			c12WorkDir = filepath.Join(out, "c12db")
			_ = os.RemoveAll(c12WorkDir)
			return os.MkdirAll(c12WorkDir, 0o755)
		},
		Done: func() { _ = os.RemoveAll(c12WorkDir) },
	})
}
