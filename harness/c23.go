//go:build verif_all || verif_c23

package main

import (
	"fmt"
	"strconv"
	"strings"

	"github.com/els0r/goProbe/v4/pkg/capture"
	"github.com/els0r/goProbe/v4/pkg/capture/capturetypes"
)

// C23 — local packet buffer: sequences of Add / Next / Reset (and release + re-assign cycles)
// on the real LocalBuffer with a LocalBufferPool of a given size limit. See
// lean/GoProbeModel/Spec/C23.lean for the wire format.

type c23Item struct {
	v4    bool
	key   []byte
	pt    byte
	size  uint32
	aux   byte
	errno int8
}

func (it c23Item) String() string {
	f := "6"
	if it.v4 {
		f = "4"
	}
	return fmt.Sprintf("%s:%s:%d:%d:%d:%d", f, hexBytes(it.key), it.pt, it.size, it.aux, it.errno)
}

func c23ParseItem(f []string) c23Item {
	if len(f) != 6 {
		panic("bad item")
	}
	pt, _ := strconv.Atoi(f[2])
	sz, _ := strconv.ParseUint(f[3], 10, 32)
	aux, _ := strconv.Atoi(f[4])
	en, _ := strconv.Atoi(f[5])
	return c23Item{v4: f[0] == "4", key: unhex(f[1]), pt: byte(pt), size: uint32(sz), aux: byte(aux), errno: int8(en)}
}

// c23Variant mirrors C23.variant: size, first key byte and errno move with i
func c23Variant(it c23Item, i int) c23Item {
	v := it
	v.size = uint32((uint64(it.size) + uint64(i)) % 4294967296)
	if len(it.key) > 0 {
		v.key = append([]byte(nil), it.key...)
		v.key[0] = byte((int(it.key[0]) + i) % 256)
	}
	v.errno = int8((int(it.errno)+128+i)%256 - 128)
	return v
}

func c23Run(f []string) (out string) {
	page, _ := strconv.Atoi(f[0])
	limit, _ := strconv.Atoi(f[1])
	get, _ := strconv.Atoi(f[2])
	if page != capture.VerifInitialBufferSize() {
		return "page-mismatch:" + strconv.Itoa(capture.VerifInitialBufferSize())
	}
	var sb strings.Builder
	tok := func(s string) {
		if sb.Len() > 0 {
			sb.WriteByte(',')
		}
		sb.WriteString(s)
	}
	defer func() {
		if r := recover(); r != nil {
			tok("panic")
			out = sb.String()
		}
	}()
	pool := capture.NewLocalBufferPool(1, limit)
	buf := capture.NewLocalBuffer(pool)
	buf.Assign(pool.Get(get))

	add := func(it c23Item) {
		ok := buf.Add(it.key, it.pt, it.size, it.v4, it.aux, capturetypes.ParsingErrno(it.errno))
		_, w, _ := buf.VerifState()
		tok("a" + b2s(ok) + "." + strconv.Itoa(w))
	}
	next := func() {
		key, pt, sz, v4, aux, errno, ok := buf.Next()
		if !ok {
			if key != nil || pt != 0 || sz != 0 || v4 || aux != 0 || errno != 0 {
				tok("n-nonzero")
				return
			}
			tok("n-")
			return
		}
		tok("n:" + c23Item{v4: v4, key: key, pt: pt, size: sz, aux: aux, errno: int8(errno)}.String())
	}
	for _, op := range splitList(f[3]) {
		p := strings.Split(op, ":")
		switch p[0] {
		case "a":
			add(c23ParseItem(p[1:]))
		case "A":
			n, _ := strconv.Atoi(p[1])
			it := c23ParseItem(p[2:])
			for i := 0; i < n; i++ {
				add(c23Variant(it, i))
			}
		case "n":
			next()
		case "N":
			n, _ := strconv.Atoi(p[1])
			for i := 0; i < n; i++ {
				next()
			}
		case "r":
			buf.Reset()
			_, w, _ := buf.VerifState()
			tok("r." + strconv.Itoa(w))
		case "c":
			n, _ := strconv.Atoi(p[1])
			// what bufferPackets does on return, and the capture loop on the next lock request
			buf.Reset()
			data, _, _ := buf.VerifState()
			pool.Put(data)
			buf.Assign(pool.Get(n))
			data, w, _ := buf.VerifState()
			tok(fmt.Sprintf("c.%d.%d.%d", w, len(data), cap(data)))
		default:
			panic("bad op " + op)
		}
	}
	data, w, r := buf.VerifState()
	tok(fmt.Sprintf("e.%d.%d.%d.%d", w, r, len(data), cap(data)))
	return sb.String()
}

// ---------------------------------------------------------------------------- generator

var (
	c23Sizes  = []uint32{0, 1, 60, 100, 1500, 65535, 65536, 16777215, 16777216, 16777217, 0x7fffffff, 0x80000000, 0xfffffffe, 0xffffffff}
	c23Bytes  = []byte{0, 1, 2, 3, 4, 127, 128, 254, 255}
	c23Errnos = []int8{-128, -127, -1, 0, 1, 2, 5, 9, 126, 127}
)

func c23RandItem(r *Rand) c23Item {
	it := c23Item{v4: r.Bool()}
	n := 37
	if it.v4 {
		n = 13
	}
	it.key = r.Bytes(n)
	switch r.Intn(10) {
	case 0:
		for i := range it.key {
			it.key[i] = 0
		}
	case 1:
		for i := range it.key {
			it.key[i] = 0xff
		}
	case 2:
		it.key[0] = byte(r.Intn(2)) // looks like a version flag
	}
	it.pt = Pick(r, c23Bytes)
	if r.Bool() {
		it.pt = byte(r.Intn(256))
	}
	it.aux = Pick(r, c23Bytes)
	if r.Bool() {
		it.aux = byte(r.Intn(256))
	}
	it.errno = Pick(r, c23Errnos)
	if r.Chance(1, 3) {
		it.errno = int8(r.Intn(256) - 128)
	}
	it.size = Pick(r, c23Sizes)
	if r.Bool() {
		it.size = uint32(r.U64())
	}
	return it
}

// a sequence under construction; est = bytes needed by all adds since the last reset (as if accepted)
type c23Seq struct {
	ops      []string
	est      int
	adds     int // adds since the last reset
	nextSeen bool
	twoAdds  bool
	mal      bool
}

func (s *c23Seq) add(it c23Item) {
	s.ops = append(s.ops, "a:"+it.String())
	s.est += len(it.key) + 8
	s.adds++
}
func (s *c23Seq) addN(n int, it c23Item) {
	if n <= 0 {
		return
	}
	s.ops = append(s.ops, fmt.Sprintf("A:%d:%s", n, it.String()))
	s.est += n * (len(it.key) + 8)
	s.adds += n
}
func (s *c23Seq) next(n int) {
	if n <= 0 {
		return
	}
	if s.adds >= 2 {
		s.twoAdds = true
	}
	if s.adds >= 1 {
		s.nextSeen = true
	}
	if n == 1 {
		s.ops = append(s.ops, "n")
	} else {
		s.ops = append(s.ops, fmt.Sprintf("N:%d", n))
	}
}
func (s *c23Seq) reset() { s.ops = append(s.ops, "r"); s.est, s.adds = 0, 0 }
func (s *c23Seq) cycle(n int) {
	s.ops = append(s.ops, fmt.Sprintf("c:%d", n))
	s.est, s.adds = 0, 0
}

// fillTo adds blocks of items until the estimate reaches target
func (s *c23Seq) fillTo(r *Rand, target int) {
	for s.est < target {
		it := c23RandItem(r)
		per := len(it.key) + 8
		room := (target - s.est + per - 1) / per
		n := room
		if room > 3 && r.Chance(2, 3) {
			n = 1 + r.Intn(room)
		}
		if r.Chance(1, 4) && n > 2 {
			n = 1 + r.Intn(3)
		}
		s.addN(n, it)
	}
}

var c23Gets = []int{1, 100, 4095, 4096, 4096, 4096, 4096, 4097, 5000, 10000}

func c23GenCase(r *Rand, page, limit int, kind string) Case {
	s := &c23Seq{}
	get := Pick(r, c23Gets)
	if r.Chance(2, 3) {
		get = page
	}
	eff := limit // where refusals start: the limit, but never below what Assign provides
	if eff < page {
		eff = page
	}
	if get > eff {
		eff = get
	}
	switch kind {
	case "fill-drain":
		// fill beyond the limit, (partly) drain, add again (still full), drain the rest
		s.fillTo(r, eff+50+r.Intn(200))
		total := s.adds
		if r.Chance(1, 3) {
			k := r.Intn(total + 1)
			s.next(k)
			s.add(c23RandItem(r))
			s.add(c23RandItem(r))
			s.next(total - k + 2)
		} else {
			s.next(total + 1)
		}
		if r.Chance(1, 3) {
			s.reset()
			s.fillTo(r, r.Intn(eff+100))
			s.next(s.adds + 1)
		}
	case "boundary":
		// stop a few bytes short of a growth boundary, then single inserts across it
		bs := []int{page, eff}
		for b := 2 * page; b < eff; b *= 2 {
			bs = append(bs, b)
		}
		if get > page {
			bs = append(bs, get, 2*get)
		}
		b := Pick(r, bs)
		short := b - r.Intn(120)
		if short < 0 {
			short = 0
		}
		if short > 45 {
			s.fillTo(r, short-45)
		}
		for i, n := 0, 3+r.Intn(8); i < n; i++ {
			s.add(c23RandItem(r))
			if r.Chance(1, 5) {
				s.next(1 + r.Intn(3))
			}
		}
		s.next(s.adds + 1)
	case "mixed", "cycle", "malformed":
		if r.Chance(1, 2) && eff <= 70000 {
			s.fillTo(r, r.Intn(eff+1))
		}
		n := 40 + r.Intn(160)
		for i := 0; i < n; i++ {
			x := r.Intn(100)
			switch {
			case x < 55:
				s.add(c23RandItem(r))
			case x < 62:
				s.addN(1+r.Intn(40), c23RandItem(r))
			case x < 88:
				s.next(1 + r.Intn(4))
			case x < 91:
				s.next(s.adds + 1)
			case x < 94:
				s.reset()
			case x < 97 && kind == "cycle":
				s.cycle(Pick(r, c23Gets))
			case kind == "malformed":
				// key length that does not belong to the version flag; only while the write
				// position is far from the end of the smallest buffer (the code would otherwise
				// store through an unsafe pointer past the slice)
				it := c23RandItem(r)
				it.key = r.Bytes(Pick(r, []int{0, 1, 5, 12, 13, 14, 36, 37, 38, 50}))
				flagLen := 37
				if it.v4 {
					flagLen = 13
				}
				if len(it.key) != flagLen && s.est+128 < page {
					s.mal = true
					// the record written has flagLen+8 bytes whatever the key length
					s.ops = append(s.ops, "a:"+it.String())
					s.est += flagLen + 8
					if len(it.key) > flagLen {
						s.est += len(it.key) - flagLen
					}
					s.adds++
				}
			default:
				s.add(c23RandItem(r))
			}
		}
		s.next(s.adds + 1)
	}
	if kind == "malformed" && r.Chance(1, 6) {
		get = 0 // empty slice: Assign -> Resize -> slicePtr panics
		s.mal = true
	}
	if kind == "malformed" && r.Chance(1, 10) {
		limit = 0
		s.mal = true
	}
	line := fmt.Sprintf("C23 %d %d %d %s", page, limit, get, listField(s.ops))
	return Case{Line: line, Class: kind, NonTrivial: !s.mal && s.twoAdds && s.nextSeen}
}

func c23Gen(r *Rand, tier string) []Case {
	page := capture.VerifInitialBufferSize()
	var cs []Case
	kinds := []string{"fill-drain", "fill-drain", "boundary", "boundary", "boundary", "mixed", "mixed", "cycle", "malformed"}
	if tier != "thorough" {
		limits := []int{100, 4096, 4097, 4100, 5000, 8192, 12289, 65536}
		for _, l := range limits {
			per := 60
			if l >= 65536 {
				per = 25
			}
			for i := 0; i < per; i++ {
				cs = append(cs, c23GenCase(r, page, l, kinds[i%len(kinds)]))
			}
		}
		for i := 0; i < 80; i++ { // random limits
			var l int
			switch r.Intn(4) {
			case 0:
				l = 1 + r.Intn(4096)
			case 1:
				l = 4096 + r.Intn(200)
			case 2:
				l = (4096 << r.Intn(4)) + r.Intn(100)
			default:
				l = 4096 + r.Intn(40000)
			}
			cs = append(cs, c23GenCase(r, page, l, kinds[i%len(kinds)]))
		}
		return cs
	}
	for l := 4096; l <= 4200; l++ { // every limit just above the initial size
		for i := 0; i < 100; i++ {
			cs = append(cs, c23GenCase(r, page, l, kinds[i%len(kinds)]))
		}
	}
	for _, l := range []int{1, 44, 45, 100, 4095, 5000, 8191, 8192, 8193, 8236, 8237, 12289, 16384, 16385, 65536, 65537, 1 << 20} {
		for i := 0; i < 30; i++ {
			cs = append(cs, c23GenCase(r, page, l, kinds[i%len(kinds)]))
		}
	}
	for i := 0; i < 900; i++ { // random limits to 1 MiB
		var l int
		switch r.Intn(5) {
		case 0:
			l = 1 + r.Intn(1<<20)
		case 1:
			l = (4096 << r.Intn(9)) + r.Intn(100) // just above a doubling step
			if l > 1<<20 {
				l = 1 << 20
			}
		case 2:
			l = (4096 << r.Intn(9)) - r.Intn(100)
		case 3:
			l = 4096 + r.Intn(1<<(3+r.Intn(14))) // log-ish
		default:
			l = 1 + r.Intn(1<<(3+r.Intn(18)))
		}
		if l > 1<<20 {
			l = 1 << 20
		}
		cs = append(cs, c23GenCase(r, page, l, kinds[i%len(kinds)]))
	}
	return cs
}

func init() {
	register(&Prop{
		ID: "C23",
		Rule: "sequences of Add / Next / Reset (and Reset+release+re-Assign cycles) on the real LocalBuffer over a LocalBufferPool with size limits {100, 4096, 4097, 4100, 5000, 8192, 12289, 65536, random} (thorough: every limit 4096..4200, doubling boundaries ±100, random to 1 MiB); " +
			"items mix IPv4 (13-byte) and IPv6 (37-byte) keys with boundary and random values of every field (packet type, aux 0..255, errno -128..127, size 0..2^32-1 incl. 2^24 boundaries); shapes: fill beyond the limit then drain, stop short of a growth boundary then cross it item by item, random interleavings, pool cycles, and a malformed stream (key length not matching the version flag, empty slice, limit 0). " +
			"Non-trivial: in-domain case with a Next after at least two Adds. Distinct = distinct case lines.",
		Gen: c23Gen,
		Run: c23Run,
	})
}
