package main

import (
	"encoding/hex"
	"fmt"
	"strings"
)

func hexBytes(b []byte) string {
	if len(b) == 0 {
		return "-"
	}
	return hex.EncodeToString(b)
}

func unhex(s string) []byte {
	if s == "-" {
		return nil
	}
	b, err := hex.DecodeString(s)
	if err != nil {
		panic("bad hex: " + s)
	}
	return b
}

func listField(xs []string) string {
	if len(xs) == 0 {
		return "-"
	}
	return strings.Join(xs, ",")
}

func semiField(xs []string) string {
	if len(xs) == 0 {
		return "-"
	}
	return strings.Join(xs, ";")
}

func splitList(s string) []string {
	if s == "-" {
		return nil
	}
	return strings.Split(s, ",")
}

func splitSemi(s string) []string {
	if s == "-" {
		return nil
	}
	return strings.Split(s, ";")
}

func needsEscape(c byte) bool {
	return c <= 32 || c >= 127 || c == '%' || c == ',' || c == ';' || c == ':' || c == '-' || c == '|'
}

// esc %-escapes a string for the wire (empty string = "-")
func esc(s string) string {
	if s == "" {
		return "-"
	}
	var b strings.Builder
	for i := 0; i < len(s); i++ {
		c := s[i]
		if needsEscape(c) {
			fmt.Fprintf(&b, "%%%02x", c)
		} else {
			b.WriteByte(c)
		}
	}
	return b.String()
}

func unesc(s string) string {
	if s == "-" {
		return ""
	}
	var b strings.Builder
	for i := 0; i < len(s); i++ {
		if s[i] == '%' && i+2 < len(s)+0 && i+2 <= len(s)-1+0 {
			if v, err := hex.DecodeString(s[i+1 : i+3]); err == nil {
				b.WriteByte(v[0])
				i += 2
				continue
			}
		}
		b.WriteByte(s[i])
	}
	return b.String()
}

func b2s(b bool) string {
	if b {
		return "1"
	}
	return "0"
}
