//go:build verif_all || verif_fs

package main

// A deterministic scheduler for two real processes at file-operation granularity, without any
// hook in the code under test: each process runs under strace with SIGSTOP injected at the entry
// of every system call of a chosen set: the call completes and the process stops on return to user
// space, i.e. right AFTER each file operation; the harness
// resumes (SIGCONT) exactly the process whose turn it is and waits until it has stopped again
// (or exited). Progress is detected through the growth of the strace log, which strace flushes
// line by line.

import (
	"bytes"
	"fmt"
	"os"
	"os/exec"
	"path/filepath"
	"strconv"
	"strings"
	"syscall"
	"time"
)

type SProc struct {
	stopSet map[string]bool
	mainPid string // thread that runs the scripted work (first line of the trace)
	offset  int    // how much of the trace has been digested
	MainOps int    // system calls of the stop set completed by the main thread so far
	Stops   int    // group stops the main thread has reported (one per injected SIGSTOP that took effect)
	conts   int    // SIGCONTs sent
	cmd     *exec.Cmd
	trace   string
	pid     int // tracee
	out     bytes.Buffer
	done    bool
	waitErr chan error
}

func startStopped(work, tag, stopSet string, args ...string) (*SProc, error) {
	p := &SProc{trace: filepath.Join(work, "sched-"+tag+".txt"), waitErr: make(chan error, 1), stopSet: map[string]bool{}}
	for _, n := range strings.Split(stopSet, ",") {
		p.stopSet[n] = true
	}
	_ = os.Remove(p.trace)
	a := []string{"-f", "-o", p.trace, "-e", "trace=%file,%desc", "-e", "inject=" + stopSet + ":signal=SIGSTOP:when=1+1"}
	a = append(a, os.Args[0], "__child")
	a = append(a, args...)
	p.cmd = exec.Command("strace", a...)
	p.cmd.Env = append(os.Environ(), "GOMAXPROCS=1", "TZ=UTC")
	p.cmd.Stdout = &p.out
	if os.Getenv("VERIF_DEBUG") != "" {
		p.cmd.Stderr = os.Stderr
	}
	// own session: its process group is orphaned from the start, so no SIGHUP is generated when a member
	// stops (the kernel sends SIGHUP only at the moment a group with stopped members BECOMES orphaned)
	p.cmd.SysProcAttr = &syscall.SysProcAttr{Setsid: true}
	if err := p.cmd.Start(); err != nil {
		return nil, err
	}
	go func() { p.waitErr <- p.cmd.Wait() }()
	// the tracee is strace's only child
	deadline := time.Now().Add(10 * time.Second)
	for time.Now().Before(deadline) {
		b, err := os.ReadFile(fmt.Sprintf("/proc/%d/task/%d/children", p.cmd.Process.Pid, p.cmd.Process.Pid))
		if err == nil {
			for _, c := range strings.Fields(string(b)) {
				// strace may fork short-lived helpers first: wait for the child that has become the harness
				comm, _ := os.ReadFile("/proc/" + c + "/comm")
				if strings.HasPrefix(string(comm), "verifharness") {
					p.pid, _ = strconv.Atoi(c)
				}
			}
			if p.pid != 0 {
				break
			}
		}
		time.Sleep(time.Millisecond)
	}
	if p.pid == 0 {
		return nil, fmt.Errorf("tracee not found")
	}
	err := p.waitStop(0)
	if os.Getenv("VERIF_DEBUG") != "" {
		fmt.Fprintf(os.Stderr, "started %s strace=%d tracee=%d state=%c done=%v err=%v\n", tag, p.cmd.Process.Pid, p.pid, p.state(), p.done, err)
	}
	p.digest()
	return p, err
}

// digest reads the new part of the trace and counts the stop-set system calls completed by the main thread
func (p *SProc) digest() {
	b, err := os.ReadFile(p.trace)
	if err != nil || len(b) <= p.offset {
		return
	}
	chunk := b[p.offset:]
	// only whole lines
	if i := bytes.LastIndexByte(chunk, '\n'); i >= 0 {
		chunk = chunk[:i+1]
	} else {
		return
	}
	p.offset += len(chunk)
	for _, line := range strings.Split(string(chunk), "\n") {
		f := strings.Fields(line)
		if len(f) < 2 {
			continue
		}
		if p.mainPid == "" {
			p.mainPid = f[0]
		}
		if f[0] != p.mainPid || strings.HasSuffix(line, "<unfinished ...>") {
			continue
		}
		if strings.Contains(line, "--- stopped by SIGSTOP ---") {
			p.Stops++
			continue
		}
		name := f[1]
		if name == "<..." && len(f) > 2 {
			name = f[2]
		}
		if i := strings.Index(name, "("); i > 0 {
			name = name[:i]
		}
		if p.stopSet[name] && strings.Contains(line, " = ") {
			p.MainOps++
		}
	}
}

// StepOp lets the main thread perform exactly one more system call of the stop set (stops caused by
// other threads of the process are passed over).
func (p *SProc) StepOp() {
	target := p.MainOps + 1
	for i := 0; i < 200 && !p.done && p.MainOps < target; i++ {
		if p.Step() != nil {
			return
		}
		p.digest()
	}
}

// AdvanceTo runs until the main thread has completed n system calls of the stop set.
func (p *SProc) AdvanceTo(n int) {
	for i := 0; i < 5000 && !p.done && p.MainOps < n; i++ {
		if p.Step() != nil {
			return
		}
		p.digest()
	}
}

func (p *SProc) state() byte {
	b, err := os.ReadFile(fmt.Sprintf("/proc/%d/stat", p.pid))
	if err != nil {
		return 0
	}
	i := bytes.LastIndexByte(b, ')')
	if i < 0 || i+2 >= len(b) {
		return 0
	}
	return b[i+2]
}

// waitStop waits until the process has reported a group stop that has not been answered by a SIGCONT
// yet, or has exited. Every thread takes part in every group stop and strace logs
// "<tid> --- stopped by SIGSTOP ---" for each of them AFTER the line of the system call that
// triggered the injection; the lines of the main thread therefore count the stops exactly, and
// nothing depends on how fast strace or the tracee get scheduled: a SIGCONT is only ever sent in
// answer to a logged stop (a SIGCONT sent early would discard the pending SIGSTOP and let the
// process run one operation too far).
func (p *SProc) waitStop(_ int64) error {
	deadline := time.Now().Add(120 * time.Second)
	for time.Now().Before(deadline) {
		p.digest()
		if p.Stops > p.conts {
			return nil
		}
		select {
		case <-p.waitErr:
			p.done = true
			p.digest()
			return nil
		default:
		}
		if s := p.state(); s == 'Z' || s == 'X' {
			// exited: wait for strace to finish
			select {
			case <-p.waitErr:
			case <-time.After(10 * time.Second):
			}
			p.done = true
			p.digest()
			return nil
		}
		time.Sleep(200 * time.Microsecond)
	}
	return fmt.Errorf("process did not stop")
}

// Step answers the current stop: the process runs to its next stop (or exits).
func (p *SProc) Step() error {
	if p.done {
		return nil
	}
	if p.Stops <= p.conts {
		// nothing to answer yet
		return p.waitStop(0)
	}
	p.conts++
	err := syscall.Kill(p.pid, syscall.SIGCONT)
	if os.Getenv("VERIF_DEBUG") != "" {
		fmt.Fprintf(os.Stderr, "step pid=%d state=%c stops=%d conts=%d killerr=%v\n", p.pid, p.state(), p.Stops, p.conts, err)
	}
	return p.waitStop(0)
}

// Finish runs the process to completion.
func (p *SProc) Finish() {
	for i := 0; i < 5000 && !p.done; i++ {
		if p.Step() != nil {
			break
		}
	}
	if !p.done {
		_ = p.cmd.Process.Kill()
		_ = exec.Command("kill", "-KILL", strconv.Itoa(p.pid)).Run()
	}
}

// countedBefore returns how many system calls of the stop set the main thread performs before the begin
// marker, and in the window, according to a finished trace.
func countedBefore(trace, stopSet string) (before, within int) {
	data, _ := os.ReadFile(trace)
	set := map[string]bool{}
	for _, s := range strings.Split(stopSet, ",") {
		set[s] = true
	}
	mainPid := ""
	phase := 0
	for _, line := range strings.Split(string(data), "\n") {
		f := strings.Fields(line)
		if len(f) < 2 {
			continue
		}
		if mainPid == "" {
			mainPid = f[0]
		}
		if f[0] != mainPid || strings.HasPrefix(f[1], "<...") {
			continue
		}
		if strings.Contains(line, "/verif-marker-begin") {
			phase = 1
			continue
		}
		if strings.Contains(line, "/verif-marker-end") {
			phase = 2
			continue
		}
		name := f[1]
		if i := strings.Index(name, "("); i > 0 {
			name = name[:i]
		}
		if set[name] {
			switch phase {
			case 0:
				before++
			case 1:
				within++
			}
		}
	}
	return
}
