//go:build verif_all || verif_c28

package main

// C28 — time arguments: query.ParseTimeArgument / query.ParseTimeRange.
//
// time.go takes the zone from time.LoadLocation("Local"), i.e. from the TZ environment variable
// read once per process. The real code therefore runs in CHILD PROCESSES, one per zone
// (this binary re-executed with VERIF_C28_CHILD=1 and TZ=<zone>; the child loop below is entered
// from init() so that main.go needs no change). Each child answers one request per line.
//
// time.Now(): the child brackets every call with two clock readings and repeats the call until
// both readings give the same Unix second, so the clock value the code saw is known exactly.
// Relative results are reported as their distance to that reading (`n<now-result>`, int64
// arithmetic), absolute ones as `a<unix>`.
//
// What is taken from Go's time library (the trusted parameter of this property) by the GENERATOR:
// the text of an instant under a layout (Time.Format), the local zone's offset segments around the
// instants involved (Time.ZoneBounds; passed to the Lean model as the zone table), and, for the
// judge, the instants the same text denotes under the other supported layouts (ParseInLocation
// with each of them). None of it calls the code under test.

import (
	"bufio"
	"fmt"
	"io"
	"math"
	"os"
	"os/exec"
	"sort"
	"strconv"
	"strings"
	"time"
	_ "time/tzdata"

	"github.com/els0r/goProbe/v4/pkg/query"
)

var c28Zones = []string{"UTC", "Europe/Zurich", "America/Los_Angeles", "Asia/Kolkata", "Pacific/Chatham"}

const c28NominalNow = int64(1800000000) // clock value given to the model for range cases (see c28Gen)

// ---------------------------------------------------------------- child side

func c28ChildArg(text string) (out string) {
	defer func() {
		if r := recover(); r != nil {
			out = "panic"
		}
	}()
	for {
		t0 := time.Now().Unix()
		v, err := query.ParseTimeArgument(text)
		t1 := time.Now().Unix()
		if t0 != t1 {
			continue
		}
		if err != nil {
			return "err"
		}
		return "ok:" + c28ShowVal(text, v, t0)
	}
}

// c28ShowVal: relative texts (leading '-') and the empty upper bound are reported relative to the clock
func c28ShowVal(text string, v, now int64) string {
	if text == "" || text[0] == '-' {
		return "n" + strconv.FormatInt(now-v, 10)
	}
	return "a" + strconv.FormatInt(v, 10)
}

func c28ChildRange(a, b string) (out string) {
	defer func() {
		if r := recover(); r != nil {
			out = "panic"
		}
	}()
	for {
		t0 := time.Now().Unix()
		f, l, err := query.ParseTimeRange(a, b)
		t1 := time.Now().Unix()
		if t0 != t1 {
			continue
		}
		if err != nil {
			msg := err.Error()
			switch {
			case strings.HasPrefix(msg, "invalid time format for --first"):
				return "err:first"
			case strings.HasPrefix(msg, "invalid time format for --last"):
				return "err:last"
			case strings.HasPrefix(msg, "invalid time interval"):
				return "err:interval"
			}
			return "err:other"
		}
		fs := "a0"
		if a != "" {
			fs = c28ShowVal(a, f, t0)
		}
		return "ok:" + fs + ":" + c28ShowVal(b, l, t0)
	}
}

func c28ChildCollect(a, b string) (out string) {
	defer func() {
		if r := recover(); r != nil {
			out = "panic"
		}
	}()
	for {
		t0 := time.Now().Unix()
		f, l, details := query.ParseTimeRangeCollectErrors(a, b)
		t1 := time.Now().Unix()
		if t0 != t1 {
			continue
		}
		if len(details) > 0 {
			var kinds []string
			for _, d := range details {
				switch {
				case d.Location == "body.first" && strings.HasPrefix(d.Message, "invalid time format"):
					kinds = append(kinds, "first")
				case d.Location == "body.last" && strings.HasPrefix(d.Message, "invalid time format"):
					kinds = append(kinds, "last")
				case d.Location == "body.first" && strings.HasPrefix(d.Message, "invalid time interval"):
					kinds = append(kinds, "interval")
				default:
					kinds = append(kinds, "other")
				}
			}
			return "err:" + strings.Join(kinds, "+")
		}
		fs := "a0"
		if a != "" {
			fs = c28ShowVal(a, f, t0)
		}
		return "ok:" + fs + ":" + c28ShowVal(b, l, t0)
	}
}

func c28ChildLoop() {
	in := bufio.NewReaderSize(os.Stdin, 1<<16)
	w := bufio.NewWriter(os.Stdout)
	for {
		line, err := in.ReadString('\n')
		line = strings.TrimRight(line, "\n")
		if line != "" {
			f := strings.Split(line, " ")
			switch {
			case f[0] == "A" && len(f) == 2:
				fmt.Fprintln(w, c28ChildArg(unesc(f[1])))
			case f[0] == "R" && len(f) == 3:
				fmt.Fprintln(w, c28ChildRange(unesc(f[1]), unesc(f[2])))
			case f[0] == "C" && len(f) == 3:
				fmt.Fprintln(w, c28ChildCollect(unesc(f[1]), unesc(f[2])))
			case f[0] == "Z" && len(f) == 2: // sanity: the child's local offset at an instant
				ts, _ := strconv.ParseInt(f[1], 10, 64)
				_, off := time.Unix(ts, 0).Zone()
				fmt.Fprintln(w, off)
			default:
				fmt.Fprintln(w, "bad-request")
			}
			w.Flush()
		}
		if err != nil {
			return
		}
	}
}

func init() {
	if os.Getenv("VERIF_C28_CHILD") == "1" {
		c28ChildLoop()
		os.Exit(0)
	}
}

// ---------------------------------------------------------------- parent side: children

type c28Child struct {
	cmd *exec.Cmd
	in  io.WriteCloser
	out *bufio.Reader
}

var c28Children = map[int]*c28Child{}

func c28GetChild(tz int) (*c28Child, error) {
	if c, ok := c28Children[tz]; ok {
		return c, nil
	}
	if tz < 0 || tz >= len(c28Zones) {
		return nil, fmt.Errorf("bad zone index %d", tz)
	}
	cmd := exec.Command(os.Args[0])
	env := []string{"VERIF_C28_CHILD=1", "TZ=" + c28Zones[tz]}
	for _, e := range os.Environ() {
		if !strings.HasPrefix(e, "TZ=") && !strings.HasPrefix(e, "VERIF_C28_CHILD=") {
			env = append(env, e)
		}
	}
	cmd.Env = env
	cmd.Stderr = os.Stderr
	in, err := cmd.StdinPipe()
	if err != nil {
		return nil, err
	}
	out, err := cmd.StdoutPipe()
	if err != nil {
		return nil, err
	}
	if err := cmd.Start(); err != nil {
		return nil, err
	}
	c := &c28Child{cmd: cmd, in: in, out: bufio.NewReaderSize(out, 1<<16)}
	c28Children[tz] = c
	// the child must really live in that zone (a missing zone database would silently give UTC)
	loc, err := time.LoadLocation(c28Zones[tz])
	if err != nil {
		return nil, err
	}
	for _, ts := range []int64{1700000000, 1690000000, 86400 * 200} {
		_, want := time.Unix(ts, 0).In(loc).Zone()
		got, err := c.ask("Z " + strconv.FormatInt(ts, 10))
		if err != nil || got != strconv.Itoa(want) {
			return nil, fmt.Errorf("child for %s reports offset %q at %d, zone database says %d (%v)", c28Zones[tz], got, ts, want, err)
		}
	}
	return c, nil
}

func (c *c28Child) ask(req string) (string, error) {
	if _, err := io.WriteString(c.in, req+"\n"); err != nil {
		return "", err
	}
	line, err := c.out.ReadString('\n')
	if err != nil {
		return "", err
	}
	return strings.TrimRight(line, "\n"), nil
}

func c28Done() {
	for _, c := range c28Children {
		c.in.Close()
		_ = c.cmd.Wait()
	}
}

func c28Run(f []string) string {
	ask := func(tzs, req string) string {
		tz, err := strconv.Atoi(tzs)
		if err != nil {
			return "bad-args"
		}
		c, err := c28GetChild(tz)
		if err != nil {
			fmt.Fprintln(os.Stderr, "C28:", err)
			os.Exit(2)
		}
		r, err := c.ask(req)
		if err != nil {
			// the child died (a crash that recover() cannot catch): report and restart lazily
			delete(c28Children, tz)
			return "child-died"
		}
		return r
	}
	switch f[0] {
	case "abs":
		if len(f) != 9 {
			return "bad-args"
		}
		return ask(f[1], "A "+f[3])
	case "mal":
		if len(f) != 4 {
			return "bad-args"
		}
		return ask(f[1], "A "+f[3])
	case "rel":
		if len(f) != 3 {
			return "bad-args"
		}
		return ask(f[1], "A "+f[2])
	case "rng":
		if len(f) != 8 {
			return "bad-args"
		}
		return ask(f[1], "R "+f[4]+" "+f[5])
	case "rngc":
		if len(f) != 8 {
			return "bad-args"
		}
		return ask(f[1], "C "+f[4]+" "+f[5])
	case "fmt":
		if len(f) != 4 {
			return "bad-args"
		}
		li, _ := strconv.Atoi(f[1])
		ts, _ := strconv.ParseInt(f[2], 10, 64)
		off, _ := strconv.Atoi(f[3])
		ls := c28Layouts()
		if li < 0 || li >= len(ls) {
			return "bad-layout-index"
		}
		return esc(time.Unix(ts, 0).In(time.FixedZone("", off)).Format(ls[li]))
	}
	return "bad-op"
}

// ---------------------------------------------------------------- generator

func c28Layouts() []string {
	var ls []string
	for _, f := range query.TimeFormatsDefault() {
		ls = append(ls, f.Format)
	}
	for _, f := range query.TimeFormatsCustom() {
		ls = append(ls, f.Format)
	}
	return ls
}

func c28HasZone(layout string) bool {
	return strings.Contains(layout, "-0700") || strings.Contains(layout, "Z07:00")
}

func c28HasSeconds(layout string) bool { return strings.Contains(layout, "05") }

type c28Seg struct{ start, end, off int64 }

func c28RawSeg(loc *time.Location, ts int64) c28Seg {
	t := time.Unix(ts, 0).In(loc)
	s, e := t.ZoneBounds()
	_, off := t.Zone()
	sg := c28Seg{math.MinInt64, math.MaxInt64, int64(off)}
	if !s.IsZero() {
		sg.start = s.Unix()
	}
	if !e.IsZero() {
		sg.end = e.Unix()
	}
	return sg
}

// c28SegAt: the segment of constant offset around ts. Beyond the last transition of the zone file
// Go derives the bounds from the POSIX rule year by year, and on the last day of a leap year the
// bounds it reports do not contain the instant asked for (the offset is right). The model wants
// the offset as a function of time, so such an answer is widened to the gap between its
// neighbours.
func c28SegAt(loc *time.Location, ts int64) c28Seg {
	sg := c28RawSeg(loc, ts)
	if ts >= sg.start && ts < sg.end {
		return sg
	}
	lo, hi := ts, ts+1
	for k := int64(1); k <= 100; k++ {
		p := c28RawSeg(loc, ts-k*3600)
		if ts-k*3600 >= p.start && ts-k*3600 < p.end {
			lo = p.end
			break
		}
		lo = ts - k*3600
	}
	for k := int64(1); k <= 100; k++ {
		p := c28RawSeg(loc, ts+k*3600)
		if ts+k*3600 >= p.start && ts+k*3600 < p.end {
			hi = p.start
			break
		}
		hi = ts + k*3600 + 1
	}
	if lo > ts {
		lo = ts
	}
	if hi <= ts {
		hi = ts + 1
	}
	return c28Seg{lo, hi, sg.off}
}

// c28Table: the zone segments at, before and after each candidate instant
func c28Table(loc *time.Location, cands []int64) string {
	segs := map[c28Seg]bool{}
	for _, c := range cands {
		s := c28SegAt(loc, c)
		segs[s] = true
		if s.start != math.MinInt64 {
			segs[c28SegAt(loc, s.start-1)] = true
		}
		if s.end != math.MaxInt64 {
			segs[c28SegAt(loc, s.end)] = true
		}
	}
	var l []c28Seg
	for s := range segs {
		l = append(l, s)
	}
	sort.Slice(l, func(i, j int) bool { return l[i].start < l[j].start })
	var out []string
	for _, s := range l {
		out = append(out, fmt.Sprintf("%d:%d:%d", s.start, s.end, s.off))
	}
	return listField(out)
}

func c28FloorMod(a, m int64) int64 { return ((a % m) + m) % m }

// c28Denoted: the instants the text of `ts` (layout li, written at offset off) denotes: ts at the
// layout's precision first; for zone-less layouts also every other instant of the local zone with
// the same wall-clock reading (repeated hour when clocks are set back)
func c28Denoted(loc *time.Location, layout string, ts, off int64) []int64 {
	tr := ts
	if !c28HasSeconds(layout) {
		tr = ts - c28FloorMod(ts+off, 60)
	}
	out := []int64{tr}
	if !c28HasZone(layout) {
		s := c28SegAt(loc, tr)
		var others []int64
		if s.start != math.MinInt64 {
			others = append(others, c28SegAt(loc, s.start-1).off)
		}
		if s.end != math.MaxInt64 {
			others = append(others, c28SegAt(loc, s.end).off)
		}
		for _, o := range others {
			t2 := tr + off - o
			if t2 != tr && c28SegAt(loc, t2).off == o {
				dup := false
				for _, x := range out {
					dup = dup || x == t2
				}
				if !dup {
					out = append(out, t2)
				}
			}
		}
	}
	return out
}

// c28OtherReadings: what the text denotes under each supported layout other than li (Go's own parser)
func c28OtherReadings(loc *time.Location, ls []string, li int, text string) []int64 {
	var out []int64
	seen := map[int64]bool{}
	for j, l := range ls {
		if j == li {
			continue
		}
		if t, err := time.ParseInLocation(l, text, loc); err == nil && !seen[t.Unix()] {
			seen[t.Unix()] = true
			out = append(out, t.Unix())
		}
	}
	return out
}

func c28Vals(prefix string, xs []int64) string {
	var out []string
	for _, x := range xs {
		out = append(out, prefix+strconv.FormatInt(x, 10))
	}
	return listField(out)
}

var c28End = time.Date(2069, 1, 1, 0, 0, 0, 0, time.UTC).Unix() // instants are sampled in [0, c28End)

var c28FixedOffsets = []int{0, 3600, 7200, -28800, -25200, 19800, 45900, 49500, -34200, 50400, -43200, 20700, 60, -60, 86340, -86340}

// c28Instant samples an instant in 1970–2068: uniform, month ends, leap days, the 68/69 pivot of
// two-digit years, zone transitions of `loc`, minute/second boundaries
func c28Instant(r *Rand, loc *time.Location) (int64, string) {
	clamp := func(t int64) int64 {
		if t < 0 {
			return 0
		}
		if t >= c28End {
			return c28End - 1
		}
		return t
	}
	jitter := func() int64 { return Pick(r, []int64{-86400, -3600, -61, -60, -59, -2, -1, 0, 1, 2, 59, 60, 61, 3599, 3600, 86399}) }
	switch r.Intn(8) {
	case 0: // month boundary (UTC midnight of the 1st, shifted by the local offset, +- jitter)
		y, m := 1970+r.Intn(99), 1+r.Intn(12)
		t := time.Date(y, time.Month(m), 1, 0, 0, 0, 0, loc).Unix()
		return clamp(t + jitter()), "month-end"
	case 1: // leap days
		y := Pick(r, []int{1972, 1976, 1996, 2000, 2004, 2024, 2028, 2048, 2064, 2068, 1999, 2001, 2023, 2025, 2067})
		d := Pick(r, []int{28, 29, 30})
		t := time.Date(y, 2, d, r.Intn(24), r.Intn(60), r.Intn(60), 0, loc).Unix()
		return clamp(t + Pick(r, []int64{0, 0, -86400, 86400})), "leap-day"
	case 2: // two-digit-year pivot: around 1970-01-01 and 2069-01-01
		if r.Bool() {
			return clamp(r.I64n(3*86400) + jitter()), "pivot-1969/70"
		}
		return clamp(c28End - 1 - r.I64n(3*86400) + jitter()), "pivot-2068/69"
	case 3: // zone transition of loc (if it has any)
		t := r.I64n(c28End)
		s := c28SegAt(loc, t)
		if s.end != math.MaxInt64 && s.end < c28End {
			w := Pick(r, []int64{-7200, -3601, -3600, -3599, -1800, -1, 0, 1, 1800, 3599, 3600, 3601, 7200})
			return clamp(s.end + w + int64(r.Intn(3))*60*int64(r.Intn(30))), "zone-transition"
		}
		return t, "uniform"
	case 4: // minute / hour / day boundaries
		t := r.I64n(c28End)
		u := Pick(r, []int64{60, 3600, 86400})
		return clamp(t - t%u + Pick(r, []int64{-1, 0, 1, 59})), "boundary"
	default:
		return r.I64n(c28End), "uniform"
	}
}

type c28Item struct {
	text    string
	denoted string  // a<i>, n<d> or x
	abs     bool    // absolute with known denotation
	val     int64   // instant if abs
	cands   []int64 // instants whose zone segments the model may need
	vals    []int64 // absolute values the text may parse to (readings under any layout)
}

// c28AbsItem formats instant ts under layout li (zone: local, or a fixed offset if the layout has a zone element)
func c28AbsItem(r *Rand, loc *time.Location, ls []string, li int, ts0 int64) (text string, ts, off int64, exp, alts []int64) {
	ts = ts0
	zone := loc
	if c28HasZone(ls[li]) && r.Chance(2, 3) {
		o := Pick(r, c28FixedOffsets)
		if r.Chance(1, 4) {
			o = (r.Intn(2*1439) - 1439) * 60
		}
		zone = time.FixedZone("", o)
	}
	t := time.Unix(ts, 0).In(zone)
	for t.Year() > 2068 { // the written (local) year stays within the two-digit-year window 1969–2068
		ts -= 86400
		t = time.Unix(ts, 0).In(zone)
	}
	_, o := t.Zone()
	off = int64(o)
	text = t.Format(ls[li])
	exp = c28Denoted(loc, ls[li], ts, off)
	in := map[int64]bool{}
	for _, e := range exp {
		in[e] = true
	}
	for _, a := range c28OtherReadings(loc, ls, li, text) {
		if !in[a] {
			alts = append(alts, a)
		}
	}
	return
}

func c28AllReadings(loc *time.Location, ls []string, text string) []int64 {
	out := c28OtherReadings(loc, ls, -1, text)
	return append(out, 1700000000)
}

var c28MalAlphabet = []byte("0123456789 -:./,TZ+_JanFebMondDhms")

func c28Mutate(r *Rand, s string) string {
	b := []byte(s)
	if len(b) == 0 {
		return "x"
	}
	i := r.Intn(len(b))
	switch r.Intn(12) {
	case 0:
		b = append(b[:i], b[i+1:]...)
	case 1:
		b = append(b[:i], append([]byte{Pick(r, c28MalAlphabet)}, b[i:]...)...)
	case 2:
		b[i] = Pick(r, c28MalAlphabet)
	case 3:
		b = append(b, []byte(Pick(r, []string{" ", "Z", ".5", ".123456789", ",25", " UTC", "x", "0", " +0100"}))...)
	case 4: // fractional seconds after the seconds, where there are any
		if j := strings.LastIndex(s, ":"); j >= 0 && j+3 <= len(s) {
			b = []byte(s[:j+3] + Pick(r, []string{".5", ",75", ".000000001", ".1234567891234", ".", ".x"}) + s[j+3:])
		}
	case 5: // change case
		for k := range b {
			if r.Chance(1, 3) && b[k] >= 'A' && b[k] <= 'z' {
				b[k] ^= 0x20
			}
		}
	case 6: // double / drop a space
		if j := strings.Index(s, " "); j >= 0 {
			if r.Bool() {
				b = []byte(s[:j] + "  " + s[j+1:])
			} else {
				b = []byte(s[:j] + s[j+1:])
			}
		}
	case 7: // bump a digit
		for k := 0; k < len(b); k++ {
			j := (i + k) % len(b)
			if b[j] >= '0' && b[j] <= '9' {
				b[j] = '0' + byte(r.Intn(10))
				break
			}
		}
	case 8: // drop a leading zero
		if j := strings.Index(s, "0"); j >= 0 {
			b = []byte(s[:j] + s[j+1:])
		}
	case 9:
		b = []byte(" " + s)
	case 10:
		b = []byte(strings.Replace(s, ":", Pick(r, []string{".", "-", " ", "::"}), 1))
	default:
		b = []byte(strings.Replace(s, " ", Pick(r, []string{"T", "_", "  ", "\t"}), 1))
	}
	return string(b)
}

var c28MalFixed = []string{
	"", " ", "-", "+", "0", "1700000000", "+5", "+0", "00012", " 12", "12 ", "1_000", "9223372036854775807", "9223372036854775808",
	"+9223372036854775807", "1e9", "0x10", "2020", "20200101", "2020-01-01", "2020-02-30 10:00", "2021-02-29 10:00", "2020-02-29 10:00",
	"2020-13-01 10:00", "2020-00-10 10:00", "2020-01-00 10:00", "2020-04-31 10:00", "2020-01-01 24:00", "2020-01-01 23:60", "2020-01-01 23:59:60",
	"2020-01-01 7:05", "2020-01-01 07:5", "2020-1-01 07:05", "1.1.20 1:01", "31.12.99 23:59", "1.1.69 00:00", "1.1.68 00:00", "01.01.+5 10:00", "01.01.-5 10:00",
	"01-02-03 04:05", "31-12-99 23:59:59", "99-12-31 23:59:59", "12-31-99 23:59", "2020-01-01 10:00:00.5", "2020-01-01 10:00:00,5", "2020-01-01 10:00:00.",
	"2020-01-01 10:00 +2460", "2020-01-01 10:00 +2500", "2020-01-01 10:00 +0061", "2020-01-01 10:00 -0000", "2020-01-01 10:00 0100", "2020-01-01 10:00 +01:00",
	"2020-01-01T10:00:00Z", "2020-01-01T10:00:00z", "2020-01-01t10:00:00Z", "2020-01-01T10:00:00+01:00", "2020-01-01T10:00:00.123+01:00", "2020-01-01T10:00:00+0100",
	"2020-01-01T10:00:00", "2020-01-01T10:00:00-24:00", "2020-01-01T10:00:00+24:60", "2020-01-01T1:00:00Z",
	"Mon Jan  2 15:04:05 2006", "Mon Jan 2 15:04:05 2006", "mon jan  2 15:04:05 2006", "Tue Jan  2 15:04:05 2006", "Mon Jan 02 15:04:05 2006", "Xyz Jan  2 15:04:05 2006",
	"Mon Jan 02 15:04:05 -0700 2006", "Mon, 02 Jan 2006 15:04:05 -0700", "Mon,02 Jan 2006 15:04:05 -0700", "Mon,  02 Jan 2006 15:04:05 -0700", "02 Jan 06 15:04 -0700",
	"02 jan 06 15:04 +0000", "02 Jan 69 15:04 -0700", "02 Jan 68 15:04 -0700", "30 Feb 06 15:04 -0700", "2021-03-28 02:30", "2021-10-31 02:30", "2021-03-14 02:30:00", "2021-11-07 01:30:00",
	"2021-04-04 02:50", "2021-09-26 02:50", "2021-09-26 03:10", "0000-01-01 00:00", "9999-12-31 23:59:59", "10000-01-01 00:00", "1900-01-01 00:00:00", "1883-11-18 12:00:00",
	"now", "yesterday", "5d", "d", "2020-01-01 10:00\n", "2020-01-01\t10:00", "２０２０-01-01 10:00", "2020-01-01 10:00 ", "2020-01-01  10:00", "2020-01-0110:00",
}

var c28RelFixed = []string{
	"-5d4h5m", "-5d:4h:5m", "-15d:04h:05m", "-15d4h5m", "-5d", "-4h", "-5m", "-4h5m", "-5d5m", "-5d:5m", "-0d", "-0d0h0m", "-00d:00h:00m", "-1d:1h", "-1h:1m",
	"-2562047h", "-2562048h", "-0d2562047h", "-0d2562048h", "-0d:2562048h", "-153722867m", "-153722868m", "-106751d", "-106752d", "-106751d23h47m", "-106751d:23h:47m",
	"-106751991167300d", "-106751991167301d", "-106751991167300d:0h", "-106751991167301d:0h", "-9223372036854775807d", "-9223372036854775808d", "-9223372036854775807d:1h",
	"-2562047788015215h:0m", "-2562047788015216h:0m", "-153722867280912930m:0d", "-153722867280912931m:0d",
	"--5d", "--5d:4h", "-+5d", "-+5d:+4h", "-5d-4h", "-5d+4h", "-5d:-4h", "-d", "-h", "-m", "-:", "-5d:", "-:5d", "-5d::4h", "-5", "-5x", "-5D", "-5d4H", "-5d 4h", "- 5d", "-5 d",
	"-5d5d", "-5dd", "-d5", "-5d4h5m6s", "-5d:4h:5m:6s", "-30s", "-90s:0m", "-1.5h", "-1.5h:0m", "-5d1.5h", "-0.5m", "-.5m", "-5.m", "-.m", "-1h30m15s", "-1h1h", "-1m1h", "-1h:1d",
	"-4660h0.999999999s", "-2330h0.999999999s", "-1165h0.999999999s", "-16777216s0.999999999s", "-1ns", "-999999999ns", "-1000000000ns", "-1us", "-1000000µs", "-1000000μs", "-1500ms", "-5d1500ms",
	"-0", "-00", "-0s", "-5d0", "-5d00", "-5dh", "-5d4", "-5d4h5", "-9223372036854775808ns", "-9223372036854775807ns", "-5d-9223372036854775808ns", "-0.9999999999999999999999h",
	"-1d2d3h", "-1dxd2h", "-dd", "-1d:2dd", "-1:2", "-1d:2", "-١d", "-5d\n", "-5m ", "-05d04h05m", "-005d:004h:005m", "-1d24h60m", "-1d:24h:60m",
}

func c28RelText(r *Rand) string {
	num := func(max int64) string {
		var v int64
		switch r.Intn(6) {
		case 0:
			v = 0
		case 1:
			v = r.I64n(10)
		case 2:
			v = r.I64n(100)
		case 3:
			v = r.I64n(max)
		default:
			v = r.I64n(1000)
		}
		s := strconv.FormatInt(v, 10)
		if r.Chance(1, 5) {
			s = strings.Repeat("0", 1+r.Intn(2)) + s
		}
		return s
	}
	for {
		var parts []string
		if r.Chance(2, 3) {
			parts = append(parts, num(106751)+"d")
		}
		if r.Chance(2, 3) {
			parts = append(parts, num(2562047)+"h")
		}
		if r.Chance(2, 3) {
			parts = append(parts, num(153722867)+"m")
		}
		if len(parts) == 0 {
			continue
		}
		if r.Bool() {
			return "-" + strings.Join(parts, ":")
		}
		return "-" + strings.Join(parts, "")
	}
}

func c28Gen(r *Rand, tier string) []Case {
	nAbs, nMal, nRel, nRng, nFmt := 9000, 3500, 2500, 3000, 2000
	if tier == "thorough" {
		nAbs, nMal, nRel, nRng, nFmt = 1800000, 400000, 300000, 400000, 200000
	}
	ls := c28Layouts()
	locs := make([]*time.Location, len(c28Zones))
	for i, z := range c28Zones {
		l, err := time.LoadLocation(z)
		if err != nil {
			fmt.Fprintln(os.Stderr, "C28: cannot load zone", z, err)
			os.Exit(2)
		}
		locs[i] = l
	}
	var cs []Case

	absCase := func(tz, li int, ts int64, kind string) (Case, string, []int64, []int64) {
		text, ts, off, exp, alts := c28AbsItem(r, locs[tz], ls, li, ts)
		cands := append(append([]int64{ts}, exp...), alts...)
		line := fmt.Sprintf("C28 abs %d %s %s %d %d %d %s %s", tz, c28Table(locs[tz], cands), esc(text), li, ts, off, c28Vals("a", exp), c28Vals("a", alts))
		cls := "abs:" + kind
		if len(alts) > 0 {
			cls += "+other-layout-reading"
		}
		if len(exp) > 1 {
			cls += "+repeated-wall-clock"
		}
		return Case{Line: line, Class: cls, NonTrivial: true}, text, exp, alts
	}

	// every layout in every zone at least a few times, then random
	for li := range ls {
		for tz := range c28Zones {
			for k := 0; k < 2; k++ {
				ts, kind := c28Instant(r, locs[tz])
				c, _, _, _ := absCase(tz, li, ts, kind)
				cs = append(cs, c)
			}
		}
	}
	for len(cs) < nAbs {
		tz := r.Intn(len(c28Zones))
		ts, kind := c28Instant(r, locs[tz])
		c, _, _, _ := absCase(tz, r.Intn(len(ls)), ts, kind)
		cs = append(cs, c)
	}

	// malformed / near-valid texts
	malCase := func(tz int, text, cls string) Case {
		return Case{Line: fmt.Sprintf("C28 mal %d %s %s", tz, c28Table(locs[tz], c28AllReadings(locs[tz], ls, text)), esc(text)), Class: cls, NonTrivial: false}
	}
	for _, s := range c28MalFixed {
		for tz := range c28Zones {
			cs = append(cs, malCase(tz, s, "mal:fixed"))
		}
	}
	for i := 0; i < nMal; i++ {
		tz := r.Intn(len(c28Zones))
		var text, cls string
		switch r.Intn(5) {
		case 0: // random bytes from the alphabet
			n := r.Intn(24)
			b := make([]byte, n)
			for k := range b {
				b[k] = Pick(r, c28MalAlphabet)
			}
			text, cls = string(b), "mal:random"
		case 1: // epoch-seconds-like
			text = strconv.FormatInt(int64(r.U64()>>uint(r.Intn(64))), 10)
			if r.Chance(1, 4) {
				text = Pick(r, []string{"+", "0", " ", "00"}) + text
			}
			cls = "mal:epoch"
		default: // one or two mutations of a valid text
			ts, _ := c28Instant(r, locs[tz])
			text, _, _, _, _ = c28AbsItem(r, locs[tz], ls, r.Intn(len(ls)), ts)
			text = c28Mutate(r, text)
			if r.Chance(1, 4) {
				text = c28Mutate(r, text)
			}
			cls = "mal:mutated"
		}
		cs = append(cs, malCase(tz, text, cls))
	}

	// relative
	for _, s := range c28RelFixed {
		cs = append(cs, Case{Line: fmt.Sprintf("C28 rel %d %s", r.Intn(len(c28Zones)), esc(s)), Class: "rel:fixed", NonTrivial: true})
	}
	for i := 0; i < nRel; i++ {
		s := c28RelText(r)
		cls := "rel:well-formed"
		if r.Chance(1, 5) {
			s = "-" + c28Mutate(r, s[1:])
			cls = "rel:mutated"
		}
		cs = append(cs, Case{Line: fmt.Sprintf("C28 rel %d %s", r.Intn(len(c28Zones)), esc(s)), Class: cls, NonTrivial: cls == "rel:well-formed"})
	}

	// ranges
	lo, hi := time.Date(2019, 1, 1, 0, 0, 0, 0, time.UTC).Unix(), time.Date(2062, 1, 1, 0, 0, 0, 0, time.UTC).Unix()
	item := func(tz int, last bool, near int64) c28Item {
		switch r.Intn(10) {
		case 0: // empty
			if last {
				return c28Item{text: "", denoted: "n0"}
			}
			return c28Item{text: "", denoted: "a0", abs: true, val: 0, cands: nil, vals: []int64{0}}
		case 1: // relative, at most three years back
			d, h, m := r.I64n(1000), r.I64n(24), r.I64n(60)
			s := fmt.Sprintf("-%dd%dh%dm", d, h, m)
			if r.Bool() {
				s = fmt.Sprintf("-%dd:%dh:%dm", d, h, m)
			}
			return c28Item{text: s, denoted: "n" + strconv.FormatInt(d*86400+h*3600+m*60, 10)}
		case 2: // epoch seconds
			v := r.I64n(c28End)
			if near >= 0 && r.Bool() {
				v = near + Pick(r, []int64{-1, 0, 1})
			}
			if v < 0 { // "-1" would be a relative time, not epoch seconds
				v = 0
			}
			return c28Item{text: strconv.FormatInt(v, 10), denoted: "a" + strconv.FormatInt(v, 10), abs: true, val: v, vals: []int64{v}}
		case 3: // malformed
			s := Pick(r, []string{"x", "2020-13-01 10:00", "-5x", "12:00", "-d"})
			rd := c28AllReadings(locs[tz], ls, s)
			return c28Item{text: s, denoted: "x", cands: rd, vals: rd[:len(rd)-1]}
		default:
			ts, _ := c28Instant(r, locs[tz])
			if near >= 0 && r.Chance(1, 2) {
				ts = near + Pick(r, []int64{-61, -60, -1, 0, 1, 60, 61, -3600, 3600})
				if ts < 0 {
					ts = 0
				}
				if ts >= c28End {
					ts = c28End - 1
				}
			}
			text, ts, _, exp, alts := c28AbsItem(r, locs[tz], ls, r.Intn(len(ls)), ts)
			it := c28Item{text: text, denoted: "x", cands: append(append([]int64{ts}, exp...), alts...), vals: append(append([]int64{}, exp...), alts...)}
			if len(exp) == 1 && len(alts) == 0 {
				it.denoted, it.abs, it.val = "a"+strconv.FormatInt(exp[0], 10), true, exp[0]
			}
			return it
		}
	}
	for i := 0; i < nRng; i++ {
		tz := r.Intn(len(c28Zones))
		a := item(tz, false, -1)
		near := int64(-1)
		if a.abs {
			near = a.val
		}
		b := item(tz, true, near)
		// a clock-relative bound next to an absolute one: keep the absolute one clear of the clock
		// (outside 2019–2061) so that the verdict does not depend on when the check runs
		relA, relB := strings.HasPrefix(a.denoted, "n"), strings.HasPrefix(b.denoted, "n")
		nearClock := func(it c28Item) bool {
			for _, v := range it.vals {
				if v > lo && v < hi {
					return true
				}
			}
			return false
		}
		if (relA && nearClock(b)) || (relB && nearClock(a)) {
			i--
			continue
		}
		cls := "rng:unspecified"
		if a.denoted != "x" && b.denoted != "x" {
			cls = "rng:denoted"
		}
		cands := append(append([]int64{1700000000}, a.cands...), b.cands...)
		op := "rng"
		if r.Chance(1, 3) { // the variant used by the query arguments
			op, cls = "rngc", strings.Replace(cls, "rng:", "rngc:", 1)
		}
		cs = append(cs, Case{
			Line:       fmt.Sprintf("C28 %s %d %s %d %s %s %s %s", op, tz, c28Table(locs[tz], cands), c28NominalNow, esc(a.text), esc(b.text), a.denoted, b.denoted),
			Class:      cls,
			NonTrivial: strings.HasSuffix(cls, ":denoted"),
		})
	}

	// validation of the Lean model of Format
	for i := 0; i < nFmt; i++ {
		ts, _ := c28Instant(r, time.UTC)
		o := Pick(r, c28FixedOffsets)
		if r.Chance(1, 3) {
			o = (r.Intn(2*1439) - 1439) * 60
		}
		cs = append(cs, Case{Line: fmt.Sprintf("C28 fmt %d %d %d", r.Intn(len(ls)), ts, o), Class: "fmt", NonTrivial: false})
	}
	return cs
}

func init() {
	register(&Prop{
		ID: "C28",
		Rule: "seeded; the real ParseTimeArgument / ParseTimeRange run in child processes under TZ in {UTC, Europe/Zurich, America/Los_Angeles, Asia/Kolkata, Pacific/Chatham}. " +
			"abs: an instant of 1970-2068 (uniform, month ends, leap days, the 1969/70 and 2068/69 two-digit-year pivots, the zone's transitions +-2h, minute/hour/day boundaries) written by Go's Time.Format in one of the supported layouts (every layout x zone at least twice), zone-bearing layouts at the local or a fixed offset (whole minutes, |off| < 24h); the case carries the instants the text denotes, the other layouts' readings and the zone segments around them. " +
			"mal: fixed near-miss list x 5 zones, 1-2 mutations of valid texts, random strings, epoch-like integers. rel: fixed list (limits of int64/Duration, signs, fractions, units) + random -XdYhZm / -Xd:Yh:Zm with optional parts and zero padding, 1/5 mutated. " +
			"rng / rngc (ParseTimeRange / ParseTimeRangeCollectErrors): pairs of (formatted instant | epoch seconds | relative | empty | malformed), the second often within +-1s/1min of the first. fmt: Lean Format model vs Go Format. " +
			"Non-trivial: abs cases, well-formed rel cases, rng cases whose two bounds have a known denotation. Distinct = distinct case lines.",
		Gen:  c28Gen,
		Run:  c28Run,
		Done: c28Done,
	})
}
