//go:build verif_all || verif_c08

package main

import (
	"context"
	"fmt"
	"io"
	"net"
	"os"
	"path/filepath"
	"sort"
	"strconv"
	"strings"
	"sync"
	"time"

	"github.com/els0r/goProbe/v4/pkg/goDB/encoder/encoders"
	"github.com/els0r/goProbe/v4/pkg/goDB/engine"
	"github.com/els0r/goProbe/v4/pkg/query"
	"github.com/els0r/goProbe/v4/pkg/results"
	"github.com/els0r/goProbe/v4/pkg/types"
)

// C08 — query results equal a direct aggregation of the stored flows.
//
// A case is a write history (every write-out goes through the real DBWriter into a temp database)
// plus one query, which is run through the real engine.QueryRunner.Run.
//
// wire:  C08 q <attrs> <cond> <dir> <first> <last> <ifaces> <history>
//   attrs   = non-empty comma list out of sip,dip,dport,proto,time,iface (the query type)
//   cond    = "-" (none) or a condition tree in postfix notation, tokens joined by ',':
//             leaf  <attr>.<cmp>.<value>   attr sip|dip (value = address, 8 or 32 hex digits)
//                                          attr dport|proto (value = decimal)
//                                          cmp eq|ne|lt|gt|le|ge
//             and | or (two operands) , not (one operand)
//   dir     = "-" | in | out | uni | bi   (direction filter, conjoined at the top of the condition)
//   ifaces  = comma list of interface names, or "any"
//   history = DB.parseHistory format:  iface|ts|drops|flow,flow,…;…   (write order)
// out:   rows=<row,…>|totals=br:bs:pr:ps|hits=n     rows sorted;
//        row = iface@<ts or ->/<sip or ->:<dip or ->:<dport or ->:<proto or ->:br:bs:pr:ps
//        ("-" for everything that is not part of the query type), or err:<class>
//
// Only simple conditions and CIDR networks (no host names, no aliases) are generated: the
// semantics of condition evaluation itself is property C09's subject.

type c08WriteOut struct {
	Iface string
	TS    int64
	Drops uint64
	Flows []Flow
}

func (w c08WriteOut) String() string {
	return fmt.Sprintf("%s|%d|%d|%s", w.Iface, w.TS, w.Drops, flowsField(w.Flows))
}

func c08ParseHistory(s string) ([]c08WriteOut, error) {
	var out []c08WriteOut
	for _, ws := range splitSemi(s) {
		p := strings.Split(ws, "|")
		if len(p) != 4 || p[0] == "" {
			return nil, fmt.Errorf("bad write-out %q", ws)
		}
		ts, err := strconv.ParseInt(p[1], 10, 64)
		if err != nil {
			return nil, err
		}
		dr, err := strconv.ParseUint(p[2], 10, 64)
		if err != nil {
			return nil, err
		}
		out = append(out, c08WriteOut{Iface: p[0], TS: ts, Drops: dr, Flows: parseFlows(p[3])})
	}
	return out, nil
}

// ------------------------------------------------------------------------------ conditions

type c08Cond struct {
	op   string // leaf | and | or | not
	attr string
	cmp  string
	val  string
	l, r *c08Cond
}

var c08CmpText = map[string]string{"eq": "=", "ne": "!=", "lt": "<", "gt": ">", "le": "<=", "ge": ">="}

func c08ParseCond(s string) (*c08Cond, error) {
	if s == "-" {
		return nil, nil
	}
	var st []*c08Cond
	for _, t := range strings.Split(s, ",") {
		switch t {
		case "and", "or":
			if len(st) < 2 {
				return nil, fmt.Errorf("stack underflow")
			}
			a, b := st[len(st)-2], st[len(st)-1]
			st = append(st[:len(st)-2], &c08Cond{op: t, l: a, r: b})
		case "not":
			if len(st) < 1 {
				return nil, fmt.Errorf("stack underflow")
			}
			a := st[len(st)-1]
			st = append(st[:len(st)-1], &c08Cond{op: "not", l: a})
		default:
			p := strings.Split(t, ".")
			if len(p) != 3 || c08CmpText[p[1]] == "" {
				return nil, fmt.Errorf("bad leaf %q", t)
			}
			st = append(st, &c08Cond{op: "leaf", attr: p[0], cmp: p[1], val: p[2]})
		}
	}
	if len(st) != 1 {
		return nil, fmt.Errorf("bad postfix expression")
	}
	return st[0], nil
}

func (c *c08Cond) wire() string {
	switch c.op {
	case "leaf":
		return c.attr + "." + c.cmp + "." + c.val
	case "not":
		return c.l.wire() + ",not"
	}
	return c.l.wire() + "," + c.r.wire() + "," + c.op
}

// text renders the condition in goQuery's condition grammar (fully parenthesised)
func (c *c08Cond) text() string {
	switch c.op {
	case "leaf":
		v := c.val
		if c.attr == "sip" || c.attr == "dip" {
			v = net.IP(unhex(c.val)).String()
		}
		if c.attr == "snet" || c.attr == "dnet" {
			// <hex address>/<prefix length in bits> -> CIDR text
			hv := strings.Split(c.val, "/")
			v = net.IP(unhex(hv[0])).String() + "/" + hv[1]
		}
		return c.attr + " " + c08CmpText[c.cmp] + " " + v
	case "not":
		return "!(" + c.l.text() + ")"
	case "and":
		return "(" + c.l.text() + " & " + c.r.text() + ")"
	}
	return "(" + c.l.text() + " | " + c.r.text() + ")"
}

// ------------------------------------------------------------------------------ databases

var (
	c08WorkDir string
	c08Mu      sync.Mutex
	c08DBs     = map[string]*c08DB{}
)

type c08DB struct {
	once sync.Once
	path string
	err  error
}

// c08Database writes the history through the real DBWriter (once per distinct history)
func c08Database(hist string) (string, error) {
	c08Mu.Lock()
	d := c08DBs[hist]
	if d == nil {
		d = &c08DB{path: filepath.Join(c08WorkDir, fmt.Sprintf("db%d", len(c08DBs)))}
		c08DBs[hist] = d
	}
	c08Mu.Unlock()
	d.once.Do(func() {
		ws, err := c08ParseHistory(hist)
		if err != nil {
			d.err = err
			return
		}
		if d.err = os.MkdirAll(d.path, 0o755); d.err != nil {
			return
		}
		for _, w := range ws {
			if err := writeOut(d.path, w.Iface, w.TS, w.Drops, w.Flows, encoders.EncoderTypeLZ4); err != nil {
				d.err = err
				return
			}
		}
	})
	return d.path, d.err
}

// ------------------------------------------------------------------------------ run

func c08Has(attrs []string, a string) bool {
	for _, x := range attrs {
		if x == a {
			return true
		}
	}
	return false
}

func c08Render(res *results.Result, attrs []string) string {
	if res == nil {
		return "err:nil-result"
	}
	if res.Status.Code != types.StatusOK && res.Status.Code != types.StatusEmpty && res.Status.Code != types.StatusMissingData {
		return "err:status-" + esc(string(res.Status.Code))
	}
	sel := func(a, v string) string {
		if c08Has(attrs, a) {
			return v
		}
		return "-"
	}
	var rows []string
	for _, r := range res.Rows {
		rows = append(rows, fmt.Sprintf("%s@%s/%s:%s:%s:%s:%d:%d:%d:%d", r.Labels.Iface,
			sel("time", strconv.FormatInt(r.Labels.Timestamp.Unix(), 10)),
			sel("sip", addrHex(r.Attributes.SrcIP)), sel("dip", addrHex(r.Attributes.DstIP)),
			sel("dport", strconv.Itoa(int(r.Attributes.DstPort))), sel("proto", strconv.Itoa(int(r.Attributes.IPProto))),
			r.Counters.BytesRcvd, r.Counters.BytesSent, r.Counters.PacketsRcvd, r.Counters.PacketsSent))
	}
	sort.Strings(rows)
	t := res.Summary.Totals
	return fmt.Sprintf("rows=%s|totals=%d:%d:%d:%d|hits=%d", listField(rows), t.BytesRcvd, t.BytesSent, t.PacketsRcvd, t.PacketsSent, res.Summary.Hits.Total)
}

func c08ErrClass(err error) string {
	s := err.Error()
	switch {
	case strings.Contains(s, "no interfaces provided"):
		return "noiface"
	case strings.Contains(s, "query preparation failed"), strings.Contains(s, "conditions parsing error"):
		return "prepare"
	}
	return errClass(err)
}

func c08Run(f []string) string {
	if len(f) != 8 || f[0] != "q" {
		return "bad-op"
	}
	attrs := strings.Split(f[1], ",")
	cond, err := c08ParseCond(f[2])
	if err != nil {
		return "bad-args"
	}
	first, err1 := strconv.ParseInt(f[4], 10, 64)
	last, err2 := strconv.ParseInt(f[5], 10, 64)
	if err1 != nil || err2 != nil {
		return "bad-args"
	}
	db, err := c08Database(f[7])
	if err != nil {
		return "err:write-" + errClass(err)
	}
	text := ""
	if cond != nil {
		text = cond.text()
	}
	if f[3] != "-" {
		if text == "" {
			text = "dir = " + f[3]
		} else {
			text = "dir = " + f[3] + " & " + text
		}
	}
	opts := []query.Option{
		query.WithFirst(strconv.FormatInt(first, 10)), query.WithLast(strconv.FormatInt(last, 10)),
		query.WithNumResults(1 << 40), query.WithFormat("json"), query.WithMaxMemPct(90),
	}
	if text != "" {
		opts = append(opts, query.WithCondition(text))
	}
	a := query.NewArgs(f[1], f[6], opts...).AddOutputs(io.Discard)
	ctx, cancel := context.WithTimeout(context.Background(), 60*time.Second)
	defer cancel()
	res, err := engine.NewQueryRunner(db).Run(ctx, a)
	if err != nil {
		if os.Getenv("VERIF_DEBUG") != "" {
			fmt.Fprintf(os.Stderr, "C08 %q: %v\n", text, err)
		}
		return "err:" + c08ErrClass(err)
	}
	return c08Render(res, attrs)
}

// ------------------------------------------------------------------------------ generator

var (
	c08V4S  = [][]byte{{10, 0, 0, 1}, {10, 0, 0, 2}, {10, 0, 0, 3}, {10, 0, 0, 4}, {10, 0, 1, 1}, {10, 0, 1, 2}, {10, 0, 1, 3}, {10, 0, 1, 4}}
	c08V4D  = [][]byte{{192, 168, 1, 1}, {192, 168, 1, 2}, {192, 168, 1, 3}}
	c08Port = []int{53, 80, 443, 8080}
)

func c08V6(prefix []byte, last byte) []byte {
	b := make([]byte, 16)
	copy(b, prefix)
	b[15] = last
	return b
}

// c08GenLeaf draws a leaf over the value universe of genFlows (plus a few values outside it)
func c08GenLeaf(r *Rand, malformed bool) *c08Cond {
	c := &c08Cond{op: "leaf"}
	switch r.Intn(5) {
	case 4:
		// network membership (any prefix length; the address part is masked)
		c.attr = Pick(r, []string{"snet", "dnet"})
		c.cmp = Pick(r, []string{"eq", "eq", "ne"})
		if malformed {
			c.cmp = Pick(r, []string{"lt", "ge"})
		}
		src := c.attr == "snet"
		if r.Chance(1, 8) {
			src = !src
		}
		var ip []byte
		var bits int
		if r.Chance(1, 2) {
			if src {
				ip = Pick(r, c08V4S)
			} else {
				ip = Pick(r, c08V4D)
			}
			bits = Pick(r, []int{0, 1, 7, 8, 9, 12, 15, 16, 17, 20, 23, 24, 25, 27, 29, 30, 31, 32})
		} else {
			if src {
				ip = c08V6([]byte{0x20, 0x01, 0x0d, 0xb8}, byte(1+r.Intn(4)))
			} else {
				ip = c08V6([]byte{0xfe, 0x80}, byte(1+r.Intn(3)))
			}
			bits = Pick(r, []int{0, 3, 10, 16, 32, 33, 64, 100, 121, 125, 126, 127, 128})
		}
		ip = append([]byte{}, ip...)
		for i := range ip { // mask the host bits
			switch {
			case 8*i >= bits:
				ip[i] = 0
			case 8*(i+1) > bits:
				ip[i] &= 0xff << (8 - bits%8)
			}
		}
		h := []byte(hexBytes(ip))
		nib := bits
		c.val = string(h) + "/" + strconv.Itoa(nib)
	case 0, 1:
		c.attr = Pick(r, []string{"sip", "dip"})
		c.cmp = Pick(r, []string{"eq", "eq", "ne"})
		if malformed {
			c.cmp = Pick(r, []string{"lt", "ge"})
		}
		var ip []byte
		src := c.attr == "sip"
		if r.Chance(1, 8) {
			src = !src // an address of the other column's universe (never matches)
		}
		switch {
		case r.Chance(1, 2) && src:
			ip = Pick(r, c08V4S)
		case r.Chance(1, 2) && !src:
			ip = Pick(r, c08V4D)
		case src:
			ip = c08V6([]byte{0x20, 0x01, 0x0d, 0xb8}, byte(1+r.Intn(4)))
		default:
			ip = c08V6([]byte{0xfe, 0x80}, byte(1+r.Intn(3)))
		}
		if r.Chance(1, 12) {
			ip = append([]byte{}, ip...)
			ip[len(ip)-1] = 200 // outside the universe
		}
		c.val = hexBytes(ip)
	case 2:
		c.attr = "dport"
		c.cmp = Pick(r, []string{"eq", "eq", "ne", "lt", "gt", "le", "ge"})
		c.val = strconv.Itoa(Pick(r, []int{53, 80, 443, 8080, 0, 81, 65535}))
	default:
		c.attr = "proto"
		c.cmp = Pick(r, []string{"eq", "eq", "ne", "lt", "gt", "le", "ge"})
		c.val = strconv.Itoa(Pick(r, []int{6, 17, 1, 0, 255}))
	}
	return c
}

func c08GenCond(r *Rand, depth int, malformed bool) *c08Cond {
	if depth == 0 || r.Chance(1, 3) {
		return c08GenLeaf(r, malformed)
	}
	switch r.Intn(5) {
	case 0:
		return &c08Cond{op: "not", l: c08GenCond(r, depth-1, malformed)}
	case 1, 2:
		return &c08Cond{op: "and", l: c08GenCond(r, depth-1, malformed), r: c08GenCond(r, depth-1, false)}
	default:
		return &c08Cond{op: "or", l: c08GenCond(r, depth-1, false), r: c08GenCond(r, depth-1, malformed)}
	}
}

// c08GenHistory: 1-3 interfaces x 1-3 UTC days (optionally across a month / year boundary) x
// 1-4 blocks per day with strictly increasing timestamps, 0-maxFlows mixed v4/v6 flows per block
// (distinct keys within a block, keys repeat across blocks / days / interfaces); some counters
// zeroed so that all four direction classes (and the all-zero flow) occur.
func c08GenHistory(r *Rand, maxFlows int) (hist []c08WriteOut, ifaces []string, stamps []int64) {
	names := []string{"eth0", "eth1", "wlan0"}
	ifaces = names[:1+r.Intn(3)]
	d0 := Pick(r, []int64{1700006400, 1701216000, 1703894400}) // mid-month, 29 Nov (-> Dec), 30 Dec (-> Jan)
	ndays := 1 + r.Intn(3)
	family := r.Intn(6) // 0: v4 only, 1: v6 only, else mixed
	for _, ifc := range ifaces {
		for d := 0; d < ndays; d++ {
			if ndays > 1 && r.Chance(1, 6) {
				continue
			}
			day := d0 + int64(d)*86400
			ts := day + 300*r.I64n(200)
			if r.Chance(1, 6) {
				ts = day
			}
			nb := 1 + r.Intn(4)
			for b := 0; b < nb && ts < day+86400; b++ {
				n := r.Intn(maxFlows + 1)
				if r.Chance(1, 10) {
					n = 0
				}
				var fs []Flow
				for _, f := range genFlows(r, n+2) {
					v4 := len(f.SIP) == 4
					if (family == 0 && !v4) || (family == 1 && v4) {
						continue
					}
					switch r.Intn(8) {
					case 0:
						f.PS, f.BS = 0, 0
					case 1:
						f.PR, f.BR = 0, 0
						if f.PS == 0 {
							f.PS = 1
						}
					case 2:
						if r.Chance(1, 4) {
							f.PR, f.BR, f.PS, f.BS = 0, 0, 0, 0
						}
					}
					if len(fs) < n {
						fs = append(fs, f)
					}
				}
				hist = append(hist, c08WriteOut{Iface: ifc, TS: ts, Drops: uint64(r.Intn(5)), Flows: fs})
				stamps = append(stamps, ts)
				if r.Chance(2, 3) {
					ts += 300
				} else {
					ts += 1 + r.I64n(4000)
				}
			}
		}
	}
	// interleave the interfaces in time order (stable), as concurrent capture would write them
	if r.Chance(1, 2) {
		sort.SliceStable(hist, func(i, j int) bool { return hist[i].TS < hist[j].TS })
	}
	return hist, ifaces, stamps
}

func c08GenAttrs(r *Rand) string {
	all := []string{"sip", "dip", "dport", "proto", "time", "iface"}
	if r.Chance(1, 6) {
		return strings.Join(all, ",")
	}
	var sel []string
	for _, a := range all {
		p := 2
		if a == "time" || a == "iface" {
			p = 1
		}
		if r.Chance(p, 4) {
			sel = append(sel, a)
		}
	}
	if len(sel) == 0 {
		sel = []string{Pick(r, all[:4])}
	}
	r.Shuffle(len(sel), func(i, j int) { sel[i], sel[j] = sel[j], sel[i] })
	return strings.Join(sel, ",")
}

func c08GenRange(r *Rand, stamps []int64) (int64, int64) {
	if len(stamps) == 0 || r.Chance(1, 3) {
		return 1600000000, 1800000000
	}
	bound := func() int64 {
		s := Pick(r, stamps)
		switch r.Intn(8) {
		case 0, 1, 2:
			return s
		case 3:
			return s - 1
		case 4:
			return s + 1
		case 5:
			return s - s%86400 // midnight
		case 6:
			return s - s%86400 + 86399
		}
		return s + r.I64n(7000) - 3500
	}
	a, b := bound(), bound()
	if a > b {
		a, b = b, a
	}
	if r.Chance(1, 5) {
		a = 1600000000
	}
	if r.Chance(1, 5) {
		b = 1800000000
	}
	return a, b
}

func c08Line(attrs string, cond *c08Cond, dir string, first, last int64, ifaces string, hist []c08WriteOut) string {
	cw := "-"
	if cond != nil {
		cw = cond.wire()
	}
	var hs []string
	for _, w := range hist {
		hs = append(hs, w.String())
	}
	return fmt.Sprintf("C08 q %s %s %s %d %d %s %s", attrs, cw, dir, first, last, ifaces, semiField(hs))
}

func c08Gen(r *Rand, tier string) []Case {
	nDB, nQ, maxFlows := 24, 14, 8
	if tier == "thorough" {
		nDB, nQ, maxFlows = 600, 50, 14
	}
	var cases []Case
	for d := 0; d < nDB; d++ {
		hist, ifaces, stamps := c08GenHistory(r, maxFlows)
		for q := 0; q < nQ; q++ {
			attrs := c08GenAttrs(r)
			var cond *c08Cond
			class := "nocond"
			malformed := r.Chance(1, 40)
			if r.Chance(5, 6) || malformed {
				cond = c08GenCond(r, 1+r.Intn(3), malformed)
				class = "cond"
			}
			dir := "-"
			if r.Chance(1, 3) {
				dir = Pick(r, []string{"in", "out", "uni", "bi"})
				class += "+dir"
			}
			first, last := c08GenRange(r, stamps)
			ifs := "any"
			switch r.Intn(4) {
			case 0:
				ifs = Pick(r, ifaces)
			case 1:
				k := 1 + r.Intn(len(ifaces))
				ifs = strings.Join(ifaces[:k], ",")
			}
			if malformed {
				class = "malformed"
			}
			// non-trivial: both IP families stored inside the range on a queried interface and the
			// query restricts (condition / direction filter) or projects (not all four attributes)
			v4, v6 := false, false
			for _, w := range hist {
				if w.TS < first || w.TS > last || (ifs != "any" && !c08Has(strings.Split(ifs, ","), w.Iface)) {
					continue
				}
				for _, f := range w.Flows {
					if len(f.SIP) == 4 {
						v4 = true
					} else {
						v6 = true
					}
				}
			}
			nAttr := 0
			for _, a := range []string{"sip", "dip", "dport", "proto"} {
				if c08Has(strings.Split(attrs, ","), a) {
					nAttr++
				}
			}
			nt := v4 && v6 && !malformed && (cond != nil || dir != "-" || nAttr < 4)
			cases = append(cases, Case{Line: c08Line(attrs, cond, dir, first, last, ifs, hist), Class: class, NonTrivial: nt})
		}
	}
	return cases
}

func init() {
	register(&Prop{
		ID:   "C08",
		Rule: "seeded: databases of 1-3 interfaces x 1-3 UTC days (mid-month, month and year boundary, gap days) x 1-4 blocks per day (strictly increasing, aligned and unaligned timestamps, first block at midnight) x 0-8 (thorough 0-14) flows per block drawn from a small universe (8 v4 / 4 v6 source addresses, 3 destinations per family, 4 ports, 2 protocols; v4-only, v6-only and mixed databases; counters zeroed so that inbound-only, outbound-only, bidirectional and all-zero flows occur), every block written by the real DBWriter.Write (lz4) into a temp database; per database 14 (thorough 50) queries: random non-empty attribute selection out of sip,dip,dport,proto,time,iface in random order, condition = random and/or/not tree (depth <= 3) over sip/dip =,!= v4 and v6 literals (inside and outside the universe, also of the other column), snet/dnet =,!= v4 and v6 networks (/0 … /32 resp. /128, byte-aligned and not) and dport/proto =,!=,<,>,<=,>= literals, optional direction filter in/out/uni/bi, time range = whole database or bounds on/next to/between block timestamps and day boundaries, interface argument any / one / several; 1 in 40 queries malformed (ordering comparator on an address). Real engine.QueryRunner.Run; output = sorted rows, totals, hits. Non-trivial: flows of both IP families stored inside the range on a queried interface and the query has a condition, a direction filter or fewer than four attributes. time.Local pinned to UTC.",
		Gen:  c08Gen,
		Run:  c08Run,
		Init: func(string) error {
			time.Local = time.UTC
			var err error
			c08WorkDir, err = os.MkdirTemp(os.Getenv("TMPDIR"), "verif-c08-")
			return err
		},
		Done:     func() { _ = os.RemoveAll(c08WorkDir) },
		Parallel: 4,
	})
}
