//go:build verif_all || verif_c19

package main

import (
	"bufio"
	"fmt"
	"io"
	"os"
	"os/exec"
	"runtime"
	"sort"
	"time"

	"github.com/els0r/goProbe/v4/pkg/capture"
	"github.com/els0r/goProbe/v4/pkg/capture/capturetypes"
	"github.com/fako1024/gotools/link"
	slimcap "github.com/fako1024/slimcap/capture"
)

// C19 — packet parsing. Cases:
//   C19 v4|v6 <layer p> <layer q>   both layers go through the real ParsePacketV4 / ParsePacketV6
//                                   (q is usually the harness-built mirror image of p); the real
//                                   Reverse() of the key of p is reported as well
//   C19 ip <layer>                  the layer is fed, as the only packet of a scripted source, to the
//                                   real capture loop Capture.process(); the counters are reported

// exact copies with cap == len, so that Go's slice-bounds checks are as strict as the model's
func exact(b []byte) []byte {
	c := make([]byte, len(b))
	copy(c, b)
	return c[:len(c):len(c)]
}

// c19Parse returns the canonical result of the real parser and, when a key was extracted, the
// real Reverse() of that key.
func c19Parse(v6 bool, b []byte) (out, rev string) {
	rev = "-"
	defer func() {
		if r := recover(); r != nil {
			out, rev = "panic", "-"
		}
	}()
	layer := slimcap.IPLayer(exact(b))
	var (
		key, rkey []byte
		aux       byte
		errno     capturetypes.ParsingErrno
	)
	if v6 {
		k, a, e := capture.ParsePacketV6(layer)
		r := k.Reverse()
		key, rkey, aux, errno = k[:], r[:], a, e
	} else {
		k, a, e := capture.ParsePacketV4(layer)
		r := k.Reverse()
		key, rkey, aux, errno = k[:], r[:], a, e
	}
	switch errno {
	case capturetypes.ErrnoOK:
		return fmt.Sprintf("ok %s %d", hexBytes(key), aux), hexBytes(rkey)
	case capturetypes.ErrnoPacketFragmentIgnore:
		return "frag", "-"
	case capturetypes.ErrnoPacketTruncated:
		return "trunc", "-"
	}
	return fmt.Sprintf("err:errno%d", errno), "-"
}

// scripted zero-copy source: hands out the given layers, then reports that it was stopped
type c19Source struct {
	layers [][]byte
	pos    int
	lnk    *link.Link
}

func (s *c19Source) NextIPPacketZeroCopy() (slimcap.IPLayer, slimcap.PacketType, uint32, error) {
	if s.pos >= len(s.layers) {
		return nil, slimcap.PacketUnknown, 0, slimcap.ErrCaptureStopped
	}
	l := s.layers[s.pos]
	s.pos++
	return slimcap.IPLayer(l), slimcap.PacketThisHost, uint32(len(l) + 14), nil
}
func (s *c19Source) NextPayloadZeroCopy() ([]byte, slimcap.PacketType, uint32, error) {
	return nil, slimcap.PacketUnknown, 0, slimcap.ErrCaptureStopped
}
func (s *c19Source) NewPacket() slimcap.Packet { return nil }
func (s *c19Source) NextPacket(slimcap.Packet) (slimcap.Packet, error) {
	return nil, slimcap.ErrCaptureStopped
}
func (s *c19Source) NextPayload([]byte) ([]byte, byte, uint32, error) {
	return nil, 0, 0, slimcap.ErrCaptureStopped
}
func (s *c19Source) NextIPPacket(slimcap.IPLayer) (slimcap.IPLayer, slimcap.PacketType, uint32, error) {
	return nil, 0, 0, slimcap.ErrCaptureStopped
}
func (s *c19Source) NextPacketFn(func([]byte, uint32, slimcap.PacketType, byte) error) error {
	return slimcap.ErrCaptureStopped
}
func (s *c19Source) Stats() (slimcap.Stats, error) { return slimcap.Stats{}, nil }
func (s *c19Source) Link() *link.Link              { return s.lnk }
func (s *c19Source) Unblock() error                { return nil }
func (s *c19Source) Close() error                  { return nil }

var c19Pool *capture.LocalBufferPool

// c19LoopInProcess feeds one layer through the real Capture.process(). A panic in the capture
// goroutine cannot be recovered: it ends the process — which is why the harness runs this in a
// child process (see c19Loop).
func c19LoopInProcess(b []byte) string {
	if c19Pool == nil {
		c19Pool = capture.NewLocalBufferPool(1, 1<<20)
	}
	src := &c19Source{layers: [][]byte{exact(b)}, lnk: &link.EmptyEthernetLink}
	base := runtime.NumGoroutine()
	st, n4, n6, errs := capture.VerifProcessAll(src, c19Pool)
	// process() closes its error channel in a deferred function, i.e. also while its goroutine is
	// panicking. Only a goroutine that has really ended counts: while a panic is on its way the
	// goroutine still exists, and the process dies before this loop ends (nothing is printed).
	for i := 0; runtime.NumGoroutine() > base; i++ {
		if i > 20000 {
			return "err:goroutine-leak"
		}
		time.Sleep(100 * time.Microsecond)
	}
	if len(errs) > 0 {
		return "err:capture"
	}
	return fmt.Sprintf("proc=%d frag=%d inv=%d trunc=%d v4=%d v6=%d", st.Processed,
		st.ParsingErrors[capturetypes.ErrnoPacketFragmentIgnore], st.ParsingErrors[capturetypes.ErrnoInvalidIPHeader],
		st.ParsingErrors[capturetypes.ErrnoPacketTruncated], n4, n6)
}

// child mode: the same binary, started with VERIF_C19_LOOP_CHILD=1, answers one line per layer
func init() {
	if os.Getenv("VERIF_C19_LOOP_CHILD") != "1" {
		return
	}
	sc := bufio.NewScanner(os.Stdin)
	sc.Buffer(make([]byte, 1<<16), 1<<20)
	w := bufio.NewWriter(os.Stdout)
	for sc.Scan() {
		fmt.Fprintln(w, c19LoopInProcess(unhex(sc.Text())))
		w.Flush()
	}
	os.Exit(0)
}

type c19ChildProc struct {
	cmd *exec.Cmd
	in  io.WriteCloser
	out *bufio.Reader
}

var c19Child *c19ChildProc

func c19StopChild() {
	if c19Child != nil {
		c19Child.in.Close()
		_ = c19Child.cmd.Wait()
		c19Child = nil
	}
}

// c19Loop asks the child process for the counters; a child that dies (= the capture goroutine
// panicked) yields "panic" for the layer it was working on and is restarted for the next one.
func c19Loop(b []byte) string {
	if c19Child == nil {
		cmd := exec.Command(os.Args[0])
		cmd.Env = append(os.Environ(), "VERIF_C19_LOOP_CHILD=1")
		in, err1 := cmd.StdinPipe()
		out, err2 := cmd.StdoutPipe()
		if err1 != nil || err2 != nil || cmd.Start() != nil {
			return "err:no-child"
		}
		c19Child = &c19ChildProc{cmd: cmd, in: in, out: bufio.NewReader(out)}
	}
	if _, err := fmt.Fprintln(c19Child.in, hexBytes(b)); err == nil {
		if line, err := c19Child.out.ReadString('\n'); err == nil {
			return line[:len(line)-1]
		}
	}
	c19StopChild()
	return "panic"
}

func c19Run(f []string) string {
	switch f[0] {
	case "ip":
		return c19Loop(unhex(f[1]))
	case "v4", "v6":
		v6 := f[0] == "v6"
		r1, rev := c19Parse(v6, unhex(f[1]))
		r2, _ := c19Parse(v6, unhex(f[2]))
		return r1 + " | " + r2 + " | " + rev
	}
	return "err:bad-op"
}

// ---------------------------------------------------------------- generation

type c19Pkt struct {
	v6       bool
	sip, dip []byte
	sp, dp   uint16
	proto    byte
	b6, b7   byte // IPv4 flags / fragment offset bytes
	aux      byte // TCP flags or ICMP type
	n        int  // length of the layer
}

func (k c19Pkt) hdr() int {
	if k.v6 {
		return 40
	}
	return 20
}

func (k c19Pkt) bytes(r *Rand) []byte {
	h := k.hdr()
	m := k.n
	if m < h+40 {
		m = h + 40
	}
	b := r.Bytes(m)
	if k.v6 {
		b[0] = 0x60 | b[0]&0x0f
		b[6] = k.proto
		copy(b[8:24], k.sip)
		copy(b[24:40], k.dip)
	} else {
		b[0] = 0x45
		b[6], b[7] = k.b6, k.b7
		b[9] = k.proto
		copy(b[12:16], k.sip)
		copy(b[16:20], k.dip)
	}
	icmp := byte(1)
	if k.v6 {
		icmp = 58
	}
	switch k.proto {
	case 6:
		b[h], b[h+1], b[h+2], b[h+3] = byte(k.sp>>8), byte(k.sp), byte(k.dp>>8), byte(k.dp)
		b[h+13] = k.aux
	case 17:
		b[h], b[h+1], b[h+2], b[h+3] = byte(k.sp>>8), byte(k.sp), byte(k.dp>>8), byte(k.dp)
	case icmp:
		b[h] = k.aux
	default:
		// other protocols: the bytes where TCP/UDP carry ports still get the chosen values, so that
		// a parser wrongly reading ports there is noticed
		b[h], b[h+1], b[h+2], b[h+3] = byte(k.sp>>8), byte(k.sp), byte(k.dp>>8), byte(k.dp)
	}
	return b[:k.n]
}

// c19Mirror builds the packet of the same conversation travelling the other way: addresses and
// (TCP/UDP) ports swapped; bytes that are not part of the key are changed at random.
func c19Mirror(r *Rand, v6 bool, p []byte) []byte {
	q := append([]byte(nil), p...)
	h, protoPos := 20, 9
	sw := func(a, b, n int) {
		if a+n <= len(q) && b+n <= len(q) {
			for i := 0; i < n; i++ {
				q[a+i], q[b+i] = q[b+i], q[a+i]
			}
		}
	}
	if v6 {
		h, protoPos = 40, 6
		sw(8, 24, 16)
	} else {
		sw(12, 16, 4)
	}
	noise := func(i int) {
		if i < len(q) {
			q[i] = byte(r.U64())
		}
	}
	withPorts := len(q) > protoPos && (q[protoPos] == 6 || q[protoPos] == 17)
	if withPorts {
		sw(h, h+2, 2)
		for i := h + 4; i < len(q); i++ { // sequence numbers, flags, window, payload …
			if r.Chance(1, 2) {
				noise(i)
			}
		}
	} else {
		for i := h; i < len(q); i++ { // ICMP type / code, payload of other protocols
			if r.Chance(1, 2) {
				noise(i)
			}
		}
	}
	if v6 {
		noise(7) // hop limit
		noise(1) // traffic class / flow label
	} else {
		noise(8)  // TTL
		noise(10) // checksum
		noise(11)
		noise(4) // identification
		if len(q) > 6 && r.Bool() {
			q[6] ^= 0x40 // DF bit: not part of the fragment offset
		}
	}
	return q
}

func c19Case(fam string, p, q []byte, class string, nt bool) Case {
	return Case{Line: fmt.Sprintf("C19 %s %s %s", fam, hexBytes(p), hexBytes(q)), Class: class, NonTrivial: nt}
}

// non-trivial: complete TCP/UDP layer (the port rule applies), or shorter than the fixed header
// (the repaired path), or an IPv4 non-first fragment
func c19NonTrivial(v6 bool, p []byte) bool {
	h, pp := 20, 9
	if v6 {
		h, pp = 40, 6
	}
	if len(p) < h {
		return true
	}
	if !v6 && p[9] != 50 && (p[6]&0x1f != 0 || p[7] != 0) {
		return true
	}
	return (p[pp] == 6 && len(p) >= h+14) || (p[pp] == 17 && len(p) >= h+4)
}

func c19Gen(r *Rand, tier string) []Case {
	nRandom, nMalformed, nLoop, lenReps := 30000, 6000, 1500, 2
	if tier == "thorough" {
		nRandom, nMalformed, nLoop, lenReps = 2000000, 400000, 30000, 60
	}
	var cs []Case
	famName := func(v6 bool) string {
		if v6 {
			return "v6"
		}
		return "v4"
	}
	addr := func(v6 bool) []byte {
		n := 4
		if v6 {
			n = 16
		}
		a := r.Bytes(n)
		switch r.Intn(10) {
		case 0:
			for i := range a {
				a[i] = 0
			}
		case 1:
			for i := range a {
				a[i] = 0xff
			}
		}
		return a
	}
	add := func(k c19Pkt, class string, mode int) {
		p := k.bytes(r)
		var q []byte
		switch mode {
		case 0: // mirror image
			q = c19Mirror(r, k.v6, p)
		case 1: // mirror image of different length (not a mirror for the judge: judged one by one)
			k2 := k
			k2.n = r.Intn(81)
			q = c19Mirror(r, k.v6, k2.bytes(r))
		default: // unrelated
			q = r.Bytes(r.Intn(81))
		}
		cs = append(cs, c19Case(famName(k.v6), p, q, famName(k.v6)+":"+class, c19NonTrivial(k.v6, p)))
	}

	// the common ports as the REAL isCommonPort sees them (all 256 protocols x 65536 ports), ±1,
	// byte-swapped, and a few boundary ports
	portSet := map[uint16]bool{0: true, 1: true, 255: true, 256: true, 1023: true, 1024: true, 8191: true, 8192: true, 32767: true, 32768: true, 65535: true}
	commonProtos := map[byte]bool{}
	for proto := 0; proto < 256; proto++ {
		for p := 0; p < 65536; p++ {
			if capture.VerifIsCommonPort([]byte{byte(p >> 8), byte(p)}, byte(proto)) {
				commonProtos[byte(proto)] = true
				for _, d := range []int{-1, 0, 1} {
					if v := p + d; v >= 0 && v < 65536 {
						portSet[uint16(v)] = true
					}
				}
				portSet[uint16(p)<<8|uint16(p)>>8] = true
			}
		}
	}
	var ports []uint16
	for p := range portSet {
		ports = append(ports, p)
	}
	sort.Slice(ports, func(i, j int) bool { return ports[i] < ports[j] })
	var cprotos []byte
	for p := range commonProtos {
		cprotos = append(cprotos, p)
	}
	sort.Slice(cprotos, func(i, j int) bool { return cprotos[i] < cprotos[j] })
	for _, extra := range []byte{6, 17} {
		if !commonProtos[extra] {
			cprotos = append(cprotos, extra)
		}
	}
	protos := []byte{1, 6, 17, 50, 58, 47}

	// A. every length 0…80 for the main protocols, non-fragment and fragment
	for rep := 0; rep < lenReps; rep++ {
		for _, v6 := range []bool{false, true} {
			for n := 0; n <= 80; n++ {
				for _, proto := range protos {
					for _, frag := range []bool{false, true} {
						k := c19Pkt{v6: v6, sip: addr(v6), dip: addr(v6), sp: Pick(r, ports), dp: Pick(r, ports), proto: proto, aux: byte(r.U64()), n: n}
						if frag {
							if v6 {
								continue
							}
							k.b6, k.b7 = byte(r.Intn(32)), byte(r.U64())
						} else {
							k.b6 = Pick(r, []byte{0, 0x40, 0x20})
						}
						add(k, "length-sweep", 0)
					}
				}
			}
		}
	}
	// B. all 256 protocol numbers, at the bare header length and at full length
	for _, v6 := range []bool{false, true} {
		for proto := 0; proto < 256; proto++ {
			for _, n := range []int{0, 1, 2} {
				k := c19Pkt{v6: v6, sip: addr(v6), dip: addr(v6), sp: Pick(r, ports), dp: Pick(r, ports), proto: byte(proto), aux: byte(r.U64())}
				k.n = []int{k.hdr(), k.hdr() + 14, 60 + r.Intn(21)}[n]
				add(k, "all-protocols", 0)
			}
		}
	}
	// C. all pairs of the port set for the protocols with common ports (and TCP, UDP)
	for _, v6 := range []bool{false, true} {
		for _, proto := range cprotos {
			for _, sp := range ports {
				for _, dp := range ports {
					k := c19Pkt{v6: v6, sip: addr(v6), dip: addr(v6), sp: sp, dp: dp, proto: proto, aux: byte(r.U64()), b6: Pick(r, []byte{0, 0x40})}
					k.n = k.hdr() + 14 + r.Intn(10)
					add(k, "port-pairs", 0)
				}
			}
		}
	}
	// D. IPv4 flags / fragment offset bytes
	for _, b6 := range []byte{0, 0x01, 0x1f, 0x20, 0x3f, 0x40, 0x60, 0x80, 0xe0, 0xff} {
		for _, b7 := range []byte{0, 1, 0x80, 0xff} {
			for _, proto := range []byte{1, 6, 17, 50, 47, 51} {
				for _, n := range []int{20, 24, 34, 54} {
					k := c19Pkt{sip: addr(false), dip: addr(false), sp: Pick(r, ports), dp: Pick(r, ports), proto: proto, aux: byte(r.U64()), b6: b6, b7: b7, n: n}
					add(k, "fragment-bits", 0)
				}
			}
		}
	}
	// E. random structured packets
	for i := 0; i < nRandom; i++ {
		v6 := r.Chance(2, 5)
		k := c19Pkt{v6: v6, sip: addr(v6), dip: addr(v6), aux: byte(r.U64())}
		port := func() uint16 {
			if r.Chance(1, 2) {
				return Pick(r, ports)
			}
			return uint16(r.Intn(65536))
		}
		k.sp, k.dp = port(), port()
		icmp := byte(1)
		if v6 {
			icmp = 58
		}
		k.proto = Pick(r, []byte{6, 6, 6, 17, 17, 17, icmp, 50, 47})
		if r.Chance(1, 8) {
			k.proto = byte(r.Intn(256))
		}
		k.b6 = Pick(r, []byte{0, 0x40, 0x40, 0x20})
		if r.Chance(1, 12) {
			k.b6, k.b7 = byte(r.U64()), byte(r.U64())
		}
		switch r.Intn(6) {
		case 0:
			k.n = r.Intn(81)
		case 1:
			k.n = k.hdr() + Pick(r, []int{-1, 0, 1, 3, 4, 13, 14})
		default:
			k.n = k.hdr() + 14 + r.Intn(20)
		}
		mode := 0
		switch r.Intn(10) {
		case 0:
			mode = 1
		case 1:
			mode = 2
		}
		add(k, "random", mode)
	}
	// F. malformed stream: arbitrary bytes of every length
	for i := 0; i < nMalformed; i++ {
		v6 := r.Bool()
		p := r.Bytes(r.Intn(81))
		q := r.Bytes(r.Intn(81))
		if r.Bool() {
			q = c19Mirror(r, v6, p)
		}
		cs = append(cs, c19Case(famName(v6), p, q, famName(v6)+":malformed", c19NonTrivial(v6, p)))
	}
	// G. the capture loop: empty, short and full layers of every version nibble
	for i := 0; i < nLoop; i++ {
		var p []byte
		switch r.Intn(4) {
		case 0:
			p = r.Bytes(r.Intn(81))
		case 1:
			p = r.Bytes(r.Intn(4))
		default:
			v6 := r.Bool()
			k := c19Pkt{v6: v6, sip: addr(v6), dip: addr(v6), sp: Pick(r, ports), dp: Pick(r, ports), proto: Pick(r, []byte{6, 17, 1, 58, 50, 47}), aux: byte(r.U64()), n: r.Intn(81)}
			if r.Chance(1, 6) {
				k.b7 = byte(r.U64())
			}
			p = k.bytes(r)
		}
		if len(p) > 0 && r.Chance(1, 3) {
			p[0] = byte(r.Intn(16))<<4 | p[0]&0x0f
		}
		cs = append(cs, Case{Line: "C19 ip " + hexBytes(p), Class: "loop", NonTrivial: true})
	}
	return cs
}

func init() {
	register(&Prop{
		ID:   "C19",
		Rule: "IP layers (byte strings of every length 0…80) built from seeded fields: IPv4/IPv6, all 256 protocol numbers, every length for TCP/UDP/ICMP/ICMPv6/ESP/GRE with and without fragment offset, all pairs of ports from {ports the real isCommonPort accepts for any protocol, ±1, byte-swapped, 0/1/255/256/1023/1024/8191/8192/32767/32768/65535} for the protocols that have common ports, all IPv4 flag/fragment-offset byte patterns, random structured packets, and a malformed stream of arbitrary bytes. Each layer p comes with a second layer q — mostly the harness-built mirror image (addresses and TCP/UDP ports swapped, every other byte re-randomised), sometimes a mirror of different length or an unrelated string — and both go through the real ParsePacketV4/V6 on exact-capacity slices; the real EPHash.Reverse() of p's key is reported too. `ip` cases feed one layer (empty, short, any version nibble) through the real capture loop Capture.process() with a scripted source (in a child process, so that a panic of the capture goroutine is observed as `panic`). Non-trivial: complete TCP/UDP layer (port rule applies), layer shorter than the fixed header, IPv4 non-first fragment, or a capture-loop case. Distinct = distinct case lines.",
		Gen:  c19Gen,
		Run:  c19Run,
		Done: c19StopChild,
	})
}
