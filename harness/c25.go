//go:build verif_all || verif_c25

package main

// C25 — an interrupted merge never duplicates or hides data.
//
// A case builds a source and a destination goDB with the real DBWriter, runs the real
// goDB.MergeDatabases in a child process under strace and kills it (SIGKILL at system-call entry)
// at one chosen system call of the main thread; afterwards the real readers run on the damaged
// destination (info.GetInterfaces, the query engine on "any", ReadMetadata), then a second, full
// merge runs in-process and the readers run again.
//
//	C25 <overwrite 0|1> <tolerance ns> <src db> <dst db> <rm> <ord> <kill>
//	db    := "-" | iface(";"iface)*      iface := name "=" [ day("|"day)* ]
//	day   := dayTimestamp ":" block(","block)*          block := offsetInDay "." payloadId
//	rm    := "-" | order                 the order in which RemoveAll unlinks the 9 files of a replaced day
//	         directory: a permutation of "m01234567" (m = .blockmeta, 0-7 = the column files in
//	         types.ColIdx order). Observed from the file system (directory order; the same for every
//	         day directory written the same way), passed to the model as an input; "mixed" if the
//	         backups of one merge were removed in different orders (never seen).
//	ord   := "-" | one digit per replaced day (in program order): 1 = the backup's directory name sorts
//	         before the merged directory's name, 0 = after it (walkDB visits directories in name order and
//	         a query only reads blocks between the first block of the first and the last block of the
//	         last directory visited). A function of the two summary suffixes; taken from the dry run.
//	kill  := "-" (not killed) | <syscall> "." <k> "." <c>   the k-th (1-based) <syscall> of the merge
//	         (main thread, after the begin marker); c = number of coarse events completed before it,
//	         observed in the dry run and re-checked by every run (`at=`)
//
// output: ops=<coarse events of the uninterrupted merge> ord=<as observed> at=<c> crashed=<killed|ok|err:…> rmseen=<order|->
//
//	if1=<interfaces> q1=<query> l1=<listing> m2=<ok|err:class> if2=… q2=… l2=…
//
// Coarse events (the model's program): mkstage, mkdir:<path below the destination root>,
// renbackup:<iface>/<day>, renfinal:<iface>/<day>, unlink:<iface>/<day> (a file of the backup),
// rmdir:<iface>/<day> (the emptied backup), rmstage.

import (
	"bufio"
	"context"
	"fmt"
	"os"
	"os/exec"
	"path/filepath"
	"regexp"
	"sort"
	"strconv"
	"strings"
	"sync"
	"time"

	"github.com/els0r/goProbe/v4/pkg/goDB"
	"github.com/els0r/goProbe/v4/pkg/goDB/encoder/encoders"
	"github.com/els0r/goProbe/v4/pkg/goDB/info"
)

type c25Block struct {
	ts  int64
	pid int
}
type c25Day struct {
	ts     int64
	blocks []c25Block
}
type c25Iface struct {
	name string
	days []c25Day
}

func c25ParseDB(s string) []c25Iface {
	var db []c25Iface
	if s == "-" {
		return db
	}
	for _, is := range strings.Split(s, ";") {
		eq := strings.IndexByte(is, '=')
		if eq < 0 {
			panic("bad iface " + is)
		}
		ifc := c25Iface{name: is[:eq]}
		if rest := is[eq+1:]; rest != "" {
			for _, ds := range strings.Split(rest, "|") {
				c := strings.IndexByte(ds, ':')
				dts, err := strconv.ParseInt(ds[:c], 10, 64)
				if err != nil {
					panic(err)
				}
				d := c25Day{ts: dts}
				for _, bs := range strings.Split(ds[c+1:], ",") {
					p := strings.Split(bs, ".")
					off, _ := strconv.ParseInt(p[0], 10, 64)
					pid, _ := strconv.Atoi(p[1])
					d.blocks = append(d.blocks, c25Block{ts: dts + off, pid: pid})
				}
				ifc.days = append(ifc.days, d)
			}
		}
		db = append(db, ifc)
	}
	return db
}

func c25ShowDB(db []c25Iface) string {
	var is []string
	for _, i := range db {
		var ds []string
		for _, d := range i.days {
			var bs []string
			for _, b := range d.blocks {
				bs = append(bs, fmt.Sprintf("%d.%d", b.ts-d.ts, b.pid))
			}
			ds = append(ds, fmt.Sprintf("%d:%s", d.ts, strings.Join(bs, ",")))
		}
		is = append(is, i.name+"="+strings.Join(ds, "|"))
	}
	if len(is) == 0 {
		return "-"
	}
	return strings.Join(is, ";")
}

// c25Flows: the flows of a payload id (the same function as `C25.flowsOf` in Lean): always one
// IPv4 flow whose source address carries the id, for odd ids an IPv6 flow with a fixed key
func c25Flows(pid int) ([]Flow, uint64) {
	u := uint64(pid)
	fs := []Flow{{SIP: []byte{10, 0, byte(pid >> 8), byte(pid)}, DIP: []byte{192, 168, 1, 1}, Dport: 80, Proto: 6, BR: u + 1, BS: 2 * u, PR: 1, PS: u % 3}}
	if pid%2 == 1 {
		sip := make([]byte, 16)
		dip := make([]byte, 16)
		sip[0], sip[1], sip[15] = 0x20, 0x01, 7
		dip[0], dip[1], dip[15] = 0xfe, 0x80, 1
		fs = append(fs, Flow{SIP: sip, DIP: dip, Dport: 53, Proto: 17, BR: 5, BS: u, PR: 2, PS: 1})
	}
	return fs, u % 4
}

func c25WriteDB(root string, db []c25Iface) error {
	if err := os.MkdirAll(root, 0o755); err != nil {
		return err
	}
	for _, ifc := range db {
		if err := os.MkdirAll(filepath.Join(root, ifc.name), 0o755); err != nil {
			return err
		}
		for _, d := range ifc.days {
			for _, b := range d.blocks {
				fs, drops := c25Flows(b.pid)
				if err := writeOut(root, ifc.name, b.ts, drops, fs, encoders.EncoderTypeLZ4); err != nil {
					return err
				}
			}
		}
	}
	return nil
}

func c25MergeErr(err error) string {
	if err == nil {
		return "ok"
	}
	msg := err.Error()
	switch {
	case strings.Contains(msg, "duplicate day timestamp"):
		return "err:duplicate-day"
	case strings.Contains(msg, "failed to parse day directory"):
		return "err:parse-day"
	case strings.Contains(msg, "failed to list"):
		return "err:list"
	case strings.Contains(msg, "failed to classify"):
		return "err:classify"
	case strings.Contains(msg, "failed to rebuild"):
		return "err:rebuild"
	case strings.Contains(msg, "failed to stage"):
		return "err:stage"
	case strings.Contains(msg, "failed to commit"):
		return "err:commit"
	}
	if os.Getenv("VERIF_DEBUG") != "" {
		fmt.Fprintln(os.Stderr, "merge error:", msg)
	}
	return "err:other"
}

func c25Opts(src, dst string, ow bool, tol int64) goDB.MergeOptions {
	return goDB.MergeOptions{SourcePath: src, DestinationPath: dst, Overwrite: ow, CompleteTolerance: time.Duration(tol)}
}

// child: one real merge between two marker system calls
func init() {
	children["merge"] = func(a []string) int {
		// args: src dst overwrite tolerance
		tol, _ := strconv.ParseInt(a[3], 10, 64)
		_, _ = os.Stat("/verif-marker-begin")
		_, err := goDB.MergeDatabases(context.Background(), c25Opts(a[0], a[1], a[2] == "1", tol))
		_, _ = os.Stat("/verif-marker-end")
		fmt.Println(c25MergeErr(err))
		if err != nil {
			if os.Getenv("VERIF_DEBUG") != "" {
				fmt.Fprintln(os.Stderr, err)
			}
			return 3
		}
		return 0
	}
}

// ---------------------------------------------------------------- trace

const c25Counted = "mkdirat,renameat,unlinkat,openat,write"

type c25Call struct {
	name   string
	k      int    // ordinal of this system call name since the begin marker (1-based, main thread)
	abs    int    // ordinal since process start (what strace's `when=` counts)
	c      int    // coarse events completed before this call
	coarse string // "" = not a coarse event
	where  string // stage | backup | dst | src | other
}

type c25Trace struct {
	calls []c25Call
	ops   []string   // coarse events in order
	rm    []string   // unlink order per backup, in program order
	ord   string     // per backup: 1 = backup name sorts before the merged directory's name
	rmOf  map[int]int // index of an `unlink` coarse event -> index into rm
}

var (
	c25Line   = regexp.MustCompile(`^(\d+)\s+(\w+)\((.*)\)\s+=\s+(-?\d+)(?:<[^>]*>)?(?:\s+(\w+))?`)
	c25AtPath = regexp.MustCompile(`(AT_FDCWD|\d+)<([^>]*)>, "([^"]*)"`)
	c25FdPath = regexp.MustCompile(`^(\d+)<([^>]*)>`)
)

var c25ColIdx = map[string]string{".blockmeta": "m", "sip.gpf": "0", "dip.gpf": "1", "proto.gpf": "2", "dport.gpf": "3",
	"bytes_rcvd.gpf": "4", "bytes_sent.gpf": "5", "pkts_rcvd.gpf": "6", "pkts_sent.gpf": "7"}

// c25Normalise maps the strace log (strace -f -y) of a merge child to the coarse event list and
// the list of main-thread system calls that are kill points.
func c25Normalise(path, src, dst string) (*c25Trace, error) {
	f, err := os.Open(path)
	if err != nil {
		return nil, err
	}
	defer f.Close()
	sc := bufio.NewScanner(f)
	sc.Buffer(make([]byte, 1<<20), 1<<26)
	var lines []string
	pending := map[string]string{}
	mainPid := ""
	for sc.Scan() {
		line := sc.Text()
		pid := strings.SplitN(line, " ", 2)[0]
		if strings.HasSuffix(line, "<unfinished ...>") {
			pending[pid] = strings.TrimSuffix(line, " <unfinished ...>")
			continue
		}
		if i := strings.Index(line, "<... "); i >= 0 {
			if j := strings.Index(line, " resumed>"); j > i {
				line = pending[pid] + line[j+len(" resumed>"):]
				delete(pending, pid)
			}
		}
		if strings.Contains(line, "/verif-marker-begin") {
			mainPid = pid
		}
		lines = append(lines, line)
	}
	if mainPid == "" {
		return nil, fmt.Errorf("no begin marker in trace")
	}
	counted := map[string]bool{}
	for _, s := range strings.Split(c25Counted, ",") {
		counted[s] = true
	}
	tr := &c25Trace{rmOf: map[int]int{}}
	abs := map[string]int{}
	rel := map[string]int{}
	in := false
	curBackup := ""
	backupName := map[string]string{}
	classify := func(p string) (string, string) { // where, path below dst
		if r, e := filepath.Rel(dst, p); e == nil && !strings.HasPrefix(r, "..") {
			switch {
			case strings.HasPrefix(r, ".gpdb-merge-stage-"):
				return "stage", r
			case strings.Contains(r, ".gpdb-merge-backup-"):
				return "backup", r
			}
			return "dst", r
		}
		if r, e := filepath.Rel(src, p); e == nil && !strings.HasPrefix(r, "..") {
			return "src", r
		}
		return "other", p
	}
	dayKey := func(r string) string { // eth0/2024/01/<day>_<sfx>[.gpdb-merge-backup-N][/file] -> eth0/<day>
		p := strings.Split(r, "/")
		if len(p) < 4 {
			return r
		}
		d := p[3]
		if i := strings.IndexAny(d, "_."); i >= 0 {
			d = d[:i]
		}
		return p[0] + "/" + d
	}
	for _, line := range lines {
		if !strings.HasPrefix(line, mainPid+" ") {
			continue
		}
		if strings.Contains(line, "/verif-marker-begin") {
			in = true
			continue
		}
		if strings.Contains(line, "/verif-marker-end") {
			break
		}
		m := c25Line.FindStringSubmatch(line)
		if m == nil {
			continue
		}
		name, args, ret := m[2], m[3], m[4]
		if !counted[name] {
			continue
		}
		abs[name]++
		if !in {
			continue
		}
		rel[name]++
		ok := !strings.HasPrefix(ret, "-")
		var paths []string
		for _, pm := range c25AtPath.FindAllStringSubmatch(args, -1) {
			p := pm[3]
			if !strings.HasPrefix(p, "/") {
				p = filepath.Join(pm[2], p)
			}
			paths = append(paths, filepath.Clean(p))
		}
		call := c25Call{name: name, k: rel[name], abs: abs[name], c: len(tr.ops), where: "other"}
		switch name {
		case "write":
			if fm := c25FdPath.FindStringSubmatch(args); fm != nil {
				call.where, _ = classify(fm[2])
			}
			if call.where == "other" {
				// not a database file (stdout, pipes of the runtime): no kill point
				continue
			}
		case "openat":
			if len(paths) > 0 {
				call.where, _ = classify(paths[0])
			}
			if call.where == "other" {
				continue
			}
		case "mkdirat":
			if len(paths) > 0 {
				w, r := classify(paths[0])
				call.where = w
				if ok && w == "stage" && !strings.Contains(r, "/") {
					call.coarse = "mkstage"
				} else if ok && w == "dst" {
					call.coarse = "mkdir:" + r
				}
			}
		case "renameat":
			if len(paths) == 2 {
				wf, _ := classify(paths[0])
				wt, rt := classify(paths[1])
				call.where = wt
				if ok && wt == "backup" {
					call.coarse = "renbackup:" + dayKey(rt)
					backupName[dayKey(rt)] = filepath.Base(rt)
				} else if ok && wf == "stage" && wt == "dst" {
					call.coarse = "renfinal:" + dayKey(rt)
					if bn, has := backupName[dayKey(rt)]; has {
						if bn < filepath.Base(rt) {
							tr.ord += "1"
						} else {
							tr.ord += "0"
						}
					}
				} else if ok && !(wf == "stage" && wt == "stage") {
					call.coarse = "rename-unexpected:" + rt
				}
			}
		case "unlinkat":
			if len(paths) > 0 {
				w, r := classify(paths[0])
				call.where = w
				rmdir := strings.Contains(args, "AT_REMOVEDIR")
				switch {
				case ok && w == "backup" && !rmdir:
					call.coarse = "unlink:" + dayKey(r)
					if curBackup != dayKey(r) {
						curBackup = dayKey(r)
						tr.rm = append(tr.rm, "")
					}
					x, known := c25ColIdx[filepath.Base(r)]
					if !known {
						x = "?"
					}
					tr.rm[len(tr.rm)-1] += x
					tr.rmOf[len(tr.ops)] = len(tr.rm) - 1
				case ok && w == "backup" && rmdir:
					call.coarse = "rmdir:" + dayKey(r)
					curBackup = ""
				case ok && w == "stage" && rmdir && !strings.Contains(r, "/"):
					call.coarse = "rmstage"
				case ok && w == "dst":
					call.coarse = "unlink-unexpected:" + r
				}
			}
		}
		if call.coarse != "" {
			tr.ops = append(tr.ops, call.coarse)
		}
		tr.calls = append(tr.calls, call)
	}
	return tr, nil
}

// c25RunChild runs the merge in a child under strace (inject == "": no injection)
func c25RunChild(src, dst string, ow bool, tol int64, inject, trace string) (status string) {
	_ = os.Remove(trace)
	args := []string{"-f", "-y", "-s", "0", "-o", trace, "-e", "trace=%file,%desc"}
	if inject != "" {
		args = append(args, "-e", "inject="+inject)
	}
	args = append(args, os.Args[0], "__child", "merge", src, dst, b2s(ow), strconv.FormatInt(tol, 10))
	cmd := exec.Command("strace", args...)
	cmd.Env = append(os.Environ(), "GOMAXPROCS=1", "TZ=UTC")
	out, err := cmd.Output()
	status = strings.TrimSpace(string(out))
	if err != nil && status == "" {
		status = "killed"
	}
	return
}

// ---------------------------------------------------------------- scenarios (cached per process)

type c25Scenario struct {
	once     sync.Once
	err      string
	dir      string // holds src/ (shared, never modified) and dst0/ (pristine destination)
	tr       *c25Trace
	first    int64
	last     int64
	dryState string
}

var (
	c25Mu        sync.Mutex
	c25Scenarios = map[string]*c25Scenario{}
	c25Tmp       string
)

func c25Get(ow bool, tol int64, srcS, dstS string) *c25Scenario {
	key := fmt.Sprintf("%v %d %s %s", ow, tol, srcS, dstS)
	c25Mu.Lock()
	s := c25Scenarios[key]
	if s == nil {
		s = &c25Scenario{}
		c25Scenarios[key] = s
	}
	c25Mu.Unlock()
	s.once.Do(func() {
		dir, err := os.MkdirTemp(c25Tmp, "scn-")
		if err != nil {
			s.err = "err:setup-tmp"
			return
		}
		s.dir = dir
		src, dst := c25ParseDB(srcS), c25ParseDB(dstS)
		if err := c25WriteDB(filepath.Join(dir, "src"), src); err != nil {
			s.err = "err:setup-write-src"
			return
		}
		if err := c25WriteDB(filepath.Join(dir, "dst0"), dst); err != nil {
			s.err = "err:setup-write-dst"
			return
		}
		s.first, s.last = int64(1)<<62, 0
		for _, db := range [][]c25Iface{src, dst} {
			for _, i := range db {
				for _, d := range i.days {
					for _, b := range d.blocks {
						if b.ts < s.first {
							s.first = b.ts
						}
						if b.ts > s.last {
							s.last = b.ts
						}
					}
				}
			}
		}
		s.first -= 300
		s.last += 300
		// dry run on a copy: the system calls of the uninterrupted merge
		dry := filepath.Join(dir, "dry")
		if err := copyTree(filepath.Join(dir, "dst0"), dry); err != nil {
			s.err = "err:setup-copy"
			return
		}
		st := c25RunChild(filepath.Join(dir, "src"), dry, ow, tol, "", filepath.Join(dir, "trace-dry.txt"))
		s.dryState = st
		tr, err := c25Normalise(filepath.Join(dir, "trace-dry.txt"), filepath.Join(dir, "src"), dry)
		if err != nil {
			s.err = "err:setup-trace"
			return
		}
		s.tr = tr
		if os.Getenv("VERIF_KEEP") == "" {
			_ = os.RemoveAll(dry)
		}
	})
	return s
}

func c25Ifaces(db string) string {
	ifs, err := info.GetInterfaces(db)
	if err != nil {
		return "err:" + errClass(err)
	}
	sort.Strings(ifs)
	for i := range ifs {
		if strings.HasPrefix(ifs[i], ".gpdb-merge-stage-") {
			ifs[i] = ".gpdb-merge-stage-*"
		}
	}
	return listField(ifs)
}

func c25Run(f []string) string {
	if len(f) != 7 {
		return "err:bad-case"
	}
	ow := f[0] == "1"
	tol, _ := strconv.ParseInt(f[1], 10, 64)
	s := c25Get(ow, tol, f[2], f[3])
	if s.err != "" {
		return s.err
	}
	src := filepath.Join(s.dir, "src")
	work, err := os.MkdirTemp(s.dir, "case-")
	if err != nil {
		return "err:setup-tmp"
	}
	if os.Getenv("VERIF_KEEP") == "" {
		defer os.RemoveAll(work)
	} else {
		fmt.Fprintln(os.Stderr, "work dir kept:", work)
	}
	dst := filepath.Join(work, "dst")
	if err := copyTree(filepath.Join(s.dir, "dst0"), dst); err != nil {
		return "err:setup-copy"
	}
	trace := filepath.Join(work, "trace.txt")
	ord := s.tr.ord
	if ord == "" {
		ord = "-"
	}
	out := []string{"ops=" + listField(s.tr.ops), "ord=" + ord}
	rmseen := "-"
	if f[6] == "-" {
		st := c25RunChild(src, dst, ow, tol, "", trace)
		out = append(out, fmt.Sprintf("at=%d", len(s.tr.ops)), "crashed="+st)
	} else {
		p := strings.Split(f[6], ".")
		if len(p) != 3 {
			return "err:bad-kill"
		}
		k, _ := strconv.Atoi(p[1])
		var call *c25Call
		for i := range s.tr.calls {
			if s.tr.calls[i].name == p[0] && s.tr.calls[i].k == k {
				call = &s.tr.calls[i]
			}
		}
		if call == nil {
			return "ops=" + listField(s.tr.ops) + " err:no-such-kill-point"
		}
		st := c25RunChild(src, dst, ow, tol, fmt.Sprintf("%s:signal=SIGKILL:when=%d", call.name, call.abs), trace)
		out = append(out, fmt.Sprintf("at=%d", call.c), "crashed="+st)
		// inside the removal of a backup (some but not all files gone) the order matters: report it
		if call.c < len(s.tr.ops) {
			if ri, isUnlink := s.tr.rmOf[call.c]; isUnlink && call.c > 0 && strings.HasPrefix(s.tr.ops[call.c-1], "unlink:") {
				rmseen = s.tr.rm[ri]
			}
		}
	}
	out = append(out, "rmseen="+rmseen)
	out = append(out, "if1="+c25Ifaces(dst), "q1="+queryRows(dst, "any", s.first, s.last, ""), "l1="+listSummary(dst, s.first, s.last))
	_, merr := goDB.MergeDatabases(context.Background(), c25Opts(src, dst, ow, tol))
	out = append(out, "m2="+c25MergeErr(merr))
	out = append(out, "if2="+c25Ifaces(dst), "q2="+queryRows(dst, "any", s.first, s.last, ""), "l2="+listSummary(dst, s.first, s.last))
	return strings.Join(out, " ")
}

// ---------------------------------------------------------------- generator

const c25Day0 = int64(1704844800) // 2024-01-10 00:00:00 UTC

var c25DayPool = []int64{c25Day0, c25Day0 + 86400, c25Day0 + 22*86400 /* 2024-02-01 */}
var c25Slots = []int64{0, 1, 143, 144, 286, 287}

func c25GenDay(r *Rand, dt int64, pid *int) c25Day {
	n := 1 + r.Intn(3)
	set := map[int64]bool{}
	for i := 0; i < n; i++ {
		set[Pick(r, c25Slots)*300] = true
	}
	var offs []int64
	for o := range set {
		offs = append(offs, o)
	}
	sort.Slice(offs, func(i, j int) bool { return offs[i] < offs[j] })
	d := c25Day{ts: dt}
	for _, o := range offs {
		*pid++
		d.blocks = append(d.blocks, c25Block{ts: dt + o, pid: *pid})
	}
	return d
}

func c25GenScenario(r *Rand) (ow bool, tol int64, src, dst []c25Iface) {
	ow = r.Bool()
	tol = Pick(r, []int64{0, 43200e9, 43200e9, 86400e9})
	pid := 0
	names := []string{"eth0", "eth1"}
	nif := 1 + r.Intn(2)
	for _, name := range names[:nif] {
		si := c25Iface{name: name}
		var di *c25Iface
		if name == "eth0" || r.Chance(1, 2) {
			di = &c25Iface{name: name}
		}
		for _, dt := range c25DayPool {
			inSrc := r.Chance(3, 4)
			if inSrc {
				sd := c25GenDay(r, dt, &pid)
				si.days = append(si.days, sd)
				if di != nil && r.Chance(2, 3) {
					// the destination has the day too: some shared timestamps (same or other payload), some own
					dd := c25Day{ts: dt}
					set := map[int64]int{}
					for _, b := range sd.blocks {
						if r.Bool() {
							if r.Chance(1, 3) {
								set[b.ts] = b.pid
							} else {
								pid++
								set[b.ts] = pid
							}
						}
					}
					if len(set) == 0 || r.Bool() {
						for _, b := range c25GenDay(r, dt, &pid).blocks {
							if _, ok := set[b.ts]; !ok {
								set[b.ts] = b.pid
							}
						}
					}
					var tss []int64
					for ts := range set {
						tss = append(tss, ts)
					}
					sort.Slice(tss, func(a, b int) bool { return tss[a] < tss[b] })
					for _, ts := range tss {
						dd.blocks = append(dd.blocks, c25Block{ts: ts, pid: set[ts]})
					}
					di.days = append(di.days, dd)
				}
			} else if di != nil && r.Chance(1, 2) {
				di.days = append(di.days, c25GenDay(r, dt, &pid))
			}
		}
		if len(si.days) == 0 {
			si.days = append(si.days, c25GenDay(r, c25DayPool[0], &pid))
		}
		src = append(src, si)
		if di != nil {
			dst = append(dst, *di)
		}
	}
	if r.Chance(1, 3) {
		dst = append(dst, c25Iface{name: "wlan0", days: []c25Day{c25GenDay(r, c25DayPool[1], &pid)}})
	}
	return
}

func c25Gen(r *Rand, tier string) []Case {
	// the shared generator's streams for neighbouring seeds are shifted copies of each other:
	// derive a decorrelated stream from its first output
	r = NewRand(r.U64() ^ 0xA5A5A5A55A5A5A5A)
	ns, nfine := 3, 10
	if tier == "thorough" {
		ns, nfine = 30, 40
	}
	var cs []Case
	for i := 0; i < ns; i++ {
		var ow bool
		var tol int64
		var src, dst []c25Iface
		var s *c25Scenario
		// a scenario is interesting when the merge replaces at least one existing day (a backup is made)
		for try := 0; ; try++ {
			ow, tol, src, dst = c25GenScenario(r)
			s = c25Get(ow, tol, c25ShowDB(src), c25ShowDB(dst))
			if s.err != "" {
				panic("C25 generator: " + s.err)
			}
			if len(s.tr.rm) > 0 || try >= 20 || (i%3 == 2 && len(s.tr.ops) > 2) {
				break
			}
		}
		ord := s.tr.ord
		if ord == "" {
			ord = "-"
		}
		head := fmt.Sprintf("C25 %s %d %s %s %s %s", b2s(ow), tol, c25ShowDB(src), c25ShowDB(dst), c25Order(s.tr.rm), ord)
		cls := fmt.Sprintf("ow=%s", b2s(ow))
		var fine []c25Call
		for _, c := range s.tr.calls {
			switch c.name {
			case "mkdirat", "renameat", "unlinkat":
				kind := "fine"
				if c.coarse != "" {
					kind = strings.SplitN(c.coarse, ":", 2)[0]
				}
				cs = append(cs, Case{Line: fmt.Sprintf("%s %s.%d.%d", head, c.name, c.k, c.c), Class: cls + ":kill-" + c.name + ":" + kind, NonTrivial: true})
			default:
				fine = append(fine, c)
			}
		}
		for j := 0; j < nfine && len(fine) > 0; j++ {
			x := r.Intn(len(fine))
			c := fine[x]
			fine = append(fine[:x], fine[x+1:]...)
			cs = append(cs, Case{Line: fmt.Sprintf("%s %s.%d.%d", head, c.name, c.k, c.c), Class: cls + ":kill-" + c.name + ":" + c.where, NonTrivial: true})
		}
		cs = append(cs, Case{Line: head + " -", Class: cls + ":no-kill", NonTrivial: false})
	}
	return cs
}

func c25Order(xs []string) string {
	if len(xs) == 0 {
		return "-"
	}
	for _, x := range xs {
		if x != xs[0] {
			return "mixed"
		}
	}
	return xs[0]
}

func init() {
	register(&Prop{
		ID:   "C25",
		Rule: "seeded pairs of source/destination databases written with the real DBWriter (1-2 source interfaces, up to 3 days incl. a month boundary, 1-3 blocks per day on slots at the start / middle / end of the day; each day in both, only in the source or only in the destination, with shared and own block timestamps; overwrite on/off; tolerance default / 12 h / 24 h so that copy, rebuild and skip plans all occur) and, for EVERY mkdirat / renameat / unlinkat of the main thread of the real MergeDatabases (enumerated from a strace dry run) plus a seeded sample of its openat / write calls, a run in which the merging child process is killed by SIGKILL at the entry of that system call (strace injection); afterwards info.GetInterfaces, the real query engine on `any` and ReadMetadata run on the damaged destination, a second full merge runs in-process and the readers run again. The coarse event list of the dry run (stage root, directories created in the destination tree, the two renames, removal of the backup file by file, stage removal) must equal the model's program. Non-trivial: every kill case. Distinct = distinct (scenario, system call).",
		Gen:  c25Gen,
		Run:  c25Run,
		Init: func(string) error {
			d, err := os.MkdirTemp("", "verif-c25-")
			c25Tmp = d
			return err
		},
		Done: func() {
			if os.Getenv("VERIF_KEEP") == "" {
				_ = os.RemoveAll(c25Tmp)
			}
		},
		Parallel: 8,
	})
}
